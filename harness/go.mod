module verifharness

go 1.25.0

require (
	github.com/anishathalye/porcupine v1.3.0
	github.com/codenotary/immudb v0.0.0
	github.com/google/uuid v1.6.0
	github.com/prometheus/client_golang v1.12.2
	github.com/prometheus/client_model v0.2.0
	google.golang.org/protobuf v1.36.10
)

require (
	github.com/beorn7/perks v1.0.1 // indirect
	github.com/cespare/xxhash/v2 v2.3.0 // indirect
	github.com/golang/protobuf v1.5.4 // indirect
	github.com/grpc-ecosystem/grpc-gateway v1.16.0 // indirect
	github.com/matttproud/golang_protobuf_extensions v1.0.1 // indirect
	github.com/prometheus/common v0.32.1 // indirect
	github.com/prometheus/procfs v0.7.3 // indirect
	golang.org/x/net v0.55.0 // indirect
	golang.org/x/sync v0.20.0 // indirect
	golang.org/x/sys v0.45.0 // indirect
	golang.org/x/text v0.37.0 // indirect
	google.golang.org/genproto v0.0.0-20230803162519-f966b187b2e5 // indirect
	google.golang.org/genproto/googleapis/api v0.0.0-20251202230838-ff82c1b0f217 // indirect
	google.golang.org/genproto/googleapis/rpc v0.0.0-20251202230838-ff82c1b0f217 // indirect
	google.golang.org/grpc v1.79.3 // indirect
)

replace github.com/codenotary/immudb => /repo
