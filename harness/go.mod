module verifharness

go 1.25.0

require (
	github.com/anishathalye/porcupine v1.3.0
	github.com/codenotary/immudb v0.0.0
	github.com/google/uuid v1.6.0
	github.com/jackc/pgx/v5 v5.9.2
	github.com/prometheus/client_golang v1.12.2
	github.com/prometheus/client_model v0.2.0
	google.golang.org/protobuf v1.36.10
)

require (
	github.com/beorn7/perks v1.0.1 // indirect
	github.com/cespare/xxhash/v2 v2.3.0 // indirect
	github.com/golang/protobuf v1.5.4 // indirect
	github.com/grpc-ecosystem/grpc-gateway v1.16.0 // indirect
	github.com/matttproud/golang_protobuf_extensions v1.0.1 // indirect
	github.com/prometheus/common v0.32.1 // indirect
	github.com/prometheus/procfs v0.7.3 // indirect
	golang.org/x/net v0.55.0 // indirect
	golang.org/x/sync v0.20.0 // indirect
	golang.org/x/sys v0.45.0 // indirect
	golang.org/x/text v0.37.0 // indirect
	google.golang.org/genproto v0.0.0-20230803162519-f966b187b2e5 // indirect
	google.golang.org/genproto/googleapis/api v0.0.0-20251202230838-ff82c1b0f217 // indirect
	google.golang.org/genproto/googleapis/rpc v0.0.0-20251202230838-ff82c1b0f217 // indirect
	google.golang.org/grpc v1.79.3
)

replace github.com/codenotary/immudb => /repo

require (
	github.com/Masterminds/goutils v1.1.1 // indirect
	github.com/Masterminds/semver v1.5.0 // indirect
	github.com/Masterminds/sprig v2.22.0+incompatible // indirect
	github.com/aead/chacha20 v0.0.0-20180709150244-8b13a72661da // indirect
	github.com/aead/chacha20poly1305 v0.0.0-20201124145622-1a5aba2a8b29 // indirect
	github.com/aead/poly1305 v0.0.0-20180717145839-3fee0db0b635 // indirect
	github.com/apapsch/go-jsonmerge/v2 v2.0.0 // indirect
	github.com/auxten/postgresql-parser v1.0.1 // indirect
	github.com/certifi/gocertifi v0.0.0-20200922220541-2c3bb06c6054 // indirect
	github.com/cespare/xxhash v1.1.0 // indirect
	github.com/cockroachdb/apd v1.1.1-0.20181017181144-bced77f817b4 // indirect
	github.com/cockroachdb/errors v1.8.2 // indirect
	github.com/cockroachdb/logtags v0.0.0-20190617123548-eb05cc24525f // indirect
	github.com/cockroachdb/redact v1.0.8 // indirect
	github.com/cockroachdb/sentry-go v0.6.1-cockroachdb.2 // indirect
	github.com/cpuguy83/go-md2man/v2 v2.0.2 // indirect
	github.com/davecgh/go-spew v1.1.1 // indirect
	github.com/dgraph-io/ristretto v0.0.2 // indirect
	github.com/dustin/go-humanize v1.0.0 // indirect
	github.com/envoyproxy/protoc-gen-validate v1.3.0 // indirect
	github.com/fatih/color v1.13.0 // indirect
	github.com/fsnotify/fsnotify v1.6.0 // indirect
	github.com/getsentry/raven-go v0.2.0 // indirect
	github.com/ghodss/yaml v1.0.0 // indirect
	github.com/gizak/termui/v3 v3.1.0 // indirect
	github.com/gogo/protobuf v1.3.2 // indirect
	github.com/golang/glog v1.2.5 // indirect
	github.com/grpc-ecosystem/go-grpc-middleware v1.3.0 // indirect
	github.com/grpc-ecosystem/go-grpc-prometheus v1.2.0 // indirect
	github.com/grpc-ecosystem/grpc-gateway/v2 v2.17.0 // indirect
	github.com/hashicorp/hcl v1.0.0 // indirect
	github.com/huandu/xstrings v1.3.2 // indirect
	github.com/imdario/mergo v0.3.13 // indirect
	github.com/inconshreveable/mousetrap v1.0.1 // indirect
	github.com/influxdata/influxdb-client-go/v2 v2.13.0 // indirect
	github.com/influxdata/line-protocol v0.0.0-20200327222509-2487e7298839 // indirect
	github.com/jackc/pgpassfile v1.0.0 // indirect
	github.com/jackc/pgservicefile v0.0.0-20240606120523-5a60cdf6a761 // indirect
	github.com/jaswdr/faker v1.16.0 // indirect
	github.com/kr/pretty v0.3.1 // indirect
	github.com/kr/text v0.2.0 // indirect
	github.com/lib/pq v1.10.9 // indirect
	github.com/magiconair/properties v1.8.7 // indirect
	github.com/mattn/go-colorable v0.1.13 // indirect
	github.com/mattn/go-isatty v0.0.19 // indirect
	github.com/mattn/go-runewidth v0.0.13 // indirect
	github.com/mattn/goveralls v0.0.11 // indirect
	github.com/mitchellh/colorstring v0.0.0-20190213212951-d06e56a500db // indirect
	github.com/mitchellh/copystructure v1.2.0 // indirect
	github.com/mitchellh/go-wordwrap v1.0.1 // indirect
	github.com/mitchellh/mapstructure v1.5.0 // indirect
	github.com/mitchellh/reflectwalk v1.0.2 // indirect
	github.com/mwitkow/go-proto-validators v0.0.0-20180403085117-0950a7990007 // indirect
	github.com/nsf/termbox-go v1.1.1 // indirect
	github.com/o1egl/paseto v1.0.0 // indirect
	github.com/oapi-codegen/runtime v1.0.0 // indirect
	github.com/olekukonko/tablewriter v0.0.5 // indirect
	github.com/ory/go-acc v0.2.8 // indirect
	github.com/ory/viper v1.7.5 // indirect
	github.com/pborman/uuid v1.2.0 // indirect
	github.com/pelletier/go-toml v1.9.5 // indirect
	github.com/pelletier/go-toml/v2 v2.0.9 // indirect
	github.com/peterh/liner v1.2.1 // indirect
	github.com/pkg/errors v0.9.1 // indirect
	github.com/pmezard/go-difflib v1.0.0 // indirect
	github.com/pseudomuto/protoc-gen-doc v1.4.1 // indirect
	github.com/pseudomuto/protokit v0.2.1 // indirect
	github.com/rivo/uniseg v0.2.0 // indirect
	github.com/rogpeppe/go-internal v1.9.0 // indirect
	github.com/rs/xid v1.5.0 // indirect
	github.com/russross/blackfriday/v2 v2.1.0 // indirect
	github.com/schollz/progressbar/v2 v2.15.0 // indirect
	github.com/sirupsen/logrus v1.9.3 // indirect
	github.com/spf13/afero v1.10.0 // indirect
	github.com/spf13/cast v1.5.0 // indirect
	github.com/spf13/cobra v1.6.1 // indirect
	github.com/spf13/jwalterweatherman v1.1.0 // indirect
	github.com/spf13/pflag v1.0.5 // indirect
	github.com/spf13/viper v1.15.0 // indirect
	github.com/stretchr/testify v1.11.1 // indirect
	github.com/subosito/gotenv v1.4.2 // indirect
	github.com/takama/daemon v0.12.0 // indirect
	go.uber.org/goleak v1.3.0 // indirect
	golang.org/x/crypto v0.52.0 // indirect
	golang.org/x/mod v0.35.0 // indirect
	golang.org/x/term v0.43.0 // indirect
	golang.org/x/tools v0.44.0 // indirect
	golang.org/x/tools/cmd/cover v0.1.0-deprecated // indirect
	google.golang.org/grpc/cmd/protoc-gen-go-grpc v1.1.0 // indirect
	gopkg.in/ini.v1 v1.67.0 // indirect
	gopkg.in/yaml.v2 v2.4.0 // indirect
	gopkg.in/yaml.v3 v3.0.1 // indirect
)
