// Package sqlmodel is a small reference interpreter for the SQL subset that the
// monitors GENERATE (it is not a SQL engine and must never be fed anything else):
//
//   - tables with one INTEGER primary key (plain or AUTO_INCREMENT) and nullable
//     or NOT NULL INTEGER / VARCHAR / BOOLEAN columns;
//   - INSERT (one or several rows), UPSERT, UPDATE … SET col = const … WHERE p,
//     DELETE … WHERE p, SELECT cols FROM t [WHERE p] ORDER BY pk, SELECT COUNT(*);
//   - p is a conjunction of comparisons of one column with a constant; every
//     comparison on a nullable column is rendered guarded (`c IS NOT NULL AND c < 5`)
//     so that three-valued logic never decides anything; plus `c IS NULL`;
//   - secondary indexes over one to three columns, non-unique (no effect on results: a query
//     or UPDATE/DELETE may name one with USE INDEX ON, rows are then compared in key order)
//     and UNIQUE over NOT NULL columns (a second row with the same values is a duplicate);
//   - a bounded DDL subset inside transactions: ALTER TABLE t DROP CONSTRAINT name (named
//     CHECK constraints of the shape `col op const` on a NOT NULL column), ALTER TABLE t
//     ADD COLUMN x INTEGER (the new column is never written, only probed with
//     `x IS NULL`), CREATE INDEX ON t(col) (no effect on results); DDL is part of the
//     transaction's private state like any other change, so another transaction sees it
//     only once it is committed; programs with DDL use no savepoints;
//   - SAVEPOINT / ROLLBACK TO SAVEPOINT / RELEASE SAVEPOINT with unique names,
//     where a name is never used again after it was rolled back to or released
//     (the engines disagree on the lifetime of a name; the programs avoid the question).
//
// A Tx works on a private copy of a snapshot (so its own earlier changes are
// visible to its later statements and to nobody else); a savepoint is a copy of
// that private state plus the counters. Per statement the interpreter reports
// the rows, the cumulative affected-row count and the generated keys (first and
// last key per AUTO_INCREMENT table), which is what sql.SQLTx exposes.
//
// Facts learnt from the engine and modelled exactly: a failed statement aborts
// the whole transaction (Engine.ExecPreparedStmts cancels it); per inserted row
// the NOT NULL check precedes the CHECK constraints, which precede the duplicate-key check; the AUTO_INCREMENT
// counter is the largest key ever committed (deleted rows included) and is not
// given back by ROLLBACK TO SAVEPOINT (as with PostgreSQL sequences).
//
// KeepWrites selects the second interpreter used for attribution only: ROLLBACK
// TO SAVEPOINT restores the counters and leaves every write in place.
package sqlmodel

import (
	"fmt"
	"sort"
	"strconv"
	"strings"
)

type Kind int

const (
	Int Kind = iota
	Str
	Bool
)

type Col struct {
	Name    string
	Kind    Kind
	NotNull bool
}

// Schema: Cols[0] is the primary key (INTEGER).
type Schema struct {
	Name    string
	AutoInc bool
	Cols    []Col
	Index   []string       // secondary non-unique indexes, each "col" or "col1, col2[, col3]"; irrelevant to the model
	Unique  []string       // secondary UNIQUE indexes in the same notation, over NOT NULL columns; enforced
	Checks  map[string]Cmp // named CHECK constraints the table is created with
}

// colIndex is ColIdx for names that may be columns added later (-1).
func (s *Schema) colIndex(name string) int {
	for i, c := range s.Cols {
		if c.Name == name {
			return i
		}
	}
	return -1
}

func (s *Schema) ColIdx(name string) int {
	for i, c := range s.Cols {
		if c.Name == name {
			return i
		}
	}
	panic("sqlmodel: no column " + name + " in " + s.Name)
}

// Val is nil (NULL), int64, string or bool.
type Val = any
type Row []Val

type Table struct {
	Schema *Schema
	Rows   map[int64]Row
	MaxPK  int64
	Checks map[string]Cmp  // CHECK constraints in force
	Extra  map[string]bool // columns added by ALTER TABLE (always NULL)
	Idx    map[string]bool // columns indexed by CREATE INDEX after the table was created
}

type DB struct{ Tables map[string]*Table }

func NewDB() *DB { return &DB{Tables: map[string]*Table{}} }

func (db *DB) Clone() *DB {
	out := NewDB()
	for n, t := range db.Tables {
		nt := &Table{Schema: t.Schema, Rows: make(map[int64]Row, len(t.Rows)), MaxPK: t.MaxPK}
		for k, r := range t.Rows {
			nt.Rows[k] = append(Row(nil), r...)
		}
		nt.Checks, nt.Extra, nt.Idx = map[string]Cmp{}, map[string]bool{}, map[string]bool{}
		for k, v := range t.Checks {
			nt.Checks[k] = v
		}
		for k := range t.Extra {
			nt.Extra[k] = true
		}
		for k := range t.Idx {
			nt.Idx[k] = true
		}
		out.Tables[n] = nt
	}
	return out
}

// Sorted returns the rows of a table in primary-key order.
func (t *Table) Sorted() []Row {
	keys := make([]int64, 0, len(t.Rows))
	for k := range t.Rows {
		keys = append(keys, k)
	}
	sort.Slice(keys, func(i, j int) bool { return keys[i] < keys[j] })
	out := make([]Row, len(keys))
	for i, k := range keys {
		out[i] = t.Rows[k]
	}
	return out
}

func TableEqual(a, b *Table) bool {
	if a.MaxPK != b.MaxPK || len(a.Rows) != len(b.Rows) {
		return false
	}
	return RowsEqual(a.Sorted(), b.Sorted())
}

func RowsEqual(a, b []Row) bool {
	if len(a) != len(b) {
		return false
	}
	for i := range a {
		if len(a[i]) != len(b[i]) {
			return false
		}
		for j := range a[i] {
			if a[i][j] != b[i][j] {
				return false
			}
		}
	}
	return true
}

// Cmp is one comparison: Op ∈ < <= > >= = <> isnull notnull.
type Cmp struct {
	Col string
	Op  string
	Val Val
}

type Pred []Cmp

func lit(v Val) string {
	switch x := v.(type) {
	case nil:
		return "NULL"
	case int64:
		return strconv.FormatInt(x, 10)
	case string:
		return "'" + x + "'"
	case bool:
		if x {
			return "true"
		}
		return "false"
	}
	panic(fmt.Sprintf("sqlmodel: literal %T", v))
}

func (p Pred) sql(s *Schema) string {
	if len(p) == 0 {
		return ""
	}
	parts := make([]string, len(p))
	for i, c := range p {
		switch {
		case c.Op == "isnull":
			parts[i] = c.Col + " IS NULL"
		case c.Op == "notnull":
			parts[i] = c.Col + " IS NOT NULL"
		case s.colIndex(c.Col) == 0: // the primary key is never NULL
			parts[i] = fmt.Sprintf("%s %s %s", c.Col, c.Op, lit(c.Val))
		default:
			parts[i] = fmt.Sprintf("%s IS NOT NULL AND %s %s %s", c.Col, c.Col, c.Op, lit(c.Val))
		}
	}
	return " WHERE " + strings.Join(parts, " AND ")
}

func cmpVals(a, b Val) int {
	switch x := a.(type) {
	case int64:
		y := b.(int64)
		switch {
		case x < y:
			return -1
		case x > y:
			return 1
		}
		return 0
	case string:
		return strings.Compare(x, b.(string))
	case bool:
		y := b.(bool)
		switch {
		case x == y:
			return 0
		case !x:
			return -1
		}
		return 1
	}
	panic("sqlmodel: compare")
}

func (p Pred) match(s *Schema, r Row) bool {
	for _, c := range p {
		var v Val // a column added by ALTER TABLE is NULL in every row
		if i := s.colIndex(c.Col); i >= 0 {
			v = r[i]
		}
		switch c.Op {
		case "isnull":
			if v != nil {
				return false
			}
			continue
		case "notnull":
			if v == nil {
				return false
			}
			continue
		}
		if v == nil {
			return false
		}
		o := cmpVals(v, c.Val)
		ok := false
		switch c.Op {
		case "<":
			ok = o < 0
		case "<=":
			ok = o <= 0
		case ">":
			ok = o > 0
		case ">=":
			ok = o >= 0
		case "=":
			ok = o == 0
		case "<>":
			ok = o != 0
		default:
			panic("sqlmodel: operator " + c.Op)
		}
		if !ok {
			return false
		}
	}
	return true
}

// Statement kinds.
const (
	Create      = "create"
	Insert      = "insert"
	Upsert      = "upsert"
	Update      = "update"
	Delete      = "delete"
	Select      = "select"
	Count       = "count"
	DropCheck   = "dropcheck"   // ALTER TABLE Table DROP CONSTRAINT Name
	AddColumn   = "addcolumn"   // ALTER TABLE Table ADD COLUMN Name INTEGER
	CreateIndex = "createindex" // CREATE INDEX ON Table(Name)
	Savepoint   = "savepoint"
	RollbackTo  = "rollbackto"
	Release     = "release"
)

type Assign struct {
	Col string
	Val Val
}

type Stmt struct {
	Kind   string
	Table  string
	Schema *Schema  // Create
	Cols   []string // Insert/Upsert column list, Select projection
	Rows   [][]Val  // Insert/Upsert
	Set    []Assign // Update
	Where  Pred
	Hint   string // Select/Count/Update/Delete: USE INDEX ON (Hint); the model ignores it, rows are compared in key order
	Name   string // savepoint name
}

func (s *Stmt) IsDML() bool {
	return s.Kind == Insert || s.Kind == Upsert || s.Kind == Update || s.Kind == Delete || s.Kind == Create || s.IsDDL()
}
func (s *Stmt) IsDDL() bool {
	return s.Kind == DropCheck || s.Kind == AddColumn || s.Kind == CreateIndex
}
func (s *Stmt) IsQuery() bool { return s.Kind == Select || s.Kind == Count }

// SQL renders the statement; sch is the schema of s.Table (nil for Create / savepoint statements).
func (s *Stmt) SQL(sch *Schema) string {
	switch s.Kind {
	case Create:
		var cols []string
		for i, c := range s.Schema.Cols {
			d := c.Name + " " + [...]string{"INTEGER", "VARCHAR[64]", "BOOLEAN"}[c.Kind]
			if i == 0 && s.Schema.AutoInc {
				d += " AUTO_INCREMENT"
			} else if c.NotNull && i > 0 {
				d += " NOT NULL"
			}
			cols = append(cols, d)
		}
		names := make([]string, 0, len(s.Schema.Checks))
		for n := range s.Schema.Checks {
			names = append(names, n)
		}
		sort.Strings(names)
		for _, n := range names {
			c := s.Schema.Checks[n]
			cols = append(cols, fmt.Sprintf("CONSTRAINT %s CHECK (%s %s %s)", n, c.Col, c.Op, lit(c.Val)))
		}
		out := fmt.Sprintf("CREATE TABLE %s (%s, PRIMARY KEY %s)", s.Schema.Name, strings.Join(cols, ", "), s.Schema.Cols[0].Name)
		for _, ix := range s.Schema.Index {
			out += fmt.Sprintf("; CREATE INDEX ON %s(%s)", s.Schema.Name, ix)
		}
		for _, ix := range s.Schema.Unique {
			out += fmt.Sprintf("; CREATE UNIQUE INDEX ON %s(%s)", s.Schema.Name, ix)
		}
		return out
	case Insert, Upsert:
		rows := make([]string, len(s.Rows))
		for i, r := range s.Rows {
			vs := make([]string, len(r))
			for j, v := range r {
				vs[j] = lit(v)
			}
			rows[i] = "(" + strings.Join(vs, ", ") + ")"
		}
		return fmt.Sprintf("%s INTO %s(%s) VALUES %s", strings.ToUpper(s.Kind), s.Table, strings.Join(s.Cols, ", "), strings.Join(rows, ", "))
	case Update:
		sets := make([]string, len(s.Set))
		for i, a := range s.Set {
			sets[i] = a.Col + " = " + lit(a.Val)
		}
		return fmt.Sprintf("UPDATE %s SET %s%s%s", s.Table, strings.Join(sets, ", "), s.Where.sql(sch), s.dmlHint())
	case Delete:
		return fmt.Sprintf("DELETE FROM %s%s%s", s.Table, s.Where.sql(sch), s.dmlHint())
	case Select, Count:
		from := s.Table
		if s.Hint != "" {
			from += " USE INDEX ON (" + s.Hint + ")"
		}
		if s.Kind == Count {
			return fmt.Sprintf("SELECT COUNT(*) FROM %s%s", from, s.Where.sql(sch))
		}
		q := fmt.Sprintf("SELECT %s FROM %s%s", strings.Join(s.Cols, ", "), from, s.Where.sql(sch))
		if s.Hint == "" {
			q += " ORDER BY " + sch.Cols[0].Name
		}
		return q
	case DropCheck:
		return fmt.Sprintf("ALTER TABLE %s DROP CONSTRAINT %s", s.Table, s.Name)
	case AddColumn:
		return fmt.Sprintf("ALTER TABLE %s ADD COLUMN %s INTEGER", s.Table, s.Name)
	case CreateIndex:
		return fmt.Sprintf("CREATE INDEX ON %s(%s)", s.Table, s.Name)
	case Savepoint:
		return "SAVEPOINT " + s.Name
	case RollbackTo:
		return "ROLLBACK TO SAVEPOINT " + s.Name
	case Release:
		return "RELEASE SAVEPOINT " + s.Name
	}
	panic("sqlmodel: kind " + s.Kind)
}

func (s *Stmt) dmlHint() string {
	if s.Hint == "" {
		return ""
	}
	return " USE INDEX ON (" + s.Hint + ")"
}

// Error classes of a failed statement.
const (
	ErrDup      = "duplicate-key"
	ErrNotNull  = "not-null"
	ErrExists   = "table-exists"
	ErrNoSP     = "no-savepoint"
	ErrCheck    = "check-violation"
	ErrNoCheck  = "no-such-constraint"
	ErrNoColumn = "no-such-column"
	ErrColumn   = "column-exists"
	ErrIndex    = "index-exists"
)

// Result of one statement. Updated, First and Last are the transaction's
// cumulative counters after the statement (the engine exposes exactly those).
type Result struct {
	Err     string
	Rows    []Row // Select: projected rows in key order; Count: one row with one int64
	Updated int
	First   map[string]int64
	Last    map[string]int64
}

type savepoint struct {
	name    string
	db      *DB
	updated int
	first   map[string]int64
	last    map[string]int64
}

type Tx struct {
	DB         *DB
	KeepWrites bool

	Aborted bool
	Updated int
	First   map[string]int64
	Last    map[string]int64
	sps     []savepoint
}

// Begin starts a transaction on a private copy of snapshot.
func Begin(snapshot *DB, keepWrites bool) *Tx {
	return &Tx{DB: snapshot.Clone(), KeepWrites: keepWrites, First: map[string]int64{}, Last: map[string]int64{}}
}

func cpMap(m map[string]int64) map[string]int64 {
	out := make(map[string]int64, len(m))
	for k, v := range m {
		out[k] = v
	}
	return out
}

func (tx *Tx) fail(class string) Result {
	tx.Aborted = true
	return Result{Err: class, Updated: tx.Updated, First: cpMap(tx.First), Last: cpMap(tx.Last)}
}

// Exec interprets one statement. After a failed statement the transaction is aborted.
func (tx *Tx) Exec(s *Stmt) Result {
	if tx.Aborted {
		panic("sqlmodel: statement after abort")
	}
	var rows []Row
	switch s.Kind {
	case Create:
		if _, ok := tx.DB.Tables[s.Schema.Name]; ok {
			return tx.fail(ErrExists)
		}
		nt := &Table{Schema: s.Schema, Rows: map[int64]Row{}, Checks: map[string]Cmp{}, Extra: map[string]bool{}, Idx: map[string]bool{}}
		for n, c := range s.Schema.Checks {
			nt.Checks[n] = c
		}
		tx.DB.Tables[s.Schema.Name] = nt
	case Insert, Upsert:
		t := tx.DB.Tables[s.Table]
		sch := t.Schema
		for _, vals := range s.Rows {
			row := make(Row, len(sch.Cols))
			given := make([]bool, len(sch.Cols))
			for i, c := range s.Cols {
				row[sch.ColIdx(c)], given[sch.ColIdx(c)] = vals[i], true
			}
			for i, c := range sch.Cols {
				if i > 0 && c.NotNull && row[i] == nil {
					return tx.fail(ErrNotNull)
				}
			}
			if !t.checksHold(row) {
				return tx.fail(ErrCheck)
			}
			if sch.AutoInc && !given[0] {
				t.MaxPK++
				row[0] = t.MaxPK
				if _, ok := tx.First[sch.Name]; !ok {
					tx.First[sch.Name] = t.MaxPK
				}
				tx.Last[sch.Name] = t.MaxPK
			}
			pk := row[0].(int64)
			if _, exists := t.Rows[pk]; exists && s.Kind == Insert {
				return tx.fail(ErrDup)
			}
			if t.uniqueTaken(row) {
				return tx.fail(ErrDup)
			}

			t.Rows[pk] = row
			if pk > t.MaxPK {
				t.MaxPK = pk
			}
			tx.Updated++
		}
	case Update:
		t := tx.DB.Tables[s.Table]
		for _, r := range t.Sorted() {
			if s.Where.match(t.Schema, r) {
				for _, a := range s.Set {
					r[t.Schema.ColIdx(a.Col)] = a.Val
				}
				if !t.checksHold(r) {
					return tx.fail(ErrCheck)
				}
				if t.uniqueTaken(r) {
					return tx.fail(ErrDup)
				}
				tx.Updated++
			}
		}
	case Delete:
		t := tx.DB.Tables[s.Table]
		for _, r := range t.Sorted() {
			if s.Where.match(t.Schema, r) {
				delete(t.Rows, r[0].(int64))
				tx.Updated++
			}
		}
	case DropCheck:
		t := tx.DB.Tables[s.Table]
		if _, ok := t.Checks[s.Name]; !ok {
			return tx.fail(ErrNoCheck)
		}
		delete(t.Checks, s.Name)
	case AddColumn:
		t := tx.DB.Tables[s.Table]
		if t.Extra[s.Name] || t.Schema.colIndex(s.Name) >= 0 {
			return tx.fail(ErrColumn)
		}
		t.Extra[s.Name] = true
	case CreateIndex:
		t := tx.DB.Tables[s.Table]
		for _, ix := range t.Schema.Index {
			if ix == s.Name {
				return tx.fail(ErrIndex)
			}
		}
		if t.Idx[s.Name] {
			return tx.fail(ErrIndex)
		}
		t.Idx[s.Name] = true
	case Select, Count:
		t := tx.DB.Tables[s.Table]
		for _, c := range s.Where {
			if t.Schema.colIndex(c.Col) < 0 && !t.Extra[c.Col] {
				return tx.fail(ErrNoColumn)
			}
		}
		n := int64(0)
		for _, r := range t.Sorted() {
			if !s.Where.match(t.Schema, r) {
				continue
			}
			n++
			if s.Kind == Select {
				out := make(Row, len(s.Cols))
				for i, c := range s.Cols {
					out[i] = r[t.Schema.ColIdx(c)]
				}
				rows = append(rows, out)
			}
		}
		if s.Kind == Count {
			rows = []Row{{n}}
		}
	case Savepoint:
		tx.sps = append(tx.sps, savepoint{s.Name, tx.DB.Clone(), tx.Updated, cpMap(tx.First), cpMap(tx.Last)})
	case RollbackTo, Release:
		i := len(tx.sps) - 1
		for ; i >= 0 && tx.sps[i].name != s.Name; i-- {
		}
		if i < 0 {
			return tx.fail(ErrNoSP)
		}
		if s.Kind == RollbackTo {
			sp := tx.sps[i]
			tx.Updated, tx.First, tx.Last = sp.updated, sp.first, sp.last
			if !tx.KeepWrites {
				cur := tx.DB
				tx.DB = sp.db
				for n, t := range tx.DB.Tables { // the key counter is not given back
					if c, ok := cur.Tables[n]; ok && c.MaxPK > t.MaxPK && t.Schema.AutoInc {
						t.MaxPK = c.MaxPK
					}
				}
			}
		}
		tx.sps = tx.sps[:i]
	default:
		panic("sqlmodel: kind " + s.Kind)
	}
	return Result{Rows: rows, Updated: tx.Updated, First: cpMap(tx.First), Last: cpMap(tx.Last)}
}

// uniqueTaken: another row (another key) already holds the values of row in the columns of
// one of the UNIQUE indexes (those columns are NOT NULL).
func (t *Table) uniqueTaken(row Row) bool {
	for _, ix := range t.Schema.Unique {
		cols := strings.Split(ix, ", ")
		for pk, other := range t.Rows {
			if pk == row[0].(int64) {
				continue
			}
			same := true
			for _, c := range cols {
				i := t.Schema.ColIdx(c)
				same = same && other[i] == row[i]
			}
			if same {
				return true
			}
		}
	}
	return false
}

// checksHold evaluates the CHECK constraints in force on a row (constrained columns are NOT NULL).
func (t *Table) checksHold(r Row) bool {
	for _, c := range t.Checks {
		if !(Pred{c}).match(t.Schema, r) {
			return false
		}
	}
	return true
}

// SelfCheck runs a tiny fixed program through both interpreters; it returns an
// error text when the interpreter does not do what its doc comment says.
func SelfCheck() string {
	sch := &Schema{Name: "t", AutoInc: true, Cols: []Col{{"id", Int, true}, {"n", Int, false}, {"s", Str, true}}}
	base := NewDB()
	tx := Begin(base, false)
	tx.Exec(&Stmt{Kind: Create, Schema: sch})
	r := tx.Exec(&Stmt{Kind: Insert, Table: "t", Cols: []string{"n", "s"}, Rows: [][]Val{{int64(1), "a"}, {nil, "b"}}})
	if r.Updated != 2 || r.First["t"] != 1 || r.Last["t"] != 2 {
		return "insert counters"
	}
	committed := tx.DB
	for _, keep := range []bool{false, true} {
		tx = Begin(committed, keep)
		tx.Exec(&Stmt{Kind: Savepoint, Name: "s1"})
		tx.Exec(&Stmt{Kind: Update, Table: "t", Set: []Assign{{"n", int64(9)}}, Where: Pred{{"n", "isnull", nil}}})
		tx.Exec(&Stmt{Kind: Delete, Table: "t", Where: Pred{{"n", "<", int64(5)}}})
		r = tx.Exec(&Stmt{Kind: RollbackTo, Name: "s1"})
		if r.Updated != 0 {
			return "rollback-to counters"
		}
		r = tx.Exec(&Stmt{Kind: Select, Table: "t", Cols: []string{"id", "n"}, Where: Pred{{"id", ">=", int64(1)}}})
		want := []Row{{int64(1), int64(1)}, {int64(2), nil}}
		if keep {
			want = []Row{{int64(2), int64(9)}}
		}
		if !RowsEqual(r.Rows, want) {
			return fmt.Sprintf("rollback-to rows keep=%v: %v", keep, r.Rows)
		}
		r = tx.Exec(&Stmt{Kind: Insert, Table: "t", Cols: []string{"n"}, Rows: [][]Val{{int64(3)}}})
		if r.Err != ErrNotNull || !tx.Aborted {
			return "not-null"
		}
	}
	if len(committed.Tables["t"].Rows) != 2 || len(base.Tables) != 0 {
		return "snapshot was modified"
	}
	csch := &Schema{Name: "c", Cols: []Col{{"id", Int, true}, {"n", Int, true}}, Checks: map[string]Cmp{"small": {"n", "<", int64(100)}}}
	tx = Begin(base, false)
	tx.Exec(&Stmt{Kind: Create, Schema: csch})
	withCheck := tx.DB
	bad := &Stmt{Kind: Insert, Table: "c", Cols: []string{"id", "n"}, Rows: [][]Val{{int64(1), int64(500)}}}
	tx = Begin(withCheck, false)
	if tx.Exec(&Stmt{Kind: DropCheck, Table: "c", Name: "small"}).Err != "" || tx.Exec(bad).Err != "" {
		return "drop constraint inside the transaction"
	}
	if Begin(withCheck, false).Exec(bad).Err != ErrCheck {
		return "an uncommitted DROP CONSTRAINT leaked into the snapshot"
	}
	if q := (&Stmt{Kind: Select, Table: "t", Cols: []string{"id"}, Where: Pred{{"n", "<", int64(5)}, {"s", "isnull", nil}}}).SQL(sch); q != "SELECT id FROM t WHERE n IS NOT NULL AND n < 5 AND s IS NULL ORDER BY id" {
		return "rendering: " + q
	}
	return ""
}
