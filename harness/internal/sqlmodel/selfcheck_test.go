package sqlmodel

import "testing"

func TestSelfCheck(t *testing.T) {
	if e := SelfCheck(); e != "" {
		t.Fatal(e)
	}
}
