// Package ledger is the thread-safe ground truth of acknowledged commits, and
// the audit of a live store against it (shared by C02, C03, C07, C14).
package ledger

import (
	"bytes"
	"crypto/sha256"
	"errors"
	"fmt"
	"sort"
	"sync"

	"github.com/codenotary/immudb/embedded/store"
)

type Entry struct {
	Key   []byte
	Value []byte
	MD    []byte // KVMetadata.Bytes() (nil when none)
}

type Rec struct {
	ID      uint64
	Hdr     []byte // TxHeader.Bytes() at acknowledgement
	Alh     [32]byte
	Entries []Entry
	Export  [32]byte // sha256 of the first full ExportTx, zero until taken
}

type Ledger struct {
	mu   sync.Mutex
	recs map[uint64]*Rec
	max  uint64
}

func New() *Ledger { return &Ledger{recs: map[uint64]*Rec{}} }

func MDBytes(md *store.KVMetadata) []byte {
	if md == nil {
		return nil
	}
	return md.Bytes()
}

// Ack records an acknowledged commit. It returns an error when the same id was
// acknowledged before with a different header (an id reassigned).
func (l *Ledger) Ack(hdr *store.TxHeader, entries []Entry) error {
	hb, err := hdr.Bytes()
	if err != nil {
		return fmt.Errorf("acknowledged header does not serialize: %w", err)
	}
	rec := &Rec{ID: hdr.ID, Hdr: hb, Alh: hdr.Alh(), Entries: entries}
	l.mu.Lock()
	defer l.mu.Unlock()
	if old := l.recs[hdr.ID]; old != nil {
		if old.Alh != rec.Alh || !bytes.Equal(old.Hdr, rec.Hdr) {
			return fmt.Errorf("tx id %d acknowledged twice with different headers (alh %x vs %x)", hdr.ID, old.Alh[:6], rec.Alh[:6])
		}
		return nil
	}
	l.recs[hdr.ID] = rec
	if hdr.ID > l.max {
		l.max = hdr.ID
	}
	return nil
}

func (l *Ledger) Get(id uint64) *Rec { l.mu.Lock(); defer l.mu.Unlock(); return l.recs[id] }
func (l *Ledger) Max() uint64      { l.mu.Lock(); defer l.mu.Unlock(); return l.max }
func (l *Ledger) Len() int         { l.mu.Lock(); defer l.mu.Unlock(); return len(l.recs) }

// IDs returns the acknowledged ids in ascending order.
func (l *Ledger) IDs() []uint64 {
	l.mu.Lock()
	defer l.mu.Unlock()
	ids := make([]uint64, 0, len(l.recs))
	for id := range l.recs {
		ids = append(ids, id)
	}
	sort.Slice(ids, func(i, j int) bool { return ids[i] < ids[j] })
	return ids
}

type AuditOpts struct {
	// TruncatedBelow: values of txs with id < TruncatedBelow may be unreadable (value-log
	// truncation); an unreadable value is accepted there, a different value never is.
	TruncatedBelow uint64
	Export         bool
}

// Problem is one divergence between the store and the ledger.
type Problem struct {
	Sig    string
	Detail string
}

// AuditTx re-reads one acknowledged tx through the integrity-checked read paths.
func (l *Ledger) AuditTx(st *store.ImmuStore, tx *store.Tx, id uint64, o AuditOpts) []Problem {
	rec := l.Get(id)
	if rec == nil {
		return nil
	}
	var ps []Problem
	add := func(sig, f string, a ...any) { ps = append(ps, Problem{sig, fmt.Sprintf("tx %d: ", id) + fmt.Sprintf(f, a...)}) }

	if err := st.ReadTx(id, false, tx); err != nil {
		if errors.Is(err, store.ErrAlreadyClosed) {
			return nil
		}
		add("readtx/error", "ReadTx failed for an acknowledged tx: %v", err)
		return ps
	}
	h := tx.Header()
	hb, _ := h.Bytes()
	if h.ID != id || !bytes.Equal(hb, rec.Hdr) {
		add("readtx/header-changed", "header bytes differ from the acknowledged ones")
	}
	if h.Alh() != rec.Alh {
		add("readtx/alh-changed", "alh %x, acknowledged %x", h.Alh(), rec.Alh)
	}
	h2, err := st.ReadTxHeader(id, false, false)
	if err != nil {
		add("readtxheader/error", "ReadTxHeader: %v", err)
	} else if h2.Alh() != rec.Alh {
		add("readtxheader/alh-changed", "ReadTxHeader alh %x, acknowledged %x", h2.Alh(), rec.Alh)
	}
	es := tx.Entries()
	if len(es) != len(rec.Entries) {
		add("readtx/entry-count", "%d entries, acknowledged %d", len(es), len(rec.Entries))
		return ps
	}
	for i, e := range es {
		want := rec.Entries[i]
		if !bytes.Equal(e.Key(), want.Key) {
			add("readtx/key-changed", "entry %d key %q, acknowledged %q", i, e.Key(), want.Key)
			continue
		}
		if !bytes.Equal(MDBytes(e.Metadata()), want.MD) {
			add("readtx/metadata-changed", "entry %d metadata %x, acknowledged %x", i, MDBytes(e.Metadata()), want.MD)
		}
		if e.VLen() != len(want.Value) || e.HVal() != sha256.Sum256(want.Value) {
			add("readtx/value-digest-changed", "entry %d vLen %d hVal %x, acknowledged len %d", i, e.VLen(), e.HVal(), len(want.Value))
		}
		v, err := st.ReadValue(e)
		if err != nil {
			if id < o.TruncatedBelow {
				continue
			}
			if errors.Is(err, store.ErrExpiredEntry) && e.Metadata() != nil && e.Metadata().IsExpirable() {
				continue // an expired entry's value is withheld by design; it is never served different
			}
			if errors.Is(err, store.ErrAlreadyClosed) {
				return ps
			}
			add("readvalue/error", "entry %d (%q) ReadValue failed: %v", i, want.Key, err)
			continue
		}
		if !bytes.Equal(v, want.Value) {
			add("readvalue/value-changed", "entry %d (%q) value differs from the acknowledged one (len %d vs %d)", i, want.Key, len(v), len(want.Value))
		}
		e2, _, err := st.ReadTxEntry(id, want.Key, false)
		if err != nil {
			add("readtxentry/error", "ReadTxEntry(%q): %v", want.Key, err)
		} else if e2.HVal() != e.HVal() || e2.VLen() != e.VLen() {
			add("readtxentry/differs", "ReadTxEntry(%q) differs from ReadTx", want.Key)
		}
	}
	if o.Export && id >= o.TruncatedBelow {
		b, err := st.ExportTx(id, false, false, tx)
		if err != nil {
			if !errors.Is(err, store.ErrAlreadyClosed) {
				add("exporttx/error", "ExportTx: %v", err)
			}
		} else {
			d := sha256.Sum256(b)
			l.mu.Lock()
			if rec.Export == ([32]byte{}) {
				rec.Export = d
			} else if rec.Export != d {
				ps = append(ps, Problem{"exporttx/bytes-changed", fmt.Sprintf("tx %d: ExportTx bytes differ from the first export", id)})
			}
			l.mu.Unlock()
		}
	}
	return ps
}

// MTH is the RFC 6962 Merkle tree hash over leaves (raw payloads).
func MTH(leaves [][32]byte) [32]byte {
	switch n := len(leaves); n {
	case 0:
		return sha256.Sum256(nil)
	case 1:
		var b [33]byte
		copy(b[1:], leaves[0][:])
		return sha256.Sum256(b[:])
	default:
		k := 1
		for k<<1 < n {
			k <<= 1
		}
		l, r := MTH(leaves[:k]), MTH(leaves[k:])
		var b [65]byte
		b[0] = 1
		copy(b[1:], l[:])
		copy(b[33:], r[:])
		return sha256.Sum256(b[:])
	}
}

// ChainProblems checks density, PrevAlh chaining and binary linking of headers 1..n.
func ChainProblems(hdrs []*store.TxHeader) []Problem {
	var ps []Problem
	alhs := make([][32]byte, len(hdrs))
	roots := map[uint64][32]byte{}
	for i, h := range hdrs {
		id := uint64(i + 1)
		if h == nil {
			ps = append(ps, Problem{"chain/gap", fmt.Sprintf("tx %d missing inside the committed range", id)})
			return ps
		}
		if h.ID != id {
			ps = append(ps, Problem{"chain/id", fmt.Sprintf("position %d holds tx id %d", id, h.ID)})
		}
		alhs[i] = h.Alh()
		if i > 0 && h.PrevAlh != alhs[i-1] {
			ps = append(ps, Problem{"chain/prevalh", fmt.Sprintf("tx %d PrevAlh does not equal alh of tx %d", id, id-1)})
		}
		if h.BlTxID >= id {
			ps = append(ps, Problem{"chain/bltxid", fmt.Sprintf("tx %d BlTxID %d", id, h.BlTxID)})
			continue
		}
		if h.BlTxID > 0 {
			root, ok := roots[h.BlTxID]
			if !ok {
				root = MTH(alhs[:h.BlTxID])
				roots[h.BlTxID] = root
			}
			if h.BlRoot != root {
				ps = append(ps, Problem{"chain/blroot", fmt.Sprintf("tx %d BlRoot is not the Merkle root over alh[1..%d]", id, h.BlTxID)})
			}
		} else if h.BlRoot != ([32]byte{}) {
			ps = append(ps, Problem{"chain/blroot", fmt.Sprintf("tx %d has BlTxID 0 and a non-zero BlRoot", id)})
		}
	}
	return ps
}
