//go:build verif

// Package hook is the harness-side handler of /repo's embedded/verifhook.
//
//	h := hook.Install(&hook.Config{Seed: c.Seed, Perturb: 0.3, MaxSleep: time.Millisecond})
//	defer hook.Uninstall()
//
// Point sites: with probability Perturb the calling goroutine yields
// (runtime.Gosched) or sleeps a PRNG-chosen duration up to MaxSleep; OnPoint, if
// set, is called first (it may block to force an order). Fault sites consult
// FaultFn(site, n) where n is the 0-based index of the call at that site. FS
// events are appended to Journal when it is non-nil. Notes go to OnNote.
// Everything is safe for concurrent use. The handler never calls into immudb.
package hook

import (
	"math/rand/v2"
	"runtime"
	"sync"
	"sync/atomic"
	"time"

	"github.com/codenotary/immudb/embedded/verifhook"
)

type Config struct {
	Seed     int64
	Perturb  float64       // probability of perturbing at a Point site
	MaxSleep time.Duration // upper bound of an injected sleep (0 = yield only)
	Sites    map[string]bool
	OnPoint  func(site string)
	FaultFn  func(site string, n uint64) error
	Journal  *Journal
	OnNote   func(site string, a, b uint64, h [32]byte)
}

type H struct {
	cfg  *Config
	mu   sync.Mutex
	rnd  *rand.Rand
	hits map[string]*atomic.Uint64
	hmu  sync.RWMutex
	// interleaving fingerprints: distinct (previous site, site, same goroutine?) triples
	lastSite string
	lastG    uint64
	pairs    map[string]struct{}
}

func Install(cfg *Config) *H {
	h := &H{cfg: cfg, rnd: rand.New(rand.NewPCG(uint64(cfg.Seed), 0x5eed)), hits: map[string]*atomic.Uint64{}, pairs: map[string]struct{}{}}
	verifhook.SetHandler(h)
	return h
}

func Uninstall() { verifhook.SetHandler(nil) }

func (h *H) hit(site string) uint64 {
	h.hmu.RLock()
	c := h.hits[site]
	h.hmu.RUnlock()
	if c == nil {
		h.hmu.Lock()
		if c = h.hits[site]; c == nil {
			c = new(atomic.Uint64)
			h.hits[site] = c
		}
		h.hmu.Unlock()
	}
	return c.Add(1) - 1
}

// Hits returns how many times each site was reached.
func (h *H) Hits() map[string]uint64 {
	h.hmu.RLock()
	defer h.hmu.RUnlock()
	m := make(map[string]uint64, len(h.hits))
	for k, v := range h.hits {
		m[k] = v.Load()
	}
	return m
}

// Interleavings returns the distinct (previous site → site, same/other goroutine) transitions observed.
func (h *H) Interleavings() []string {
	h.mu.Lock()
	defer h.mu.Unlock()
	out := make([]string, 0, len(h.pairs))
	for k := range h.pairs {
		out = append(out, k)
	}
	return out
}

func goid() uint64 {
	var buf [64]byte
	n := runtime.Stack(buf[:], false)
	// "goroutine 123 [running]:"
	var id uint64
	for _, c := range buf[10:n] {
		if c < '0' || c > '9' {
			break
		}
		id = id*10 + uint64(c-'0')
	}
	return id
}

func (h *H) Point(site string) {
	h.hit(site)
	if h.cfg.Sites != nil && !h.cfg.Sites[site] {
		return
	}
	if h.cfg.OnPoint != nil {
		h.cfg.OnPoint(site)
	}
	g := goid()
	h.mu.Lock()
	if h.lastSite != "" && len(h.pairs) < 4096 {
		rel := "other"
		if g == h.lastG {
			rel = "same"
		}
		h.pairs[h.lastSite+">"+site+"/"+rel] = struct{}{}
	}
	h.lastSite, h.lastG = site, g
	var act int
	var d time.Duration
	if h.cfg.Perturb > 0 && h.rnd.Float64() < h.cfg.Perturb {
		act = 1
		if h.cfg.MaxSleep > 0 && h.rnd.IntN(2) == 0 {
			act = 2
			d = time.Duration(h.rnd.Int64N(int64(h.cfg.MaxSleep)) + 1)
		}
	}
	h.mu.Unlock()
	switch act {
	case 1:
		runtime.Gosched()
	case 2:
		time.Sleep(d)
	}
}

func (h *H) Fault(site string) error {
	n := h.hit("fault:" + site)
	if h.cfg.FaultFn != nil {
		return h.cfg.FaultFn(site, n)
	}
	return nil
}

func (h *H) Note(site string, a, b uint64, hash [32]byte) {
	h.hit("note:" + site)
	if h.cfg.OnNote != nil {
		h.cfg.OnNote(site, a, b, hash)
	}
}

func (h *H) FS(op verifhook.FSOp, path string, off int64, data []byte, path2 string) {
	if j := h.cfg.Journal; j != nil {
		j.add(Event{Op: Op(op), Path: path, Off: off, Data: append([]byte(nil), data...), Path2: path2})
	}
}

// ---- file-system journal ----

type Op int

const (
	OpCreate    = Op(verifhook.FSOpCreate)
	OpWrite     = Op(verifhook.FSOpWrite)
	OpSync      = Op(verifhook.FSOpSync)
	OpSyncDir   = Op(verifhook.FSOpSyncDir)
	OpRemove    = Op(verifhook.FSOpRemove)
	OpRemoveAll = Op(verifhook.FSOpRemoveAll)
	OpRename    = Op(verifhook.FSOpRename)
	OpMark      = Op(100) // workload marker (Ack, Trusted, Issued …), not a storage operation
)

func (o Op) String() string {
	switch o {
	case OpCreate:
		return "create"
	case OpWrite:
		return "write"
	case OpSync:
		return "sync"
	case OpSyncDir:
		return "syncdir"
	case OpRemove:
		return "remove"
	case OpRemoveAll:
		return "removeall"
	case OpRename:
		return "rename"
	case OpMark:
		return "mark"
	}
	return "?"
}

type Event struct {
	Op    Op
	Path  string
	Off   int64
	Data  []byte
	Path2 string
	// markers
	Kind string
	ID   uint64
	Hash [32]byte
}

// Journal is a totally ordered record of storage operations and workload markers.
type Journal struct {
	mu     sync.Mutex
	events []Event
}

func NewJournal() *Journal { return &Journal{} }

func (j *Journal) add(e Event) {
	j.mu.Lock()
	j.events = append(j.events, e)
	j.mu.Unlock()
}

// Mark appends a workload marker (e.g. "ack" after Commit returned).
func (j *Journal) Mark(kind string, id uint64, h [32]byte) {
	j.add(Event{Op: OpMark, Kind: kind, ID: id, Hash: h})
}

func (j *Journal) Len() int { j.mu.Lock(); defer j.mu.Unlock(); return len(j.events) }

// Events returns a snapshot of the journal (the slice header is copied; events are immutable).
func (j *Journal) Events() []Event {
	j.mu.Lock()
	defer j.mu.Unlock()
	return append([]Event(nil), j.events...)
}
