// Package refmerkle is an independent reference for the Merkle hash tree of
// RFC 6962 section 2.1 (MTH, PATH, PROOF; SHA-256, leaf prefix 0x00, node
// prefix 0x01, unbalanced right edge) and the STRICT verification algorithms of
// RFC 9162 sections 2.1.3.2 (inclusion) and 2.1.4.2 (consistency), which fail
// when the number of proof terms does not fit (index, size).
//
// Conventions (the RFC's, not immudb's): leaf indexes are 0-based, sizes count
// leaves, a proof lists sibling hashes bottom-up. "leaves" are raw payloads
// d(i); "leaf hashes" are SHA-256(0x00 || d(i)).
//
// Nothing here is derived from immudb's code; monitors map immudb's 1-based
// indexes and proof formats onto this definition in their own adapters.
package refmerkle

import "crypto/sha256"

type Hash = [sha256.Size]byte

const (
	LeafPrefix = byte(0x00)
	NodePrefix = byte(0x01)
)

// LeafHash = SHA-256(0x00 || d).
func LeafHash(d []byte) Hash {
	b := make([]byte, 1+len(d))
	b[0] = LeafPrefix
	copy(b[1:], d)
	return sha256.Sum256(b)
}

// NodeHash = SHA-256(0x01 || l || r).
func NodeHash(l, r Hash) Hash {
	var b [1 + 2*sha256.Size]byte
	b[0] = NodePrefix
	copy(b[1:], l[:])
	copy(b[1+sha256.Size:], r[:])
	return sha256.Sum256(b[:])
}

// LeafHashes hashes every payload.
func LeafHashes(leaves [][]byte) []Hash {
	lh := make([]Hash, len(leaves))
	for i, d := range leaves {
		lh[i] = LeafHash(d)
	}
	return lh
}

// Tree memoizes MTH over ranges of one fixed list of leaf hashes, so that all
// roots and proofs of all prefixes cost O(n log n) hashes in total. The zero
// memo is filled lazily; a Tree is not safe for concurrent use.
type Tree struct {
	lh   []Hash
	memo map[[2]int]Hash
}

func New(leafHashes []Hash) *Tree { return &Tree{lh: leafHashes, memo: map[[2]int]Hash{}} }

func (t *Tree) Len() int { return len(t.lh) }

// split returns the largest power of two strictly smaller than n (n > 1).
func split(n int) int {
	k := 1
	for k<<1 < n {
		k <<= 1
	}
	return k
}

// MTH(D[a:b]) per RFC 6962 2.1.
func (t *Tree) mth(a, b int) Hash {
	switch b - a {
	case 0:
		return sha256.Sum256(nil)
	case 1:
		return t.lh[a]
	}
	key := [2]int{a, b}
	if h, ok := t.memo[key]; ok {
		return h
	}
	k := split(b - a)
	h := NodeHash(t.mth(a, a+k), t.mth(a+k, b))
	t.memo[key] = h
	return h
}

// MTH is MTH(D[a:b]) for 0 <= a <= b <= Len (the hash of a sub-range; a == b gives the empty hash).
func (t *Tree) MTH(a, b int) Hash {
	if a < 0 || a > b || b > len(t.lh) {
		panic("refmerkle: MTH arguments")
	}
	return t.mth(a, b)
}

// RootAt = MTH(D[0:n]).
func (t *Tree) RootAt(n int) Hash { return t.mth(0, n) }

// Inclusion = PATH(i, D[0:n]) per RFC 6962 2.1.1 (0 <= i < n <= Len).
func (t *Tree) Inclusion(i, n int) []Hash {
	if i < 0 || i >= n || n > len(t.lh) {
		panic("refmerkle: Inclusion arguments")
	}
	return t.path(i, 0, n)
}

func (t *Tree) path(m, a, b int) []Hash {
	if b-a == 1 {
		return nil
	}
	k := split(b - a)
	if m < k {
		return append(t.path(m, a, a+k), t.mth(a+k, b))
	}
	return append(t.path(m-k, a+k, b), t.mth(a, a+k))
}

// Consistency = PROOF(m, D[0:n]) per RFC 6962 2.1.2 (0 < m <= n <= Len).
func (t *Tree) Consistency(m, n int) []Hash {
	if m <= 0 || m > n || n > len(t.lh) {
		panic("refmerkle: Consistency arguments")
	}
	return t.subproof(m, 0, n, true)
}

func (t *Tree) subproof(m, a, b int, whole bool) []Hash {
	if m == b-a {
		if whole {
			return nil
		}
		return []Hash{t.mth(a, b)}
	}
	k := split(b - a)
	if m <= k {
		return append(t.subproof(m, a, a+k, whole), t.mth(a+k, b))
	}
	return append(t.subproof(m-k, a+k, b, false), t.mth(a, a+k))
}

// Root = MTH over raw payloads.
func Root(leaves [][]byte) Hash { return RootFromLeafHashes(LeafHashes(leaves)) }

// RootFromLeafHashes = MTH over already hashed leaves (empty list: SHA-256 of the empty string).
func RootFromLeafHashes(lh []Hash) Hash { return New(lh).RootAt(len(lh)) }

// InclusionProof = PATH(i, D[0:n]) over the first n of lh; i is 0-based.
func InclusionProof(i, n int, lh []Hash) []Hash { return New(lh).Inclusion(i, n) }

// ConsistencyProof = PROOF(m, D[0:n]) over the first n of lh.
func ConsistencyProof(m, n int, lh []Hash) []Hash { return New(lh).Consistency(m, n) }

// VerifyInclusionStrict is RFC 9162 2.1.3.2: leaf hash `leaf` at 0-based
// `index` of a tree with `size` leaves and root `root`.
func VerifyInclusionStrict(proof []Hash, index, size uint64, leaf, root Hash) bool {
	if index >= size {
		return false
	}
	fn, sn, r := index, size-1, leaf
	for _, p := range proof {
		if sn == 0 {
			return false
		}
		if fn&1 == 1 || fn == sn {
			r = NodeHash(p, r)
			if fn&1 == 0 {
				for fn&1 == 0 && fn != 0 {
					fn >>= 1
					sn >>= 1
				}
			}
		} else {
			r = NodeHash(r, p)
		}
		fn >>= 1
		sn >>= 1
	}
	return sn == 0 && r == root
}

// VerifyConsistencyStrict is RFC 9162 2.1.4.2: tree of `first` leaves with root
// `root1` is a prefix of the tree of `second` leaves with root `root2`.
func VerifyConsistencyStrict(proof []Hash, first, second uint64, root1, root2 Hash) bool {
	if first == 0 || first > second {
		return false
	}
	if first == second {
		return len(proof) == 0 && root1 == root2
	}
	if len(proof) == 0 {
		return false
	}
	if first&(first-1) == 0 {
		proof = append([]Hash{root1}, proof...)
	}
	fn, sn := first-1, second-1
	for fn&1 == 1 {
		fn >>= 1
		sn >>= 1
	}
	fr, sr := proof[0], proof[0]
	for _, c := range proof[1:] {
		if sn == 0 {
			return false
		}
		if fn&1 == 1 || fn == sn {
			fr = NodeHash(c, fr)
			sr = NodeHash(c, sr)
			if fn&1 == 0 {
				for fn&1 == 0 && fn != 0 {
					fn >>= 1
					sn >>= 1
				}
			}
		} else {
			sr = NodeHash(sr, c)
		}
		fn >>= 1
		sn >>= 1
	}
	return fr == root1 && sr == root2 && sn == 0
}

// InclusionLen is the number of terms of PATH(index, D[size]): a closed form
// used only to cross-check the verifiers in the self-test.
func InclusionLen(index, size uint64) int {
	n := 0
	fn, sn := index, size-1
	for sn > 0 {
		if fn&1 == 1 || fn < sn {
			n++
		}
		fn >>= 1
		sn >>= 1
	}
	return n
}
