package refmerkle

import (
	"crypto/sha256"
	"encoding/hex"
	"testing"
)

// naive MTH straight from the RFC text, no memo, on payloads.
func naive(d [][]byte) Hash {
	switch len(d) {
	case 0:
		return sha256.Sum256(nil)
	case 1:
		return sha256.Sum256(append([]byte{0}, d[0]...))
	}
	k := 1
	for k*2 < len(d) {
		k *= 2
	}
	l, r := naive(d[:k]), naive(d[k:])
	return sha256.Sum256(append(append([]byte{1}, l[:]...), r[:]...))
}

// Known answers of the certificate-transparency reference implementation.
func TestKnownAnswers(t *testing.T) {
	in := []string{"", "00", "10", "2021", "3031", "40414243", "5051525354555657", "606162636465666768696a6b6c6d6e6f"}
	roots := []string{
		"6e340b9cffb37a989ca544e6bb780a2c78901d3fb33738768511a30617afa01d",
		"fac54203e7cc696cf0dfcb42c92a1d9dbaf70ad9e621f4bd8d98662f00e3c125",
		"aeb6bcfe274b70a14fb067a5e5578264db0fa9b51af5e0ba159158f329e06e77",
		"d37ee418976dd95753c1c73862b9398fa2a2cf9b4ff0fdfe8b30cd95209614b7",
		"4e3bbb1f7b478dcfe71fb631631519a3bca12c9aefca1612bfce4c13a86264d4",
		"76e67dadbcdf1e10e1b74ddc608abd2f98dfb16fbce75277b5232a127f2087ef",
		"ddb89be403809e325750d3d263cd78929c2942b7942a34b77e122c9594a74c8c",
		"5dc9da79a70659a9ad559cb701ded9a2ab9d823aad2f4960cfe370eff4604328",
	}
	var leaves [][]byte
	for i, s := range in {
		b, _ := hex.DecodeString(s)
		leaves = append(leaves, b)
		got := Root(leaves)
		if hex.EncodeToString(got[:]) != roots[i] {
			t.Fatalf("size %d: root %x, want %s", i+1, got, roots[i])
		}
	}
	e := Root(nil)
	if hex.EncodeToString(e[:]) != "e3b0c44298fc1c149afbf4c8996fb92427ae41e4649b934ca495991b7852b855" {
		t.Fatalf("empty root %x", e)
	}
}

func TestSelf(t *testing.T) {
	const N = 40
	var leaves [][]byte
	for i := 0; i < N+3; i++ {
		leaves = append(leaves, []byte{byte(i), byte(i >> 3), 7}[:i%4])
	}
	lh := LeafHashes(leaves)
	tr := New(lh)
	for n := 0; n <= N; n++ {
		if tr.RootAt(n) != naive(leaves[:n]) {
			t.Fatalf("root %d", n)
		}
	}
	acc, rej, cacc := 0, 0, 0
	for n := 1; n <= N; n++ {
		root := tr.RootAt(n)
		for i := 0; i < n; i++ {
			p := tr.Inclusion(i, n)
			if len(p) != InclusionLen(uint64(i), uint64(n)) {
				t.Fatalf("path len (%d,%d)", i, n)
			}
			if !VerifyInclusionStrict(p, uint64(i), uint64(n), lh[i], root) {
				t.Fatalf("honest inclusion (%d,%d) rejected", i, n)
			}
			// every other claimed (index,size) in range: accepted only when the path
			// shape and all hashes fit, which for distinct leaves means never here
			// unless the claimed position is the very same node chain.
			for n2 := 1; n2 <= N+3; n2++ {
				for i2 := 0; i2 < n2; i2++ {
					if i2 == i && n2 == n {
						continue
					}
					ok := VerifyInclusionStrict(p, uint64(i2), uint64(n2), lh[i], root)
					if ok {
						// legitimate only if the same proof is PATH(i2, D'[n2]) of a tree with the same root: requires equal length
						if len(p) != InclusionLen(uint64(i2), uint64(n2)) {
							t.Fatalf("strict verifier accepted (%d,%d) proof as (%d,%d) with wrong length", i, n, i2, n2)
						}
						acc++
					} else {
						rej++
					}
				}
			}
			if len(p) > 0 {
				if VerifyInclusionStrict(p[1:], uint64(i), uint64(n), lh[i], root) || VerifyInclusionStrict(append(p[:len(p):len(p)], p[0]), uint64(i), uint64(n), lh[i], root) {
					t.Fatalf("dropped/extra term accepted (%d,%d)", i, n)
				}
			}
		}
		for m := 1; m <= n; m++ {
			p := tr.Consistency(m, n)
			if !VerifyConsistencyStrict(p, uint64(m), uint64(n), tr.RootAt(m), root) {
				t.Fatalf("honest consistency (%d,%d) rejected", m, n)
			}
			// re-claimed sizes: accepted only if the number of terms is the one PROOF(m2, D[n2]) has
			for n2 := 1; n2 <= N+3; n2++ {
				for m2 := 1; m2 <= n2; m2++ {
					if m2 == m && n2 == n {
						continue
					}
					if VerifyConsistencyStrict(p, uint64(m2), uint64(n2), tr.RootAt(m), root) {
						if len(p) != len(tr.Consistency(m2, n2)) {
							t.Fatalf("consistency (%d,%d) accepted for (%d,%d) with wrong length", m, n, m2, n2)
						}
						cacc++
					}
				}
			}
			if m < n && VerifyConsistencyStrict(p, uint64(m), uint64(n), tr.RootAt(m), tr.RootAt(n-1)) {
				t.Fatalf("wrong root accepted")
			}
		}
	}
	t.Logf("inclusion shape-compatible re-claims accepted=%d rejected=%d; consistency re-claims accepted=%d", acc, rej, cacc)
}
