// Package fw is the common runtime of every monitor: PRNG streams, tiers,
// evidence counters, violation / known-finding / inconclusive bookkeeping,
// child-process isolation and scratch directories.
package fw

import (
	"crypto/sha256"
	"encoding/binary"
	"encoding/json"
	"fmt"
	"math/rand/v2"
	"os"
	"path/filepath"
	"runtime/debug"
	"sort"
	"strconv"
	"sync"
	"sync/atomic"
	"time"
)

type Violation struct {
	Signature string `json:"signature"`
	Detail    string `json:"detail"`
	Replay    string `json:"replay"`
}

type Ctx struct {
	Prop  string
	Tier  string
	Seed  int64
	Level string // exploration | fault_enumeration
	Rule  string
	Root  string // /verif
	start time.Time

	scratch string

	mu           sync.Mutex
	evals        atomic.Int64
	distinct     map[string]struct{}
	samples      []any
	maxSamples   int
	extra        map[string]any
	counters     map[string]int64
	violations   []Violation
	violSigs     map[string]int
	known        map[string]int
	inconclusive []string
	assumptions  []string
	notes        []string
	findings     []Finding
	replayN      int
	isSub        bool
	rawViol      []rawViolation
	ReplayPath   string
}

func envInt(name string, def int64) int64 {
	if v := os.Getenv(name); v != "" {
		if n, err := strconv.ParseInt(v, 10, 64); err == nil {
			return n
		}
	}
	return def
}

func VerifRoot() string {
	if r := os.Getenv("VERIF_ROOT"); r != "" {
		return r
	}
	return "/verif"
}

func New(prop, tier string) *Ctx {
	c := &Ctx{
		Prop: prop, Tier: tier, Seed: envInt("VERIF_SEED", 1), Level: "exploration",
		Root: VerifRoot(), start: time.Now(),
		distinct: map[string]struct{}{}, extra: map[string]any{}, counters: map[string]int64{},
		violSigs: map[string]int{}, known: map[string]int{}, maxSamples: 6,
	}
	base := os.Getenv("VERIF_SCRATCH")
	if base == "" {
		base = "/var/tmp/verif-scratch"
	}
	c.scratch = filepath.Join(base, fmt.Sprintf("%s-%d", prop, os.Getpid()))
	os.RemoveAll(c.scratch)
	if err := os.MkdirAll(c.scratch, 0o755); err != nil {
		panic(err)
	}
	c.findings = LoadFindings(filepath.Join(c.Root, "known_findings.json"))
	if extra := os.Getenv("VERIF_EXTRA_FINDINGS"); extra != "" {
		// experimentation only (proposed entries not yet merged); never set by registered commands
		c.findings = append(c.findings, LoadFindings(extra)...)
	}
	return c
}

func (c *Ctx) Quick() bool    { return c.Tier != "thorough" }
func (c *Ctx) Thorough() bool { return c.Tier == "thorough" }

// N picks a tier-dependent bound.
func (c *Ctx) N(quick, thorough int) int {
	if c.Thorough() {
		return thorough
	}
	return quick
}

// Rand returns a PRNG for the named stream; the stream is a pure function of
// (VERIF_SEED, name), so adding a stream does not shift the others.
func (c *Ctx) Rand(stream string) *rand.Rand { return NewRand(c.Seed, stream) }

func NewRand(seed int64, stream string) *rand.Rand {
	h := sha256.Sum256([]byte(stream))
	return rand.New(rand.NewPCG(uint64(seed), binary.BigEndian.Uint64(h[:8])))
}

// Dir returns a fresh scratch directory below the run's scratch root.
func (c *Ctx) Dir(name string) string {
	c.mu.Lock()
	c.replayN++
	n := c.replayN
	c.mu.Unlock()
	d := filepath.Join(c.scratch, fmt.Sprintf("%s-%d", name, n))
	if err := os.MkdirAll(d, 0o755); err != nil {
		panic(err)
	}
	return d
}

func (c *Ctx) Scratch() string { return c.scratch }

func (c *Ctx) Eval(n int) { c.evals.Add(int64(n)) }

// Distinct records the fingerprint of one non-trivial case.
func (c *Ctx) Distinct(key string) {
	c.mu.Lock()
	c.distinct[key] = struct{}{}
	c.mu.Unlock()
}

func (c *Ctx) Count(name string, n int64) {
	c.mu.Lock()
	c.counters[name] += n
	c.mu.Unlock()
}

func (c *Ctx) Counter(name string) int64 {
	c.mu.Lock()
	defer c.mu.Unlock()
	return c.counters[name]
}

func (c *Ctx) Set(key string, v any) {
	c.mu.Lock()
	c.extra[key] = v
	c.mu.Unlock()
}

func (c *Ctx) Sample(v any) {
	c.mu.Lock()
	if len(c.samples) < c.maxSamples {
		c.samples = append(c.samples, v)
	}
	c.mu.Unlock()
}

func (c *Ctx) Assume(s string) { c.mu.Lock(); c.assumptions = append(c.assumptions, s); c.mu.Unlock() }
func (c *Ctx) Note(s string) {
	c.mu.Lock()
	if len(c.notes) < 30 {
		c.notes = append(c.notes, s)
	}
	c.mu.Unlock()
}

func (c *Ctx) Inconclusive(why string) {
	c.mu.Lock()
	if len(c.inconclusive) < 50 {
		c.inconclusive = append(c.inconclusive, why)
	}
	c.counters["inconclusive"]++
	c.mu.Unlock()
}

// Violation records a refuting observation. sig names the specific input
// class / call site / history shape; files are written to the replay dir.
// A signature that matches an open known finding is counted as such instead.
func (c *Ctx) Violation(sig, detail string, files map[string][]byte) {
	c.mu.Lock()
	defer c.mu.Unlock()
	if c.isSub {
		// inside a child: ship to the parent, which applies findings and writes witnesses
		c.violSigs[sig]++
		if c.violSigs[sig] <= 3 && len(c.rawViol) < 40 {
			c.rawViol = append(c.rawViol, rawViolation{sig, detail, files})
		}
		return
	}
	if f := matchFinding(c.findings, c.Prop, sig); f != nil && f.Status == "open" {
		c.known[sig]++
		return
	}
	c.violSigs[sig]++
	if c.violSigs[sig] > 3 || len(c.violations) >= 40 {
		return // keep at most three witnesses per signature
	}
	dir := filepath.Join(c.Root, "replays", c.Prop, fmt.Sprintf("seed%d-%s-%d", c.Seed, c.Tier, len(c.violations)))
	os.RemoveAll(dir)
	os.MkdirAll(dir, 0o755)
	meta := map[string]any{"property": c.Prop, "signature": sig, "detail": detail, "seed": c.Seed, "tier": c.Tier}
	b, _ := json.MarshalIndent(meta, "", " ")
	os.WriteFile(filepath.Join(dir, "violation.json"), b, 0o644)
	for name, data := range files {
		os.WriteFile(filepath.Join(dir, name), data, 0o644)
	}
	c.violations = append(c.violations, Violation{Signature: sig, Detail: detail, Replay: dir})
}

func (c *Ctx) Violations() int { c.mu.Lock(); defer c.mu.Unlock(); return len(c.violSigs) }

// Finish writes the evidence file, prints the verdict lines and returns the
// process exit code: 0 held, 1 violation, 2 inconclusive / observed nothing.
func (c *Ctx) Finish() int {
	c.mu.Lock()
	defer c.mu.Unlock()
	defer os.RemoveAll(c.scratch)

	wall := time.Since(c.start).Seconds()
	cov := map[string]any{}
	for k, v := range c.extra {
		cov[k] = v
	}
	for k, v := range c.counters {
		cov["n_"+k] = v
	}
	cov["evaluations"] = c.evals.Load()
	cov["distinct_nontrivial"] = len(c.distinct)
	cov["rule"] = c.Rule
	samples := c.samples
	if len(samples) == 0 {
		// a monitor that recorded no explicit sample: the fingerprints of observed cases serve as samples
		samples = []any{}
		for k := range c.distinct {
			if len(samples) >= 5 {
				break
			}
			samples = append(samples, map[string]any{"observed_case_fingerprint": k})
		}
	}
	cov["samples"] = samples
	if len(c.distinct) > 0 {
		keys := make([]string, 0, len(c.distinct))
		for k := range c.distinct {
			keys = append(keys, k)
		}
		sort.Strings(keys)
		if len(keys) > 40 {
			keys = keys[:40]
		}
		cov["distinct_examples"] = keys
	}
	kn := map[string]int{}
	for k, v := range c.known {
		kn[k] = v
	}
	cov["known_findings_matched"] = kn
	vs := map[string]int{}
	for k, v := range c.violSigs {
		vs[k] = v
	}
	cov["violation_signatures"] = vs
	cov["inconclusive"] = c.inconclusive
	if len(c.notes) > 0 {
		cov["notes"] = c.notes
	}
	ev := map[string]any{
		"property_id": c.Prop, "tier": c.Tier, "seed": c.Seed, "level": c.Level,
		"coverage": cov, "assumptions": c.assumptions, "wall_s": wall,
		"violations": len(c.violSigs),
	}
	if c.assumptions == nil {
		ev["assumptions"] = []string{}
	}
	b, _ := json.MarshalIndent(ev, "", " ")
	os.MkdirAll(filepath.Join(c.Root, "evidence"), 0o755)
	if os.Getenv("VERIF_NO_EVIDENCE") == "" && c.ReplayPath == "" {
		os.WriteFile(filepath.Join(c.Root, "evidence", c.Prop+".json"), append(b, '\n'), 0o644)
	}

	sigs := make([]string, 0, len(c.known))
	for s := range c.known {
		sigs = append(sigs, s)
	}
	sort.Strings(sigs)
	for _, s := range sigs {
		f := matchFinding(c.findings, c.Prop, s)
		fmt.Printf("KNOWN-FINDING: property=%s %s (%s; %d cases)\n", c.Prop, f.What, s, c.known[s])
	}
	fmt.Printf("SUMMARY property=%s tier=%s seed=%d evaluations=%d distinct=%d violations=%d known=%d inconclusive=%d wall=%.1fs\n",
		c.Prop, c.Tier, c.Seed, c.evals.Load(), len(c.distinct), len(c.violSigs), len(c.known), len(c.inconclusive), wall)
	if len(c.violations) > 0 {
		seen := map[string]bool{}
		for _, v := range c.violations {
			if seen[v.Signature] {
				continue
			}
			seen[v.Signature] = true
			fmt.Printf("  violation signature=%s n=%d: %s\n", v.Signature, c.violSigs[v.Signature], trunc(v.Detail, 600))
			fmt.Printf("VIOLATION property=%s replay=%s\n", c.Prop, v.Replay)
		}
		return 1
	}
	if c.evals.Load() == 0 || len(c.distinct) < 2 {
		fmt.Printf("INCONCLUSIVE property=%s observed nothing (evaluations=%d distinct=%d)\n", c.Prop, c.evals.Load(), len(c.distinct))
		return 2
	}
	if len(c.inconclusive) > 0 {
		for i, s := range c.inconclusive {
			if i >= 5 {
				break
			}
			fmt.Printf("  inconclusive: %s\n", trunc(s, 300))
		}
	}
	return 0
}

func trunc(s string, n int) string {
	if len(s) > n {
		return s[:n] + "…"
	}
	return s
}

// Monitor registry.
type Monitor struct {
	ID    string
	Level string
	Run   func(c *Ctx)
}

var monitors = map[string]Monitor{}

func RegisterMonitor(id, level string, run func(c *Ctx)) {
	monitors[id] = Monitor{ID: id, Level: level, Run: run}
}

// Main is vcheck's entry point.
func Main() {
	args := os.Args[1:]
	if len(args) >= 1 && args[0] == "child" {
		ChildMain(args[1:])
		return
	}
	if len(args) < 1 {
		fmt.Fprintln(os.Stderr, "usage: vcheck <Cxx> [--tier quick|thorough] [--replay path]")
		os.Exit(3)
	}
	id := args[0]
	tier := os.Getenv("VERIF_TIER")
	replay := ""
	for i := 1; i < len(args); i++ {
		switch args[i] {
		case "--tier":
			i++
			tier = args[i]
		case "--replay":
			i++
			replay = args[i]
		}
	}
	if tier != "thorough" {
		tier = "quick"
	}
	m, ok := monitors[id]
	if !ok {
		fmt.Fprintf(os.Stderr, "no monitor for %s\n", id)
		os.Exit(3)
	}
	c := New(id, tier)
	c.Level = m.Level
	c.ReplayPath = replay
	if replay != "" {
		// a replay re-runs the recorded seed and tier; monitors are deterministic in (seed, tier)
		if b, err := os.ReadFile(filepath.Join(replay, "violation.json")); err == nil {
			var meta struct {
				Seed int64  `json:"seed"`
				Tier string `json:"tier"`
			}
			if json.Unmarshal(b, &meta) == nil && meta.Tier != "" {
				c.Seed, c.Tier = meta.Seed, meta.Tier
			}
		}
	}
	func() {
		defer func() {
			if r := recover(); r != nil {
				c.Inconclusive(fmt.Sprintf("monitor panicked: %v\n%s", r, debug.Stack()))
				fmt.Fprintf(os.Stderr, "monitor panicked: %v\n%s\n", r, debug.Stack())
				c.evals.Store(0) // a broken run is not evidence
			}
		}()
		m.Run(c)
	}()
	os.Exit(c.Finish())
}
