package fw

import "testing"

func TestPanicSignature(t *testing.T) {
	txt := "panic: runtime error: slice bounds out of range [65538:3]\n\ngoroutine 1 [running]:\nruntime/debug.Stack()\n\t/x/stack.go:26 +0x5e\nverifharness/internal/fw.Guard.func1()\n\t/verif/harness/internal/fw/child.go:1 +0x1\npanic({0xac3d20?, 0xc000160e10?})\n\t/x/panic.go:783 +0x132\ngithub.com/codenotary/immudb/embedded/store.(*extraAttribute).deserialize(0xc0, {0x1, 0x2, 0x3})\n\t/repo/embedded/store/tx_metadata.go:95 +0x1\ngithub.com/codenotary/immudb/embedded/store.(*TxMetadata).ReadFrom(...)\n\t/repo/x.go:1\nmain.main()\n\t/x.go:1\n"
	if got := PanicSignature(txt); got != "embedded/store.(*extraAttribute).deserialize/slice-bounds" {
		t.Fatal(got)
	}
	if !harnessFault("panic: x\n\ngoroutine 1 [running]:\nverifharness/mon/c02.run(...)\n\t/x.go:1\n") {
		t.Fatal("harness fault not recognised")
	}
}
