package fw

import (
	"bufio"
	"encoding/binary"
	"fmt"
	"io"
	"os"
	"os/exec"
	"path/filepath"
	"runtime/debug"
	"strconv"
	"strings"
	"sync"
	"syscall"
	"time"
)

// ChildFunc prepares a per-case executor inside the child process.
type ChildFunc func(setup []byte, scratch string) func(i int, data []byte) []byte

var children = map[string]ChildFunc{}

func RegisterChild(name string, f ChildFunc) { children[name] = f }

type CaseResult struct {
	Index    int
	Out      []byte
	Crashed  bool   // the child process died while executing this case
	TimedOut bool   // the watchdog killed the child during this case (inconclusive by itself)
	Text     string // stderr tail (panic text / goroutine dump)
}

func writeBlobs(path string, blobs [][]byte) error {
	f, err := os.Create(path)
	if err != nil {
		return err
	}
	w := bufio.NewWriterSize(f, 1<<20)
	var l [4]byte
	for _, b := range blobs {
		binary.BigEndian.PutUint32(l[:], uint32(len(b)))
		w.Write(l[:])
		w.Write(b)
	}
	if err := w.Flush(); err != nil {
		return err
	}
	return f.Close()
}

func readBlobs(path string) ([][]byte, error) {
	b, err := os.ReadFile(path)
	if err != nil {
		return nil, err
	}
	var out [][]byte
	for len(b) >= 4 {
		n := int(binary.BigEndian.Uint32(b))
		if len(b) < 4+n {
			break // torn tail of a result file of a crashed child
		}
		out = append(out, b[4:4+n])
		b = b[4+n:]
	}
	return out, nil
}

// ChildMain is the entry point of `vcheck child <name> <dir> <from>`.
func ChildMain(args []string) {
	name, dir := args[0], args[1]
	from, _ := strconv.Atoi(args[2])
	if lim := envInt("VERIF_CHILD_AS_LIMIT", 0); lim > 0 {
		syscall.Setrlimit(syscall.RLIMIT_AS, &syscall.Rlimit{Cur: uint64(lim), Max: uint64(lim)})
	}
	f, ok := children[name]
	if !ok {
		fmt.Fprintf(os.Stderr, "unknown child %q\n", name)
		os.Exit(3)
	}
	setup, _ := os.ReadFile(filepath.Join(dir, "setup"))
	cases, err := readBlobs(filepath.Join(dir, "cases"))
	if err != nil {
		fmt.Fprintln(os.Stderr, err)
		os.Exit(3)
	}
	scratch := filepath.Join(dir, "scratch")
	os.MkdirAll(scratch, 0o755)
	exec := f(setup, scratch)
	res, err := os.OpenFile(filepath.Join(dir, "results"), os.O_CREATE|os.O_WRONLY|os.O_APPEND, 0o644)
	if err != nil {
		os.Exit(3)
	}
	prog, err := os.OpenFile(filepath.Join(dir, "progress"), os.O_CREATE|os.O_WRONLY, 0o644)
	if err != nil {
		os.Exit(3)
	}
	var hdr [8]byte
	for i := from; i < len(cases); i++ {
		binary.BigEndian.PutUint64(hdr[:], uint64(i))
		prog.WriteAt(hdr[:], 0)
		out := exec(i, cases[i])
		buf := make([]byte, 8+len(out))
		binary.BigEndian.PutUint32(buf, uint32(4+len(out)))
		binary.BigEndian.PutUint32(buf[4:], uint32(i))
		copy(buf[8:], out)
		res.Write(buf)
	}
	binary.BigEndian.PutUint64(hdr[:], uint64(len(cases)))
	prog.WriteAt(hdr[:], 0)
	os.Exit(0)
}

type CasesOpts struct {
	Workers    int
	CaseTimout time.Duration // watchdog per case (generous); firing = inconclusive
	ASLimit    int64         // RLIMIT_AS for the child, 0 = none
	Env        []string
}

// RunCases executes the cases in child processes (sharded over workers) and
// calls handle for every case exactly once (serialized).
func (c *Ctx) RunCases(name string, setup []byte, cases [][]byte, o CasesOpts, handle func(CaseResult)) {
	if o.Workers <= 0 {
		o.Workers = 14
	}
	if o.CaseTimout == 0 {
		o.CaseTimout = 120 * time.Second
	}
	if o.Workers > len(cases) {
		o.Workers = len(cases)
	}
	if len(cases) == 0 {
		return
	}
	var hmu sync.Mutex
	var wg sync.WaitGroup
	per := (len(cases) + o.Workers - 1) / o.Workers
	for w := 0; w < o.Workers; w++ {
		lo, hi := w*per, (w+1)*per
		if lo >= len(cases) {
			break
		}
		if hi > len(cases) {
			hi = len(cases)
		}
		wg.Add(1)
		go func(w, lo, hi int) {
			defer wg.Done()
			c.runShard(name, setup, cases[lo:hi], lo, o, func(r CaseResult) {
				hmu.Lock()
				defer hmu.Unlock()
				handle(r)
			})
		}(w, lo, hi)
	}
	wg.Wait()
}

func (c *Ctx) runShard(name string, setup []byte, cases [][]byte, base int, o CasesOpts, handle func(CaseResult)) {
	dir := c.Dir("child-" + name)
	defer os.RemoveAll(dir)
	os.WriteFile(filepath.Join(dir, "setup"), setup, 0o644)
	if err := writeBlobs(filepath.Join(dir, "cases"), cases); err != nil {
		c.Inconclusive("cannot write cases: " + err.Error())
		return
	}
	from := 0
	reported := map[int]bool{}
	flush := func() {
		blobs, _ := readBlobs(filepath.Join(dir, "results"))
		for _, b := range blobs {
			if len(b) < 4 {
				continue
			}
			i := int(binary.BigEndian.Uint32(b))
			if reported[i] {
				continue
			}
			reported[i] = true
			handle(CaseResult{Index: base + i, Out: b[4:]})
		}
	}
	for from < len(cases) {
		os.Remove(filepath.Join(dir, "progress"))
		cmd := exec.Command(os.Args[0], "child", name, dir, strconv.Itoa(from))
		cmd.Env = append(os.Environ(), o.Env...)
		if o.ASLimit > 0 {
			cmd.Env = append(cmd.Env, fmt.Sprintf("VERIF_CHILD_AS_LIMIT=%d", o.ASLimit))
		}
		errPath := filepath.Join(dir, "stderr")
		ef, _ := os.Create(errPath)
		cmd.Stderr = ef
		cmd.Stdout = ef
		if err := cmd.Start(); err != nil {
			c.Inconclusive("cannot start child: " + err.Error())
			ef.Close()
			return
		}
		done := make(chan error, 1)
		go func() { done <- cmd.Wait() }()
		var werr error
		timedOut := false
		last, lastChange := -1, time.Now()
	wait:
		for {
			select {
			case werr = <-done:
				break wait
			case <-time.After(500 * time.Millisecond):
				cur := readProgress(filepath.Join(dir, "progress"))
				if cur != last {
					last, lastChange = cur, time.Now()
				} else if time.Since(lastChange) > o.CaseTimout {
					timedOut = true
					cmd.Process.Signal(syscall.SIGQUIT)
					select {
					case werr = <-done:
					case <-time.After(10 * time.Second):
						cmd.Process.Kill()
						werr = <-done
					}
					break wait
				}
			}
		}
		ef.Close()
		flush()
		if werr == nil && !timedOut {
			break
		}
		cur := readProgress(filepath.Join(dir, "progress"))
		if cur < from || cur >= len(cases) {
			if cur >= len(cases) {
				break
			}
			c.Inconclusive(fmt.Sprintf("child %s died before its first case: %v: %s", name, werr, tail(errPath, 2000)))
			return
		}
		if !reported[cur] {
			reported[cur] = true
			handle(CaseResult{Index: base + cur, Crashed: !timedOut, TimedOut: timedOut, Text: tail(errPath, 1<<16)})
		}
		from = cur + 1
	}
	for i := range cases {
		if !reported[i] {
			c.Inconclusive(fmt.Sprintf("child %s: case %d produced no result", name, base+i))
		}
	}
}

func readProgress(path string) int {
	b, err := os.ReadFile(path)
	if err != nil || len(b) < 8 {
		return -1
	}
	return int(binary.BigEndian.Uint64(b))
}

func tail(path string, n int64) string {
	f, err := os.Open(path)
	if err != nil {
		return ""
	}
	defer f.Close()
	st, _ := f.Stat()
	// the head of a Go crash report carries the panic message and the faulting stack
	if st.Size() > n {
		b := make([]byte, n)
		io.ReadFull(f, b)
		return string(b)
	}
	b, _ := io.ReadAll(f)
	return string(b)
}

// Guard runs f and converts a panic of the calling goroutine into a signature.
func Guard(f func()) (panicked bool, sig, text string) {
	defer func() {
		if r := recover(); r != nil {
			st := string(debug.Stack())
			panicked = true
			text = fmt.Sprintf("panic: %v\n%s", r, st)
			sig = PanicSignature(text)
		}
	}()
	f()
	return
}

// frames returns the function names of a Go crash text, outermost call last.
// A frame line is "pkg/path.(*T).Method(args...)" at column 0: the name is what
// precedes the last '('.
func frames(text string) []string {
	var out []string
	for _, line := range strings.Split(text, "\n") {
		if line == "" || line[0] == ' ' || line[0] == '\t' || !strings.HasSuffix(strings.TrimRight(line, " "), ")") {
			continue
		}
		if strings.HasPrefix(line, "goroutine ") || strings.HasPrefix(line, "panic:") || strings.HasPrefix(line, "fatal error") || strings.HasPrefix(line, "created by") {
			continue
		}
		i := strings.LastIndex(line, "(")
		if i <= 0 {
			continue
		}
		name := line[:i]
		if strings.ContainsAny(name, " \t") {
			continue
		}
		out = append(out, name)
	}
	return out
}

// PanicSignature reduces a Go crash text to "<first immudb frame>/<kind>".
func PanicSignature(text string) string {
	kind := "panic"
	low := text
	switch {
	case strings.Contains(low, "index out of range"):
		kind = "index-out-of-range"
	case strings.Contains(low, "slice bounds out of range"):
		kind = "slice-bounds"
	case strings.Contains(low, "nil pointer dereference"):
		kind = "nil-deref"
	case strings.Contains(low, "integer divide by zero"):
		kind = "divide-by-zero"
	case strings.Contains(low, "makeslice: len out of range"), strings.Contains(low, "makeslice: cap out of range"):
		kind = "makeslice"
	case strings.Contains(low, "out of memory"), strings.Contains(low, "cannot allocate memory"):
		kind = "out-of-memory"
	case strings.Contains(low, "stack overflow"), strings.Contains(low, "stack exceeds"):
		kind = "stack-overflow"
	case strings.Contains(low, "concurrent map"):
		kind = "concurrent-map"
	case strings.Contains(low, "all goroutines are asleep"):
		kind = "deadlock"
	case strings.Contains(low, "checkptr"):
		kind = "checkptr"
	case strings.Contains(low, "DATA RACE"):
		kind = "data-race"
	case strings.Contains(low, "interface conversion"):
		kind = "interface-conversion"
	case strings.Contains(low, "negative shift"), strings.Contains(low, "overflow"):
		kind = "arith"
	}
	fn := ""
	fs := frames(text)
	for _, name := range fs {
		if strings.HasPrefix(name, "github.com/codenotary/immudb/") && !strings.Contains(name, "/verifhook") {
			fn = strings.TrimPrefix(name, "github.com/codenotary/immudb/")
			break
		}
	}
	if fn == "" {
		for _, name := range fs {
			if strings.HasPrefix(name, "runtime") || strings.HasPrefix(name, "panic") || strings.HasPrefix(name, "verifharness") || strings.HasPrefix(name, "main.") {
				continue
			}
			fn = name
			break
		}
	}
	if fn == "" {
		fn = "unknown"
	}
	return fn + "/" + kind
}
