package fw

import (
	"encoding/json"
	"fmt"
	"os"
	"strings"
)

// IsolatedFunc runs one case inside a child process with its own Ctx; whatever
// it records (evaluations, distinct keys, samples, counters, violations) is
// shipped back and merged into the parent's Ctx. If the child process dies
// while running the case (a panic in a background goroutine of immudb, a fatal
// runtime error), the parent reports it as a violation "crash/<func>/<kind>".
type IsolatedFunc func(c *Ctx, data []byte)

type rawViolation struct {
	Sig    string            `json:"sig"`
	Detail string            `json:"detail"`
	Files  map[string][]byte `json:"files"`
}

type subExport struct {
	Evals        int64            `json:"evals"`
	Distinct     []string         `json:"distinct"`
	Samples      []any            `json:"samples"`
	Counters     map[string]int64 `json:"counters"`
	Extra        map[string]any   `json:"extra"`
	Violations   []rawViolation   `json:"violations"`
	Inconclusive []string         `json:"inconclusive"`
	Notes        []string         `json:"notes"`
	Assumptions  []string         `json:"assumptions"`
}

func RegisterIsolated(name string, f IsolatedFunc) {
	RegisterChild(name, func(setup []byte, scratch string) func(i int, data []byte) []byte {
		var meta struct {
			Prop, Tier string
			Seed       int64
		}
		json.Unmarshal(setup, &meta)
		return func(i int, data []byte) []byte {
			sub := &Ctx{
				Prop: meta.Prop, Tier: meta.Tier, Seed: meta.Seed, Root: VerifRoot(),
				distinct: map[string]struct{}{}, extra: map[string]any{}, counters: map[string]int64{},
				violSigs: map[string]int{}, known: map[string]int{}, maxSamples: 3, isSub: true,
				scratch: fmt.Sprintf("%s/case%d", scratch, i),
			}
			os.MkdirAll(sub.scratch, 0o755)
			f(sub, data)
			os.RemoveAll(sub.scratch)
			ex := subExport{Evals: sub.evals.Load(), Samples: sub.samples, Counters: sub.counters, Extra: sub.extra,
				Violations: sub.rawViol, Inconclusive: sub.inconclusive, Notes: sub.notes, Assumptions: sub.assumptions}
			for k := range sub.distinct {
				ex.Distinct = append(ex.Distinct, k)
			}
			b, _ := json.Marshal(ex)
			return b
		}
	})
}

// harnessFault reports whether a crash text points at harness code rather than immudb.
func harnessFault(text string) bool {
	for _, name := range frames(text) {
		if strings.HasPrefix(name, "runtime") || strings.HasPrefix(name, "panic") || strings.HasPrefix(name, "sync.") || strings.HasPrefix(name, "internal/") {
			continue
		}
		return strings.HasPrefix(name, "verifharness") || strings.HasPrefix(name, "main.")
	}
	return false
}

// RunIsolated runs every case in child processes and merges the results.
func (c *Ctx) RunIsolated(name string, cases [][]byte, o CasesOpts) {
	setup, _ := json.Marshal(map[string]any{"Prop": c.Prop, "Tier": c.Tier, "Seed": c.Seed})
	c.RunCases(name, setup, cases, o, func(r CaseResult) {
		switch {
		case r.TimedOut:
			c.Inconclusive(fmt.Sprintf("%s case %d: watchdog fired: %s", name, r.Index, trunc(r.Text, 1500)))
		case r.Crashed:
			sig := PanicSignature(r.Text)
			if harnessFault(r.Text) || strings.HasSuffix(sig, "/out-of-memory") && !strings.Contains(r.Text, "codenotary/immudb") {
				c.Inconclusive(fmt.Sprintf("%s case %d: child died in harness code: %s", name, r.Index, trunc(r.Text, 1500)))
				return
			}
			c.Violation("crash/"+sig, fmt.Sprintf("the process died while running %s case %d: %s", name, r.Index, trunc(firstLines(r.Text, 12), 1200)),
				map[string][]byte{"stderr.txt": []byte(r.Text), "case.json": cases[r.Index]})
		default:
			var ex subExport
			if err := json.Unmarshal(r.Out, &ex); err != nil {
				c.Inconclusive(fmt.Sprintf("%s case %d: unreadable result: %v", name, r.Index, err))
				return
			}
			c.evals.Add(ex.Evals)
			for _, k := range ex.Distinct {
				c.Distinct(k)
			}
			for _, s := range ex.Samples {
				c.Sample(s)
			}
			for k, v := range ex.Counters {
				c.Count(k, v)
			}
			for k, v := range ex.Extra {
				c.MergeExtra(k, v)
			}
			for _, v := range ex.Violations {
				c.Violation(v.Sig, v.Detail, v.Files)
			}
			for _, s := range ex.Inconclusive {
				c.Inconclusive(s)
			}
			for _, s := range ex.Notes {
				c.Note(s)
			}
			c.mu.Lock()
			for _, a := range ex.Assumptions {
				dup := false
				for _, b := range c.assumptions {
					dup = dup || a == b
				}
				if !dup {
					c.assumptions = append(c.assumptions, a)
				}
			}
			c.mu.Unlock()
		}
	})
}

// MergeExtra merges a value shipped from a child: numeric maps are summed, other values replaced.
func (c *Ctx) MergeExtra(key string, v any) {
	c.mu.Lock()
	defer c.mu.Unlock()
	if m, ok := v.(map[string]any); ok {
		cur, _ := c.extra[key].(map[string]any)
		if cur == nil {
			cur = map[string]any{}
		}
		for k, x := range m {
			if f, ok := x.(float64); ok {
				old, _ := cur[k].(float64)
				cur[k] = old + f
			} else {
				cur[k] = x
			}
		}
		c.extra[key] = cur
		return
	}
	c.extra[key] = v
}

func firstLines(s string, n int) string {
	lines := strings.SplitN(s, "\n", n+1)
	if len(lines) > n {
		lines = lines[:n]
	}
	return strings.Join(lines, "\n")
}
