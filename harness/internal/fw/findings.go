package fw

import (
	"encoding/json"
	"os"
)

// Finding is one entry of /verif/known_findings.json. The file is read only.
type Finding struct {
	Property  string `json:"property"`
	Status    string `json:"status"` // open | fixed
	Signature string `json:"signature"`
	What      string `json:"what"`
	Commit    string `json:"commit,omitempty"`
}

func LoadFindings(path string) []Finding {
	b, err := os.ReadFile(path)
	if err != nil {
		return nil
	}
	var doc struct {
		Findings []Finding `json:"findings"`
	}
	if err := json.Unmarshal(b, &doc); err != nil {
		panic("known_findings.json: " + err.Error())
	}
	return doc.Findings
}

func matchFinding(fs []Finding, prop, sig string) *Finding {
	for i := range fs {
		if fs[i].Property == prop && fs[i].Signature == sig {
			return &fs[i]
		}
	}
	return nil
}
