// Package kvmodel is the reference model shared by the index- and store-level
// monitors (C04, C05, C06, C10): a multi-version ordered map
//
//	key -> [(value, ts) ...]   (versions of a key in strictly increasing ts)
//
// with a logical clock Ts. Values are opaque byte strings, timestamps are
// uint64 (tbtree logical timestamps, store transaction ids, ...).
//
// A Model only grows (Set / Apply / AdvanceTs) except for TruncateAfter, which
// drops everything newer than a timestamp. The state "as of" a timestamp is a
// View (Model.At): every version with Ts <= the view's bound. Views are lazy
// and stay valid while the model grows; TruncateAfter(t) invalidates only views
// bound above t. CloneAt gives an independent deep copy (frozen snapshots with
// local writes).
//
// Queries are defined in the map's own terms and know nothing about immudb:
//
//	Get            latest version and the number of versions (revision count)
//	GetBetween     newest version with initialTs <= ts <= finalTs (0 = unbounded above)
//	History        versions of one key, asc or desc, with offset and limit
//	GetWithPrefix  smallest key >= prefix that carries the prefix (and is > neq)
//	Range          keys in asc/desc order with seek/end bounds, inclusiveness,
//	               prefix filter and key offset
//
// A Model is not safe for concurrent mutation; concurrent reads (views) are
// safe while nobody mutates.
package kvmodel

import (
	"bytes"
	"fmt"
	"sort"
)

// Version is one (value, timestamp) pair of a key.
type Version struct {
	Value []byte
	Ts    uint64
}

// KVT is one element of a bulk: key, value and the timestamp it gets.
type KVT struct {
	K, V []byte
	T    uint64
}

// Entry is one element of a range result: the key, its version visible in the
// view and Rev, the 1-based revision number of that version (for the latest
// version this is the number of versions visible in the view).
type Entry struct {
	Key []byte
	Version
	Rev uint64
}

// Model is the multi-version ordered map.
type Model struct {
	vers map[string][]Version // ascending Ts
	keys []string             // sorted
	ts   uint64
}

func New() *Model { return &Model{vers: map[string][]Version{}} }

// Ts is the logical time of the model: the greatest timestamp applied or advanced to.
func (m *Model) Ts() uint64 { return m.ts }

// Len is the number of distinct keys ever set.
func (m *Model) Len() int { return len(m.keys) }

// Versions is the total number of versions held.
func (m *Model) Versions() int {
	n := 0
	for _, vs := range m.vers {
		n += len(vs)
	}
	return n
}

func cp(b []byte) []byte { return append([]byte{}, b...) }

// Set adds version (value, ts) to key. A re-insert at the key's latest
// timestamp is a no-op (the first value wins) and returns false, nil. A
// timestamp older than the key's latest one is an error and changes nothing.
// The model clock advances to ts if greater.
func (m *Model) Set(key, value []byte, ts uint64) (added bool, err error) {
	k := string(key)
	vs, ok := m.vers[k]
	if ok && len(vs) > 0 {
		last := vs[len(vs)-1].Ts
		if ts < last {
			return false, fmt.Errorf("kvmodel: version at ts %d is older than latest version %d of key %x", ts, last, key)
		}
		if ts == last {
			if ts > m.ts {
				m.ts = ts
			}
			return false, nil
		}
	}
	if !ok {
		i := sort.SearchStrings(m.keys, k)
		m.keys = append(m.keys, "")
		copy(m.keys[i+1:], m.keys[i:])
		m.keys[i] = k
	}
	m.vers[k] = append(vs, Version{Value: cp(value), Ts: ts})
	if ts > m.ts {
		m.ts = ts
	}
	return true, nil
}

// Apply applies a bulk in order. Every element carries its own (non-zero)
// timestamp. On error nothing is applied.
func (m *Model) Apply(bulk []KVT) error {
	// validate first: per key, timestamps must be non-decreasing in bulk order
	last := map[string]uint64{}
	for _, e := range bulk {
		k := string(e.K)
		l, seen := last[k]
		if !seen {
			if vs := m.vers[k]; len(vs) > 0 {
				l = vs[len(vs)-1].Ts
			}
		}
		if e.T < l {
			return fmt.Errorf("kvmodel: bulk carries ts %d for key %x whose latest version is %d", e.T, e.K, l)
		}
		last[k] = e.T
	}
	for _, e := range bulk {
		m.Set(e.K, e.V, e.T)
	}
	return nil
}

// AdvanceTs moves the clock forward without adding versions. It reports false
// (and does nothing) when ts is not greater than the current clock.
func (m *Model) AdvanceTs(ts uint64) bool {
	if ts <= m.ts {
		return false
	}
	m.ts = ts
	return true
}

// TruncateAfter drops every version newer than ts and sets the clock to ts when
// it was ahead (what a reload of an older persisted state amounts to).
func (m *Model) TruncateAfter(ts uint64) {
	keys := m.keys[:0]
	for _, k := range m.keys {
		vs := m.vers[k]
		n := sort.Search(len(vs), func(i int) bool { return vs[i].Ts > ts })
		if n == 0 {
			delete(m.vers, k)
			continue
		}
		m.vers[k] = vs[:n:n]
		keys = append(keys, k)
	}
	m.keys = keys
	if m.ts > ts {
		m.ts = ts
	}
}

// CloneAt returns an independent deep copy holding the versions with Ts <= ts;
// its clock is min(ts, m.Ts()).
func (m *Model) CloneAt(ts uint64) *Model {
	c := New()
	for _, k := range m.keys {
		vs := m.vers[k]
		n := sort.Search(len(vs), func(i int) bool { return vs[i].Ts > ts })
		if n == 0 {
			continue
		}
		nv := make([]Version, n)
		for i := 0; i < n; i++ {
			nv[i] = Version{Value: cp(vs[i].Value), Ts: vs[i].Ts}
		}
		c.vers[k] = nv
		c.keys = append(c.keys, k)
	}
	c.ts = ts
	if m.ts < ts {
		c.ts = m.ts
	}
	return c
}

// At is the state of the map as of ts: all versions with Ts <= ts.
func (m *Model) At(ts uint64) View { return View{m: m, ts: ts} }

// Now is the current state.
func (m *Model) Now() View { return View{m: m, ts: ^uint64(0)} }

// View is the map restricted to versions with Ts <= the bound.
type View struct {
	m  *Model
	ts uint64
}

// Bound is the timestamp bound of the view.
func (v View) Bound() uint64 { return v.ts }

// versions visible in the view, ascending ts (shared storage: do not modify).
func (v View) versions(key string) []Version {
	vs := v.m.vers[key]
	if len(vs) == 0 || vs[len(vs)-1].Ts <= v.ts {
		return vs
	}
	return vs[:sort.Search(len(vs), func(i int) bool { return vs[i].Ts > v.ts })]
}

// Keys lists the keys present in the view in ascending order.
func (v View) Keys() [][]byte {
	var out [][]byte
	for _, k := range v.m.keys {
		if len(v.versions(k)) > 0 {
			out = append(out, []byte(k))
		}
	}
	return out
}

// Len is the number of keys present in the view.
func (v View) Len() int {
	n := 0
	for _, k := range v.m.keys {
		if len(v.versions(k)) > 0 {
			n++
		}
	}
	return n
}

// Versions is the total number of versions visible in the view.
func (v View) Versions() int {
	n := 0
	for _, k := range v.m.keys {
		n += len(v.versions(k))
	}
	return n
}

// Get returns the latest version of key and the number of versions it has.
func (v View) Get(key []byte) (ver Version, count uint64, ok bool) {
	vs := v.versions(string(key))
	if len(vs) == 0 {
		return Version{}, 0, false
	}
	return vs[len(vs)-1], uint64(len(vs)), true
}

// GetBetween returns the newest version of key with initialTs <= Ts <= finalTs
// (finalTs == 0: no upper bound) and its 1-based revision number.
func (v View) GetBetween(key []byte, initialTs, finalTs uint64) (ver Version, rev uint64, ok bool) {
	vs := v.versions(string(key))
	for i := len(vs) - 1; i >= 0; i-- {
		if vs[i].Ts < initialTs {
			break
		}
		if finalTs == 0 || vs[i].Ts <= finalTs {
			return vs[i], uint64(i + 1), true
		}
	}
	return Version{}, 0, false
}

// HistoryStatus classifies a History call.
type HistoryStatus int

const (
	HistoryOK          HistoryStatus = iota
	HistoryKeyNotFound               // key has no version in the view
	HistoryNoMore                    // offset == number of versions
	HistoryOutOfRange                // offset > number of versions
)

// History returns up to limit versions of key after skipping offset versions,
// counted from the oldest (desc == false, result ascending) or from the newest
// (desc == true, result descending), and the total number of versions.
func (v View) History(key []byte, offset uint64, desc bool, limit int) (out []Version, count uint64, st HistoryStatus) {
	vs := v.versions(string(key))
	if len(vs) == 0 {
		return nil, 0, HistoryKeyNotFound
	}
	count = uint64(len(vs))
	if offset == count {
		return nil, count, HistoryNoMore
	}
	if offset > count {
		return nil, count, HistoryOutOfRange
	}
	n := count - offset
	if limit >= 0 && uint64(limit) < n {
		n = uint64(limit)
	}
	out = make([]Version, 0, n)
	for i := uint64(0); i < n; i++ {
		if desc {
			out = append(out, vs[count-1-offset-i])
		} else {
			out = append(out, vs[offset+i])
		}
	}
	return out, count, HistoryOK
}

// GetWithPrefix returns the smallest key k with k >= prefix (and k > neq when
// neq is not empty) provided k carries the prefix.
func (v View) GetWithPrefix(prefix, neq []byte) (key []byte, ver Version, count uint64, ok bool) {
	i := sort.SearchStrings(v.m.keys, string(prefix))
	for ; i < len(v.m.keys); i++ {
		k := v.m.keys[i]
		vs := v.versions(k)
		if len(vs) == 0 {
			continue
		}
		if len(neq) > 0 && k <= string(neq) {
			continue
		}
		if !bytes.HasPrefix([]byte(k), prefix) {
			return nil, Version{}, 0, false
		}
		return []byte(k), vs[len(vs)-1], uint64(len(vs)), true
	}
	return nil, Version{}, 0, false
}

// RangeSpec selects keys for Range. Iteration starts at SeekKey and proceeds
// towards EndKey in the chosen direction; an empty SeekKey / EndKey leaves that
// side unbounded. Only keys carrying Prefix qualify; the first Offset
// qualifying keys are skipped.
type RangeSpec struct {
	SeekKey, EndKey, Prefix     []byte
	InclusiveSeek, InclusiveEnd bool
	Desc                        bool
	Offset                      uint64
}

// Match reports whether key lies inside the bounds and carries the prefix.
func (s RangeSpec) Match(key []byte) bool {
	if !bytes.HasPrefix(key, s.Prefix) {
		return false
	}
	if len(s.SeekKey) > 0 {
		c := bytes.Compare(key, s.SeekKey)
		if s.Desc {
			c = -c
		}
		if c < 0 || (c == 0 && !s.InclusiveSeek) {
			return false
		}
	}
	if len(s.EndKey) > 0 {
		c := bytes.Compare(key, s.EndKey)
		if s.Desc {
			c = -c
		}
		if c > 0 || (c == 0 && !s.InclusiveEnd) {
			return false
		}
	}
	return true
}

// RangeKeys lists the qualifying keys in iteration order, after the offset.
func (v View) RangeKeys(s RangeSpec) [][]byte {
	var out [][]byte
	skipped := uint64(0)
	n := len(v.m.keys)
	for i := 0; i < n; i++ {
		k := v.m.keys[i]
		if s.Desc {
			k = v.m.keys[n-1-i]
		}
		if len(v.versions(k)) == 0 || !s.Match([]byte(k)) {
			continue
		}
		if skipped < s.Offset {
			skipped++
			continue
		}
		out = append(out, []byte(k))
	}
	return out
}

// Range lists the qualifying keys with their latest version, in iteration order.
func (v View) Range(s RangeSpec) []Entry {
	keys := v.RangeKeys(s)
	out := make([]Entry, 0, len(keys))
	for _, k := range keys {
		ver, n, _ := v.Get(k)
		out = append(out, Entry{Key: k, Version: ver, Rev: n})
	}
	return out
}

// RangeBetween is Range where every key contributes its newest version with
// initialTs <= Ts <= finalTs (finalTs == 0: unbounded); keys without such a
// version are left out (they still count for the offset).
func (v View) RangeBetween(s RangeSpec, initialTs, finalTs uint64) []Entry {
	keys := v.RangeKeys(s)
	out := make([]Entry, 0, len(keys))
	for _, k := range keys {
		if ver, rev, ok := v.GetBetween(k, initialTs, finalTs); ok {
			out = append(out, Entry{Key: k, Version: ver, Rev: rev})
		}
	}
	return out
}

// RangeHistory is Range where every key contributes all of its versions,
// oldest first when ascending and newest first when descending; Rev is the
// revision number of each version. The offset counts keys.
func (v View) RangeHistory(s RangeSpec) []Entry {
	keys := v.RangeKeys(s)
	var out []Entry
	for _, k := range keys {
		vs := v.versions(string(k))
		for i := range vs {
			j := i
			if s.Desc {
				j = len(vs) - 1 - i
			}
			out = append(out, Entry{Key: k, Version: vs[j], Rev: uint64(j + 1)})
		}
	}
	return out
}

// SelfCheck exercises the model on a tiny fixed scenario and returns the first
// discrepancy (nil when the model behaves as documented). Monitors call it once
// before trusting the model as an oracle.
func SelfCheck() error {
	m := New()
	fail := func(f string, a ...any) error { return fmt.Errorf("kvmodel self-check: "+f, a...) }
	b := func(s string) []byte { return []byte(s) }
	if err := m.Apply([]KVT{{b("b"), b("b1"), 1}, {b("a"), b("a1"), 1}, {b("b"), b("b1x"), 1}, {b("ab"), b("ab2"), 2}}); err != nil {
		return fail("apply: %v", err)
	}
	if m.Ts() != 2 || m.Len() != 3 || m.Versions() != 3 {
		return fail("after bulk: ts=%d len=%d versions=%d", m.Ts(), m.Len(), m.Versions())
	}
	if v, n, ok := m.Now().Get(b("b")); !ok || string(v.Value) != "b1" || n != 1 {
		return fail("same-ts re-insert must be a no-op, got %q n=%d", v.Value, n)
	}
	if err := m.Apply([]KVT{{b("c"), b("c3"), 3}, {b("b"), b("old"), 0}}); err == nil || m.Ts() != 2 {
		return fail("bulk with an older timestamp must fail atomically")
	}
	m.Set(b("b"), b("b3"), 3)
	m.Set(b("b"), b("b5"), 5)
	m.AdvanceTs(7)
	if m.AdvanceTs(7) || m.Ts() != 7 {
		return fail("AdvanceTs")
	}
	if _, _, ok := m.At(1).Get(b("ab")); ok {
		return fail("view at 1 must not see a version written at 2")
	}
	if v, rev, ok := m.Now().GetBetween(b("b"), 2, 4); !ok || v.Ts != 3 || rev != 2 {
		return fail("GetBetween(2,4) = %v rev=%d", v, rev)
	}
	if _, _, ok := m.Now().GetBetween(b("b"), 6, 0); ok {
		return fail("GetBetween above the newest version")
	}
	if h, n, st := m.Now().History(b("b"), 1, false, 5); st != HistoryOK || n != 3 || len(h) != 2 || h[0].Ts != 3 || h[1].Ts != 5 {
		return fail("History asc: %v n=%d st=%d", h, n, st)
	}
	if h, _, st := m.At(4).History(b("b"), 0, true, 1); st != HistoryOK || len(h) != 1 || h[0].Ts != 3 {
		return fail("History desc at 4: %v", h)
	}
	if _, _, st := m.Now().History(b("b"), 3, true, 1); st != HistoryNoMore {
		return fail("History offset==count")
	}
	if _, _, st := m.Now().History(b("b"), 4, true, 1); st != HistoryOutOfRange {
		return fail("History offset>count")
	}
	if _, _, st := m.Now().History(b("zz"), 0, true, 1); st != HistoryKeyNotFound {
		return fail("History of a missing key")
	}
	if k, _, _, ok := m.Now().GetWithPrefix(b("a"), b("a")); !ok || string(k) != "ab" {
		return fail("GetWithPrefix(a, neq a) = %q", k)
	}
	if _, _, _, ok := m.Now().GetWithPrefix(b("ac"), nil); ok {
		return fail("GetWithPrefix(ac)")
	}
	r := m.Now().Range(RangeSpec{SeekKey: b("ab"), EndKey: b("b"), InclusiveEnd: true})
	if len(r) != 1 || string(r[0].Key) != "b" || r[0].Rev != 3 {
		return fail("Range asc exclusive seek: %v", r)
	}
	r = m.Now().Range(RangeSpec{Desc: true, SeekKey: b("b"), InclusiveSeek: true, Offset: 1})
	if len(r) != 2 || string(r[0].Key) != "ab" || string(r[1].Key) != "a" {
		return fail("Range desc with offset: %v", r)
	}
	if h := m.Now().RangeHistory(RangeSpec{Prefix: b("b"), Desc: true}); len(h) != 3 || h[0].Ts != 5 || h[0].Rev != 3 || h[2].Rev != 1 {
		return fail("RangeHistory desc: %v", h)
	}
	if e := m.Now().RangeBetween(RangeSpec{}, 2, 3); len(e) != 2 || string(e[0].Key) != "ab" || e[1].Ts != 3 || e[1].Rev != 2 {
		return fail("RangeBetween: %v", e)
	}
	c := m.CloneAt(3)
	c.Set(b("b"), b("local"), 4)
	if v, _, _ := m.At(4).Get(b("b")); v.Ts != 3 {
		return fail("CloneAt must be independent")
	}
	m.TruncateAfter(2)
	if m.Ts() != 2 || m.Versions() != 3 {
		return fail("TruncateAfter: ts=%d versions=%d", m.Ts(), m.Versions())
	}
	if v, n, _ := c.Now().Get(b("b")); string(v.Value) != "local" || n != 3 {
		return fail("clone after truncate: %q n=%d", v.Value, n)
	}
	return nil
}
