package kvmodel

import "testing"

func TestSelfCheck(t *testing.T) {
	if err := SelfCheck(); err != nil {
		t.Fatal(err)
	}
}
