// Package sth: small helpers shared by monitors that drive embedded/store.
package sth

import (
	"context"
	"io"
	"os"
	"path/filepath"
	"time"

	"github.com/codenotary/immudb/embedded/logger"
	"github.com/codenotary/immudb/embedded/store"
)

// SmallOpts are store options sized for cheap opens (store.Open preallocates
// MaxConcurrency × MaxTxEntries × MaxKeyLen).
func SmallOpts() *store.Options {
	o := smallOpts()
	// the hash tree's default write buffer is 16 MiB for each of its three logs: clearing it dominates Open
	o.WithAHTOptions(o.AHTOpts.WithWriteBufferSize(1 << 14))
	return o
}

func smallOpts() *store.Options {
	return store.DefaultOptions().
		WithMaxTxEntries(16).WithMaxKeyLen(64).WithMaxConcurrency(4).
		WithMaxValueLen(1 << 12).
		WithLogger(QuietLogger()).
		WithSynced(false)
}

type KV struct {
	K, V []byte
	MD   *store.KVMetadata
}

// CommitTimeout bounds Commit/CommitMD: a store that stopped making progress (e.g. an indexer that
// cannot decode what was just written) must not hang a monitor; the error is context.DeadlineExceeded.
var CommitTimeout = 30 * time.Second

func Commit(st *store.ImmuStore, kvs ...KV) (*store.TxHeader, error) {
	ctx, cancel := context.WithTimeout(context.Background(), CommitTimeout)
	defer cancel()
	tx, err := st.NewWriteOnlyTx(ctx)
	if err != nil {
		return nil, err
	}
	for _, kv := range kvs {
		if err := tx.Set(kv.K, kv.MD, kv.V); err != nil {
			tx.Cancel()
			return nil, err
		}
	}
	return tx.Commit(ctx)
}

func CommitMD(st *store.ImmuStore, md *store.TxMetadata, kvs ...KV) (*store.TxHeader, error) {
	ctx, cancel := context.WithTimeout(context.Background(), CommitTimeout)
	defer cancel()
	tx, err := st.NewWriteOnlyTx(ctx)
	if err != nil {
		return nil, err
	}
	tx.WithMetadata(md)
	for _, kv := range kvs {
		if err := tx.Set(kv.K, kv.MD, kv.V); err != nil {
			tx.Cancel()
			return nil, err
		}
	}
	return tx.Commit(ctx)
}

// CopyDir copies a directory tree (regular files only).
func CopyDir(src, dst string) error {
	return filepath.Walk(src, func(p string, info os.FileInfo, err error) error {
		if err != nil {
			return err
		}
		rel, _ := filepath.Rel(src, p)
		target := filepath.Join(dst, rel)
		if info.IsDir() {
			return os.MkdirAll(target, 0o755)
		}
		in, err := os.Open(p)
		if err != nil {
			return err
		}
		defer in.Close()
		out, err := os.OpenFile(target, os.O_CREATE|os.O_WRONLY|os.O_TRUNC, 0o644)
		if err != nil {
			return err
		}
		if _, err := io.Copy(out, in); err != nil {
			out.Close()
			return err
		}
		return out.Close()
	})
}

func QuietLogger() logger.Logger {
	return logger.NewSimpleLoggerWithLevel("verif", io.Discard, logger.LogError)
}
