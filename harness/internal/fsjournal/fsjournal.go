//go:build verif

// Package fsjournal turns a recorded file-system journal (internal/hook.Journal)
// into crash images: directories holding what a real process + POSIX file system
// could have left on disk had everything stopped right before journal event p.
//
// Loss models
//
//	M0  process kill: every write issued before p is present.
//	M1  power loss, nothing un-fsynced survives: per file only the content as of its
//	    last fsync before p; directory operations (create, remove, rename) only when
//	    the directory was fsynced afterwards.
//	M2  power loss, per-file prefix: per file the fsynced content plus a PRNG-chosen
//	    prefix of the later writes, the last of them torn at a PRNG-chosen byte;
//	    pending directory operations applied or not by PRNG coin.
//
// Arbitrary subsets of un-fsynced writes are deliberately not generated (the
// property quantifies over per-file prefixes).
package fsjournal

import (
	"encoding/gob"
	"fmt"
	"math/rand/v2"
	"os"
	"path/filepath"
	"sort"
	"strings"

	"verifharness/internal/hook"
)

type Model int

const (
	M0 Model = iota
	M1
	M2
)

func (m Model) String() string { return [...]string{"M0-kill", "M1-synced-only", "M2-prefix-torn"}[m] }

// Trace is a journal with paths made relative to the store directory.
type Trace struct {
	Events []hook.Event
}

// Relativize rewrites absolute paths below root to relative ones and drops events outside root.
func Relativize(events []hook.Event, root string) *Trace {
	t := &Trace{}
	rel := func(p string) (string, bool) {
		if p == "" {
			return "", true
		}
		r, err := filepath.Rel(root, p)
		if err != nil || strings.HasPrefix(r, "..") {
			return "", false
		}
		return r, true
	}
	for _, e := range events {
		if e.Op == hook.OpMark {
			t.Events = append(t.Events, e)
			continue
		}
		p1, ok1 := rel(e.Path)
		p2, ok2 := rel(e.Path2)
		if !ok1 || !ok2 {
			continue
		}
		e.Path, e.Path2 = p1, p2
		t.Events = append(t.Events, e)
	}
	return t
}

func (t *Trace) Save(path string) error {
	f, err := os.Create(path)
	if err != nil {
		return err
	}
	defer f.Close()
	return gob.NewEncoder(f).Encode(t)
}

func Load(path string) (*Trace, error) {
	f, err := os.Open(path)
	if err != nil {
		return nil, err
	}
	defer f.Close()
	t := &Trace{}
	return t, gob.NewDecoder(f).Decode(t)
}

type write struct {
	off  int64
	data []byte
}

type file struct {
	data    []byte // content with every write applied (page-cache view)
	durable []byte // content as of the last fsync of this file
	pending []write
	exists  bool // exists in the page-cache view
	// durable directory view: the name is known to be on disk (directory fsynced after creation)
	durEntry bool
	// the name held another durable file before a not-yet-durable rename replaced it
	hasPrev bool
	prev    []byte
}

// Info describes what a materialized image contains (used for fingerprints).
type Info struct {
	Files        int
	TornWrites   int
	DroppedWrite int
	PendingDirOp int
	KindAtP      string
}

func apply(buf []byte, w write, n int) []byte {
	end := w.off + int64(n)
	if int64(len(buf)) < end {
		buf = append(buf, make([]byte, end-int64(len(buf)))...)
	}
	copy(buf[w.off:end], w.data[:n])
	return buf
}

// Materialize writes the image for crash point p (events[0:p] happened) into dst.
func Materialize(t *Trace, p int, m Model, r *rand.Rand, dst string) (Info, error) {
	return MaterializeOn("", t, p, m, r, dst)
}

// MaterializeOn is Materialize for a journal recorded on top of an existing directory
// (base): every file of base is durable content (it is what the previous crash left on
// disk). Used for crashes during recovery.
func MaterializeOn(base string, t *Trace, p int, m Model, r *rand.Rand, dst string) (Info, error) {
	files := map[string]*file{}
	if base != "" {
		err := filepath.Walk(base, func(path string, fi os.FileInfo, err error) error {
			if err != nil || fi.IsDir() {
				return err
			}
			rel, err := filepath.Rel(base, path)
			if err != nil {
				return err
			}
			data, err := os.ReadFile(path)
			if err != nil {
				return err
			}
			files[rel] = &file{data: data, durable: append([]byte(nil), data...), exists: true, durEntry: true}
			return nil
		})
		if err != nil {
			return Info{}, err
		}
	}
	info := Info{}
	if p < len(t.Events) {
		info.KindAtP = t.Events[p].Op.String()
		if t.Events[p].Op == hook.OpMark {
			info.KindAtP = "mark:" + t.Events[p].Kind
		}
	} else {
		info.KindAtP = "end"
	}
	get := func(path string) *file {
		f := files[path]
		if f == nil {
			f = &file{}
			files[path] = f
		}
		return f
	}
	for _, e := range t.Events[:p] {
		switch e.Op {
		case hook.OpCreate:
			f := get(e.Path)
			*f = file{exists: true, durEntry: f.durEntry && f.exists}
		case hook.OpWrite:
			f := get(e.Path)
			f.exists = true
			w := write{e.Off, e.Data}
			f.data = apply(f.data, w, len(e.Data))
			f.pending = append(f.pending, w)
		case hook.OpSync:
			f := get(e.Path)
			f.durable = append([]byte(nil), f.data...)
			f.pending = nil
		case hook.OpSyncDir:
			dir := filepath.Clean(e.Path)
			for path, f := range files {
				if filepath.Dir(path) != dir {
					continue
				}
				if !f.exists {
					delete(files, path) // removal / rename-away is durable now
					continue
				}
				f.durEntry = true
				f.hasPrev, f.prev = false, nil
			}
		case hook.OpRemove:
			if f := files[e.Path]; f != nil {
				f.exists = false
			}
		case hook.OpRemoveAll:
			prefix := e.Path + string(filepath.Separator)
			for path, f := range files {
				if path == e.Path || strings.HasPrefix(path, prefix) {
					f.exists = false
				}
			}
		case hook.OpRename:
			src := files[e.Path]
			if src == nil || !src.exists {
				continue
			}
			nf := &file{data: src.data, durable: src.durable, pending: src.pending, exists: true}
			if old := files[e.Path2]; old != nil && old.durEntry {
				// until the directory is fsynced the old file may still be what the name shows
				nf.hasPrev = true
				nf.prev = old.durable
				if old.hasPrev {
					nf.prev = old.prev
				}
			}
			files[e.Path2] = nf
			src.exists = false
		}
	}

	// decide what is on disk
	out := map[string][]byte{}
	paths := make([]string, 0, len(files))
	for path := range files {
		paths = append(paths, path)
	}
	sort.Strings(paths)
	tornable := func(f *file) []byte {
		buf := append([]byte(nil), f.durable...)
		if n := len(f.pending); n > 0 {
			k := r.IntN(n + 1)
			for i := 0; i < k; i++ {
				buf = apply(buf, f.pending[i], len(f.pending[i].data))
			}
			if k < n {
				info.DroppedWrite += n - k
				w := f.pending[k]
				if len(w.data) > 1 && r.IntN(2) == 0 {
					buf = apply(buf, w, 1+r.IntN(len(w.data)-1))
					info.TornWrites++
				}
			}
		}
		return buf
	}
	for _, path := range paths {
		f := files[path]
		switch m {
		case M0:
			if f.exists {
				out[path] = f.data
			}
		case M1:
			switch {
			case f.durEntry:
				// also covers a removal whose directory was not fsynced: the file is still there
				out[path] = f.durable
			case f.hasPrev:
				out[path] = f.prev
			}
		case M2:
			switch {
			case f.exists && f.durEntry:
				out[path] = tornable(f)
			case f.exists && f.hasPrev:
				info.PendingDirOp++
				if r.IntN(2) == 0 {
					out[path] = f.prev
				} else {
					out[path] = tornable(f)
				}
			case f.exists:
				info.PendingDirOp++
				if r.IntN(4) > 0 {
					out[path] = tornable(f)
				}
			case f.durEntry: // removed, directory not fsynced since
				info.PendingDirOp++
				if r.IntN(2) == 0 {
					out[path] = tornable(f)
				}
			}
		}
	}
	info.Files = len(out)
	for path, data := range out {
		full := filepath.Join(dst, path)
		if err := os.MkdirAll(filepath.Dir(full), 0o755); err != nil {
			return info, err
		}
		if err := os.WriteFile(full, data, 0o644); err != nil {
			return info, fmt.Errorf("write %s: %w", path, err)
		}
	}
	return info, nil
}
