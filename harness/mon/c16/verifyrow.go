package c16

// Entry point "client.VerifyRow": a VerifiableSQLEntry message (what the server answers to
// VerifiableSQLGet) handed to the unmodified client's VerifyRow. The message is untrusted input:
// whatever it holds, the client must return (an error or nil) within bounded memory, never panic.

import (
	"context"
	"fmt"
	"math/rand/v2"
	"path/filepath"
	"sync"

	"google.golang.org/grpc"
	"google.golang.org/protobuf/proto"

	"github.com/codenotary/immudb/embedded/sql"
	"github.com/codenotary/immudb/pkg/api/schema"
	immuclient "github.com/codenotary/immudb/pkg/client"
	"github.com/codenotary/immudb/pkg/database"

	"verifharness/internal/sth"
)

type rowSvc struct {
	schema.ImmuServiceClient
	resp      *schema.VerifiableSQLEntry
	variant   int
	followUps int
}

func (f *rowSvc) VerifiableSQLGet(ctx context.Context, in *schema.VerifiableSQLGetRequest, opts ...grpc.CallOption) (*schema.VerifiableSQLEntry, error) {
	return proto.Clone(f.resp).(*schema.VerifiableSQLEntry), nil
}

// follow-up requests of the same client call (FillMissingLinearAdvanceProof) are answered by the same
// untrusted server: with an error, with an empty message, with a message lacking the linear proof, or with
// the transaction part of the first answer
func (f *rowSvc) VerifiableTxById(ctx context.Context, in *schema.VerifiableTxRequest, opts ...grpc.CallOption) (*schema.VerifiableTx, error) {
	f.followUps++
	switch (f.variant + f.followUps) % 4 {
	case 0:
		return nil, fmt.Errorf("unavailable")
	case 1:
		return &schema.VerifiableTx{}, nil
	case 2:
		return &schema.VerifiableTx{DualProof: &schema.DualProof{}}, nil
	}
	if vt := f.resp.GetVerifiableTx(); vt != nil {
		return proto.Clone(vt).(*schema.VerifiableTx), nil
	}
	return &schema.VerifiableTx{}, nil
}

type rowState struct {
	mu sync.Mutex
	st *schema.ImmutableState
}

func (m *rowState) GetState(ctx context.Context, db string) (*schema.ImmutableState, error) {
	m.mu.Lock()
	defer m.mu.Unlock()
	return proto.Clone(m.st).(*schema.ImmutableState), nil
}
func (m *rowState) SetState(db string, st *schema.ImmutableState) error {
	m.mu.Lock()
	defer m.mu.Unlock()
	m.st = proto.Clone(st).(*schema.ImmutableState)
	return nil
}
func (m *rowState) CacheLock() error           { return nil }
func (m *rowState) CacheUnlock() error         { return nil }
func (m *rowState) SetServerIdentity(s string) {}

// the one row every seed is about
const rowTable = "vr"

func rowClaim() (*schema.Row, []*schema.SQLValue) {
	n := func(x int64) *schema.SQLValue { return &schema.SQLValue{Value: &schema.SQLValue_N{N: x}} }
	s := func(x string) *schema.SQLValue { return &schema.SQLValue{Value: &schema.SQLValue_S{S: x}} }
	row := &schema.Row{
		Columns: []string{sql.EncodeSelector("", rowTable, "id"), sql.EncodeSelector("", rowTable, "name"), sql.EncodeSelector("", rowTable, "amount")},
		Values:  []*schema.SQLValue{n(1), s("first"), n(42)},
	}
	return row, []*schema.SQLValue{n(1)}
}

func init() {
	protoTypes["client.VerifyRow"] = func() proto.Message { return &schema.VerifiableSQLEntry{} }
	drivers["client.VerifyRow"] = func(in []byte, _ *rand.Rand) error {
		e := &schema.VerifiableSQLEntry{}
		if err := proto.Unmarshal(in, e); err != nil {
			return fmt.Errorf("proto: cannot parse")
		}
		// trusted states the client may hold: none, and the states named by the proof's own headers
		states := []*schema.ImmutableState{{Db: "defaultdb"}}
		if vt := e.GetVerifiableTx(); vt != nil && vt.GetDualProof() != nil {
			for _, h := range []*schema.TxHeader{vt.DualProof.GetSourceTxHeader(), vt.DualProof.GetTargetTxHeader()} {
				if h != nil && h.Version >= 0 && h.Version <= 1 {
					alh := schema.TxHeaderFromProto(h).Alh()
					states = append(states, &schema.ImmutableState{Db: "defaultdb", TxId: h.Id, TxHash: alh[:]})
				}
			}
		}
		row, pk := rowClaim()
		var last error
		for _, st := range states {
			ic := immuclient.NewClient().WithLogger(sth.QuietLogger()).WithClientConn(&grpc.ClientConn{}).
				WithServiceClient(&rowSvc{resp: e, variant: len(in)}).WithStateService(&rowState{st: st})
			last = ic.VerifyRow(context.Background(), row, rowTable, pk)
		}
		return last
	}
}

// verifyRowSeeds builds honest VerifiableSQLEntry messages from a small real database.
func verifyRowSeeds(root string) ([]seedInput, error) {
	opts := database.DefaultOptions().WithDBRootPath(filepath.Join(root, "verifyrow-db")).WithStoreOptions(sth.SmallOpts().WithMaxTxEntries(32).WithMaxKeyLen(128))
	db, err := database.NewDB("defaultdb", nil, opts, sth.QuietLogger())
	if err != nil {
		return nil, err
	}
	defer db.Close()
	ctx := context.Background()
	for _, q := range []string{
		"CREATE TABLE vr (id INTEGER, name VARCHAR[16], amount INTEGER, note VARCHAR[8], PRIMARY KEY id)",
		"INSERT INTO vr (id, name, amount) VALUES (2, 'second', 7)",
		"INSERT INTO vr (id, name, amount, note) VALUES (1, 'first', 42, NULL)",
		"INSERT INTO vr (id, name, amount) VALUES (3, 'third', 9)",
	} {
		if _, _, err := db.SQLExec(ctx, nil, &schema.SQLExecRequest{Sql: q}); err != nil {
			return nil, fmt.Errorf("%s: %w", q, err)
		}
	}
	st, err := db.CurrentState()
	if err != nil {
		return nil, err
	}
	_, pk := rowClaim()
	var out []seedInput
	for _, since := range []uint64{0, 1, st.TxId - 1, st.TxId} {
		e, err := db.VerifiableSQLGet(ctx, &schema.VerifiableSQLGetRequest{SqlGetRequest: &schema.SQLGetRequest{Table: rowTable, PkValues: pk}, ProveSinceTx: since})
		if err != nil {
			return nil, fmt.Errorf("VerifiableSQLGet since %d: %w", since, err)
		}
		out = append(out, seedInput{Name: fmt.Sprintf("sqlentry-since-%d", since), B: mustMarshal(e)})
	}
	return out, nil
}
