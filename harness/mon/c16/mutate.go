package c16

import (
	"encoding/binary"
	"fmt"
	"math/rand/v2"
)

// field is one structural element of a valid encoding: a length, count, tag,
// flag or identifier at a known offset (big-endian, Size bytes).
type field struct {
	Off, Size int
	Name      string
}

// seedInput is one valid encoding produced by the real encoder, annotated with
// its structure.
type seedInput struct {
	Name     string
	B        []byte
	Fields   []field
	Sections [][2]int // [from,to) ranges that can be duplicated / swapped / removed
	Header   int      // length of the header region (single-bit flips are enumerated there)
}

// mutation is one deterministic derivation of an input from a seed input.
type mutation struct {
	Class string
	Make  func() []byte
}

func clone(b []byte) []byte { return append([]byte{}, b...) }

func getBE(b []byte, size int) uint64 {
	var v uint64
	for i := 0; i < size; i++ {
		v = v<<8 | uint64(b[i])
	}
	return v
}

func putBE(b []byte, size int, v uint64) {
	for i := size - 1; i >= 0; i-- {
		b[i] = byte(v)
		v >>= 8
	}
}

type special struct {
	label string
	val   func(orig, max uint64) uint64
}

var specials = []special{
	{"0", func(o, m uint64) uint64 { return 0 }},
	{"1", func(o, m uint64) uint64 { return 1 }},
	{"2", func(o, m uint64) uint64 { return 2 }},
	{"max", func(o, m uint64) uint64 { return m }},
	{"max-1", func(o, m uint64) uint64 { return m - 1 }},
	{"half", func(o, m uint64) uint64 { return m >> 1 }},
	{"msb", func(o, m uint64) uint64 { return (m >> 1) + 1 }},
	{"len+1", func(o, m uint64) uint64 { return (o + 1) & m }},
	{"len-1", func(o, m uint64) uint64 { return (o - 1) & m }},
	{"len+8", func(o, m uint64) uint64 { return (o + 8) & m }},
	{"x256", func(o, m uint64) uint64 { return (o << 8) & m }},
	{"1MiB", func(o, m uint64) uint64 { return (1 << 20) & m }},
	{"1GiB", func(o, m uint64) uint64 { return (1 << 30) & m }},
}

func regionOf(s *seedInput, off int) string {
	for _, f := range s.Fields {
		if off >= f.Off && off < f.Off+f.Size {
			return f.Name
		}
	}
	return "body"
}

// systematic enumerates the structure-aware mutations of one seed input:
// every field × every special value, truncation at every byte, every section
// duplicated / removed / swapped with the next, every single-bit flip of the
// header region, small extensions.
func systematic(s *seedInput) []mutation {
	var out []mutation
	out = append(out, mutation{"valid", func() []byte { return clone(s.B) }})
	for _, f := range s.Fields {
		f := f
		if f.Off+f.Size > len(s.B) {
			continue
		}
		max := uint64(1)<<(8*uint(f.Size)) - 1
		if f.Size == 8 {
			max = ^uint64(0)
		}
		orig := getBE(s.B[f.Off:], f.Size)
		seen := map[uint64]bool{orig: true}
		for _, sp := range specials {
			v := sp.val(orig, max)
			if seen[v] {
				continue
			}
			seen[v] = true
			out = append(out, mutation{"field:" + f.Name + "=" + sp.label, func() []byte {
				b := clone(s.B)
				putBE(b[f.Off:], f.Size, v)
				return b
			}})
		}
	}
	for cut := 0; cut < len(s.B); cut++ {
		cut := cut
		out = append(out, mutation{"trunc:" + regionOf(s, cut), func() []byte { return clone(s.B[:cut]) }})
	}
	for i, sec := range s.Sections {
		i, sec := i, sec
		out = append(out, mutation{fmt.Sprintf("dup-section"), func() []byte {
			b := clone(s.B[:sec[1]])
			b = append(b, s.B[sec[0]:sec[1]]...)
			return append(b, s.B[sec[1]:]...)
		}})
		out = append(out, mutation{fmt.Sprintf("del-section"), func() []byte {
			b := clone(s.B[:sec[0]])
			return append(b, s.B[sec[1]:]...)
		}})
		if i+1 < len(s.Sections) && s.Sections[i+1][0] == sec[1] {
			nx := s.Sections[i+1]
			out = append(out, mutation{"swap-sections", func() []byte {
				b := clone(s.B[:sec[0]])
				b = append(b, s.B[nx[0]:nx[1]]...)
				b = append(b, s.B[sec[0]:sec[1]]...)
				return append(b, s.B[nx[1]:]...)
			}})
		}
	}
	hl := s.Header
	if hl > len(s.B) {
		hl = len(s.B)
	}
	for bit := 0; bit < hl*8; bit++ {
		bit := bit
		out = append(out, mutation{"bitflip:" + regionOf(s, bit/8), func() []byte {
			b := clone(s.B)
			b[bit/8] ^= 1 << uint(bit%8)
			return b
		}})
	}
	for _, ext := range [][]byte{{0}, {0xff}, {0, 0}, {0, 1, 0}, {0, 0, 0, 0}, {0xff, 0xff, 0xff, 0xff}} {
		ext := ext
		out = append(out, mutation{"extend", func() []byte { return append(clone(s.B), ext...) }})
	}
	return out
}

// randomMutation derives an input with PRNG-chosen stacked mutations or plain
// random bytes.
func randomMutation(corpus []seedInput, r *rand.Rand) (string, []byte) {
	if len(corpus) == 0 || r.IntN(6) == 0 {
		n := r.IntN(24)
		if r.IntN(4) == 0 {
			n = r.IntN(300)
		}
		b := make([]byte, n)
		for i := range b {
			switch r.IntN(4) {
			case 0:
				b[i] = 0
			case 1:
				b[i] = byte(r.IntN(4))
			case 2:
				b[i] = 0xff
			default:
				b[i] = byte(r.IntN(256))
			}
		}
		return "random-bytes", b
	}
	s := &corpus[r.IntN(len(corpus))]
	b := clone(s.B)
	n := 1 + r.IntN(3)
	class := ""
	for k := 0; k < n; k++ {
		op := r.IntN(8)
		var c string
		switch op {
		case 0, 1: // field to special / random value
			if len(s.Fields) == 0 {
				c = "noop"
				break
			}
			f := s.Fields[r.IntN(len(s.Fields))]
			if f.Off+f.Size > len(b) {
				c = "noop"
				break
			}
			max := uint64(1)<<(8*uint(f.Size)) - 1
			if f.Size == 8 {
				max = ^uint64(0)
			}
			var v uint64
			if op == 0 {
				v = specials[r.IntN(len(specials))].val(getBE(b[f.Off:], f.Size), max)
			} else {
				v = r.Uint64() >> uint(r.IntN(64)) & max
			}
			putBE(b[f.Off:], f.Size, v)
			c = "field"
		case 2:
			if len(b) > 0 {
				b = b[:r.IntN(len(b))]
			}
			c = "trunc"
		case 3:
			if len(b) > 0 {
				b[r.IntN(len(b))] ^= 1 << uint(r.IntN(8))
			}
			c = "bitflip"
		case 4:
			if len(b) > 0 {
				b[r.IntN(len(b))] = []byte{0, 1, 0x7f, 0x80, 0xff, byte(r.IntN(256))}[r.IntN(6)]
			}
			c = "byte"
		case 5: // insert bytes
			at := r.IntN(len(b) + 1)
			ins := make([]byte, 1+r.IntN(8))
			for i := range ins {
				ins[i] = byte(r.IntN(256)) & []byte{0, 0xff}[r.IntN(2)]
			}
			b = append(b[:at:at], append(ins, b[at:]...)...)
			c = "insert"
		case 6: // delete a range
			if len(b) > 1 {
				at := r.IntN(len(b))
				l := 1 + r.IntN(minI(8, len(b)-at))
				b = append(b[:at:at], b[at+l:]...)
			}
			c = "delete"
		case 7: // duplicate a range
			if len(b) > 1 {
				at := r.IntN(len(b))
				l := 1 + r.IntN(minI(64, len(b)-at))
				b = append(b[:at+l:at+l], b[at:]...)
			}
			c = "dup"
		}
		if class == "" {
			class = c
		} else if class != c {
			class = "multi"
		}
	}
	return "rand:" + class, b
}

func minI(a, b int) int {
	if a < b {
		return a
	}
	return b
}

var _ = binary.BigEndian
