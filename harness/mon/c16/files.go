package c16

import (
	"bytes"
	"context"
	"crypto/sha256"
	"encoding/binary"
	"encoding/json"
	"errors"
	"fmt"
	"os"
	"path/filepath"
	"runtime"
	"sort"
	"strings"
	"time"

	"github.com/codenotary/immudb/embedded/ahtree"
	"github.com/codenotary/immudb/embedded/appendable"
	"github.com/codenotary/immudb/embedded/appendable/multiapp"
	"github.com/codenotary/immudb/embedded/appendable/singleapp"
	"github.com/codenotary/immudb/embedded/store"
	"github.com/codenotary/immudb/embedded/tbtree"

	"verifharness/internal/fw"
	"verifharness/internal/sth"
)

// File-level cases: one file of a pristine directory written by a real store
// is mutated, then the directory is opened and read through one entry point.

type fop struct {
	Kind string // put | trunc | write | delete
	Off  int64
	Data []byte
}

type fileCase struct {
	EP     string // store.Open | singleapp.Open | multiapp.Open | ahtree.Open | tbtree.Open
	Corpus string
	File   string // relative to the corpus directory
	Class  string
	Ops    []fop
	RO     bool
}

type fileOut struct {
	Outcome string
	Sig     string
	Text    string
	Alloc   uint64
}

func storeOptsFor(corpus string) *store.Options {
	o := corpusOpts()
	switch corpus {
	case "store-embedded":
		o = o.WithEmbeddedValues(true).WithPreallocFiles(true).WithFileSize(1 << 13)
	case "store-multifile":
		o = o.WithFileSize(2048)
	case "store-flate":
		o = o.WithCompressionFormat(appendable.FlateCompression).WithCompresionLevel(appendable.BestSpeed)
	}
	return o
}

func applyOps(path string, ops []fop) error {
	for _, op := range ops {
		switch op.Kind {
		case "delete":
			if err := os.Remove(path); err != nil {
				return err
			}
		case "write":
			if err := os.WriteFile(path, op.Data, 0o644); err != nil {
				return err
			}
		case "trunc":
			if err := os.Truncate(path, op.Off); err != nil {
				return err
			}
		case "put":
			f, err := os.OpenFile(path, os.O_WRONLY, 0o644)
			if err != nil {
				return err
			}
			_, err = f.WriteAt(op.Data, op.Off)
			f.Close()
			if err != nil {
				return err
			}
		}
	}
	return nil
}

var knownKeys = [][]byte{[]byte("k1"), []byte("a"), []byte("bb"), []byte("ccc"), []byte("exp"), []byte("m1"), []byte("empty"), []byte("many03"), []byte("nokey")}

func readApp(app appendable.Appendable) error {
	md := appendable.NewMetadata(app.Metadata())
	for _, k := range appMetaKeys {
		md.GetInt(k)
		md.GetBool(k)
	}
	app.CompressionFormat()
	app.CompressionLevel()
	app.Offset()
	sz, err := app.Size()
	if err != nil {
		return err
	}
	buf := make([]byte, 64)
	var first error
	for _, off := range []int64{0, 1, 40, sz / 2, sz - 64, sz - 1, sz, sz + 1, 2048, 4096 + 7} {
		if _, err := app.ReadAt(buf, off); err != nil && first == nil {
			first = err
		}
	}
	r := appendable.NewReaderFrom(app, 0, 256)
	for i := 0; i < 64; i++ {
		if _, err := r.ReadUint64(); err != nil {
			break
		}
	}
	return first
}

func driveSingleapp(path string, ro bool) error {
	app, err := singleapp.Open(path, singleapp.DefaultOptions().WithReadOnly(ro).WithCreateIfNotExists(false))
	if err != nil {
		return err
	}
	defer closeUnlessPanicking(app)
	err = readApp(app)
	if !ro {
		if _, _, e := app.Append([]byte("appended")); e != nil && err == nil {
			err = e
		}
		app.Flush()
		app.ReadAt(make([]byte, 8), 0)
	}
	return err
}

func driveMultiapp(dir, ext string, fileSize int, ro bool) error {
	app, err := multiapp.Open(dir, multiapp.DefaultOptions().WithReadOnly(ro).WithFileExt(ext).WithFileSize(fileSize))
	if err != nil {
		return err
	}
	defer closeUnlessPanicking(app)
	err = readApp(app)
	if !ro {
		if _, _, e := app.Append([]byte("appended")); e != nil && err == nil {
			err = e
		}
		app.Flush()
		app.ReadAt(make([]byte, 8), 0)
	}
	return err
}

func driveAhtree(dir string, ro bool) error {
	t, err := ahtree.Open(dir, ahtree.DefaultOptions().WithReadOnly(ro).WithFileSize(1<<16))
	if err != nil {
		return err
	}
	defer closeUnlessPanicking(t)
	n := t.Size()
	var first error
	note := func(err error) {
		if err != nil && first == nil {
			first = err
		}
	}
	_, _, err = t.Root()
	note(err)
	if n > 64 {
		n = 64
	}
	for i := uint64(1); i <= n+1; i++ {
		_, err = t.RootAt(i)
		note(err)
		_, err = t.DataAt(i)
		note(err)
		_, err = t.InclusionProof(i, n)
		note(err)
		_, err = t.ConsistencyProof(i, n)
		note(err)
	}
	if !ro {
		_, _, err = t.Append([]byte("leaf"))
		note(err)
	}
	return first
}

func driveTbtree(dir string, ro bool) error {
	t, err := tbtree.Open(dir, tbtree.DefaultOptions().WithReadOnly(ro).WithFileSize(1<<16).WithLogger(sth.QuietLogger()).WithMaxKeySize(64).WithCacheSize(64))
	if err != nil {
		return err
	}
	defer closeUnlessPanicking(t)
	var first error
	note := func(err error) {
		if err != nil && first == nil && !errors.Is(err, tbtree.ErrKeyNotFound) && !errors.Is(err, tbtree.ErrNoMoreEntries) {
			first = err
		}
	}
	t.Ts()
	for _, k := range knownKeys {
		_, _, _, err := t.Get(k)
		note(err)
		_, _, err = t.History(k, 0, false, 10)
		note(err)
	}
	snap, err := t.Snapshot()
	note(err)
	if err == nil {
		rd, err := snap.NewReader(tbtree.ReaderSpec{})
		note(err)
		if err == nil {
			for i := 0; i < 200; i++ {
				if _, _, _, _, err := rd.Read(); err != nil {
					note(err)
					break
				}
			}
			rd.Close()
		}
		snap.Close()
	}
	if !ro {
		note(t.Insert([]byte("newkey"), []byte("newvalue")))
		_, _, err = t.Flush()
		note(err)
	}
	return first
}

func driveStore(dir string, opts *store.Options, ro bool) error {
	st, err := store.Open(dir, opts.WithReadOnly(ro))
	if err != nil {
		return err
	}
	defer closeUnlessPanicking(st)
	var first error
	note := func(err error) {
		if err != nil && first == nil && !errors.Is(err, store.ErrKeyNotFound) {
			first = err
		}
	}
	n := st.LastCommittedTxID()
	if n > 14 {
		n = 14
	}
	tx := store.NewTx(st.MaxTxEntries(), st.MaxKeyLen())
	var hdrs []*store.TxHeader
	for id := uint64(1); id <= n+1; id++ {
		err := st.ReadTx(id, false, tx)
		note(err)
		if err == nil {
			hdrs = append(hdrs, tx.Header())
			for _, e := range tx.Entries() {
				_, err := st.ReadValue(e)
				if !errors.Is(err, store.ErrExpiredEntry) {
					note(err)
				}
				_, _, err = st.ReadTxEntry(id, e.Key(), false)
				note(err)
			}
		}
		_, err = st.ExportTx(id, false, false, tx)
		note(err)
		_, err = st.ReadTxHeader(id, false, true)
		note(err)
		err = st.ReadTx(id, true, tx)
		note(err)
	}
	if len(hdrs) >= 2 {
		s, t := hdrs[0], hdrs[len(hdrs)-1]
		dp, err := st.DualProof(s, t)
		note(err)
		if err == nil {
			store.VerifyDualProof(dp, s.ID, t.ID, s.Alh(), t.Alh())
		}
		dp2, err := st.DualProofV2(s, t)
		note(err)
		if err == nil {
			store.VerifyDualProofV2(dp2, s.ID, t.ID, s.Alh(), t.Alh())
		}
		_, err = st.LinearProof(s.ID, t.ID)
		note(err)
	}
	// pacing only (never part of a verdict): give the indexer a moment to consume the log
	ctx, cancel := context.WithTimeout(context.Background(), 60*time.Millisecond)
	st.WaitForIndexingUpto(ctx, n)
	cancel()
	for _, k := range knownKeys {
		vr, err := st.Get(context.Background(), k)
		note(err)
		if err == nil {
			_, err = vr.Resolve()
			if !errors.Is(err, store.ErrExpiredEntry) {
				note(err)
			}
		}
		_, _, err = st.History(k, 0, false, 10)
		note(err)
	}
	if !ro {
		// AsyncCommit: do not wait for an indexer that may be unable to progress on corrupted data
		tx, err := st.NewWriteOnlyTx(context.Background())
		note(err)
		if err == nil {
			note(tx.Set([]byte("after-open"), nil, []byte("v")))
			_, err = tx.AsyncCommit(context.Background())
			note(err)
		}
	}
	return first
}

// closeUnlessPanicking closes x on a normal return only: after a panic the
// component may still hold its own mutex and Close would block on it.
func closeUnlessPanicking(x interface{ Close() error }) {
	if r := recover(); r != nil {
		panic(r)
	}
	x.Close()
}

func fileChild(setup []byte, scratch string) func(i int, data []byte) []byte {
	runtime.GOMAXPROCS(2)
	co := decodeCorpora(setup)
	n := 0
	return func(_ int, data []byte) []byte {
		var fc fileCase
		json.Unmarshal(data, &fc)
		n++
		if n%64 == 0 {
			runtime.GC() // failed opens leave descriptors to finalizers
		}
		work := filepath.Join(scratch, fmt.Sprintf("w%d", n))
		defer os.RemoveAll(work)
		src := co.Dirs[fc.Corpus]
		sub := ""
		switch fc.EP {
		case "ahtree.Open":
			sub = "aht"
		case "tbtree.Open":
			sub = "index"
		case "multiapp.Open", "singleapp.Open":
			sub = filepath.Dir(fc.File)
		}
		out := fileOut{}
		if err := sth.CopyDir(filepath.Join(src, sub), filepath.Join(work, sub)); err != nil {
			out.Outcome = "setup-error"
			b, _ := json.Marshal(out)
			return b
		}
		if err := applyOps(filepath.Join(work, fc.File), fc.Ops); err != nil {
			out.Outcome = "setup-error"
			b, _ := json.Marshal(out)
			return b
		}
		res := measure(func() error {
			switch fc.EP {
			case "singleapp.Open":
				return driveSingleapp(filepath.Join(work, fc.File), fc.RO)
			case "multiapp.Open":
				return driveMultiapp(filepath.Join(work, sub), strings.TrimPrefix(filepath.Ext(fc.File), "."), storeOptsFor(fc.Corpus).FileSize, fc.RO)
			case "ahtree.Open":
				return driveAhtree(filepath.Join(work, sub), fc.RO)
			case "tbtree.Open":
				return driveTbtree(filepath.Join(work, sub), fc.RO)
			default:
				return driveStore(work, storeOptsFor(fc.Corpus), fc.RO)
			}
		})
		out.Outcome = outcomeOf(res.Err)
		out.Alloc = res.Alloc
		switch {
		case res.Panicked:
			out.Sig, out.Text, out.Outcome = res.Sig, res.Text, "panic:"+res.Sig
		case res.Alloc > allocLimit:
			out.Sig, out.Outcome = fc.EP+"/alloc-over-256MiB", "alloc-over"
		}
		b, _ := json.Marshal(out)
		return b
	}
}

// ---- case generation (parent)

type fmut struct {
	class string
	ops   []fop
}

func be(size int, v uint64) []byte {
	b := make([]byte, size)
	putBE(b, size, v)
	return b
}

// txLogFields parses the records of an uncompressed tx log written by the corpus workload.
func txLogFields(b []byte, from int) []field {
	var fs []field
	i := from
	u16 := func(o int) int { return int(binary.BigEndian.Uint16(b[o:])) }
	for rec := 0; i+100 < len(b) && rec < 64; rec++ {
		if binary.BigEndian.Uint64(b[i:]) == 0 {
			break
		}
		p := func(name string, size int) {
			if rec < 3 || rec%4 == 0 {
				fs = append(fs, field{i, size, name})
			}
			i += size
		}
		p("tx.id", 8)
		p("tx.ts", 8)
		p("tx.blTxID", 8)
		i += 64
		ver := u16(i)
		p("tx.version", 2)
		nent := 0
		if ver == 0 {
			nent = u16(i)
			p("tx.nentries", 2)
		} else {
			mdLen := u16(i)
			p("tx.mdLen", 2)
			if mdLen > 0 {
				fs = append(fs, field{i, 1, "tx.md.attrcode"})
			}
			i += mdLen
			if i+4 > len(b) {
				return fs
			}
			nent = int(binary.BigEndian.Uint32(b[i:]))
			p("tx.nentries", 4)
		}
		for e := 0; e < nent; e++ {
			if i+2 > len(b) {
				return fs
			}
			mdLen := u16(i)
			p("e.mdLen", 2)
			if mdLen > 0 {
				fs = append(fs, field{i, 1, "e.md.attrcode"})
			}
			i += mdLen
			if i+2 > len(b) {
				return fs
			}
			kLen := u16(i)
			p("e.kLen", 2)
			i += kLen
			if i+44 > len(b) {
				return fs
			}
			p("e.vLen", 4)
			p("e.vOff", 8)
			i += 32
		}
		i += 32 // alh
	}
	return fs
}

// mutationsOf enumerates the mutations of one file.
func mutationsOf(rel string, b []byte, r interface{ IntN(int) int }, randomN int) []fmut {
	var out []fmut
	kind := filepath.Dir(rel)
	add := func(class string, ops ...fop) { out = append(out, fmut{kind + ":" + class, ops}) }
	hl := 0
	if len(b) >= 4 {
		n := int(binary.BigEndian.Uint32(b))
		if 4+n <= len(b) {
			if _, ok := parseAppMeta(b[4 : 4+n]); ok {
				hl = 4 + n
			}
		}
	}
	var fields []field
	if hl > 0 {
		fields = append(fields, field{0, 4, "hdr.mLen"})
		for _, f := range annotateAppMeta(b[4:hl], 4, "hdr.", 0) {
			fields = append(fields, f)
		}
	}
	switch {
	case strings.HasSuffix(rel, ".tx") && !strings.Contains(rel, "flate"):
		fields = append(fields, txLogFields(b, hl)...)
	case strings.HasPrefix(rel, "index/nodes") || strings.HasPrefix(rel, "index/history"):
		// indexed values: vLen(4) vOff(8) hVal(32) txmdLen(2) txmd kvmdLen(2) kvmd; located through the known value digests
		for vi, v := range corpusValues() {
			h := sha256.Sum256(v)
			for from := hl; ; {
				k := bytes.Index(b[from:], h[:])
				if k < 0 {
					break
				}
				pos := from + k
				from = pos + 32
				if vi%3 != 0 && pos%5 != 0 {
					continue // a sample of the occurrences is enough
				}
				if pos-12 >= hl && pos+36 <= len(b) {
					txmdLen := int(binary.BigEndian.Uint16(b[pos+32:]))
					fields = append(fields, field{pos - 12, 4, "idx.vLen"}, field{pos - 8, 8, "idx.vOff"}, field{pos + 32, 2, "idx.txmdLen"})
					if txmdLen <= 300 && pos+36+txmdLen <= len(b) {
						fields = append(fields, field{pos + 34 + txmdLen, 2, "idx.kvmdLen"})
					}
				}
			}
		}
	case strings.HasSuffix(rel, ".txi"):
		n := (len(b) - hl) / 12
		for _, e := range []int{0, 1, n / 2, n - 2, n - 1} {
			if e >= 0 && e < n {
				fields = append(fields, field{hl + e*12, 8, "clog.txOff"}, field{hl + e*12 + 8, 4, "clog.txSize"})
			}
		}
	}
	for _, f := range fields {
		if f.Off+f.Size > len(b) {
			continue
		}
		max := uint64(1)<<(8*uint(f.Size)) - 1
		if f.Size == 8 {
			max = ^uint64(0)
		}
		orig := getBE(b[f.Off:], f.Size)
		seen := map[uint64]bool{orig: true}
		isOpt := strings.Contains(f.Name, "int:")
		for _, sp := range specials {
			v := sp.val(orig, max)
			if seen[v] {
				continue
			}
			if strings.HasSuffix(f.Name, "int:FILE_SIZE") && (v == 1 || v == 2) {
				// chunks of one or two bytes: Open only becomes slow (thousands of files), decides nothing
				continue
			}
			if isOpt && v >= 1<<18 && v < 1<<30 {
				// an option of a few hundred thousand to a billion makes Open merely slow
				// (gigabytes of legitimate-looking buffers): decides nothing, costs a watchdog
				continue
			}
			seen[v] = true
			add("field:"+f.Name+"="+sp.label, fop{"put", int64(f.Off), be(f.Size, v)})
		}
	}
	for cut := 0; cut < hl; cut++ {
		add("hdr-trunc", fop{"trunc", int64(cut), nil})
	}
	for bit := 0; bit < hl*8; bit++ {
		region := regionOfFields(fields, bit/8)
		if strings.Contains(region, "int:") {
			// same reason: of the bits 18..29 of a persisted option keep none
			f := fieldAt(fields, bit/8)
			vbit := (f.Off+f.Size-1-bit/8)*8 + bit%8
			if vbit >= 18 && vbit < 30 {
				continue
			}
		}
		add("hdr-bitflip:"+region, fop{"put", int64(bit / 8), []byte{b[bit/8] ^ 1<<uint(bit%8)}})
	}
	for cut := len(b) - 1; cut >= hl && cut > len(b)-24; cut-- {
		add("tail-trunc", fop{"trunc", int64(cut), nil})
	}
	add("file-deleted", fop{"delete", 0, nil})
	add("file-empty", fop{"write", 0, []byte{}})
	add("file-3-bytes", fop{"write", 0, []byte{0, 0, 1}})
	add("append-zeros", fop{"put", int64(len(b)), make([]byte, 12)})
	add("append-ff", fop{"put", int64(len(b)), val(100, 0xff)})
	add("append-1", fop{"put", int64(len(b)), []byte{1}})
	if len(b) > hl+16 {
		add("dup-tail", fop{"put", int64(len(b)), clone(b[len(b)-16:])})
		add("zero-tail", fop{"put", int64(len(b) - 16), make([]byte, 16)})
	}
	// PRNG-chosen positions in the data region
	data := len(b) - hl
	for k := 0; k < randomN && data > 8; k++ {
		off := hl + r.IntN(data)
		switch r.IntN(6) {
		case 0:
			add("data-bitflip", fop{"put", int64(off), []byte{b[off] ^ 1<<uint(r.IntN(8))}})
		case 1:
			add("data-byte", fop{"put", int64(off), []byte{[]byte{0, 1, 0x7f, 0x80, 0xff}[r.IntN(5)]}})
		case 2:
			if off+4 <= len(b) {
				sp := specials[r.IntN(len(specials))]
				add("data-word32="+sp.label, fop{"put", int64(off), be(4, sp.val(getBE(b[off:], 4), 1<<32-1))})
			}
		case 3:
			if off+8 <= len(b) {
				sp := specials[r.IntN(len(specials))]
				add("data-word64="+sp.label, fop{"put", int64(off), be(8, sp.val(getBE(b[off:], 8), ^uint64(0)))})
			}
		case 4:
			add("data-trunc", fop{"trunc", int64(off), nil})
		case 5:
			l := 1 + r.IntN(minI(64, len(b)-off))
			add("data-zero-range", fop{"put", int64(off), make([]byte, l)})
		}
	}
	return out
}

// corpusValues lists the values committed by populate (their digests locate indexed values).
func corpusValues() [][]byte {
	vs := [][]byte{[]byte("v1"), []byte("v1b"), val(1, 'a'), val(100, 'b'), val(1000, 'c'), val(3000, 'd'), []byte("expiring"), []byte("x"), []byte("with-extra"), []byte("with-both"), []byte("v1c")}
	for i := 0; i < 16; i++ {
		vs = append(vs, val(i*7, byte('0'+i)))
	}
	for i := 0; i < 3; i++ {
		vs = append(vs, []byte(fmt.Sprintf("v1-%d", i)), val(10+i, 'B'))
	}
	return vs
}

func fieldAt(fs []field, off int) field {
	for _, f := range fs {
		if off >= f.Off && off < f.Off+f.Size {
			return f
		}
	}
	return field{Off: off, Size: 1}
}

func regionOfFields(fs []field, off int) string {
	for _, f := range fs {
		if off >= f.Off && off < f.Off+f.Size {
			return f.Name
		}
	}
	return "body"
}

func epsFor(rel string) []string {
	switch {
	case strings.HasPrefix(rel, "aht/"):
		return []string{"store.Open", "ahtree.Open"}
	case strings.HasPrefix(rel, "index/"):
		return []string{"store.Open", "tbtree.Open"}
	}
	return []string{"store.Open", "multiapp.Open", "singleapp.Open"}
}

func runFiles(c *fw.Ctx, co *Corpora, setup []byte, confirm *[]confirmReq) {
	var corpora []string
	for k := range co.Dirs {
		corpora = append(corpora, k)
	}
	sort.Strings(corpora)
	perFile := c.N(150, 1500) // cases per (corpus, file), spread round-robin over the mutation classes
	var cases [][]byte
	var meta []fileCase
	for _, corpus := range corpora {
		dir := co.Dirs[corpus]
		var files []string
		filepath.Walk(dir, func(p string, info os.FileInfo, err error) error {
			if err == nil && !info.IsDir() {
				rel, _ := filepath.Rel(dir, p)
				files = append(files, rel)
			}
			return nil
		})
		sort.Strings(files)
		if corpus == "store-multifile" && len(files) > 12 {
			// many chunk files: keep the first and last chunk of every appendable
			keep := map[string]bool{}
			byDir := map[string][]string{}
			for _, f := range files {
				byDir[filepath.Dir(f)] = append(byDir[filepath.Dir(f)], f)
			}
			for _, fs := range byDir {
				keep[fs[0]], keep[fs[len(fs)-1]] = true, true
			}
			var k []string
			for _, f := range files {
				if keep[f] {
					k = append(k, f)
				}
			}
			files = k
		}
		budget := perFile
		if corpus != "store-v1" {
			budget = perFile / 5
		}
		for _, rel := range files {
			b, err := os.ReadFile(filepath.Join(dir, rel))
			if err != nil {
				continue
			}
			r := fw.NewRand(c.Seed, "c16/file/"+corpus+"/"+rel)
			muts := mutationsOf(rel, b, r, c.N(60, 1500))
			// round-robin over classes
			byClass := map[string][]fmut{}
			var classes []string
			for _, m := range muts {
				if _, ok := byClass[m.class]; !ok {
					classes = append(classes, m.class)
				}
				byClass[m.class] = append(byClass[m.class], m)
			}
			// structure fields of the data region first, the rest in PRNG order
			sort.Strings(classes)
			r.Shuffle(len(classes), func(i, j int) { classes[i], classes[j] = classes[j], classes[i] })
			prio := func(cl string) int {
				if strings.Contains(cl, ":field:") && !strings.Contains(cl, ":field:hdr.") {
					return 0
				}
				return 1
			}
			sort.SliceStable(classes, func(i, j int) bool { return prio(classes[i]) < prio(classes[j]) })
			var sel []fmut
			for round := 0; len(sel) < budget; round++ {
				added := false
				for _, cl := range classes {
					if round < len(byClass[cl]) && len(sel) < budget {
						sel = append(sel, byClass[cl][round])
						added = true
					}
				}
				if !added {
					break
				}
			}
			for i, m := range sel {
				for _, ep := range epsFor(rel) {
					fc := fileCase{EP: ep, Corpus: corpus, File: rel, Class: m.class, Ops: m.ops, RO: i%3 == 2}
					d, _ := json.Marshal(fc)
					cases = append(cases, d)
					meta = append(meta, fc)
				}
			}
		}
		// tbtree timestamp file (absent in the corpus): short and oversized contents
		for n := 0; n <= 9; n++ {
			for _, ep := range []string{"store.Open", "tbtree.Open"} {
				fc := fileCase{EP: ep, Corpus: corpus, File: "index/TIMESTAMP", Class: fmt.Sprintf("index:tsfile-len%d", n), Ops: []fop{{"write", 0, val(n, 0xff)}}}
				d, _ := json.Marshal(fc)
				cases = append(cases, d)
				meta = append(meta, fc)
			}
		}
	}
	perm := fw.NewRand(c.Seed, "c16/file-order").Perm(len(cases))
	sc := make([][]byte, len(cases))
	sm := make([]fileCase, len(cases))
	for i, p := range perm {
		sc[i], sm[i] = cases[p], meta[p]
	}
	c.Set("file_level_cases", len(sc))
	// violations whose mutated region is a persisted option are gathered per signature
	// and emitted once, with every option name that produced them
	type optViol struct {
		names  map[string]int
		detail string
		files  map[string][]byte
	}
	optViols := map[string]*optViol{}
	report := func(fc fileCase, sig, detail string, files map[string][]byte) {
		opt := persistedOption(regionOfClass(fc.Class))
		if opt == "" {
			violate(c, sig, detail, files)
			return
		}
		if !strings.HasSuffix(sig, "/persisted-option") {
			sig += "/persisted-option"
		}
		c.Count("occurrences:"+sig, 1)
		v := optViols[sig]
		if v == nil {
			v = &optViol{names: map[string]int{}, detail: detail, files: files}
			optViols[sig] = v
		}
		v.names[opt]++
	}
	c.RunCases("c16file", setup, sc, fw.CasesOpts{Workers: 14, CaseTimout: 40 * time.Second, ASLimit: asLimit}, func(r fw.CaseResult) {
		fc := sm[r.Index]
		d, _ := json.Marshal(fc)
		files := map[string][]byte{"case.json": d}
		desc := fmt.Sprintf("%s on corpus %s with %s mutated (%s, ops %s)", fc.EP, fc.Corpus, fc.File, fc.Class, opsString(fc.Ops))
		region := regionOfClass(fc.Class)
		switch {
		case r.TimedOut && persistedOption(region) != "" && !parkedOnLock(r.Text):
			// a huge persisted option makes Open slow (it sizes buffers): decides nothing
			c.Inconclusive("c16file: watchdog fired while the main goroutine was not waiting for a mutex, persisted option mutated: " + desc + " at " + hangSig(fc.EP, r.Text))
			return
		case r.TimedOut:
			*confirm = append(*confirm, confirmReq{Child: "c16file", B: batch{EP: fc.EP}, Text: r.Text, Data: d})
			return
		case r.Crashed:
			sig := crashSig(fc.EP, region, r.Text)
			if sig == "" {
				c.Inconclusive("c16file: child ran out of address space on a small allocation: " + desc + ": " + firstLines(r.Text, 2))
				return
			}
			files["stderr.txt"] = []byte(r.Text)
			c.Eval(1)
			c.Count("inputs:"+fc.EP, 1)
			c.Count("inputs_total", 1)
			c.Count("file_cases", 1)
			c.Distinct(fc.EP + "|" + fc.Class + "|crash:" + sig)
			report(fc, sig, desc+": the child process died\n"+firstLines(r.Text, 24), files)
			return
		}
		var out fileOut
		if err := json.Unmarshal(r.Out, &out); err != nil {
			c.Inconclusive("c16file: bad result")
			return
		}
		if out.Outcome == "setup-error" {
			c.Count("file_setup_errors", 1)
			return
		}
		c.Eval(1)
		c.Count("inputs:"+fc.EP, 1)
		c.Count("inputs_total", 1)
		c.Count("file_cases", 1)
		c.Distinct(fc.EP + "|" + fc.Class + "|" + out.Outcome)
		if out.Outcome == "alloc-over" {
			out.Sig = allocSig(fc.EP, region)
		}
		if out.Sig != "" {
			files["panic.txt"] = []byte(out.Text)
			report(fc, out.Sig, fmt.Sprintf("%s, alloc %d bytes\n%s", desc, out.Alloc, firstLines(out.Text, 16)), files)
		}
	})
	var sigs []string
	for sig := range optViols {
		sigs = append(sigs, sig)
	}
	sort.Strings(sigs)
	for _, sig := range sigs {
		v := optViols[sig]
		var names []string
		for n, k := range v.names {
			names = append(names, fmt.Sprintf("%s (%d)", n, k))
		}
		sort.Strings(names)
		c.Violation(sig, "persisted option fields whose mutation gave this outcome: "+strings.Join(names, ", ")+"\nfirst case: "+v.detail, v.files)
	}
}

func opsString(ops []fop) string {
	var s []string
	for _, o := range ops {
		s = append(s, fmt.Sprintf("%s@%d:%s", o.Kind, o.Off, hexHead(o.Data, 16)))
	}
	return strings.Join(s, ",")
}
