package c16

import (
	"bytes"
	"encoding/binary"
	"errors"
	"fmt"
	"io"
	"math/rand/v2"
	"regexp"
	"sort"
	"strings"

	"github.com/codenotary/immudb/embedded/appendable"
	"github.com/codenotary/immudb/embedded/sql"
	"github.com/codenotary/immudb/embedded/store"
	"github.com/codenotary/immudb/pkg/api/schema"
	fm "github.com/codenotary/immudb/pkg/pgsql/server/fmessages"
	"github.com/codenotary/immudb/pkg/stream"
)

// driver runs one entry point on one input; the returned error is only used to
// classify the outcome. r is a PRNG derived from (seed, entry point, index).
type driver func(in []byte, r *rand.Rand) error

var drivers = map[string]driver{}

// entry points in a fixed order (case lists must be deterministic)
func pureEPs(co *Corpora) []string {
	var eps []string
	for ep := range drivers {
		eps = append(eps, ep)
	}
	sort.Strings(eps)
	return eps
}

var appMetaKeys = []string{"PREALLOC_SIZE", "COMPRESSION_FORMAT", "COMPRESSION_LEVEL", "WRAPPED_METADATA", "FILE_SIZE", "VERSION", "MAX_TX_ENTRIES", "MAX_KEY_LEN", "MAX_VALUE_LEN", "EMBEDDED_VALUES", "PREALLOC_FILES"}

func init() {
	drivers["store.TxHeader.ReadFrom"] = func(in []byte, _ *rand.Rand) error {
		h := &store.TxHeader{}
		if err := h.ReadFrom(in); err != nil {
			return err
		}
		h.Alh()
		if _, err := h.Bytes(); err != nil {
			return err
		}
		if h.Metadata != nil {
			h.Metadata.Extra()
			h.Metadata.GetTruncatedTxID()
		}
		return nil
	}
	drivers["store.TxMetadata.ReadFrom"] = func(in []byte, _ *rand.Rand) error {
		md := store.NewTxMetadata()
		if err := md.ReadFrom(in); err != nil {
			return err
		}
		md.Extra()
		md.GetTruncatedTxID()
		md.HasExtraOnly()
		md.Bytes()
		return nil
	}
	drivers["appendable.NewMetadata"] = func(in []byte, _ *rand.Rand) error {
		m := appendable.NewMetadata(in)
		found := 0
		for _, k := range appMetaKeys {
			if _, ok := m.Get(k); ok {
				found++
			}
			m.GetInt(k)
			m.GetBool(k)
		}
		if found == 0 {
			return errors.New("no known key")
		}
		return nil
	}
	drivers["sql.ParseSQLString"] = func(in []byte, _ *rand.Rand) error {
		_, err := sql.ParseSQLString(string(in))
		return err
	}
	drivers["sql.ParseSQL"] = func(in []byte, _ *rand.Rand) error {
		_, err := sql.ParseSQL(bytes.NewReader(in))
		return err
	}
	drivers["sql.ParseExpFromString"] = func(in []byte, _ *rand.Rand) error {
		_, err := sql.ParseExpFromString(string(in))
		return err
	}
	pg := func(name string, f func(b []byte) error) {
		drivers["fmessages."+name] = func(in []byte, _ *rand.Rand) error { return f(in) }
	}
	pg("ParseBindMsg", func(b []byte) error { _, err := fm.ParseBindMsg(b); return err })
	pg("ParseParseMsg", func(b []byte) error { _, err := fm.ParseParseMsg(b); return err })
	pg("ParseDescribeMsg", func(b []byte) error { _, err := fm.ParseDescribeMsg(b); return err })
	pg("ParseExecuteMsg", func(b []byte) error { _, err := fm.ParseExecuteMsg(b); return err })
	pg("ParseQueryMsg", func(b []byte) error { m, err := fm.ParseQueryMsg(b); m.GetStatements(); return err })
	pg("ParsePasswordMsg", func(b []byte) error { m, err := fm.ParsePasswordMsg(b); m.GetSecret(); return err })
	pg("ParseCopyFailMsg", func(b []byte) error { _, err := fm.ParseCopyFailMsg(b); return err })
	pg("ParseCopyDataMsg", func(b []byte) error { _, err := fm.ParseCopyDataMsg(b); return err })
	pg("ParseCopyDoneMsg", func(b []byte) error { _, err := fm.ParseCopyDoneMsg(b); return err })
	pg("ParseFlushMsg", func(b []byte) error { _, err := fm.ParseFlushMsg(b); return err })
	pg("ParseSyncMsg", func(b []byte) error { _, err := fm.ParseSyncMsg(b); return err })
	pg("ParseTerminateMsg", func(b []byte) error { _, err := fm.ParseTerminateMsg(b); return err })

	// pkg/stream: the input bytes are cut into chunks at PRNG-chosen places and
	// delivered through the receiver interfaces.
	drivers["stream.kvStreamReceiver"] = func(in []byte, r *rand.Rand) error {
		mr := stream.NewMsgReceiver(newChunkFeed(in, r))
		bs := []int{8, 16, 64, 4096}[r.IntN(4)]
		kvr := stream.NewKvStreamReceiver(mr, bs)
		for i := 0; i < 64; i++ {
			_, vr, err := kvr.Next()
			if err != nil {
				return err
			}
			if _, err := stream.ReadValue(vr, bs); err != nil {
				return err
			}
		}
		return nil
	}
	drivers["stream.zStreamReceiver"] = func(in []byte, r *rand.Rand) error {
		mr := stream.NewMsgReceiver(newChunkFeed(in, r))
		bs := []int{8, 16, 64, 4096}[r.IntN(4)]
		zr := stream.NewZStreamReceiver(mr, bs)
		for i := 0; i < 64; i++ {
			_, _, _, _, vr, err := zr.Next()
			if err != nil {
				return err
			}
			if _, err := stream.ReadValue(vr, bs); err != nil {
				return err
			}
		}
		return nil
	}
	drivers["stream.vEntryStreamReceiver"] = func(in []byte, r *rand.Rand) error {
		mr := stream.NewMsgReceiver(newChunkFeed(in, r))
		bs := []int{8, 16, 64, 4096}[r.IntN(4)]
		vr := stream.NewVEntryStreamReceiver(mr, bs)
		for i := 0; i < 64; i++ {
			_, _, _, rd, err := vr.Next()
			if err != nil {
				return err
			}
			if _, err := stream.ReadValue(rd, bs); err != nil {
				return err
			}
		}
		return nil
	}
	drivers["stream.execAllStreamReceiver"] = func(in []byte, r *rand.Rand) error {
		mr := stream.NewMsgReceiver(newChunkFeed(in, r))
		bs := []int{8, 16, 64, 4096}[r.IntN(4)]
		er := stream.NewExecAllStreamReceiver(mr, bs)
		for i := 0; i < 64; i++ {
			op, err := er.Next()
			if err != nil {
				return err
			}
			if kv, ok := op.(*stream.Op_KeyValue); ok {
				if _, err := stream.ReadValue(kv.KeyValue.Value.Content, bs); err != nil {
					return err
				}
			}
		}
		return nil
	}
	drivers["stream.msgReceiver.ReadFully"] = func(in []byte, r *rand.Rand) error {
		mr := stream.NewMsgReceiver(newChunkFeed(in, r))
		for i := 0; i < 64; i++ {
			if _, _, err := mr.ReadFully(); err != nil {
				return err
			}
		}
		return nil
	}
	registerProtoDrivers()
}

// chunkFeed implements stream.ImmuServiceReceiver_Stream over a byte string.
type chunkFeed struct {
	b []byte
	r *rand.Rand
}

func newChunkFeed(b []byte, r *rand.Rand) *chunkFeed { return &chunkFeed{b: b, r: r} }

func (c *chunkFeed) Recv() (*schema.Chunk, error) {
	if len(c.b) == 0 {
		return nil, io.EOF
	}
	n := len(c.b)
	switch c.r.IntN(4) {
	case 0:
		n = 1 + c.r.IntN(len(c.b))
	case 1:
		n = minI(len(c.b), 1+c.r.IntN(16))
	case 2:
		n = minI(len(c.b), 64)
	}
	ch := &schema.Chunk{Content: c.b[:n:n]}
	c.b = c.b[n:]
	return ch, nil
}

// chunkSink captures what the real senders put on the wire.
type chunkSink struct{ buf bytes.Buffer }

func (s *chunkSink) Send(c *schema.Chunk) error  { s.buf.Write(c.Content); return nil }
func (s *chunkSink) RecvMsg(m interface{}) error { return nil }

func vs(b []byte) *stream.ValueSize { return &stream.ValueSize{Content: bytes.NewReader(b), Size: len(b)} }

func annotateFrames(b []byte) (fs []field, secs [][2]int) {
	i := 0
	for i+8 <= len(b) {
		n := int(binary.BigEndian.Uint64(b[i:]))
		fs = append(fs, field{i, 8, "msgLen"})
		if i+8+n > len(b) {
			break
		}
		secs = append(secs, [2]int{i, i + 8 + n})
		i += 8 + n
	}
	return
}

func buildStreamCorpus(co *Corpora) {
	mk := func(ep, name string, send func(ms stream.MsgSender)) {
		sink := &chunkSink{}
		ms := stream.NewMsgSender(sink, make([]byte, 64))
		send(ms)
		b := clone(sink.buf.Bytes())
		fs, secs := annotateFrames(b)
		co.Pure[ep] = append(co.Pure[ep], seedInput{Name: name, B: b, Fields: fs, Sections: secs, Header: minI(len(b), 24)})
	}
	for _, ep := range []string{"stream.kvStreamReceiver", "stream.msgReceiver.ReadFully"} {
		mk(ep, "kv-small", func(ms stream.MsgSender) {
			s := stream.NewKvStreamSender(ms)
			s.Send(&stream.KeyValue{Key: vs([]byte("key1")), Value: vs([]byte("value1"))})
			s.Send(&stream.KeyValue{Key: vs([]byte("key2")), Value: vs(val(200, 'v'))})
		})
		mk(ep, "kv-one", func(ms stream.MsgSender) {
			s := stream.NewKvStreamSender(ms)
			s.Send(&stream.KeyValue{Key: vs(val(70, 'k')), Value: vs(val(57, 'v'))})
		})
	}
	mk("stream.zStreamReceiver", "z", func(ms stream.MsgSender) {
		s := stream.NewZStreamSender(ms)
		sc, _ := stream.NumberToBytes(float64(1.5))
		at, _ := stream.NumberToBytes(uint64(3))
		s.Send(&stream.ZEntry{Set: vs([]byte("set")), Key: vs([]byte("key")), Score: vs(sc), AtTx: vs(at), Value: vs(val(100, 'z'))})
		s.Send(&stream.ZEntry{Set: vs([]byte("set")), Key: vs([]byte("key2")), Score: vs(sc), AtTx: vs(at), Value: vs([]byte("v"))})
	})
	mk("stream.vEntryStreamReceiver", "ventry", func(ms stream.MsgSender) {
		s := stream.NewVEntryStreamSender(ms)
		s.Send(&stream.VerifiableEntry{EntryWithoutValueProto: vs(val(20, 1)), VerifiableTxProto: vs(val(90, 2)), InclusionProofProto: vs(val(40, 3)), Value: vs(val(10, 4))})
	})
	mk("stream.execAllStreamReceiver", "execall", func(ms stream.MsgSender) {
		// the exec-all sender takes a request object; frame the operations as it does
		frame := func(b []byte) { ms.Send(bytes.NewReader(b), len(b), nil) }
		frame([]byte{stream.TOp_Kv})
		frame([]byte("key"))
		frame([]byte("value"))
		frame([]byte{stream.TOp_ZAdd})
		frame(mustMarshal(&schema.ZAddRequest{Set: []byte("s"), Score: 1, Key: []byte("key")}))
		frame([]byte{stream.TOp_Kv})
		frame([]byte("key2"))
		frame(val(100, 'x'))
	})
}

func cstr(s string) []byte { return append([]byte(s), 0) }
func be16(v int) []byte    { var b [2]byte; binary.BigEndian.PutUint16(b[:], uint16(v)); return b[:] }
func be32(v int) []byte    { var b [4]byte; binary.BigEndian.PutUint32(b[:], uint32(v)); return b[:] }

// pgBuilder assembles a front-end message payload and records its fields.
type pgBuilder struct {
	b  []byte
	fs []field
}

func (p *pgBuilder) str(s string)  { p.b = append(p.b, cstr(s)...) }
func (p *pgBuilder) raw(b []byte)  { p.b = append(p.b, b...) }
func (p *pgBuilder) i16(n string, v int) {
	p.fs = append(p.fs, field{len(p.b), 2, n})
	p.b = append(p.b, be16(v)...)
}
func (p *pgBuilder) i32(n string, v int) {
	p.fs = append(p.fs, field{len(p.b), 4, n})
	p.b = append(p.b, be32(v)...)
}
func (p *pgBuilder) seed(name string) seedInput {
	return seedInput{Name: name, B: p.b, Fields: p.fs, Header: minI(len(p.b), 32)}
}

func buildPgCorpus(co *Corpora) {
	add := func(ep string, s seedInput) { co.Pure["fmessages."+ep] = append(co.Pure["fmessages."+ep], s) }
	{
		p := &pgBuilder{}
		p.str("portal")
		p.str("stmt")
		p.i16("nFormatCodes", 2)
		p.i16("formatCode", 0)
		p.i16("formatCode", 1)
		p.i16("nParams", 2)
		p.i32("paramLen", 5)
		p.raw([]byte("hello"))
		p.i32("paramLen", 3)
		p.raw([]byte{1, 2, 3})
		p.i16("nResultCodes", 1)
		p.i16("resultCode", 0)
		add("ParseBindMsg", p.seed("bind-2params"))
		p = &pgBuilder{}
		p.str("")
		p.str("")
		p.i16("nFormatCodes", 1)
		p.i16("formatCode", 1)
		p.i16("nParams", 3)
		p.i32("paramLen", -1)
		p.i32("paramLen", 0)
		p.i32("paramLen", 8)
		p.raw(val(8, 7))
		p.i16("nResultCodes", 0)
		add("ParseBindMsg", p.seed("bind-null"))
		p = &pgBuilder{}
		p.str("")
		p.str("")
		p.i16("nFormatCodes", 0)
		p.i16("nParams", 0)
		p.i16("nResultCodes", 0)
		add("ParseBindMsg", p.seed("bind-empty"))
	}
	{
		p := &pgBuilder{}
		p.str("stmt1")
		p.str("SELECT * FROM t WHERE id = $1 AND name = $2")
		p.i16("nParamTypes", 2)
		p.i32("oid", 23)
		p.i32("oid", 25)
		add("ParseParseMsg", p.seed("parse"))
		p = &pgBuilder{}
		p.str("")
		p.str("SELECT 1")
		p.i16("nParamTypes", 0)
		add("ParseParseMsg", p.seed("parse-noparams"))
	}
	{
		p := &pgBuilder{}
		p.raw([]byte{'S'})
		p.str("stmt1")
		add("ParseDescribeMsg", p.seed("describe-S"))
		p = &pgBuilder{}
		p.raw([]byte{'P'})
		p.str("")
		add("ParseDescribeMsg", p.seed("describe-P"))
	}
	{
		p := &pgBuilder{}
		p.str("portal")
		p.i32("maxRows", 100)
		add("ParseExecuteMsg", p.seed("execute"))
	}
	for _, ep := range []string{"ParseQueryMsg", "ParsePasswordMsg", "ParseCopyFailMsg"} {
		p := &pgBuilder{}
		p.str("SELECT 1; secret")
		add(ep, p.seed("cstring"))
		p = &pgBuilder{}
		p.str("")
		add(ep, p.seed("empty-cstring"))
	}
	add("ParseCopyDataMsg", seedInput{Name: "copydata", B: []byte("1\tfoo\n2\tbar\n"), Header: 4})
	for _, ep := range []string{"ParseCopyDoneMsg", "ParseFlushMsg", "ParseSyncMsg", "ParseTerminateMsg"} {
		add(ep, seedInput{Name: "empty", B: []byte{}})
	}
}

var sqlSeeds = []string{
	"CREATE DATABASE db1",
	"USE DATABASE db1",
	"CREATE TABLE IF NOT EXISTS t1 (id INTEGER AUTO_INCREMENT, name VARCHAR[50] NOT NULL, ts TIMESTAMP, ok BOOLEAN, data BLOB[100], f FLOAT, u UUID, j JSON, PRIMARY KEY id)",
	"CREATE TABLE t2 (a INTEGER, b VARCHAR, PRIMARY KEY (a, b))",
	"CREATE UNIQUE INDEX ON t1(name, ts)",
	"CREATE INDEX IF NOT EXISTS ON t1(ok)",
	"ALTER TABLE t1 ADD COLUMN c2 VARCHAR[10]",
	"ALTER TABLE t1 RENAME COLUMN c2 TO c3",
	"ALTER TABLE t1 DROP COLUMN c3",
	"DROP TABLE t2",
	"DROP INDEX ON t1(name, ts)",
	"INSERT INTO t1 (id, name, ts, ok, data, f) VALUES (1, 'a''b', NOW(), true, x'00ff', 1.5e3), (2, @p1, CAST('2020-01-01' AS TIMESTAMP), NULL, $1, -0.5)",
	"UPSERT INTO t1 (id, name) VALUES (1, 'x') ",
	"INSERT INTO t1 (id, name) VALUES (1, 'x') ON CONFLICT DO NOTHING",
	"INSERT INTO t2 (a, b) SELECT id, name FROM t1 WHERE id > 3",
	"UPDATE t1 SET name = 'z', f = f * 2 + 1 WHERE id = 1 AND NOT ok OR name LIKE 'a.*'",
	"DELETE FROM t1 WHERE id IN (1, 2, 3) AND ts < NOW()",
	"SELECT * FROM t1",
	"SELECT DISTINCT t.id AS i, COUNT(*), MAX(f), UPPER(name) FROM t1 AS t INNER JOIN t2 ON t.id = t2.a LEFT JOIN t3 ON t3.x = t.id WHERE t.id >= 1 AND (t.name <> 'b' OR t.ok IS NOT NULL) GROUP BY t.id HAVING COUNT(*) > 1 ORDER BY t.id DESC, name ASC LIMIT 10 OFFSET 5",
	"SELECT id FROM t1 BEFORE TX 10 SINCE TX 2 USE INDEX ON (name)",
	"SELECT id FROM (SELECT * FROM t1 WHERE id < 10) AS s WHERE EXISTS (SELECT 1 FROM t2) UNION ALL SELECT a FROM t2",
	"SELECT CASE WHEN id > 1 THEN 'a' WHEN id < 0 THEN 'b' ELSE 'c' END, id::VARCHAR, -id, id % 2, j->'a'->'b' FROM t1 WHERE name NOT LIKE '^x' AND id BETWEEN 1 AND 5",
	"SELECT * FROM t1 WHERE ts > CAST(@ts AS TIMESTAMP) AND id NOT IN (SELECT a FROM t2)",
	"BEGIN TRANSACTION; INSERT INTO t1(id) VALUES (1); SAVEPOINT s1; ROLLBACK TO SAVEPOINT s1; RELEASE SAVEPOINT s1; COMMIT;",
	"BEGIN; ROLLBACK",
	"CREATE USER u1 WITH PASSWORD 'pw' READWRITE",
	"ALTER USER u1 WITH PASSWORD 'pw2' ADMIN",
	"DROP USER u1",
	"GRANT SELECT, INSERT ON DATABASE db1 TO USER u1",
	"REVOKE ALL PRIVILEGES ON DATABASE db1 TO USER u1",
	"SHOW TABLES",
	"SHOW DATABASES; SHOW USERS; SHOW GRANTS FOR u1",
	"SELECT * FROM TABLES()",
	"SELECT * FROM COLUMNS('t1')",
	"SELECT * FROM HISTORY OF t1",
	"SELECT * FROM DIFF OF t1",
	"CREATE VIEW v AS SELECT id FROM t1",
	"CREATE SEQUENCE s1",
	"TRUNCATE TABLE t1",
	"WITH c AS (SELECT 1) SELECT * FROM c",
	"SELECT \"quoted\" FROM \"T\" WHERE a = 'x' -- comment\n/* block */",
	"EXPLAIN SELECT 1",
}

var sqlTokens = []string{"SELECT", "FROM", "WHERE", "INSERT", "INTO", "VALUES", "(", ")", ",", ";", "*", "=", "<", ">", "<=", ">=", "<>", "!=", "+", "-", "/", "%", ".", "::", "->", "'", "''", "'str'", "\"", "`", "x'0f'", "x'", "@p", "$1", "$", "?", "1", "1.5", "1e999", "99999999999999999999", "0x", "NULL", "NOT", "AND", "OR", "IN", "LIKE", "IS", "AS", "t", "id", "CAST", "CASE", "WHEN", "THEN", "ELSE", "END", "EXISTS", "BETWEEN", "JOIN", "ON", "GROUP", "BY", "ORDER", "HAVING", "LIMIT", "OFFSET", "UNION", "ALL", "BEGIN", "COMMIT", "ROLLBACK", "CREATE", "TABLE", "INDEX", "PRIMARY", "KEY", "VARCHAR", "[", "]", "{", "}", "INTEGER", "NOW()", "COUNT(*)", "--", "/*", "*/", "\n", "\t", "\x00", "\xff", "é", "TX", "BEFORE", "SINCE", "UNTIL", "AFTER", "HISTORY", "OF", "DIFF", "TRUE", "FALSE", "JSON", ":", "~", "&", "|", "^", "#", "\\"}

var sqlExpSeeds = []string{"a + 1 > 2 AND NOT (b LIKE 'x' OR c IS NULL)", "CASE WHEN a THEN 1 ELSE 2 END", "CAST(a AS INTEGER) * -3 % 2", "t.col IN (1, 2, @p)", "EXISTS (SELECT 1 FROM t)", "j->'k' = 'v' AND NOW() > ts", "x'00ff'", "f(a, b, 'c')", "a BETWEEN 1 AND 2"}

func buildSQLCorpus(co *Corpora) {
	for _, s := range sqlExpSeeds {
		if _, err := sql.ParseExpFromString(s); err == nil {
			co.Pure["sql.ParseExpFromString"] = append(co.Pure["sql.ParseExpFromString"], seedInput{Name: "exp", B: []byte(s)})
		}
	}
	for _, s := range sqlSeeds {
		if _, err := sql.ParseSQLString(s); err != nil {
			continue // not part of this version's grammar
		}
		co.SQL = append(co.SQL, s)
		// sections: tokens separated by blanks (duplicated / swapped / removed)
		var secs [][2]int
		start := 0
		for i := 0; i <= len(s); i++ {
			if i == len(s) || s[i] == ' ' {
				if i > start {
					secs = append(secs, [2]int{start, minI(i+1, len(s))})
				}
				start = i + 1
			}
		}
		for _, ep := range []string{"sql.ParseSQLString", "sql.ParseSQL"} {
			co.Pure[ep] = append(co.Pure[ep], seedInput{Name: "stmt", B: []byte(s), Sections: secs})
		}
	}
}

// customRandom lets an entry point add its own random generator (token soup).
func customRandom(ep string, co *Corpora, r *rand.Rand) (string, []byte, bool) {
	if !strings.HasPrefix(ep, "sql.") || r.IntN(2) == 0 {
		return "", nil, false
	}
	var sb strings.Builder
	switch r.IntN(3) {
	case 0: // token soup
		n := 1 + r.IntN(30)
		for i := 0; i < n; i++ {
			sb.WriteString(sqlTokens[r.IntN(len(sqlTokens))])
			if r.IntN(5) != 0 {
				sb.WriteByte(' ')
			}
		}
		return "token-soup", []byte(sb.String()), true
	case 1: // valid statement with tokens replaced / inserted
		if len(co.SQL) == 0 {
			return "", nil, false
		}
		toks := strings.Split(co.SQL[r.IntN(len(co.SQL))], " ")
		for k := 0; k < 1+r.IntN(3); k++ {
			i := r.IntN(len(toks))
			switch r.IntN(3) {
			case 0:
				toks[i] = sqlTokens[r.IntN(len(sqlTokens))]
			case 1:
				toks = append(toks[:i:i], append([]string{sqlTokens[r.IntN(len(sqlTokens))]}, toks[i:]...)...)
			case 2:
				toks = append(toks[:i:i], toks[i+1:]...)
				if len(toks) == 0 {
					toks = []string{""}
				}
			}
		}
		return "token-mutation", []byte(strings.Join(toks, " ")), true
	default: // deep nesting
		d := 1 + r.IntN(400)
		open := []string{"(", "(SELECT ", "NOT ", "-", "CASE WHEN "}[r.IntN(5)]
		sb.WriteString("SELECT ")
		for i := 0; i < d; i++ {
			sb.WriteString(open)
		}
		sb.WriteString("1")
		if open == "(" && r.IntN(2) == 0 {
			for i := 0; i < d; i++ {
				sb.WriteString(")")
			}
		}
		return "deep-nesting", []byte(sb.String()), true
	}
}

var digitsRe = regexp.MustCompile(`[0-9]+`)
var quotedRe = regexp.MustCompile(`'[^']*'|"[^"]*"`)

// outcomeOf reduces an error to a stable class (error kind).
func outcomeOf(err error) string {
	if err == nil {
		return "ok"
	}
	s := err.Error()
	if i := strings.Index(s, "syntax error"); i >= 0 {
		return "err:syntax error"
	}
	s = quotedRe.ReplaceAllString(s, "Q")
	s = digitsRe.ReplaceAllString(s, "N")
	s = strings.Map(func(r rune) rune {
		if r < 32 || r > 126 {
			return -1
		}
		return r
	}, s)
	if len(s) > 48 {
		s = s[:48]
	}
	return "err:" + s
}

var _ = fmt.Sprintf
