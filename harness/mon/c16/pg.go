package c16

import "verifharness/internal/fw"

func pgChild(setup []byte, scratch string) func(i int, data []byte) []byte {
	return func(i int, data []byte) []byte { return nil }
}
func runPg(c *fw.Ctx, co *Corpora, setup []byte, confirm *[]confirmReq) {}
