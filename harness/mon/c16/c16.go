// Package c16: monitor for property C16 (see DESIGN.md section 2) —
// decoders/parsers are total: malformed input gives an error, never a crash.
package c16

import (
	"bytes"
	"regexp"
	"encoding/binary"
	"encoding/gob"
	"encoding/json"
	"fmt"
	"os"
	"path/filepath"
	"runtime"
	"runtime/debug"
	"runtime/metrics"
	"sort"
	"strings"
	"time"

	"verifharness/internal/fw"
)

func init() {
	fw.RegisterMonitor("C16", "exploration", Run)
	fw.RegisterChild("c16pure", pureChild)
	fw.RegisterChild("c16repl", replChild)
	fw.RegisterChild("c16file", fileChild)
}

const maxInput = 32 << 20  // MaxRecvMsgSize / pgsql MaxMsgSize: the largest input a peer can deliver
const allocLimit = 256 << 20 // eight times the largest message bound the system declares (32 MiB)
var asLimit = int64(2560 << 20) // address-space limit of a child: an allocation of about 1 GiB or more ends as a countable out-of-memory exit

// ---- measurement and signatures (child side)

type callResult struct {
	Panicked bool
	Sig      string
	Text     string
	Alloc    uint64
	Err      error
}

var allocSample = []metrics.Sample{{Name: "/gc/heap/allocs:bytes"}}

// totalAlloc is runtime.MemStats.TotalAlloc (cumulative bytes allocated for heap
// objects) read through runtime/metrics, i.e. without stopping the world twice
// per input; allocations of 32 KiB and more are accounted at once, smaller ones
// when their span is handed out, which is far below the 256 MiB being decided.
func totalAlloc() uint64 {
	metrics.Read(allocSample)
	return allocSample[0].Value.Uint64()
}

// measure runs f under fw.Guard and returns the TotalAlloc delta of the call.
func measure(f func() error) (res callResult) {
	a0 := totalAlloc()
	var text string
	res.Panicked, _, text = fw.Guard(func() { res.Err = f() })
	res.Alloc = totalAlloc() - a0
	if res.Panicked {
		res.Text = text
		res.Sig = sigOf(text)
	}
	if res.Alloc > allocLimit {
		debug.FreeOSMemory()
	}
	return
}

// frames returns the function names of a Go traceback, innermost first.
func frames(text string) []string {
	var out []string
	for _, line := range strings.Split(text, "\n") {
		if line == "" || line[0] == '\t' || line[0] == ' ' || strings.HasPrefix(line, "goroutine ") || strings.HasPrefix(line, "created by ") || strings.HasPrefix(line, "panic: ") || strings.HasPrefix(line, "fatal error") || strings.HasPrefix(line, "[signal") {
			continue
		}
		i := strings.LastIndex(line, "(")
		if i <= 0 {
			continue
		}
		out = append(out, line[:i])
	}
	return out
}

// sigOf reduces a crash text to "<first immudb frame>[<-stdlib helper]/<kind>".
// When the faulting operation is a standard-library helper called from the
// immudb frame (binary.BigEndian.Uint32 ...) its name is kept, so that
// different sites of one function stay distinct.
func sigOf(text string) string {
	base := fw.PanicSignature(text)
	kind := base[strings.LastIndex(base, "/")+1:]
	prev, fn := "", ""
	for _, name := range frames(text) {
		if strings.HasPrefix(name, "github.com/codenotary/immudb/") && !strings.Contains(name, "/verifhook") {
			fn = strings.TrimPrefix(name, "github.com/codenotary/immudb/")
			break
		}
		if strings.HasPrefix(name, "runtime.") || strings.HasPrefix(name, "runtime/") || name == "panic" || strings.HasPrefix(name, "verifharness") {
			prev = ""
			continue
		}
		prev = name
	}
	if fn == "" {
		return base
	}
	if prev != "" {
		return fn + "<-" + prev + "/" + kind
	}
	return fn + "/" + kind
}

var oomRe = regexp.MustCompile(`cannot allocate ([0-9]+)-byte block`)

// crashSig maps the stderr of a dead child to a signature ("" = the death says
// nothing about immudb: the child ran into its own address-space limit on a
// small allocation). region, when not empty, names the mutated region of a
// file-level case: several unbounded allocations hide behind one Open.
func crashSig(ep, region, text string) string {
	s := fw.PanicSignature(text)
	if strings.HasSuffix(s, "/out-of-memory") {
		m := oomRe.FindStringSubmatch(text)
		if m == nil {
			return ""
		}
		var n uint64
		fmt.Sscan(m[1], &n)
		if n <= allocLimit {
			return ""
		}
		return allocSig(ep, region)
	}
	return sigOf(text)
}

// persistedOption returns the name of the option when the mutated region is the
// value of an option persisted in an appendable metadata header
// ("int:MAX_KEY_LEN", "bool:EMBEDDED_VALUES"), "" otherwise.
func persistedOption(region string) string {
	for _, p := range []string{"int:", "bool:"} {
		if strings.HasPrefix(region, p) {
			return strings.TrimPrefix(region, p)
		}
	}
	return ""
}

func allocSig(ep, region string) string {
	if persistedOption(region) != "" {
		return ep + "/alloc-over-256MiB/persisted-option"
	}
	if region != "" {
		return ep + "/alloc-over-256MiB/" + region
	}
	return ep + "/alloc-over-256MiB"
}

// regionOfClass reduces a file-level mutation class to the mutated region:
// no file kind, no value label, no nesting of wrapped metadata
// ("commit:field:hdr.w.w.int:MAX_KEY_LEN=1GiB" -> "int:MAX_KEY_LEN").
func regionOfClass(class string) string {
	if i := strings.LastIndex(class, "="); i >= 0 {
		class = class[:i]
	}
	if i := strings.Index(class, ":"); i >= 0 {
		class = class[i+1:]
	}
	class = strings.TrimPrefix(class, "field:")
	class = strings.TrimPrefix(class, "hdr-bitflip:")
	class = strings.TrimPrefix(class, "hdr.")
	for strings.HasPrefix(class, "w.") {
		class = class[2:]
	}
	return class
}

// ---- batches, markers, skip list (shared by the pure and the ReplicateTx groups)

// batch is a contiguous range of inputs of one entry point (J: replica state for ReplicateTx).
type batch struct {
	EP      string
	J       int
	From, N int
}

func (b batch) markerName() string {
	ep := strings.Map(func(r rune) rune {
		if r >= 'a' && r <= 'z' || r >= 'A' && r <= 'Z' || r >= '0' && r <= '9' {
			return r
		}
		return '_'
	}, b.EP)
	return fmt.Sprintf("%s-%d-%d", ep, b.J, b.From)
}

// marker: the child records the index of the input in progress, so that the
// parent attributes a fatal error or a watchdog hit to exactly one input.
type marker struct {
	f    *os.File
	path string
}

func openMarker(dir string, b batch) *marker {
	p := filepath.Join(dir, b.markerName())
	f, err := os.OpenFile(p, os.O_CREATE|os.O_WRONLY|os.O_TRUNC, 0o644)
	if err != nil {
		fmt.Fprintln(os.Stderr, "c16: marker:", err)
		os.Exit(3)
	}
	return &marker{f: f, path: p}
}

func (m *marker) set(idx int) {
	var b [8]byte
	binary.BigEndian.PutUint64(b[:], uint64(idx))
	m.f.WriteAt(b[:], 0)
}

func (m *marker) done() {
	m.f.Close()
	os.Remove(m.path)
}

func readMarker(dir string, b batch) (int, bool) {
	p := filepath.Join(dir, b.markerName())
	d, err := os.ReadFile(p)
	os.Remove(p)
	if err != nil || len(d) < 8 {
		return 0, false
	}
	return int(binary.BigEndian.Uint64(d)), true
}

// skip list: (entry point|mutation class) pairs whose inputs already killed
// the child twice; the remaining inputs of that pair are counted as skipped
// (the same defect seen again adds nothing, a process restart costs much).
func loadSkip(dir string) map[string]bool {
	m := map[string]bool{}
	d, _ := os.ReadFile(filepath.Join(dir, "skip"))
	for _, l := range strings.Split(string(d), "\n") {
		if l != "" {
			m[l] = true
		}
	}
	return m
}

func addSkip(dir, key string) {
	f, err := os.OpenFile(filepath.Join(dir, "skip"), os.O_CREATE|os.O_WRONLY|os.O_APPEND, 0o644)
	if err == nil {
		f.WriteString(key + "\n")
		f.Close()
	}
}

type violOut struct {
	Sig, Class, Text string
	Input            []byte
	Idx              int
	Alloc            uint64
}

type batchOut struct {
	Counts   map[string]int
	Viol     []violOut
	MaxAlloc uint64
	Skipped  int
}

type confirmReq struct {
	Child string
	B     batch
	Text  string
	Data  []byte // case blob when it is not a batch (file-level cases)
}

// runBatches executes batches in children; a child death or watchdog hit is
// attributed to the input named by the marker, and the rest of that batch is
// run in a following round.
func runBatches(c *fw.Ctx, child string, co *Corpora, setup []byte, batches []batch,
	inputOf func(b batch, idx int) (string, []byte), absorb func(b batch, out *batchOut), confirm *[]confirmReq) {
	crashes := map[string]int{}
	pending := batches
	for round := 0; len(pending) > 0 && round < 10; round++ {
		cases := make([][]byte, len(pending))
		for i, b := range pending {
			cases[i], _ = json.Marshal(b)
		}
		var next []batch
		cur := pending
		c.RunCases(child, setup, cases, fw.CasesOpts{Workers: 14, CaseTimout: 180 * time.Second, ASLimit: asLimit}, func(r fw.CaseResult) {
			b := cur[r.Index]
			if !r.Crashed && !r.TimedOut {
				var out batchOut
				if err := json.Unmarshal(r.Out, &out); err != nil {
					c.Inconclusive(child + ": bad result: " + err.Error())
					return
				}
				absorb(b, &out)
				return
			}
			idx, ok := readMarker(co.MarkerDir, b)
			if !ok || idx < b.From || idx >= b.From+b.N {
				debugf("%s: child died outside an input of batch %+v (marker %d %v): %s", child, b, idx, ok, firstLines(r.Text, 8))
				c.Inconclusive(fmt.Sprintf("%s: child died outside an input of batch %+v: %s", child, b, firstLines(r.Text, 8)))
				return
			}
			class, in := inputOf(b, idx)
			debugf("%s %s input #%d (%s) crashed=%v timedout=%v: %s", child, b.EP, idx, class, r.Crashed, r.TimedOut, firstLines(r.Text, 3))
			if r.Crashed {
				sig := crashSig(b.EP, "", r.Text)
				if sig == "" {
					c.Inconclusive(fmt.Sprintf("%s: child ran out of address space on a small allocation during %s input #%d: %s", child, b.EP, idx, firstLines(r.Text, 2)))
					if rest := b.From + b.N - (idx + 1); rest > 0 {
						next = append(next, batch{EP: b.EP, J: b.J, From: idx + 1, N: rest})
					}
					return
				}
				c.Eval(1)
				c.Distinct(b.EP + "|" + class + "|crash:" + sig)
				c.Count("inputs:"+b.EP, 1)
				c.Count("inputs_total", 1)
				c.Count("child_deaths", 1)
				violate(c, sig, fmt.Sprintf("entry point %s, input #%d (class %s, %d bytes: %s): the child process died in this call\n%s", b.EP, idx, class, len(in), hexHead(in, 96), firstLines(r.Text, 24)),
					map[string][]byte{"input.bin": in, "stderr.txt": []byte(r.Text), "entrypoint.txt": []byte(b.EP)})
				k := b.EP + "|" + class
				crashes[k]++
				if crashes[k] == 2 {
					addSkip(co.MarkerDir, k)
				}
			} else {
				// a watchdog hit alone decides nothing: re-run this input alone at the end
				*confirm = append(*confirm, confirmReq{Child: child, B: batch{EP: b.EP, J: b.J, From: idx, N: 1}, Text: r.Text})
			}
			if rest := b.From + b.N - (idx + 1); rest > 0 {
				next = append(next, batch{EP: b.EP, J: b.J, From: idx + 1, N: rest})
			}
		})
		pending = next
	}
	for _, b := range pending {
		c.Count("inputs_not_run_after_repeated_child_deaths", int64(b.N))
	}
}

func absorbOut(c *fw.Ctx, ep string, out *batchOut) {
	n := 0
	for k, v := range out.Counts {
		n += v
		c.Distinct(ep + "|" + k)
	}
	c.Eval(n)
	c.Count("inputs:"+ep, int64(n))
	c.Count("inputs_total", int64(n))
	if out.Skipped > 0 {
		c.Count("inputs_skipped_class_already_killed_child_twice", int64(out.Skipped))
	}
	for _, v := range out.Viol {
		detail := fmt.Sprintf("entry point %s, input #%d (class %s, %d bytes: %s), alloc %d bytes\n%s", ep, v.Idx, v.Class, len(v.Input), hexHead(v.Input, 96), v.Alloc, firstLines(v.Text, 14))
		violate(c, v.Sig, detail, map[string][]byte{"input.bin": v.Input, "panic.txt": []byte(v.Text), "entrypoint.txt": []byte(ep)})
	}
}

// ---- pure entry points

type pureState struct {
	co  *Corpora
	sys map[string][]mutation
}

func newPureState(co *Corpora) *pureState {
	ps := &pureState{co: co, sys: map[string][]mutation{}}
	for _, ep := range pureEPs(co) {
		corpus := co.Pure[ep]
		for i := range corpus {
			ps.sys[ep] = append(ps.sys[ep], protoSystematic(ep, &corpus[i])...)
			ps.sys[ep] = append(ps.sys[ep], systematic(&corpus[i])...)
		}
	}
	return ps
}

// input returns the idx-th input of an entry point: a pure function of (seed, ep, idx).
func (ps *pureState) input(ep string, idx int) (string, []byte) {
	if sys := ps.sys[ep]; idx < len(sys) {
		return sys[idx].Class, sys[idx].Make()
	}
	r := fw.NewRand(ps.co.Seed, fmt.Sprintf("c16/in/%s/%d", ep, idx))
	if c, b, ok := customRandom(ep, ps.co, r); ok {
		return c, b
	}
	if c, b, ok := protoRandom(ep, ps.co.Pure[ep], r); ok {
		return c, b
	}
	return randomMutation(ps.co.Pure[ep], r)
}

func decodeCorpora(setup []byte) *Corpora {
	co := &Corpora{}
	if err := gob.NewDecoder(bytes.NewReader(setup)).Decode(co); err != nil {
		fmt.Fprintln(os.Stderr, "c16: bad setup:", err)
		os.Exit(3)
	}
	return co
}

func pureChild(setup []byte, scratch string) func(i int, data []byte) []byte {
	runtime.GOMAXPROCS(2)
	ps := newPureState(decodeCorpora(setup))
	return func(_ int, data []byte) []byte {
		var b batch
		json.Unmarshal(data, &b)
		out := batchOut{Counts: map[string]int{}}
		perSig := map[string]int{}
		drv := drivers[b.EP]
		skip := loadSkip(ps.co.MarkerDir)
		mk := openMarker(ps.co.MarkerDir, b)
		for idx := b.From; idx < b.From+b.N; idx++ {
			class, in := ps.input(b.EP, idx)
			if skip[b.EP+"|"+class] {
				out.Skipped++
				continue
			}
			if len(in) > maxInput {
				// larger than any message the system accepts: the 256 MiB limit says nothing about it
				out.Counts[class+"|oversize-input-not-fed"]++
				continue
			}
			r := fw.NewRand(ps.co.Seed, fmt.Sprintf("c16/drv/%s/%d", b.EP, idx))
			mk.set(idx)
			res := measure(func() error { return drv(in, r) })
			outcome := outcomeOf(res.Err)
			sig := ""
			switch {
			case res.Panicked:
				sig = res.Sig
				outcome = "panic:" + res.Sig
			case res.Alloc > allocLimit:
				sig = b.EP + "/alloc-over-256MiB"
				outcome = "alloc-over"
			}
			if res.Alloc > out.MaxAlloc && sig == "" {
				out.MaxAlloc = res.Alloc
			}
			out.Counts[class+"|"+outcome]++
			if sig != "" {
				perSig[sig]++
				if perSig[sig] <= 2 {
					out.Viol = append(out.Viol, violOut{Sig: sig, Class: class, Text: res.Text, Input: in, Idx: idx, Alloc: res.Alloc})
				}
			}
		}
		mk.done()
		d, _ := json.Marshal(out)
		return d
	}
}

// ---- parent

func Run(c *fw.Ctx) {
	c.Rule = "every input (valid encodings from the real encoders; structure-aware mutations of every length/count/tag/flag field, truncation at every byte, duplicated/swapped sections, header bit flips; random bytes) is fed to each decoding entry point in a child process; refuted by a panic/fatal error, a confirmed hang, a TotalAlloc delta of one call above 256 MiB, or (ReplicateTx) a changed precommitted/committed id or Alh after an error / refusal of the honest next export; distinct = entry point x mutation class x observed outcome class"
	c.Assume("the Go runtime reports every panic and fatal error of the process under test (recover / exit status + stderr)")
	c.Assume("runtime.MemStats.TotalAlloc delta around a call in a child that runs nothing else bounds the bytes the call allocated")
	c.Assume("executing arbitrary SQL is outside the deciding set (parsing only)")
	c.Assume("the PostgreSQL wire front-end is driven at the level of the fmessages.Parse* functions with every payload the message reader can hand them (0..MaxMsgSize bytes after the type byte and length); whole pgsql sessions are driven by the group 'pgsession' against a real server in a child process (start-up, password, simple and extended protocol, COPY sub-protocol; valid and altered frames)")

	root := c.Dir("corpus")
	co, err := buildCorpora(c.Seed, root)
	if err != nil {
		c.Inconclusive("cannot build corpus: " + err.Error())
		return
	}
	co.MarkerDir = c.Dir("markers")
	var setup bytes.Buffer
	if err := gob.NewEncoder(&setup).Encode(co); err != nil {
		c.Inconclusive("cannot encode corpus: " + err.Error())
		return
	}
	c.Set("corpus_exports", len(co.Exports))
	c.Set("sql_seed_statements", len(co.SQL))

	var confirm []confirmReq // watchdog hits, re-run alone at the end

	if v := os.Getenv("VERIF_C16_AS_MIB"); v != "" { // development aid
		var n int64
		fmt.Sscan(v, &n)
		asLimit = n << 20
	}
	only := os.Getenv("VERIF_C16_ONLY") // development aid: restrict to one group
	// wall time per group: diagnostics in the evidence only, never part of a verdict
	timed := func(name string, f func()) {
		t0 := time.Now()
		f()
		c.Set("wall_s:"+name, int(time.Since(t0).Seconds()))
	}
	if only == "" || only == "pure" {
		timed("pure", func() { runPure(c, co, setup.Bytes(), &confirm) })
	}
	if only == "" || only == "repl" {
		timed("repl", func() { runRepl(c, co, setup.Bytes(), &confirm) })
	}
	if only == "" || only == "files" {
		timed("files", func() { runFiles(c, co, setup.Bytes(), &confirm) })
	}
	if only == "" || only == "pgsession" {
		timed("pgsession", func() { runPgSessions(c) })
	}
	timed("confirm", func() { runConfirm(c, setup.Bytes(), confirm) })
}

func pureBudget(c *fw.Ctx, ep string) int {
	// random inputs per entry point on top of the systematic enumeration
	q, t := 6000, 350000
	switch {
	case strings.HasPrefix(ep, "sql."):
		q, t = 12000, 750000
	case strings.HasPrefix(ep, "store."), ep == "appendable.NewMetadata":
		q, t = 14000, 1250000
	case strings.HasPrefix(ep, "fmessages.ParseBind"), strings.HasPrefix(ep, "fmessages.ParseParse"), strings.HasPrefix(ep, "stream."):
		q, t = 8000, 500000
	case strings.HasPrefix(ep, "fmessages."):
		q, t = 1500, 50000
	case strings.HasPrefix(ep, "schema.Dual"), ep == "schema.TxFromProto":
		q, t = 5000, 250000
	}
	return c.N(q, t)
}

func runPure(c *fw.Ctx, co *Corpora, setup []byte, confirm *[]confirmReq) {
	ps := newPureState(co)
	bsz := c.N(500, 5000)
	var batches []batch
	for _, ep := range pureEPs(co) {
		if f := os.Getenv("VERIF_C16_EP"); f != "" && !strings.Contains(ep, f) {
			continue
		}
		total := len(ps.sys[ep]) + pureBudget(c, ep)
		c.Set("systematic:"+ep, len(ps.sys[ep]))
		for from := 0; from < total; from += bsz {
			batches = append(batches, batch{EP: ep, From: from, N: minI(bsz, total-from)})
		}
	}
	// interleave entry points over the shards (RunCases shards contiguously)
	perm := fw.NewRand(c.Seed, "c16/pure-order").Perm(len(batches))
	sb := make([]batch, len(batches))
	for i, p := range perm {
		sb[i] = batches[p]
	}
	var maxAlloc uint64
	runBatches(c, "c16pure", co, setup, sb,
		func(b batch, idx int) (string, []byte) { return ps.input(b.EP, idx) },
		func(b batch, out *batchOut) {
			absorbOut(c, b.EP, out)
			if out.MaxAlloc > maxAlloc {
				maxAlloc = out.MaxAlloc
			}
			if len(out.Viol) == 0 {
				for k := range out.Counts {
					if strings.HasSuffix(k, "|ok") {
						c.Sample(map[string]any{"entry_point": b.EP, "class_outcome": k})
						break
					}
				}
			}
		}, confirm)
	c.Set("max_alloc_bytes_of_a_passing_pure_call", maxAlloc)
}

var violSeen = map[string]int{}

// violate records the first occurrence of a signature with its witness and
// counts the others (the framework keeps a bounded number of witnesses).
func violate(c *fw.Ctx, sig, detail string, files map[string][]byte) {
	violSeen[sig]++ // handlers are serialized by RunCases
	c.Count("occurrences:"+sig, 1)
	if violSeen[sig] == 1 {
		c.Violation(sig, detail, files)
	}
}

// parkedOnLock: the main goroutine of the dump is blocked acquiring a mutex.
func parkedOnLock(dump string) bool {
	i := strings.Index(dump, "\ngoroutine 1 ")
	if i < 0 {
		return false
	}
	line := dump[i+1:]
	if j := strings.Index(line, "\n"); j >= 0 {
		line = line[:j]
	}
	return strings.Contains(line, "[sync.Mutex.Lock") || strings.Contains(line, "[sync.RWMutex") || strings.Contains(line, "[semacquire")
}

// mainRunning: the main goroutine of the dump is executing (not blocked on anything).
func mainRunning(dump string) bool {
	i := strings.Index(dump, "\ngoroutine 1 ")
	if i < 0 {
		return false
	}
	line := dump[i+1:]
	if j := strings.Index(line, "\n"); j >= 0 {
		line = line[:j]
	}
	return strings.Contains(line, "[running") || strings.Contains(line, "[runnable")
}

func trunc(s string, n int) string {
	if len(s) > n {
		return s[:n] + "…"
	}
	return s
}

// hangSig names the immudb function in which the main goroutine is parked.
func hangSig(ep, dump string) string {
	i := strings.Index(dump, "\ngoroutine 1 ")
	if i >= 0 {
		blk := dump[i+1:]
		if j := strings.Index(blk, "\n\n"); j >= 0 {
			blk = blk[:j]
		}
		for _, name := range frames(blk) {
			// leaf helpers (the LRU cache every appendable uses) are where a caller's loop is
			// sampled most of the time: name the caller, so that one loop gets one signature
			if strings.HasPrefix(name, "github.com/codenotary/immudb/embedded/cache.") || strings.Contains(name, "Cache.") {
				continue
			}
			if strings.HasPrefix(name, "github.com/codenotary/immudb/") {
				return strings.TrimPrefix(name, "github.com/codenotary/immudb/") + "/hang"
			}
		}
	}
	return ep + "/hang"
}

func debugf(format string, a ...any) {
	if os.Getenv("VERIF_C16_DEBUG") != "" {
		fmt.Fprintf(os.Stderr, format+"\n", a...)
	}
}

func hexHead(b []byte, n int) string {
	if len(b) > n {
		return fmt.Sprintf("%x…", b[:n])
	}
	return fmt.Sprintf("%x", b)
}

func firstLines(s string, n int) string {
	lines := strings.SplitN(s, "\n", n+1)
	if len(lines) > n {
		lines = lines[:n]
	}
	return strings.Join(lines, "\n")
}

// runConfirm re-executes, alone and one at a time in an otherwise idle child,
// the inputs during which the watchdog fired: a case still running after 60 s
// is a hang; a crash gives the crash signature; anything else is inconclusive
// (the first watchdog hit is then put down to load).
func runConfirm(c *fw.Ctx, setup []byte, reqs []confirmReq) {
	byChild := map[string][]confirmReq{}
	for _, r := range reqs {
		byChild[r.Child] = append(byChild[r.Child], r)
	}
	var names []string
	for k := range byChild {
		names = append(names, k)
	}
	sort.Strings(names)
	for _, name := range names {
		// at most two re-runs per place where the main goroutine was found waiting
		var rs []confirmReq
		perPlace := map[string]int{}
		for _, r := range byChild[name] {
			place := hangSig(r.B.EP, r.Text)
			perPlace[place]++
			if perPlace[place] <= 2 {
				rs = append(rs, r)
			} else {
				c.Count("watchdog_hits_not_rerun:"+place, 1)
			}
		}
		var cases [][]byte
		for i := range rs {
			if rs[i].Data == nil {
				rs[i].Data, _ = json.Marshal(rs[i].B)
			}
			cases = append(cases, rs[i].Data)
		}
		c.RunCases(name, setup, cases, fw.CasesOpts{Workers: 1, CaseTimout: 60 * time.Second, ASLimit: asLimit}, func(r fw.CaseResult) {
			rq := rs[r.Index]
			d := rq.Data
			switch {
			case r.Crashed:
				sig := crashSig(rq.B.EP, "", r.Text)
				if sig == "" {
					c.Inconclusive(name + ": child ran out of address space on a small allocation when re-running a case alone")
					return
				}
				c.Eval(1)
				violate(c, sig, fmt.Sprintf("entry point %s input #%d: the child process died on this input when re-run alone\n%s", rq.B.EP, rq.B.From, firstLines(r.Text, 30)), map[string][]byte{"case.json": d, "stderr.txt": []byte(r.Text)})
			case r.TimedOut && name != "c16pure" && !parkedOnLock(r.Text) && !mainRunning(r.Text):
				// a multi-goroutine component waiting on a channel / condition may be waiting for
				// another goroutine that cannot progress on corrupted data: not decidable from here
				c.Inconclusive(fmt.Sprintf("%s: %s still waiting (neither on a mutex nor executing) after 60 s when re-run alone: %s; case %s", name, rq.B.EP, hangSig(rq.B.EP, r.Text), trunc(string(d), 300)))
			case r.TimedOut:
				c.Eval(1)
				violate(c, hangSig(rq.B.EP, r.Text), fmt.Sprintf("entry point %s input #%d: still running after 60 s when re-run alone in an idle child\n%s", rq.B.EP, rq.B.From, firstLines(r.Text, 40)), map[string][]byte{"case.json": d, "stderr.txt": []byte(r.Text)})
			default:
				var out batchOut
				if name != "c16file" && json.Unmarshal(r.Out, &out) == nil {
					absorbOut(c, rq.B.EP, &out)
				}
				c.Inconclusive(fmt.Sprintf("%s: watchdog fired during %s input #%d but the input returns when re-run alone", name, rq.B.EP, rq.B.From))
			}
		})
	}
}
