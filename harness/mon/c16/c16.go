// Package c16: monitor for property C16 (see DESIGN.md section 2).
package c16
