package c16

import (
	"bytes"
	"context"
	"encoding/binary"
	"fmt"
	"os"
	"path/filepath"
	"sort"
	"time"

	"github.com/codenotary/immudb/embedded/appendable"
	"github.com/codenotary/immudb/embedded/store"
	"github.com/codenotary/immudb/pkg/api/schema"
	"google.golang.org/protobuf/proto"

	"verifharness/internal/sth"
)

// fixed instants: commit timestamps of the corpus stores (deterministic corpus)
var corpusTime = time.Date(2020, 1, 2, 3, 4, 5, 0, time.UTC)
var notExpired = time.Date(2100, 1, 1, 0, 0, 0, 0, time.UTC)

func corpusOpts() *store.Options {
	return sth.SmallOpts().
		WithTimeFunc(func() time.Time { return corpusTime }).
		WithFileSize(1 << 16).
		WithVLogCacheSize(0)
}

// Corpora is what the parent hands to every child (gob in the setup blob).
type Corpora struct {
	Seed    int64
	Pure    map[string][]seedInput // entry point -> valid encodings
	Exports [][]byte               // honest exports of tx 1..K of the primary store
	ExpSeed []seedInput            // annotated exports
	Dirs    map[string]string      // pristine directories (file-level corpora)
	SQL     []string
	MarkerDir string
}

func val(n int, c byte) []byte { return bytes.Repeat([]byte{c}, n) }

// populate commits the fixed corpus workload.
func populate(st *store.ImmuStore, version int) error {
	kvmdDel := store.NewKVMetadata()
	kvmdDel.AsDeleted(true)
	kvmdExp := store.NewKVMetadata()
	kvmdExp.ExpiresAt(notExpired)
	kvmdExp.AsNonIndexable(true)
	kvmdAll := store.NewKVMetadata()
	kvmdAll.AsDeleted(true)
	kvmdAll.ExpiresAt(notExpired)
	kvmdAll.AsNonIndexable(true)

	if _, err := sth.Commit(st, sth.KV{K: []byte("k1"), V: []byte("v1")}); err != nil {
		return err
	}
	if _, err := sth.Commit(st,
		sth.KV{K: []byte("a"), V: val(1, 'a')}, sth.KV{K: []byte("bb"), V: val(100, 'b')},
		sth.KV{K: []byte("ccc"), V: val(1000, 'c')}, sth.KV{K: []byte("k1"), V: []byte("v1b")},
		sth.KV{K: val(60, 'K'), V: val(3000, 'd')}); err != nil {
		return err
	}
	if version >= 1 {
		if _, err := sth.Commit(st, sth.KV{K: []byte("a"), MD: kvmdDel}); err != nil {
			return err
		}
		if _, err := sth.Commit(st, sth.KV{K: []byte("exp"), V: []byte("expiring"), MD: kvmdExp}, sth.KV{K: []byte("all"), V: []byte("x"), MD: kvmdAll}); err != nil {
			return err
		}
		md := store.NewTxMetadata()
		md.WithExtra(val(40, 'E'))
		if _, err := sth.CommitMD(st, md, sth.KV{K: []byte("m1"), V: []byte("with-extra")}); err != nil {
			return err
		}
		md2 := store.NewTxMetadata()
		md2.WithTruncatedTxID(1)
		md2.WithExtra([]byte{1})
		if _, err := sth.CommitMD(st, md2, sth.KV{K: []byte("m2"), V: []byte("with-both")}); err != nil {
			return err
		}
	}
	if _, err := sth.Commit(st, sth.KV{K: []byte("empty"), V: nil}, sth.KV{K: []byte("k1"), V: []byte("v1c")}); err != nil {
		return err
	}
	var many []sth.KV
	for i := 0; i < 16; i++ {
		many = append(many, sth.KV{K: []byte(fmt.Sprintf("many%02d", i)), V: val(i*7, byte('0'+i))})
	}
	if _, err := sth.Commit(st, many...); err != nil {
		return err
	}
	for i := 0; i < 3; i++ {
		if _, err := sth.Commit(st, sth.KV{K: []byte("k1"), V: []byte(fmt.Sprintf("v1-%d", i))}, sth.KV{K: []byte("bb"), V: val(10+i, 'B')}); err != nil {
			return err
		}
	}
	return nil
}

func annotateTxMetadata(b []byte, base int, prefix string) []field {
	var fs []field
	i := 0
	for i < len(b) {
		fs = append(fs, field{base + i, 1, prefix + "attrcode"})
		code := b[i]
		i++
		switch code {
		case 0:
			fs = append(fs, field{base + i, 8, prefix + "truncatedTxID"})
			i += 8
		case 1:
			if i+2 > len(b) {
				return fs
			}
			fs = append(fs, field{base + i, 2, prefix + "extraLen"})
			i += 2 + int(binary.BigEndian.Uint16(b[i:]))
		default:
			return fs
		}
	}
	return fs
}

// annotateHeader returns the fields of a serialized TxHeader (TxHeader.Bytes layout).
func annotateHeader(b []byte, base int) []field {
	fs := []field{{base, 8, "hdr.id"}, {base + 8, 1, "hdr.prevAlh"}, {base + 40, 8, "hdr.ts"}, {base + 48, 2, "hdr.version"}}
	i := 50
	if binary.BigEndian.Uint16(b[48:]) == 0 {
		fs = append(fs, field{base + i, 2, "hdr.nentries"})
		i += 2
	} else {
		mdLen := int(binary.BigEndian.Uint16(b[i:]))
		fs = append(fs, field{base + i, 2, "hdr.mdLen"})
		i += 2
		fs = append(fs, annotateTxMetadata(b[i:i+mdLen], base+i, "hdr.md.")...)
		i += mdLen
		fs = append(fs, field{base + i, 4, "hdr.nentries"})
		i += 4
	}
	fs = append(fs, field{base + i, 1, "hdr.eh"})
	i += 32
	fs = append(fs, field{base + i, 8, "hdr.blTxID"})
	i += 8
	fs = append(fs, field{base + i, 1, "hdr.blRoot"})
	return fs
}

func annotateKVMetadata(b []byte, base int, prefix string) []field {
	var fs []field
	i := 0
	for i < len(b) {
		fs = append(fs, field{base + i, 1, prefix + "attrcode"})
		if b[i] == 1 {
			fs = append(fs, field{base + i + 1, 8, prefix + "expiresAt"})
			i += 8
		}
		i++
	}
	return fs
}

// annotateExport parses the ExportTx format produced by the real encoder.
func annotateExport(name string, b []byte) seedInput {
	s := seedInput{Name: name, B: b}
	hdrLen := int(binary.BigEndian.Uint32(b))
	s.Fields = append(s.Fields, field{0, 4, "hdrLen"})
	s.Fields = append(s.Fields, annotateHeader(b[4:4+hdrLen], 4)...)
	s.Header = 4 + hdrLen
	hdr := &store.TxHeader{}
	if err := hdr.ReadFrom(b[4 : 4+hdrLen]); err != nil {
		panic(err)
	}
	i := 4 + hdrLen
	for e := 0; e < hdr.NEntries; e++ {
		from := i
		kLen := int(binary.BigEndian.Uint16(b[i:]))
		s.Fields = append(s.Fields, field{i, 2, "e.kLen"})
		i += 2 + kLen
		mdLen := int(binary.BigEndian.Uint16(b[i:]))
		s.Fields = append(s.Fields, field{i, 2, "e.mdLen"})
		i += 2
		s.Fields = append(s.Fields, annotateKVMetadata(b[i:i+mdLen], i, "e.md.")...)
		i += mdLen
		vLen := int(binary.BigEndian.Uint32(b[i:]))
		s.Fields = append(s.Fields, field{i, 4, "e.vLen"})
		i += 4 + vLen
		s.Sections = append(s.Sections, [2]int{from, i})
	}
	s.Fields = append(s.Fields, field{i, 2, "tLen"}, field{i + 2, 1, "truncated"})
	s.Sections = append(s.Sections, [2]int{i, len(b)})
	if i+3 != len(b) {
		panic("export layout")
	}
	return s
}

// canonical appendable-metadata encoding (sorted keys): Metadata.Bytes iterates a map.
type mdPair struct {
	k string
	v []byte
}

func parseAppMeta(b []byte) ([]mdPair, bool) {
	rd := func() ([]byte, bool) {
		if len(b) < 4 {
			return nil, false
		}
		n := int(binary.BigEndian.Uint32(b))
		if len(b) < 4+n {
			return nil, false
		}
		f := b[4 : 4+n]
		b = b[4+n:]
		return f, true
	}
	cnt, ok := rd()
	if !ok || len(cnt) != 4 {
		return nil, false
	}
	n := int(binary.BigEndian.Uint32(cnt))
	if n > 64 {
		return nil, false
	}
	var ps []mdPair
	for i := 0; i < n; i++ {
		k, ok := rd()
		if !ok {
			return nil, false
		}
		v, ok := rd()
		if !ok {
			return nil, false
		}
		ps = append(ps, mdPair{string(k), v})
	}
	if len(b) != 0 {
		return nil, false
	}
	return ps, true
}

func canonAppMeta(b []byte) []byte {
	ps, ok := parseAppMeta(b)
	if !ok {
		return b
	}
	sort.Slice(ps, func(i, j int) bool { return ps[i].k < ps[j].k })
	var out bytes.Buffer
	w32 := func(v int) { var x [4]byte; binary.BigEndian.PutUint32(x[:], uint32(v)); out.Write(x[:]) }
	w32(4)
	w32(len(ps))
	for _, p := range ps {
		w32(len(p.k))
		out.WriteString(p.k)
		v := p.v
		if p.k == "WRAPPED_METADATA" {
			v = canonAppMeta(v)
		}
		w32(len(v))
		out.Write(v)
	}
	if out.Len() != len(b) {
		panic("canonical metadata changed length")
	}
	return out.Bytes()
}

func annotateAppMeta(b []byte, base int, prefix string, depth int) []field {
	fs := []field{{base, 4, prefix + "countLen"}, {base + 4, 4, prefix + "count"}}
	ps, ok := parseAppMeta(b)
	if !ok {
		return fs
	}
	i := 8
	for _, p := range ps {
		fs = append(fs, field{base + i, 4, prefix + "kLen"})
		i += 4 + len(p.k)
		fs = append(fs, field{base + i, 4, prefix + "vLen:" + p.k})
		i += 4
		if p.k == "WRAPPED_METADATA" && depth < 3 {
			if _, ok := parseAppMeta(p.v); ok {
				fs = append(fs, annotateAppMeta(p.v, base+i, prefix+"w.", depth+1)...)
			}
		} else if len(p.v) == 8 {
			fs = append(fs, field{base + i, 8, prefix + "int:" + p.k})
		} else if len(p.v) == 1 {
			fs = append(fs, field{base + i, 1, prefix + "bool:" + p.k})
		}
		i += len(p.v)
	}
	return fs
}

// canonDir rewrites the metadata header of every appendable file below dir in
// canonical key order (same length, same content, still a valid encoding).
func canonDir(dir string) error {
	return filepath.Walk(dir, func(p string, info os.FileInfo, err error) error {
		if err != nil || info.IsDir() {
			return err
		}
		b, err := os.ReadFile(p)
		if err != nil || len(b) < 4 {
			return err
		}
		n := int(binary.BigEndian.Uint32(b))
		if n < 8 || 4+n > len(b) {
			return nil
		}
		if _, ok := parseAppMeta(b[4 : 4+n]); !ok {
			return nil
		}
		copy(b[4:4+n], canonAppMeta(b[4:4+n]))
		return os.WriteFile(p, b, 0o644)
	})
}

// buildStoreDir creates a store directory with the corpus workload, fully indexed and closed.
func buildStoreDir(dir string, opts *store.Options, version int, onOpen func(st *store.ImmuStore) error) error {
	st, err := store.Open(dir, opts.WithWriteTxHeaderVersion(version))
	if err != nil {
		return err
	}
	if err := populate(st, version); err != nil {
		st.Close()
		return err
	}
	if err := st.WaitForIndexingUpto(context.Background(), st.LastCommittedTxID()); err != nil {
		st.Close()
		return err
	}
	if onOpen != nil {
		if err := onOpen(st); err != nil {
			st.Close()
			return err
		}
	}
	if err := st.FlushIndexes(0, true); err != nil {
		st.Close()
		return err
	}
	if err := st.Close(); err != nil {
		return err
	}
	return canonDir(dir)
}

func mustMarshal(m proto.Message) []byte {
	b, err := proto.MarshalOptions{Deterministic: true}.Marshal(m)
	if err != nil {
		panic(err)
	}
	return b
}

// buildCorpora builds every corpus below root (a scratch directory).
func buildCorpora(seed int64, root string) (*Corpora, error) {
	co := &Corpora{Seed: seed, Pure: map[string][]seedInput{}, Dirs: map[string]string{}}

	addPure := func(ep string, s seedInput) { co.Pure[ep] = append(co.Pure[ep], s) }

	// --- primary store (header version 1) and a version-0 store
	for _, version := range []int{1, 0} {
		name := fmt.Sprintf("store-v%d", version)
		dir := filepath.Join(root, name)
		err := buildStoreDir(dir, corpusOpts(), version, func(st *store.ImmuStore) error {
			n := st.LastCommittedTxID()
			tx := store.NewTx(st.MaxTxEntries(), st.MaxKeyLen())
			var hdrs []*store.TxHeader
			for id := uint64(1); id <= n; id++ {
				exp, err := st.ExportTx(id, false, false, tx)
				if err != nil {
					return err
				}
				exp = clone(exp)
				hdr := tx.Header()
				hdrs = append(hdrs, hdr)
				hb, err := hdr.Bytes()
				if err != nil {
					return err
				}
				addPure("store.TxHeader.ReadFrom", seedInput{Name: fmt.Sprintf("v%d-tx%d", version, id), B: clone(hb), Fields: annotateHeader(hb, 0), Header: len(hb)})
				if version == 1 {
					co.Exports = append(co.Exports, exp)
					co.ExpSeed = append(co.ExpSeed, annotateExport(fmt.Sprintf("export-tx%d", id), exp))
				}
				if hdr.Metadata != nil && len(hdr.Metadata.Bytes()) > 0 {
					mb := hdr.Metadata.Bytes()
					addPure("store.TxMetadata.ReadFrom", seedInput{Name: fmt.Sprintf("txmd-tx%d", id), B: mb, Fields: annotateTxMetadata(mb, 0, ""), Header: len(mb)})
				}
				// proto messages
				if version == 1 {
					ptx := schema.TxToProto(tx)
					addPure("schema.TxFromProto", seedInput{Name: fmt.Sprintf("tx%d", id), B: mustMarshal(ptx)})
					addPure("schema.TxHeaderFromProto", seedInput{Name: fmt.Sprintf("hdr%d", id), B: mustMarshal(ptx.Header)})
					for _, e := range tx.Entries() {
						if e.Metadata() != nil {
							addPure("schema.KVMetadataFromProto", seedInput{Name: "kvmd", B: mustMarshal(schema.KVMetadataToProto(e.Metadata()))})
						}
					}
					if id == 2 || id == 8 {
						for _, e := range tx.Entries()[:2] {
							ip, err := tx.Proof(e.Key())
							if err != nil {
								return err
							}
							addPure("schema.InclusionProofFromProto", seedInput{Name: fmt.Sprintf("incl-tx%d", id), B: mustMarshal(schema.InclusionProofToProto(ip))})
						}
					}
				}
			}
			if version == 1 {
				for _, pr := range [][2]int{{1, 2}, {1, int(n)}, {2, 5}, {3, int(n) - 1}, {int(n) - 1, int(n)}, {4, 4}} {
					dp, err := st.DualProof(hdrs[pr[0]-1], hdrs[pr[1]-1])
					if err != nil {
						return err
					}
					addPure("schema.DualProofFromProto", seedInput{Name: fmt.Sprintf("dual-%d-%d", pr[0], pr[1]), B: mustMarshal(schema.DualProofToProto(dp))})
					if dp.LinearProof != nil {
						addPure("schema.LinearProofFromProto", seedInput{Name: "linear", B: mustMarshal(schema.LinearProofToProto(dp.LinearProof))})
					}
					if dp.LinearAdvanceProof != nil {
						addPure("schema.LinearAdvanceProofFromProto", seedInput{Name: "linadv", B: mustMarshal(schema.LinearAdvanceProofToProto(dp.LinearAdvanceProof))})
					}
					dp2, err := st.DualProofV2(hdrs[pr[0]-1], hdrs[pr[1]-1])
					if err != nil {
						return err
					}
					addPure("schema.DualProofV2FromProto", seedInput{Name: fmt.Sprintf("dualv2-%d-%d", pr[0], pr[1]), B: mustMarshal(schema.DualProofV2ToProto(dp2))})
				}
				lp, err := st.LinearProof(1, n)
				if err != nil {
					return err
				}
				addPure("schema.LinearProofFromProto", seedInput{Name: "linear-1-n", B: mustMarshal(schema.LinearProofToProto(lp))})
				lap, err := st.LinearAdvanceProof(1, n, n)
				if err == nil && lap != nil {
					addPure("schema.LinearAdvanceProofFromProto", seedInput{Name: "linadv-1-n", B: mustMarshal(schema.LinearAdvanceProofToProto(lap))})
				}
			}
			return nil
		})
		if err != nil {
			return nil, fmt.Errorf("corpus %s: %w", name, err)
		}
		co.Dirs[name] = dir
	}
	// synthetic linear-advance proof (the store only emits non-trivial ones for old linear chains)
	{
		lap := &schema.LinearAdvanceProof{}
		for i := 0; i < 4; i++ {
			lap.LinearProofTerms = append(lap.LinearProofTerms, val(32, byte(i+1)))
		}
		for i := 0; i < 3; i++ {
			lap.InclusionProofs = append(lap.InclusionProofs, &schema.InclusionProof{Leaf: int32(i), Width: 4, Terms: [][]byte{val(32, 7), val(32, 8)}})
		}
		addPure("schema.LinearAdvanceProofFromProto", seedInput{Name: "linadv-synth", B: mustMarshal(lap)})
	}
	if seeds, err := verifyRowSeeds(root); err != nil {
		return nil, fmt.Errorf("corpus client.VerifyRow: %w", err)
	} else {
		for _, sd := range seeds {
			addPure("client.VerifyRow", sd)
		}
	}
	addPure("schema.DigestFromProto", seedInput{Name: "digest", B: val(32, 9), Header: 4})
	{
		md := &schema.TxMetadata{TruncatedTxID: 3, Extra: []byte("extra")}
		addPure("schema.TxMetadataFromProto", seedInput{Name: "txmd", B: mustMarshal(md)})
	}

	// --- tx metadata seeds not reachable through commits
	{
		md := store.NewTxMetadata()
		md.WithTruncatedTxID(7)
		b := md.Bytes()
		addPure("store.TxMetadata.ReadFrom", seedInput{Name: "txmd-trunc-only", B: b, Fields: annotateTxMetadata(b, 0, ""), Header: len(b)})
		md = store.NewTxMetadata()
		md.WithExtra(val(256, 'x'))
		md.WithTruncatedTxID(1 << 40)
		b = md.Bytes()
		addPure("store.TxMetadata.ReadFrom", seedInput{Name: "txmd-max", B: b, Fields: annotateTxMetadata(b, 0, ""), Header: 16})
		// a header carrying maximal metadata
		h := &store.TxHeader{ID: 9, Ts: 1, Version: 1, Metadata: md, NEntries: 3, BlTxID: 8}
		hb, err := h.Bytes()
		if err != nil {
			return nil, err
		}
		addPure("store.TxHeader.ReadFrom", seedInput{Name: "hdr-maxmd", B: hb, Fields: annotateHeader(hb, 0), Header: 64})
	}

	// --- appendable metadata: headers of real files
	seenMeta := map[string]bool{}
	for _, d := range []string{"store-v1"} {
		filepath.Walk(co.Dirs[d], func(p string, info os.FileInfo, err error) error {
			if err != nil || info.IsDir() {
				return nil
			}
			b, _ := os.ReadFile(p)
			if len(b) < 12 {
				return nil
			}
			n := int(binary.BigEndian.Uint32(b))
			if 4+n > len(b) {
				return nil
			}
			m := clone(b[4 : 4+n])
			if _, ok := parseAppMeta(m); !ok || seenMeta[string(m)] {
				return nil
			}
			seenMeta[string(m)] = true
			rel, _ := filepath.Rel(co.Dirs[d], p)
			addPure("appendable.NewMetadata", seedInput{Name: rel, B: m, Fields: annotateAppMeta(m, 0, "", 0), Header: minI(len(m), 48)})
			return nil
		})
	}
	{
		m := appendable.NewMetadata(nil)
		m.PutInt("FILE_SIZE", 4096)
		m.PutBool("EMBEDDED_VALUES", true)
		m.Put("WRAPPED_METADATA", nil)
		b := canonAppMeta(m.Bytes())
		addPure("appendable.NewMetadata", seedInput{Name: "synthetic", B: b, Fields: annotateAppMeta(b, 0, "", 0), Header: len(b)})
	}

	// --- stores with other physical layouts (file-level corpora only)
	if err := buildStoreDir(filepath.Join(root, "store-embedded"), corpusOpts().WithEmbeddedValues(true).WithPreallocFiles(true).WithFileSize(1<<13), 1, nil); err != nil {
		return nil, err
	}
	co.Dirs["store-embedded"] = filepath.Join(root, "store-embedded")
	if err := buildStoreDir(filepath.Join(root, "store-multifile"), corpusOpts().WithFileSize(2048), 1, nil); err != nil {
		return nil, err
	}
	co.Dirs["store-multifile"] = filepath.Join(root, "store-multifile")
	if err := buildStoreDir(filepath.Join(root, "store-flate"), corpusOpts().WithCompressionFormat(appendable.FlateCompression).WithCompresionLevel(appendable.BestSpeed), 1, nil); err != nil {
		return nil, err
	}
	co.Dirs["store-flate"] = filepath.Join(root, "store-flate")

	buildPgCorpus(co)
	buildSQLCorpus(co)
	buildStreamCorpus(co)
	return co, nil
}
