package c16

import (
	"context"
	"crypto/sha256"
	"encoding/json"
	"errors"
	"fmt"
	"os"
	"path/filepath"
	"runtime"
	"strings"

	"github.com/codenotary/immudb/embedded/store"

	"verifharness/internal/fw"
	"verifharness/internal/hook"
)

// ReplicateTx on a live replica. A batch names the replica state J it starts
// from (the honest exports 1..J applied); the child brings its replica to that
// state, feeds the mutated exports, checks after every error that the
// precommitted/committed id and Alh did not move, and at the end of the batch
// requires that the honest export J+1 is accepted.

const replEP = "store.ImmuStore.ReplicateTx"

type replState struct {
	co      *Corpora
	scratch string
	sys     map[int][]mutation
	st      *store.ImmuStore
	dir     string
	j       int
	n       int
	cancel  context.CancelFunc
}

func replSys(co *Corpora, j int) []mutation { return systematic(&co.ExpSeed[j]) }

func (rs *replState) input(j, idx int) (string, []byte) {
	sys := rs.sys[j]
	if sys == nil {
		sys = replSys(rs.co, j)
		rs.sys[j] = sys
	}
	if idx < len(sys) {
		return sys[idx].Class, sys[idx].Make()
	}
	r := fw.NewRand(rs.co.Seed, fmt.Sprintf("c16/repl/%d/%d", j, idx))
	if r.IntN(5) != 0 {
		return randomMutation(rs.co.ExpSeed[j:j+1], r)
	}
	return randomMutation(rs.co.ExpSeed, r)
}

func (rs *replState) close() {
	if rs.st != nil {
		rs.st.Close()
		rs.st = nil
		os.RemoveAll(rs.dir)
	}
}

// ensure brings the replica to state j (honest exports 1..j applied).
func (rs *replState) ensure(j int) error {
	if rs.st != nil && rs.j == j {
		return nil
	}
	rs.close()
	rs.n++
	rs.dir = filepath.Join(rs.scratch, fmt.Sprintf("replica-%d", rs.n))
	st, err := store.Open(rs.dir, corpusOpts())
	if err != nil {
		return err
	}
	rs.st, rs.j = st, 0
	for rs.j < j {
		if _, err := st.ReplicateTx(context.Background(), rs.co.Exports[rs.j], false, false); err != nil {
			return fmt.Errorf("honest export %d refused by a fresh replica: %w", rs.j+1, err)
		}
		rs.j++
	}
	return nil
}

type storeState struct {
	preID, comID   uint64
	preAlh, comAlh [sha256.Size]byte
}

func stateOf(st *store.ImmuStore) (s storeState) {
	s.preID, s.preAlh = st.PrecommittedAlh()
	s.comID, s.comAlh = st.CommittedAlh()
	return
}

func replChild(setup []byte, scratch string) func(i int, data []byte) []byte {
	runtime.GOMAXPROCS(2)
	rs := &replState{co: decodeCorpora(setup), scratch: scratch, sys: map[int][]mutation{}}
	hook.Install(&hook.Config{Seed: rs.co.Seed, OnPoint: func(site string) {
		// a mutated header may name a later tx id: ReplicateTx then (legitimately) waits
		// for its predecessor; cancelling here turns that wait into an error return
		if site == "store.replicateTx.beforePrecommit" && rs.cancel != nil {
			rs.cancel()
		}
	}})
	return func(_ int, data []byte) []byte {
		var rc batch
		json.Unmarshal(data, &rc)
		out := batchOut{Counts: map[string]int{}}
		skipSet := loadSkip(rs.co.MarkerDir)
		mk := openMarker(rs.co.MarkerDir, rc)
		defer mk.done()
		perSig := map[string]int{}
		report := func(sig, class, text string, in []byte, idx int, alloc uint64) {
			perSig[sig]++
			if perSig[sig] <= 2 {
				out.Viol = append(out.Viol, violOut{Sig: sig, Class: class, Text: text, Input: in, Idx: idx, Alloc: alloc})
			}
		}
		if err := rs.ensure(rc.J); err != nil {
			out.Counts["setup|"+outcomeOf(err)]++
			b, _ := json.Marshal(out)
			return b
		}
		for idx := rc.From; idx < rc.From+rc.N; idx++ {
			class, in := rs.input(rc.J, idx)
			if skipSet[replEP+"|"+class] {
				out.Skipped++
				continue
			}
			mk.set(idx)
			before := stateOf(rs.st)
			ctx, cancel := context.WithCancel(context.Background())
			rs.cancel = cancel
			skip := idx%5 == 4
			res := measure(func() error {
				_, err := rs.st.ReplicateTx(ctx, in, skip, false)
				return err
			})
			rs.cancel = nil
			cancel()
			outcome := outcomeOf(res.Err)
			switch {
			case res.Panicked:
				outcome = "panic:" + res.Sig
				report(res.Sig, class, res.Text, in, idx, res.Alloc)
			case res.Alloc > allocLimit:
				outcome = "alloc-over"
				report("store.ImmuStore.ReplicateTx/alloc-over-256MiB", class, "", in, idx, res.Alloc)
			}
			after := stateOf(rs.st)
			switch {
			case res.Err == nil && !res.Panicked:
				outcome = "accepted"
			case after != before && errors.Is(res.Err, context.Canceled):
				outcome = "cancelled-after-precommit"
			case after != before:
				report("replicatetx/partial-effect", class, fmt.Sprintf("ReplicateTx returned %q (panicked=%v) but the replica moved: precommitted %d->%d committed %d->%d alh changed=%v",
					fmt.Sprint(res.Err), res.Panicked, before.preID, after.preID, before.comID, after.comID, before.preAlh != after.preAlh || before.comAlh != after.comAlh), in, idx, res.Alloc)
				outcome += "+moved"
			}
			out.Counts[class+"|"+outcome]++
			if after != before || (res.Panicked && strings.Contains(res.Text, "recommit")) {
				// a panic may leave locks held; an accepted mutant moved the replica: start over
				if res.Panicked && strings.Contains(res.Text, "recommit") {
					rs.st = nil // do not Close a store whose mutexes may be held
				}
				if err := rs.ensure2(rc.J); err != nil {
					out.Counts["setup|"+outcomeOf(err)]++
					b, _ := json.Marshal(out)
					return b
				}
			}
		}
		// the honest next export must still be accepted
		res := measure(func() error {
			_, err := rs.st.ReplicateTx(context.Background(), rs.co.Exports[rc.J], false, false)
			return err
		})
		switch {
		case res.Panicked:
			report(res.Sig, "honest-next", res.Text, rs.co.Exports[rc.J], -1, res.Alloc)
			rs.st = nil
		case res.Err != nil:
			report("replicatetx/partial-effect", "honest-next", fmt.Sprintf("after %d malformed exports (all answered with an error, ids and Alh unchanged) the replica at tx %d refuses the honest export of tx %d: %v", rc.N, rc.J, rc.J+1, res.Err), rs.co.Exports[rc.J], -1, res.Alloc)
			rs.close()
		default:
			rs.j = rc.J + 1
			out.Counts["honest-next|accepted"]++
			if rs.j >= len(rs.co.Exports) {
				rs.close()
			}
		}
		b, _ := json.Marshal(out)
		return b
	}
}

// ensure2 forces a rebuild at state j.
func (rs *replState) ensure2(j int) error {
	if rs.st != nil {
		rs.close()
	}
	rs.j = -1
	return rs.ensure(j)
}

func runRepl(c *fw.Ctx, co *Corpora, setup []byte, confirm *[]confirmReq) {
	K := len(co.Exports)
	if K == 0 {
		c.Inconclusive("no exports in corpus")
		return
	}
	bsz := 200
	randomPer := c.N(1500, 20000)
	// batches of export j, then round-robin over j so that a shard walks the chain 0,1,2…
	perJ := make([][]batch, K)
	maxB := 0
	sys := map[int][]mutation{}
	for j := 0; j < K; j++ {
		sys[j] = replSys(co, j)
		total := len(sys[j]) + randomPer
		for from := 0; from < total; from += bsz {
			perJ[j] = append(perJ[j], batch{EP: replEP, J: j, From: from, N: minI(bsz, total-from)})
		}
		if len(perJ[j]) > maxB {
			maxB = len(perJ[j])
		}
	}
	var batches []batch
	for b := 0; b < maxB; b++ {
		for j := 0; j < K; j++ {
			if b < len(perJ[j]) {
				batches = append(batches, perJ[j][b])
			}
		}
	}
	rs := &replState{co: co, sys: sys}
	runBatches(c, "c16repl", co, setup, batches,
		func(b batch, idx int) (string, []byte) { return rs.input(b.J, idx) },
		func(b batch, out *batchOut) { absorbOut(c, replEP, out) }, confirm)
}
