package c16

// Group "pgsession": the PostgreSQL wire front-end driven as a whole. A real immudb server (gRPC +
// pgsql listener on loopback ports, fresh data directory) runs inside a child process; the harness
// is the peer on a raw TCP connection: an honest start-up and password exchange, then a PRNG
// sequence of frontend messages — valid ones from a small protocol encoder, and structure-aware
// alterations of them (every count, length, format code, terminator, truncation point, frame
// length) — incl. the COPY sub-protocol with hostile text rows. Session goroutines of the server
// have no recover: one panic ends the process, which the parent sees as the death of the child.
//
// Refuted by: the process dying (panic / fatal error) while serving a session; a session making the
// process allocate more than 256 MiB although the peer sent less than 1 MiB; rows of a COPY that
// was never completed (CopyFail, a foreign message, or the connection dropped before CopyDone)
// being present in the table afterwards (partial effect). A server that does not answer a fresh
// connection afterwards is reported as inconclusive (elapsed time is never a verdict).

import (
	"context"
	"encoding/binary"
	"encoding/json"
	"fmt"
	"io"
	"math/rand/v2"
	"net"
	"sort"
	"strings"
	"time"

	"github.com/codenotary/immudb/pkg/api/schema"
	"github.com/codenotary/immudb/pkg/server"
	"github.com/codenotary/immudb/pkg/server/sessions"
	"google.golang.org/grpc"
	"google.golang.org/grpc/credentials/insecure"
	"google.golang.org/grpc/metadata"

	"verifharness/internal/fw"
	"verifharness/internal/sth"
)

func init() { fw.RegisterIsolated("c16pgsess", pgsessCase) }

type pgsessSpec struct {
	Index    int
	Sessions int
}

const (
	pgUser = "immudb"
	pgPw   = "immudb"
)

type pgEnv struct {
	srv    *server.ImmuServer
	conn   *grpc.ClientConn
	ic     schema.ImmuServiceClient
	pgPort int
	sid    string
}

func startPgEnv(dir string) (*pgEnv, error) {
	so := sessions.DefaultOptions().WithSessionGuardCheckInterval(50 * time.Millisecond)
	opts := server.DefaultOptions().
		WithDir(dir).WithAddress("127.0.0.1").WithPort(0).
		WithMetricsServer(false).WithWebServer(false).
		WithPgsqlServer(true).WithPgsqlServerPort(0).
		WithNoHistograms(true).WithGRPCReflectionServerEnabled(false).
		WithSynced(false).WithAdminPassword(pgPw).WithSessionOptions(so).
		WithLogfile("").WithLogFormat("json")
	srv := server.DefaultServer().WithOptions(opts).WithLogger(sth.QuietLogger()).(*server.ImmuServer)
	if err := srv.Initialize(); err != nil {
		return nil, fmt.Errorf("initialize: %w", err)
	}
	e := &pgEnv{srv: srv}
	go srv.GrpcServer.Serve(srv.Listener)
	if err := srv.SessManager.StartSessionsGuard(); err != nil {
		return nil, err
	}
	go srv.PgsqlSrv.Serve()
	e.pgPort = srv.PgsqlSrv.GetPort()
	conn, err := grpc.Dial(srv.Listener.Addr().String(), grpc.WithTransportCredentials(insecure.NewCredentials()))
	if err != nil {
		return nil, err
	}
	e.conn = conn
	e.ic = schema.NewImmuServiceClient(conn)
	r, err := e.ic.OpenSession(context.Background(), &schema.OpenSessionRequest{Username: []byte(pgUser), Password: []byte(pgPw), DatabaseName: "defaultdb"})
	if err != nil {
		return nil, fmt.Errorf("open session: %w", err)
	}
	e.sid = r.SessionID
	return e, nil
}

func (e *pgEnv) ctx() context.Context {
	return metadata.NewOutgoingContext(context.Background(), metadata.Pairs("sessionid", e.sid))
}

func (e *pgEnv) exec(q string) error {
	_, err := e.ic.SQLExec(e.ctx(), &schema.SQLExecRequest{Sql: q})
	return err
}

// ids returns the primary keys of table t.
func (e *pgEnv) ids() (map[int64]bool, error) {
	st, err := e.ic.SQLQuery(e.ctx(), &schema.SQLQueryRequest{Sql: "SELECT id FROM t"})
	if err != nil {
		return nil, err
	}
	out := map[int64]bool{}
	for {
		res, err := st.Recv()
		if err == io.EOF {
			return out, nil
		}
		if err != nil {
			return nil, err
		}
		for _, r := range res.GetRows() {
			out[r.GetValues()[0].GetN()] = true
		}
	}
}

func (e *pgEnv) stop() {
	if e.conn != nil {
		e.conn.Close()
	}
	if e.srv != nil {
		if e.srv.PgsqlSrv != nil {
			e.srv.PgsqlSrv.Stop()
		}
		e.srv.SessManager.StopSessionsGuard()
		e.srv.GrpcServer.Stop()
		e.srv.CloseDatabases()
	}
}

// ---- frontend message encoder ----

func frame(t byte, payload []byte) []byte {
	b := make([]byte, 5+len(payload))
	b[0] = t
	binary.BigEndian.PutUint32(b[1:], uint32(4+len(payload)))
	copy(b[5:], payload)
	return b
}

func i16(v int) []byte { b := make([]byte, 2); binary.BigEndian.PutUint16(b, uint16(v)); return b }
func i32(v int) []byte { b := make([]byte, 4); binary.BigEndian.PutUint32(b, uint32(v)); return b }

func cat(parts ...[]byte) []byte {
	var out []byte
	for _, p := range parts {
		out = append(out, p...)
	}
	return out
}

func startupMsg(user, db string, extra ...string) []byte {
	p := cat(i32(196608), cstr("user"), cstr(user), cstr("database"), cstr(db))
	for _, x := range extra {
		p = append(p, cstr(x)...)
	}
	p = append(p, 0)
	return cat(i32(4+len(p)), p)
}

// fmsg is one frontend message under construction: typed fields, so that alterations can aim at
// each count / length / terminator rather than at anonymous bytes.
type fmsg struct {
	T     byte
	Class string // what was altered ("" = valid)
	Raw   []byte // the frame as sent
}

var sqlPool = []string{
	"SELECT id, s, b, n FROM t",
	"SELECT id FROM t WHERE id = 1",
	"SELECT COUNT(*) FROM t",
	"SELECT id, s FROM t WHERE n > 3 ORDER BY id DESC LIMIT 2",
	"INSERT INTO t (id, s, b, n) VALUES (%d, 'q', true, 1)",
	"UPSERT INTO t (id, s, b, n) VALUES (%d, 'u''v', false, NULL)",
	"UPDATE t SET n = n + 1 WHERE id = %d",
	"DELETE FROM t WHERE id = %d",
	"BEGIN", "COMMIT", "ROLLBACK", "BEGIN TRANSACTION; INSERT INTO t (id, s, b, n) VALUES (%d, 'x', true, 0); COMMIT;",
	"SELECT version()", "SELECT current_schema()", "SHOW server_version", "SET client_encoding TO 'UTF8'",
	"SELECT * FROM pg_catalog.pg_tables", "SELECT oid, typname FROM pg_type", "select current_database()",
	"SELECT id FROM t WHERE id = $1", "SELECT id, s FROM t WHERE s = $1 AND n < $2", "INSERT INTO t (id, s, b, n) VALUES ($1, $2, $3, $4)",
	"DEALLOCATE ALL", "DISCARD ALL", "", ";", ";;", "SELECT", "SELECT 1", "SELECT 1; SELECT 2", "select 'a", "/* c */ SELECT id FROM t -- x",
	"COPY t (id, s, b, n) FROM stdin", "COPY public.t (id, s, b, n) FROM stdin;", "COPY t (id) FROM stdin", "COPY t (\"id\", s) FROM stdin",
	"COPY nosuch (id, s) FROM stdin", "COPY t (id, zz) FROM stdin", "COPY t () FROM stdin", "COPY t (id, s, b, n) TO stdout",
	"CREATE TABLE IF NOT EXISTS u (k INTEGER AUTO_INCREMENT, v VARCHAR[16], PRIMARY KEY k)", "INSERT INTO u (v) VALUES ('a')",
	"\\d t", "\\dt", "\\l",
}

type pgGen struct {
	r      *rand.Rand
	nextID int64
	// statements prepared by the current session through well-formed Parse messages: name -> number of parameters
	prepared map[string]int
}

func (g *pgGen) id() int64 { g.nextID++; return g.nextID }

func (g *pgGen) sql() string {
	q := sqlPool[g.r.IntN(len(sqlPool))]
	if strings.Contains(q, "%d") {
		q = fmt.Sprintf(q, g.id()%50+1)
	}
	switch g.r.IntN(12) {
	case 0:
		q = strings.ToLower(q)
	case 1:
		q += ";"
	case 2:
		q = "  " + q + " \n"
	case 3:
		b := []byte(q)
		if len(b) > 0 {
			b[g.r.IntN(len(b))] = byte(g.r.IntN(256))
		}
		q = string(b)
	}
	return q
}

func (g *pgGen) name() string {
	return []string{"", "", "s1", "s2", "p1", "ünï", strings.Repeat("n", 300)}[g.r.IntN(7)]
}

// a parameter value in text or binary form
func (g *pgGen) param() []byte {
	switch g.r.IntN(8) {
	case 0:
		return nil // NULL (length -1)
	case 1:
		return []byte{}
	case 2:
		return []byte(fmt.Sprint(g.r.IntN(60)))
	case 3:
		return []byte("true")
	case 4:
		b := make([]byte, 8)
		binary.BigEndian.PutUint64(b, g.r.Uint64())
		return b
	case 5:
		return []byte("q'\\x")
	case 6:
		b := make([]byte, g.r.IntN(5))
		for i := range b {
			b[i] = byte(g.r.IntN(256))
		}
		return b
	}
	return []byte("abc")
}

// counts and lengths worth trying in place of the true one
func (g *pgGen) hostileInt(trueV int) int {
	vals := []int{0, 1, -1, trueV + 1, trueV - 1, trueV * 2, 0x7fff, 0x8000, 0xffff, 0x7fffffff, -2, 255, 256}
	return vals[g.r.IntN(len(vals))]
}

// body builds the payload of one message kind; alter != 0 asks for one field-aimed alteration.
func (g *pgGen) body(kind byte, alter bool) (payload []byte, class string) {
	r := g.r
	pick := func(n int) int { // which field to alter (−1: none)
		if !alter {
			return -1
		}
		return r.IntN(n)
	}
	switch kind {
	case 'Q':
		q := g.sql()
		switch pick(3) {
		case 0:
			return []byte(q), "Q:no-terminator"
		case 1:
			return cat(cstr(q), []byte("trailing")), "Q:bytes-after-terminator"
		case 2:
			return cat([]byte(q), []byte{0}, cstr(g.sql())), "Q:inner-nul"
		}
		return cstr(q), ""
	case 'P':
		q := g.sql()
		np := strings.Count(q, "$")
		oids := func(n int) []byte {
			var b []byte
			for i := 0; i < n; i++ {
				b = append(b, i32([]int{0, 20, 25, 16, 701, 1114, 17, 99999}[r.IntN(8)])...)
			}
			return b
		}
		switch pick(5) {
		case 0:
			return cat(cstr(g.name()), cstr(q), i16(g.hostileInt(np))), "P:param-count-without-oids"
		case 1:
			return cat(cstr(g.name()), cstr(q), i16(g.hostileInt(np)), oids(np)), "P:param-count-differs"
		case 2:
			return cat(cstr(g.name()), []byte(q)), "P:query-unterminated"
		case 3:
			return cat(cstr(g.name()), cstr(q)), "P:no-count"
		case 4:
			return cat(cstr(g.name()), cstr(q), i16(np), oids(np)[:np*4/2]), "P:oids-truncated"
		}
		name := g.name()
		if g.prepared != nil {
			g.prepared[name] = np
		}
		return cat(cstr(name), cstr(q), i16(np), oids(np)), ""
	case 'B':
		nf, np, nr := r.IntN(3), r.IntN(5), r.IntN(3)
		var fmts, params, rfmts []byte
		for i := 0; i < nf; i++ {
			fmts = append(fmts, i16(r.IntN(2))...)
		}
		for i := 0; i < np; i++ {
			p := g.param()
			if p == nil {
				params = append(params, i32(-1)...)
			} else {
				params = append(params, cat(i32(len(p)), p)...)
			}
		}
		for i := 0; i < nr; i++ {
			rfmts = append(rfmts, i16(r.IntN(2))...)
		}
		portal, stmt := g.name(), g.name()
		// one Bind in four aims at a statement this session prepared, with fewer values than it has parameters
		if r.IntN(4) == 0 {
			var names []string
			for name, want := range g.prepared {
				if want > 0 {
					names = append(names, name)
				}
			}
			sort.Strings(names)
			if len(names) > 0 {
				name := names[r.IntN(len(names))]
				want := g.prepared[name]
				{
					stmt, np, params = name, r.IntN(want), nil
					for i := 0; i < np; i++ {
						p := g.param()
						if p == nil {
							params = append(params, i32(-1)...)
						} else {
							params = append(params, cat(i32(len(p)), p)...)
						}
					}
					return cat(cstr(portal), cstr(stmt), i16(nf), fmts, i16(np), params, i16(nr), rfmts), "B:fewer-values-than-parameters"
				}
			}
		}
		switch pick(8) {
		case 0:
			return cat(cstr(portal), cstr(stmt), i16(g.hostileInt(nf)), fmts, i16(np), params, i16(nr), rfmts), "B:format-count"
		case 1:
			return cat(cstr(portal), cstr(stmt), i16(nf), fmts, i16(g.hostileInt(np)), params, i16(nr), rfmts), "B:param-count"
		case 2:
			return cat(cstr(portal), cstr(stmt), i16(nf), fmts, i16(np), params, i16(g.hostileInt(nr)), rfmts), "B:result-format-count"
		case 3:
			p := g.param()
			return cat(cstr(portal), cstr(stmt), i16(0), i16(1), i32(g.hostileInt(len(p))), p, i16(0)), "B:param-length"
		case 4:
			full := cat(cstr(portal), cstr(stmt), i16(nf), fmts, i16(np), params, i16(nr), rfmts)
			return full[:r.IntN(len(full)+1)], "B:truncated"
		case 5:
			return cat([]byte(portal), []byte(stmt), i16(nf), fmts, i16(np), params, i16(nr), rfmts), "B:names-unterminated"
		case 6:
			return cat(cstr(portal), cstr(stmt), i16(1), i16(g.hostileInt(1)), i16(np), params, i16(nr), rfmts), "B:format-code"
		case 7:
			return cat(cstr(portal), cstr(stmt), i16(nf), fmts, i16(np), params), "B:no-result-formats"
		}
		return cat(cstr(portal), cstr(stmt), i16(nf), fmts, i16(np), params, i16(nr), rfmts), ""
	case 'D', 'C':
		what := []byte{'S', 'P'}[r.IntN(2)]
		switch pick(3) {
		case 0:
			return []byte{byte(r.IntN(256))}, string(kind) + ":kind-only"
		case 1:
			return cat([]byte{byte(r.IntN(256))}, cstr(g.name())), string(kind) + ":kind-byte"
		case 2:
			return cat([]byte{what}, []byte(g.name()+"x")), string(kind) + ":name-unterminated"
		}
		return cat([]byte{what}, cstr(g.name())), ""
	case 'E':
		switch pick(3) {
		case 0:
			return cstr(g.name()), "E:no-row-limit"
		case 1:
			return cat(cstr(g.name()), i32(g.hostileInt(1))), "E:row-limit"
		case 2:
			return cat([]byte(g.name()+"x"), i32(0)), "E:name-unterminated"
		}
		return cat(cstr(g.name()), i32(r.IntN(3))), ""
	case 'S', 'H', 'X', 'c':
		if alter {
			b := make([]byte, 1+r.IntN(6))
			return b, string(kind) + ":unexpected-payload"
		}
		return nil, ""
	case 'f':
		switch pick(2) {
		case 0:
			return []byte("reason without terminator"), "f:unterminated"
		case 1:
			return nil, "f:empty"
		}
		return cstr("stop"), ""
	case 'p':
		if alter {
			return []byte(pgPw), "p:unterminated"
		}
		return cstr(pgPw), ""
	case 'd':
		return g.copyData(nil, alter)
	}
	b := make([]byte, r.IntN(9))
	for i := range b {
		b[i] = byte(r.IntN(256))
	}
	return b, "unknown-type"
}

// copy field contents: what pg_dump writes, and what it never writes
var copyFields = []string{
	"1", "7", "abc", "", "\\N", "true", "f", "t", "2021-01-02 03:04:05", "2021-01-02 03:04:05+00", "a\\tb", "a\\\\b", "a\\nb",
	"\\", "a\\", "\\\\\\", "\\.", "x\\.", "\\x", "\\x4", "\\x41", "\\101", "\\8", "\\q", "'", "''", "a'b", "NULL", "null",
	"\x00", "\xff\xfe", "é", strings.Repeat("z", 70), "-9223372036854775808", "9223372036854775808", "1e3", " 5 ", "\r",
}

// copyData: one CopyData payload; ids (when not nil) receives the integers placed in the first field.
func (g *pgGen) copyData(ids *[]int64, hostile bool) ([]byte, string) {
	r := g.r
	var b []byte
	class := "d:rows"
	nrows := 1 + r.IntN(3)
	for i := 0; i < nrows; i++ {
		id := g.id() + 1000000
		if ids != nil {
			*ids = append(*ids, id)
		}
		nf := 4
		if hostile && r.IntN(4) == 0 {
			nf = r.IntN(7)
			class = "d:field-count"
		}
		fields := make([]string, 0, nf)
		for k := 0; k < nf; k++ {
			switch {
			case k == 0:
				fields = append(fields, fmt.Sprint(id))
			case hostile || r.IntN(3) == 0:
				fields = append(fields, copyFields[r.IntN(len(copyFields))])
				if hostile {
					class = "d:hostile-field"
				}
			case k == 1:
				fields = append(fields, "row")
			case k == 2:
				fields = append(fields, "t")
			default:
				fields = append(fields, "5")
			}
		}
		b = append(b, strings.Join(fields, "\t")...)
		b = append(b, '\n')
	}
	if hostile {
		switch r.IntN(6) {
		case 0:
			b = b[:len(b)-1]
			class += "+no-final-newline"
		case 1:
			b = b[:r.IntN(len(b))]
			class += "+cut-anywhere"
		case 2:
			b = append(b, "\\.\n"...)
			class += "+terminator-line"
		case 3:
			b = append([]byte("\r\n\n"), b...)
			class += "+blank-lines"
		}
	}
	return b, class
}

// mangle alters the frame itself (type byte, length field, truncation).
func (g *pgGen) mangle(t byte, payload []byte) ([]byte, string) {
	r := g.r
	fr := frame(t, payload)
	switch r.IntN(7) {
	case 0:
		binary.BigEndian.PutUint32(fr[1:], uint32([]int{0, 1, 2, 3}[r.IntN(4)]))
		return fr, "frame:length-below-4"
	case 1:
		binary.BigEndian.PutUint32(fr[1:], uint32(4+len(payload)+1+r.IntN(64)))
		return fr, "frame:length-beyond-bytes-sent"
	case 2:
		if len(payload) > 0 {
			binary.BigEndian.PutUint32(fr[1:], uint32(4+r.IntN(len(payload))))
		}
		return fr, "frame:length-inside-payload"
	case 3:
		binary.BigEndian.PutUint32(fr[1:], []uint32{0x7fffffff, 0x80000000, 0xffffffff, 32<<20 + 4, 32<<20 + 5, 0x02000004}[r.IntN(6)])
		return fr, "frame:huge-length"
	case 4:
		return fr[:1+r.IntN(4)], "frame:cut-in-header"
	case 5:
		fr[0] = byte(r.IntN(256))
		return fr, "frame:type-byte"
	}
	return fr[:5+r.IntN(len(payload)+1)], "frame:cut-in-payload"
}

// ---- client side of one connection ----

type pgConn struct {
	c    net.Conn
	sent int
}

func (p *pgConn) send(b []byte) error {
	p.c.SetWriteDeadline(time.Now().Add(20 * time.Second))
	n, err := p.c.Write(b)
	p.sent += n
	return err
}

// readUntil reads backend messages until one of the types in stop arrives, the peer closes, or the
// pacing interval ends. It returns the types seen and how reading ended ("stop:<t>", "closed", "quiet").
// The interval paces the harness only; nothing is decided from it.
func (p *pgConn) readUntil(stop string, pace time.Duration) (string, string) {
	var seen []byte
	hdr := make([]byte, 5)
	for {
		p.c.SetReadDeadline(time.Now().Add(pace))
		if _, err := io.ReadFull(p.c, hdr); err != nil {
			if ne, ok := err.(net.Error); ok && ne.Timeout() {
				return string(seen), "quiet"
			}
			return string(seen), "closed"
		}
		n := int(binary.BigEndian.Uint32(hdr[1:])) - 4
		if n < 0 || n > 64<<20 {
			return string(seen), "closed"
		}
		p.c.SetReadDeadline(time.Now().Add(20 * time.Second))
		if _, err := io.CopyN(io.Discard, p.c, int64(n)); err != nil {
			return string(seen), "closed"
		}
		seen = append(seen, hdr[0])
		if strings.IndexByte(stop, hdr[0]) >= 0 {
			return string(seen), "stop:" + string(hdr[0])
		}
	}
}

func pgDial(port int) (*pgConn, error) {
	c, err := net.DialTimeout("tcp", fmt.Sprintf("127.0.0.1:%d", port), 20*time.Second)
	if err != nil {
		return nil, err
	}
	return &pgConn{c: c}, nil
}

// login performs the honest start-up; ok means ReadyForQuery was received.
func (p *pgConn) login() bool {
	if p.send(startupMsg(pgUser, "defaultdb")) != nil {
		return false
	}
	if _, how := p.readUntil("RE", 20*time.Second); how != "stop:R" {
		return false
	}
	if p.send(frame('p', cstr(pgPw))) != nil {
		return false
	}
	_, how := p.readUntil("ZE", 20*time.Second)
	return how == "stop:Z"
}

// ---- the case ----

func pgsessCase(c *fw.Ctx, data []byte) {
	var sp pgsessSpec
	json.Unmarshal(data, &sp)
	dir := c.Dir("srv")
	e, err := startPgEnv(dir)
	if err != nil {
		c.Inconclusive("pgsession: server did not start: " + err.Error())
		return
	}
	defer e.stop()
	if err := e.exec("CREATE TABLE t (id INTEGER, s VARCHAR[128], b BOOLEAN, n INTEGER, PRIMARY KEY id)"); err != nil {
		c.Inconclusive("pgsession: create table: " + err.Error())
		return
	}
	for i := 1; i <= 6; i++ {
		e.exec(fmt.Sprintf("INSERT INTO t (id, s, b, n) VALUES (%d, 's%d', true, %d)", i, i, i))
	}
	g := &pgGen{r: c.Rand(fmt.Sprintf("c16/pgsession/%d", sp.Index))}
	var neverDone []int64 // ids sent inside COPYs that were never completed
	kinds := []byte("QQQQPBDESHCXdcfp?")

	for sn := 0; sn < sp.Sessions; sn++ {
		startupVariant := g.r.IntN(10)
		g.prepared = map[string]int{}
		p, err := pgDial(e.pgPort)
		if err != nil {
			c.Inconclusive(fmt.Sprintf("pgsession case %d: cannot connect: %v", sp.Index, err))
			return
		}
		a0 := totalAlloc()
		var trace []string
		note := func(class, how string) {
			c.Eval(1)
			c.Distinct("pgsession|" + class + "|" + how)
			trace = append(trace, class+"→"+how)
		}
		loggedIn := false
		switch {
		case startupVariant >= 3:
			loggedIn = p.login()
			note("startup:honest", fmt.Sprint(loggedIn))
		case startupVariant == 0: // SSL request first, then honest
			p.send(cat(i32(8), i32(80877103)))
			one := make([]byte, 1)
			p.c.SetReadDeadline(time.Now().Add(20 * time.Second))
			io.ReadFull(p.c, one)
			loggedIn = p.login()
			note("startup:after-ssl-request", fmt.Sprint(loggedIn))
		case startupVariant == 1: // altered start-up packet
			su := startupMsg(pgUser, "defaultdb")
			var class string
			switch g.r.IntN(7) {
			case 0:
				binary.BigEndian.PutUint32(su, uint32(g.hostileInt(len(su))))
				class = "startup:length"
			case 1:
				su = su[:g.r.IntN(len(su))]
				class = "startup:truncated"
			case 2:
				binary.BigEndian.PutUint32(su[4:], []uint32{0, 196607, 196609, 80877102, 80877103, 80877104, 0xffffffff}[g.r.IntN(7)])
				class = "startup:protocol-version"
			case 3:
				su = startupMsg(pgUser, "defaultdb", "options")
				class = "startup:key-without-value"
			case 4:
				su = cat(i32(8), i32(196608))
				class = "startup:no-parameters"
			case 5:
				su = startupMsg("nobody", "nosuchdb")
				class = "startup:unknown-user-and-db"
			case 6:
				su = su[:len(su)-1]
				binary.BigEndian.PutUint32(su, uint32(len(su)))
				class = "startup:no-final-terminator"
			}
			p.send(su)
			_, how := p.readUntil("RE", 300*time.Millisecond)
			if how == "stop:R" { // the server asks for the password: answer with a message of the generator
				pl, cl := g.body('p', g.r.IntN(2) == 0)
				p.send(frame('p', pl))
				_, how2 := p.readUntil("ZE", 300*time.Millisecond)
				note(class+"/"+cl, how2)
				loggedIn = how2 == "stop:Z"
			} else {
				note(class, how)
			}
		case startupVariant == 2: // wrong password / password message altered
			p.send(startupMsg(pgUser, "defaultdb"))
			p.readUntil("RE", 20*time.Second)
			fr, class := g.mangle('p', cstr([]string{pgPw, "wrong", ""}[g.r.IntN(3)]))
			p.send(fr)
			_, how := p.readUntil("ZE", 300*time.Millisecond)
			note("password/"+class, how)
			loggedIn = how == "stop:Z"
		}

		// ids placed in CopyData rows by this session. They are judged (must never be in the table) only if
		// the session never sent a frame of type 'c' and never broke the framing: then the server cannot
		// have seen a CopyDone, whatever the timing of its answers was.
		inCopy := false
		var copyIDs []int64
		judged := true
		nmsgs := 1 + g.r.IntN(12)
		for m := 0; m < nmsgs; m++ {
			if loggedIn && !inCopy && g.r.IntN(8) == 0 {
				// a well-formed Parse of a statement with parameters, then a Bind to it with fewer, as many or more
				// values than it has parameters (and NULLs among them), Execute, Sync
				q := []string{"SELECT id FROM t WHERE id = $1", "SELECT id, s FROM t WHERE s = $1 AND n < $2", "INSERT INTO t (id, s, b, n) VALUES ($1, $2, $3, $4)", "UPDATE t SET n = $1 WHERE id = $2"}[g.r.IntN(4)]
				np := strings.Count(q, "$")
				name := fmt.Sprintf("ps%d", m)
				nv := g.r.IntN(np + 2)
				var vals []byte
				for i := 0; i < nv; i++ {
					if pv := g.param(); pv == nil {
						vals = append(vals, i32(-1)...)
					} else {
						vals = append(vals, cat(i32(len(pv)), pv)...)
					}
				}
				p.send(frame('P', cat(cstr(name), cstr(q), i16(0))))
				p.send(frame('B', cat(cstr(""), cstr(name), i16(0), i16(nv), vals, i16(0))))
				p.send(frame('E', cat(cstr(""), i32(0))))
				if err := p.send(frame('S', nil)); err != nil {
					note("scripted:parse-bind-execute-sync", "send-failed")
					break
				}
				_, how := p.readUntil("Z", 250*time.Millisecond)
				note(fmt.Sprintf("scripted:parse-bind-execute-sync/values%+d", nv-np), how)
				if how == "closed" {
					break
				}
				continue
			}
			kind := kinds[g.r.IntN(len(kinds))]
			if inCopy && g.r.IntN(10) < 8 {
				kind = []byte("dddddcf")[g.r.IntN(7)]
			}
			var payload []byte
			var class string
			if kind == 'Q' && !inCopy && g.r.IntN(4) == 0 { // enter the COPY sub-protocol
				payload = cstr("COPY t (id, s, b, n) FROM stdin")
			} else if kind == 'd' {
				payload, class = g.copyData(&copyIDs, g.r.IntN(2) == 0)
			} else {
				payload, class = g.body(kind, g.r.IntN(3) == 0)
			}
			t := kind
			if kind == '?' {
				t = byte(g.r.IntN(256))
			}
			fr := frame(t, payload)
			if g.r.IntN(8) == 0 {
				var fc string
				fr, fc = g.mangle(t, payload)
				class = strings.TrimPrefix(class+"+"+fc, "+")
				judged = false
			}
			if len(fr) > 0 && fr[0] == 'c' {
				judged = false
			}
			if class == "" {
				class = "valid"
			}
			label := fmt.Sprintf("%c:%s", kind, class)
			if inCopy {
				label = "in-copy/" + label
			}
			if !loggedIn {
				label = "not-logged-in/" + label
			}
			if err := p.send(fr); err != nil {
				note(label, "send-failed")
				break
			}
			// messages that make an honest server answer at once are waited for; the others are pipelined
			pace := 5 * time.Millisecond
			if strings.IndexByte("QSHcf?Xp", kind) >= 0 || strings.Contains(class, "frame:") {
				pace = 250 * time.Millisecond
			}
			seen, how := p.readUntil("ZG", pace)
			if strings.IndexByte(seen, 'G') >= 0 { // CopyInResponse
				inCopy = true
			}
			if inCopy && (strings.IndexByte(seen, 'Z') >= 0 || how == "closed") {
				inCopy = false // as far as the harness can tell (pacing only)
			}
			note(label, how)
			if how == "closed" {
				break
			}
		}
		if inCopy {
			note("in-copy/connection-dropped", "closed")
		}
		if judged {
			neverDone = append(neverDone, copyIDs...)
		}
		if g.r.IntN(2) == 0 {
			p.send(frame('X', nil))
		}
		p.c.Close()
		if d := totalAlloc() - a0; d > allocLimit && p.sent < 1<<20 {
			violate(c, "pgsession/alloc-over-256MiB", fmt.Sprintf("case %d session %d: the process allocated %d MiB while the peer sent %d bytes: %s", sp.Index, sn, d>>20, p.sent, strings.Join(trace, " ; ")), nil)
		}
	}

	// the server must still be there for a new peer (a dead process is seen by the parent)
	probe, err := pgDial(e.pgPort)
	if err != nil || !probe.login() {
		c.Inconclusive(fmt.Sprintf("pgsession case %d: a fresh connection was not served after the hostile sessions (no verdict from elapsed time)", sp.Index))
	} else {
		probe.send(frame('Q', cstr("SELECT id FROM t")))
		_, how := probe.readUntil("Z", 20*time.Second)
		c.Eval(1)
		c.Distinct("pgsession|probe|" + how)
		probe.send(frame('X', nil))
	}
	if probe != nil {
		probe.c.Close()
	}
	have, err := e.ids()
	if err != nil {
		c.Inconclusive(fmt.Sprintf("pgsession case %d: cannot read the table back: %v", sp.Index, err))
		return
	}
	c.Eval(1)
	c.Count("pgsession_ids_of_never_completed_copies", int64(len(neverDone)))
	for _, id := range neverDone {
		if have[id] {
			violate(c, "pgsession/row-of-a-copy-that-was-never-completed", fmt.Sprintf("case %d: row %d was sent inside a COPY that ended without CopyDone + CommandComplete (CopyFail, foreign message or dropped connection) and is in the table", sp.Index, id), nil)
			break
		}
	}
	c.Sample(map[string]any{"entry_point": "pgsession", "case": sp.Index, "sessions": sp.Sessions, "rows_in_table_after": len(have), "ids_in_never_completed_copies": len(neverDone)})
}

func runPgSessions(c *fw.Ctx) {
	n := c.N(16, 240)
	cases := make([][]byte, n)
	for i := range cases {
		cases[i], _ = json.Marshal(pgsessSpec{Index: i, Sessions: c.N(40, 120)})
	}
	c.RunIsolated("c16pgsess", cases, fw.CasesOpts{})
}
