package c16

import (
	"crypto/sha256"
	"errors"
	"math"
	"math/rand/v2"

	"github.com/codenotary/immudb/embedded/store"
	"github.com/codenotary/immudb/pkg/api/schema"
	"google.golang.org/protobuf/proto"
	"google.golang.org/protobuf/reflect/protoreflect"
)

var protoTypes = map[string]func() proto.Message{
	"schema.TxFromProto":                 func() proto.Message { return &schema.Tx{} },
	"schema.TxHeaderFromProto":           func() proto.Message { return &schema.TxHeader{} },
	"schema.DualProofFromProto":          func() proto.Message { return &schema.DualProof{} },
	"schema.DualProofV2FromProto":        func() proto.Message { return &schema.DualProofV2{} },
	"schema.LinearProofFromProto":        func() proto.Message { return &schema.LinearProof{} },
	"schema.LinearAdvanceProofFromProto": func() proto.Message { return &schema.LinearAdvanceProof{} },
	"schema.InclusionProofFromProto":     func() proto.Message { return &schema.InclusionProof{} },
	"schema.KVMetadataFromProto":         func() proto.Message { return &schema.KVMetadata{} },
	"schema.TxMetadataFromProto":         func() proto.Message { return &schema.TxMetadata{} },
}

var errRejected = errors.New("verification rejected")

func registerProtoDrivers() {
	un := func(ep string, in []byte) (proto.Message, error) {
		m := protoTypes[ep]()
		if err := proto.Unmarshal(in, m); err != nil {
			return nil, errors.New("proto: cannot parse")
		}
		return m, nil
	}
	drivers["schema.TxHeaderFromProto"] = func(in []byte, _ *rand.Rand) error {
		m, err := un("schema.TxHeaderFromProto", in)
		if err != nil {
			return err
		}
		h := schema.TxHeaderFromProto(m.(*schema.TxHeader))
		if h != nil {
			h.Alh()
			_, err = h.Bytes()
		}
		return err
	}
	drivers["schema.TxFromProto"] = func(in []byte, _ *rand.Rand) error {
		m, err := un("schema.TxFromProto", in)
		if err != nil {
			return err
		}
		tx := schema.TxFromProto(m.(*schema.Tx))
		if tx == nil {
			return errRejected
		}
		// what the client does with a received transaction
		hdr := tx.Header()
		hdr.Alh()
		for _, e := range tx.Entries() {
			ip, err := tx.Proof(e.Key())
			if err != nil {
				return err
			}
			d, err := store.TxEntryDigest_v1_2(e)
			if err != nil {
				return err
			}
			if !store.VerifyInclusion(ip, d, hdr.Eh) {
				return errRejected
			}
		}
		return nil
	}
	drivers["schema.DualProofFromProto"] = func(in []byte, _ *rand.Rand) error {
		m, err := un("schema.DualProofFromProto", in)
		if err != nil {
			return err
		}
		dp := schema.DualProofFromProto(m.(*schema.DualProof))
		var sID, tID uint64
		var sAlh, tAlh [sha256.Size]byte
		if dp != nil && dp.SourceTxHeader != nil {
			sID, sAlh = dp.SourceTxHeader.ID, dp.SourceTxHeader.Alh()
		}
		if dp != nil && dp.TargetTxHeader != nil {
			tID, tAlh = dp.TargetTxHeader.ID, dp.TargetTxHeader.Alh()
		}
		if !store.VerifyDualProof(dp, sID, tID, sAlh, tAlh) {
			return errRejected
		}
		return nil
	}
	drivers["schema.DualProofV2FromProto"] = func(in []byte, _ *rand.Rand) error {
		m, err := un("schema.DualProofV2FromProto", in)
		if err != nil {
			return err
		}
		dp := schema.DualProofV2FromProto(m.(*schema.DualProofV2))
		var sID, tID uint64
		var sAlh, tAlh [sha256.Size]byte
		if dp != nil && dp.SourceTxHeader != nil {
			sID, sAlh = dp.SourceTxHeader.ID, dp.SourceTxHeader.Alh()
		}
		if dp != nil && dp.TargetTxHeader != nil {
			tID, tAlh = dp.TargetTxHeader.ID, dp.TargetTxHeader.Alh()
		}
		return store.VerifyDualProofV2(dp, sID, tID, sAlh, tAlh)
	}
	drivers["schema.LinearProofFromProto"] = func(in []byte, _ *rand.Rand) error {
		m, err := un("schema.LinearProofFromProto", in)
		if err != nil {
			return err
		}
		lp := schema.LinearProofFromProto(m.(*schema.LinearProof))
		var sAlh, tAlh [sha256.Size]byte
		var s, t uint64
		if lp != nil {
			s, t = lp.SourceTxID, lp.TargetTxID
			if len(lp.Terms) > 0 {
				sAlh = lp.Terms[0]
			}
		}
		if !store.VerifyLinearProof(lp, s, t, sAlh, tAlh) {
			return errRejected
		}
		return nil
	}
	drivers["schema.LinearAdvanceProofFromProto"] = func(in []byte, r *rand.Rand) error {
		m, err := un("schema.LinearAdvanceProofFromProto", in)
		if err != nil {
			return err
		}
		p := schema.LinearAdvanceProofFromProto(m.(*schema.LinearAdvanceProof))
		start := uint64(1 + r.IntN(3))
		end := start
		if p != nil {
			end = start + uint64(len(p.LinearProofTerms))
		}
		if r.IntN(4) == 0 {
			end = start + uint64(r.IntN(6))
		}
		var alh, root [sha256.Size]byte
		if !store.VerifyLinearAdvanceProof(p, start, end, alh, root, end+uint64(r.IntN(3))) {
			return errRejected
		}
		return nil
	}
	drivers["schema.InclusionProofFromProto"] = func(in []byte, _ *rand.Rand) error {
		m, err := un("schema.InclusionProofFromProto", in)
		if err != nil {
			return err
		}
		ip := schema.InclusionProofFromProto(m.(*schema.InclusionProof))
		var d, root [sha256.Size]byte
		if !store.VerifyInclusion(ip, d, root) {
			return errRejected
		}
		return nil
	}
	drivers["schema.KVMetadataFromProto"] = func(in []byte, _ *rand.Rand) error {
		m, err := un("schema.KVMetadataFromProto", in)
		if err != nil {
			return err
		}
		md := schema.KVMetadataFromProto(m.(*schema.KVMetadata))
		if md != nil {
			md.Bytes()
			md.Deleted()
			md.ExpirationTime()
		}
		return nil
	}
	drivers["schema.TxMetadataFromProto"] = func(in []byte, _ *rand.Rand) error {
		m, err := un("schema.TxMetadataFromProto", in)
		if err != nil {
			return err
		}
		md := schema.TxMetadataFromProto(m.(*schema.TxMetadata))
		if md != nil {
			b := md.Bytes()
			return store.NewTxMetadata().ReadFrom(b)
		}
		return nil
	}
	drivers["schema.DigestFromProto"] = func(in []byte, _ *rand.Rand) error {
		schema.DigestFromProto(in)
		schema.DigestsFromProto([][]byte{in, nil, in})
		return nil
	}
}

// ---- object-level mutation of proto messages (nil sub-messages, short digests, huge counts)

type pSite struct {
	m    protoreflect.Message
	fd   protoreflect.FieldDescriptor
	name string
}

func walkProto(m protoreflect.Message, visit func(pSite)) {
	fds := m.Descriptor().Fields()
	for i := 0; i < fds.Len(); i++ {
		fd := fds.Get(i)
		if fd.IsMap() {
			continue
		}
		visit(pSite{m, fd, string(fd.Name())})
		if fd.Kind() == protoreflect.MessageKind {
			if fd.IsList() {
				l := m.Get(fd).List()
				for j := 0; j < l.Len() && j < 4; j++ {
					walkProto(l.Get(j).Message(), visit)
				}
			} else if m.Has(fd) {
				walkProto(m.Get(fd).Message(), visit)
			}
		}
	}
}

type pOp struct {
	label string
	apply func(s pSite)
}

func intOps(set func(s pSite, v int64, u uint64)) []pOp {
	mk := func(label string, v int64, u uint64) pOp {
		return pOp{"=" + label, func(s pSite) { set(s, v, u) }}
	}
	return []pOp{mk("0", 0, 0), mk("1", 1, 1), mk("2", 2, 2), mk("max", math.MaxInt64, math.MaxUint64), mk("min", math.MinInt64, 1<<63), mk("neg1", -1, math.MaxUint64-1), mk("big", 1<<31-1, 1<<32), mk("1M", 1<<20, 1<<20)}
}

func opsFor(s pSite) []pOp {
	fd := s.fd
	var ops []pOp
	if fd.IsList() {
		ops = append(ops,
			pOp{":clear", func(s pSite) { s.m.Clear(s.fd) }},
			pOp{":drop-last", func(s pSite) {
				l := s.m.Mutable(s.fd).List()
				if l.Len() > 0 {
					l.Truncate(l.Len() - 1)
				}
			}},
			pOp{":dup-last", func(s pSite) {
				l := s.m.Mutable(s.fd).List()
				if l.Len() > 0 {
					l.Append(cloneVal(s.fd, l.Get(l.Len()-1)))
				}
			}},
			pOp{":append-empty", func(s pSite) {
				l := s.m.Mutable(s.fd).List()
				l.Append(l.NewElement())
			}},
			pOp{":x1000", func(s pSite) {
				l := s.m.Mutable(s.fd).List()
				var e protoreflect.Value
				if l.Len() > 0 {
					e = l.Get(0)
				} else {
					e = l.NewElement()
				}
				// many elements, but the message stays far below the 32 MiB a peer can send
				n := 1000
				if sz := valSize(s.fd, e); sz*n > 1<<20 {
					n = 1 + (1<<20)/sz
				}
				if l.Len() > 2000 {
					n = 0
				}
				for i := 0; i < n; i++ {
					l.Append(cloneVal(s.fd, e))
				}
			}},
		)
		if fd.Kind() == protoreflect.BytesKind {
			for _, n := range []int{0, 1, 31, 33} {
				n := n
				ops = append(ops, pOp{":first-len" + itoa(n), func(s pSite) {
					l := s.m.Mutable(s.fd).List()
					if l.Len() > 0 {
						l.Set(0, protoreflect.ValueOfBytes(val(n, 0xab)))
					}
				}})
			}
		}
		return ops
	}
	switch fd.Kind() {
	case protoreflect.MessageKind:
		ops = append(ops,
			pOp{":nil", func(s pSite) { s.m.Clear(s.fd) }},
			pOp{":empty", func(s pSite) { s.m.Set(s.fd, protoreflect.ValueOfMessage(s.m.NewField(s.fd).Message())) }},
		)
	case protoreflect.BytesKind:
		for _, n := range []int{0, 1, 31, 33, 64, 300} {
			n := n
			ops = append(ops, pOp{"=len" + itoa(n), func(s pSite) { s.m.Set(s.fd, protoreflect.ValueOfBytes(val(n, 0xcd))) }})
		}
	case protoreflect.Uint64Kind, protoreflect.Fixed64Kind:
		ops = intOps(func(s pSite, v int64, u uint64) { s.m.Set(s.fd, protoreflect.ValueOfUint64(u)) })
		ops = append(ops, pOp{"+1", func(s pSite) { s.m.Set(s.fd, protoreflect.ValueOfUint64(s.m.Get(s.fd).Uint()+1)) }},
			pOp{"-1", func(s pSite) { s.m.Set(s.fd, protoreflect.ValueOfUint64(s.m.Get(s.fd).Uint()-1)) }})
	case protoreflect.Uint32Kind, protoreflect.Fixed32Kind:
		ops = intOps(func(s pSite, v int64, u uint64) { s.m.Set(s.fd, protoreflect.ValueOfUint32(uint32(u))) })
	case protoreflect.Int64Kind, protoreflect.Sint64Kind, protoreflect.Sfixed64Kind:
		ops = intOps(func(s pSite, v int64, u uint64) { s.m.Set(s.fd, protoreflect.ValueOfInt64(v)) })
	case protoreflect.Int32Kind, protoreflect.Sint32Kind, protoreflect.Sfixed32Kind:
		ops = intOps(func(s pSite, v int64, u uint64) {
			x := int32(v)
			if v == math.MaxInt64 {
				x = math.MaxInt32
			} else if v == math.MinInt64 {
				x = math.MinInt32
			}
			s.m.Set(s.fd, protoreflect.ValueOfInt32(x))
		})
		ops = append(ops, pOp{"+1", func(s pSite) { s.m.Set(s.fd, protoreflect.ValueOfInt32(int32(s.m.Get(s.fd).Int())+1)) }},
			pOp{"-1", func(s pSite) { s.m.Set(s.fd, protoreflect.ValueOfInt32(int32(s.m.Get(s.fd).Int())-1)) }})
	case protoreflect.BoolKind:
		ops = append(ops, pOp{":flip", func(s pSite) { s.m.Set(s.fd, protoreflect.ValueOfBool(!s.m.Get(s.fd).Bool())) }})
	}
	return ops
}

func itoa(n int) string {
	if n == 0 {
		return "0"
	}
	s := ""
	for n > 0 {
		s = string(rune('0'+n%10)) + s
		n /= 10
	}
	return s
}

func valSize(fd protoreflect.FieldDescriptor, v protoreflect.Value) int {
	switch fd.Kind() {
	case protoreflect.MessageKind:
		return 8 + proto.Size(v.Message().Interface())
	case protoreflect.BytesKind:
		return 8 + len(v.Bytes())
	}
	return 8
}

func cloneVal(fd protoreflect.FieldDescriptor, v protoreflect.Value) protoreflect.Value {
	switch fd.Kind() {
	case protoreflect.MessageKind:
		return protoreflect.ValueOfMessage(proto.Clone(v.Message().Interface()).ProtoReflect())
	case protoreflect.BytesKind:
		return protoreflect.ValueOfBytes(clone(v.Bytes()))
	}
	return v
}

// protoSystematic enumerates (site × op) over the message tree of one seed.
func protoSystematic(ep string, s *seedInput) []mutation {
	mk := protoTypes[ep]
	if mk == nil {
		return nil
	}
	base := mk()
	if err := proto.Unmarshal(s.B, base); err != nil {
		return nil
	}
	var out []mutation
	si := 0
	walkProto(base.ProtoReflect(), func(site pSite) {
		idx := si
		si++
		for oi, op := range opsFor(site) {
			oi := oi
			out = append(out, mutation{"msg:" + site.name + op.label, func() []byte {
				m := proto.Clone(base)
				k := 0
				walkProtoStop(m.ProtoReflect(), func(st pSite) bool {
					if k == idx {
						opsFor(st)[oi].apply(st)
						return true
					}
					k++
					return false
				})
				return mustMarshal(m)
			}})
		}
	})
	return out
}

// walkProtoStop is walkProto with early termination (the tree changes after an op).
func walkProtoStop(m protoreflect.Message, visit func(pSite) bool) bool {
	fds := m.Descriptor().Fields()
	for i := 0; i < fds.Len(); i++ {
		fd := fds.Get(i)
		if fd.IsMap() {
			continue
		}
		if visit(pSite{m, fd, string(fd.Name())}) {
			return true
		}
		if fd.Kind() == protoreflect.MessageKind {
			if fd.IsList() {
				l := m.Get(fd).List()
				for j := 0; j < l.Len() && j < 4; j++ {
					if walkProtoStop(l.Get(j).Message(), visit) {
						return true
					}
				}
			} else if m.Has(fd) {
				if walkProtoStop(m.Get(fd).Message(), visit) {
					return true
				}
			}
		}
	}
	return false
}

// protoRandom applies 1-3 PRNG-chosen object-level operations.
func protoRandom(ep string, corpus []seedInput, r *rand.Rand) (string, []byte, bool) {
	mk := protoTypes[ep]
	if mk == nil || len(corpus) == 0 || r.IntN(4) == 0 {
		return "", nil, false
	}
	m := mk()
	if err := proto.Unmarshal(corpus[r.IntN(len(corpus))].B, m); err != nil {
		return "", nil, false
	}
	n := 1 + r.IntN(3)
	for k := 0; k < n; k++ {
		var sites []pSite
		walkProto(m.ProtoReflect(), func(s pSite) { sites = append(sites, s) })
		if len(sites) == 0 {
			break
		}
		s := sites[r.IntN(len(sites))]
		ops := opsFor(s)
		if len(ops) == 0 {
			continue
		}
		ops[r.IntN(len(ops))].apply(s)
	}
	return "msg:rand-stack", mustMarshal(m), true
}
