// Package c12: monitor for property C12 (see DESIGN.md section 2).
package c12
