// Package c12: SQL integrity constraints hold in every reachable state.
//
// 1–8 concurrent sessions on one embedded sql.Engine run PRNG DDL/DML, as
// autocommit statements and as multi-statement transactions, with statements
// deliberately aimed at every declared constraint. Every inserted row carries a
// unique tag. Oracles: (i) state invariants read through the primary index in a
// read-only tx, during the concurrent phases and at quiescent points (primary /
// unique keys distinct, NOT NULL, CHECK by query and by a harness evaluator,
// declared lengths and types); (ii) a reference model fed only with the
// statements of committed transactions in commit order (store tx id): its
// verdict on every committed statement (a statement that certainly violates a
// constraint must not have been committed) and, at quiescent points, equality of
// table contents and catalog with the model (nothing of a failed statement, of
// an aborted / rolled back / conflicted transaction is visible; everything of a
// committed one is).
package c12

import (
	"context"
	"encoding/json"
	"errors"
	"fmt"
	"os"
	"sort"
	"strings"
	"sync"
	"sync/atomic"
	"time"

	"github.com/codenotary/immudb/embedded/sql"
	"github.com/codenotary/immudb/embedded/store"

	"verifharness/internal/fw"
	"verifharness/internal/hook"
	"verifharness/internal/sth"
)

func init() {
	fw.RegisterMonitor("C12", "exploration", Run)
	fw.RegisterIsolated("c12-program", runCase)
}

type caseSpec struct {
	Index     int
	Sessions  int
	Phases    int
	TxPerSess int
	Perturb   bool
}

func Run(c *fw.Ctx) {
	c.Rule = "PRNG programs (schema with single/composite/auto-increment keys, unique indexes, NOT NULL, CHECK, VARCHAR[n]/BLOB[n]; 1-8 concurrent sessions × phases of autocommit / implicit / BEGIN..COMMIT / step-by-step transactions; DDL phases and concurrent index creation), one child process per program; an evaluation is one state invariant checked on one table snapshot, one verdict on a committed statement, or one table/catalog comparison with the model of committed transactions; distinct = (constraint aimed at × statement kind × transaction mode × concurrent or solo × observed outcome)"
	c.Assume("a committed transaction is judged against the state produced by the committed transactions with smaller store tx ids (commit order); this is the serialization order promised by the store's read-conflict detection (C05)")
	c.Assume("NULL semantics of unique indexes, the engine's extra rule on explicit auto-increment keys, and a CHECK whose operand is NULL are left to the engine (either outcome accepted)")
	r := c.Rand("c12/programs")
	n := c.N(60, 3000)
	var cases [][]byte
	for i := 0; i < n; i++ {
		sp := caseSpec{Index: i, Sessions: []int{1, 2, 4, 6, 6, 8, 6, 3}[i%8], Phases: 3, TxPerSess: 10 + r.IntN(8), Perturb: i%3 == 1}
		if sp.Sessions == 1 {
			sp.TxPerSess *= 3
		}
		if only := os.Getenv("VERIF_C12_ONLY"); only != "" && only != fmt.Sprint(i) {
			continue // development aid: run a single program
		}
		b, _ := json.Marshal(sp)
		cases = append(cases, b)
	}
	if os.Getenv("VERIF_C12_STAGE") != "typedkeys" { // development aid
		c.RunIsolated("c12-program", cases, fw.CasesOpts{Workers: 14, CaseTimout: 15 * time.Minute})
	}
	if os.Getenv("VERIF_C12_ONLY") == "" {
		runTypedKeys(c)
	}
}

// ---- per-case runtime -------------------------------------------------------

type txResult struct {
	plan     *TxPlan
	phase    int
	conc     bool
	status   string // committed | noop | failed | rolledback | unknown
	hdr      uint64
	failedAt int // index of the failing statement when known, else -1
	errClass string
	errText  string
	first    map[string]int64
	last     map[string]int64
}

type tagInfo struct {
	plan *TxPlan
	stmt int
}

type stateViol struct {
	kind   string // notnull | check | len | type | dup-pk | dup-unique
	key    string // attribution key in Row.Viol
	table  string
	tags   []string
	detail string
}

type runner struct {
	c     *fw.Ctx
	spec  caseSpec
	st    *store.ImmuStore
	eng   *sql.Engine
	prog  *Program
	model *Model

	mu        sync.Mutex
	planRes   map[*TxPlan]*txResult
	pending   []*txResult
	tagOrigin map[string]tagInfo
	seenTags  map[string]struct{}
	stateV    []stateViol
	history   []string
	unknown   int
	tainted   bool
	hdrSeen   map[uint64]*TxPlan
	timeouts  atomic.Int64
}

func errClass(err error) string {
	switch {
	case err == nil:
		return ""
	case errors.Is(err, store.ErrTxReadConflict):
		return "conflict"
	case errors.Is(err, store.ErrKeyAlreadyExists):
		return "dup"
	case errors.Is(err, sql.ErrNotNullableColumnCannotBeNull):
		return "notnull"
	case errors.Is(err, sql.ErrCheckConstraintViolation):
		return "check"
	case errors.Is(err, sql.ErrMaxLengthExceeded):
		return "len"
	case errors.Is(err, sql.ErrPKCanNotBeNull):
		return "pknull"
	case errors.Is(err, sql.ErrPKCanNotBeUpdated):
		return "pkupdate"
	case errors.Is(err, sql.ErrLimitedIndexCreation):
		return "index-on-populated-table"
	case errors.Is(err, sql.ErrNewColumnMustBeNullable):
		return "newcol-notnull"
	case errors.Is(err, sql.ErrCannotDropColumn):
		return "cannot-drop"
	case errors.Is(err, sql.ErrInvalidValue), errors.Is(err, sql.ErrNotComparableValues), errors.Is(err, sql.ErrInvalidTypes):
		return "type-or-value"
	case errors.Is(err, sql.ErrColumnDoesNotExist), errors.Is(err, sql.ErrTableDoesNotExist), errors.Is(err, sql.ErrColumnAlreadyExists), errors.Is(err, sql.ErrIndexAlreadyExists):
		return "schema"
	case errors.Is(err, context.DeadlineExceeded), errors.Is(err, context.Canceled):
		return "timeout"
	}
	return "other"
}

const opTimeout = 60 * time.Second

// exec runs one Exec call. The context belongs to the whole transaction (the store tx keeps the
// context it was opened with), so the caller cancels it only when the transaction is over.
func (rn *runner) exec(ctx context.Context, tx *sql.SQLTx, q string, params map[string]any) (*sql.SQLTx, []*sql.SQLTx, error, bool) {
	ntx, ctxs, err := rn.eng.Exec(ctx, tx, q, params)
	to := ctx.Err() != nil
	if to {
		rn.timeouts.Add(1)
	}
	return ntx, ctxs, err, to
}

// bindRelative replaces the keys given as "<largest live key of the table> + k" by integers, reading the
// largest key right before the transaction starts (what a client would do).
func (rn *runner) bindRelative(p *TxPlan) {
	bases := map[string]int64{}
	for _, s := range p.Stmts {
		for _, row := range s.Rows {
			for j, v := range row {
				if v.K != 'r' {
					continue
				}
				base, ok := bases[s.Table]
				if !ok {
					ctx, cancel := context.WithTimeout(context.Background(), opTimeout)
					if rd, err := rn.eng.Query(ctx, nil, "SELECT id FROM "+s.Table+" ORDER BY id DESC LIMIT 1", nil); err == nil {
						if r, err := rd.Read(ctx); err == nil {
							base = fromTyped(r.ValuesByPosition[0]).I
						}
						rd.Close()
					}
					cancel()
					bases[s.Table] = base
				}
				row[j] = vInt(base + v.I)
			}
		}
	}
}

func (rn *runner) runTx(p *TxPlan, phase int, conc bool) *txResult {
	res := &txResult{plan: p, phase: phase, conc: conc, failedAt: -1}
	if p.Mix {
		rn.bindRelative(p)
	}
	params := map[string]any{}
	var sqls []string
	for i, s := range p.Stmts {
		sqls = append(sqls, s.SQL(fmt.Sprintf("q%d", i), params))
	}
	end := "COMMIT"
	if p.Rollback {
		end = "ROLLBACK"
	}
	var ctxs []*sql.SQLTx
	var err error
	var to bool
	ctx, cancel := context.WithTimeout(context.Background(), opTimeout)
	defer cancel()
	switch p.Mode {
	case "steps":
		var tx *sql.SQLTx
		tx, _, err, to = rn.exec(ctx, nil, "BEGIN TRANSACTION", nil)
		if err == nil && !to {
			for i := range sqls {
				tx, ctxs, err, to = rn.exec(ctx, tx, sqls[i], params)
				if err != nil || to {
					res.failedAt = i
					break
				}
			}
			if err == nil && !to {
				_, ctxs, err, to = rn.exec(ctx, tx, end, nil)
			}
		}
	default:
		q := strings.Join(sqls, "; ")
		if p.Mode == "block" {
			q = "BEGIN TRANSACTION; " + q + "; " + end
		}
		if p.Mode == "auto" {
			res.failedAt = 0
		}
		_, ctxs, err, to = rn.exec(ctx, nil, q, params)
	}
	var hdrs []*sql.SQLTx
	for _, t := range ctxs {
		if t != nil && t.TxHeader() != nil {
			hdrs = append(hdrs, t)
		}
	}
	switch {
	case to:
		res.status = "unknown"
	case err != nil:
		res.status, res.errClass, res.errText = "failed", errClass(err), err.Error()
		if len(hdrs) > 0 {
			rn.taint(fmt.Sprintf("%s returned an error (%v) together with a committed transaction", p.Text(), err))
		}
	case p.Rollback && (p.Mode == "block" || p.Mode == "steps"):
		res.status = "rolledback"
		if len(hdrs) > 0 {
			rn.c.Violation("rollback/transaction-committed/"+p.Mode, fmt.Sprintf("%s ended with ROLLBACK but a store transaction %d was committed for it", p.Text(), hdrs[0].TxHeader().ID), rn.files())
			res.status, res.hdr = "committed", hdrs[0].TxHeader().ID
		}
	case len(hdrs) == 0:
		res.status = "noop"
	default:
		res.status, res.hdr = "committed", hdrs[0].TxHeader().ID
		res.first, res.last = map[string]int64{}, map[string]int64{}
		for k, v := range hdrs[0].FirstInsertedPKs() {
			res.first[k] = v
		}
		for k, v := range hdrs[0].LastInsertedPKs() {
			res.last[k] = v
		}
		if len(hdrs) > 1 {
			rn.taint(fmt.Sprintf("%s produced %d committed store transactions", p.Text(), len(hdrs)))
		}
	}
	if res.status != "failed" {
		res.failedAt = -1
	}
	rn.mu.Lock()
	rn.planRes[p] = res
	if res.status == "committed" {
		rn.pending = append(rn.pending, res)
	}
	if res.status == "unknown" {
		rn.unknown++
	}
	rn.mu.Unlock()
	rn.c.Count("tx_"+res.status, 1)
	if res.errClass != "" {
		rn.c.Count("err_"+res.errClass, 1)
		if res.errClass == "other" {
			rn.c.Note("unclassified error: " + res.errText)
		}
	}
	return res
}

func (rn *runner) taint(why string) {
	rn.mu.Lock()
	rn.tainted = true
	rn.mu.Unlock()
	rn.c.Note(why)
}

func (rn *runner) files() map[string][]byte {
	rn.mu.Lock()
	defer rn.mu.Unlock()
	spec, _ := json.Marshal(rn.spec)
	return map[string][]byte{"history.txt": []byte(strings.Join(rn.history, "\n") + "\n"), "case.json": spec}
}

func (rn *runner) log(format string, a ...any) {
	rn.mu.Lock()
	rn.history = append(rn.history, fmt.Sprintf(format, a...))
	rn.mu.Unlock()
}

func (rn *runner) viol(sig, detail string) {
	rn.c.Violation(sig, fmt.Sprintf("[program %d, %d sessions, seed %d] %s", rn.spec.Index, rn.spec.Sessions, rn.c.Seed, detail), rn.files())
}

func resLine(res *txResult) string {
	out := res.status
	switch res.status {
	case "committed":
		out = fmt.Sprintf("committed as store tx %d", res.hdr)
	case "failed":
		out = fmt.Sprintf("failed (%s: %s)", res.errClass, res.errText)
		if res.failedAt >= 0 {
			out += fmt.Sprintf(" at statement %d", res.failedAt)
		}
	}
	return fmt.Sprintf("%s  => %s", res.plan.Text(), out)
}

// runPhase executes the phase's sessions (concurrently when there are several) with a
// concurrent state checker, then takes the quiescent checks.
func (rn *runner) runPhase(idx int, ph *Phase) {
	conc := len(ph.Sess) > 1
	rn.log("-- phase %d (%s, %d sessions)", idx, ph.Kind, len(ph.Sess))
	for _, txs := range ph.Sess {
		for _, p := range txs {
			for i, s := range p.Stmts {
				for _, tag := range s.Tags {
					rn.tagOrigin[tag] = tagInfo{p, i}
				}
			}
		}
	}
	var wg sync.WaitGroup
	stop := make(chan struct{})
	var cwg sync.WaitGroup
	if ph.Kind == "dml" {
		cwg.Add(1)
		go func() {
			defer cwg.Done()
			for scans := 0; scans < 25; scans++ {
				select {
				case <-stop:
					return
				default:
				}
				rn.checkState(true)
				time.Sleep(3 * time.Millisecond)
			}
		}()
	}
	for _, txs := range ph.Sess {
		wg.Add(1)
		go func(txs []*TxPlan) {
			defer wg.Done()
			for _, p := range txs {
				if rn.timeouts.Load() >= 3 {
					return
				}
				res := rn.runTx(p, idx, conc)
				rn.log("%s", resLine(res))
			}
		}(txs)
	}
	wg.Wait()
	close(stop)
	cwg.Wait()
	rn.quiescent(idx)
}

// ---- engine state -----------------------------------------------------------

type engCol struct {
	name, typ string
	max       int
	notNull   bool
}

type engTable struct {
	name string
	cols []engCol
	pk   []string
	uniq [][]string
	idx  [][]string
	rows []map[string]Val
}

func fromTyped(v sql.TypedValue) Val {
	if v == nil || v.IsNull() {
		return vNull()
	}
	switch x := v.RawValue().(type) {
	case int64:
		return vInt(x)
	case string:
		return vStr(x)
	case []byte:
		return vBlob(string(x))
	}
	return Val{K: '?', S: fmt.Sprintf("%T %v", v.RawValue(), v.RawValue())}
}

// scan reads every table through its primary index in one read-only transaction.
func (rn *runner) scan() (map[string]*engTable, map[string]int64, error) {
	ctx, cancel := context.WithTimeout(context.Background(), opTimeout)
	defer cancel()
	tx, err := rn.eng.NewTx(ctx, sql.DefaultTxOptions().WithReadOnly(true))
	if err != nil {
		return nil, nil, err
	}
	defer tx.Cancel()
	out := map[string]*engTable{}
	notCheck := map[string]int64{}
	for _, t := range tx.Catalog().GetTables() {
		et := &engTable{name: t.Name()}
		var names []string
		for _, c := range t.Cols() {
			et.cols = append(et.cols, engCol{c.Name(), string(c.Type()), c.MaxLen(), !c.IsNullable()})
			names = append(names, c.Name())
		}
		for _, ix := range t.GetIndexes() {
			var cs []string
			for _, c := range ix.Cols() {
				cs = append(cs, c.Name())
			}
			switch {
			case ix.IsPrimary():
				et.pk = cs
			case ix.IsUnique():
				et.uniq = append(et.uniq, cs)
			default:
				et.idx = append(et.idx, cs)
			}
		}
		rd, err := rn.eng.Query(ctx, tx, "SELECT "+strings.Join(names, ", ")+" FROM "+et.name, nil)
		if err != nil {
			return nil, nil, fmt.Errorf("scan of %s: %w", et.name, err)
		}
		for {
			row, err := rd.Read(ctx)
			if errors.Is(err, sql.ErrNoMoreRows) {
				break
			}
			if err != nil {
				rd.Close()
				return nil, nil, fmt.Errorf("scan of %s: %w", et.name, err)
			}
			m := map[string]Val{}
			for i, n := range names {
				m[n] = fromTyped(row.ValuesByPosition[i])
			}
			et.rows = append(et.rows, m)
		}
		rd.Close()
		for _, k := range rn.checksOf(et) {
			q := fmt.Sprintf("SELECT COUNT(*) FROM %s WHERE NOT (%s)", et.name, k.Expr())
			rd, err := rn.eng.Query(ctx, tx, q, nil)
			if err != nil {
				rn.c.Count("check_query_errors", 1)
				continue
			}
			row, err := rd.Read(ctx)
			rd.Close()
			if err != nil {
				rn.c.Count("check_query_errors", 1)
				continue
			}
			notCheck[et.name+"\x00"+k.Col] = fromTyped(row.ValuesByPosition[0]).I
		}
		out[et.name] = et
	}
	return out, notCheck, nil
}

// checksOf: the CHECKs declared at table creation whose column still exists (they are never dropped or renamed).
func (rn *runner) checksOf(et *engTable) []Check {
	var out []Check
	for _, t := range rn.prog.Tables {
		if t.Name != et.name {
			continue
		}
		for _, k := range t.Checks {
			for _, c := range et.cols {
				if c.name == k.Col {
					out = append(out, k)
				}
			}
		}
	}
	return out
}

// checkState evaluates the state invariants on one snapshot; violations are queued and
// attributed at the next quiescent point. Returns the snapshot.
func (rn *runner) checkState(concurrent bool) map[string]*engTable {
	snap, notCheck, err := rn.scan()
	if err != nil {
		if errors.Is(err, context.DeadlineExceeded) {
			rn.timeouts.Add(1)
		} else if concurrent && (errors.Is(err, sql.ErrColumnDoesNotExist) || errors.Is(err, sql.ErrTableDoesNotExist)) {
			rn.c.Count("scan_schema_races", 1)
		} else {
			rn.c.Count("scan_errors", 1)
			rn.c.Note("scan failed: " + err.Error())
		}
		return nil
	}
	var vs []stateViol
	seen := map[string]struct{}{}
	for _, et := range snap {
		tagOf := func(r map[string]Val) string { return r["tag"].S }
		// primary key and unique indexes
		keysets := append([][]string{et.pk}, et.uniq...)
		for i, ks := range keysets {
			byKey := map[string]string{}
			for _, r := range et.rows {
				k, hasNull := tupleKey(r, ks)
				if hasNull && i > 0 {
					continue
				}
				if other, dup := byKey[k]; dup {
					kind, key := "dup-unique", "dup-unique:"+strings.Join(ks, ",")
					if i == 0 {
						kind, key = "dup-pk", "dup-pk"
					}
					vs = append(vs, stateViol{kind, key, et.name, []string{tagOf(r), other},
						fmt.Sprintf("table %s holds two live rows (tags %s and %s) with the same (%s)", et.name, other, tagOf(r), strings.Join(ks, ","))})
				}
				byKey[k] = tagOf(r)
			}
			rn.c.Eval(1)
		}
		for _, c := range et.cols {
			for _, r := range et.rows {
				v := r[c.name]
				switch {
				case v.IsNull():
					if c.notNull {
						vs = append(vs, stateViol{"notnull", "notnull:" + c.name, et.name, []string{tagOf(r)},
							fmt.Sprintf("table %s row %s holds NULL in NOT NULL column %s", et.name, tagOf(r), c.name)})
					}
				case v.K != map[string]byte{"INTEGER": 'i', "VARCHAR": 's', "BLOB": 'b'}[c.typ]:
					vs = append(vs, stateViol{"type", "type:" + c.name, et.name, []string{tagOf(r)},
						fmt.Sprintf("table %s row %s column %s %s holds %v", et.name, tagOf(r), c.name, c.typ, v)})
				case c.typ != "INTEGER" && len(v.S) > c.max:
					vs = append(vs, stateViol{"len", "len:" + c.name, et.name, []string{tagOf(r)},
						fmt.Sprintf("table %s row %s column %s %s[%d] holds %d bytes", et.name, tagOf(r), c.name, c.typ, c.max, len(v.S))})
				}
			}
			rn.c.Eval(1)
		}
		for _, k := range rn.checksOf(et) {
			bad := int64(0)
			for _, r := range et.rows {
				if k.Holds(r[k.Col]) == 0 {
					bad++
					vs = append(vs, stateViol{"check", "check:" + k.Col, et.name, []string{tagOf(r)},
						fmt.Sprintf("table %s row %s violates CHECK (%s): %s = %v", et.name, tagOf(r), k.Expr(), k.Col, r[k.Col])})
				}
			}
			rn.c.Eval(1)
			if n, ok := notCheck[et.name+"\x00"+k.Col]; ok {
				rn.c.Eval(1)
				if n > 0 && bad == 0 && !concurrent {
					// the query saw rows violating the CHECK that the scan of the same quiescent state did not
					vs = append(vs, stateViol{"check", "check:" + k.Col, et.name, nil,
						fmt.Sprintf("SELECT COUNT(*) FROM %s WHERE NOT (%s) = %d while the harness evaluator found no such row", et.name, k.Expr(), n)})
				} else if n > 0 && bad == 0 {
					vs = append(vs, stateViol{"check", "check:" + k.Col, et.name, nil,
						fmt.Sprintf("SELECT COUNT(*) FROM %s WHERE NOT (%s) = %d", et.name, k.Expr(), n)})
				}
			}
		}
		for _, r := range et.rows {
			seen[tagOf(r)] = struct{}{}
		}
	}
	rn.mu.Lock()
	if len(rn.stateV) < 200 {
		rn.stateV = append(rn.stateV, vs...)
	}
	if concurrent {
		for t := range seen {
			rn.seenTags[t] = struct{}{}
		}
	}
	rn.mu.Unlock()
	rn.c.Count("state_scans", 1)
	return snap
}

// ---- quiescent point ---------------------------------------------------------

func outcomeKey(aim, kind, mode string, conc bool, outcome string) string {
	cs := "solo"
	if conc {
		cs = "concurrent"
	}
	if aim == "" {
		aim = "unaimed"
	}
	return fmt.Sprintf("%s/%s/%s/%s/%s", aim, kind, mode, cs, outcome)
}

func (rn *runner) originClass(tag string) (class string, res *txResult) {
	info, ok := rn.tagOrigin[tag]
	if !ok {
		return "unknown-tag", nil
	}
	res = rn.planRes[info.plan]
	if res == nil {
		return "never-executed-tx", nil
	}
	switch res.status {
	case "failed":
		switch {
		case res.errClass == "conflict":
			return "conflicted-tx", res
		case res.failedAt == info.stmt:
			return "failed-statement", res
		default:
			return "aborted-tx", res
		}
	case "rolledback":
		return "rolled-back-tx", res
	case "noop":
		return "tx-without-store-transaction", res
	}
	return res.status, res
}

func (rn *runner) quiescent(phase int) {
	// 1. feed the model with the committed transactions, in commit order
	rn.mu.Lock()
	pend := rn.pending
	rn.pending = nil
	unknown := rn.unknown
	tainted := rn.tainted
	rn.mu.Unlock()
	sort.Slice(pend, func(i, j int) bool { return pend[i].hdr < pend[j].hdr })
	rn.log("-- quiescent point after phase %d: %d committed transactions applied to the model in this order:", phase, len(pend))
	modelOK := unknown == 0 && !tainted
	for _, res := range pend {
		rn.log("   store tx %d: %s", res.hdr, res.plan.Text())
		if other, dup := rn.hdrSeen[res.hdr]; dup {
			rn.viol("commit/one-store-transaction-for-two-sql-transactions", fmt.Sprintf("store tx %d was reported as the commit of both %s and %s", res.hdr, other.Text(), res.plan.Text()))
		}
		rn.hdrSeen[res.hdr] = res.plan
		// Generated keys: the rows inserted before the transaction's first explicit key on the table count up
		// from the first reported key, those after its last explicit key count up to the last reported key
		// (true whether or not an accepted explicit key moves the engine's counter); with no explicit key both
		// rules coincide and must agree.
		ids := &idSeq{queue: map[string][]int64{}}
		type autoUse struct {
			segs     []int64 // generated rows between explicit inserts: segs[0] before the first one
			explicit int
		}
		uses := map[string]*autoUse{}
		for _, s := range res.plan.Stmts {
			t := rn.model.Tables[s.Table]
			if t == nil || !t.Auto || len(s.Rows) == 0 {
				continue
			}
			gen := s.Kind != "upsert"
			for _, cn := range s.Cols {
				if cn == t.PK[0] {
					gen = false
				}
			}
			u := uses[t.Name]
			if u == nil {
				u = &autoUse{segs: []int64{0}}
				uses[t.Name] = u
			}
			if gen {
				u.segs[len(u.segs)-1] += int64(len(s.Rows))
			} else {
				u.explicit++
				u.segs = append(u.segs, 0)
			}
		}
		for name, u := range uses {
			first, ok := res.first[name]
			if !ok {
				continue
			}
			var q []int64
			known := true
			for i, n := range u.segs {
				switch {
				case n == 0:
				case i == 0:
					for k := int64(0); k < n; k++ {
						q = append(q, first+k)
					}
				case i == len(u.segs)-1:
					for k := n - 1; k >= 0; k-- {
						q = append(q, res.last[name]-k)
					}
				default:
					known = false // between two explicit keys: not derivable from what the engine reports
				}
			}
			if known {
				ids.queue[name] = q
			}
			if u.explicit == 0 && len(q) > 0 {
				rn.c.Eval(1)
				if res.last[name] != first+int64(len(q))-1 && modelOK {
					rn.viol("auto-increment/reported-keys-inconsistent", fmt.Sprintf("store tx %d (%s) inserted %d rows with generated keys into %s but reported first=%d last=%d", res.hdr, res.plan.Text(), len(q), name, first, res.last[name]))
				}
			}
		}
		for i, s := range res.plan.Stmts {
			v, err := rn.model.Apply(s, ids)
			rn.c.Eval(1)
			if err != nil {
				if modelOK {
					rn.viol("ddl/committed-statement-does-not-fit-committed-schema/"+s.Kind, fmt.Sprintf("store tx %d committed %q but under the schema produced by the committed DDL so far: %v", res.hdr, s.Text(), err))
				}
				continue
			}
			outcome := "accepted-legally"
			if v.Unknown {
				outcome = "accepted-unjudged"
			}
			if len(v.Must) > 0 {
				outcome = "ACCEPTED-ILLEGALLY"
			}
			if s.Aim != "" || i == 0 {
				rn.c.Distinct(outcomeKey(s.Aim, s.Kind, res.plan.Mode, res.conc, outcome))
			}
			if modelOK {
				for _, kind := range v.Must {
					rn.viol(kind+"/accepted-from/"+s.Kind, fmt.Sprintf("store tx %d committed %q (transaction %s) although, in the state left by the transactions committed before it, the statement violates the %s constraint", res.hdr, s.Text(), res.plan.Text(), kind))
				}
			}
		}
	}
	// outcomes of the transactions that did not commit
	rn.mu.Lock()
	for p, res := range rn.planRes {
		if res.phase != phase || res.status == "committed" {
			continue
		}
		for i, s := range p.Stmts {
			if s.Aim == "" && i > 0 {
				continue
			}
			outcome := res.status
			if res.status == "failed" {
				outcome = "rejected:" + res.errClass
				if res.failedAt >= 0 && res.failedAt != i {
					outcome = "tx-aborted-by-other-statement"
				} else if res.failedAt < 0 {
					outcome = "tx-rejected:" + res.errClass
				}
			}
			rn.c.Distinct(outcomeKey(s.Aim, s.Kind, p.Mode, res.conc, outcome))
		}
	}
	rn.mu.Unlock()

	// 2. state invariants at the quiescent point
	snap := rn.checkState(false)
	rn.mu.Lock()
	stateV := rn.stateV
	rn.stateV = nil
	seenTags := rn.seenTags
	rn.seenTags = map[string]struct{}{}
	rn.mu.Unlock()
	reported := map[string]bool{}
	for _, sv := range stateV {
		by := "unattributed"
		for _, tag := range sv.tags {
			if k, ok := rn.model.ViolLog[sv.table+"\x00"+tag+"\x00"+sv.key]; ok {
				by = k
				break
			}
		}
		sig := sv.kind + "/accepted-from/" + by
		if by == "unattributed" {
			sig = sv.kind + "/in-committed-state"
		}
		if !reported[sig+sv.detail] {
			reported[sig+sv.detail] = true
			rn.viol(sig, "state invariant: "+sv.detail)
		}
	}
	if snap == nil {
		return
	}
	if !modelOK {
		rn.c.Inconclusive(fmt.Sprintf("program %d: %d transactions with unknown outcome (operation did not return within %s): model comparison skipped", rn.spec.Index, unknown, opTimeout))
		return
	}
	// 3. rows seen by the concurrent scans must stem from transactions that committed
	for tag := range seenTags {
		rn.c.Eval(1)
		if class, res := rn.originClass(tag); class != "committed" && class != "unknown" {
			txt := ""
			if res != nil {
				txt = resLine(res)
			}
			rn.viol("atomicity/visible-row-of/"+class+"/"+modeOf(res), fmt.Sprintf("a concurrent read-only scan returned row %s, inserted by: %s", tag, txt))
		}
	}
	// 4. catalog and table contents equal the model
	for name, mt := range rn.model.Tables {
		et := snap[name]
		rn.c.Eval(2)
		if et == nil {
			rn.viol("ddl/table-missing", fmt.Sprintf("table %s is not in the catalog", name))
			continue
		}
		if class, d := schemaDiff(mt, et); d != "" {
			rn.viol("ddl/catalog-differs-from-committed-ddl/"+class, fmt.Sprintf("table %s: %s", name, d))
		}
		byTag := map[string]map[string]Val{}
		for _, r := range et.rows {
			tag := r["tag"].S
			if _, dup := byTag[tag]; dup {
				rn.viol("atomicity/row-duplicated", fmt.Sprintf("table %s returns two rows with tag %s", name, tag))
			}
			byTag[tag] = r
		}
		for tag, r := range byTag {
			mr := mt.Rows[tag]
			if mr == nil {
				class, res := rn.originClass(tag)
				txt := ""
				if res != nil {
					txt = resLine(res)
				}
				if class == "committed" {
					rn.viol("atomicity/committed-state-differs/unexpected-row", fmt.Sprintf("table %s holds row %s %v which the committed transactions, applied in commit order, do not leave behind; inserted by: %s", name, tag, showRow(r), txt))
				} else if class != "unknown" {
					rn.viol("atomicity/visible-row-of/"+class+"/"+modeOf(res), fmt.Sprintf("table %s holds row %s %v, inserted by: %s", name, tag, showRow(r), txt))
				}
				continue
			}
			for _, c := range mt.Cols {
				if !mr.Vals[c.Name].Eq(r[c.Name]) {
					rn.viol("atomicity/committed-state-differs/value", fmt.Sprintf("table %s row %s column %s: engine holds %v, the committed transactions applied in commit order give %v", name, tag, c.Name, r[c.Name], mr.Vals[c.Name]))
					break
				}
			}
		}
		for tag := range mt.Rows {
			if byTag[tag] == nil {
				_, res := rn.originClass(tag)
				txt := ""
				if res != nil {
					txt = resLine(res)
				}
				rn.viol("atomicity/committed-row-missing/"+rn.missingShape(tag), fmt.Sprintf("table %s lacks row %s %v although it was inserted by a committed transaction and no later committed statement removes it: %s", name, tag, showRow(mt.Rows[tag].Vals), txt))
			}
		}
	}
}

// missingShape names the history shape behind a missing committed row: the kind of the statement that
// inserted it and whether a DELETE on the same table preceded it inside the same transaction.
func (rn *runner) missingShape(tag string) string {
	info, ok := rn.tagOrigin[tag]
	if !ok {
		return "unknown-origin"
	}
	s := info.plan.Stmts[info.stmt]
	shape := s.Kind
	for i := 0; i < info.stmt; i++ {
		if p := info.plan.Stmts[i]; p.Kind == "delete" && p.Table == s.Table {
			return shape + "-after-delete-in-same-tx"
		}
	}
	return shape
}

func modeOf(res *txResult) string {
	if res == nil {
		return "none"
	}
	return res.plan.Mode
}

func showRow(r map[string]Val) string {
	keys := make([]string, 0, len(r))
	for k := range r {
		if k != "tag" {
			keys = append(keys, k)
		}
	}
	sort.Strings(keys)
	var ps []string
	for _, k := range keys {
		ps = append(ps, k+"="+r[k].Lit())
	}
	return "{" + strings.Join(ps, " ") + "}"
}

func listKey(ls [][]string) string {
	var ks []string
	for _, l := range ls {
		ks = append(ks, strings.Join(l, ","))
	}
	sort.Strings(ks)
	return strings.Join(ks, " | ")
}

func schemaDiff(mt *Table, et *engTable) (class, detail string) {
	var a, b []string
	for _, c := range mt.Cols {
		max := c.Max
		if c.Type == "INTEGER" {
			max = 8
		}
		a = append(a, fmt.Sprintf("%s %s[%d] notnull=%v", c.Name, c.Type, max, c.NotNull))
	}
	for _, c := range et.cols {
		b = append(b, fmt.Sprintf("%s %s[%d] notnull=%v", c.name, c.typ, c.max, c.notNull))
	}
	sort.Strings(a)
	sort.Strings(b)
	if strings.Join(a, "; ") != strings.Join(b, "; ") {
		return "columns", fmt.Sprintf("columns in the catalog {%s}, by committed DDL {%s}", strings.Join(b, "; "), strings.Join(a, "; "))
	}
	if listKey(mt.Uniq) != listKey(et.uniq) {
		return "unique-indexes", fmt.Sprintf("unique indexes in the catalog {%s}, by committed DDL {%s}", listKey(et.uniq), listKey(mt.Uniq))
	}
	if listKey(mt.Idx) != listKey(et.idx) {
		return "indexes", fmt.Sprintf("indexes in the catalog {%s}, by committed DDL {%s}", listKey(et.idx), listKey(mt.Idx))
	}
	if strings.Join(mt.PK, ",") != strings.Join(et.pk, ",") {
		return "primary-key", fmt.Sprintf("primary key in the catalog (%s), declared (%s)", strings.Join(et.pk, ","), strings.Join(mt.PK, ","))
	}
	return "", ""
}

// ---- case -------------------------------------------------------------------

func runCase(c *fw.Ctx, data []byte) {
	var sp caseSpec
	if err := json.Unmarshal(data, &sp); err != nil {
		c.Inconclusive("bad case: " + err.Error())
		return
	}
	if sp.Perturb {
		h := hook.Install(&hook.Config{Seed: c.Seed*1000 + int64(sp.Index), Perturb: 0.2, MaxSleep: 300 * time.Microsecond})
		defer func() {
			hook.Uninstall()
			hits := h.Hits()
			if hits["store.precommit.beforeLock"] == 0 {
				c.Inconclusive("hook sites never reached: was the harness built with -tags verif?")
			}
			c.Count("perturbed_programs", 1)
		}()
	}
	prog := genProgram(fw.NewRand(c.Seed, fmt.Sprintf("c12/program/%d", sp.Index)), sp.Sessions, sp.Phases, sp.TxPerSess)
	dir := c.Dir("c12")
	defer os.RemoveAll(dir)
	opts := store.DefaultOptions().WithMultiIndexing(true).WithSynced(false).WithMaxConcurrency(40).
		WithMaxTxEntries(256).WithLogger(sth.QuietLogger())
	st, err := store.Open(dir, opts)
	if err != nil {
		c.Inconclusive("open: " + err.Error())
		return
	}
	defer st.Close()
	eng, err := sql.NewEngine(st, sql.DefaultOptions().WithPrefix([]byte{2}))
	if err != nil {
		c.Inconclusive("engine: " + err.Error())
		return
	}
	rn := &runner{c: c, spec: sp, st: st, eng: eng, prog: prog, model: newModel(prog.Tables),
		planRes: map[*TxPlan]*txResult{}, tagOrigin: map[string]tagInfo{}, seenTags: map[string]struct{}{}, hdrSeen: map[uint64]*TxPlan{}}
	for _, t := range prog.Tables {
		q := t.CreateSQL()
		rn.log("%s;", q)
		if _, _, err, _ := rn.exec(context.Background(), nil, q, nil); err != nil {
			c.Inconclusive("schema creation failed: " + err.Error() + ": " + q)
			return
		}
	}
	for i, ph := range prog.Phases {
		rn.runPhase(i, ph)
		if rn.timeouts.Load() >= 3 {
			break
		}
	}
	if n := rn.timeouts.Load(); n > 0 {
		c.Inconclusive(fmt.Sprintf("program %d: %d operations did not return within %s", sp.Index, n, opTimeout))
	}
	if sp.Index < 3 {
		rows := 0
		for _, t := range rn.model.Tables {
			rows += len(t.Rows)
		}
		c.Sample(map[string]any{"program": sp.Index, "sessions": sp.Sessions, "tables": len(prog.Tables), "transactions": len(rn.planRes), "live_rows_at_end": rows, "first_table": prog.Tables[0].CreateSQL()})
	}
}
