package c12

import (
	"fmt"
	"math/rand/v2"
)

// Program is one generated case: a schema and phases of per-session transactions.
type Program struct {
	Tables []*Table
	Phases []*Phase
}

type Phase struct {
	Kind string      // dml | ddl
	Sess [][]*TxPlan // transactions per session (ddl: one session)
}

type gen struct {
	r      *rand.Rand
	tables []*Table // generator's view of the schema (assumes legal DDL succeeds)
	seq    []int    // per-session tx sequence numbers
	zcount int
}

func pick[T any](r *rand.Rand, xs ...T) T { return xs[r.IntN(len(xs))] }

func letters(r *rand.Rand, n int) string {
	b := make([]byte, n)
	for i := range b {
		b[i] = byte('a' + r.IntN(4))
	}
	return string(b)
}

func genTable(r *rand.Rand, name string, style string) *Table {
	t := &Table{Name: name}
	switch style {
	case "auto":
		t.Auto = true
		t.Cols = append(t.Cols, &Col{Name: "id", Type: "INTEGER", Auto: true, Role: "pk"})
		t.PK = []string{"id"}
	case "int":
		t.Cols = append(t.Cols, &Col{Name: "id", Type: "INTEGER", Role: "pk"})
		t.PK = []string{"id"}
	case "comp":
		t.Cols = append(t.Cols, &Col{Name: "a", Type: "INTEGER", Role: "pka"}, &Col{Name: "b", Type: "VARCHAR", Max: 3, Role: "pkb"})
		t.PK = []string{"a", "b"}
	}
	t.Cols = append(t.Cols, &Col{Name: "tag", Type: "VARCHAR", Max: 40, NotNull: true, Role: "tag"})
	t.Cols = append(t.Cols, &Col{Name: "n", Type: "INTEGER", NotNull: true, Role: "n"})
	if style == "late" {
		t.Cols = t.Cols[:0]
		t.Cols = append(t.Cols, &Col{Name: "id", Type: "INTEGER", Role: "pk"}, &Col{Name: "tag", Type: "VARCHAR", Max: 40, NotNull: true, Role: "tag"},
			&Col{Name: "w", Type: "INTEGER", Role: "w"}, &Col{Name: "x", Type: "INTEGER", Role: "x"})
		t.PK = []string{"id"}
		return t
	}
	if r.IntN(10) < 6 {
		t.Cols = append(t.Cols, &Col{Name: "u", Type: "INTEGER", Role: "u"})
		t.Uniq = append(t.Uniq, []string{"u"})
	}
	if r.IntN(10) < 4 {
		t.Cols = append(t.Cols, &Col{Name: "p", Type: "INTEGER", Role: "p"}, &Col{Name: "q", Type: "VARCHAR", Max: 2, Role: "q"})
		t.Uniq = append(t.Uniq, []string{"p", "q"})
	}
	if r.IntN(10) < 8 {
		t.Cols = append(t.Cols, &Col{Name: "c", Type: "INTEGER", Role: "c"})
		k := Check{Col: "c", Lo: int64(r.IntN(3))}
		if r.IntN(3) > 0 {
			k.Name = "ck_" + name + "_c"
		}
		if r.IntN(3) > 0 {
			k.HasHi, k.Hi = true, k.Lo+int64(4+r.IntN(8))
		}
		t.Checks = append(t.Checks, k)
	}
	if r.IntN(10) < 7 {
		t.Cols = append(t.Cols, &Col{Name: "s", Type: "VARCHAR", Max: pick(r, 3, 6), NotNull: r.IntN(3) == 0, Role: "s"})
	}
	if r.IntN(10) < 5 {
		t.Cols = append(t.Cols, &Col{Name: "bl", Type: "BLOB", Max: pick(r, 2, 5), Role: "bl"})
	}
	t.Cols = append(t.Cols, &Col{Name: "x", Type: "INTEGER", Role: "x"})
	if r.IntN(2) == 0 {
		t.Idx = append(t.Idx, []string{"x"})
	}
	if r.IntN(2) == 0 {
		t.Cols = append(t.Cols, &Col{Name: "y", Type: "INTEGER", Role: "y"})
	}
	return t
}

// value for a column; aimed = deliberately violating / colliding
func (g *gen) value(t *Table, c *Col, aim string) Val {
	r := g.r
	switch c.Role {
	case "pk":
		if t.Auto {
			if aim == "dup-pk" {
				return vInt(int64(1 + r.IntN(8)))
			}
			return vInt(int64(5 + r.IntN(60)))
		}
		if aim == "dup-pk" {
			return vInt(int64(r.IntN(6)))
		}
		return vInt(int64(r.IntN(40)))
	case "pka":
		return vInt(int64(r.IntN(4)))
	case "pkb":
		if aim == "len" {
			return vStr(letters(r, c.Max+1+r.IntN(2)))
		}
		if aim == "dup-pk" {
			return vStr(pick(r, "a", "b"))
		}
		return vStr(letters(r, 1+r.IntN(c.Max)))
	case "w":
		return vInt(int64(r.IntN(6)))
	case "u":
		if aim == "dup-unique" {
			return vInt(int64(r.IntN(3)))
		}
		if r.IntN(10) == 0 {
			return vNull()
		}
		return vInt(int64(r.IntN(60)))
	case "p":
		return vInt(int64(r.IntN(3)))
	case "q":
		if aim == "len" {
			return vStr(letters(r, c.Max+1))
		}
		if r.IntN(8) == 0 {
			return vNull()
		}
		return vStr(letters(r, 1+r.IntN(c.Max)))
	case "n":
		return vInt(int64(r.IntN(100)))
	case "c":
		var k Check
		for _, ck := range t.Checks {
			if ck.Col == c.Name {
				k = ck
			}
		}
		if aim == "check" {
			if k.HasHi && r.IntN(2) == 0 {
				return vInt(k.Hi + int64(r.IntN(3)))
			}
			return vInt(k.Lo - 1 - int64(r.IntN(3)))
		}
		if k.HasHi {
			return vInt(k.Lo + int64(r.IntN(int(k.Hi-k.Lo))))
		}
		return vInt(k.Lo + int64(r.IntN(20)))
	case "s", "z":
		if c.Type == "INTEGER" {
			return vInt(int64(r.IntN(50)))
		}
		if aim == "len" {
			return vStr(letters(r, c.Max+1+r.IntN(3)))
		}
		if !c.NotNull && r.IntN(6) == 0 {
			return vNull()
		}
		return vStr(letters(r, 1+r.IntN(c.Max)))
	case "bl":
		if aim == "len" {
			return vBlob(letters(r, c.Max+1+r.IntN(3)))
		}
		if r.IntN(6) == 0 {
			return vNull()
		}
		return vBlob(letters(r, 1+r.IntN(c.Max)))
	}
	// x, y
	if r.IntN(8) == 0 {
		return vNull()
	}
	return vInt(int64(r.IntN(30)))
}

// aimColumn picks the column an aimed violation lands on (nil: not applicable to this table).
func (g *gen) aimColumn(t *Table, aim string, forUpdate bool) *Col {
	var cands []*Col
	for _, c := range t.Cols {
		ok := false
		switch aim {
		case "dup-pk":
			ok = !forUpdate && (c.Role == "pk" || c.Role == "pkb")
		case "dup-unique":
			ok = c.Role == "u" || c.Role == "w" || c.Role == "p"
		case "null", "omit":
			ok = c.NotNull && c.Role != "tag" && !c.Auto && !t.isPK(c.Name)
		case "check":
			ok = c.Role == "c"
		case "len":
			ok = c.Type != "INTEGER" && c.Role != "tag" && !(forUpdate && t.isPK(c.Name))
		case "type":
			ok = c.Type == "INTEGER" && !t.isPK(c.Name)
		case "pk-update":
			ok = forUpdate && t.isPK(c.Name)
		case "auto-collide":
			ok = !forUpdate && t.Auto && c.Role == "pk"
		}
		if ok {
			cands = append(cands, c)
		}
	}
	if len(cands) == 0 {
		return nil
	}
	return cands[g.r.IntN(len(cands))]
}

var aims = []string{"dup-pk", "dup-pk", "dup-unique", "dup-unique", "null", "omit", "check", "check", "len", "type", "auto-collide", "pk-update"}

func (g *gen) insertStmt(t *Table, kind string, aim string, tagBase string, nrows int) *Stmt {
	r := g.r
	s := &Stmt{Kind: kind, Table: t.Name, Params: r.IntN(4) == 0}
	setAim := ""
	if kind == "insert-update" {
		// the row is aimed at an existing key so that DO UPDATE runs; the aim proper goes to its SET list
		switch aim {
		case "null", "check", "type", "len", "dup-unique":
			setAim = aim
		}
		aim = "dup-pk"
		if t.Auto && r.IntN(3) == 0 {
			aim = ""
		}
	}
	var ac *Col
	if aim != "" {
		ac = g.aimColumn(t, aim, false)
		if ac == nil {
			aim = ""
		}
	}
	s.Aim = aim
	aimRow := r.IntN(nrows) // the violating row is often not the first one of a multi-row insert
	if nrows > 1 && r.IntN(3) > 0 {
		aimRow = nrows - 1
	}
	// column list: fixed for the statement
	explicitID := !t.Auto || aim == "dup-pk" || aim == "auto-collide" || (kind == "upsert") || r.IntN(8) == 0
	for _, c := range t.Cols {
		if c.Auto && !explicitID {
			continue
		}
		if ac != nil && c == ac && aim == "omit" {
			continue
		}
		if !c.NotNull && !t.isPK(c.Name) && (ac == nil || c != ac) && r.IntN(6) == 0 {
			continue
		}
		s.Cols = append(s.Cols, c.Name)
	}
	for i := 0; i < nrows; i++ {
		tag := fmt.Sprintf("%s.r%d", tagBase, i)
		var row []Val
		for _, cn := range s.Cols {
			c := t.col(cn)
			a := ""
			if ac != nil && c == ac && i == aimRow {
				a = aim
			}
			switch {
			case c.Role == "tag":
				row = append(row, vStr(tag))
			case a == "null":
				row = append(row, vNull())
			case a == "type":
				row = append(row, vStr("zz"))
			case a == "dup-unique" && c.Role == "p":
				row = append(row, vInt(0))
			case ac != nil && ac.Role == "p" && c.Role == "q" && i == aimRow && aim == "dup-unique":
				row = append(row, vStr("a"))
			case a == "dup-pk" && c.Role == "pkb":
				row = append(row, g.value(t, c, "dup-pk"))
			case ac != nil && ac.Role == "pkb" && c.Role == "pka" && i == aimRow && aim == "dup-pk":
				row = append(row, vInt(int64(r.IntN(2))))
			case a == "auto-collide":
				row = append(row, vInt(int64(3+r.IntN(70))))
			default:
				row = append(row, g.value(t, c, a))
			}
		}
		s.Rows = append(s.Rows, row)
		s.Tags = append(s.Tags, tag)
	}
	if kind == "insert-update" {
		s.Sets = g.sets(t, setAim, true)
		if setAim != "" && g.aimColumn(t, setAim, true) != nil {
			s.Aim = setAim
		}
	}
	return s
}

func (g *gen) sets(t *Table, aim string, onConflict bool) []SetExp {
	r := g.r
	var out []SetExp
	used := map[string]bool{}
	add := func(e SetExp) {
		if !used[e.Col] {
			used[e.Col] = true
			out = append(out, e)
		}
	}
	if aim != "" {
		if ac := g.aimColumn(t, aim, true); ac != nil {
			switch aim {
			case "null":
				add(SetExp{Col: ac.Name, Val: vNull()})
			case "type":
				add(SetExp{Col: ac.Name, Val: vStr("zz")})
			case "check":
				if r.IntN(3) == 0 {
					add(SetExp{Col: ac.Name, Val: vInt(int64(7 + r.IntN(9))), Add: true})
				} else {
					add(SetExp{Col: ac.Name, Val: g.value(t, ac, "check")})
				}
			case "pk-update":
				add(SetExp{Col: ac.Name, Val: g.value(t, ac, "")})
			default:
				add(SetExp{Col: ac.Name, Val: g.value(t, ac, aim)})
			}
			if ac.Role == "p" {
				add(SetExp{Col: t.byRole("q").Name, Val: vStr("a")})
				out[0].Val = vInt(0)
			}
		}
	}
	var cands []*Col
	for _, c := range t.Cols {
		if !t.isPK(c.Name) && c.Role != "tag" && !c.Auto {
			cands = append(cands, c)
		}
	}
	n := 1 + r.IntN(2)
	for i := 0; i < n && len(cands) > 0; i++ {
		c := cands[r.IntN(len(cands))]
		if (c.Role == "c" || c.Role == "x") && r.IntN(3) == 0 {
			add(SetExp{Col: c.Name, Val: vInt(int64(1 + r.IntN(2))), Add: true})
		} else {
			add(SetExp{Col: c.Name, Val: g.value(t, c, "")})
		}
		if len(out) >= 2 {
			break
		}
	}
	return out
}

func (g *gen) where(t *Table, narrow bool) []Term {
	r := g.r
	if t.byRole("pka") != nil {
		a := vInt(int64(r.IntN(4)))
		switch r.IntN(4) {
		case 0:
			if !narrow {
				return []Term{{"a", "=", a}}
			}
			fallthrough
		case 1, 2:
			return []Term{{"a", "=", a}, {"b", "=", vStr(letters(r, 1))}}
		default:
			return []Term{{"a", "=", a}, {"b", ">=", vStr("b")}}
		}
	}
	max := 40
	if t.Auto {
		max = 30
	}
	k := int64(r.IntN(max))
	switch r.IntN(6) {
	case 0:
		if !narrow {
			return []Term{{"id", ">=", vInt(k)}, {"id", "<", vInt(k + int64(2+r.IntN(6)))}}
		}
		fallthrough
	case 1:
		if !narrow && r.IntN(4) == 0 {
			return nil
		}
		fallthrough
	default:
		return []Term{{"id", "=", vInt(k)}}
	}
}

func (g *gen) dmlStmt(t *Table, tagBase string, forceAim string) *Stmt {
	r := g.r
	aim := forceAim
	if aim == "" && r.IntN(100) < 45 {
		aim = aims[r.IntN(len(aims))]
	}
	switch k := r.IntN(100); {
	case k < 34:
		return g.insertStmt(t, "insert", aim, tagBase, pick(r, 1, 1, 1, 2, 3, 4))
	case k < 44:
		return g.insertStmt(t, "upsert", aim, tagBase, pick(r, 1, 1, 2))
	case k < 52:
		return g.insertStmt(t, "insert-nothing", aim, tagBase, pick(r, 1, 2, 3))
	case k < 62:
		return g.insertStmt(t, "insert-update", aim, tagBase, pick(r, 1, 1, 2))
	case k < 88:
		if aim == "dup-pk" || aim == "omit" || aim == "auto-collide" {
			aim = pick(r, "null", "check", "dup-unique", "pk-update")
		}
		if aim != "" && g.aimColumn(t, aim, true) == nil {
			aim = ""
		}
		return &Stmt{Kind: "update", Table: t.Name, Sets: g.sets(t, aim, false), Where: g.where(t, false), Aim: aim, Params: r.IntN(4) == 0}
	default:
		return &Stmt{Kind: "delete", Table: t.Name, Where: g.where(t, r.IntN(3) > 0)}
	}
}

func (g *gen) tx(sess int, solo bool) *TxPlan {
	r := g.r
	p := &TxPlan{Sess: sess, Seq: g.seq[sess]}
	g.seq[sess]++
	p.Mode = pick(r, "auto", "auto", "implicit", "block", "block", "steps", "steps")
	n := 1
	if p.Mode != "auto" {
		n = 2 + r.IntN(3)
		p.Rollback = (p.Mode == "block" || p.Mode == "steps") && r.IntN(7) == 0
	}
	if p.Mode != "auto" && r.IntN(6) == 0 {
		for _, at := range g.tables {
			if at.Auto {
				g.mixTx(p, at)
				return p
			}
		}
	}
	t := g.tables[r.IntN(len(g.tables))]
	for i := 0; i < n; i++ {
		if r.IntN(4) == 0 {
			t = g.tables[r.IntN(len(g.tables))]
		}
		tagBase := fmt.Sprintf("s%d.t%d.q%d", sess, p.Seq, i)
		var s *Stmt
		if i > 0 && r.IntN(6) == 0 && p.Stmts[i-1].Kind == "delete" {
			// delete then re-insert of the same key inside one transaction
			s = g.insertStmt(t, "insert", "", tagBase, 1)
			g.pinKey(t, s, p.Stmts[i-1].Where)
		} else {
			s = g.dmlStmt(t, tagBase, "")
		}
		p.Stmts = append(p.Stmts, s)
	}
	// an auto-increment table gets either generated or explicit keys within one transaction
	g.separateAutoKeys(p)
	return p
}

// mixTx: one transaction writes rows with explicit keys at or just above the table's largest key and rows
// with generated keys into the same auto-increment table (the explicit key is bound at run time to
// <largest live key> + k). Whatever the engine decides about the explicit key, a generated key must not
// land on a live row - the transaction's own rows included - and every row of a committed transaction stays.
func (g *gen) mixTx(p *TxPlan, t *Table) {
	r := g.r
	p.Mix, p.Rollback = true, false
	tagBase := func() string { return fmt.Sprintf("s%d.t%d.q%d", p.Sess, p.Seq, len(p.Stmts)) }
	stripID := func(s *Stmt) {
		for j, cn := range s.Cols {
			if cn == t.PK[0] {
				s.Cols = append(s.Cols[:j:j], s.Cols[j+1:]...)
				for i := range s.Rows {
					s.Rows[i] = append(s.Rows[i][:j:j], s.Rows[i][j+1:]...)
				}
				return
			}
		}
	}
	explicit := func(off int64) {
		s := g.insertStmt(t, pick(r, "insert", "insert", "upsert"), "auto-collide", tagBase(), 1)
		for j, cn := range s.Cols {
			if cn == t.PK[0] {
				s.Rows[0][j] = Val{K: 'r', I: off}
			}
		}
		s.Aim = "auto-collide"
		p.Stmts = append(p.Stmts, s)
	}
	generated := func(rows int) {
		s := g.insertStmt(t, pick(r, "insert", "insert", "insert", "insert-nothing", "insert-update"), "", tagBase(), rows)
		stripID(s)
		s.Aim = "auto-collide"
		p.Stmts = append(p.Stmts, s)
	}
	k := 1 + r.IntN(3)
	switch r.IntN(3) {
	case 0: // explicit key first; the k-th generated key reaches it
		explicit(int64(k))
		generated(k + r.IntN(2))
	case 1: // generated keys, then an explicit key equal to the next one, then a generated key
		if k > 1 {
			generated(k - 1)
		}
		explicit(int64(k))
		generated(1 + r.IntN(2))
	default: // explicit key far enough above: nothing collides, every row must survive
		explicit(int64(k + 3 + r.IntN(3)))
		generated(1 + r.IntN(3))
	}
	if r.IntN(3) == 0 && len(g.tables) > 1 {
		if o := g.tables[r.IntN(len(g.tables))]; o != t {
			p.Stmts = append(p.Stmts, g.dmlStmt(o, tagBase(), ""))
		}
	}
}

// pinKey makes an insert target the key named by an equality WHERE (delete then re-insert).
func (g *gen) pinKey(t *Table, s *Stmt, where []Term) {
	if s.Table != t.Name {
		return
	}
	for _, w := range where {
		if w.Op != "=" {
			continue
		}
		found := false
		for i, cn := range s.Cols {
			if cn == w.Col {
				s.Rows[0][i] = w.Val
				found = true
			}
		}
		if !found {
			s.Cols = append(s.Cols, w.Col)
			s.Rows[0] = append(s.Rows[0], w.Val)
		}
	}
}

func (g *gen) separateAutoKeys(p *TxPlan) {
	if p.Mix {
		return
	}
	mode := map[string]string{}
	var keep []*Stmt
	for _, s := range p.Stmts {
		var t *Table
		for _, x := range g.tables {
			if x.Name == s.Table {
				t = x
			}
		}
		if t == nil || !t.Auto || len(s.Rows) == 0 {
			keep = append(keep, s)
			continue
		}
		m := "generated"
		for _, cn := range s.Cols {
			if cn == t.PK[0] {
				m = "explicit"
			}
		}
		if prev, ok := mode[t.Name]; ok && prev != m {
			continue // dropped: would mix both kinds in one transaction
		}
		mode[t.Name] = m
		keep = append(keep, s)
	}
	p.Stmts = keep
	if len(p.Stmts) == 1 && p.Mode == "implicit" {
		p.Mode = "auto"
	}
}

func genProgram(r *rand.Rand, sessions int, phases int, txPerSess int) *Program {
	g := &gen{r: r, seq: make([]int, sessions+1)}
	styles := []string{"auto", "int", "comp"}
	r.Shuffle(len(styles), func(i, j int) { styles[i], styles[j] = styles[j], styles[i] })
	nt := 2 + r.IntN(2)
	for i := 0; i < nt; i++ {
		g.tables = append(g.tables, genTable(r, fmt.Sprintf("t%d", i), styles[i%3]))
	}
	late := genTable(r, "tl", "late")
	prog := &Program{}
	for _, t := range g.tables {
		prog.Tables = append(prog.Tables, t.clone())
	}
	prog.Tables = append(prog.Tables, late.clone())
	latePhase := r.IntN(phases)
	for ph := 0; ph < phases; ph++ {
		dml := &Phase{Kind: "dml", Sess: make([][]*TxPlan, sessions)}
		if ph == latePhase {
			// the late table joins the workload in the phase in which a unique index is created on it concurrently
			g.tables = append(g.tables, late)
		}
		for s := 0; s < sessions; s++ {
			for i := 0; i < txPerSess; i++ {
				dml.Sess[s] = append(dml.Sess[s], g.tx(s, sessions == 1))
			}
		}
		// name-stable DDL running concurrently with the DML of the phase
		s0 := r.IntN(sessions)
		var ddl *Stmt
		switch {
		case ph == latePhase:
			ddl = &Stmt{Kind: "create-unique-index", Table: "tl", IdxCols: []string{"w"}, Aim: "dup-unique"}
			late.Uniq = append(late.Uniq, []string{"w"})
		case r.IntN(2) == 0:
			t := g.tables[r.IntN(len(g.tables))]
			if x := t.byRole("x"); x != nil && len(t.Idx) == 0 {
				ddl = &Stmt{Kind: "create-index", Table: t.Name, IdxCols: []string{x.Name}}
				t.Idx = append(t.Idx, []string{x.Name})
			}
		default:
			t := g.tables[r.IntN(len(g.tables))]
			if u := t.byRole("y"); u != nil && r.IntN(2) == 0 {
				// unique index on a populated table: must be refused or leave no duplicates
				ddl = &Stmt{Kind: "create-unique-index", Table: t.Name, IdxCols: []string{u.Name}, Aim: "dup-unique"}
			}
		}
		if ddl != nil {
			p := &TxPlan{Sess: s0, Seq: g.seq[s0], Mode: "auto", Stmts: []*Stmt{ddl}}
			g.seq[s0]++
			at := 0
			if ph == latePhase {
				at = r.IntN(1 + len(dml.Sess[s0])/3)
			} else {
				at = r.IntN(1 + len(dml.Sess[s0]))
			}
			dml.Sess[s0] = append(dml.Sess[s0][:at], append([]*TxPlan{p}, dml.Sess[s0][at:]...)...)
		}
		prog.Phases = append(prog.Phases, dml)
		if ph < phases-1 {
			prog.Phases = append(prog.Phases, g.ddlPhase(sessions))
		}
	}
	return prog
}

// ddlPhase: schema changes executed by one session while the others are idle.
func (g *gen) ddlPhase(sessions int) *Phase {
	r := g.r
	ph := &Phase{Kind: "ddl", Sess: make([][]*TxPlan, 1)}
	sess := sessions // a session id of its own
	n := 1 + r.IntN(3)
	for i := 0; i < n; i++ {
		t := g.tables[r.IntN(len(g.tables))]
		p := &TxPlan{Sess: sess, Seq: g.seq[sess], Mode: "auto"}
		g.seq[sess]++
		tagBase := fmt.Sprintf("s%d.t%d", sess, p.Seq)
		switch r.IntN(10) {
		case 0: // add a column (sometimes together with DML using it, sometimes in a tx that then fails)
			g.zcount++
			c := &Col{Name: fmt.Sprintf("z%d", g.zcount), Type: pick(r, "INTEGER", "VARCHAR"), Max: 3, Role: "z"}
			if c.Type == "INTEGER" {
				c.Max = 0
			}
			p.Stmts = append(p.Stmts, &Stmt{Kind: "add-column", Table: t.Name, ColDef: c})
			switch r.IntN(3) {
			case 0:
				p.Mode = "block"
				tc := t.clone()
				tc.Cols = append(tc.Cols, c)
				p.Stmts = append(p.Stmts, (&gen{r: r, tables: []*Table{tc}}).insertStmt(tc, "insert", "", tagBase+".q1", 2))
				t.Cols = append(t.Cols, c)
			case 1:
				// the tx is aborted by a failing statement: the column must not exist afterwards
				p.Mode = pick(r, "block", "steps", "implicit")
				bad := g.insertStmt(t, "insert", pick(r, "null", "check", "len", "type"), tagBase+".q1", 1)
				if bad.Aim == "" {
					bad = g.insertStmt(t, "insert", "type", tagBase+".q1", 1)
				}
				p.Stmts = append(p.Stmts, bad)
				if bad.Aim == "" {
					t.Cols = append(t.Cols, c) // no failing statement could be built: the column will exist
				}
			default:
				t.Cols = append(t.Cols, c)
			}
		case 1: // NOT NULL column on a (probably) populated table
			p.Stmts = append(p.Stmts, &Stmt{Kind: "add-column", Table: t.Name, Aim: "null",
				ColDef: &Col{Name: "znn", Type: "INTEGER", NotNull: true, Role: "z"}})
		case 2: // drop an unconstrained column
			var cands []*Col
			for _, c := range t.Cols {
				if c.Role == "y" || c.Role == "z" || (c.Role == "x" && len(t.Idx) == 0) {
					cands = append(cands, c)
				}
			}
			if len(cands) == 0 {
				continue
			}
			c := cands[r.IntN(len(cands))]
			p.Stmts = append(p.Stmts, &Stmt{Kind: "drop-column", Table: t.Name, Col: c.Name})
			var cols []*Col
			for _, x := range t.Cols {
				if x != c {
					cols = append(cols, x)
				}
			}
			t.Cols = cols
		case 3: // rename a column (indexed and unique ones included; CHECK and key columns are left alone)
			var cands []*Col
			for _, c := range t.Cols {
				switch c.Role {
				case "u", "x", "y", "z", "s", "n", "q", "w":
					cands = append(cands, c)
				}
			}
			if len(cands) == 0 {
				continue
			}
			c := cands[r.IntN(len(cands))]
			nn := c.Name + "r"
			p.Stmts = append(p.Stmts, &Stmt{Kind: "rename-column", Table: t.Name, Col: c.Name, NewName: nn})
			ren := func(ls [][]string) {
				for _, l := range ls {
					for i := range l {
						if l[i] == c.Name {
							l[i] = nn
						}
					}
				}
			}
			ren(t.Uniq)
			ren(t.Idx)
			c.Name = nn
		case 4: // unique index on a populated table
			x := t.byRole("x")
			if x == nil {
				continue
			}
			p.Stmts = append(p.Stmts, &Stmt{Kind: "create-unique-index", Table: t.Name, IdxCols: []string{x.Name}, Aim: "dup-unique"})
		case 5: // plain index on a populated table
			x := t.byRole("x")
			if x == nil || len(t.Idx) > 0 {
				continue
			}
			p.Stmts = append(p.Stmts, &Stmt{Kind: "create-index", Table: t.Name, IdxCols: []string{x.Name}})
			t.Idx = append(t.Idx, []string{x.Name})
		case 7, 8: // DROP CONSTRAINT inside a transaction that does not commit: the CHECK must stay in force for everybody
			var named []Check
			for _, k := range t.Checks {
				if k.Name != "" {
					named = append(named, k)
				}
			}
			if len(named) == 0 {
				continue
			}
			k := named[r.IntN(len(named))]
			p.Mode = pick(r, "block", "steps")
			p.Stmts = append(p.Stmts, &Stmt{Kind: "drop-constraint", Table: t.Name, Col: k.Name})
			if r.IntN(2) == 0 {
				// a violating row goes in while the constraint is gone for this transaction
				if ok := g.insertStmt(t, "insert", "check", tagBase+".q1", 1); ok.Aim == "check" {
					ok.Aim = "" // admissible inside this transaction
					p.Stmts = append(p.Stmts, ok)
				}
			}
			if bad := g.insertStmt(t, "insert", pick(r, "null", "len", "type"), tagBase+".q2", 1); bad.Aim != "" && r.IntN(2) == 0 {
				p.Stmts = append(p.Stmts, bad) // the transaction is aborted by a failing statement ...
			} else {
				p.Rollback = true // ... or rolled back
			}
		default: // drop a constrained column: refusal expected
			var cands []*Col
			for _, c := range t.Cols {
				if c.Role == "u" || c.Role == "c" || c.Role == "pk" {
					cands = append(cands, c)
				}
			}
			if len(cands) == 0 {
				continue
			}
			p.Stmts = append(p.Stmts, &Stmt{Kind: "drop-column", Table: t.Name, Col: cands[r.IntN(len(cands))].Name, Aim: "drop-constrained"})
		}
		ph.Sess[0] = append(ph.Sess[0], p)
	}
	return ph
}
