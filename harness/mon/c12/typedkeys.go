package c12

// Stage "typed keys": the main programs know INTEGER, VARCHAR and BLOB only. Here the key and
// unique-index columns are of the other SQL types (TIMESTAMP, FLOAT, UUID, BOOLEAN, plus VARCHAR and
// INTEGER as controls) and every value enters in several *spellings* (literal, CAST from a string in
// each accepted layout, CAST from a number, parameter of the native Go type, more digits than the type
// keeps, another time zone for the same instant, upper/lower case). No SQL semantics are written down:
// the engine's own read-back defines which stored values are equal. Refuted by: two live rows whose
// read-back values under the primary key or a unique index are equal; an acknowledged plain INSERT
// that did not add a row; a refused statement or rolled-back transaction that changed the table.
// One session (concurrency is what the main programs are for).

import (
	"context"
	"encoding/json"
	"errors"
	"fmt"
	"math/rand/v2"
	"os"
	"sort"
	"strconv"
	"strings"
	"time"

	"github.com/google/uuid"

	"github.com/codenotary/immudb/embedded/sql"
	"github.com/codenotary/immudb/embedded/store"

	"verifharness/internal/fw"
	"verifharness/internal/sth"
)

func init() { fw.RegisterIsolated("c12-typedkeys", typedKeysCase) }

type tkSpec struct {
	Index int
	Type  string
	Steps int
}

// spelling: SQL text of an expression (with @p when a parameter carries the value)
type spelling struct {
	expr  string
	param any
	how   string
}

// base values per type are small pools, so that equal values meet often
func tkSpellings(r *rand.Rand, typ string) spelling {
	switch typ {
	case "TIMESTAMP":
		// instants of a handful of microseconds; the spellings of one instant differ in layout, zone and digits kept
		base := time.Date(2024, 5, 6, 7, 8, 9, 0, time.UTC).Add(time.Duration(r.IntN(3)) * time.Second).Add(time.Duration(r.IntN(3)) * time.Microsecond)
		sub := time.Duration(r.IntN(1000)) // nanoseconds below the microsecond: not kept by the type
		if base.Nanosecond() == 0 && r.IntN(2) == 0 {
			sub = 0
		}
		t := base.Add(sub)
		switch r.IntN(8) {
		case 0:
			return spelling{"CAST('" + base.Format("2006-01-02 15:04:05.999999") + "' AS TIMESTAMP)", nil, "cast-space-micro"}
		case 1:
			return spelling{"CAST('" + t.Format(time.RFC3339Nano) + "' AS TIMESTAMP)", nil, "cast-rfc3339nano"}
		case 2:
			z := time.FixedZone("", []int{2, -5, 9}[r.IntN(3)]*3600)
			return spelling{"CAST('" + t.In(z).Format(time.RFC3339Nano) + "' AS TIMESTAMP)", nil, "cast-rfc3339nano-other-zone"}
		case 3:
			return spelling{"CAST('" + t.Format("2006-01-02T15:04:05.999999999") + "' AS TIMESTAMP)", nil, "cast-iso-nano-no-zone"}
		case 4:
			return spelling{"@p", t, "param-time-with-nanos"}
		case 5:
			return spelling{"CAST(@p AS TIMESTAMP)", t.Format(time.RFC3339Nano), "cast-param-string"}
		case 6:
			return spelling{"@p", base.In(time.FixedZone("x", 3600)), "param-time-other-zone"}
		}
		return spelling{"@p", base, "param-time"}
	case "FLOAT":
		base := []float64{1, 2.5, 3, 1e10, 0.1, -7}[r.IntN(6)]
		s := strconv.FormatFloat(base, 'g', -1, 64)
		switch r.IntN(6) {
		case 0:
			return spelling{"CAST('" + s + "' AS FLOAT)", nil, "cast-string"}
		case 1:
			return spelling{"CAST('" + strconv.FormatFloat(base, 'e', 20, 64) + "' AS FLOAT)", nil, "cast-string-exp"}
		case 2:
			if base == float64(int64(base)) {
				return spelling{fmt.Sprintf("CAST(%d AS FLOAT)", int64(base)), nil, "cast-integer"}
			}
		case 3:
			return spelling{"@p", base, "param-float64"}
		case 4:
			if base == float64(int64(base)) && base < 1e6 {
				return spelling{fmt.Sprintf("%d.0", int64(base)), nil, "literal-dot-zero"}
			}
		}
		return spelling{strconv.FormatFloat(base, 'f', -1, 64) + func() string {
			if base == float64(int64(base)) {
				return ".0"
			}
			return ""
		}(), nil, "literal"}
	case "UUID":
		u := uuid.MustParse([]string{"0194f3f2-7a3e-7b11-8c55-0a1b2c3d4e5f", "ffffffff-ffff-ffff-ffff-ffffffffffff", "00000000-0000-0000-0000-000000000001"}[r.IntN(3)])
		switch r.IntN(5) {
		case 0:
			return spelling{"CAST('" + strings.ToUpper(u.String()) + "' AS UUID)", nil, "cast-upper"}
		case 1:
			return spelling{"CAST('" + u.String() + "' AS UUID)", nil, "cast-lower"}
		case 2:
			return spelling{"@p", u, "param-uuid"}
		case 3:
			return spelling{"CAST(@p AS UUID)", u.String(), "cast-param-string"}
		}
		return spelling{"CAST('" + strings.ReplaceAll(u.String(), "-", "") + "' AS UUID)", nil, "cast-no-dashes"}
	case "BOOLEAN":
		b := r.IntN(2) == 0
		switch r.IntN(4) {
		case 0:
			return spelling{strings.ToUpper(strconv.FormatBool(b)), nil, "literal-upper"}
		case 1:
			return spelling{"@p", b, "param-bool"}
		case 2:
			return spelling{"CAST('" + strconv.FormatBool(b) + "' AS BOOLEAN)", nil, "cast-string"}
		}
		return spelling{strconv.FormatBool(b), nil, "literal"}
	case "VARCHAR":
		s := []string{"a", "A", "a ", "", "é", "é"}[r.IntN(6)]
		if r.IntN(2) == 0 {
			return spelling{"@p", s, "param-string"}
		}
		return spelling{"'" + s + "'", nil, "literal"}
	}
	n := int64(r.IntN(5))
	switch r.IntN(3) {
	case 0:
		return spelling{"@p", n, "param-int64"}
	case 1:
		return spelling{fmt.Sprintf("CAST('%d' AS INTEGER)", n), nil, "cast-string"}
	}
	return spelling{strconv.FormatInt(n, 10), nil, "literal"}
}

// canon: the engine's read-back value as a comparable string
func canon(v sql.TypedValue) string {
	if v == nil || v.IsNull() {
		return "NULL"
	}
	switch x := v.RawValue().(type) {
	case time.Time:
		return "t:" + x.UTC().Format(time.RFC3339Nano)
	case float64:
		return "f:" + strconv.FormatFloat(x, 'g', -1, 64)
	case []byte:
		return fmt.Sprintf("b:%x", x)
	default:
		return fmt.Sprintf("%T:%v", x, x)
	}
}

type tkRunner struct {
	c    *fw.Ctx
	sp   tkSpec
	eng  *sql.Engine
	log  []string
	dead bool
}

func (t *tkRunner) logf(f string, a ...any) { t.log = append(t.log, fmt.Sprintf(f, a...)) }

func (t *tkRunner) viol(sig, detail string) {
	t.c.Violation("typed-key/"+t.sp.Type+"/"+sig, fmt.Sprintf("[typed keys case %d] %s", t.sp.Index, detail),
		map[string][]byte{"statements.sql": []byte(strings.Join(t.log, "\n"))})
}

// snapshot: rows of a table as canonical strings per column, sorted
func (t *tkRunner) snapshot(table string, cols []string) ([][]string, error) {
	ctx := context.Background()
	rd, err := t.eng.Query(ctx, nil, "SELECT "+strings.Join(cols, ", ")+" FROM "+table, nil)
	if err != nil {
		return nil, err
	}
	defer rd.Close()
	var out [][]string
	for {
		row, err := rd.Read(ctx)
		if errors.Is(err, sql.ErrNoMoreRows) {
			break
		}
		if err != nil {
			return nil, err
		}
		r := make([]string, len(cols))
		for i := range cols {
			r[i] = canon(row.ValuesByPosition[i])
		}
		out = append(out, r)
	}
	sort.Slice(out, func(i, j int) bool { return strings.Join(out[i], "|") < strings.Join(out[j], "|") })
	return out, nil
}

func rowsKey(rows [][]string) string {
	var b strings.Builder
	for _, r := range rows {
		b.WriteString(strings.Join(r, "|"))
		b.WriteByte('\n')
	}
	return b.String()
}

// noDuplicates: no two rows with equal non-NULL tuples in the given column positions
func (t *tkRunner) noDuplicates(table, what string, rows [][]string, pos []int, after string) {
	seen := map[string]int{}
	for i, r := range rows {
		var k []string
		null := false
		for _, p := range pos {
			null = null || r[p] == "NULL"
			k = append(k, r[p])
		}
		if null {
			continue
		}
		key := strings.Join(k, "|")
		if j, ok := seen[key]; ok {
			t.viol("duplicate-under-"+what, fmt.Sprintf("after %s, table %s holds two live rows with the same read-back value %s under its %s: %v and %v", after, table, key, what, rows[j], r))
			t.dead = true
			return
		}
		seen[key] = i
	}
	t.c.Eval(1)
}

func typedKeysCase(c *fw.Ctx, data []byte) {
	var sp tkSpec
	json.Unmarshal(data, &sp)
	dir := c.Dir("tk")
	defer os.RemoveAll(dir)
	st, err := store.Open(dir, store.DefaultOptions().WithMultiIndexing(true).WithSynced(false).WithMaxConcurrency(4).WithMaxTxEntries(64).WithLogger(sth.QuietLogger()))
	if err != nil {
		c.Inconclusive("typed keys: open: " + err.Error())
		return
	}
	defer st.Close()
	eng, err := sql.NewEngine(st, sql.DefaultOptions().WithPrefix([]byte{2}))
	if err != nil {
		c.Inconclusive("typed keys: engine: " + err.Error())
		return
	}
	t := &tkRunner{c: c, sp: sp, eng: eng}
	r := c.Rand(fmt.Sprintf("c12/typedkeys/%d", sp.Index))
	ctx := context.Background()
	decl := sp.Type
	if decl == "VARCHAR" {
		decl = "VARCHAR[16]"
	}
	ddl := []string{
		fmt.Sprintf("CREATE TABLE k (k %s, v INTEGER, PRIMARY KEY k)", decl),
		fmt.Sprintf("CREATE TABLE u (id INTEGER AUTO_INCREMENT, k %s, w INTEGER, v INTEGER, PRIMARY KEY id)", decl),
		"CREATE UNIQUE INDEX ON u(k)",
		fmt.Sprintf("CREATE TABLE m (id INTEGER AUTO_INCREMENT, w INTEGER, k %s, v INTEGER, PRIMARY KEY id)", decl),
		"CREATE UNIQUE INDEX ON m(w, k)",
		fmt.Sprintf("CREATE TABLE n (w INTEGER, k %s, v INTEGER, PRIMARY KEY (w, k))", decl),
	}
	have := map[string]bool{}
	for _, q := range ddl {
		t.logf("%s;", q)
		_, _, err := eng.Exec(ctx, nil, q, nil)
		tbl := strings.Fields(strings.TrimPrefix(strings.TrimPrefix(q, "CREATE TABLE "), "CREATE UNIQUE INDEX ON "))[0]
		tbl = strings.SplitN(tbl, "(", 2)[0]
		if err != nil {
			t.logf("-- refused: %v", err)
			c.Distinct(fmt.Sprintf("typed-key|%s|ddl-refused|%s", sp.Type, tbl))
			have[tbl] = false
			continue
		}
		if _, seen := have[tbl]; !seen {
			have[tbl] = true
		}
	}
	type tdef struct {
		name string
		cols []string
		pk   []int
		uq   []int
	}
	var tables []tdef
	for _, d := range []tdef{
		{"k", []string{"k", "v"}, []int{0}, nil},
		{"u", []string{"id", "k", "w", "v"}, []int{0}, []int{1}},
		{"m", []string{"id", "w", "k", "v"}, []int{0}, []int{1, 2}},
		{"n", []string{"w", "k", "v"}, []int{0, 1}, nil},
	} {
		if have[d.name] {
			tables = append(tables, d)
		}
	}
	if len(tables) == 0 {
		c.Distinct(fmt.Sprintf("typed-key|%s|no-table-accepted", sp.Type))
		return
	}
	vcount := 0
	for step := 0; step < sp.Steps && !t.dead; step++ {
		d := tables[r.IntN(len(tables))]
		before, err := t.snapshot(d.name, d.cols)
		if err != nil {
			c.Inconclusive(fmt.Sprintf("typed keys case %d: cannot read %s: %v", sp.Index, d.name, err))
			return
		}
		// one transaction: 1-3 statements, autocommit or BEGIN..COMMIT / ROLLBACK
		nst := 1
		mode := "autocommit"
		if r.IntN(3) == 0 {
			nst = 2 + r.IntN(2)
			mode = []string{"block-commit", "block-commit", "block-rollback"}[r.IntN(3)]
		}
		params := map[string]any{}
		var stmts []string
		var hows []string
		plainInserts := 0
		onlyPlain := true
		for i := 0; i < nst; i++ {
			sp1 := tkSpellings(r, sp.Type)
			pn := fmt.Sprintf("p%d", i)
			expr := strings.ReplaceAll(sp1.expr, "@p", "@"+pn)
			if sp1.param != nil {
				params[pn] = sp1.param
			}
			vcount++
			w := r.IntN(2)
			var q, kind string
			switch x := r.IntN(10); {
			case x < 5:
				kind = "insert"
				plainInserts++
			case x < 6:
				kind = "upsert"
			case x < 7:
				kind = "insert-nothing"
			case x < 9:
				kind = "update"
			default:
				kind = "delete"
			}
			if kind != "insert" {
				onlyPlain = false
			}
			colsOf := map[string]string{"k": "(k, v)", "u": "(k, w, v)", "m": "(w, k, v)", "n": "(w, k, v)"}[d.name]
			valsOf := map[string]string{"k": fmt.Sprintf("(%s, %d)", expr, vcount), "u": fmt.Sprintf("(%s, %d, %d)", expr, w, vcount),
				"m": fmt.Sprintf("(%d, %s, %d)", w, expr, vcount), "n": fmt.Sprintf("(%d, %s, %d)", w, expr, vcount)}[d.name]
			switch kind {
			case "insert":
				q = fmt.Sprintf("INSERT INTO %s %s VALUES %s", d.name, colsOf, valsOf)
			case "upsert":
				q = fmt.Sprintf("UPSERT INTO %s %s VALUES %s", d.name, colsOf, valsOf)
			case "insert-nothing":
				q = fmt.Sprintf("INSERT INTO %s %s VALUES %s ON CONFLICT DO NOTHING", d.name, colsOf, valsOf)
			case "update":
				if d.name == "k" || d.name == "n" { // key columns cannot be updated: update the payload through the key
					q = fmt.Sprintf("UPDATE %s SET v = %d WHERE k = %s", d.name, vcount, expr)
				} else {
					q = fmt.Sprintf("UPDATE %s SET k = %s WHERE v = %d", d.name, expr, 1+r.IntN(vcount))
				}
			case "delete":
				q = fmt.Sprintf("DELETE FROM %s WHERE k = %s", d.name, expr)
			}
			stmts = append(stmts, q)
			hows = append(hows, kind+":"+sp1.how)
		}
		text := strings.Join(stmts, "; ")
		switch mode {
		case "block-commit":
			text = "BEGIN TRANSACTION; " + text + "; COMMIT;"
		case "block-rollback":
			text = "BEGIN TRANSACTION; " + text + "; ROLLBACK;"
		}
		t.logf("%s  -- params %v", text, params)
		_, _, err = eng.Exec(ctx, nil, text, params)
		t.logf("-- -> %v", err)
		after, err2 := t.snapshot(d.name, d.cols)
		if err2 != nil {
			c.Inconclusive(fmt.Sprintf("typed keys case %d: cannot read %s: %v", sp.Index, d.name, err2))
			return
		}
		outcome := "ok"
		if err != nil {
			outcome = errClass(err)
		}
		for _, h := range hows {
			c.Distinct(fmt.Sprintf("typed-key|%s|%s|%s|%s|%s", sp.Type, d.name, h, mode, outcome))
		}
		desc := fmt.Sprintf("`%s` (params %v) answered %v", text, params, err)
		switch {
		case err != nil || mode == "block-rollback":
			c.Eval(1)
			if rowsKey(before) != rowsKey(after) {
				t.viol("refused-or-rolled-back-changed-the-table", fmt.Sprintf("%s and table %s changed from %v to %v", desc, d.name, before, after))
				t.dead = true
			}
		default:
			if onlyPlain {
				c.Eval(1)
				if len(after) != len(before)+plainInserts {
					t.viol("acknowledged-insert-is-not-a-new-row", fmt.Sprintf("%s: %d plain INSERTs were acknowledged and table %s went from %d to %d rows", desc, plainInserts, d.name, len(before), len(after)))
					t.dead = true
				}
			}
		}
		t.noDuplicates(d.name, "primary-key", after, d.pk, desc)
		if d.uq != nil && !t.dead {
			t.noDuplicates(d.name, "unique-index", after, d.uq, desc)
		}
	}
	if sp.Index < 6 {
		c.Sample(map[string]any{"stage": "typed-keys", "type": sp.Type, "tables": len(tables), "statements": len(t.log)})
	}
}

func runTypedKeys(c *fw.Ctx) {
	types := []string{"TIMESTAMP", "FLOAT", "UUID", "BOOLEAN", "VARCHAR", "INTEGER"}
	n := c.N(24, 600)
	cases := make([][]byte, n)
	for i := range cases {
		cases[i], _ = json.Marshal(tkSpec{Index: i, Type: types[i%len(types)], Steps: c.N(150, 400)})
	}
	c.RunIsolated("c12-typedkeys", cases, fw.CasesOpts{Workers: 14, CaseTimout: 15 * time.Minute})
}
