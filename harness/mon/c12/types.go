package c12

import (
	"encoding/hex"
	"fmt"
	"sort"
	"strconv"
	"strings"
)

// ---- values -----------------------------------------------------------------

// Val is a SQL value of the generated subset: NULL, INTEGER, VARCHAR, BLOB
// ('?' = something the harness did not expect to read back).
type Val struct {
	K byte // 0 NULL, 'i', 's', 'b', '?'; 'r' = integer bound when the transaction starts: (largest live key of the table) + I
	I int64
	S string
}

func vNull() Val         { return Val{} }
func vInt(i int64) Val   { return Val{K: 'i', I: i} }
func vStr(s string) Val  { return Val{K: 's', S: s} }
func vBlob(s string) Val { return Val{K: 'b', S: s} }

func (v Val) IsNull() bool { return v.K == 0 }

func (v Val) Lit() string {
	switch v.K {
	case 0:
		return "NULL"
	case 'i':
		return strconv.FormatInt(v.I, 10)
	case 's':
		return "'" + v.S + "'"
	case 'b':
		return "x'" + strings.ToUpper(hex.EncodeToString([]byte(v.S))) + "'"
	case 'r':
		return fmt.Sprintf("<max key + %d>", v.I)
	}
	return "?"
}

func (v Val) Param() any {
	switch v.K {
	case 'i':
		return v.I
	case 's':
		return v.S
	case 'b':
		return []byte(v.S)
	}
	return nil
}

func (v Val) String() string { return v.Lit() }

func (v Val) Eq(w Val) bool { return v.K == w.K && v.I == w.I && v.S == w.S }

// ---- schema -----------------------------------------------------------------

type Col struct {
	Name    string
	Type    string // INTEGER | VARCHAR | BLOB
	Max     int    // declared maximum length (VARCHAR / BLOB)
	NotNull bool
	Auto    bool
	Role    string // generator's view of the column: pk, pka, pkb, tag, u, p, q, n, c, s, bl, x, y, w, z
}

func (c *Col) Decl() string {
	s := c.Name + " " + c.Type
	if c.Type != "INTEGER" {
		s += fmt.Sprintf("[%d]", c.Max)
	}
	if c.Auto {
		s += " AUTO_INCREMENT"
	}
	if c.NotNull {
		s += " NOT NULL"
	}
	return s
}

// Check is the only generated CHECK shape: a conjunction of comparisons of one
// column with constants: col >= Lo [AND col < Hi].
type Check struct {
	Name  string // constraint name (CONSTRAINT <name> CHECK ...); empty: unnamed
	Col   string
	Lo    int64
	HasHi bool
	Hi    int64
}

func (k Check) Expr() string {
	if k.HasHi {
		return fmt.Sprintf("%s >= %d AND %s < %d", k.Col, k.Lo, k.Col, k.Hi)
	}
	return fmt.Sprintf("%s >= %d", k.Col, k.Lo)
}

// Holds evaluates the CHECK on a value: 1 true, 0 false, -1 unknown (NULL operand).
func (k Check) Holds(v Val) int {
	if v.K != 'i' {
		return -1
	}
	if v.I < k.Lo || (k.HasHi && v.I >= k.Hi) {
		return 0
	}
	return 1
}

type Row struct {
	Vals map[string]Val
	// Viol remembers which committed statement kind first left this row violating a constraint
	// (constraint key -> statement kind), for the attribution of state violations.
	Viol map[string]string
}

func (r *Row) clone() *Row {
	n := &Row{Vals: make(map[string]Val, len(r.Vals)), Viol: map[string]string{}}
	for k, v := range r.Vals {
		n.Vals[k] = v
	}
	for k, v := range r.Viol {
		n.Viol[k] = v
	}
	return n
}

type Table struct {
	Name   string
	Cols   []*Col
	PK     []string
	Uniq   [][]string
	Idx    [][]string
	Checks []Check
	Auto   bool
	Rows   map[string]*Row // model only: live rows by tag
}

func (t *Table) col(name string) *Col {
	for _, c := range t.Cols {
		if c.Name == name {
			return c
		}
	}
	return nil
}

func (t *Table) byRole(role string) *Col {
	for _, c := range t.Cols {
		if c.Role == role {
			return c
		}
	}
	return nil
}

func (t *Table) isPK(name string) bool {
	for _, p := range t.PK {
		if p == name {
			return true
		}
	}
	return false
}

func (t *Table) clone() *Table {
	n := &Table{Name: t.Name, Auto: t.Auto, PK: append([]string(nil), t.PK...), Checks: append([]Check(nil), t.Checks...), Rows: map[string]*Row{}}
	for _, c := range t.Cols {
		cc := *c
		n.Cols = append(n.Cols, &cc)
	}
	for _, u := range t.Uniq {
		n.Uniq = append(n.Uniq, append([]string(nil), u...))
	}
	for _, u := range t.Idx {
		n.Idx = append(n.Idx, append([]string(nil), u...))
	}
	for k, r := range t.Rows {
		n.Rows[k] = r.clone()
	}
	return n
}

func (t *Table) CreateSQL() string {
	var parts []string
	for _, c := range t.Cols {
		parts = append(parts, c.Decl())
	}
	for _, k := range t.Checks {
		if k.Name != "" {
			parts = append(parts, "CONSTRAINT "+k.Name+" CHECK ("+k.Expr()+")")
		} else {
			parts = append(parts, "CHECK ("+k.Expr()+")")
		}
	}
	if len(t.PK) == 1 {
		parts = append(parts, "PRIMARY KEY "+t.PK[0])
	} else {
		parts = append(parts, "PRIMARY KEY ("+strings.Join(t.PK, ", ")+")")
	}
	s := "CREATE TABLE " + t.Name + " (" + strings.Join(parts, ", ") + ")"
	for _, u := range t.Uniq {
		s += "; CREATE UNIQUE INDEX ON " + t.Name + "(" + strings.Join(u, ", ") + ")"
	}
	for _, u := range t.Idx {
		s += "; CREATE INDEX ON " + t.Name + "(" + strings.Join(u, ", ") + ")"
	}
	return s
}

func tupleKey(vals map[string]Val, cols []string) (key string, hasNull bool) {
	var sb strings.Builder
	for _, c := range cols {
		v := vals[c]
		if v.IsNull() {
			hasNull = true
		}
		sb.WriteByte(v.K + 1)
		sb.WriteString(v.Lit())
		sb.WriteByte(0)
	}
	return sb.String(), hasNull
}

// ---- statements -------------------------------------------------------------

type SetExp struct {
	Col string
	Val Val
	Add bool // col = col + Val.I
}

type Term struct {
	Col string
	Op  string // = | >= | <
	Val Val
}

type Stmt struct {
	Kind  string // insert | upsert | insert-nothing | insert-update | update | delete | create-index | create-unique-index | add-column | drop-column | rename-column
	Table string
	Cols  []string
	Rows  [][]Val
	Sets  []SetExp
	Where []Term // conjunction; empty = every row
	// DDL
	IdxCols []string
	ColDef  *Col
	Col     string
	NewName string

	Aim    string // constraint this statement was deliberately aimed at ("" = none)
	Params bool   // values travel as named parameters instead of literals
	Tags   []string
}

func (s *Stmt) isDDL() bool {
	switch s.Kind {
	case "create-index", "create-unique-index", "add-column", "drop-column", "rename-column", "drop-constraint":
		return true
	}
	return false
}

// SQL renders the statement; pfx makes parameter names unique inside one Exec call.
func (s *Stmt) SQL(pfx string, params map[string]any) string {
	np := 0
	val := func(v Val) string {
		if s.Params && !v.IsNull() {
			np++
			name := fmt.Sprintf("%sv%d", pfx, np)
			params[name] = v.Param()
			return "@" + name
		}
		return v.Lit()
	}
	sets := func() string {
		var ps []string
		for _, e := range s.Sets {
			if e.Add {
				ps = append(ps, fmt.Sprintf("%s = %s + %d", e.Col, e.Col, e.Val.I))
			} else {
				ps = append(ps, e.Col+" = "+val(e.Val))
			}
		}
		return strings.Join(ps, ", ")
	}
	where := func() string {
		if len(s.Where) == 0 {
			return ""
		}
		var ps []string
		for _, t := range s.Where {
			ps = append(ps, t.Col+" "+t.Op+" "+val(t.Val))
		}
		return " WHERE " + strings.Join(ps, " AND ")
	}
	switch s.Kind {
	case "insert", "upsert", "insert-nothing", "insert-update":
		verb := "INSERT"
		if s.Kind == "upsert" {
			verb = "UPSERT"
		}
		var rows []string
		for _, r := range s.Rows {
			var vs []string
			for _, v := range r {
				vs = append(vs, val(v))
			}
			rows = append(rows, "("+strings.Join(vs, ", ")+")")
		}
		q := fmt.Sprintf("%s INTO %s(%s) VALUES %s", verb, s.Table, strings.Join(s.Cols, ", "), strings.Join(rows, ", "))
		switch s.Kind {
		case "insert-nothing":
			q += " ON CONFLICT DO NOTHING"
		case "insert-update":
			q += " ON CONFLICT DO UPDATE SET " + sets()
		}
		return q
	case "update":
		return "UPDATE " + s.Table + " SET " + sets() + where()
	case "delete":
		return "DELETE FROM " + s.Table + where()
	case "create-index":
		return "CREATE INDEX ON " + s.Table + "(" + strings.Join(s.IdxCols, ", ") + ")"
	case "create-unique-index":
		return "CREATE UNIQUE INDEX ON " + s.Table + "(" + strings.Join(s.IdxCols, ", ") + ")"
	case "add-column":
		return "ALTER TABLE " + s.Table + " ADD COLUMN " + s.ColDef.Decl()
	case "drop-column":
		return "ALTER TABLE " + s.Table + " DROP COLUMN " + s.Col
	case "rename-column":
		return "ALTER TABLE " + s.Table + " RENAME COLUMN " + s.Col + " TO " + s.NewName
	case "drop-constraint":
		return "ALTER TABLE " + s.Table + " DROP CONSTRAINT " + s.Col
	}
	return "?"
}

func (s *Stmt) Text() string {
	p := map[string]any{}
	q := s.SQL("", p)
	if len(p) > 0 {
		keys := make([]string, 0, len(p))
		for k := range p {
			keys = append(keys, k)
		}
		sort.Strings(keys)
		var ps []string
		for _, k := range keys {
			ps = append(ps, fmt.Sprintf("%s=%v", k, p[k]))
		}
		q += "  -- params: " + strings.Join(ps, " ")
	}
	return q
}

// TxPlan is one generated transaction of one session.
type TxPlan struct {
	Sess, Seq int
	Mode      string // auto | implicit | block | steps
	Stmts     []*Stmt
	Rollback  bool
	Mix       bool // explicit and generated keys of one auto-increment table inside this transaction
}

func (p *TxPlan) Text() string {
	var ss []string
	for _, s := range p.Stmts {
		ss = append(ss, s.Text())
	}
	end := ""
	if p.Mode == "block" || p.Mode == "steps" {
		end = " [COMMIT]"
		if p.Rollback {
			end = " [ROLLBACK]"
		}
	}
	return fmt.Sprintf("s%d.t%d %s: %s%s", p.Sess, p.Seq, p.Mode, strings.Join(ss, " ;; "), end)
}
