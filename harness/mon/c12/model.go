package c12

import (
	"fmt"
	"sort"
	"strings"
)

// Model is the reference state: the statements of committed transactions only,
// applied in commit order. It is deliberately permissive: a committed statement
// is always applied ("as if no constraint existed"), and the verdict says whether
// a constraint-respecting engine could have committed it.
type Model struct {
	Tables map[string]*Table
	// ViolLog: table \x00 tag \x00 constraint key -> kind of the committed statement that left the row
	// violating it (kept after the row is gone: a concurrent scan may have seen it meanwhile).
	ViolLog map[string]string
}

func newModel(tables []*Table) *Model {
	m := &Model{Tables: map[string]*Table{}, ViolLog: map[string]string{}}
	for _, t := range tables {
		m.Tables[t.Name] = t.clone()
	}
	return m
}

// verdict on one committed statement.
type verdict struct {
	Must    []string // constraints that certainly forbid the statement (kind, e.g. "notnull", "dup-pk")
	Unknown bool     // the engine may legitimately either accept or refuse (NULL semantics, engine-specific rules)
	Effects int      // rows / schema objects changed
}

func (v *verdict) must(kind string) {
	for _, k := range v.Must {
		if k == kind {
			return
		}
	}
	v.Must = append(v.Must, kind)
}

type problem struct {
	key     string // e.g. notnull:n
	kind    string // notnull | check | len | type
	certain bool
}

func validateRow(t *Table, vals map[string]Val) []problem {
	var ps []problem
	for _, c := range t.Cols {
		v := vals[c.Name]
		if v.IsNull() {
			if c.NotNull && !c.Auto {
				ps = append(ps, problem{"notnull:" + c.Name, "notnull", true})
			}
			continue
		}
		want := map[string]byte{"INTEGER": 'i', "VARCHAR": 's', "BLOB": 'b'}[c.Type]
		if v.K != want {
			ps = append(ps, problem{"type:" + c.Name, "type", true})
			continue
		}
		if c.Type != "INTEGER" && len(v.S) > c.Max {
			ps = append(ps, problem{"len:" + c.Name, "len", true})
		}
	}
	for _, k := range t.Checks {
		if t.col(k.Col) == nil {
			continue
		}
		switch k.Holds(vals[k.Col]) {
		case 0:
			ps = append(ps, problem{"check:" + k.Col, "check", true})
		case -1:
			ps = append(ps, problem{"check:" + k.Col, "check", false})
		}
	}
	return ps
}

func (t *Table) findPK(vals map[string]Val) (string, *Row) {
	key, _ := tupleKey(vals, t.PK)
	for tag, r := range t.Rows {
		if k, _ := tupleKey(r.Vals, t.PK); k == key {
			return tag, r
		}
	}
	return "", nil
}

// uniqueConflicts reports, for a row about to be written, the unique indexes on which
// it duplicates another live row: certain (no NULL component) or only under NULL = NULL.
func (t *Table) uniqueConflicts(vals map[string]Val, excludeTag string) (certain []string, maybe bool) {
	for _, u := range t.Uniq {
		key, hasNull := tupleKey(vals, u)
		for tag, r := range t.Rows {
			if tag == excludeTag {
				continue
			}
			if k, _ := tupleKey(r.Vals, u); k == key {
				if hasNull {
					maybe = true
				} else {
					certain = append(certain, strings.Join(u, ","))
				}
				break
			}
		}
	}
	return
}

// attribute recomputes the row's standing violations, keeping older attributions.
func (m *Model) attribute(t *Table, tag string, r *Row, prev *Row, stmtKind string, dups []string, dupPK bool) {
	viol := map[string]string{}
	keep := func(key string) {
		if prev != nil {
			if k, ok := prev.Viol[key]; ok {
				viol[key] = k
				return
			}
		}
		viol[key] = stmtKind
	}
	for _, p := range validateRow(t, r.Vals) {
		if p.certain {
			keep(p.key)
		}
	}
	for _, d := range dups {
		keep("dup-unique:" + d)
	}
	if dupPK {
		keep("dup-pk")
	}
	r.Viol = viol
	for k, v := range viol {
		if _, ok := m.ViolLog[t.Name+"\x00"+tag+"\x00"+k]; !ok {
			m.ViolLog[t.Name+"\x00"+tag+"\x00"+k] = v
		}
	}
}

// idSeq: the generated keys of one committed transaction, per table, in the order its rows consume them.
type idSeq struct {
	queue map[string][]int64
}

func (m *Model) Apply(s *Stmt, ids *idSeq) (verdict, error) {
	t := m.Tables[s.Table]
	if t == nil {
		return verdict{}, fmt.Errorf("table %s is not in the model", s.Table)
	}
	switch s.Kind {
	case "insert", "upsert", "insert-nothing", "insert-update":
		return m.applyInsert(t, s, ids)
	case "update":
		return m.applyUpdate(t, s)
	case "delete":
		var v verdict
		for tag, r := range t.Rows {
			ok, err := matches(t, r.Vals, s.Where)
			if err != nil {
				return v, err
			}
			if ok {
				delete(t.Rows, tag)
				v.Effects++
			}
		}
		return v, nil
	}
	return m.applyDDL(t, s)
}

func matches(t *Table, vals map[string]Val, where []Term) (bool, error) {
	for _, w := range where {
		if t.col(w.Col) == nil {
			return false, fmt.Errorf("column %s.%s is not in the model", t.Name, w.Col)
		}
		v := vals[w.Col]
		if v.IsNull() || v.K != w.Val.K {
			return false, nil
		}
		var c int
		if v.K == 'i' {
			switch {
			case v.I < w.Val.I:
				c = -1
			case v.I > w.Val.I:
				c = 1
			}
		} else {
			c = strings.Compare(v.S, w.Val.S)
		}
		switch w.Op {
		case "=":
			if c != 0 {
				return false, nil
			}
		case ">=":
			if c < 0 {
				return false, nil
			}
		case "<":
			if c >= 0 {
				return false, nil
			}
		}
	}
	return true, nil
}

func applySets(t *Table, vals map[string]Val, sets []SetExp, v *verdict) error {
	for _, e := range sets {
		if t.col(e.Col) == nil {
			return fmt.Errorf("column %s.%s is not in the model", t.Name, e.Col)
		}
		if e.Add {
			old := vals[e.Col]
			if old.K != 'i' {
				v.Unknown = true // NULL + k: left to the engine
				continue
			}
			vals[e.Col] = vInt(old.I + e.Val.I)
		} else {
			vals[e.Col] = e.Val
		}
	}
	return nil
}

func (m *Model) applyInsert(t *Table, s *Stmt, ids *idSeq) (verdict, error) {
	var v verdict
	for ri, rv := range s.Rows {
		vals := map[string]Val{}
		for i, cn := range s.Cols {
			if t.col(cn) == nil {
				return v, fmt.Errorf("column %s.%s is not in the model", t.Name, cn)
			}
			vals[cn] = rv[i]
		}
		tag := s.Tags[ri]
		explicitAuto := false
		if t.Auto {
			if vals[t.PK[0]].IsNull() {
				if s.Kind == "upsert" {
					v.must("pk-null")
					continue
				}
				if ids == nil || len(ids.queue[t.Name]) == 0 {
					return v, fmt.Errorf("no generated key known for table %s", t.Name)
				}
				vals[t.PK[0]] = vInt(ids.queue[t.Name][0])
				ids.queue[t.Name] = ids.queue[t.Name][1:]
			} else {
				explicitAuto = true
			}
		}
		pkNull := false
		for _, p := range t.PK {
			if vals[p].IsNull() {
				pkNull = true
			}
		}
		if pkNull {
			v.must("pk-null")
			continue
		}
		probs := validateRow(t, vals)
		exTag, existing := t.findPK(vals)
		judge := func(ps []problem, certainCounts bool) {
			for _, p := range ps {
				if p.certain && certainCounts {
					v.must(p.kind)
				} else {
					v.Unknown = true
				}
			}
		}
		write := func(newTag string, vals map[string]Val, prev *Row, replaced string, dupPK bool) {
			certain, maybe := t.uniqueConflicts(vals, replaced)
			if s.Kind == "insert-update" && prev != nil {
				// the row exists already: only a unique tuple changed by the SET list can be a new conflict
				var kept []string
				for _, u := range certain {
					for _, e := range s.Sets {
						if strings.Contains(","+u+",", ","+e.Col+",") {
							kept = append(kept, u)
							break
						}
					}
				}
				certain = kept
			}
			for range certain {
				v.must("dup-unique")
			}
			if maybe {
				v.Unknown = true
			}
			if replaced != "" {
				delete(t.Rows, replaced)
			}
			r := &Row{Vals: vals}
			m.attribute(t, newTag, r, prev, s.Kind, certain, dupPK)
			t.Rows[newTag] = r
			v.Effects++
		}
		switch {
		case existing == nil:
			judge(probs, true)
			if explicitAuto {
				v.Unknown = true // the engine additionally requires explicit keys above its high-water mark
			}
			write(tag, vals, nil, "", false)
		case s.Kind == "insert":
			if t.Auto && !explicitAuto {
				v.must("auto-collision")
			} else {
				v.must("dup-pk")
			}
			judge(probs, true)
			write(tag, vals, nil, exTag, true)
		case s.Kind == "insert-nothing":
			if t.Auto && !explicitAuto {
				v.must("auto-collision") // a generated key is never supposed to meet a live row
			}
			judge(probs, false)
		case s.Kind == "insert-update":
			if t.Auto && !explicitAuto {
				v.must("auto-collision")
			}
			judge(probs, false)
			nv := existing.clone().Vals
			if err := applySets(t, nv, s.Sets, &v); err != nil {
				return v, err
			}
			for _, e := range s.Sets {
				if t.isPK(e.Col) {
					v.Unknown = true
				}
			}
			judge(validateRow(t, nv), true)
			write(exTag, nv, existing, exTag, false)
		case s.Kind == "upsert":
			judge(probs, true)
			write(tag, vals, nil, exTag, false)
		}
	}
	return v, nil
}

func (m *Model) applyUpdate(t *Table, s *Stmt) (verdict, error) {
	var v verdict
	pkUpdate := false
	for _, e := range s.Sets {
		if t.col(e.Col) == nil {
			return v, fmt.Errorf("column %s.%s is not in the model", t.Name, e.Col)
		}
		if t.isPK(e.Col) {
			pkUpdate = true
		}
	}
	var tags []string
	for tag, r := range t.Rows {
		ok, err := matches(t, r.Vals, s.Where)
		if err != nil {
			return v, err
		}
		if ok {
			tags = append(tags, tag)
		}
	}
	sort.Strings(tags)
	if pkUpdate {
		if len(tags) > 0 {
			v.must("pk-update")
		}
		return v, nil // effects of an accepted key update are not modelled
	}
	news := map[string]*Row{}
	for _, tag := range tags {
		old := t.Rows[tag]
		n := old.clone()
		if err := applySets(t, n.Vals, s.Sets, &v); err != nil {
			return v, err
		}
		for _, p := range validateRow(t, n.Vals) {
			// a violation that the row already had before this statement and that the
			// statement does not touch is not this statement's doing
			if _, had := old.Viol[p.key]; had && !touches(s.Sets, p.key) {
				continue
			}
			if p.certain {
				v.must(p.kind)
			} else {
				v.Unknown = true
			}
		}
		news[tag] = n
	}
	// final-state duplicates on unique indexes touched by the statement
	for tag, n := range news {
		delete(t.Rows, tag)
		t.Rows[tag] = n
	}
	for _, tag := range tags {
		n := news[tag]
		var dups []string
		for _, u := range t.Uniq {
			touched := false
			for _, c := range u {
				for _, e := range s.Sets {
					if e.Col == c {
						touched = true
					}
				}
			}
			if !touched {
				continue
			}
			key, hasNull := tupleKey(n.Vals, u)
			for otag, r := range t.Rows {
				if otag == tag {
					continue
				}
				if k, _ := tupleKey(r.Vals, u); k == key {
					if hasNull {
						v.Unknown = true
					} else {
						v.must("dup-unique")
						dups = append(dups, strings.Join(u, ","))
					}
					break
				}
			}
		}
		m.attribute(t, tag, n, n, s.Kind, dups, false)
		v.Effects++
	}
	return v, nil
}

func touches(sets []SetExp, key string) bool {
	i := strings.IndexByte(key, ':')
	for _, e := range sets {
		if e.Col == key[i+1:] {
			return true
		}
	}
	return false
}

func dropFrom(lists [][]string, col string) (out [][]string, dropped bool) {
	for _, l := range lists {
		has := false
		for _, c := range l {
			has = has || c == col
		}
		if has {
			dropped = true
		} else {
			out = append(out, l)
		}
	}
	return
}

func (m *Model) applyDDL(t *Table, s *Stmt) (verdict, error) {
	var v verdict
	switch s.Kind {
	case "create-index", "create-unique-index":
		for _, c := range s.IdxCols {
			if t.col(c) == nil {
				return v, fmt.Errorf("column %s.%s is not in the model", t.Name, c)
			}
		}
		if s.Kind == "create-index" {
			t.Idx = append(t.Idx, append([]string(nil), s.IdxCols...))
		} else {
			seen := map[string]bool{}
			for _, r := range t.Rows {
				k, hasNull := tupleKey(r.Vals, s.IdxCols)
				if hasNull {
					continue
				}
				if seen[k] {
					v.must("dup-unique")
				}
				seen[k] = true
			}
			t.Uniq = append(t.Uniq, append([]string(nil), s.IdxCols...))
		}
		v.Effects++
	case "drop-constraint":
		var cks []Check
		for _, k := range t.Checks {
			if k.Name != s.Col {
				cks = append(cks, k)
			}
		}
		t.Checks = cks
		v.Effects++
	case "add-column":
		if t.col(s.ColDef.Name) != nil {
			return v, fmt.Errorf("column %s.%s already in the model", t.Name, s.ColDef.Name)
		}
		if s.ColDef.NotNull && len(t.Rows) > 0 {
			v.must("notnull")
		}
		c := *s.ColDef
		t.Cols = append(t.Cols, &c)
		v.Effects++
	case "drop-column":
		if t.col(s.Col) == nil {
			return v, fmt.Errorf("column %s.%s is not in the model", t.Name, s.Col)
		}
		var cols []*Col
		for _, c := range t.Cols {
			if c.Name != s.Col {
				cols = append(cols, c)
			}
		}
		t.Cols = cols
		var d1, d2 bool
		t.Uniq, d1 = dropFrom(t.Uniq, s.Col)
		t.Idx, d2 = dropFrom(t.Idx, s.Col)
		var cks []Check
		for _, k := range t.Checks {
			if k.Col != s.Col {
				cks = append(cks, k)
			} else {
				d1 = true
			}
		}
		t.Checks = cks
		if d1 || d2 || t.isPK(s.Col) {
			v.Unknown = true
		}
		for _, r := range t.Rows {
			delete(r.Vals, s.Col)
		}
		v.Effects++
	case "rename-column":
		c := t.col(s.Col)
		if c == nil || t.col(s.NewName) != nil {
			return v, fmt.Errorf("rename %s.%s to %s does not fit the model", t.Name, s.Col, s.NewName)
		}
		c.Name = s.NewName
		ren := func(l []string) {
			for i := range l {
				if l[i] == s.Col {
					l[i] = s.NewName
				}
			}
		}
		ren(t.PK)
		for _, u := range t.Uniq {
			ren(u)
		}
		for _, u := range t.Idx {
			ren(u)
		}
		for i := range t.Checks {
			if t.Checks[i].Col == s.Col {
				t.Checks[i].Col = s.NewName
			}
		}
		for _, r := range t.Rows {
			if val, ok := r.Vals[s.Col]; ok {
				r.Vals[s.NewName] = val
				delete(r.Vals, s.Col)
			}
			r.Viol = renameViolKeys(r.Viol, "", s.Col, s.NewName)
		}
		m.ViolLog = renameViolKeys(m.ViolLog, t.Name+"\x00", s.Col, s.NewName)
		v.Effects++
	default:
		return v, fmt.Errorf("unknown statement kind %s", s.Kind)
	}
	return v, nil
}

// renameViolKeys follows a column rename in attribution keys ("<prefix>...kind:col1,col2").
func renameViolKeys(m map[string]string, prefix, oldName, newName string) map[string]string {
	out := make(map[string]string, len(m))
	for k, v := range m {
		i := strings.LastIndexByte(k, ':')
		if i < 0 || !strings.HasPrefix(k, prefix) {
			out[k] = v
			continue
		}
		cols := strings.Split(k[i+1:], ",")
		for j := range cols {
			if cols[j] == oldName {
				cols[j] = newName
			}
		}
		out[k[:i+1]+strings.Join(cols, ",")] = v
	}
	return out
}
