package c12

import (
	"context"
	"fmt"
	"testing"

	"github.com/codenotary/immudb/embedded/sql"
	"github.com/codenotary/immudb/embedded/store"
	"verifharness/internal/sth"
)

func openEng(t *testing.T) (*store.ImmuStore, *sql.Engine) {
	st, err := store.Open(t.TempDir(), store.DefaultOptions().WithMultiIndexing(true).WithSynced(false).WithMaxConcurrency(8).WithLogger(sth.QuietLogger()))
	if err != nil {
		t.Fatal(err)
	}
	eng, err := sql.NewEngine(st, sql.DefaultOptions().WithPrefix([]byte{2}))
	if err != nil {
		t.Fatal(err)
	}
	return st, eng
}

func dump(eng *sql.Engine, q string) string {
	ctx := context.Background()
	rd, err := eng.Query(ctx, nil, q, nil)
	if err != nil {
		return "QERR " + err.Error()
	}
	defer rd.Close()
	s := ""
	for {
		row, err := rd.Read(ctx)
		if err != nil {
			if err != sql.ErrNoMoreRows {
				s += " RERR " + err.Error()
			}
			break
		}
		s += "["
		for _, v := range row.ValuesByPosition {
			if v.IsNull() {
				s += "NULL "
			} else {
				s += fmt.Sprintf("%v ", v.RawValue())
			}
		}
		s += "]"
	}
	return s
}

func mkex(eng *sql.Engine) func(q string) {
	return func(q string) {
		ntx, ctxs, err := eng.Exec(context.Background(), nil, q, nil)
		s := fmt.Sprintf("EXEC %q -> ntx=%v n=%d err=%v", q, ntx != nil, len(ctxs), err)
		for _, c := range ctxs {
			if c.TxHeader() != nil {
				s += fmt.Sprintf(" [hdr %d upd %d]", c.TxHeader().ID, c.UpdatedRows())
			} else {
				s += fmt.Sprintf(" [nohdr upd %d]", c.UpdatedRows())
			}
		}
		fmt.Println(s)
	}
}

func TestProbeUniqueShadow(t *testing.T) {
	st, eng := openEng(t)
	defer st.Close()
	ex := mkex(eng)
	ex(`CREATE TABLE t (id INTEGER, u INTEGER, PRIMARY KEY id); CREATE UNIQUE INDEX ON t(u)`)
	ex(`INSERT INTO t(id, u) VALUES (1, 5)`)
	ex(`UPDATE t SET u = 6 WHERE id = 1`)
	ex(`INSERT INTO t(id, u) VALUES (2, 5)`)
	ex(`INSERT INTO t(id, u) VALUES (3, 5)`)
	fmt.Println(dump(eng, "SELECT id, u FROM t"))
	ex(`CREATE TABLE e (id INTEGER, v INTEGER, PRIMARY KEY id)`)
	ex(`INSERT INTO e(id, v) VALUES (1, 1), (2, 1), (3, 1)`)
	ex(`DELETE FROM e WHERE id = 1`)
	ex(`CREATE UNIQUE INDEX ON e(v)`)
	fmt.Println(dump(eng, "SELECT id, v FROM e"))
}

func TestProbeFixes(t *testing.T) {
	st, eng := openEng(t)
	defer st.Close()
	ex := mkex(eng)
	ex(`CREATE TABLE t (id INTEGER, tag VARCHAR[40] NOT NULL, n INTEGER NOT NULL, c INTEGER, x INTEGER, CHECK (c >= 0 AND c < 10), PRIMARY KEY id)`)
	ex(`INSERT INTO t(id, tag, n, c) VALUES (20, 'x', 1, 1), (21, 'y', 1, 1)`)
	ex(`UPDATE t SET n = NULL WHERE id = 20`)
	ex(`INSERT INTO t(id, tag, n, c, x) VALUES (20, 'e3', 5, 1, 2) ON CONFLICT DO UPDATE SET c = 50`)
	ex(`INSERT INTO t(id, tag, n, c, x) VALUES (21, 'e4', 5, 1, 2) ON CONFLICT DO UPDATE SET n = NULL`)
	ex(`INSERT INTO t(id, tag, n, c, x) VALUES (21, 'e4', 5, 1, 2) ON CONFLICT DO UPDATE SET c = c + 3, x = 4`)
	fmt.Println(dump(eng, "SELECT id, tag, n, c, x FROM t"))
}

func TestProbeDeleteInsertNothing(t *testing.T) {
	st, eng := openEng(t)
	defer st.Close()
	ex := mkex(eng)
	ex(`CREATE TABLE tl (id INTEGER, tag VARCHAR[40] NOT NULL, w INTEGER, PRIMARY KEY id)`)
	ex(`INSERT INTO tl(id, tag, w) VALUES (12, 'old', 0)`)
	ex(`BEGIN TRANSACTION; DELETE FROM tl WHERE id = 12; INSERT INTO tl(id, tag, w) VALUES (12, 'new', 3) ON CONFLICT DO NOTHING; COMMIT`)
	fmt.Println(dump(eng, "SELECT id, tag, w FROM tl"))
	ex(`INSERT INTO tl(id, tag, w) VALUES (13, 'old', 0)`)
	ex(`BEGIN TRANSACTION; DELETE FROM tl WHERE id = 13; INSERT INTO tl(id, tag, w) VALUES (13, 'new', 3); COMMIT`)
	fmt.Println(dump(eng, "SELECT id, tag, w FROM tl"))
	ex(`BEGIN TRANSACTION; DELETE FROM tl WHERE id = 13; INSERT INTO tl(id, tag, w) VALUES (13, 'newer', 3) ON CONFLICT DO UPDATE SET w = 9; COMMIT`)
	fmt.Println(dump(eng, "SELECT id, tag, w FROM tl"))
}
