package c01

// Layer 3, SQL rows: the unmodified client's VerifyRow against pkg/database's
// VerifiableSQLGet behind the tamper layer. The claim a successful VerifyRow makes is
// "the row the caller holds is the current row of <table> with <primary key> in the
// history the new state commits to". The ledger is the harness's own record of the
// SQL statements it executed.

import (
	"context"
	"fmt"
	"math/rand/v2"
	"sort"
	"strings"

	"google.golang.org/grpc"
	"google.golang.org/protobuf/proto"
	"google.golang.org/protobuf/reflect/protoreflect"
	"google.golang.org/protobuf/types/known/structpb"

	"github.com/codenotary/immudb/embedded/sql"
	"github.com/codenotary/immudb/pkg/api/schema"

	"verifharness/internal/fw"
)

func (f *fakeSvc) VerifiableSQLGet(ctx context.Context, in *schema.VerifiableSQLGetRequest, opts ...grpc.CallOption) (*schema.VerifiableSQLEntry, error) {
	return deliver(f, func() (*schema.VerifiableSQLEntry, error) {
		req := in
		if f.rewriteSQLGet != nil {
			req = proto.Clone(in).(*schema.VerifiableSQLGetRequest)
			f.rewriteSQLGet(req)
		}
		r, err := f.db.VerifiableSQLGet(ctx, req)
		if err == nil {
			err = f.signTx(r.VerifiableTx)
		}
		return r, err
	})
}

// ---- ground truth of the SQL part of the history ---------------------------------------------------

type sqlRow struct {
	table   string
	pk      []*schema.SQLValue
	cols    []string           // plain column names, declaration order
	vals    []*schema.SQLValue // current values
	older   [][]*schema.SQLValue
	olderTx []uint64
	tx      uint64 // tx that wrote the current version
	deleted bool
}

type sqlTable struct {
	name   string
	ddl    string
	cols   []string
	types  []string // N S B BS
	pkCols []int
}

func sv(x any) *schema.SQLValue {
	switch v := x.(type) {
	case nil:
		return &schema.SQLValue{Value: &schema.SQLValue_Null{Null: structpb.NullValue_NULL_VALUE}}
	case int:
		return &schema.SQLValue{Value: &schema.SQLValue_N{N: int64(v)}}
	case int64:
		return &schema.SQLValue{Value: &schema.SQLValue_N{N: v}}
	case string:
		return &schema.SQLValue{Value: &schema.SQLValue_S{S: v}}
	case bool:
		return &schema.SQLValue{Value: &schema.SQLValue_B{B: v}}
	case []byte:
		return &schema.SQLValue{Value: &schema.SQLValue_Bs{Bs: v}}
	}
	panic("sv")
}

func isNull(v *schema.SQLValue) bool { _, ok := v.Value.(*schema.SQLValue_Null); return ok }

func sqlLit(v *schema.SQLValue) string {
	switch x := v.Value.(type) {
	case *schema.SQLValue_Null:
		return "NULL"
	case *schema.SQLValue_N:
		return fmt.Sprint(x.N)
	case *schema.SQLValue_S:
		return "'" + x.S + "'"
	case *schema.SQLValue_B:
		return fmt.Sprint(x.B)
	case *schema.SQLValue_Bs:
		return fmt.Sprintf("x'%x'", x.Bs)
	}
	return "NULL"
}

func pkString(pk []*schema.SQLValue) string {
	var s []string
	for _, v := range pk {
		s = append(s, sqlLit(v))
	}
	return strings.Join(s, ",")
}

var sqlTables = []*sqlTable{
	{name: "ta", cols: []string{"id", "name", "amount", "qty", "ok", "data"}, types: []string{"N", "S", "N", "N", "B", "BS"}, pkCols: []int{0},
		ddl: "CREATE TABLE ta (id INTEGER, name VARCHAR[32], amount INTEGER, qty INTEGER, ok BOOLEAN, data BLOB[16], PRIMARY KEY id)"},
	{name: "tb", cols: []string{"id", "name", "amount", "qty", "ok", "data"}, types: []string{"N", "S", "N", "N", "B", "BS"}, pkCols: []int{0},
		ddl: "CREATE TABLE tb (id INTEGER, name VARCHAR[32], amount INTEGER, qty INTEGER, ok BOOLEAN, data BLOB[16], PRIMARY KEY id)"},
	{name: "tc", cols: []string{"id", "code", "v", "note"}, types: []string{"N", "S", "N", "S"}, pkCols: []int{0, 1},
		ddl: "CREATE TABLE tc (id INTEGER, code VARCHAR[8], v INTEGER, note VARCHAR[16], PRIMARY KEY (id, code))"},
}

func randSQLVal(r *rand.Rand, typ string, nullable bool) *schema.SQLValue {
	if nullable && r.IntN(5) == 0 {
		return sv(nil)
	}
	switch typ {
	case "N":
		return sv(int64(r.IntN(2000)) - 1000)
	case "S":
		return sv(fmt.Sprintf("s%x", r.Uint32()))
	case "B":
		return sv(r.IntN(2) == 0)
	default:
		return sv(randBytes(r, 1+r.IntN(12)))
	}
}

// buildSQL appends an SQL history to the database: three tables (two with identical
// column types), single- and multi-row inserts, rows rewritten one to three times,
// NULLs, one deleted row per table. Every statement is its own transaction.
func (w *dbworld) buildSQL(c *fw.Ctx, r *rand.Rand, rowsPerTable int) error {
	ctx := context.Background()
	exec := func(q string) (uint64, error) {
		_, ctxs, err := w.db.SQLExec(ctx, nil, &schema.SQLExecRequest{Sql: q})
		if err != nil {
			return 0, fmt.Errorf("%s: %w", q, err)
		}
		if len(ctxs) == 0 || ctxs[len(ctxs)-1].TxHeader() == nil {
			return 0, fmt.Errorf("%s: no committed tx reported", q)
		}
		id := ctxs[len(ctxs)-1].TxHeader().ID
		w.sqlTxs[id] = true
		return id, nil
	}
	for _, t := range sqlTables {
		if _, err := exec(t.ddl); err != nil {
			return err
		}
	}
	w.sqlRows = map[string]*sqlRow{}
	tuple := func(t *sqlTable, vals []*schema.SQLValue) string {
		var s []string
		for _, v := range vals {
			s = append(s, sqlLit(v))
		}
		return "(" + strings.Join(s, ", ") + ")"
	}
	newVals := func(t *sqlTable, id int, code string) []*schema.SQLValue {
		vals := make([]*schema.SQLValue, len(t.cols))
		for i := range t.cols {
			vals[i] = randSQLVal(r, t.types[i], true)
		}
		vals[0] = sv(int64(id))
		if len(t.pkCols) == 2 {
			vals[1] = sv(code)
		}
		return vals
	}
	for round := 0; round < 3; round++ {
		for _, t := range sqlTables {
			// a multi-row statement and single-row ones
			var batch []string
			var batchRows []*sqlRow
			for i := 1; i <= rowsPerTable; i++ {
				code := fmt.Sprintf("c%d", i%3)
				vals := newVals(t, i, code)
				var pk []*schema.SQLValue
				for _, p := range t.pkCols {
					pk = append(pk, vals[p])
				}
				key := t.name + "/" + pkString(pk)
				row := w.sqlRows[key]
				if round > 0 && (row == nil || r.IntN(2) == 0) {
					continue // only some rows are rewritten in later rounds
				}
				if row == nil {
					row = &sqlRow{table: t.name, pk: pk, cols: t.cols}
					w.sqlRows[key] = row
					w.sqlRowKeys = append(w.sqlRowKeys, key)
				} else {
					row.older = append(row.older, row.vals)
					row.olderTx = append(row.olderTx, row.tx)
				}
				row.vals = vals
				if round == 0 && i%2 == 0 {
					batch = append(batch, tuple(t, vals))
					batchRows = append(batchRows, row)
					continue
				}
				id, err := exec(fmt.Sprintf("UPSERT INTO %s (%s) VALUES %s", t.name, strings.Join(t.cols, ", "), tuple(t, vals)))
				if err != nil {
					return err
				}
				row.tx = id
			}
			if len(batch) > 0 {
				id, err := exec(fmt.Sprintf("INSERT INTO %s (%s) VALUES %s", t.name, strings.Join(t.cols, ", "), strings.Join(batch, ", ")))
				if err != nil {
					return err
				}
				for _, row := range batchRows {
					row.tx = id
				}
			}
		}
	}
	// one deleted row per table (the last one)
	for _, t := range sqlTables {
		var last *sqlRow
		for _, key := range w.sqlRowKeys {
			if w.sqlRows[key].table == t.name {
				last = w.sqlRows[key]
			}
		}
		if last == nil {
			continue
		}
		var conds []string
		for i, p := range t.pkCols {
			conds = append(conds, fmt.Sprintf("%s = %s", t.cols[p], sqlLit(last.pk[i])))
		}
		if _, err := exec(fmt.Sprintf("DELETE FROM %s WHERE %s", t.name, strings.Join(conds, " AND "))); err != nil {
			return err
		}
		last.deleted = true
	}
	return nil
}

func (row *sqlRow) protoRow(vals []*schema.SQLValue, only []int) *schema.Row {
	out := &schema.Row{}
	for i, col := range row.cols {
		if only != nil {
			keep := false
			for _, o := range only {
				if o == i {
					keep = true
				}
			}
			if !keep {
				continue
			}
		}
		out.Columns = append(out.Columns, sql.EncodeSelector("", row.table, col))
		out.Values = append(out.Values, proto.Clone(vals[i]).(*schema.SQLValue))
	}
	return out
}

func alterSQLVal(r *rand.Rand, v *schema.SQLValue) *schema.SQLValue {
	switch x := v.Value.(type) {
	case *schema.SQLValue_Null:
		return sv(int64(7))
	case *schema.SQLValue_N:
		return sv(x.N + 1)
	case *schema.SQLValue_S:
		return sv(x.S + "x")
	case *schema.SQLValue_B:
		return sv(!x.B)
	case *schema.SQLValue_Bs:
		b := append([]byte(nil), x.Bs...)
		b[r.IntN(len(b))] ^= 1
		return sv(b)
	}
	return sv(nil)
}

func valsEqual(a, b []*schema.SQLValue) bool {
	if len(a) != len(b) {
		return false
	}
	for i := range a {
		if !proto.Equal(a[i], b[i]) {
			return false
		}
	}
	return true
}

// mapSites: alterations of map fields (the catalog excerpts of a VerifiableSQLEntry), keys in sorted order.
func mapSites(r *rand.Rand, m protoreflect.Message, fd protoreflect.FieldDescriptor, path string, out *[]site) {
	mp := m.Mutable(fd).Map()
	var keys []protoreflect.MapKey
	mp.Range(func(k protoreflect.MapKey, _ protoreflect.Value) bool { keys = append(keys, k); return true })
	sort.Slice(keys, func(i, j int) bool { return keys[i].String() < keys[j].String() })
	if len(keys) == 0 {
		return
	}
	*out = append(*out, site{path, "map-drop", func() { mp.Clear(keys[r.IntN(len(keys))]) }})
	*out = append(*out, site{path, "map-empty", func() {
		for _, k := range keys {
			mp.Clear(k)
		}
	}})
	if len(keys) > 1 {
		*out = append(*out, site{path, "map-swap", func() {
			i := r.IntN(len(keys) - 1)
			a, b := mp.Get(keys[i]), mp.Get(keys[i+1])
			mp.Set(keys[i], b)
			mp.Set(keys[i+1], a)
		}})
	}
	switch fd.MapValue().Kind() {
	case protoreflect.Uint32Kind:
		*out = append(*out, site{path, "map-plus1", func() {
			k := keys[r.IntN(len(keys))]
			mp.Set(k, protoreflect.ValueOfUint32(uint32(mp.Get(k).Uint())+1))
		}})
	case protoreflect.Int32Kind:
		*out = append(*out, site{path, "map-plus1", func() {
			k := keys[r.IntN(len(keys))]
			mp.Set(k, protoreflect.ValueOfInt32(int32(mp.Get(k).Int())+1))
		}})
	case protoreflect.StringKind:
		*out = append(*out, site{path, "map-replace", func() {
			k := keys[r.IntN(len(keys))]
			mp.Set(k, protoreflect.ValueOfString(mp.Get(k).String()+"x"))
		}})
	}
}

// sqlScenarios: honest-row scenarios (completeness + every alteration of the response, judged by the
// client state) for a selection of rows.
func (w *dbworld) sqlScenarios(c *fw.Ctx, r *rand.Rand, count int) []*scenario {
	ctx := context.Background()
	n := uint64(w.h.n)
	var scs []*scenario
	perm := r.Perm(len(w.sqlRowKeys))
	for _, pi := range perm {
		if len(scs) >= count {
			break
		}
		row := w.sqlRows[w.sqlRowKeys[pi]]
		if row.deleted {
			continue
		}
		var only []int
		desc := "all columns"
		if r.IntN(3) == 0 {
			only = []int{r.IntN(len(row.cols))}
			desc = "column " + row.cols[only[0]]
		}
		claim := row.protoRow(row.vals, only)
		sc := &scenario{name: "VerifyRow", desc: fmt.Sprintf("table %s pk %s, %s", row.table, pkString(row.pk), desc), proven: row.tx}
		sc.call = func(k *cl) (any, error) { return nil, k.c.VerifyRow(ctx, proto.Clone(claim).(*schema.Row), row.table, row.pk) }
		sc.judge = func(k *cl, ret any) string {
			// nothing is returned: what the client learnt is the claim (true here) and the state (judged by runOnce);
			// the proven tx the honest server names must be the tx that wrote the row
			if e, ok := k.svc.honest.(*schema.VerifiableSQLEntry); ok && k.svc.tamper == nil {
				if e.SqlEntry == nil || e.SqlEntry.Tx != row.tx {
					return "honest-server-proved-another-tx-than-the-one-that-wrote-the-row"
				}
			}
			return ""
		}
		sc.trusted = pickTrusted(r, n, sc.proven, c.N(2, 4))
		scs = append(scs, sc)
	}
	return scs
}

// falseRows: claims that are NOT the ledger's current row, presented to the client with an honest
// server, with a server that answers for another table / swaps column ids, and with generic
// alterations of the response. Any acceptance is a violation whatever the alteration was.
func (w *dbworld) falseRows(c *fw.Ctx, a *acc, r *rand.Rand, rowCount, sitesPerClaim int) {
	ctx := context.Background()
	n := uint64(w.h.n)
	type claim struct {
		kind  string
		row   *sqlRow
		table string
		vals  []*schema.SQLValue
		skipPK bool // the claim lists the non-key columns only
		// server behaviour that would support the false claim
		rewrite   func(req *schema.VerifiableSQLGetRequest)
		tamper    func(m proto.Message)
		tamperTag string
	}
	var claims []claim
	perm := r.Perm(len(w.sqlRowKeys))
	taken := 0
	for _, pi := range perm {
		if taken >= rowCount {
			break
		}
		row := w.sqlRows[w.sqlRowKeys[pi]]
		if row.deleted {
			// the values the row had before it was deleted
			claims = append(claims, claim{kind: "deleted-row", row: row, table: row.table, vals: row.vals})
			continue
		}
		taken++
		// one column changed
		ci := r.IntN(len(row.cols))
		isPK := ci < len(row.pk) // primary-key columns are declared first
		if !isPK {
			vals := append([]*schema.SQLValue(nil), row.vals...)
			vals[ci] = alterSQLVal(r, vals[ci])
			claims = append(claims, claim{kind: "value-changed", row: row, table: row.table, vals: vals})
			if !isNull(row.vals[ci]) {
				vals2 := append([]*schema.SQLValue(nil), row.vals...)
				vals2[ci] = sv(nil)
				claims = append(claims, claim{kind: "value-claimed-null", row: row, table: row.table, vals: vals2})
			}
		}
		// an older version of the same row
		for oi, old := range row.older {
			if !valsEqual(old, row.vals) {
				claims = append(claims, claim{kind: "older-version", row: row, table: row.table, vals: old})
				// ... supported by a server that puts the older version's encoded value into the current answer
				if oe, err := w.db.VerifiableSQLGet(ctx, &schema.VerifiableSQLGetRequest{SqlGetRequest: &schema.SQLGetRequest{Table: row.table, PkValues: row.pk, AtTx: row.olderTx[oi]}}); err == nil && oe.SqlEntry != nil {
					graft := append([]byte(nil), oe.SqlEntry.Value...)
					claims = append(claims, claim{kind: "older-version", row: row, table: row.table, vals: old,
						tamper: func(m proto.Message) {
							if e, ok := m.(*schema.VerifiableSQLEntry); ok && e.SqlEntry != nil {
								e.SqlEntry.Value = append([]byte(nil), graft...)
							}
						}, tamperTag: "server-grafts-the-older-encoded-value"})
				}
				break
			}
		}
		// the values of another row of the same table, under this row's primary key
		for _, key := range w.sqlRowKeys {
			o := w.sqlRows[key]
			if o.table == row.table && o != row && !o.deleted {
				vals := append([]*schema.SQLValue(nil), o.vals...)
				for i := range row.pk {
					vals[i] = row.pk[i]
				}
				if !valsEqual(vals, row.vals) {
					claims = append(claims, claim{kind: "values-of-another-row", row: row, table: row.table, vals: vals})
				}
				// the other row as it is (its own primary key inside the value), grafted into the answer for this key
				if oe, err := w.db.VerifiableSQLGet(ctx, &schema.VerifiableSQLGetRequest{SqlGetRequest: &schema.SQLGetRequest{Table: o.table, PkValues: o.pk}}); err == nil && oe.SqlEntry != nil {
					graft := append([]byte(nil), oe.SqlEntry.Value...)
					nonPK := append([]*schema.SQLValue(nil), o.vals...)
					claims = append(claims, claim{kind: "values-of-another-row", row: row, table: row.table, vals: nonPK, skipPK: true,
						tamper: func(m proto.Message) {
							if e, ok := m.(*schema.VerifiableSQLEntry); ok && e.SqlEntry != nil {
								e.SqlEntry.Value = append([]byte(nil), graft...)
							}
						}, tamperTag: "server-grafts-another-rows-encoded-value"})
				}
				break
			}
		}
		// the row of the twin table with the same primary key, supported by a server that answers for the twin
		if row.table == "ta" || row.table == "tb" {
			twin := "tb"
			if row.table == "tb" {
				twin = "ta"
			}
			if o := w.sqlRows[twin+"/"+pkString(row.pk)]; o != nil && !o.deleted && !valsEqual(o.vals, row.vals) {
				tbl := row.table
				claims = append(claims, claim{kind: "row-of-another-table", row: row, table: row.table, vals: o.vals,
					rewrite: func(req *schema.VerifiableSQLGetRequest) { req.SqlGetRequest.Table = twin },
					// ... and presents the twin's catalog excerpt under the names of the table that was asked for
					tamper: func(m proto.Message) {
						e, ok := m.(*schema.VerifiableSQLEntry)
						if !ok || e.ColIdsByName == nil {
							return
						}
						renamed := map[string]uint32{}
						for name, id := range e.ColIdsByName {
							renamed[strings.Replace(name, "("+twin+".", "("+tbl+".", 1)] = id
						}
						e.ColIdsByName = renamed
					}, tamperTag: "server-answers-for-another-table"})
			}
			// amount and qty exchanged, supported by a server that exchanges the two column ids
			if !proto.Equal(row.vals[2], row.vals[3]) {
				vals := append([]*schema.SQLValue(nil), row.vals...)
				vals[2], vals[3] = vals[3], vals[2]
				tbl := row.table
				claims = append(claims, claim{kind: "two-columns-exchanged", row: row, table: row.table, vals: vals,
					tamper: func(m proto.Message) {
						e, ok := m.(*schema.VerifiableSQLEntry)
						if !ok || e.ColIdsByName == nil {
							return
						}
						x, y := sql.EncodeSelector("", tbl, "amount"), sql.EncodeSelector("", tbl, "qty")
						e.ColIdsByName[x], e.ColIdsByName[y] = e.ColIdsByName[y], e.ColIdsByName[x]
					}, tamperTag: "server-exchanges-column-ids"})
			}
		}
	}
	for ci, cl0 := range claims {
		cl0 := cl0
		var only []int
		if cl0.skipPK {
			for i := len(cl0.row.pk); i < len(cl0.row.cols); i++ {
				only = append(only, i)
			}
		}
		claimRow := cl0.row.protoRow(cl0.vals, only)
		k := newClient(w, false)
		run := func(trusted uint64, tamper func(m proto.Message), tag string, support bool) {
			k.trust(trusted)
			k.svc.arm(tamper, nil)
			if support {
				k.svc.rewriteSQLGet = cl0.rewrite
			}
			var err error
			pan, _, ptext := fw.Guard(func() { err = k.c.VerifyRow(ctx, proto.Clone(claimRow).(*schema.Row), cl0.table, cl0.row.pk) })
			k.svc.rewriteSQLGet = nil
			a.evals++
			shape := fmt.Sprintf("VerifyRow table %s pk %s with a false row (%s): claimed %v, ledger %v (deleted=%v); trusted tx %d of %d; server: %s",
				cl0.table, pkString(cl0.row.pk), cl0.kind, claimRow.Values, cl0.row.vals, cl0.row.deleted, trusted, n, tag)
			files := map[string][]byte{}
			if k.svc.sent != nil {
				files["sent-response.txt"] = []byte(fmt.Sprintf("%v", k.svc.sent))
			}
			switch {
			case pan:
				a.see("L3sql|false-row|" + cl0.kind + "|" + tag + "|panic")
				c.Violation(panicSig(ptext), "the client panicked: "+shape+"\n"+ptext, files)
			case err == nil:
				a.see("L3sql|false-row|" + cl0.kind + "|" + tag + "|ACCEPTED")
				a.count("l3sql_false_row_accepted|" + cl0.kind + "|" + tag)
				sig := "client.VerifyRow/false-row-accepted/" + cl0.kind + "/" + tag
				if tag == "altered:catalog-excerpt" {
					// one cause whatever the claim: the catalog excerpt of the answer is not authenticated
					sig = "client.VerifyRow/false-row-accepted/altered:catalog-excerpt"
				}
				c.Violation(sig, "the client verified a row that is not the ledger's: "+shape, files)
			default:
				a.see("L3sql|false-row|" + cl0.kind + "|" + tag + "|rejected")
				a.count("l3sql_false_row_rejected")
			}
		}
		for _, trusted := range pickTrusted(r, n, cl0.row.tx, 1) {
			run(trusted, nil, "honest-server", false)
			if cl0.rewrite != nil || cl0.tamper != nil {
				run(trusted, cl0.tamper, cl0.tamperTag, true)
			}
		}
		// generic alterations of the (possibly supporting) response: the claim stays false
		trusted := cl0.row.tx
		if cl0.row.deleted || trusted == 0 {
			continue
		}
		k.trust(trusted)
		k.svc.arm(nil, nil)
		fw.Guard(func() { _ = k.c.VerifyRow(ctx, proto.Clone(claimRow).(*schema.Row), cl0.table, cl0.row.pk) })
		honest := k.svc.honest
		if honest == nil {
			continue
		}
		enumSeed := fmt.Sprintf("c01/l3sql/false/%d", ci)
		total := len(sites(fw.NewRand(c.Seed, enumSeed), proto.Clone(honest)))
		rr := fw.NewRand(c.Seed, enumSeed+"/pick")
		for j := 0; j < sitesPerClaim && total > 0; j++ {
			i := rr.IntN(total)
			field := "?"
			tam := func(m proto.Message) {
				ss := sites(fw.NewRand(c.Seed, enumSeed), m)
				if i < len(ss) {
					field = topField(ss[i].path)
					ss[i].apply()
				}
				if cl0.tamper != nil {
					cl0.tamper(m)
				}
			}
			tam(proto.Clone(honest))
			tag := "altered:" + field
			switch strings.TrimSuffix(field, "{}") {
			case "DatabaseId", "TableId", "PKIDs", "ColNamesById", "ColIdsByName", "ColTypesById", "ColLenById", "MaxColId":
				tag = "altered:catalog-excerpt"
			}
			if cl0.tamper != nil {
				// the supporting forgery is what gets the claim accepted (see above); a further alteration
				// that does not stop it is the same observation
				tag = cl0.tamperTag
			}
			run(trusted, tam, tag, cl0.tamper != nil)
		}
	}
}

func topField(path string) string {
	p := strings.Split(path, ".")
	if len(p) > 1 {
		return strings.TrimSuffix(p[1], "[]")
	}
	return path
}

