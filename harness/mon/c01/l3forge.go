package c01

// Layer 3, self-consistent forgeries of a VerifiedGet / VerifiedTxByID response: an entry that was
// never committed, with everything that can be re-derived from it re-derived (entry digest, the
// transaction's entry tree, its root EH, the inclusion proof), placed in the parts of the response
// that are not bound to the trusted state unless the client binds them. Only the comparison with
// the authenticated header (the one whose Alh the dual proof ties to the trusted state) can reject it.

import (
	"bytes"
	"crypto/sha256"

	"google.golang.org/protobuf/proto"

	"github.com/codenotary/immudb/pkg/api/schema"
	"github.com/codenotary/immudb/pkg/database"
)

type forgery struct {
	name  string
	apply func(m proto.Message)
}

// forgeTxEntry rewrites the value digest of the tx entry holding key and returns the re-derived EH and inclusion proof.
func forgeTxEntry(stx *schema.Tx, key, newValue []byte, md *schema.KVMetadata) (eh []byte, proof *schema.InclusionProof, ok bool) {
	if stx == nil || stx.Header == nil {
		return nil, nil, false
	}
	spec := database.EncodeEntrySpec(key, schema.KVMetadataFromProto(md), newValue)
	found := false
	for _, e := range stx.Entries {
		if e != nil && bytes.Equal(e.Key, spec.Key) {
			h := sha256.Sum256(spec.Value)
			e.HValue = h[:]
			e.VLen = int32(len(spec.Value))
			found = true
		}
	}
	if !found {
		return nil, nil, false
	}
	var tx = schema.TxFromProto(stx) // rebuilds the entry tree over the altered entries
	p, err := tx.Proof(spec.Key)
	if err != nil {
		return nil, nil, false
	}
	root := tx.Header().Eh
	return root[:], schema.InclusionProofToProto(p), true
}

func getForgeries() []forgery {
	mk := func(name string, alsoProofHeaders bool) forgery {
		return forgery{name: name, apply: func(m proto.Message) {
			ve, ok := m.(*schema.VerifiableEntry)
			if !ok || ve.Entry == nil || ve.Entry.ReferencedBy != nil || ve.VerifiableTx == nil || ve.VerifiableTx.Tx == nil {
				return
			}
			forged := append(append([]byte(nil), ve.Entry.Value...), []byte("-FORGED")...)
			eh, proof, ok := forgeTxEntry(ve.VerifiableTx.Tx, ve.Entry.Key, forged, ve.Entry.Metadata)
			if !ok {
				return
			}
			ve.Entry.Value = forged
			ve.InclusionProof = proof
			ve.VerifiableTx.Tx.Header.EH = eh
			if alsoProofHeaders && ve.VerifiableTx.DualProof != nil {
				for _, h := range []*schema.TxHeader{ve.VerifiableTx.DualProof.SourceTxHeader, ve.VerifiableTx.DualProof.TargetTxHeader} {
					if h != nil && h.Id == ve.VerifiableTx.Tx.Header.Id {
						h.EH = eh
					}
				}
			}
		}}
	}
	return []forgery{
		mk("forged-entry:eh-rederived-in-the-returned-tx-header", false),
		mk("forged-entry:eh-rederived-in-the-returned-tx-header-and-the-proof-header", true),
	}
}

func txForgeries() []forgery {
	mk := func(name string, alsoProofHeaders bool) forgery {
		return forgery{name: name, apply: func(m proto.Message) {
			vtx, ok := m.(*schema.VerifiableTx)
			if !ok || vtx.Tx == nil || vtx.Tx.Header == nil || len(vtx.Tx.Entries) == 0 || vtx.Tx.Entries[0] == nil {
				return
			}
			// another value digest for the first entry, the entry tree and EH re-derived
			h := sha256.Sum256(append([]byte("forged"), vtx.Tx.Entries[0].HValue...))
			vtx.Tx.Entries[0].HValue = h[:]
			tx := schema.TxFromProto(vtx.Tx)
			root := tx.Header().Eh
			vtx.Tx.Header.EH = root[:]
			if alsoProofHeaders && vtx.DualProof != nil {
				for _, hd := range []*schema.TxHeader{vtx.DualProof.SourceTxHeader, vtx.DualProof.TargetTxHeader} {
					if hd != nil && hd.Id == vtx.Tx.Header.Id {
						hd.EH = root[:]
					}
				}
			}
		}}
	}
	return []forgery{
		mk("forged-tx-entry:eh-rederived-in-the-returned-tx-header", false),
		mk("forged-tx-entry:eh-rederived-in-the-returned-tx-header-and-the-proof-header", true),
	}
}
