package c01

import (
	"crypto/sha256"
	"encoding/binary"
	"fmt"
	"math/rand/v2"

	"github.com/codenotary/immudb/embedded/store"

	"verifharness/internal/fw"
	"verifharness/internal/refmerkle"
)

// dcase is one (response, claim) pair for the dual-proof verifiers: the proof
// as the verifier receives it and the four values the caller asserts.
type dcase struct {
	p          *store.DualProof
	sID, tID   uint64
	sAlh, tAlh H
	labels     []string // "class:component" of every operator applied
	// followUp, set by the forked-tree operators: if the forged target is accepted and
	// becomes the trusted state, present a rewritten old tx proven from the forged tree
	followUp func() string
}

func cloneHashes(p [][sha256.Size]byte) [][sha256.Size]byte {
	if p == nil {
		return nil
	}
	q := make([][sha256.Size]byte, len(p))
	copy(q, p)
	return q
}

func cloneHdr(h *store.TxHeader) *store.TxHeader {
	if h == nil {
		return nil
	}
	c := *h
	if h.Metadata != nil {
		md := store.NewTxMetadata()
		if b := h.Metadata.Bytes(); len(b) > 0 {
			md.ReadFrom(b)
		}
		c.Metadata = md
	}
	return &c
}

func cloneLinear(l *store.LinearProof) *store.LinearProof {
	if l == nil {
		return nil
	}
	return &store.LinearProof{SourceTxID: l.SourceTxID, TargetTxID: l.TargetTxID, Terms: cloneHashes(l.Terms)}
}

func cloneLAP(l *store.LinearAdvanceProof) *store.LinearAdvanceProof {
	if l == nil {
		return nil
	}
	c := &store.LinearAdvanceProof{LinearProofTerms: cloneHashes(l.LinearProofTerms)}
	if l.InclusionProofs != nil {
		c.InclusionProofs = make([][][sha256.Size]byte, len(l.InclusionProofs))
		for i, ip := range l.InclusionProofs {
			c.InclusionProofs[i] = cloneHashes(ip)
		}
	}
	return c
}

func cloneDual(p *store.DualProof) *store.DualProof {
	if p == nil {
		return nil
	}
	return &store.DualProof{
		SourceTxHeader:     cloneHdr(p.SourceTxHeader),
		TargetTxHeader:     cloneHdr(p.TargetTxHeader),
		InclusionProof:     cloneHashes(p.InclusionProof),
		ConsistencyProof:   cloneHashes(p.ConsistencyProof),
		TargetBlTxAlh:      p.TargetBlTxAlh,
		LastInclusionProof: cloneHashes(p.LastInclusionProof),
		LinearProof:        cloneLinear(p.LinearProof),
		LinearAdvanceProof: cloneLAP(p.LinearAdvanceProof),
	}
}

func (d *dcase) clone() *dcase {
	c := *d
	c.p = cloneDual(d.p)
	c.labels = append([]string(nil), d.labels...)
	return &c
}

// menv is what an operator may draw foreign material from.
type menv struct {
	h     *hist
	other *store.DualProof // an honest proof of another pair
	v2    bool             // the case will be presented to VerifyDualProofV2 (only headers + inclusion + consistency exist)
}

func flipBit(r *rand.Rand, x H) H {
	x[r.IntN(32)] ^= 1 << uint(r.IntN(8))
	return x
}

func (e *menv) someAlh(r *rand.Rand, not H) H {
	for k := 0; k < 8; k++ {
		a := e.h.alh[1+r.IntN(e.h.n)]
		if a != not {
			return a
		}
	}
	return flipBit(r, not)
}

func (e *menv) someRoot(r *rand.Rand, not H) H {
	for k := 0; k < 8; k++ {
		a := e.h.roots[r.IntN(e.h.n+1)]
		if a != not {
			return a
		}
	}
	return flipBit(r, not)
}

func (e *menv) otherID(r *rand.Rand, not uint64) uint64 {
	for k := 0; k < 8; k++ {
		x := uint64(r.IntN(e.h.n + 2)) // 0 and n+1 included
		if x != not {
			return x
		}
	}
	return not + 2
}

// foreignTerm: a hash taken from another place of this or another honest proof.
func (e *menv) foreignTerm(r *rand.Rand, d *dcase, not H) H {
	var pool []H
	add := func(p *store.DualProof) {
		if p == nil {
			return
		}
		pool = append(pool, p.InclusionProof...)
		pool = append(pool, p.ConsistencyProof...)
		pool = append(pool, p.LastInclusionProof...)
		pool = append(pool, p.TargetBlTxAlh)
		if p.LinearProof != nil {
			pool = append(pool, p.LinearProof.Terms...)
		}
		if p.LinearAdvanceProof != nil {
			pool = append(pool, p.LinearAdvanceProof.LinearProofTerms...)
			for _, ip := range p.LinearAdvanceProof.InclusionProofs {
				pool = append(pool, ip...)
			}
		}
		if p.SourceTxHeader != nil {
			pool = append(pool, p.SourceTxHeader.BlRoot, p.SourceTxHeader.PrevAlh, p.SourceTxHeader.Eh)
		}
		if p.TargetTxHeader != nil {
			pool = append(pool, p.TargetTxHeader.BlRoot, p.TargetTxHeader.PrevAlh, p.TargetTxHeader.Eh)
		}
	}
	add(d.p)
	add(e.other)
	pool = append(pool, d.sAlh, d.tAlh)
	for k := 0; k < 8 && len(pool) > 0; k++ {
		x := pool[r.IntN(len(pool))]
		if x != not {
			return x
		}
	}
	return e.someAlh(r, not)
}

// ---- operators on a list of hashes -----------------------------------------------------------

var listClasses = []string{"flip", "drop", "duplicate", "swap", "replace", "extra", "empty"}

func mutList(r *rand.Rand, e *menv, d *dcase, class string, p [][sha256.Size]byte) ([][sha256.Size]byte, bool) {
	n := len(p)
	q := cloneHashes(p)
	switch class {
	case "flip":
		if n == 0 {
			return nil, false
		}
		k := r.IntN(n)
		q[k] = flipBit(r, q[k])
	case "drop":
		if n == 0 {
			return nil, false
		}
		k := r.IntN(n)
		q = append(q[:k], q[k+1:]...)
	case "duplicate":
		if n == 0 {
			return nil, false
		}
		k := r.IntN(n)
		q = append(q[:k+1], q[k:]...)
	case "swap":
		if n < 2 {
			return nil, false
		}
		k := r.IntN(n - 1)
		if q[k] == q[k+1] {
			return nil, false
		}
		q[k], q[k+1] = q[k+1], q[k]
	case "replace":
		if n == 0 {
			return nil, false
		}
		k := r.IntN(n)
		q[k] = e.foreignTerm(r, d, q[k])
	case "extra":
		k := r.IntN(n + 1)
		x := e.foreignTerm(r, d, H{})
		q = append(q, H{})
		copy(q[k+1:], q[k:])
		q[k] = x
	case "empty":
		if n == 0 {
			return nil, false
		}
		q = nil
	default:
		return nil, false
	}
	return q, true
}

// ---- the operator table ------------------------------------------------------------------------

type mop struct {
	class, comp string
	apply       func(r *rand.Rand, e *menv, d *dcase) bool // false: not applicable to this case
}

func hdrOf(d *dcase, side string) **store.TxHeader {
	if side == "src" {
		return &d.p.SourceTxHeader
	}
	return &d.p.TargetTxHeader
}

// recompute makes the claim follow the (altered) header of that side, as a
// forging server would: claimed id and alh are the header's.
func recompute(d *dcase, side string) bool {
	hp := *hdrOf(d, side)
	if hp == nil || hp.Version < 0 || hp.Version > 1 {
		return false
	}
	a := hp.Alh()
	if side == "src" {
		d.sID, d.sAlh = hp.ID, a
	} else {
		d.tID, d.tAlh = hp.ID, a
	}
	return true
}

func headerOps() []mop {
	var ops []mop
	for _, side := range []string{"src", "tgt"} {
		side := side
		add := func(class, field string, f func(r *rand.Rand, e *menv, d *dcase, h *store.TxHeader) bool) {
			for _, rec := range []bool{false, true} {
				rec := rec
				cl := class
				if rec {
					cl += "+claim-follows"
				}
				ops = append(ops, mop{cl, side + "." + field, func(r *rand.Rand, e *menv, d *dcase) bool {
					hp := *hdrOf(d, side)
					if hp == nil {
						return false
					}
					if !f(r, e, d, hp) {
						return false
					}
					if rec {
						return recompute(d, side)
					}
					return true
				}})
			}
		}
		add("plus1", "ID", func(r *rand.Rand, e *menv, d *dcase, h *store.TxHeader) bool { h.ID++; return true })
		add("minus1", "ID", func(r *rand.Rand, e *menv, d *dcase, h *store.TxHeader) bool {
			if h.ID == 0 {
				return false
			}
			h.ID--
			return true
		})
		add("other", "ID", func(r *rand.Rand, e *menv, d *dcase, h *store.TxHeader) bool { h.ID = e.otherID(r, h.ID); return true })
		add("plus1", "Ts", func(r *rand.Rand, e *menv, d *dcase, h *store.TxHeader) bool { h.Ts++; return true })
		add("plus1", "BlTxID", func(r *rand.Rand, e *menv, d *dcase, h *store.TxHeader) bool { h.BlTxID++; return true })
		add("minus1", "BlTxID", func(r *rand.Rand, e *menv, d *dcase, h *store.TxHeader) bool {
			if h.BlTxID == 0 {
				return false
			}
			h.BlTxID--
			return true
		})
		add("zero", "BlTxID", func(r *rand.Rand, e *menv, d *dcase, h *store.TxHeader) bool {
			if h.BlTxID == 0 {
				return false
			}
			h.BlTxID = 0
			return true
		})
		add("other", "BlTxID", func(r *rand.Rand, e *menv, d *dcase, h *store.TxHeader) bool {
			h.BlTxID = e.otherID(r, h.BlTxID)
			return true
		})
		// a different but genuine linking point: BlTxID and BlRoot of another prefix of the real history
		add("relinked", "BlTxID+BlRoot", func(r *rand.Rand, e *menv, d *dcase, h *store.TxHeader) bool {
			k := e.otherID(r, h.BlTxID)
			if k > uint64(e.h.n) {
				return false
			}
			h.BlTxID, h.BlRoot = k, e.h.roots[k]
			return true
		})
		add("flip", "BlRoot", func(r *rand.Rand, e *menv, d *dcase, h *store.TxHeader) bool {
			h.BlRoot = flipBit(r, h.BlRoot)
			return true
		})
		add("replace-root", "BlRoot", func(r *rand.Rand, e *menv, d *dcase, h *store.TxHeader) bool {
			h.BlRoot = e.someRoot(r, h.BlRoot)
			return true
		})
		add("replace", "BlRoot", func(r *rand.Rand, e *menv, d *dcase, h *store.TxHeader) bool {
			h.BlRoot = e.foreignTerm(r, d, h.BlRoot)
			return true
		})
		add("flip", "PrevAlh", func(r *rand.Rand, e *menv, d *dcase, h *store.TxHeader) bool {
			h.PrevAlh = flipBit(r, h.PrevAlh)
			return true
		})
		add("replace-alh", "PrevAlh", func(r *rand.Rand, e *menv, d *dcase, h *store.TxHeader) bool {
			h.PrevAlh = e.someAlh(r, h.PrevAlh)
			return true
		})
		add("toggle", "Version", func(r *rand.Rand, e *menv, d *dcase, h *store.TxHeader) bool {
			if h.Version == 1 && h.Metadata != nil && len(h.Metadata.Bytes()) > 0 {
				h.Metadata = nil
			}
			h.Version = 1 - h.Version
			return true
		})
		add("toggle-extra", "Metadata", func(r *rand.Rand, e *menv, d *dcase, h *store.TxHeader) bool {
			if h.Version != 1 {
				return false
			}
			if h.Metadata != nil && len(h.Metadata.Bytes()) > 0 {
				h.Metadata = nil
			} else {
				h.Metadata = store.NewTxMetadata()
				h.Metadata.WithExtra([]byte{0xC0, 0x01})
			}
			return true
		})
		add("plus1", "NEntries", func(r *rand.Rand, e *menv, d *dcase, h *store.TxHeader) bool { h.NEntries++; return true })
		add("flip", "Eh", func(r *rand.Rand, e *menv, d *dcase, h *store.TxHeader) bool { h.Eh = flipBit(r, h.Eh); return true })
		add("replace-eh", "Eh", func(r *rand.Rand, e *menv, d *dcase, h *store.TxHeader) bool {
			o := e.h.hdr[1+r.IntN(e.h.n)].Eh
			if o == h.Eh {
				return false
			}
			h.Eh = o
			return true
		})
		// whole header of another tx, once as it is and once re-numbered to the claimed id
		add("replace-header", "header", func(r *rand.Rand, e *menv, d *dcase, h *store.TxHeader) bool {
			o := e.h.hdr[1+r.IntN(e.h.n)]
			if o.ID == h.ID {
				return false
			}
			*h = *cloneHdr(o)
			return true
		})
		add("replace-header-renumbered", "header", func(r *rand.Rand, e *menv, d *dcase, h *store.TxHeader) bool {
			o := e.h.hdr[1+r.IntN(e.h.n)]
			if o.ID == h.ID {
				return false
			}
			id := h.ID
			*h = *cloneHdr(o)
			h.ID = id
			return true
		})
		ops = append(ops, mop{"nil", side + ".header", func(r *rand.Rand, e *menv, d *dcase) bool {
			*hdrOf(d, side) = nil
			return true
		}})
	}
	return ops
}

func listOps() []mop {
	var ops []mop
	type acc struct {
		comp string
		get  func(d *dcase, r *rand.Rand) *[][sha256.Size]byte
	}
	accs := []acc{
		{"InclusionProof", func(d *dcase, r *rand.Rand) *[][sha256.Size]byte { return &d.p.InclusionProof }},
		{"ConsistencyProof", func(d *dcase, r *rand.Rand) *[][sha256.Size]byte { return &d.p.ConsistencyProof }},
		{"LastInclusionProof", func(d *dcase, r *rand.Rand) *[][sha256.Size]byte { return &d.p.LastInclusionProof }},
		{"LinearProof.Terms", func(d *dcase, r *rand.Rand) *[][sha256.Size]byte {
			if d.p.LinearProof == nil {
				return nil
			}
			return &d.p.LinearProof.Terms
		}},
		{"LinearAdvanceProof.LinearProofTerms", func(d *dcase, r *rand.Rand) *[][sha256.Size]byte {
			if d.p.LinearAdvanceProof == nil {
				return nil
			}
			return &d.p.LinearAdvanceProof.LinearProofTerms
		}},
		{"LinearAdvanceProof.InclusionProofs[k]", func(d *dcase, r *rand.Rand) *[][sha256.Size]byte {
			if d.p.LinearAdvanceProof == nil || len(d.p.LinearAdvanceProof.InclusionProofs) == 0 {
				return nil
			}
			return &d.p.LinearAdvanceProof.InclusionProofs[r.IntN(len(d.p.LinearAdvanceProof.InclusionProofs))]
		}},
	}
	for _, a := range accs {
		a := a
		for _, class := range listClasses {
			class := class
			ops = append(ops, mop{class, a.comp, func(r *rand.Rand, e *menv, d *dcase) bool {
				lp := a.get(d, r)
				if lp == nil {
					return false
				}
				q, ok := mutList(r, e, d, class, *lp)
				if !ok {
					return false
				}
				*lp = q
				return true
			}})
		}
	}
	return ops
}

func scalarOps() []mop {
	ops := []mop{
		{"flip", "TargetBlTxAlh", func(r *rand.Rand, e *menv, d *dcase) bool {
			d.p.TargetBlTxAlh = flipBit(r, d.p.TargetBlTxAlh)
			return true
		}},
		{"replace-alh", "TargetBlTxAlh", func(r *rand.Rand, e *menv, d *dcase) bool {
			d.p.TargetBlTxAlh = e.someAlh(r, d.p.TargetBlTxAlh)
			return true
		}},
		{"nil", "LinearProof", func(r *rand.Rand, e *menv, d *dcase) bool {
			if d.p.LinearProof == nil {
				return false
			}
			d.p.LinearProof = nil
			return true
		}},
		{"plus1", "LinearProof.SourceTxID", func(r *rand.Rand, e *menv, d *dcase) bool {
			if d.p.LinearProof == nil {
				return false
			}
			d.p.LinearProof.SourceTxID++
			return true
		}},
		{"minus1", "LinearProof.SourceTxID", func(r *rand.Rand, e *menv, d *dcase) bool {
			if d.p.LinearProof == nil || d.p.LinearProof.SourceTxID == 0 {
				return false
			}
			d.p.LinearProof.SourceTxID--
			return true
		}},
		{"plus1", "LinearProof.TargetTxID", func(r *rand.Rand, e *menv, d *dcase) bool {
			if d.p.LinearProof == nil {
				return false
			}
			d.p.LinearProof.TargetTxID++
			return true
		}},
		{"minus1", "LinearProof.TargetTxID", func(r *rand.Rand, e *menv, d *dcase) bool {
			if d.p.LinearProof == nil || d.p.LinearProof.TargetTxID == 0 {
				return false
			}
			d.p.LinearProof.TargetTxID--
			return true
		}},
		{"nil", "LinearAdvanceProof", func(r *rand.Rand, e *menv, d *dcase) bool {
			if d.p.LinearAdvanceProof == nil {
				return false
			}
			d.p.LinearAdvanceProof = nil
			return true
		}},
		{"drop-list", "LinearAdvanceProof.InclusionProofs", func(r *rand.Rand, e *menv, d *dcase) bool {
			l := d.p.LinearAdvanceProof
			if l == nil || len(l.InclusionProofs) == 0 {
				return false
			}
			k := r.IntN(len(l.InclusionProofs))
			l.InclusionProofs = append(l.InclusionProofs[:k], l.InclusionProofs[k+1:]...)
			return true
		}},
		{"swap-lists", "LinearAdvanceProof.InclusionProofs", func(r *rand.Rand, e *menv, d *dcase) bool {
			l := d.p.LinearAdvanceProof
			if l == nil || len(l.InclusionProofs) < 2 {
				return false
			}
			k := r.IntN(len(l.InclusionProofs) - 1)
			l.InclusionProofs[k], l.InclusionProofs[k+1] = l.InclusionProofs[k+1], l.InclusionProofs[k]
			return true
		}},
		{"nil-list", "LinearAdvanceProof.InclusionProofs", func(r *rand.Rand, e *menv, d *dcase) bool {
			l := d.p.LinearAdvanceProof
			if l == nil || len(l.InclusionProofs) == 0 {
				return false
			}
			l.InclusionProofs[r.IntN(len(l.InclusionProofs))] = nil
			return true
		}},
		{"replace-proof", "whole-proof", func(r *rand.Rand, e *menv, d *dcase) bool {
			if e.other == nil {
				return false
			}
			d.p = cloneDual(e.other)
			return true
		}},
		{"replace-proof-renumbered", "whole-proof", func(r *rand.Rand, e *menv, d *dcase) bool {
			if e.other == nil {
				return false
			}
			d.p = cloneDual(e.other)
			d.p.SourceTxHeader.ID, d.p.TargetTxHeader.ID = d.sID, d.tID
			if d.p.LinearProof != nil {
				d.p.LinearProof.SourceTxID, d.p.LinearProof.TargetTxID = d.sID, d.tID
			}
			return true
		}},
		{"nil", "whole-proof", func(r *rand.Rand, e *menv, d *dcase) bool { d.p = nil; return true }},
	}
	return ops
}

func claimOps() []mop {
	var ops []mop
	for _, side := range []string{"src", "tgt"} {
		side := side
		id := func(d *dcase) *uint64 {
			if side == "src" {
				return &d.sID
			}
			return &d.tID
		}
		alh := func(d *dcase) *H {
			if side == "src" {
				return &d.sAlh
			}
			return &d.tAlh
		}
		ops = append(ops,
			mop{"plus1", "claim." + side + "ID", func(r *rand.Rand, e *menv, d *dcase) bool { *id(d)++; return true }},
			mop{"minus1", "claim." + side + "ID", func(r *rand.Rand, e *menv, d *dcase) bool {
				if *id(d) == 0 {
					return false
				}
				*id(d)--
				return true
			}},
			mop{"other", "claim." + side + "ID", func(r *rand.Rand, e *menv, d *dcase) bool { *id(d) = e.otherID(r, *id(d)); return true }},
			// claimed id and proof ids moved together: "this proof is about tx k"
			mop{"renumbered", "claim." + side + "ID+header.ID", func(r *rand.Rand, e *menv, d *dcase) bool {
				if d.p == nil || *hdrOf(d, side) == nil {
					return false
				}
				k := e.otherID(r, *id(d))
				*id(d) = k
				(*hdrOf(d, side)).ID = k
				if d.p.LinearProof != nil {
					if side == "tgt" {
						d.p.LinearProof.TargetTxID = k
					} else if d.p.LinearProof.SourceTxID == d.sID {
						d.p.LinearProof.SourceTxID = k
					}
				}
				return true
			}},
			mop{"flip", "claim." + side + "Alh", func(r *rand.Rand, e *menv, d *dcase) bool { *alh(d) = flipBit(r, *alh(d)); return true }},
			mop{"replace-alh", "claim." + side + "Alh", func(r *rand.Rand, e *menv, d *dcase) bool { *alh(d) = e.someAlh(r, *alh(d)); return true }},
			mop{"zero", "claim." + side + "Alh", func(r *rand.Rand, e *menv, d *dcase) bool { *alh(d) = H{}; return true }},
		)
	}
	ops = append(ops, mop{"exchanged", "claim.src<->tgt", func(r *rand.Rand, e *menv, d *dcase) bool {
		if d.sID == d.tID {
			return false
		}
		d.sID, d.tID = d.tID, d.sID
		d.sAlh, d.tAlh = d.tAlh, d.sAlh
		return true
	}})
	return ops
}

// innerHashOf re-implements TxHeader.innerHash (unexported) from the documented
// layout; it is used only to BUILD self-consistent forgeries, never to judge.
func innerHashOf(h *store.TxHeader) (H, bool) {
	var b []byte
	var u8 [8]byte
	binary.BigEndian.PutUint64(u8[:], uint64(h.Ts))
	b = append(b, u8[:]...)
	binary.BigEndian.PutUint16(u8[:], uint16(h.Version))
	b = append(b, u8[:2]...)
	switch h.Version {
	case 0:
		binary.BigEndian.PutUint16(u8[:], uint16(h.NEntries))
		b = append(b, u8[:2]...)
	case 1:
		var md []byte
		if h.Metadata != nil {
			md = h.Metadata.Bytes()
		}
		binary.BigEndian.PutUint16(u8[:], uint16(len(md)))
		b = append(b, u8[:2]...)
		b = append(b, md...)
		binary.BigEndian.PutUint32(u8[:], uint32(h.NEntries))
		b = append(b, u8[:4]...)
	default:
		return H{}, false
	}
	b = append(b, h.Eh[:]...)
	binary.BigEndian.PutUint64(u8[:], h.BlTxID)
	b = append(b, u8[:]...)
	b = append(b, h.BlRoot[:]...)
	return sha256.Sum256(b), true
}

// advance is alh(id) = SHA-256(id || prevAlh || innerHash): the documented chain step.
func advance(prev H, id uint64, inner H) H {
	var b [8 + 64]byte
	binary.BigEndian.PutUint64(b[:], id)
	copy(b[8:], prev[:])
	copy(b[40:], inner[:])
	return sha256.Sum256(b[:])
}

// forgeOps build self-consistent forgeries a dishonest server would send: the
// altered header's inner hash is put where the linear proof expects it and the
// claim follows the header.
func forgeOps() []mop {
	var ops []mop
	fields := []struct {
		name string
		f    func(r *rand.Rand, e *menv, h *store.TxHeader)
	}{
		{"Ts", func(r *rand.Rand, e *menv, h *store.TxHeader) { h.Ts += 1 + int64(r.IntN(1000)) }},
		{"Eh", func(r *rand.Rand, e *menv, h *store.TxHeader) { h.Eh = flipBit(r, h.Eh) }},
		{"NEntries", func(r *rand.Rand, e *menv, h *store.TxHeader) { h.NEntries++ }},
		{"BlRoot", func(r *rand.Rand, e *menv, h *store.TxHeader) { h.BlRoot = flipBit(r, h.BlRoot) }},
		{"PrevAlh", func(r *rand.Rand, e *menv, h *store.TxHeader) { h.PrevAlh = flipBit(r, h.PrevAlh) }},
	}
	for _, fl := range fields {
		fl := fl
		// the proven tx is the target (trusted <= proven): a forged sibling of the real tx
		ops = append(ops, mop{"forged-header+linear-term+claim", "tgt." + fl.name, func(r *rand.Rand, e *menv, d *dcase) bool {
			if d.p == nil || d.p.TargetTxHeader == nil || d.p.LinearProof == nil || len(d.p.LinearProof.Terms) < 2 {
				return false
			}
			fl.f(r, e, d.p.TargetTxHeader)
			ih, ok := innerHashOf(d.p.TargetTxHeader)
			if !ok {
				return false
			}
			d.p.LinearProof.Terms[len(d.p.LinearProof.Terms)-1] = ih
			return recompute(d, "tgt")
		}})
		// the proven tx is the source (trusted > proven): an altered old tx
		ops = append(ops, mop{"forged-header+linear-term+claim", "src." + fl.name, func(r *rand.Rand, e *menv, d *dcase) bool {
			if d.p == nil || d.p.SourceTxHeader == nil {
				return false
			}
			fl.f(r, e, d.p.SourceTxHeader)
			if !recompute(d, "src") {
				return false
			}
			if d.p.LinearProof != nil && len(d.p.LinearProof.Terms) > 0 && d.p.LinearProof.SourceTxID == d.sID {
				d.p.LinearProof.Terms[0] = d.sAlh
			}
			return true
		}})
	}
	// a forged tx in the middle of the linear part, chain re-folded up to the target, whose PrevAlh and claim follow
	ops = append(ops, mop{"forged-middle+refolded-chain+claim", "LinearProof.Terms", func(r *rand.Rand, e *menv, d *dcase) bool {
		if d.p == nil || d.p.TargetTxHeader == nil || d.p.LinearProof == nil || len(d.p.LinearProof.Terms) < 3 {
			return false
		}
		lp := d.p.LinearProof
		k := 1 + r.IntN(len(lp.Terms)-2)
		lp.Terms[k] = flipBit(r, lp.Terms[k])
		a := lp.Terms[0]
		for i := 1; i < len(lp.Terms)-1; i++ {
			a = advance(a, lp.SourceTxID+uint64(i), lp.Terms[i])
		}
		d.p.TargetTxHeader.PrevAlh = a
		ih, ok := innerHashOf(d.p.TargetTxHeader)
		if !ok {
			return false
		}
		lp.Terms[len(lp.Terms)-1] = ih
		return recompute(d, "tgt")
	}})
	// the alh at the target's linking point is forged and the linear part re-folded from it up to the target, whose
	// PrevAlh and claim follow: only the last-inclusion of that alh in the (real) BlRoot refuses it
	ops = append(ops, mop{"forged-linking-point-alh+refolded-chain+claim", "TargetBlTxAlh+LinearProof.Terms", func(r *rand.Rand, e *menv, d *dcase) bool {
		if d.p == nil || d.p.TargetTxHeader == nil || d.p.LinearProof == nil || len(d.p.LinearProof.Terms) < 2 || d.sID >= d.p.TargetTxHeader.BlTxID {
			return false
		}
		lp := d.p.LinearProof
		d.p.TargetBlTxAlh = flipBit(r, d.p.TargetBlTxAlh)
		lp.Terms[0] = d.p.TargetBlTxAlh
		a := lp.Terms[0]
		for i := 1; i < len(lp.Terms)-1; i++ {
			a = advance(a, lp.SourceTxID+uint64(i), lp.Terms[i])
		}
		d.p.TargetTxHeader.PrevAlh = a
		ih, ok := innerHashOf(d.p.TargetTxHeader)
		if !ok {
			return false
		}
		lp.Terms[len(lp.Terms)-1] = ih
		return recompute(d, "tgt")
	}})
	return ops
}

// immuConsistency: PROOF(i, D[0:j]) in the format ahtree emits for i < j (the seed node
// always explicit: MTH(D[0:i]) is prepended when i is a power of two; see C08).
func immuConsistency(t *refmerkle.Tree, i, j int) []H {
	p := t.Consistency(i, j)
	if i&(i-1) == 0 {
		p = append([]H{t.RootAt(i)}, p...)
	}
	return p
}

// treeForgeOps build whole forged binary-linking trees with every proof part
// re-derived from them, so that only the binding of the tree to the trusted
// state can refuse the response.
func treeForgeOps() []mop {
	var ops []mop
	// (a) an old leaf (at or below the source's linking point) is replaced; the source header carries the forged
	// prefix root, the claim keeps the real source alh: only "source header hashes to the trusted alh" refuses it.
	// (the same construction without the forged leaf is a control: proofs re-derived from the reference tree over
	// the real leaves must verify, which checks this generator and the store's proofs against the reference)
	for _, forge := range []bool{false, true} {
		forge := forge
		class := "forged-old-leaf+all-proofs-from-forged-tree+claim-follows"
		if !forge {
			class = "control:all-proofs-rebuilt-from-reference-tree"
		}
		ops = append(ops, mop{class, "binary-linking-tree", func(r *rand.Rand, e *menv, d *dcase) bool {
			if d.p == nil || d.p.SourceTxHeader == nil || d.p.TargetTxHeader == nil {
				return false
			}
			h, S, T := e.h, d.p.SourceTxHeader, d.p.TargetTxHeader
			s, sb, bl := d.sID, S.BlTxID, T.BlTxID
			if s < 2 || s >= bl || sb < 1 || sb >= bl || bl > uint64(h.n) || d.tID > uint64(h.n) || S.ID != s {
				return false
			}
			leaves := append([]refmerkle.Hash(nil), h.leaf[:bl]...)
			if forge {
				k := 1 + r.IntN(int(sb))
				fa := flipBit(r, h.alh[k])
				leaves[k-1] = refmerkle.LeafHash(fa[:])
			}
			ft := refmerkle.New(leaves)
			S.BlRoot = ft.RootAt(int(sb))
			T.BlRoot = ft.RootAt(int(bl))
			d.p.InclusionProof = ft.Inclusion(int(s)-1, int(bl))
			d.p.ConsistencyProof = immuConsistency(ft, int(sb), int(bl))
			d.p.LastInclusionProof = ft.Inclusion(int(bl)-1, int(bl))
			if lap := d.p.LinearAdvanceProof; lap != nil {
				for i := range lap.InclusionProofs {
					tx := int(sb) + 1 + i
					if tx >= 1 && tx <= int(bl) {
						lap.InclusionProofs[i] = ft.Inclusion(tx-1, int(bl))
					}
				}
			}
			if e.v2 {
				return recompute(d, "tgt")
			}
			lp := d.p.LinearProof
			if lp == nil || len(lp.Terms) < 2 {
				return false
			}
			ih, ok := innerHashOf(T)
			if !ok {
				return false
			}
			lp.Terms[len(lp.Terms)-1] = ih
			return recompute(d, "tgt")
		}})
	}
	// (b) the source is at or after the target's linking point and the target's tree has grown past the source's:
	// the leaves between the two linking points are replaced by a self-consistent forged chain. The trusted source
	// alh commits to the real txs at those positions, so such a target contradicts the trusted state.
	ops = append(ops, mop{"forged-chain-between-linking-points+all-proofs-from-forged-tree+claim-follows", "binary-linking-tree", func(r *rand.Rand, e *menv, d *dcase) bool {
		if e.v2 || d.p == nil || d.p.SourceTxHeader == nil || d.p.TargetTxHeader == nil || d.p.LinearProof == nil || d.p.LinearAdvanceProof == nil {
			return false
		}
		h, S, T := e.h, d.p.SourceTxHeader, d.p.TargetTxHeader
		s, t, sb, bl := d.sID, d.tID, S.BlTxID, T.BlTxID
		lap, lp := d.p.LinearAdvanceProof, d.p.LinearProof
		if s < bl || t <= s || sb+1 >= bl || bl > uint64(h.n) || t > uint64(h.n) || uint64(len(lap.LinearProofTerms)) != bl-sb || len(lp.Terms) < 2 {
			return false
		}
		lap.LinearProofTerms[0] = flipBit(r, lap.LinearProofTerms[0])
		f := map[uint64]H{}
		x := lap.LinearProofTerms[0]
		f[sb+1] = x
		for tx := sb + 1; tx < bl; tx++ {
			x = advance(x, tx+1, lap.LinearProofTerms[tx-sb])
			f[tx+1] = x
		}
		leaves := append([]refmerkle.Hash(nil), h.leaf[:bl]...)
		for tx := sb + 1; tx <= bl; tx++ {
			v := f[tx]
			leaves[tx-1] = refmerkle.LeafHash(v[:])
		}
		ft := refmerkle.New(leaves)
		T.BlRoot = ft.RootAt(int(bl))
		d.p.TargetBlTxAlh = f[bl]
		d.p.LastInclusionProof = ft.Inclusion(int(bl)-1, int(bl))
		if sb > 0 {
			d.p.ConsistencyProof = immuConsistency(ft, int(sb), int(bl))
		}
		for i := range lap.InclusionProofs {
			lap.InclusionProofs[i] = ft.Inclusion(int(sb)+i, int(bl))
		}
		ih, ok := innerHashOf(T)
		if !ok {
			return false
		}
		lp.Terms[len(lp.Terms)-1] = ih
		return recompute(d, "tgt")
	}})
	return ops
}

// equalSizeConsistency is what ahtree.ConsistencyProof(j, j) emits (see C08): the two
// children of the root, right child first; nothing for a single leaf.
func equalSizeConsistency(t *refmerkle.Tree, j int) []H {
	if j <= 1 {
		return nil
	}
	k := 1
	for k*2 < j {
		k *= 2
	}
	return []H{t.MTH(k, j), t.MTH(0, k)}
}

func treeConsistency(t *refmerkle.Tree, i, j int) []H {
	switch {
	case i <= 0 || i > j:
		return nil
	case i == j:
		return equalSizeConsistency(t, j)
	}
	return immuConsistency(t, i, j)
}

// linearTermsFromLedger: alh[m], innerHash(hdr[m+1]) .. innerHash(hdr[t-1]), innerHash(last)
func linearTermsFromLedger(h *hist, m, t uint64, last *store.TxHeader) ([]H, bool) {
	if m == 0 || m > t || t > uint64(h.n) {
		return nil, false
	}
	terms := []H{h.alh[m]}
	for id := m + 1; id <= t; id++ {
		hd := h.hdr[id]
		if id == t {
			hd = last
		}
		ih, ok := innerHashOf(hd)
		if !ok {
			return nil, false
		}
		terms = append(terms, ih)
	}
	return terms, true
}

// lapFromTree: the linear advance proof for (start, end) against the tree ft of the given size;
// lastHdr, when not nil, replaces the header of tx end-... never needed for the honest chain.
func lapFromTree(h *hist, ft *refmerkle.Tree, start, end, size uint64, endHdr *store.TxHeader) (*store.LinearAdvanceProof, bool) {
	if end <= start+1 {
		return nil, true
	}
	if end > uint64(h.n) || end-1 > size {
		return nil, false
	}
	lap := &store.LinearAdvanceProof{LinearProofTerms: []H{h.alh[start+1]}}
	for tx := start + 1; tx < end; tx++ {
		lap.InclusionProofs = append(lap.InclusionProofs, ft.Inclusion(int(tx)-1, int(size)))
		hd := h.hdr[tx+1]
		if tx+1 == end && endHdr != nil {
			hd = endHdr
		}
		ih, ok := innerHashOf(hd)
		if !ok {
			return nil, false
		}
		lap.LinearProofTerms = append(lap.LinearProofTerms, ih)
	}
	return lap, true
}

// forkedTreeOps: "forked binary-linking tree". The target header commits to a tree of the
// same size as the real one (or one leaf smaller / larger, relinked) in which an old leaf
// k <= source.BlTxID — a position the trusted source header's own BlRoot commits to — is
// the alh of a REWRITTEN tx k. The source header and the claimed source alh stay real;
// inclusion, consistency, last-inclusion, linear and linear-advance parts are all
// re-derived from the forked tree and the ledger, the target's alh and the last linear
// term follow the forged header. Only the comparison of the two trees (consistency
// proof, or root equality for equal sizes) can refuse it. Without the rewritten leaf
// the same construction is a control that must verify.
func forkedTreeOps() []mop {
	var ops []mop
	for _, delta := range []int{0, -1, 1} {
		for _, forge := range []bool{false, true} {
			delta, forge := delta, forge
			class := map[int]string{0: "forked-tree-same-size", -1: "forked-tree-one-leaf-smaller", 1: "forked-tree-one-leaf-larger"}[delta] + "+all-proofs-from-forked-tree+claim-follows"
			if !forge {
				if delta != 0 {
					continue
				}
				class = "control:all-proofs-rebuilt-from-reference-tree-and-ledger"
			}
			ops = append(ops, mop{class, "binary-linking-tree", func(r *rand.Rand, e *menv, d *dcase) bool {
				if d.p == nil || d.p.SourceTxHeader == nil || d.p.TargetTxHeader == nil {
					return false
				}
				h, S, T := e.h, d.p.SourceTxHeader, d.p.TargetTxHeader
				s, t, sb := d.sID, d.tID, S.BlTxID
				if s == 0 || s > uint64(h.n) || t > uint64(h.n) || t <= s || S.ID != s || T.ID != t || S.Version < 0 || S.Version > 1 || S.Alh() != h.alh[s] {
					return false
				}
				bl := uint64(int64(T.BlTxID) + int64(delta))
				if int64(T.BlTxID)+int64(delta) < 1 || bl >= t || bl > uint64(h.n) {
					return false
				}
				if e.v2 && (delta != 0 || bl != t-1 || sb != s-1) {
					return false
				}
				leaves := append([]refmerkle.Hash(nil), h.leaf[:bl]...)
				var k uint64
				var K *store.TxHeader
				if forge {
					// a non-last leaf of the forked tree that the source's own tree covers
					hi := sb
					if bl-1 < hi {
						hi = bl - 1
					}
					if hi < 1 {
						return false
					}
					k = 1 + r.Uint64N(hi)
					K = cloneHdr(h.hdr[k])
					K.Eh = flipBit(r, K.Eh) // the rewritten tx k
					if K.Version < 0 || K.Version > 1 {
						return false
					}
					ka := K.Alh()
					leaves[k-1] = refmerkle.LeafHash(ka[:])
				}
				ft := refmerkle.New(leaves)
				T.BlTxID = bl
				T.BlRoot = ft.RootAt(int(bl))
				d.p.InclusionProof = nil
				if s < bl || (e.v2 && s <= bl) { // DualProofV2 always carries the inclusion of the source in the target's tree
					d.p.InclusionProof = ft.Inclusion(int(s)-1, int(bl))
				}
				d.p.ConsistencyProof = nil
				if sb > 0 {
					d.p.ConsistencyProof = treeConsistency(ft, int(sb), int(bl))
				}
				if e.v2 {
					if s == 1 {
						d.p.ConsistencyProof = treeConsistency(ft, 1, int(bl))
					}
					return recompute(d, "tgt")
				}
				d.p.TargetBlTxAlh = h.alh[bl]
				d.p.LastInclusionProof = ft.Inclusion(int(bl)-1, int(bl))
				m := s
				if bl > m {
					m = bl
				}
				terms, ok := linearTermsFromLedger(h, m, t, T)
				if !ok {
					return false
				}
				d.p.LinearProof = &store.LinearProof{SourceTxID: m, TargetTxID: t, Terms: terms}
				end := s
				if bl < end {
					end = bl
				}
				if end < sb {
					return false
				}
				lap, ok := lapFromTree(h, ft, sb, end, bl, nil)
				if !ok {
					return false
				}
				d.p.LinearAdvanceProof = lap
				if !recompute(d, "tgt") {
					return false
				}
				if forge {
					forgedT := cloneHdr(T)
					d.followUp = func() string { return forkFollowUp(h, ft, forgedT, K, k, bl, t) }
				}
				return true
			}})
		}
	}
	return ops
}

// forkFollowUp: the forged target (t, alh') is now the trusted state. A proof for the
// rewritten tx k (source) against it, every part taken from the forked tree, is shown
// to VerifyDualProof; acceptance means a rewritten old tx verifies: a fork.
func forkFollowUp(h *hist, ft *refmerkle.Tree, T, K *store.TxHeader, k, bl, t uint64) string {
	kb := K.BlTxID
	p := &store.DualProof{SourceTxHeader: cloneHdr(K), TargetTxHeader: cloneHdr(T), TargetBlTxAlh: h.alh[bl]}
	if k >= bl || kb >= k {
		return "follow-up not applicable"
	}
	p.InclusionProof = ft.Inclusion(int(k)-1, int(bl))
	if kb > 0 {
		p.ConsistencyProof = treeConsistency(ft, int(kb), int(bl))
	}
	p.LastInclusionProof = ft.Inclusion(int(bl)-1, int(bl))
	terms, ok := linearTermsFromLedger(h, bl, t, T)
	if !ok {
		return "follow-up not built"
	}
	p.LinearProof = &store.LinearProof{SourceTxID: bl, TargetTxID: t, Terms: terms}
	lap, ok := lapFromTree(h, ft, kb, k, bl, K)
	if !ok {
		return "follow-up not built"
	}
	p.LinearAdvanceProof = lap
	ka, ta := K.Alh(), T.Alh()
	var acc bool
	pan, _, _ := fw.Guard(func() { acc = store.VerifyDualProof(p, k, t, ka, ta) })
	res := "REJECTED"
	if pan {
		res = "PANICKED"
	} else if acc {
		res = "ACCEPTED (a rewritten old tx verifies against the forged state: fork)"
	}
	return fmt.Sprintf("follow-up with the forged target as trusted state (tx %d alh %x, BlTxID %d BlRoot %x; ledger alh[%d] %x, real root of %d leaves %x): rewritten tx %d with alh %x (ledger alh[%d] %x) proven from the forked tree: %s",
		t, ta, T.BlTxID, T.BlRoot, t, h.alh[t], bl, h.roots[bl], k, ka, k, h.alh[k], res)
}

func allDualOps() []mop {
	var ops []mop
	ops = append(ops, headerOps()...)
	ops = append(ops, listOps()...)
	ops = append(ops, scalarOps()...)
	ops = append(ops, claimOps()...)
	ops = append(ops, forgeOps()...)
	ops = append(ops, treeForgeOps()...)
	ops = append(ops, forkedTreeOps()...)
	return ops
}
