package c01

import (
	"bytes"
	"errors"
	"fmt"
	"math/rand/v2"
	"sort"
	"strings"

	"github.com/codenotary/immudb/embedded/htree"
	"github.com/codenotary/immudb/embedded/store"

	"verifharness/internal/fw"
	"verifharness/internal/refmerkle"
)

// acc collects the observations of one work item and is flushed once.
type acc struct {
	c      *fw.Ctx
	evals  int
	counts map[string]int64
	dist   map[string]struct{}
}

func newAcc(c *fw.Ctx) *acc {
	return &acc{c: c, counts: map[string]int64{}, dist: map[string]struct{}{}}
}

func (a *acc) flush() {
	a.c.Eval(a.evals)
	for k, n := range a.counts {
		a.c.Count(k, n)
	}
	for k := range a.dist {
		a.c.Distinct(k)
	}
}

func (a *acc) see(key string)   { a.dist[key] = struct{}{} }
func (a *acc) count(key string) { a.counts[key]++ }

func labelSig(labels []string) string {
	if len(labels) == 1 {
		return labels[0]
	}
	l := append([]string(nil), labels...)
	sort.Strings(l)
	return "multi(" + strings.Join(l, ",") + ")"
}

func describeDual(d *dcase) string {
	var b strings.Builder
	fmt.Fprintf(&b, "claim: source tx %d alh %x, target tx %d alh %x\n", d.sID, d.sAlh, d.tID, d.tAlh)
	p := d.p
	if p == nil {
		b.WriteString("proof: nil\n")
		return b.String()
	}
	hd := func(n string, h *store.TxHeader) {
		if h == nil {
			fmt.Fprintf(&b, "%s: nil\n", n)
			return
		}
		var md []byte
		if h.Metadata != nil {
			md = h.Metadata.Bytes()
		}
		fmt.Fprintf(&b, "%s: ID=%d Ts=%d BlTxID=%d BlRoot=%x PrevAlh=%x Version=%d MD=%x NEntries=%d Eh=%x\n", n, h.ID, h.Ts, h.BlTxID, h.BlRoot, h.PrevAlh, h.Version, md, h.NEntries, h.Eh)
	}
	hd("SourceTxHeader", p.SourceTxHeader)
	hd("TargetTxHeader", p.TargetTxHeader)
	fmt.Fprintf(&b, "InclusionProof: %x\nConsistencyProof: %x\nTargetBlTxAlh: %x\nLastInclusionProof: %x\n", p.InclusionProof, p.ConsistencyProof, p.TargetBlTxAlh, p.LastInclusionProof)
	if p.LinearProof != nil {
		fmt.Fprintf(&b, "LinearProof: %d..%d %x\n", p.LinearProof.SourceTxID, p.LinearProof.TargetTxID, p.LinearProof.Terms)
	} else {
		b.WriteString("LinearProof: nil\n")
	}
	if p.LinearAdvanceProof != nil {
		fmt.Fprintf(&b, "LinearAdvanceProof: terms %x inclusion proofs %x\n", p.LinearAdvanceProof.LinearProofTerms, p.LinearAdvanceProof.InclusionProofs)
	} else {
		b.WriteString("LinearAdvanceProof: nil\n")
	}
	return b.String()
}

func (h *hist) describeChain() string {
	var b strings.Builder
	fmt.Fprintf(&b, "history %s: %d txs, header version %d, lagging=%v\n", h.name, h.n, h.version, h.lagging)
	for id := 1; id <= h.n; id++ {
		fmt.Fprintf(&b, "tx %d BlTxID %d alh %x\n", id, h.hdr[id].BlTxID, h.alh[id])
	}
	return b.String()
}

// legitForward: the accepted, false target claim is nevertheless a possible
// continuation of the trusted source state — a header that links to the real
// history at its binary-linking point (real root) and whose linear part starts at a
// real alh not before the trusted tx. Such a fork after the trusted state cannot
// be told from the real continuation by any verifier holding one state, so the
// property statement cannot forbid its acceptance.
func (h *hist) legitForward(d *dcase, v2 bool) (bool, string) {
	if d.p == nil || d.p.TargetTxHeader == nil {
		return false, "no-target-header"
	}
	T := d.p.TargetTxHeader
	if d.tID == d.sID {
		return false, "same-tx-different-alh"
	}
	if d.tID < d.sID {
		return false, "target-before-source"
	}
	if T.Version < 0 || T.Version > 1 || T.ID != d.tID || T.Alh() != d.tAlh {
		return false, "target-header-is-not-the-claimed-state"
	}
	if T.BlTxID >= T.ID || T.BlTxID > uint64(h.n) {
		return false, "linking-point-out-of-range"
	}
	// A Merkle root does not commit to the number of leaves, so a real root shown with
	// another size is indistinguishable for some positions (as in C08: valid for another tree
	// shape); with BlTxID 0 the field commits to nothing. Only a root that is no root of
	// the real history makes the state a false one.
	if T.BlTxID > 0 && !h.isRealRoot(T.BlRoot) {
		if d.sID < T.BlTxID {
			return false, "blroot-is-not-a-root-of-the-real-history/trusted-tx-before-linking-point"
		}
		// the trusted tx's own header commits to the tree of its linking point: a target tree that is
		// not shown (by the independent RFC 9162 verifier) to extend THAT tree contradicts the trusted
		// state itself; otherwise the deviation lies in leaves after it, which only the linear chain covers
		if !h.extendsTrustedTree(d) {
			return false, "blroot-is-not-a-root-of-the-real-history/target-tree-does-not-extend-the-trusted-tx-tree"
		}
		return false, "blroot-is-not-a-root-of-the-real-history/trusted-tx-at-or-after-linking-point"
	}
	if v2 {
		if T.BlTxID != T.ID-1 {
			return false, "not-tightly-linked"
		}
		if T.PrevAlh != h.alh[T.BlTxID] {
			return false, "prevalh-is-not-the-real-predecessor"
		}
		return true, ""
	}
	lp := d.p.LinearProof
	if lp == nil || len(lp.Terms) == 0 {
		return false, "no-linear-part"
	}
	m := lp.SourceTxID
	if m < d.sID || m < T.BlTxID || m == 0 || m > uint64(h.n) || m > d.tID {
		return false, "linear-part-starts-before-trusted-tx-or-linking-point"
	}
	if lp.Terms[0] != h.alh[m] {
		return false, "linear-part-not-anchored-in-a-real-alh"
	}
	if uint64(len(lp.Terms)) != d.tID-m+1 {
		return false, "linear-part-length"
	}
	a := lp.Terms[0]
	for i := 1; i < len(lp.Terms); i++ {
		a = advance(a, m+uint64(i), lp.Terms[i])
	}
	if a != d.tAlh {
		return false, "linear-part-does-not-fold-to-the-claimed-alh"
	}
	return true, ""
}

// judgeDual gives the verdict on one accepted/rejected (response, claim): the
// outcome class and, for a violation, the class of the false statement accepted.
func (h *hist) judgeDual(d *dcase, accepted, v2 bool) (string, string) {
	if !accepted {
		return "rejected", ""
	}
	sa, sok := h.alhOf(d.sID)
	ta, tok := h.alhOf(d.tID)
	sTrue := sok && sa == d.sAlh
	tTrue := tok && ta == d.tAlh
	switch {
	case sTrue && tTrue:
		return "accepted-true-claim", ""
	case !sTrue && !tTrue:
		return "accepted-no-true-anchor", ""
	case sTrue: // trusted source, proven target is not the ledger's
		ok, why := h.legitForward(d, v2)
		if ok {
			return "accepted-fork-after-trusted", ""
		}
		return "ACCEPTED-FALSE-TARGET", "false-target/" + why
	default: // trusted target, proven source is not the ledger's
		if d.sID == d.tID {
			return "ACCEPTED-FALSE-SOURCE", "false-source/same-tx-different-alh"
		}
		if d.sID > d.tID {
			return "ACCEPTED-FALSE-SOURCE", "false-source/source-after-target"
		}
		return "ACCEPTED-FALSE-SOURCE", "false-source/older-tx-not-the-ledgers"
	}
}

type guardStat struct {
	panicked bool
	sig      string
	text     string
}

func callDual(d *dcase) (ok bool, g guardStat) {
	g.panicked, g.sig, g.text = fw.Guard(func() {
		ok = store.VerifyDualProof(d.p, d.sID, d.tID, d.sAlh, d.tAlh)
	})
	return
}

func toV2(p *store.DualProof) *store.DualProofV2 {
	if p == nil {
		return nil
	}
	return &store.DualProofV2{SourceTxHeader: p.SourceTxHeader, TargetTxHeader: p.TargetTxHeader, InclusionProof: p.InclusionProof, ConsistencyProof: p.ConsistencyProof}
}

func callDualV2(d *dcase) (ok bool, g guardStat) {
	g.panicked, g.sig, g.text = fw.Guard(func() {
		ok = store.VerifyDualProofV2(toV2(d.p), d.sID, d.tID, d.sAlh, d.tAlh) == nil
	})
	return
}

func branchOf(h *hist, s, t uint64) string {
	rel := "s<t"
	if s == t {
		rel = "s=t"
	}
	br := "linear-from-source"
	if s < h.hdr[t].BlTxID {
		br = "inclusion+linear-from-bl"
	}
	lag := "tight"
	if h.hdr[t].BlTxID+1 < t || h.hdr[s].BlTxID+1 < s {
		lag = "lagging"
	}
	return rel + "|" + br + "|" + lag
}

// dualItem: everything about the pair (s, t), s <= t: completeness of every
// producer/verifier pair, then the altered cases.
func (h *hist) dualItem(c *fw.Ctx, a *acc, r *rand.Rand, ops []mop, s, t uint64, other *store.DualProof, nSingle, nMulti int) *store.DualProof {
	sh, th := h.hdr[s], h.hdr[t]
	shape := fmt.Sprintf("trusted/proven pair (%d,%d) of %d txs; BlTxID(source)=%d BlTxID(target)=%d; history %s", s, t, h.n, sh.BlTxID, th.BlTxID, h.name)
	br := branchOf(h, s, t)

	// ---- completeness: DualProof + VerifyDualProof ----
	p, err := h.st.DualProof(cloneHdr(sh), cloneHdr(th))
	a.evals++
	if err != nil {
		c.Violation("store.DualProof/honest-error", fmt.Sprintf("DualProof failed for %s: %v", shape, err), map[string][]byte{"history.txt": []byte(h.describeChain())})
		return nil
	}
	honest := &dcase{p: p, sID: s, tID: t, sAlh: h.alh[s], tAlh: h.alh[t]}
	ok, g := callDual(honest)
	lapKind := "lap-absent"
	if p.LinearAdvanceProof != nil {
		lapKind = "lap-present"
	}
	a.see("L1|VerifyDualProof|honest|" + br + "|" + lapKind + "|" + fmt.Sprint(ok))
	a.count("l1_dual_honest")
	if g.panicked {
		c.Violation(g.sig, "VerifyDualProof panicked on an honest proof: "+shape+"\n"+g.text, nil)
	} else if !ok {
		c.Violation("store.VerifyDualProof/honest-rejected/"+br, "the honest DualProof does not verify: "+shape+"\n"+describeDual(honest),
			map[string][]byte{"history.txt": []byte(h.describeChain())})
	}

	// ---- completeness: DualProofV2 (defined for tightly linked headers only) ----
	tight := sh.BlTxID == s-1 && th.BlTxID == t-1
	p2, err2 := h.st.DualProofV2(cloneHdr(sh), cloneHdr(th))
	a.evals++
	var honest2 *dcase
	switch {
	case err2 != nil && tight:
		c.Violation("store.DualProofV2/honest-error", fmt.Sprintf("DualProofV2 failed for %s: %v", shape, err2), nil)
	case err2 != nil:
		if !errors.Is(err2, store.ErrUnexpectedLinkingError) {
			c.Violation("store.DualProofV2/honest-error", fmt.Sprintf("DualProofV2 failed with an unexpected error for %s: %v", shape, err2), nil)
		}
		a.see("L1|DualProofV2|honest|" + br + "|refused-lagging")
	default:
		honest2 = &dcase{p: &store.DualProof{SourceTxHeader: p2.SourceTxHeader, TargetTxHeader: p2.TargetTxHeader, InclusionProof: p2.InclusionProof, ConsistencyProof: p2.ConsistencyProof},
			sID: s, tID: t, sAlh: h.alh[s], tAlh: h.alh[t]}
		ok2, g2 := callDualV2(honest2)
		a.see("L1|VerifyDualProofV2|honest|" + br + "|" + fmt.Sprint(ok2))
		a.count("l1_dualv2_honest")
		if g2.panicked {
			c.Violation(g2.sig, "VerifyDualProofV2 panicked on an honest proof: "+shape+"\n"+g2.text, nil)
		} else if !ok2 {
			c.Violation("store.VerifyDualProofV2/honest-rejected/"+br, "the honest DualProofV2 does not verify: "+shape+"\n"+describeDual(honest2), nil)
		}
	}

	// ---- soundness ----
	run := func(base *dcase, v2 bool, picks []int) {
		name := "VerifyDualProof"
		if v2 {
			name = "VerifyDualProofV2"
		}
		d := base.clone()
		e := &menv{h: h, other: other, v2: v2}
		applied := 0
		for _, k := range picks {
			op := ops[k]
			if v2 && !v2Applies(op.comp) {
				continue
			}
			var okop bool
			if pan, _, _ := fw.Guard(func() { okop = op.apply(r, e, d) }); pan || !okop {
				continue // not applicable to what the case has become
			}
			d.labels = append(d.labels, op.class+":"+op.comp)
			applied++
		}
		if applied == 0 {
			return
		}
		var acpt bool
		var gs guardStat
		if v2 {
			acpt, gs = callDualV2(d)
		} else {
			acpt, gs = callDual(d)
		}
		a.evals++
		a.count("l1_" + strings.ToLower(name) + "_altered")
		sig := labelSig(d.labels)
		kind := "single"
		if applied > 1 {
			kind = "multi"
		}
		if gs.panicked {
			a.see("L1|" + name + "|" + kind + "|" + d.labels[0] + "|" + br + "|panic")
			c.Violation(gs.sig, name+" panicked on an altered proof ("+sig+"): "+shape+"\n"+describeDual(d)+"\n"+gs.text, nil)
			return
		}
		out, falsehood := h.judgeDual(d, acpt, v2)
		if applied == 1 {
			a.see("L1|" + name + "|single|" + d.labels[0] + "|" + br + "|" + lapKind + "|" + out)
		} else {
			a.see("L1|" + name + "|multi|" + fmt.Sprint(applied) + "|" + br + "|" + out)
		}
		a.count("l1_outcome_" + out)
		if strings.HasPrefix(sig, "control:") {
			// generator self-check: proofs re-derived from the reference tree over the real leaves
			a.count("l1_control_" + name + "_" + out)
			if out == "rejected" {
				c.Violation("store."+name+"/reference-proofs-rejected", name+" rejected a proof whose parts were all re-derived from the RFC 6962 reference tree over the real leaves (the store's own proof for the same claim verifies): "+shape+"\n"+describeDual(d), map[string][]byte{"history.txt": []byte(h.describeChain())})
			}
		}
		if falsehood != "" {
			a.count("l1_violation_by_operator|" + name + "|" + sig)
			follow := ""
			if d.followUp != nil && !v2 {
				follow = "\n" + d.followUp()
				if strings.Contains(follow, "ACCEPTED") {
					a.count("l1_fork_follow_up_accepted")
				} else {
					a.count("l1_fork_follow_up_not_accepted")
				}
			}
			c.Violation("store."+name+"/"+falsehood, name+" accepted a false claim ("+falsehood+") after "+sig+": "+shape+"\n"+describeDual(d)+"ledger: alh["+fmt.Sprint(d.sID)+"], alh["+fmt.Sprint(d.tID)+"] = "+h.alhText(d.sID)+", "+h.alhText(d.tID)+follow,
				map[string][]byte{"history.txt": []byte(h.describeChain()), "case.txt": []byte(describeDual(d))})
		}
	}
	singles := pickOps(r, len(ops), nSingle)
	for _, k := range singles {
		run(honest, false, []int{k})
	}
	for m := 0; m < nMulti; m++ {
		cnt := 2 + r.IntN(3)
		picks := make([]int, cnt)
		for i := range picks {
			picks[i] = r.IntN(len(ops))
		}
		run(honest, false, picks)
	}
	if honest2 != nil {
		for _, k := range singles {
			run(honest2, true, []int{k})
		}
		for m := 0; m < nMulti/2; m++ {
			cnt := 2 + r.IntN(3)
			picks := make([]int, cnt)
			for i := range picks {
				picks[i] = r.IntN(len(ops))
			}
			run(honest2, true, picks)
		}
	}
	return p
}

// extendsTrustedTree: is the target's tree (BlTxID, BlRoot as claimed) shown to be an
// extension of the tree the real source header commits to? Equal sizes: equal roots;
// otherwise the response's consistency proof must satisfy the strict reference verifier
// (ahtree format: the seed node MTH(D[0:i]) is explicit when i is a power of two).
func (h *hist) extendsTrustedTree(d *dcase) bool {
	S, T := h.hdr[d.sID], d.p.TargetTxHeader
	sb, bl := S.BlTxID, T.BlTxID
	switch {
	case sb == 0:
		return true
	case sb > bl:
		return false
	case sb == bl:
		return T.BlRoot == h.roots[sb]
	}
	p := d.p.ConsistencyProof
	if sb&(sb-1) == 0 {
		if len(p) == 0 || p[0] != h.roots[sb] {
			return false
		}
		p = p[1:]
	}
	return refmerkle.VerifyConsistencyStrict(p, sb, bl, h.roots[sb], T.BlRoot)
}

func (h *hist) isRealRoot(x H) bool {
	for k := 1; k <= h.n; k++ {
		if h.roots[k] == x {
			return true
		}
	}
	return false
}

func (h *hist) alhText(id uint64) string {
	if a, ok := h.alhOf(id); ok {
		return fmt.Sprintf("%x", a)
	}
	return "(no such tx)"
}

func v2Applies(comp string) bool {
	return !strings.Contains(comp, "Linear") && !strings.Contains(comp, "LastInclusion") && comp != "TargetBlTxAlh"
}

// pickOps: every operator when want >= n, otherwise a PRNG subset.
func pickOps(r *rand.Rand, n, want int) []int {
	if want >= n {
		out := make([]int, n)
		for i := range out {
			out[i] = i
		}
		return out
	}
	return r.Perm(n)[:want]
}

// ---- linear proofs -----------------------------------------------------------------------------

func (h *hist) linearItem(c *fw.Ctx, a *acc, r *rand.Rand, s, t uint64) {
	shape := fmt.Sprintf("linear proof %d..%d of %d txs; history %s", s, t, h.n, h.name)
	lp, err := h.st.LinearProof(s, t)
	a.evals++
	if err != nil {
		c.Violation("store.LinearProof/honest-error", fmt.Sprintf("%s: %v", shape, err), nil)
		return
	}
	rel := "s<t"
	if s == t {
		rel = "s=t"
	}
	ok := store.VerifyLinearProof(lp, s, t, h.alh[s], h.alh[t])
	a.see("L1|VerifyLinearProof|honest|" + rel + "|" + fmt.Sprint(ok))
	if !ok {
		c.Violation("store.VerifyLinearProof/honest-rejected", "the honest LinearProof does not verify: "+shape, nil)
	}
	type lcase struct {
		p          *store.LinearProof
		sID, tID   uint64
		sAlh, tAlh H
	}
	e := &menv{h: h}
	fold := func(l *lcase) (H, bool) {
		if l.p == nil || len(l.p.Terms) == 0 {
			return H{}, false
		}
		x := l.p.Terms[0]
		for i := 1; i < len(l.p.Terms); i++ {
			x = advance(x, l.p.SourceTxID+uint64(i), l.p.Terms[i])
		}
		return x, true
	}
	try := func(label string, f func(l *lcase) bool) {
		l := &lcase{p: cloneLinear(lp), sID: s, tID: t, sAlh: h.alh[s], tAlh: h.alh[t]}
		if !f(l) {
			return
		}
		var acpt bool
		pan, psig, ptext := fw.Guard(func() { acpt = store.VerifyLinearProof(l.p, l.sID, l.tID, l.sAlh, l.tAlh) })
		a.evals++
		a.count("l1_verifylinearproof_altered")
		if pan {
			c.Violation(psig, "VerifyLinearProof panicked ("+label+"): "+shape+"\n"+ptext, nil)
			return
		}
		out := "rejected"
		viol := false
		if acpt {
			sa, sok := h.alhOf(l.sID)
			ta, tok := h.alhOf(l.tID)
			sTrue, tTrue := sok && sa == l.sAlh, tok && ta == l.tAlh
			switch {
			case sTrue && tTrue:
				out = "accepted-true-claim"
			case !sTrue && !tTrue:
				out = "accepted-no-true-anchor"
			case sTrue:
				// forward: a chain re-folded from the trusted alh over altered inner hashes is a fork after the trusted tx
				if x, okf := fold(l); okf && l.tID > l.sID && l.p.SourceTxID == l.sID && l.p.Terms[0] == l.sAlh && uint64(len(l.p.Terms)) == l.tID-l.sID+1 && x == l.tAlh {
					out = "accepted-fork-after-trusted"
				} else {
					out, viol = "ACCEPTED-FALSE-TARGET", true
				}
			default:
				out, viol = "ACCEPTED-FALSE-SOURCE", true
			}
		}
		a.see("L1|VerifyLinearProof|" + label + "|" + rel + "|" + out)
		if viol {
			c.Violation("store.VerifyLinearProof/"+label, fmt.Sprintf("VerifyLinearProof accepted a false claim (%s) after %s: %s\nclaim %d %x -> %d %x\nproof %d..%d %x", out, label, shape, l.sID, l.sAlh, l.tID, l.tAlh, l.p.SourceTxID, l.p.TargetTxID, l.p.Terms),
				map[string][]byte{"history.txt": []byte(h.describeChain())})
		}
	}
	for _, class := range listClasses {
		class := class
		try(class+":Terms", func(l *lcase) bool {
			q, ok := mutList(r, e, &dcase{sAlh: l.sAlh, tAlh: l.tAlh, p: &store.DualProof{LinearProof: l.p}}, class, l.p.Terms)
			l.p.Terms = q
			return ok
		})
	}
	try("flip:Terms[0]+claim-follows", func(l *lcase) bool { l.p.Terms[0] = flipBit(r, l.p.Terms[0]); l.sAlh = l.p.Terms[0]; return true })
	try("flip:Terms[k]+refolded-target", func(l *lcase) bool {
		if len(l.p.Terms) < 2 {
			return false
		}
		k := 1 + r.IntN(len(l.p.Terms)-1)
		l.p.Terms[k] = flipBit(r, l.p.Terms[k])
		l.tAlh, _ = fold(l)
		return true
	})
	try("flip:Terms[0]+refolded-target", func(l *lcase) bool { // altered old tx below a re-folded chain: trusted target must not match
		l.p.Terms[0] = flipBit(r, l.p.Terms[0])
		l.sAlh = l.p.Terms[0]
		if r.IntN(2) == 0 {
			l.tAlh, _ = fold(l)
		}
		return true
	})
	try("nil:proof", func(l *lcase) bool { l.p = nil; return true })
	try("plus1:SourceTxID", func(l *lcase) bool { l.p.SourceTxID++; return true })
	try("minus1:SourceTxID", func(l *lcase) bool { l.p.SourceTxID--; return true })
	try("plus1:TargetTxID", func(l *lcase) bool { l.p.TargetTxID++; return true })
	try("minus1:TargetTxID", func(l *lcase) bool { l.p.TargetTxID--; return true })
	try("shifted:ids+claim", func(l *lcase) bool {
		l.p.SourceTxID++
		l.p.TargetTxID++
		l.sID++
		l.tID++
		return true
	})
	try("plus1:claim.srcID+SourceTxID", func(l *lcase) bool { l.sID++; l.p.SourceTxID++; return true })
	try("minus1:claim.tgtID+TargetTxID", func(l *lcase) bool { l.tID--; l.p.TargetTxID--; return true })
	try("drop:Terms[last]+minus1:claim.tgtID+TargetTxID", func(l *lcase) bool {
		if len(l.p.Terms) < 2 {
			return false
		}
		l.p.Terms = l.p.Terms[:len(l.p.Terms)-1]
		l.tID--
		l.p.TargetTxID--
		return true
	})
	try("plus1:claim.srcID", func(l *lcase) bool { l.sID++; return true })
	try("plus1:claim.tgtID", func(l *lcase) bool { l.tID++; return true })
	try("flip:claim.srcAlh", func(l *lcase) bool { l.sAlh = flipBit(r, l.sAlh); return true })
	try("flip:claim.tgtAlh", func(l *lcase) bool { l.tAlh = flipBit(r, l.tAlh); return true })
	try("replace-alh:claim.srcAlh", func(l *lcase) bool { l.sAlh = e.someAlh(r, l.sAlh); return true })
	try("replace-alh:claim.tgtAlh", func(l *lcase) bool { l.tAlh = e.someAlh(r, l.tAlh); return true })
	try("exchanged:claim", func(l *lcase) bool {
		if l.sID == l.tID {
			return false
		}
		l.sID, l.tID, l.sAlh, l.tAlh = l.tID, l.sID, l.tAlh, l.sAlh
		return true
	})
}

// ---- linear advance proofs (stand-alone) -------------------------------------------------------

// The statement of VerifyLinearAdvanceProof(proof, start, end, endAlh, root, size):
// the alh values of txs start+1..end-1 obtained by chaining up to endAlh are the
// leaves at their positions of the tree (root, size). Against the ledger: when
// the tree is the real one (root = roots[size]), acceptance means every chained
// value must be the ledger's alh of that tx, and the chain must end in endAlh.
func (h *hist) lapItem(c *fw.Ctx, a *acc, r *rand.Rand, s, t uint64) {
	sh, th := h.hdr[s], h.hdr[t]
	start, size := sh.BlTxID, th.BlTxID
	end := s
	if size < end {
		end = size
	}
	if end < start {
		return
	}
	shape := fmt.Sprintf("linear advance proof start=%d end=%d tree size=%d (pair %d,%d); history %s", start, end, size, s, t, h.name)
	lap, err := h.st.LinearAdvanceProof(start, end, size)
	a.evals++
	if err != nil {
		c.Violation("store.LinearAdvanceProof/honest-error", fmt.Sprintf("%s: %v", shape, err), nil)
		return
	}
	var endAlh H
	if end > 0 {
		endAlh = h.alh[end]
	}
	root := h.roots[size]
	kind := "needed"
	if end <= start+1 {
		kind = "trivial"
	}
	ok := store.VerifyLinearAdvanceProof(lap, start, end, endAlh, root, size)
	a.see("L1|VerifyLinearAdvanceProof|honest|" + kind + "|" + fmt.Sprint(ok))
	if !ok {
		c.Violation("store.VerifyLinearAdvanceProof/honest-rejected", "the honest LinearAdvanceProof does not verify: "+shape, map[string][]byte{"history.txt": []byte(h.describeChain())})
	}
	if kind == "trivial" {
		return
	}
	e := &menv{h: h}
	type lc struct {
		p          *store.LinearAdvanceProof
		start, end uint64
		endAlh     H
		root       H
		size       uint64
	}
	try := func(label string, f func(l *lc) bool) {
		l := &lc{p: cloneLAP(lap), start: start, end: end, endAlh: endAlh, root: root, size: size}
		if !f(l) {
			return
		}
		var acpt bool
		pan, psig, ptext := fw.Guard(func() { acpt = store.VerifyLinearAdvanceProof(l.p, l.start, l.end, l.endAlh, l.root, l.size) })
		a.evals++
		a.count("l1_verifylinearadvanceproof_altered")
		if pan {
			c.Violation(psig, "VerifyLinearAdvanceProof panicked ("+label+"): "+shape+"\n"+ptext, nil)
			return
		}
		out, viol, why := "rejected", false, ""
		if acpt {
			out = "accepted-unjudged-tree"
			if l.end <= l.start+1 {
				out = "accepted-trivial-range"
			} else if tr, okr := h.rootOf(l.size); okr && l.size > 0 && tr == l.root {
				out = "accepted-consistent-with-ledger"
				if l.p == nil || uint64(len(l.p.LinearProofTerms)) != l.end-l.start {
					out, viol, why = "ACCEPTED-WITHOUT-CHAIN", true, "no chain of the claimed length"
				} else {
					x := l.p.LinearProofTerms[0]
					for tx := l.start + 1; tx < l.end; tx++ {
						if la, okl := h.alhOf(tx); !okl || tx > l.size || la != x {
							out, viol, why = "ACCEPTED-FALSE-LEAF", true, fmt.Sprintf("value %x chained for tx %d is not the ledger's alh in the real tree of size %d", x, tx, l.size)
							break
						}
						x = advance(x, tx+1, l.p.LinearProofTerms[tx-l.start])
					}
					if !viol && x != l.endAlh {
						out, viol, why = "ACCEPTED-BROKEN-CHAIN", true, "the chain does not end in the claimed end alh"
					}
				}
			}
		}
		a.see("L1|VerifyLinearAdvanceProof|" + label + "|" + out)
		if viol {
			c.Violation("store.VerifyLinearAdvanceProof/"+label, fmt.Sprintf("VerifyLinearAdvanceProof accepted (%s: %s) after %s: %s\nclaim start=%d end=%d endAlh=%x root=%x size=%d\nproof %+v", out, why, label, shape, l.start, l.end, l.endAlh, l.root, l.size, l.p),
				map[string][]byte{"history.txt": []byte(h.describeChain())})
		}
	}
	dd := func(l *lc) *dcase {
		return &dcase{p: &store.DualProof{LinearAdvanceProof: l.p}, tAlh: l.endAlh, sAlh: l.root}
	}
	for _, class := range listClasses {
		class := class
		try(class+":LinearProofTerms", func(l *lc) bool {
			q, ok := mutList(r, e, dd(l), class, l.p.LinearProofTerms)
			l.p.LinearProofTerms = q
			return ok
		})
		try(class+":InclusionProofs[k]", func(l *lc) bool {
			if len(l.p.InclusionProofs) == 0 {
				return false
			}
			k := r.IntN(len(l.p.InclusionProofs))
			q, ok := mutList(r, e, dd(l), class, l.p.InclusionProofs[k])
			l.p.InclusionProofs[k] = q
			return ok
		})
	}
	try("nil:proof", func(l *lc) bool { l.p = nil; return true })
	try("drop-list:InclusionProofs", func(l *lc) bool {
		k := r.IntN(len(l.p.InclusionProofs))
		l.p.InclusionProofs = append(l.p.InclusionProofs[:k], l.p.InclusionProofs[k+1:]...)
		return true
	})
	try("swap-lists:InclusionProofs", func(l *lc) bool {
		if len(l.p.InclusionProofs) < 2 {
			return false
		}
		k := r.IntN(len(l.p.InclusionProofs) - 1)
		l.p.InclusionProofs[k], l.p.InclusionProofs[k+1] = l.p.InclusionProofs[k+1], l.p.InclusionProofs[k]
		return true
	})
	try("plus1:start", func(l *lc) bool { l.start++; return true })
	try("minus1:start", func(l *lc) bool {
		if l.start == 0 {
			return false
		}
		l.start--
		return true
	})
	try("plus1:end", func(l *lc) bool { l.end++; return true })
	try("minus1:end", func(l *lc) bool { l.end--; return true })
	try("plus1:size", func(l *lc) bool { l.size++; return true })
	try("minus1:size", func(l *lc) bool { l.size--; return true })
	try("flip:endAlh", func(l *lc) bool { l.endAlh = flipBit(r, l.endAlh); return true })
	try("replace-alh:endAlh", func(l *lc) bool { l.endAlh = e.someAlh(r, l.endAlh); return true })
	try("shifted:start+end+endAlh", func(l *lc) bool {
		if l.end+1 > uint64(h.n) {
			return false
		}
		l.start++
		l.end++
		l.endAlh = h.alh[l.end]
		return true
	})
	try("other-real-tree:root+size", func(l *lc) bool {
		k := e.otherID(r, l.size)
		if k == 0 || k > uint64(h.n) {
			return false
		}
		l.size, l.root = k, h.roots[k]
		return true
	})
	// a forged first chain value with every later value re-derived from it (what the verifier recomputes): the real tree must refuse it
	try("flip:LinearProofTerms[0]+endAlh-follows", func(l *lc) bool {
		l.p.LinearProofTerms[0] = flipBit(r, l.p.LinearProofTerms[0])
		x := l.p.LinearProofTerms[0]
		for tx := l.start + 1; tx < l.end; tx++ {
			x = advance(x, tx+1, l.p.LinearProofTerms[tx-l.start])
		}
		l.endAlh = x
		return true
	})
}

// ---- entry inclusion ---------------------------------------------------------------------------

func mdBytes(md *store.KVMetadata) []byte {
	if md == nil {
		return nil
	}
	return md.Bytes()
}

// entryInTx: is (key, metadata, value) exactly an entry of ledger tx id?
func (h *hist) entryInTx(id uint64, e *store.EntrySpec) bool {
	if id == 0 || id > uint64(h.n) {
		return false
	}
	for _, le := range h.ents[id] {
		if bytes.Equal(le.key, e.Key) && bytes.Equal(le.value, e.Value) && bytes.Equal(mdBytes(le.md), mdBytes(e.Metadata)) {
			return true
		}
	}
	return false
}

func digestFor(version int, e *store.EntrySpec) H {
	if version == 0 {
		return store.EntrySpecDigest_v0(e)
	}
	return store.EntrySpecDigest_v1(e)
}

func cloneMD(md *store.KVMetadata) *store.KVMetadata {
	if md == nil {
		return nil
	}
	c := store.NewKVMetadata()
	if md.Deleted() {
		c.AsDeleted(true)
	}
	if md.NonIndexable() {
		c.AsNonIndexable(true)
	}
	if md.IsExpirable() {
		t, _ := md.ExpirationTime()
		c.ExpiresAt(t)
	}
	return c
}

func (h *hist) inclusionItem(c *fw.Ctx, a *acc, r *rand.Rand, id uint64, holder *store.Tx) {
	if err := h.st.ReadTx(id, false, holder); err != nil {
		a.evals++
		c.Violation("store.ReadTx/honest-error", fmt.Sprintf("ReadTx(%d) of history %s: %v", id, h.name, err), nil)
		return
	}
	hdr := h.hdr[id]
	ver := hdr.Version
	es := h.ents[id]
	idxs := make([]int, 0, len(es))
	for i := range es {
		idxs = append(idxs, i)
	}
	for _, i := range idxs {
		le := es[i]
		shape := fmt.Sprintf("entry %d/%d (key %q, md %x, %d value bytes) of tx %d, header version %d; history %s", i, len(es), le.key, mdBytes(le.md), len(le.value), id, ver, h.name)
		proof, err := holder.Proof(le.key)
		a.evals++
		if err != nil {
			c.Violation("store.Tx.Proof/honest-error", shape+": "+err.Error(), nil)
			continue
		}
		wclass := "width>1"
		if len(es) == 1 {
			wclass = "width=1"
		}
		mdclass := "md-none"
		if le.md != nil {
			mdclass = "md"
		}
		ok := store.VerifyInclusion(proof, digestFor(ver, le.spec()), hdr.Eh)
		a.see(fmt.Sprintf("L1|VerifyInclusion|honest|v%d|%s|%s|%v", ver, wclass, mdclass, ok))
		a.count("l1_inclusion_honest")
		if !ok {
			c.Violation("store.VerifyInclusion/honest-rejected", "the honest entry proof does not verify: "+shape, nil)
		}
		type ic struct {
			p    *htree.InclusionProof
			e    *store.EntrySpec
			ver  int
			root H
			tx   uint64 // the tx whose Eh is presented as root (0: not a real Eh)
		}
		try := func(label string, f func(x *ic) bool) {
			x := &ic{p: &htree.InclusionProof{Leaf: proof.Leaf, Width: proof.Width, Terms: cloneHashes(proof.Terms)},
				e: &store.EntrySpec{Key: append([]byte(nil), le.key...), Metadata: cloneMD(le.md), Value: append([]byte(nil), le.value...)}, ver: ver, root: hdr.Eh, tx: id}
			if !f(x) {
				return
			}
			var acpt bool
			pan, psig, ptext := fw.Guard(func() { acpt = store.VerifyInclusion(x.p, digestFor(x.ver, x.e), x.root) })
			a.evals++
			a.count("l1_verifyinclusion_altered")
			if pan {
				c.Violation(psig, "VerifyInclusion panicked ("+label+"): "+shape+"\n"+ptext, nil)
				return
			}
			out, viol := "rejected", false
			if acpt {
				switch {
				case x.tx == 0:
					out = "accepted-no-true-anchor"
				case x.ver != h.hdr[x.tx].Version:
					// the digest function is chosen by the tx header version, which the alh authenticates
					out, viol = "ACCEPTED-WRONG-DIGEST-VERSION", true
				case h.entryInTx(x.tx, x.e):
					out = "accepted-true-claim"
				default:
					out, viol = "ACCEPTED-FALSE-ENTRY", true
				}
			}
			a.see(fmt.Sprintf("L1|VerifyInclusion|%s|v%d|%s|%s", label, ver, wclass, out))
			if viol {
				c.Violation("store.VerifyInclusion/"+label, fmt.Sprintf("VerifyInclusion accepted (%s) after %s: %s\naltered entry key %q md %x value %x digest version %d; proof Leaf=%d Width=%d Terms=%x; root %x (Eh of tx %d)", out, label, shape, x.e.Key, mdBytes(x.e.Metadata), x.e.Value, x.ver, x.p.Leaf, x.p.Width, x.p.Terms, x.root, x.tx), nil)
			}
		}
		try("flip:key", func(x *ic) bool { x.e.Key[r.IntN(len(x.e.Key))] ^= 1 << uint(r.IntN(8)); return true })
		try("extend:key", func(x *ic) bool { x.e.Key = append(x.e.Key, 0); return true })
		try("truncate:key", func(x *ic) bool {
			if len(x.e.Key) < 2 {
				return false
			}
			x.e.Key = x.e.Key[:len(x.e.Key)-1]
			return true
		})
		try("flip:value", func(x *ic) bool {
			if len(x.e.Value) == 0 {
				return false
			}
			x.e.Value[r.IntN(len(x.e.Value))] ^= 1 << uint(r.IntN(8))
			return true
		})
		try("extend:value", func(x *ic) bool { x.e.Value = append(x.e.Value, 0); return true })
		try("empty:value", func(x *ic) bool {
			if len(x.e.Value) == 0 {
				return false
			}
			x.e.Value = nil
			return true
		})
		try("move-byte:key->value", func(x *ic) bool { // boundary shift between key and value
			if len(x.e.Key) < 2 {
				return false
			}
			x.e.Value = append([]byte{x.e.Key[len(x.e.Key)-1]}, x.e.Value...)
			x.e.Key = x.e.Key[:len(x.e.Key)-1]
			return true
		})
		try("other-entry:same-tx", func(x *ic) bool {
			if len(es) < 2 {
				return false
			}
			o := es[(i+1+r.IntN(len(es)-1))%len(es)]
			x.e = o.spec() // another real entry of the tx under this entry's proof (a true claim, if it were accepted)
			return true
		})
		try("value-of-other-entry", func(x *ic) bool {
			o := h.ents[1+r.IntN(h.n)]
			v := o[r.IntN(len(o))].value
			if bytes.Equal(v, x.e.Value) {
				return false
			}
			x.e.Value = v
			return true
		})
		if ver == 1 {
			try("toggle-deleted:metadata", func(x *ic) bool {
				if x.e.Metadata == nil {
					x.e.Metadata = store.NewKVMetadata()
				}
				x.e.Metadata.AsDeleted(!x.e.Metadata.Deleted())
				return true
			})
			try("toggle-nonindexable:metadata", func(x *ic) bool {
				if x.e.Metadata == nil {
					x.e.Metadata = store.NewKVMetadata()
				}
				x.e.Metadata.AsNonIndexable(!x.e.Metadata.NonIndexable())
				return true
			})
			try("change-expiry:metadata", func(x *ic) bool {
				if x.e.Metadata == nil {
					x.e.Metadata = store.NewKVMetadata()
				}
				if x.e.Metadata.IsExpirable() {
					t, _ := x.e.Metadata.ExpirationTime()
					if t.Equal(never2100) {
						x.e.Metadata.ExpiresAt(expired2001)
					} else {
						x.e.Metadata.ExpiresAt(never2100)
					}
				} else {
					x.e.Metadata.ExpiresAt(never2100)
				}
				return true
			})
			try("drop:metadata", func(x *ic) bool {
				if x.e.Metadata == nil {
					return false
				}
				x.e.Metadata = nil
				return true
			})
		}
		try("other-version:digest", func(x *ic) bool { x.ver = 1 - x.ver; return true })
		try("plus1:Leaf", func(x *ic) bool { x.p.Leaf++; return true })
		try("minus1:Leaf", func(x *ic) bool { x.p.Leaf--; return true })
		try("plus1:Width", func(x *ic) bool { x.p.Width++; return true })
		try("minus1:Width", func(x *ic) bool { x.p.Width--; return true })
		try("nil:proof", func(x *ic) bool { x.p = nil; return true })
		e := &menv{h: h}
		for _, class := range listClasses {
			class := class
			try(class+":Terms", func(x *ic) bool {
				q, ok := mutList(r, e, &dcase{p: &store.DualProof{InclusionProof: x.p.Terms}, sAlh: x.root, tAlh: hdr.PrevAlh}, class, x.p.Terms)
				x.p.Terms = q
				return ok
			})
		}
		try("eh-of-other-tx:root", func(x *ic) bool {
			o := uint64(1 + r.IntN(h.n))
			if o == id {
				return false
			}
			x.root, x.tx = h.hdr[o].Eh, o
			return true
		})
		try("flip:root", func(x *ic) bool { x.root = flipBit(r, x.root); x.tx = 0; return true })
	}
}
