// Package c01: monitor for property C01 (see DESIGN.md section 2).
package c01
