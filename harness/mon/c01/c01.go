// Package c01: verified reads/writes — proofs are complete and sound (DESIGN.md, C01).
//
// Layer 1 (hist.go, mut.go, l1.go): the store's proof producers and verifiers on
// histories committed by the real store, including histories whose binary
// linking lags the linear chain (fed through ReplicateTx by a harness-side
// legacy primary). Layer 2/3 (l3.go): pkg/database Verifiable* responses handed
// to the unmodified client verification code through a tamper layer.
//
// The verdict always uses the CLAIM the verifier accepted, never the mutation
// that was applied: a violation is an accepted statement about the history that
// the ledger contradicts (and that is not a mere fork after the trusted state,
// which no verifier holding a single state can refuse).
package c01

import (
	"fmt"
	"math/rand/v2"
	"os"
	"runtime"
	"strings"
	"sync"

	"github.com/codenotary/immudb/embedded/store"

	"verifharness/internal/fw"
	"verifharness/internal/ledger"
)

func init() { fw.RegisterMonitor("C01", "exploration", Run) }

func Run(c *fw.Ctx) {
	c.Rule = "histories committed by the real store (header v0/v1, KV/tx metadata, 1-32 entries, binary linking tight or lagging via ReplicateTx of relinked exports); " +
		"completeness: for every pair (all pairs when n<=40, sampled otherwise) and every entry the honest DualProof/DualProofV2/LinearProof/LinearAdvanceProof/Tx.Proof verifies, " +
		"and the unmodified client accepts the honest pkg/database response and stores (id, ledger alh); soundness: every honest (response, claim) is altered by single operators " +
		"(each header field, each proof list: flip/drop/duplicate/swap/replace/extra/empty, ids, claimed hashes, entry key/value/metadata, self-consistent forgeries) and PRNG combinations of 2-4; " +
		"accepted AND (a claimed alh differs from the ledger's while the other side is the ledger's, or the entry is not the ledger's entry of that tx, or the client's new state is not (id, ledger alh)) => violation, " +
		"except a fork after the trusted state (real linking point and root, linear part re-folded from a real alh at or after the trusted tx). " +
		"An evaluation is one verifier/client decision judged; distinct = layer x verifier x operator x component x branch (s<t/s=t, inclusion or linear branch, tight/lagging, linear-advance present) x outcome"
	c.Assume("SHA-256 collisions / preimages do not occur among generated values")
	c.Assume("the ledger (headers and entries acknowledged by Commit / ReplicateTx, chain-checked by the independent RFC 6962 reference) is the history")
	c.Assume("a forged continuation after the trusted state that links to the real history is not held against a verifier (undetectable with one trusted state)")
	c.Assume("unauthenticated response fields Revision and Expired are outside the statement; freshness is not checked")
	c.Assume("TxEntry.vLen is not covered by the entry digest (no proof can bind it; see C09) and is not compared; digest fields are compared as the 32 bytes the client reads")

	only := os.Getenv("VERIF_C01_ONLY") // development aid: l1 | l3
	if only != "" {
		c.Note("restricted to " + only)
	}

	specs := histSpecs(c)
	var hists []*hist
	for _, sp := range specs {
		h, err := buildHist(c, sp)
		c.Eval(1)
		if err != nil {
			if strings.Contains(err.Error(), "ReplicateTx refused") || strings.Contains(err.Error(), "ReplicateTx changed") {
				c.Violation("store.ReplicateTx/lagging-header-refused", err.Error(), nil)
			} else {
				c.Inconclusive("history " + sp.name + " could not be built: " + err.Error())
			}
			continue
		}
		// the produced chain must be what the independent reference says a chain is
		if ps := ledger.ChainProblems(h.hdr[1:]); len(ps) > 0 {
			c.Violation("history/"+ps[0].Sig, fmt.Sprintf("history %s accepted by the store is not chain-consistent: %s", h.name, ps[0].Detail), map[string][]byte{"history.txt": []byte(h.describeChain())})
		}
		c.Distinct(fmt.Sprintf("history|v%d|lagging=%v|n=%d|maxlag=%d", h.version, h.lagging, h.n, h.maxLag))
		hists = append(hists, h)
	}
	defer func() {
		for _, h := range hists {
			h.close()
		}
	}()
	if len(hists) > 0 {
		h := hists[len(hists)-1]
		for _, x := range hists {
			if x.lagging && x.n >= 10 {
				h = x
			}
		}
		var bl []uint64
		for id := 1; id <= h.n && id <= 24; id++ {
			bl = append(bl, h.hdr[id].BlTxID)
		}
		c.Sample(map[string]any{"history": h.name, "txs": h.n, "header_version": h.version, "BlTxID_of_tx_1..": bl, "max_lag": h.maxLag})
	}
	total := 0
	for _, h := range hists {
		total += h.n
	}
	c.Set("histories", len(hists))
	c.Set("txs_total", total)

	if only == "" || only == "l1" {
		layer1(c, hists)
	}
	if only == "" || only == "l3" {
		layer3(c)
	}
}

func histSpecs(c *fw.Ctx) []histSpec {
	var s []histSpec
	if c.Quick() {
		s = []histSpec{
			{"q-v1-tight-40", 40, 1, false, 32},
			{"q-v0-tight-29", 29, 0, false, 16},
			{"q-v1-lagging-40", 40, 1, true, 12},
			{"q-v0-lagging-23", 23, 0, true, 8},
			{"q-v1-tight-1", 1, 1, false, 4},
			{"q-v1-lagging-2", 2, 1, true, 4},
			{"q-v1-lagging-3", 3, 1, true, 4},
		}
		return s
	}
	r := c.Rand("c01/specs")
	for i := 0; i < 60; i++ {
		n := 0
		switch {
		case i < 8:
			n = 1 + i
		case i < 30:
			n = 9 + r.IntN(32) // exhaustive pairs
		case i < 52:
			n = 41 + r.IntN(120)
		default:
			n = 200 + r.IntN(101)
		}
		ver := 1
		if i%3 == 1 {
			ver = 0
		}
		lag := i%2 == 0
		s = append(s, histSpec{fmt.Sprintf("t%02d-v%d-lag%v-%d", i, ver, lag, n), n, ver, lag, []int{32, 12, 6}[i%3]})
	}
	return s
}

func workers() int {
	w := runtime.NumCPU()
	if w > 32 {
		w = 32
	}
	if w < 2 {
		w = 2
	}
	return w
}

// parallel runs f(0..n-1) on a bounded pool; a panic of the monitor itself is re-raised in the caller.
func parallel(n int, f func(k int)) {
	w := workers()
	if w > n {
		w = n
	}
	var wg sync.WaitGroup
	var mu sync.Mutex
	var perr any
	next := 0
	for i := 0; i < w; i++ {
		wg.Add(1)
		go func() {
			defer wg.Done()
			defer func() {
				if r := recover(); r != nil {
					mu.Lock()
					if perr == nil {
						perr = r
					}
					mu.Unlock()
				}
			}()
			for {
				mu.Lock()
				k := next
				next++
				mu.Unlock()
				if k >= n {
					return
				}
				f(k)
			}
		}()
	}
	wg.Wait()
	if perr != nil {
		panic(perr)
	}
}

// targetsFor lists the t >= s paired with s: all of them in small histories,
// otherwise the structurally interesting ones plus a PRNG sample.
func (h *hist) targetsFor(r *rand.Rand, s uint64, exhaustive bool, samples int) []uint64 {
	n := uint64(h.n)
	if exhaustive {
		var out []uint64
		for t := s; t <= n; t++ {
			out = append(out, t)
		}
		return out
	}
	seen := map[uint64]bool{}
	var out []uint64
	add := func(t uint64) {
		if t >= s && t <= n && !seen[t] {
			seen[t] = true
			out = append(out, t)
		}
	}
	add(s)
	add(s + 1)
	add(s + 2)
	add(n)
	// the first tx whose linking point passes s, and its neighbours
	for t := s + 1; t <= n; t++ {
		if h.hdr[t].BlTxID > s {
			add(t - 1)
			add(t)
			add(t + 1)
			break
		}
	}
	for k := 0; k < samples; k++ {
		add(s + r.Uint64N(n-s+1))
	}
	return out
}

func layer1(c *fw.Ctx, hists []*hist) {
	ops := allDualOps()
	c.Set("l1_dual_operators", len(ops))
	type item struct {
		h *hist
		s uint64
	}
	var items []item
	for _, h := range hists {
		for s := 1; s <= h.n; s++ {
			items = append(items, item{h, uint64(s)})
		}
	}
	var sampled sync.Once
	parallel(len(items), func(k int) {
		it := items[k]
		h := it.h
		a := newAcc(c)
		defer a.flush()
		r := c.Rand(fmt.Sprintf("c01/l1/%s/%d", h.name, it.s))
		exh := h.n <= 40
		nSingle, nMulti := len(ops), 24
		if !exh {
			nSingle, nMulti = 48, 10
		}
		var other *store.DualProof
		// a first "other" proof so that the first pair of the row has foreign material too
		if h.n >= 2 {
			o1 := uint64(1 + r.IntN(h.n))
			o2 := o1 + r.Uint64N(uint64(h.n)-o1+1)
			other, _ = h.st.DualProof(cloneHdr(h.hdr[o1]), cloneHdr(h.hdr[o2]))
		}
		for _, t := range h.targetsFor(r, it.s, exh, c.N(6, 8)) {
			p := h.dualItem(c, a, r, ops, it.s, t, other, nSingle, nMulti)
			if p != nil {
				other = p
				if h.lagging && p.LinearAdvanceProof != nil {
					sampled.Do(func() {
						c.Sample(map[string]any{"layer": 1, "history": h.name, "pair": []uint64{it.s, t}, "BlTxID_source": h.hdr[it.s].BlTxID, "BlTxID_target": h.hdr[t].BlTxID,
							"linear_terms": len(p.LinearProof.Terms), "linear_advance_terms": len(p.LinearAdvanceProof.LinearProofTerms), "honest_proof_verifies": store.VerifyDualProof(p, it.s, t, h.alh[it.s], h.alh[t])})
					})
				}
			}
			h.linearItem(c, a, r, it.s, t)
			h.lapItem(c, a, r, it.s, t)
		}
		holder := store.NewTx(32, 64)
		h.inclusionItem(c, a, r, it.s, holder)
	})
}
