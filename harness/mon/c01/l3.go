package c01

import (
	"bytes"
	"context"
	"crypto/ecdsa"
	"crypto/elliptic"
	crand "crypto/rand"
	"encoding/binary"
	"fmt"
	"math/rand/v2"
	"regexp"
	"strings"
	"sync"

	"google.golang.org/grpc"
	"google.golang.org/protobuf/proto"
	"google.golang.org/protobuf/reflect/protoreflect"

	"github.com/codenotary/immudb/embedded/store"
	"github.com/codenotary/immudb/pkg/api/schema"
	immuclient "github.com/codenotary/immudb/pkg/client"
	"github.com/codenotary/immudb/pkg/database"
	"github.com/codenotary/immudb/pkg/server"
	"github.com/codenotary/immudb/pkg/signer"

	"verifharness/internal/fw"
	"verifharness/internal/refmerkle"
	"verifharness/internal/sth"
)

// ---- the client's trusted state, held by the harness --------------------------------------------

type memState struct {
	mu sync.Mutex
	st *schema.ImmutableState
}

func (m *memState) GetState(ctx context.Context, db string) (*schema.ImmutableState, error) {
	m.mu.Lock()
	defer m.mu.Unlock()
	return proto.Clone(m.st).(*schema.ImmutableState), nil
}
func (m *memState) SetState(db string, st *schema.ImmutableState) error {
	m.mu.Lock()
	defer m.mu.Unlock()
	m.st = proto.Clone(st).(*schema.ImmutableState)
	return nil
}
func (m *memState) CacheLock() error           { return nil }
func (m *memState) CacheUnlock() error         { return nil }
func (m *memState) SetServerIdentity(s string) {}

// ---- the in-process "server": pkg/database behind schema.ImmuServiceClient, with a tamper layer --

type fakeSvc struct {
	schema.ImmuServiceClient // every other RPC: nil (never called by the verified calls under test)
	db                       database.DB
	sign                     func(st *schema.ImmutableState) error

	// per client call
	tamper    func(m proto.Message) // applied to the first (primary) response only
	replay    proto.Message         // when set, the primary response is a clone of this recorded honest one (no new commit)
	primary   bool
	serverErr error
	honest    proto.Message // the honest primary response of this call
	// when set, the SQL get request is rewritten before the database sees it (a server answering another question)
	rewriteSQLGet func(req *schema.VerifiableSQLGetRequest)
	sent      proto.Message // what the client received
}

func (f *fakeSvc) arm(tamper func(m proto.Message), replay proto.Message) {
	f.tamper, f.replay, f.primary, f.serverErr, f.honest, f.sent = tamper, replay, true, nil, nil, nil
}

func (f *fakeSvc) signTx(vtx *schema.VerifiableTx) error {
	if f.sign == nil || vtx == nil || vtx.DualProof == nil || vtx.DualProof.TargetTxHeader == nil {
		return nil
	}
	hdr := schema.TxHeaderFromProto(vtx.DualProof.TargetTxHeader)
	alh := hdr.Alh()
	st := &schema.ImmutableState{Db: f.db.GetName(), TxId: hdr.ID, TxHash: alh[:]}
	if err := f.sign(st); err != nil {
		return err
	}
	vtx.Signature = st.Signature
	return nil
}

// replayWrite rebuilds the response of an already committed write for another
// trusted state: the recorded tx with the dual proof the database produces for
// (ProveSinceTx, tx) — what VerifiableSet itself computes — so that one commit
// can be shown to the client under many alterations.
func (f *fakeSvc) replayWrite(ctx context.Context, since uint64) (*schema.VerifiableTx, error) {
	rec := proto.Clone(f.replay).(*schema.VerifiableTx)
	p, err := f.db.VerifiableTxByID(ctx, &schema.VerifiableTxRequest{Tx: rec.Tx.Header.Id, ProveSinceTx: since,
		EntriesSpec: &schema.EntriesSpec{KvEntriesSpec: &schema.EntryTypeSpec{Action: schema.EntryTypeAction_EXCLUDE}}})
	if err != nil {
		return nil, err
	}
	rec.DualProof = p.DualProof
	rec.Signature = nil
	return rec, f.signTx(rec)
}

// deliver: clone (the database may hand out shared buffers), record, tamper.
func deliver[T proto.Message](f *fakeSvc, call func() (T, error)) (T, error) {
	var zero T
	if !f.primary {
		// follow-up requests of the same client call (FillMissingLinearAdvanceProof) are served honestly
		r, err := call()
		if err != nil {
			return zero, err
		}
		return proto.Clone(r).(T), nil
	}
	f.primary = false
	r, err := call()
	if err != nil {
		f.serverErr = err
		return zero, err
	}
	resp := proto.Clone(r).(T)
	f.honest = proto.Clone(resp)
	if f.tamper != nil {
		f.tamper(resp)
	}
	f.sent = proto.Clone(resp)
	return resp, nil
}

func (f *fakeSvc) VerifiableGet(ctx context.Context, in *schema.VerifiableGetRequest, opts ...grpc.CallOption) (*schema.VerifiableEntry, error) {
	return deliver(f, func() (*schema.VerifiableEntry, error) {
		r, err := f.db.VerifiableGet(ctx, in)
		if err == nil {
			err = f.signTx(r.VerifiableTx)
		}
		return r, err
	})
}

func (f *fakeSvc) VerifiableTxById(ctx context.Context, in *schema.VerifiableTxRequest, opts ...grpc.CallOption) (*schema.VerifiableTx, error) {
	return deliver(f, func() (*schema.VerifiableTx, error) {
		r, err := f.db.VerifiableTxByID(ctx, in)
		if err == nil {
			err = f.signTx(r)
		}
		return r, err
	})
}

func (f *fakeSvc) VerifiableSet(ctx context.Context, in *schema.VerifiableSetRequest, opts ...grpc.CallOption) (*schema.VerifiableTx, error) {
	return deliver(f, func() (*schema.VerifiableTx, error) {
		if f.replay != nil {
			return f.replayWrite(ctx, in.ProveSinceTx)
		}
		r, err := f.db.VerifiableSet(ctx, in)
		if err == nil {
			err = f.signTx(r)
		}
		return r, err
	})
}

func (f *fakeSvc) VerifiableSetReference(ctx context.Context, in *schema.VerifiableReferenceRequest, opts ...grpc.CallOption) (*schema.VerifiableTx, error) {
	return deliver(f, func() (*schema.VerifiableTx, error) {
		if f.replay != nil {
			return f.replayWrite(ctx, in.ProveSinceTx)
		}
		r, err := f.db.VerifiableSetReference(ctx, in)
		if err == nil {
			err = f.signTx(r)
		}
		return r, err
	})
}

func (f *fakeSvc) VerifiableZAdd(ctx context.Context, in *schema.VerifiableZAddRequest, opts ...grpc.CallOption) (*schema.VerifiableTx, error) {
	return deliver(f, func() (*schema.VerifiableTx, error) {
		if f.replay != nil {
			return f.replayWrite(ctx, in.ProveSinceTx)
		}
		r, err := f.db.VerifiableZAdd(ctx, in)
		if err == nil {
			err = f.signTx(r)
		}
		return r, err
	})
}

// ---- generic alteration of a response message ----------------------------------------------------

type site struct {
	path  string // field path with list indexes elided
	class string
	apply func()
}

func collectBytes(m protoreflect.Message, out *[][]byte) {
	m.Range(func(fd protoreflect.FieldDescriptor, v protoreflect.Value) bool {
		switch {
		case fd.IsList() && fd.Kind() == protoreflect.BytesKind:
			for i := 0; i < v.List().Len(); i++ {
				*out = append(*out, v.List().Get(i).Bytes())
			}
		case fd.IsList() && fd.Kind() == protoreflect.MessageKind:
			for i := 0; i < v.List().Len(); i++ {
				collectBytes(v.List().Get(i).Message(), out)
			}
		case fd.Kind() == protoreflect.BytesKind:
			*out = append(*out, v.Bytes())
		case fd.Kind() == protoreflect.MessageKind && !fd.IsMap():
			collectBytes(v.Message(), out)
		}
		return true
	})
}

// sites lists every single-field alteration of the message (deterministic order).
func sites(r *rand.Rand, root proto.Message) []site {
	var pool [][]byte
	collectBytes(root.ProtoReflect(), &pool)
	foreign := func(not []byte) []byte {
		for k := 0; k < 8 && len(pool) > 0; k++ {
			b := pool[r.IntN(len(pool))]
			if len(b) > 0 && !bytes.Equal(b, not) {
				return append([]byte(nil), b...)
			}
		}
		x := append([]byte(nil), not...)
		x = append(x, 0x5a)
		return x
	}
	var out []site
	var walk func(m protoreflect.Message, prefix string)
	bytesOps := func(path string, get func() []byte, set func([]byte)) {
		cur := get()
		if len(cur) > 0 {
			out = append(out, site{path, "flip", func() {
				b := append([]byte(nil), get()...)
				b[r.IntN(len(b))] ^= 1 << uint(r.IntN(8))
				set(b)
			}})
			out = append(out, site{path, "truncate", func() { b := get(); set(append([]byte(nil), b[:len(b)-1]...)) }})
			out = append(out, site{path, "empty", func() { set(nil) }})
		}
		out = append(out, site{path, "extend", func() { set(append(append([]byte(nil), get()...), 0)) }})
		out = append(out, site{path, "replace", func() { set(foreign(get())) }})
	}
	walk = func(m protoreflect.Message, prefix string) {
		fds := m.Descriptor().Fields()
		for i := 0; i < fds.Len(); i++ {
			fd := fds.Get(i)
			path := prefix + "." + string(fd.Name())
			if fd.IsMap() {
				mapSites(r, m, fd, path+"{}", &out)
				continue
			}
			if fd.IsList() {
				l := m.Mutable(fd).List()
				n := l.Len()
				path += "[]"
				if n > 0 {
					out = append(out, site{path, "drop", func() {
						k := r.IntN(l.Len())
						vals := listVals(l)
						vals = append(vals[:k], vals[k+1:]...)
						setList(l, vals)
					}})
					out = append(out, site{path, "duplicate", func() {
						k := r.IntN(l.Len())
						vals := listVals(l)
						vals = append(vals[:k+1], vals[k:]...)
						setList(l, vals)
					}})
					out = append(out, site{path, "empty", func() { l.Truncate(0) }})
				}
				if n > 1 {
					out = append(out, site{path, "swap", func() {
						k := r.IntN(l.Len() - 1)
						a, b := l.Get(k), l.Get(k+1)
						vals := listVals(l)
						vals[k], vals[k+1] = b, a
						setList(l, vals)
					}})
				}
				switch fd.Kind() {
				case protoreflect.BytesKind:
					out = append(out, site{path, "extra", func() {
						vals := listVals(l)
						k := r.IntN(len(vals) + 1)
						vals = append(vals, protoreflect.Value{})
						copy(vals[k+1:], vals[k:])
						vals[k] = protoreflect.ValueOfBytes(foreign(nil))
						setList(l, vals)
					}})
					if n > 0 {
						k := r.IntN(n)
						bytesOps(path+"term", func() []byte { return l.Get(k).Bytes() }, func(b []byte) { l.Set(k, protoreflect.ValueOfBytes(b)) })
					}
				case protoreflect.MessageKind:
					if n > 0 {
						walk(l.Get(r.IntN(n)).Message(), path)
					}
				}
				continue
			}
			switch fd.Kind() {
			case protoreflect.BytesKind:
				bytesOps(path, func() []byte { return m.Get(fd).Bytes() }, func(b []byte) { m.Set(fd, protoreflect.ValueOfBytes(b)) })
			case protoreflect.Uint64Kind, protoreflect.Uint32Kind:
				set := func(x uint64) {
					if fd.Kind() == protoreflect.Uint32Kind {
						m.Set(fd, protoreflect.ValueOfUint32(uint32(x)))
					} else {
						m.Set(fd, protoreflect.ValueOfUint64(x))
					}
				}
				out = append(out, site{path, "plus1", func() { set(m.Get(fd).Uint() + 1) }})
				if m.Get(fd).Uint() > 0 {
					out = append(out, site{path, "minus1", func() { set(m.Get(fd).Uint() - 1) }})
					out = append(out, site{path, "zero", func() { set(0) }})
				}
			case protoreflect.Int64Kind, protoreflect.Int32Kind:
				set := func(x int64) {
					if fd.Kind() == protoreflect.Int32Kind {
						m.Set(fd, protoreflect.ValueOfInt32(int32(x)))
					} else {
						m.Set(fd, protoreflect.ValueOfInt64(x))
					}
				}
				out = append(out, site{path, "plus1", func() { set(m.Get(fd).Int() + 1) }})
				out = append(out, site{path, "minus1", func() { set(m.Get(fd).Int() - 1) }})
			case protoreflect.BoolKind:
				out = append(out, site{path, "toggle", func() { m.Set(fd, protoreflect.ValueOfBool(!m.Get(fd).Bool())) }})
			case protoreflect.DoubleKind:
				out = append(out, site{path, "plus1", func() { m.Set(fd, protoreflect.ValueOfFloat64(m.Get(fd).Float()+1)) }})
			case protoreflect.MessageKind:
				if m.Has(fd) {
					out = append(out, site{path, "nil", func() { m.Clear(fd) }})
					walk(m.Get(fd).Message(), path)
				} else {
					out = append(out, site{path, "present-but-empty", func() { m.Set(fd, protoreflect.ValueOfMessage(m.NewField(fd).Message())) }})
				}
			}
		}
	}
	walk(root.ProtoReflect(), string(root.ProtoReflect().Descriptor().Name()))
	return out
}

func listVals(l protoreflect.List) []protoreflect.Value {
	v := make([]protoreflect.Value, l.Len())
	for i := range v {
		v[i] = l.Get(i)
	}
	return v
}

func setList(l protoreflect.List, vals []protoreflect.Value) {
	// copy out first: values of message lists alias the list's storage
	cp := make([]protoreflect.Value, len(vals))
	for i, v := range vals {
		if m, ok := v.Interface().(protoreflect.Message); ok {
			cp[i] = protoreflect.ValueOfMessage(proto.Clone(m.Interface()).ProtoReflect())
		} else if b, ok := v.Interface().([]byte); ok {
			cp[i] = protoreflect.ValueOfBytes(append([]byte(nil), b...))
		} else {
			cp[i] = v
		}
	}
	l.Truncate(0)
	for _, v := range cp {
		l.Append(v)
	}
}

// ---- the database history and its ground truth ------------------------------------------------------

type kvrec struct {
	key, value []byte
	md         *schema.KVMetadata
}
type refrec struct {
	key, refKey []byte
	atTx        uint64
}

type dbworld struct {
	name   string
	db     database.DB
	h      *hist // alh / headers / roots of the database's store (entries unused)
	sets   map[uint64][]kvrec
	refs   map[uint64][]refrec
	keys   [][]byte // plain keys readable now
	rkeys  [][]byte // reference keys readable now
	signer func(st *schema.ImmutableState) error
	pub    *ecdsa.PublicKey
	mu     sync.Mutex

	// SQL part of the history (l3sql.go)
	sqlTxs     map[uint64]bool
	sqlRows    map[string]*sqlRow
	sqlRowKeys []string
}

func mdEqual(a, b *schema.KVMetadata) bool {
	norm := func(m *schema.KVMetadata) (bool, int64, bool, bool) {
		if m == nil {
			return false, 0, false, false
		}
		var exp int64
		has := m.Expiration != nil
		if has {
			exp = m.Expiration.ExpiresAt
		}
		return m.Deleted, exp, has, m.NonIndexable
	}
	a1, a2, a3, a4 := norm(a)
	b1, b2, b3, b4 := norm(b)
	return a1 == b1 && a2 == b2 && a3 == b3 && a4 == b4
}

// entryFalsehood compares a returned (tx, key, value, metadata) with the ledger: "" when it is the ledger's.
func (w *dbworld) entryFalsehood(tx uint64, key, value []byte, md *schema.KVMetadata) string {
	keyKnown := false
	for _, rec := range w.sets[tx] {
		if bytes.Equal(rec.key, key) {
			keyKnown = true
			if !bytes.Equal(rec.value, value) {
				return "returned-value-is-not-the-ledgers"
			}
			if !mdEqual(rec.md, md) {
				return "returned-metadata-is-not-the-ledgers"
			}
			return ""
		}
	}
	if !keyKnown {
		for _, recs := range w.sets {
			for _, rec := range recs {
				if bytes.Equal(rec.key, key) {
					return "returned-tx-id-is-not-a-tx-that-set-the-key"
				}
			}
		}
	}
	return "returned-key-is-not-in-the-tx"
}

func (w *dbworld) ack(hdr *schema.TxHeader) uint64 { return hdr.Id }

func buildDBWorld(c *fw.Ctx, name string, n int, withSigner bool) (*dbworld, error) {
	r := c.Rand("c01/l3/world/" + name)
	so := sth.SmallOpts().WithMaxTxEntries(32).WithMaxKeyLen(128).WithMaxConcurrency(128).WithMaxValueLen(1 << 12)
	opts := database.DefaultOptions().WithDBRootPath(c.Dir("c01-db-" + name)).WithStoreOptions(so)
	db, err := database.NewDB("defaultdb", nil, opts, sth.QuietLogger())
	if err != nil {
		return nil, err
	}
	w := &dbworld{name: name, db: db, sets: map[uint64][]kvrec{}, refs: map[uint64][]refrec{}}
	if withSigner {
		pk, err := ecdsa.GenerateKey(elliptic.P256(), crand.Reader)
		if err != nil {
			return nil, err
		}
		ss := server.NewStateSigner(signer.NewSignerFromPKey(crand.Reader, pk))
		w.signer = ss.Sign
		w.pub = &pk.PublicKey
	}
	ctx := context.Background()
	live := map[string]bool{}
	var allKeys [][]byte
	for len(w.sets)+len(w.refs) < n {
		switch k := r.IntN(10); {
		case k < 6 || len(allKeys) < 3: // Set with 1..4 KVs
			req := &schema.SetRequest{}
			cnt := 1 + r.IntN(4)
			seen := map[string]bool{}
			for i := 0; i < cnt; i++ {
				var key []byte
				if len(allKeys) > 0 && r.IntN(3) == 0 {
					key = allKeys[r.IntN(len(allKeys))]
				} else {
					key = []byte(fmt.Sprintf("key-%d-%d", len(w.sets)+len(w.refs), i))
				}
				if len(req.KVs) > 0 && r.IntN(4) == 0 { // a proper prefix / an extension of an earlier key of the same request
					o := req.KVs[r.IntN(len(req.KVs))].Key
					if r.IntN(3) != 0 && len(o) > 1 {
						key = append([]byte{}, o[:1+r.IntN(len(o)-1)]...)
					} else {
						key = append(append([]byte{}, o...), byte('a'+r.IntN(3)))
					}
				}
				if seen[string(key)] {
					continue
				}
				seen[string(key)] = true
				var md *schema.KVMetadata
				switch r.IntN(8) {
				case 0:
					md = &schema.KVMetadata{Deleted: true}
				case 1:
					md = &schema.KVMetadata{Expiration: &schema.Expiration{ExpiresAt: never2100.Unix()}}
				case 2:
					md = &schema.KVMetadata{Expiration: &schema.Expiration{ExpiresAt: expired2001.Unix()}}
				case 3:
					md = &schema.KVMetadata{NonIndexable: true}
				}
				req.KVs = append(req.KVs, &schema.KeyValue{Key: key, Value: randBytes(r, r.IntN(60)), Metadata: md})
			}
			hdr, err := db.Set(ctx, req)
			if err != nil {
				return nil, fmt.Errorf("Set: %w", err)
			}
			for _, kv := range req.KVs {
				w.sets[hdr.Id] = append(w.sets[hdr.Id], kvrec{kv.Key, kv.Value, kv.Metadata})
				if kv.Metadata == nil || (!kv.Metadata.NonIndexable) {
					ok := kv.Metadata == nil || (!kv.Metadata.Deleted && (kv.Metadata.Expiration == nil || kv.Metadata.Expiration.ExpiresAt == never2100.Unix()))
					live[string(kv.Key)] = ok
				}
				if kv.Metadata == nil {
					allKeys = append(allKeys, kv.Key)
				}
			}
		case k < 9: // reference (bound or not) to a plain live key
			var cands [][]byte
			for _, key := range allKeys {
				if live[string(key)] {
					cands = append(cands, key)
				}
			}
			if len(cands) == 0 {
				continue
			}
			target := cands[r.IntN(len(cands))]
			req := &schema.ReferenceRequest{Key: []byte(fmt.Sprintf("ref-%d", len(w.sets)+len(w.refs))), ReferencedKey: target}
			if r.IntN(2) == 0 {
				// bound to the tx that last set the target
				var at uint64
				for id, recs := range w.sets {
					for _, rec := range recs {
						if bytes.Equal(rec.key, target) && id > at {
							at = id
						}
					}
				}
				req.AtTx, req.BoundRef = at, true
			}
			hdr, err := db.SetReference(ctx, req)
			if err != nil {
				return nil, fmt.Errorf("SetReference: %w", err)
			}
			w.refs[hdr.Id] = append(w.refs[hdr.Id], refrec{req.Key, req.ReferencedKey, req.AtTx})
			w.rkeys = append(w.rkeys, req.Key)
		default: // sorted set entry: a tx whose only entry is neither a plain key nor a reference
			var cands [][]byte
			for _, key := range allKeys {
				if live[string(key)] {
					cands = append(cands, key)
				}
			}
			if len(cands) == 0 {
				continue
			}
			hdr, err := db.ZAdd(ctx, &schema.ZAddRequest{Set: []byte("zset"), Score: float64(r.IntN(100)), Key: cands[r.IntN(len(cands))]})
			if err != nil {
				return nil, fmt.Errorf("ZAdd: %w", err)
			}
			w.refs[hdr.Id] = append(w.refs[hdr.Id], refrec{})
		}
	}
	seenKey := map[string]bool{}
	for _, key := range allKeys {
		if live[string(key)] && !seenKey[string(key)] {
			seenKey[string(key)] = true
			w.keys = append(w.keys, key)
		}
	}
	w.sqlTxs = map[uint64]bool{}
	if err := w.buildSQL(c, c.Rand("c01/l3/sqlworld/"+name), 6); err != nil {
		return nil, fmt.Errorf("SQL history: %w", err)
	}
	if err := w.refreshChain(); err != nil {
		return nil, err
	}
	return w, nil
}

// refreshChain (re)reads headers 1..n through the unverified API and rebuilds alh / roots.
func (w *dbworld) refreshChain() error {
	st, err := w.db.CurrentState()
	if err != nil {
		return err
	}
	n := int(st.TxId)
	h := &hist{name: w.name, n: n, version: 1, hdr: make([]*store.TxHeader, n+1), alh: make([]H, n+1), ents: make([][]ent, n+1), roots: make([]H, n+1)}
	for id := 1; id <= n; id++ {
		tx, err := w.db.TxByID(context.Background(), &schema.TxRequest{Tx: uint64(id), KeepReferencesUnresolved: true})
		if err != nil {
			return fmt.Errorf("TxByID(%d): %w", id, err)
		}
		hd := schema.TxHeaderFromProto(tx.Header)
		h.hdr[id] = hd
		h.alh[id] = hd.Alh()
		h.leaf = append(h.leaf, refmerkle.LeafHash(h.alh[id][:]))
	}
	t := refmerkle.New(h.leaf)
	for id := 1; id <= n; id++ {
		h.roots[id] = t.RootAt(id)
	}
	if n > 0 && !bytes.Equal(st.TxHash, h.alh[n][:]) {
		return fmt.Errorf("CurrentState hash differs from the alh of the last header")
	}
	w.mu.Lock()
	w.h = h
	w.mu.Unlock()
	return nil
}

// ---- client construction and judged calls ----------------------------------------------------------

type cl struct {
	w   *dbworld
	svc *fakeSvc
	ms  *memState
	c   immuclient.ImmuClient
}

func newClient(w *dbworld, signed bool) *cl {
	svc := &fakeSvc{db: w.db}
	ms := &memState{}
	ic := immuclient.NewClient().WithLogger(sth.QuietLogger()).WithClientConn(&grpc.ClientConn{}).WithServiceClient(svc).WithStateService(ms)
	if signed {
		svc.sign = w.signer
		ic = ic.WithServerSigningPubKey(w.pub)
	}
	return &cl{w: w, svc: svc, ms: ms, c: ic}
}

func (k *cl) trust(id uint64) {
	h := k.w.h
	if id == 0 {
		k.ms.st = &schema.ImmutableState{Db: "defaultdb"}
		return
	}
	a := h.alh[id]
	k.ms.st = &schema.ImmutableState{Db: "defaultdb", TxId: id, TxHash: a[:]}
}

var immuFrame = regexp.MustCompile(`(?m)^github\.com/codenotary/immudb/([^\s]+)\(`)

// panicSig: first immudb frame below the panic + kind (fw.PanicSignature cuts method receivers short).
func panicSig(text string) string {
	kind := strings.SplitN(fw.PanicSignature(text), "/", -1)
	k := kind[len(kind)-1]
	for _, m := range immuFrame.FindAllStringSubmatch(text, -1) {
		if strings.Contains(m[1], "verifhook") {
			continue
		}
		fn := m[1]
		if i := strings.LastIndex(fn, "("); i > 0 && strings.HasSuffix(fn, ")") == false {
			_ = i
		}
		return fn + "/" + k
	}
	return "unknown/" + k
}

type callKind struct {
	name string
	// run performs the client call and returns a description of what was returned plus the falsehood class ("" when consistent with the ledger)
	run func(k *cl) (err error, returned string, falsehood string)
}

// stateFalsehood: the state the client now holds must be (id, ledger alh[id]); a
// state after the trusted one that is a possible continuation (see legitForward) is not held against it.
func (k *cl) stateFalsehood(trusted uint64) string {
	st := k.ms.st
	h := k.w.h
	if st == nil {
		return "client-state-missing"
	}
	if st.TxId == 0 || st.TxId > uint64(h.n) || len(st.TxHash) != 32 {
		return "client-state-not-on-the-ledger"
	}
	if bytes.Equal(st.TxHash, h.alh[st.TxId][:]) {
		if st.TxId < trusted {
			return "client-state-moved-backwards"
		}
		return ""
	}
	// a fork after the trusted tx?
	var dp *store.DualProof
	switch m := k.svc.sent.(type) {
	case *schema.VerifiableEntry:
		if m.VerifiableTx != nil {
			dp = safeDual(m.VerifiableTx.DualProof)
		}
	case *schema.VerifiableTx:
		dp = safeDual(m.DualProof)
	case *schema.VerifiableSQLEntry:
		if m.VerifiableTx != nil {
			dp = safeDual(m.VerifiableTx.DualProof)
		}
	}
	if trusted > 0 && dp != nil {
		var ta H
		copy(ta[:], st.TxHash)
		if ok, _ := h.legitForward(&dcase{p: dp, sID: trusted, sAlh: h.alh[trusted], tID: st.TxId, tAlh: ta}, false); ok {
			return ""
		}
	}
	return "client-state-not-on-the-ledger"
}

func safeDual(p *schema.DualProof) (dp *store.DualProof) {
	if p == nil {
		return nil
	}
	fw.Guard(func() { dp = schema.DualProofFromProto(p) })
	return
}

func fmtEntry(e *schema.Entry) string {
	if e == nil {
		return "nil entry"
	}
	s := fmt.Sprintf("Entry{tx=%d key=%q value=%x md=%v", e.Tx, e.Key, e.Value, e.Metadata)
	if e.ReferencedBy != nil {
		s += fmt.Sprintf(" referencedBy{tx=%d key=%q atTx=%d md=%v}", e.ReferencedBy.Tx, e.ReferencedBy.Key, e.ReferencedBy.AtTx, e.ReferencedBy.Metadata)
	}
	return s + "}"
}

func (w *dbworld) getFalsehood(reqKey []byte, atTx uint64, e *schema.Entry) string {
	if e == nil {
		return "nil-entry-returned"
	}
	if e.ReferencedBy == nil {
		if !bytes.Equal(e.Key, reqKey) {
			return "returned-key-is-not-the-requested-key"
		}
		if atTx != 0 && e.Tx != atTx {
			return "returned-tx-id-is-not-the-requested-tx"
		}
		return w.entryFalsehood(e.Tx, e.Key, e.Value, e.Metadata)
	}
	rb := e.ReferencedBy
	if !bytes.Equal(rb.Key, reqKey) {
		return "returned-reference-key-is-not-the-requested-key"
	}
	found := false
	for _, rec := range w.refs[rb.Tx] {
		if bytes.Equal(rec.key, rb.Key) && bytes.Equal(rec.refKey, e.Key) && rec.atTx == rb.AtTx {
			found = true
		}
	}
	if !found {
		return "returned-reference-is-not-the-ledgers"
	}
	if rb.AtTx != 0 && e.Tx != rb.AtTx {
		return "referenced-entry-tx-is-not-the-bound-tx"
	}
	if f := w.entryFalsehood(e.Tx, e.Key, e.Value, e.Metadata); f != "" {
		return "referenced-entry/" + f
	}
	return ""
}

// hdrSame compares two proto tx headers by what they say (digest fields as the
// 32 bytes the client reads, absent and empty metadata alike), not by encoding.
func hdrSame(a, b *schema.TxHeader) bool {
	if a == nil || b == nil {
		return a == b
	}
	x, y := schema.TxHeaderFromProto(a), schema.TxHeaderFromProto(b)
	var xm, ym []byte
	if x.Metadata != nil {
		xm = x.Metadata.Bytes()
	}
	if y.Metadata != nil {
		ym = y.Metadata.Bytes()
	}
	return x.ID == y.ID && x.Ts == y.Ts && x.BlTxID == y.BlTxID && x.BlRoot == y.BlRoot && x.PrevAlh == y.PrevAlh && x.Version == y.Version &&
		x.NEntries == y.NEntries && x.Eh == y.Eh && bytes.Equal(xm, ym)
}

func txFalsehood(honest, got *schema.Tx) string {
	if got == nil {
		return "nil-tx-returned"
	}
	if !hdrSame(honest.Header, got.Header) {
		return "returned-tx-header-is-not-the-ledgers"
	}
	if len(honest.Entries) != len(got.Entries) {
		return "returned-tx-entries-are-not-the-ledgers"
	}
	for i := range honest.Entries {
		a, b := honest.Entries[i], got.Entries[i]
		if !bytes.Equal(a.Key, b.Key) || schema.DigestFromProto(a.HValue) != schema.DigestFromProto(b.HValue) || !mdEqual(a.Metadata, b.Metadata) {
			return "returned-tx-entries-are-not-the-ledgers"
		}
	}
	return ""
}

// scenario: one client call with fixed arguments, judged against the ledger.
type scenario struct {
	name    string
	desc    string
	proven  uint64        // tx the response is about (0: unknown until the honest call)
	replay  proto.Message // recorded honest response for write calls
	call    func(k *cl) (any, error)
	judge   func(k *cl, ret any) string // falsehood of the returned value ("" = the ledger's)
	trusted []uint64
}

func (sc *scenario) runOnce(c *fw.Ctx, a *acc, k *cl, trusted uint64, tamper func(m proto.Message), label string, signed bool) (accepted bool) {
	k.trust(trusted)
	k.svc.arm(tamper, sc.replay)
	var ret any
	var err error
	pan, _, ptext := fw.Guard(func() { ret, err = sc.call(k) })
	a.evals++
	rel := "trusted=proven"
	switch {
	case trusted == 0:
		rel = "no-trusted-state"
	case sc.proven == 0:
		rel = "write"
	case trusted < sc.proven:
		rel = "trusted<proven"
	case trusted > sc.proven:
		rel = "trusted>proven"
	}
	sg := "unsigned"
	if signed {
		sg = "signed"
	}
	shape := fmt.Sprintf("%s %s; trusted tx %d of %d; %s; alteration: %s", sc.name, sc.desc, trusted, k.w.h.n, sg, label)
	files := func() map[string][]byte {
		f := map[string][]byte{}
		if k.svc.honest != nil {
			f["honest-response.txt"] = []byte(fmt.Sprintf("%v", k.svc.honest))
		}
		if k.svc.sent != nil {
			f["sent-response.txt"] = []byte(fmt.Sprintf("%v", k.svc.sent))
		}
		return f
	}
	if pan {
		sig := panicSig(ptext)
		a.see("L3|" + sc.name + "|" + label + "|" + rel + "|panic")
		a.count("l3_panics")
		c.Violation(sig, "the client panicked on a response: "+shape+"\n"+ptext, files())
		return false
	}
	if k.svc.serverErr != nil {
		a.see("L3|" + sc.name + "|server-error")
		a.count("l3_server_errors")
		return false
	}
	if tamper == nil {
		// completeness
		a.see("L3|" + sc.name + "|honest|" + rel + "|" + sg + "|" + fmt.Sprint(err == nil))
		a.count("l3_honest_calls")
		if err != nil {
			c.Violation("client."+sc.name+"/honest-rejected/"+rel, "the client rejected the honest response: "+shape+": "+err.Error(), files())
			return false
		}
	}
	if err != nil {
		a.see("L3|" + sc.name + "|" + label + "|" + rel + "|rejected")
		a.count("l3_rejected")
		if tamper != nil && trusted > 0 {
			// a rejected response must leave the trusted state alone
			if st := k.ms.st; st == nil || st.TxId != trusted || !bytes.Equal(st.TxHash, k.w.h.alh[trusted][:]) {
				c.Violation("client."+sc.name+"/state-changed-by-a-rejected-response", "the stored state changed although the call failed: "+shape, files())
			}
		}
		return false
	}
	a.count("l3_accepted")
	fh := ""
	if trusted > 0 || tamper == nil {
		fh = k.stateFalsehood(trusted)
	}
	if fh == "" && (trusted > 0 || tamper == nil) {
		fh = sc.judge(k, ret)
	}
	out := "accepted-consistent-with-ledger"
	if trusted == 0 && tamper != nil {
		out = "accepted-without-trusted-state"
	}
	if fh != "" {
		out = "ACCEPTED-" + fh
	}
	a.see("L3|" + sc.name + "|" + label + "|" + rel + "|" + out)
	if fh != "" {
		a.count("l3_violation_by_alteration|" + sc.name + "|" + label)
		kind := "honest"
		if tamper != nil {
			kind = "altered"
		}
		c.Violation("client."+sc.name+"/"+fh, fmt.Sprintf("the client accepted an %s response and %s: %s\nreturned: %v\nstate now: tx %d hash %x; ledger alh[%d] = %s", kind, fh, shape, ret, k.ms.st.GetTxId(), k.ms.st.GetTxHash(), k.ms.st.GetTxId(), k.w.h.alhText(k.ms.st.GetTxId())), files())
	}
	return true
}

func (sc *scenario) explore(c *fw.Ctx, a *acc, w *dbworld, r *rand.Rand, nMulti int) {
	for _, signed := range []bool{false, true} {
		if signed && w.signer == nil {
			continue
		}
		k := newClient(w, signed)
		for _, trusted := range sc.trusted {
			if !sc.runOnce(c, a, k, trusted, nil, "honest", signed) {
				continue
			}
			if trusted == 0 {
				continue
			}
			honest := k.svc.honest
			if honest == nil {
				continue
			}
			// the list of sites is taken from the honest response; every alteration is applied to a fresh clone of it by path index
			enumSeed := fmt.Sprintf("c01/l3/site/%s/%s/%d/%v", sc.name, sc.desc, trusted, signed)
			n := len(sites(fw.NewRand(c.Seed, enumSeed), proto.Clone(honest)))
			for i := 0; i < n; i++ {
				i := i
				label := ""
				tam := func(m proto.Message) {
					ss := sites(fw.NewRand(c.Seed, enumSeed), m)
					if i < len(ss) {
						label = ss[i].class + ":" + ss[i].path
						ss[i].apply()
					}
				}
				// the label is known only after the tamper ran; runOnce reads it lazily through the closure
				sc.runLabelled(c, a, k, trusted, tam, &label, signed)
			}
			for j := 0; j < nMulti; j++ {
				label := ""
				seed := fmt.Sprintf("c01/l3/multi/%s/%d/%d/%v", sc.desc, trusted, j, signed)
				tam := func(m proto.Message) {
					rr := fw.NewRand(c.Seed, seed)
					cnt := 2 + rr.IntN(3)
					var ls []string
					for q := 0; q < cnt; q++ {
						ss := sites(rr, m)
						if len(ss) == 0 {
							break
						}
						s := ss[rr.IntN(len(ss))]
						ok := true
						fw.Guard(func() { s.apply() })
						if ok {
							ls = append(ls, s.class+":"+s.path)
						}
					}
					label = "multi(" + strings.Join(ls, ",") + ")"
				}
				sc.runLabelled(c, a, k, trusted, tam, &label, signed)
			}
			// self-consistent forgeries (l3forge.go)
			var fgs []forgery
			switch sc.name {
			case "VerifiedGet":
				fgs = getForgeries()
			case "VerifiedTxByID":
				fgs = txForgeries()
			}
			for _, fg := range fgs {
				label := fg.name
				sc.runLabelled(c, a, k, trusted, fg.apply, &label, signed)
			}
		}
	}
	_ = r
}

func (sc *scenario) runLabelled(c *fw.Ctx, a *acc, k *cl, trusted uint64, tam func(m proto.Message), label *string, signed bool) {
	// run the tamper on a throw-away clone first so that the label is known to runOnce
	if sc.replay != nil {
		tam(proto.Clone(sc.replay))
	} else if k.svc.honest != nil {
		tam(proto.Clone(k.svc.honest))
	}
	l := *label
	if strings.HasPrefix(l, "multi(") {
		l = "multi"
	}
	sc.runOnce(c, a, k, trusted, tam, l, signed)
}

func pickTrusted(r *rand.Rand, n, proven uint64, count int) []uint64 {
	seen := map[uint64]bool{}
	var out []uint64
	add := func(x uint64) {
		if x <= n && !seen[x] {
			seen[x] = true
			out = append(out, x)
		}
	}
	add(0)
	add(proven)
	if proven > 1 {
		add(proven - 1)
	}
	add(proven + 1)
	add(1)
	add(n)
	for i := 0; i < count; i++ {
		add(1 + r.Uint64N(n))
	}
	return out
}

func u64key(x uint64) []byte { var b [8]byte; binary.BigEndian.PutUint64(b[:], x); return b[:] }

func layer3(c *fw.Ctx) {
	type wspec struct {
		name   string
		n      int
		signed bool
	}
	specs := []wspec{{"q-db-24", 24, true}}
	if c.Thorough() {
		specs = []wspec{{"t-db-30", 30, true}, {"t-db-90", 90, true}, {"t-db-12", 12, false}, {"t-db-200", 200, true}}
	}
	ctx := context.Background()
	for _, sp := range specs {
		w, err := buildDBWorld(c, sp.name, sp.n, sp.signed)
		c.Eval(1)
		if err != nil {
			c.Inconclusive("database history " + sp.name + " could not be built: " + err.Error())
			continue
		}
		r := c.Rand("c01/l3/plan/" + sp.name)
		n := uint64(w.h.n)
		var scs []*scenario

		// VerifiedGet on plain keys and references, latest and at a tx
		addGet := func(key []byte, atTx uint64) {
			key = append([]byte(nil), key...)
			sc := &scenario{name: "VerifiedGet", desc: fmt.Sprintf("key %q atTx %d", key, atTx)}
			// the proven tx is learnt from an honest unverified read
			e, err := w.db.Get(ctx, &schema.KeyRequest{Key: key, AtTx: atTx})
			if err != nil {
				return
			}
			sc.proven = e.Tx
			if e.ReferencedBy != nil {
				sc.proven = e.ReferencedBy.Tx
				sc.name = "VerifiedGet(reference)"
			}
			sc.call = func(k *cl) (any, error) {
				if atTx != 0 {
					return k.c.VerifiedGetAt(ctx, key, atTx)
				}
				return k.c.VerifiedGet(ctx, key)
			}
			sc.judge = func(k *cl, ret any) string { e, _ := ret.(*schema.Entry); return w.getFalsehood(key, atTx, e) }
			sc.trusted = pickTrusted(r, n, sc.proven, c.N(2, 4))
			scs = append(scs, sc)
		}
		perm := r.Perm(len(w.keys))
		for i := 0; i < len(perm) && i < c.N(6, 16); i++ {
			addGet(w.keys[perm[i]], 0)
		}
		// AtTx reads of older versions
		cnt := 0
		for id, recs := range w.sets {
			_ = id
			_ = recs
			cnt++
		}
		ids := make([]uint64, 0, len(w.sets))
		for id := uint64(1); id <= n; id++ {
			if len(w.sets[id]) > 0 {
				ids = append(ids, id)
			}
		}
		for i := 0; i < c.N(4, 12) && len(ids) > 0; i++ {
			id := ids[r.IntN(len(ids))]
			rec := w.sets[id][r.IntN(len(w.sets[id]))]
			addGet(rec.key, id)
		}
		rperm := r.Perm(len(w.rkeys))
		for i := 0; i < len(rperm) && i < c.N(4, 10); i++ {
			addGet(w.rkeys[rperm[i]], 0)
		}

		// VerifiedTxByID on txs of every kind
		tperm := r.Perm(int(n))
		for i := 0; i < len(tperm) && i < c.N(8, 24); i++ {
			id := uint64(tperm[i] + 1)
			sc := &scenario{name: "VerifiedTxByID", desc: fmt.Sprintf("tx %d", id), proven: id}
			var honestTx *schema.Tx
			sc.call = func(k *cl) (any, error) { return k.c.VerifiedTxByID(ctx, id) }
			sc.judge = func(k *cl, ret any) string {
				tx, _ := ret.(*schema.Tx)
				if k.svc.tamper == nil {
					// the honest result is the reference for the altered ones; its header must hash to the ledger's alh
					if tx == nil || tx.Header == nil || schema.TxHeaderFromProto(tx.Header).Alh() != w.h.alh[id] {
						return "returned-tx-header-is-not-the-ledgers"
					}
					honestTx = proto.Clone(tx).(*schema.Tx)
					return ""
				}
				if honestTx == nil {
					return ""
				}
				return txFalsehood(honestTx, tx)
			}
			sc.trusted = pickTrusted(r, n, id, c.N(2, 4))
			scs = append(scs, sc)
		}

		// write calls: one real commit each, recorded; the client then sees the recorded response, altered
		nw := c.N(3, 8)
		type wcall struct {
			name string
			do   func(k *cl, i int) (any, error)
			mk   func(i int) *scenario
		}
		for i := 0; i < nw; i++ {
			i := i
			key := []byte(fmt.Sprintf("vset-%d", i))
			val := randBytes(r, 1+r.IntN(40))
			var target []byte
			if len(w.keys) > 0 {
				target = w.keys[r.IntN(len(w.keys))]
			}
			mkWrite := func(name, desc string, call func(k *cl) (any, error), record func(hdr *schema.TxHeader)) {
				// commit once, honestly, with a fresh client trusting the current head
				k := newClient(w, false)
				k.trust(uint64(w.h.n))
				k.svc.arm(nil, nil)
				ret, err := call(k)
				c.Eval(1)
				if err != nil || k.svc.honest == nil {
					if k.svc.serverErr == nil {
						c.Violation("client."+name+"/honest-rejected/write", fmt.Sprintf("the client rejected the honest response of %s %s: %v", name, desc, err), nil)
					}
					return
				}
				hdr := ret.(*schema.TxHeader)
				record(hdr)
				if err := w.refreshChain(); err != nil {
					c.Inconclusive("refreshChain: " + err.Error())
					return
				}
				honestHdr := proto.Clone(hdr).(*schema.TxHeader)
				sc := &scenario{name: name, desc: desc, proven: hdr.Id, replay: k.svc.honest, call: call}
				sc.judge = func(k *cl, ret any) string {
					h, _ := ret.(*schema.TxHeader)
					if h == nil || !hdrSame(h, honestHdr) {
						return "returned-tx-header-is-not-the-ledgers"
					}
					return ""
				}
				var tr []uint64
				for _, x := range pickTrusted(r, uint64(w.h.n), hdr.Id, c.N(2, 4)) {
					if x <= hdr.Id { // a write is proven against a state not after it
						tr = append(tr, x)
					}
				}
				sc.trusted = tr
				scs = append(scs, sc)
			}
			mkWrite("VerifiedSet", fmt.Sprintf("key %q", key), func(k *cl) (any, error) { return k.c.VerifiedSet(ctx, key, val) },
				func(hdr *schema.TxHeader) { w.sets[hdr.Id] = append(w.sets[hdr.Id], kvrec{key, val, nil}) })
			if target != nil {
				rk := []byte(fmt.Sprintf("vref-%d", i))
				mkWrite("VerifiedSetReference", fmt.Sprintf("key %q -> %q", rk, target), func(k *cl) (any, error) { return k.c.VerifiedSetReference(ctx, rk, target) },
					func(hdr *schema.TxHeader) { w.refs[hdr.Id] = append(w.refs[hdr.Id], refrec{rk, target, 0}) })
				score := float64(i) + 0.5
				mkWrite("VerifiedZAdd", fmt.Sprintf("set zs score %v key %q", score, target), func(k *cl) (any, error) { return k.c.VerifiedZAdd(ctx, []byte("zs"), score, target) },
					func(hdr *schema.TxHeader) { w.refs[hdr.Id] = append(w.refs[hdr.Id], refrec{}) })
			}
		}

		// SQL rows: VerifyRow with true rows under every alteration of the response ...
		scs = append(scs, w.sqlScenarios(c, c.Rand("c01/l3/sqlplan/"+sp.name), c.N(6, 14))...)
		// ... and with false rows, which no server behaviour may get accepted
		{
			a := newAcc(c)
			w.falseRows(c, a, c.Rand("c01/l3/sqlfalse/"+sp.name), c.N(5, 12), c.N(40, 120))
			a.flush()
		}

		c.Set("l3_scenarios_"+sp.name, len(scs))
		var sampled sync.Once
		parallel(len(scs), func(i int) {
			sc := scs[i]
			a := newAcc(c)
			defer a.flush()
			sc.explore(c, a, w, c.Rand("c01/l3/sc/"+sc.name+sc.desc), c.N(12, 30))
			if sc.name == "VerifiedGet" {
				sampled.Do(func() {
					c.Sample(map[string]any{"layer": 3, "call": sc.name, "args": sc.desc, "proven_tx": sc.proven, "trusted_states_tried": sc.trusted})
				})
			}
		})
		w.db.Close()
	}
	_ = u64key
}
