package c01

import (
	"bytes"
	"context"
	"crypto/sha256"
	"encoding/binary"
	"fmt"
	"math/rand/v2"
	"time"

	"github.com/codenotary/immudb/embedded/store"

	"verifharness/internal/fw"
	"verifharness/internal/ledger"
	"verifharness/internal/refmerkle"
	"verifharness/internal/sth"
)

type H = [sha256.Size]byte

// ent is one entry of the ground truth (what was handed to the store at commit).
type ent struct {
	key   []byte
	md    *store.KVMetadata // nil when none
	value []byte
}

func (e ent) spec() *store.EntrySpec {
	return &store.EntrySpec{Key: e.key, Metadata: e.md, Value: e.value}
}

// hist is one commit history held by a real store plus its ground truth.
type hist struct {
	name    string
	version int
	lagging bool
	n       int
	st      *store.ImmuStore
	led     *ledger.Ledger
	hdr     []*store.TxHeader // 1..n as acknowledged (index 0 unused)
	alh     []H               // 1..n
	ents    [][]ent           // 1..n
	leaf    []refmerkle.Hash  // leaf hash of alh[i+1]
	roots   []H               // roots[k] = RFC 6962 root over alh[1..k] (k >= 1); roots[0] = zero (the store's convention for BlTxID 0)
	maxLag  uint64
}

func (h *hist) close() {
	if h.st != nil {
		h.st.Close()
	}
}

// alhOf returns the ledger's alh for id (ok=false outside 1..n).
func (h *hist) alhOf(id uint64) (H, bool) {
	if id == 0 || id > uint64(h.n) {
		return H{}, false
	}
	return h.alh[id], true
}

func (h *hist) rootOf(k uint64) (H, bool) {
	if k > uint64(h.n) {
		return H{}, false
	}
	return h.roots[k], true
}

type histSpec struct {
	name    string
	n       int
	version int
	lagging bool
	maxEnts int
}

var baseTime = time.Date(2020, 1, 1, 0, 0, 0, 0, time.UTC)

func storeOpts(version int, clock *int64) *store.Options {
	return sth.SmallOpts().
		WithMaxTxEntries(32).WithMaxKeyLen(64).WithMaxConcurrency(128).
		WithMaxValueLen(1 << 10).
		WithWriteTxHeaderVersion(version).
		WithTimeFunc(func() time.Time { return baseTime.Add(time.Duration(*clock) * time.Second) })
}

func randBytes(r *rand.Rand, n int) []byte {
	b := make([]byte, n)
	for i := range b {
		b[i] = byte(r.UintN(256))
	}
	return b
}

var (
	expired2001 = time.Date(2001, 1, 1, 0, 0, 0, 0, time.UTC)
	never2100   = time.Date(2100, 1, 1, 0, 0, 0, 0, time.UTC)
)

func genKVMD(r *rand.Rand, version int) *store.KVMetadata {
	if version == 0 || r.IntN(3) != 0 {
		return nil
	}
	md := store.NewKVMetadata()
	switch r.IntN(6) {
	case 0:
		md.AsDeleted(true)
	case 1:
		md.ExpiresAt(expired2001)
	case 2:
		md.ExpiresAt(never2100)
	case 3:
		md.AsNonIndexable(true)
	case 4:
		md.AsDeleted(true)
		md.AsNonIndexable(true)
	default:
		md.ExpiresAt(never2100)
		md.AsNonIndexable(true)
	}
	return md
}

func genEntries(r *rand.Rand, id int, version, maxEnts int) []ent {
	ne := 1
	switch r.IntN(8) {
	case 0:
		ne = maxEnts
	case 1, 2:
		ne = 1
	default:
		ne = 1 + r.IntN(maxEnts)
	}
	es := make([]ent, 0, ne)
	for i := 0; i < ne; i++ {
		var k []byte
		switch r.IntN(5) {
		case 0: // a key rewritten by many txs
			k = []byte(fmt.Sprintf("hot%d", r.IntN(4)))
		case 1:
			k = append([]byte(fmt.Sprintf("b%d-%d-", id, i)), randBytes(r, r.IntN(20))...)
		default:
			k = []byte(fmt.Sprintf("k%d-%d", id, i))
		}
		// keys of one tx related by prefix, in either order (the longer key first, or the shorter): the entry
		// of a key must be found by the whole key
		if len(es) > 0 && r.IntN(4) == 0 {
			o := es[r.IntN(len(es))].key
			if r.IntN(3) != 0 && len(o) > 1 {
				k = append([]byte{}, o[:1+r.IntN(len(o)-1)]...)
			} else {
				k = append(append([]byte{}, o...), randBytes(r, 1+r.IntN(3))...)
			}
		}
		dup := false
		for _, e := range es {
			if bytes.Equal(e.key, k) {
				dup = true
			}
		}
		if dup {
			k = []byte(fmt.Sprintf("u%d-%d", id, i))
		}
		var v []byte
		switch r.IntN(6) {
		case 0:
			v = []byte{}
		case 1:
			v = randBytes(r, 32) // looks like a hash
		default:
			v = randBytes(r, 1+r.IntN(120))
		}
		es = append(es, ent{key: k, md: genKVMD(r, version), value: v})
	}
	return es
}

func genTxMD(r *rand.Rand, version int, id int) *store.TxMetadata {
	if version == 0 || r.IntN(4) != 0 {
		return nil
	}
	md := store.NewTxMetadata()
	switch r.IntN(3) {
	case 0:
		md.WithExtra(randBytes(r, 1+r.IntN(24)))
	case 1:
		if id > 2 {
			md.WithTruncatedTxID(uint64(1 + r.IntN(id-1)))
		} else {
			md.WithExtra([]byte{1})
		}
	default:
		md.WithExtra(randBytes(r, 4))
		if id > 2 {
			md.WithTruncatedTxID(uint64(1 + r.IntN(id-1)))
		}
	}
	return md
}

func commitNative(st *store.ImmuStore, txmd *store.TxMetadata, es []ent) (*store.TxHeader, error) {
	tx, err := st.NewWriteOnlyTx(context.Background())
	if err != nil {
		return nil, err
	}
	if txmd != nil {
		tx.WithMetadata(txmd)
	}
	for _, e := range es {
		if err := tx.Set(e.key, e.md, e.value); err != nil {
			tx.Cancel()
			return nil, err
		}
	}
	return tx.Commit(context.Background())
}

// relink rewrites the header of an exported tx (wire format of ImmuStore.ExportTx:
// u32 header length, TxHeader.Bytes(), entries, truncation trailer): the
// "legacy primary" keeps everything the tx contains and links it to the
// replica's own chain with a binary-linking point that may lag behind id-1.
func relink(exported []byte, prevAlh H, blTxID uint64, blRoot H) ([]byte, *store.TxHeader, error) {
	if len(exported) < 4 {
		return nil, nil, fmt.Errorf("short export")
	}
	hl := int(binary.BigEndian.Uint32(exported))
	if len(exported) < 4+hl {
		return nil, nil, fmt.Errorf("short export header")
	}
	hdr := &store.TxHeader{}
	if err := hdr.ReadFrom(exported[4 : 4+hl]); err != nil {
		return nil, nil, err
	}
	hdr.PrevAlh = prevAlh
	hdr.BlTxID = blTxID
	hdr.BlRoot = blRoot
	hb, err := hdr.Bytes()
	if err != nil {
		return nil, nil, err
	}
	out := make([]byte, 0, len(exported)+len(hb)-hl)
	var l [4]byte
	binary.BigEndian.PutUint32(l[:], uint32(len(hb)))
	out = append(out, l[:]...)
	out = append(out, hb...)
	out = append(out, exported[4+hl:]...)
	return out, hdr, nil
}

// buildHist produces one history. Non-lagging histories are committed by the
// store itself; lagging ones are committed on a scratch primary, exported,
// relinked by the legacy-primary shim and fed to the store under test through
// ReplicateTx (with integrity checks on).
func buildHist(c *fw.Ctx, sp histSpec) (*hist, error) {
	r := c.Rand("c01/hist/" + sp.name)
	clock := new(int64)
	st, err := store.Open(c.Dir("c01-"+sp.name), storeOpts(sp.version, clock))
	if err != nil {
		return nil, fmt.Errorf("open: %w", err)
	}
	h := &hist{name: sp.name, version: sp.version, lagging: sp.lagging, n: sp.n, st: st, led: ledger.New(),
		hdr: make([]*store.TxHeader, sp.n+1), alh: make([]H, sp.n+1), ents: make([][]ent, sp.n+1), roots: make([]H, sp.n+1)}
	h.alh[0] = sha256.Sum256(nil) // the chain value before tx 1

	var prim *store.ImmuStore
	var holder *store.Tx
	if sp.lagging {
		prim, err = store.Open(c.Dir("c01-"+sp.name+"-primary"), storeOpts(sp.version, clock))
		if err != nil {
			st.Close()
			return nil, fmt.Errorf("open primary: %w", err)
		}
		defer prim.Close()
		holder = store.NewTx(32, 64)
	}

	// lag schedule: the binary-linking point stays behind for PRNG-long stretches, then catches up fully or partly.
	curBl := uint64(0)
	hold := 0
	tight := false
	var tree *refmerkle.Tree

	for id := 1; id <= sp.n; id++ {
		*clock = int64(id * 7)
		es := genEntries(r, id, sp.version, sp.maxEnts)
		txmd := genTxMD(r, sp.version, id)
		var hdr *store.TxHeader
		if !sp.lagging {
			hdr, err = commitNative(st, txmd, es)
			if err != nil {
				st.Close()
				return nil, fmt.Errorf("commit %d: %w", id, err)
			}
		} else {
			if _, err = commitNative(prim, txmd, es); err != nil {
				st.Close()
				return nil, fmt.Errorf("primary commit %d: %w", id, err)
			}
			exp, err := prim.ExportTx(uint64(id), false, false, holder)
			if err != nil {
				st.Close()
				return nil, fmt.Errorf("export %d: %w", id, err)
			}
			// choose the linking point (monotone, < id): stretches of tight linking (id-1)
			// alternate with stretches during which the point stays where it is
			if hold == 0 {
				tight = r.IntN(3) == 0
				hold = 1 + r.IntN(7)
				if !tight && uint64(id-1) > curBl {
					switch r.IntN(3) {
					case 0: // catch up completely, then stay
						curBl = uint64(id - 1)
					case 1: // catch up partly
						curBl += r.Uint64N(uint64(id-1) - curBl + 1)
					default: // stay where the last stretch left it
					}
				}
			}
			hold--
			if tight {
				curBl = uint64(id - 1)
			}
			bl := curBl
			var root H
			if bl > 0 {
				root = tree.RootAt(int(bl))
			}
			wire, _, err := relink(exp, h.alh[id-1], bl, root)
			if err != nil {
				st.Close()
				return nil, fmt.Errorf("relink %d: %w", id, err)
			}
			hdr, err = st.ReplicateTx(context.Background(), wire, false, false)
			if err != nil {
				st.Close()
				return nil, fmt.Errorf("ReplicateTx refused a chain-consistent lagging header (tx %d, BlTxID %d): %w", id, bl, err)
			}
			if hdr.BlTxID != bl {
				st.Close()
				return nil, fmt.Errorf("ReplicateTx changed BlTxID of tx %d: %d, sent %d", id, hdr.BlTxID, bl)
			}
			if lag := uint64(id-1) - bl; lag > h.maxLag {
				h.maxLag = lag
			}
		}
		cp := *hdr
		h.hdr[id] = &cp
		h.alh[id] = hdr.Alh()
		h.ents[id] = es
		h.leaf = append(h.leaf, refmerkle.LeafHash(h.alh[id][:]))
		tree = refmerkle.New(h.leaf)
		h.roots[id] = tree.RootAt(id)
		les := make([]ledger.Entry, len(es))
		for i, e := range es {
			les[i] = ledger.Entry{Key: e.key, Value: e.value, MD: ledger.MDBytes(e.md)}
		}
		if err := h.led.Ack(hdr, les); err != nil {
			st.Close()
			return nil, err
		}
	}
	return h, nil
}
