package c13

import (
	"fmt"
	"math/rand/v2"
	"sort"
	"strings"

	m "verifharness/internal/sqlmodel"
)

// txProg is one generated transaction program (a pure function of seed, case, session, position).
type txProg struct {
	ReadOnly   bool
	BeginStmt  bool // opened with the statement BEGIN TRANSACTION instead of Engine.NewTx
	Script     bool // the whole program is sent as ONE Exec call: BEGIN TRANSACTION; …; COMMIT
	Stmts      []*m.Stmt
	End        string // commit | rollback | cancel
	Depth      int    // deepest savepoint nesting
	RBAfterDML bool   // a ROLLBACK TO SAVEPOINT follows DML executed after that savepoint
	FaultAt    int    // statement with an injected fault (-1: none)
}

func schemas(variant int, multi bool) []*m.Schema {
	a := &m.Schema{Name: "a", Cols: []m.Col{{Name: "id", Kind: m.Int, NotNull: true}, {Name: "n", Kind: m.Int}, {Name: "s", Kind: m.Str, NotNull: true}, {Name: "b", Kind: m.Bool}}, Index: []string{"n"}}
	g := &m.Schema{Name: "g", AutoInc: true, Cols: []m.Col{{Name: "id", Kind: m.Int, NotNull: true}, {Name: "n", Kind: m.Int}, {Name: "s", Kind: m.Str}}}
	c := &m.Schema{Name: "c", Cols: []m.Col{{Name: "id", Kind: m.Int, NotNull: true}, {Name: "n", Kind: m.Int, NotNull: true}, {Name: "s", Kind: m.Str}},
		Checks: map[string]m.Cmp{checkName: {Col: "n", Op: "<", Val: int64(100)}}}
	if variant%2 == 1 {
		g.Index = []string{"n"}
	}
	// w: composite secondary indexes (two and three columns, non-unique and unique); p, q, r
	// take few values so that equalities on the leading column hit, (u, v) is mostly distinct
	w := &m.Schema{Name: "w", Cols: []m.Col{{Name: "id", Kind: m.Int, NotNull: true}, {Name: "p", Kind: m.Int}, {Name: "q", Kind: m.Int}, {Name: "r", Kind: m.Int},
		{Name: "u", Kind: m.Int, NotNull: true}, {Name: "v", Kind: m.Int, NotNull: true}, {Name: "s", Kind: m.Str}}}
	switch variant % 4 {
	case 0:
		w.Index, w.Unique = []string{"p, q"}, []string{"u, v"}
	case 1:
		w.Index, w.Unique = []string{"p, q, r"}, []string{"u, v"}
	case 2:
		w.Index = []string{"p, q", "q, r"}
	default:
		w.Index, w.Unique = []string{"p, q, r", "r"}, []string{"u, v"}
	}
	if multi {
		// A uniqueness check reads the unique index, which has a snapshot of its own: with
		// concurrent sessions the outcome of an INSERT could depend on two states (finding
		// sqltx/snapshot-not-fixed-across-indexes) in a way the attribution cannot name.
		// Unique indexes are exercised where nothing runs concurrently.
		w.Unique = nil
	}
	return []*m.Schema{a, g, c, w}
}

const checkName = "c_n_max" // CHECK (n < 100) on table c

type gen struct {
	ddl     bool // this case generates DDL inside transactions
	violate bool // values for table c may violate its CHECK constraint
	r       *rand.Rand
	sch     []*m.Schema
	tag     string // unique prefix of the payloads of this program
	seq     int
	sess    int
	multi   bool // several sessions run concurrently in this case
	written map[string]bool
}

func (g *gen) payload() string { g.seq++; return fmt.Sprintf("%s.%d", g.tag, g.seq) }

func (g *gen) val(c m.Col, allowNull bool) m.Val {
	if !c.NotNull && allowNull && g.r.IntN(5) == 0 {
		return nil
	}
	if g.violate && c.Kind == m.Int && c.NotNull && g.r.IntN(8) == 0 {
		return int64(100 + g.r.IntN(50)) // violates CHECK (n < 100) of table c while that constraint is in force
	}
	switch c.Kind {
	case m.Int:
		return int64(g.r.IntN(domain(c.Name)))
	case m.Str:
		return g.payload()
	}
	return g.r.IntN(2) == 0
}

// domain: how many values an INTEGER column takes.
func domain(col string) int {
	switch col {
	case "p", "q", "r":
		return 4
	case "u":
		return 6
	case "v":
		return 40
	}
	return 10
}

// indexes lists every secondary index of a table.
func indexes(s *m.Schema) []string { return append(append([]string{}, s.Index...), s.Unique...) }

func leadingCol(ix string) string { return strings.Split(ix, ", ")[0] }

func (g *gen) pk(fresh bool) int64 {
	if fresh {
		return int64(20 + g.sess*12 + g.r.IntN(12))
	}
	return int64(1 + g.r.IntN(10))
}

// pred: forHint = the statement names the secondary index; dml = the predicate belongs to
// UPDATE/DELETE. An equality or IS NULL on an indexed column moves an unhinted scan to that
// index: never generated for DML, and for queries only when nothing runs concurrently.
func (g *gen) pred(s *m.Schema, hint string, dml bool) m.Pred {
	var p m.Pred
	forHint := hint != ""
	n := g.r.IntN(3)
	if forHint && n == 0 {
		n = 1
	}
	for i := 0; i < n; i++ {
		ci := g.r.IntN(len(s.Cols))
		if forHint && i == 0 {
			ci = s.ColIdx(leadingCol(hint))
		}
		c := s.Cols[ci]
		switch {
		case ci > 0 && !c.NotNull && g.r.IntN(5) == 0:
			op := []string{"isnull", "notnull"}[g.r.IntN(2)]
			if g.maybeIndexed(s, c.Name) && !forHint && g.multi {
				op = "notnull"
			}
			p = append(p, m.Cmp{Col: c.Name, Op: op})
		case ci == 0:
			v := g.pk(g.r.IntN(3) == 0)
			p = append(p, m.Cmp{Col: c.Name, Op: []string{"<", "<=", ">", ">=", "=", "<>"}[g.r.IntN(6)], Val: v})
		case c.Kind == m.Int:
			ops := []string{"<", "<=", ">", ">=", "<>"}
			if forHint || !g.maybeIndexed(s, c.Name) || !g.multi {
				ops = append(ops, "=")
			}
			p = append(p, m.Cmp{Col: c.Name, Op: ops[g.r.IntN(len(ops))], Val: int64(g.r.IntN(domain(c.Name)))})
		case c.Kind == m.Bool:
			p = append(p, m.Cmp{Col: c.Name, Op: "=", Val: g.r.IntN(2) == 0})
		default:
			p = append(p, m.Cmp{Col: c.Name, Op: "<>", Val: g.payload()})
		}
	}
	return p
}

func (g *gen) maybeIndexed(s *m.Schema, col string) bool {
	return indexed(s, col) || (g.ddl && s.Name == "c" && col == "s") // CREATE INDEX ON c(s) may have been committed
}

// indexed: col is the leading column of a secondary index (an equality or IS NULL on it lets
// the planner move an unhinted scan to that index).
func indexed(s *m.Schema, col string) bool {
	for _, ix := range indexes(s) {
		if leadingCol(ix) == col {
			return true
		}
	}
	return false
}

func colNames(s *m.Schema) []string {
	out := make([]string, len(s.Cols))
	for i, c := range s.Cols {
		out[i] = c.Name
	}
	return out
}

func (g *gen) query(s *m.Schema) *m.Stmt {
	st := &m.Stmt{Kind: m.Select, Table: s.Name, Cols: colNames(s)}
	if g.r.IntN(4) == 0 {
		st.Kind, st.Cols = m.Count, nil
	} else if g.r.IntN(3) == 0 {
		st.Cols = st.Cols[:1+g.r.IntN(len(st.Cols))] // the key always comes first
	}
	// a scan through the secondary index of a table this transaction already wrote to is
	// only generated when nothing runs concurrently (see attribution pass b)
	if ixs := indexes(s); len(ixs) > 0 && (g.r.IntN(3) == 0 || (!g.multi && g.written[s.Name] && g.r.IntN(2) == 0)) && (!g.multi || !g.written[s.Name]) {
		st.Hint = ixs[g.r.IntN(len(ixs))]
		if g.r.IntN(4) > 0 {
			st.Where = g.pred(s, st.Hint, false)
		}
	} else if g.r.IntN(3) > 0 {
		st.Where = g.pred(s, "", false)
	}
	return st
}

func (g *gen) insertRow(s *m.Schema, cols []string, fresh bool) []m.Val {
	row := make([]m.Val, len(cols))
	for i, cn := range cols {
		c := s.Cols[s.ColIdx(cn)]
		if cn == "id" {
			row[i] = g.pk(fresh)
		} else {
			row[i] = g.val(c, true)
		}
	}
	return row
}

func (g *gen) dml(s *m.Schema) *m.Stmt {
	g.written[s.Name] = true
	g.violate = s.Name == "c"
	defer func() { g.violate = false }()
	k := g.r.IntN(10)
	switch {
	case k < 4 || (s.AutoInc && k < 6):
		cols := colNames(s)
		if s.AutoInc {
			cols = cols[1:]
		}
		st := &m.Stmt{Kind: m.Insert, Table: s.Name, Cols: cols}
		nrows := 1
		if g.r.IntN(3) == 0 {
			nrows = 2 + g.r.IntN(2)
		}
		for i := 0; i < nrows; i++ {
			st.Rows = append(st.Rows, g.insertRow(s, cols, g.r.IntN(10) < 8))
		}
		return st
	case k < 6:
		st := &m.Stmt{Kind: m.Upsert, Table: s.Name, Cols: colNames(s)}
		st.Rows = append(st.Rows, g.insertRow(s, st.Cols, g.r.IntN(2) == 0))
		return st
	case k < 9:
		st := &m.Stmt{Kind: m.Update, Table: s.Name, Where: g.pred(s, "", true)}
		ci := 1 + g.r.IntN(len(s.Cols)-1)
		st.Set = append(st.Set, m.Assign{Col: s.Cols[ci].Name, Val: g.val(s.Cols[ci], true)})
		if cj := 1 + g.r.IntN(len(s.Cols)-1); cj != ci && g.r.IntN(3) == 0 {
			st.Set = append(st.Set, m.Assign{Col: s.Cols[cj].Name, Val: g.val(s.Cols[cj], true)})
		}
		return st
	}
	return &m.Stmt{Kind: m.Delete, Table: s.Name, Where: g.pred(s, "", true)}
}

// fault turns an INSERT into one that must fail (NULL into NOT NULL, omitted NOT NULL
// column, or a key repeated inside the statement).
func (g *gen) fault(s *m.Schema) *m.Stmt {
	g.written[s.Name] = true
	cols := colNames(s)
	if s.AutoInc {
		cols = cols[1:]
	}
	st := &m.Stmt{Kind: m.Insert, Table: s.Name, Cols: cols}
	first := g.insertRow(s, cols, true)
	nn := -1
	for i, cn := range cols {
		if cn != "id" && s.Cols[s.ColIdx(cn)].NotNull {
			nn = i
		}
	}
	switch k := g.r.IntN(3); {
	case k == 0 && nn >= 0: // explicit NULL, after one good row (the good row must not survive)
		bad := g.insertRow(s, cols, true)
		bad[nn] = nil
		st.Rows = [][]m.Val{first, bad}
	case k == 1 && nn >= 0: // column omitted
		st.Cols = append(append([]string{}, cols[:nn]...), cols[nn+1:]...)
		st.Rows = [][]m.Val{g.insertRow(s, st.Cols, true)}
	case !s.AutoInc: // same key twice in one statement
		second := g.insertRow(s, cols, true)
		second[0] = first[0]
		st.Rows = [][]m.Val{first, second}
	default:
		return nil
	}
	return st
}

func genProg(r *rand.Rand, sch []*m.Schema, tag string, sess int, multi, readOnly, ddl bool) *txProg {
	g := &gen{r: r, sch: sch, tag: tag, sess: sess, multi: multi, ddl: ddl, written: map[string]bool{}}
	p := &txProg{ReadOnly: readOnly, FaultAt: -1}
	cs := sch[2]
	if readOnly && ddl && r.IntN(4) == 0 {
		// probe for a column that only a COMMITTED ALTER TABLE … ADD COLUMN may have created
		p.Stmts = []*m.Stmt{{Kind: m.Count, Table: cs.Name, Where: m.Pred{{Col: fmt.Sprintf("x%d", r.IntN(3)), Op: "isnull"}}}}
		p.End = "cancel"
		return p
	}
	if !readOnly && ddl && r.IntN(5) == 0 {
		return g.ddlProg(p, cs)
	}
	if readOnly {
		n := 2 + r.IntN(4)
		for i := 0; i < n; i++ {
			p.Stmts = append(p.Stmts, g.query(sch[r.IntN(len(sch))]))
		}
		p.End = []string{"rollback", "cancel"}[r.IntN(2)]
		return p
	}
	p.BeginStmt = r.IntN(2) == 0
	p.Script = r.IntN(7) == 0
	switch e := r.IntN(10); {
	case e < 6 || p.Script:
		p.End = "commit"
	case e < 8:
		p.End = "rollback"
	default:
		p.End = "cancel"
	}
	if !multi && r.IntN(5) < 2 {
		return g.indexProg(p, sch[3])
	}
	n := 1 + r.IntN(8)
	faultPos := -1
	if r.IntN(5) == 0 {
		faultPos = r.IntN(n)
	}
	type sp struct {
		name string
		dml  bool // DML executed since this savepoint
	}
	var stack []sp
	nsp := 0
	touched := map[string]bool{}
	markDML := func() {
		for i := range stack {
			stack[i].dml = true
		}
	}
	for i := 0; i < n; i++ {
		s := sch[r.IntN(len(sch))]
		if i == faultPos {
			if st := g.fault(s); st != nil {
				p.FaultAt = len(p.Stmts)
				p.Stmts = append(p.Stmts, st)
				touched[s.Name] = true
				markDML()
				continue
			}
		}
		switch k := r.IntN(20); {
		case k < 3 && len(stack) < 3:
			nsp++
			stack = append(stack, sp{name: fmt.Sprintf("sp%d", nsp)})
			if len(stack) > p.Depth {
				p.Depth = len(stack)
			}
			p.Stmts = append(p.Stmts, &m.Stmt{Kind: m.Savepoint, Name: stack[len(stack)-1].name})
		case k < 6 && len(stack) > 0:
			j := r.IntN(len(stack))
			if r.IntN(3) == 0 {
				p.Stmts = append(p.Stmts, &m.Stmt{Kind: m.Release, Name: stack[j].name})
			} else {
				if stack[j].dml && p.Script {
					continue // nothing inside a script could tell what the rollback did
				}
				p.RBAfterDML = p.RBAfterDML || stack[j].dml
				p.Stmts = append(p.Stmts, &m.Stmt{Kind: m.RollbackTo, Name: stack[j].name})
			}
			stack = stack[:j]
		case k < 13 && !p.Script:
			p.Stmts = append(p.Stmts, g.query(s))
		default:
			p.Stmts = append(p.Stmts, g.dml(s))
			touched[s.Name] = true
			markDML()
		}
	}
	if p.RBAfterDML {
		// make visible what the rollback left behind: read every written table in full
		names := make([]string, 0, len(touched))
		for t := range touched {
			names = append(names, t)
		}
		sort.Strings(names)
		for _, t := range names {
			for _, s := range sch {
				if s.Name == t {
					p.Stmts = append(p.Stmts, &m.Stmt{Kind: m.Select, Table: t, Cols: colNames(s)})
				}
			}
		}
	}
	if len(p.Stmts) == 0 {
		p.Stmts = append(p.Stmts, g.dml(sch[0]))
	}
	return p
}

// ddlProg: DDL mixed with DML and queries in one explicit transaction (no savepoints), ending
// in COMMIT less often than in ROLLBACK / Cancel so that the constraint stays in force for a while.
// DDL transactions also COMMIT while other sessions run (a commit racing with another session's
// BEGIN once left that session with a catalog older than its snapshot; repaired in /repo 582742e).
func (g *gen) ddlProg(p *txProg, cs *m.Schema) *txProg {
	r := g.r
	p.BeginStmt = r.IntN(2) == 0
	p.Script = r.IntN(8) == 0
	switch e := r.IntN(10); {
	case e < 3 || p.Script:
		p.End = "commit"
	case e < 7:
		p.End = "rollback"
	default:
		p.End = "cancel"
	}
	n := 2 + r.IntN(5)
	ddlAt := r.IntN(n - 1)
	for i := 0; i < n; i++ {
		switch {
		case i == ddlAt || r.IntN(8) == 0:
			switch k := r.IntN(10); {
			case k < 6:
				p.Stmts = append(p.Stmts, &m.Stmt{Kind: m.DropCheck, Table: cs.Name, Name: checkName})
			case k < 8:
				p.Stmts = append(p.Stmts, &m.Stmt{Kind: m.AddColumn, Table: cs.Name, Name: fmt.Sprintf("x%d", r.IntN(3))})
			default:
				p.Stmts = append(p.Stmts, &m.Stmt{Kind: m.CreateIndex, Table: cs.Name, Name: "s"})
			}
			g.written[cs.Name] = true
		case r.IntN(3) == 0 && !p.Script:
			p.Stmts = append(p.Stmts, g.query(g.sch[r.IntN(len(g.sch))]))
		case r.IntN(2) == 0:
			// a write to the constrained table, often one that the constraint forbids
			st := &m.Stmt{Kind: m.Insert, Table: cs.Name, Cols: colNames(cs)}
			row := g.insertRow(cs, st.Cols, true)
			if r.IntN(2) == 0 {
				row[1] = int64(100 + r.IntN(50))
			}
			st.Rows = [][]m.Val{row}
			g.written[cs.Name] = true
			p.Stmts = append(p.Stmts, st)
		default:
			p.Stmts = append(p.Stmts, g.dml(g.sch[r.IntN(len(g.sch))]))
		}
	}
	return p
}

// indexProg: rewrites of indexed columns followed, in the SAME transaction, by reads and by
// UPDATE / DELETE through every secondary index of the table (named with USE INDEX ON, or
// chosen by the planner because of an equality on the leading column). Only generated when
// nothing runs concurrently, so every result is a function of the program alone.
func (g *gen) indexProg(p *txProg, s *m.Schema) *txProg {
	r := g.r
	p.Script = false
	ixs := indexes(s)
	known := []int64{1, 2, 3} // keys that exist at the start of the case
	someKey := func() int64 {
		if r.IntN(4) == 0 {
			return g.pk(false)
		}
		return known[r.IntN(len(known))]
	}
	// a predicate that reaches rows through index ix: equality on its leading column
	// (with or without naming the index), or a key predicate plus the hint
	through := func(st *m.Stmt, ix string) {
		lead := leadingCol(ix)
		switch r.IntN(4) {
		case 0: // the planner picks the index by itself
			st.Where = m.Pred{{Col: lead, Op: "=", Val: int64(r.IntN(domain(lead)))}}
		case 1:
			st.Hint = ix
			st.Where = m.Pred{{Col: lead, Op: "=", Val: int64(r.IntN(domain(lead)))}}
		case 2:
			st.Hint = ix
			st.Where = m.Pred{{Col: lead, Op: []string{"<", ">=", "<>"}[r.IntN(3)], Val: int64(r.IntN(domain(lead)))}}
		default:
			st.Hint = ix
		}
		if r.IntN(4) == 0 {
			st.Where = append(st.Where, g.pred(s, "", false)...)
		}
	}
	read := func() *m.Stmt {
		st := &m.Stmt{Kind: m.Select, Table: s.Name, Cols: colNames(s)}
		if r.IntN(3) == 0 {
			st.Kind, st.Cols = m.Count, nil
		}
		through(st, ixs[r.IntN(len(ixs))])
		return st
	}
	g.written[s.Name] = true
	n := 3 + r.IntN(6)
	for i := 0; i < n; i++ {
		switch k := r.IntN(12); {
		case k < 2:
			st := &m.Stmt{Kind: m.Insert, Table: s.Name, Cols: colNames(s)}
			row := g.insertRow(s, st.Cols, true)
			st.Rows = [][]m.Val{row}
			known = append(known, row[0].(int64))
			p.Stmts = append(p.Stmts, st)
		case k < 7:
			// rewrite a subset of the columns of one index: first only, last only, a middle
			// one, all, or none of them
			cols := strings.Split(ixs[r.IntN(len(ixs))], ", ")
			var set []string
			switch r.IntN(5) {
			case 0:
				set = cols[:1]
			case 1:
				set = cols[len(cols)-1:]
			case 2:
				set = []string{cols[len(cols)/2]}
			case 3:
				set = cols
			default:
				set = []string{"s"}
			}
			st := &m.Stmt{Kind: m.Update, Table: s.Name}
			for _, cn := range set {
				st.Set = append(st.Set, m.Assign{Col: cn, Val: g.val(s.Cols[s.ColIdx(cn)], r.IntN(6) == 0)})
			}
			switch r.IntN(4) {
			case 0:
				through(st, ixs[r.IntN(len(ixs))])
			case 1:
				st.Where = m.Pred{{Col: "id", Op: "<=", Val: someKey()}}
			default:
				st.Where = m.Pred{{Col: "id", Op: "=", Val: someKey()}}
			}
			p.Stmts = append(p.Stmts, st)
		case k < 8:
			st := &m.Stmt{Kind: m.Upsert, Table: s.Name, Cols: colNames(s)}
			row := g.insertRow(s, st.Cols, false)
			row[0] = someKey()
			st.Rows = [][]m.Val{row}
			p.Stmts = append(p.Stmts, st)
		case k < 9:
			st := &m.Stmt{Kind: m.Delete, Table: s.Name}
			if r.IntN(2) == 0 {
				through(st, ixs[r.IntN(len(ixs))])
			} else {
				st.Where = m.Pred{{Col: "id", Op: "=", Val: someKey()}}
			}
			p.Stmts = append(p.Stmts, st)
		default:
			p.Stmts = append(p.Stmts, read())
		}
		// look at what the statement left behind through one of the indexes
		if last := p.Stmts[len(p.Stmts)-1]; last.IsDML() && r.IntN(3) > 0 {
			p.Stmts = append(p.Stmts, read())
		}
	}
	return p
}

// shape is the program part of the distinct-case fingerprint.
func (p *txProg) shape(executed int) string {
	kinds := map[string]bool{}
	for i, s := range p.Stmts {
		if i >= executed {
			break
		}
		k := s.Kind
		if s.Hint != "" {
			k += "-ix"
		}
		if (s.Kind == m.Insert) && len(s.Rows) > 1 {
			k += "-multi"
		}
		kinds[k] = true
	}
	ks := make([]string, 0, len(kinds))
	for k := range kinds {
		ks = append(ks, k)
	}
	sort.Strings(ks)
	fp := "none"
	if p.FaultAt >= 0 {
		switch {
		case p.FaultAt == 0:
			fp = "first"
		case p.FaultAt == len(p.Stmts)-1:
			fp = "last"
		default:
			fp = "mid"
		}
	}
	mode := "rw"
	switch {
	case p.ReadOnly:
		mode = "ro"
	case p.Script:
		mode = "script"
	case p.BeginStmt:
		mode = "rw-begin"
	}
	return fmt.Sprintf("%s/[%s]/sp%d/rb-dml=%v/fault=%s/end=%s", mode, strings.Join(ks, ","), p.Depth, p.RBAfterDML, fp, p.End)
}

func (p *txProg) text(sch map[string]*m.Schema) string {
	var sb strings.Builder
	for i, s := range p.Stmts {
		fmt.Fprintf(&sb, "  [%d] %s\n", i, s.SQL(sch[s.Table]))
	}
	return sb.String()
}
