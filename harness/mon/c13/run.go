package c13

import (
	"context"
	"errors"
	"fmt"
	"sort"
	"strings"
	"sync"
	"sync/atomic"
	"time"

	"github.com/codenotary/immudb/embedded/sql"
	"github.com/codenotary/immudb/embedded/store"

	m "verifharness/internal/sqlmodel"
)

// stmtObs is what the engine reported for one executed statement.
type stmtObs struct {
	Err       string // "" or an error class
	ErrText   string
	Rows      []m.Row
	Updated   int
	First     map[string]int64
	Last      map[string]int64
	Secondary bool   // a query that the engine resolved through a secondary index
	SecIndex  string // … and the name of that index
	Frontier  uint64 // last precommitted store tx id after the statement returned
}

// txObs is the record of one transaction program as executed by one session.
type txObs struct {
	Sess, Seq int
	Prog      *txProg
	L         uint64 // largest store tx id whose COMMIT had returned before BEGIN was called
	BeginErr  string
	Stmts     []stmtObs // one per executed statement (the failed one included)
	EndErr    string    // class of the error returned by COMMIT / ROLLBACK / Cancel
	EndText   string
	Committed bool   // COMMIT was acknowledged
	HeaderID  uint64 // store tx id of the acknowledged commit (0: nothing was written)
	Final     stmtObs
	// probes on a finished transaction
	Out              string // outcome class, fixed before the oracle edits the record
	OpenAfterFailure bool   // a failed statement left the transaction open
	LateCommitID     uint64 // SQLTx.Commit on the finished transaction produced this store tx
}

const (
	errConflict = "read-conflict"
	errOther    = "other"
)

func classify(err error) string {
	switch {
	case err == nil:
		return ""
	case errors.Is(err, store.ErrKeyAlreadyExists):
		return m.ErrDup
	case errors.Is(err, sql.ErrNotNullableColumnCannotBeNull):
		return m.ErrNotNull
	case errors.Is(err, store.ErrTxReadConflict):
		return errConflict
	case errors.Is(err, sql.ErrCheckConstraintViolation):
		return m.ErrCheck
	case errors.Is(err, sql.ErrConstraintNotFound):
		return m.ErrNoCheck
	case errors.Is(err, sql.ErrColumnDoesNotExist):
		return m.ErrNoColumn
	case errors.Is(err, sql.ErrColumnAlreadyExists):
		return m.ErrColumn
	case errors.Is(err, sql.ErrIndexAlreadyExists):
		return m.ErrIndex
	}
	return errOther
}

type db struct {
	st  *store.ImmuStore
	eng *sql.Engine
	sch map[string]*m.Schema
	// acked: largest store tx id whose COMMIT call has RETURNED. A commit that reached the
	// store but has not returned yet (SQLTx.Commit still has to tell the catalog cache) is
	// concurrent with a BEGIN issued meanwhile: that transaction may or may not see it.
	acked atomic.Uint64
	stuck atomic.Bool // a watchdog fired: the case is inconclusive
	why   atomic.Value
}

const opLimit = 90 * time.Second // generous; its firing is only ever inconclusive

func (d *db) op(f func(ctx context.Context)) {
	ctx, cancel := context.WithTimeout(context.Background(), opLimit)
	defer cancel()
	f(ctx)
	if ctx.Err() != nil && !d.stuck.Swap(true) {
		d.why.Store("an engine call did not return within 90 s")
	}
}

func (d *db) ack(id uint64) {
	for {
		cur := d.acked.Load()
		if id <= cur || d.acked.CompareAndSwap(cur, id) {
			return
		}
	}
}

func cpm(in map[string]int64) map[string]int64 {
	out := make(map[string]int64, len(in))
	for k, v := range in {
		out[k] = v
	}
	return out
}

func toVal(v sql.TypedValue) m.Val {
	if v.IsNull() {
		return nil
	}
	return v.RawValue()
}

func (d *db) query(ctx context.Context, tx *sql.SQLTx, s *m.Stmt) ([]m.Row, error) {
	rows, _, err := d.query2(ctx, tx, s)
	return rows, err
}

func (d *db) query2(ctx context.Context, tx *sql.SQLTx, s *m.Stmt) (_ []m.Row, secIndex string, _ error) {
	rd, err := d.eng.Query(ctx, tx, s.SQL(d.sch[s.Table]), nil)
	if err != nil {
		return nil, "", err
	}
	defer rd.Close()
	if sp := rd.ScanSpecs(); sp != nil && sp.Index != nil {
		if !sp.Index.IsPrimary() {
			secIndex = sp.Index.Name()
		}
	}
	var rows []m.Row
	for {
		row, err := rd.Read(ctx)
		if errors.Is(err, sql.ErrNoMoreRows) {
			break
		}
		if err != nil {
			return nil, secIndex, err
		}
		out := make(m.Row, len(row.ValuesByPosition))
		for i, v := range row.ValuesByPosition {
			out[i] = toVal(v)
		}
		rows = append(rows, out)
	}
	if s.Kind == m.Select && (s.Hint != "" || secIndex != "") {
		// the order through a secondary index is not what this property is about
		sort.SliceStable(rows, func(i, j int) bool { return rows[i][0].(int64) < rows[j][0].(int64) })
	}
	return rows, secIndex, nil
}

func snapshotCounters(tx *sql.SQLTx, o *stmtObs) {
	o.Updated = tx.UpdatedRows()
	o.First = cpm(tx.FirstInsertedPKs())
	o.Last = cpm(tx.LastInsertedPKs())
}

// runTx executes one program and records what the engine reported.
func (d *db) runTx(p *txProg, sess, seq int) *txObs {
	o := &txObs{Sess: sess, Seq: seq, Prog: p}
	o.L = d.acked.Load()
	if p.Script {
		d.runScript(p, o)
		return o
	}
	var tx *sql.SQLTx
	var err error
	// the store transaction keeps the context it was opened with for its whole life
	txCtx, txCancel := context.WithCancel(context.Background())
	defer txCancel()
	d.op(func(context.Context) {
		if p.BeginStmt {
			tx, _, err = d.eng.Exec(txCtx, nil, "BEGIN TRANSACTION", nil)
		} else {
			tx, err = d.eng.NewTx(txCtx, sql.DefaultTxOptions().WithReadOnly(p.ReadOnly).WithExplicitClose(true))
		}
	})
	if err != nil || tx == nil {
		o.BeginErr = fmt.Sprint(err)
		return o
	}
	failed := false
	for _, s := range p.Stmts {
		var so stmtObs
		d.op(func(ctx context.Context) {
			if s.IsQuery() {
				so.Rows, so.SecIndex, err = d.query2(ctx, tx, s)
				so.Secondary = so.SecIndex != ""
			} else {
				var ntx *sql.SQLTx
				ntx, _, err = d.eng.Exec(ctx, tx, s.SQL(d.sch[s.Table]), nil)
				if err == nil && ntx != tx {
					err = fmt.Errorf("Exec inside a transaction returned a different transaction handle")
				}
			}
		})
		so.Err = classify(err)
		if err != nil {
			so.ErrText = err.Error()
		}
		snapshotCounters(tx, &so)
		so.Frontier = d.st.LastPrecommittedTxID()
		o.Stmts = append(o.Stmts, so)
		if d.stuck.Load() {
			tx.Cancel()
			return o
		}
		if err != nil {
			failed = true
			break
		}
	}
	if failed {
		// the engine cancels the transaction of a failed statement; a commit attempted on the
		// same handle must not bring anything of it into the log
		o.OpenAfterFailure = !tx.Closed()
		d.lateCommit(tx, o)
		return o
	}
	snapshotCounters(tx, &o.Final)
	d.op(func(ctx context.Context) {
		switch p.End {
		case "commit":
			var done []*sql.SQLTx
			_, done, err = d.eng.Exec(ctx, tx, "COMMIT", nil)
			if err == nil {
				o.Committed = true
				if len(done) != 1 || done[0] != tx {
					err = fmt.Errorf("COMMIT acknowledged %d transactions", len(done))
				} else if h := tx.TxHeader(); h != nil {
					o.HeaderID = h.ID
					d.ack(h.ID)
				}
				snapshotCounters(tx, &o.Final)
			}
		case "rollback":
			_, _, err = d.eng.Exec(ctx, tx, "ROLLBACK", nil)
		default:
			err = tx.Cancel()
		}
	})
	o.EndErr = classify(err)
	if err != nil {
		o.EndText = err.Error()
	}
	if !o.Committed {
		d.lateCommit(tx, o)
	}
	return o
}

// lateCommit calls SQLTx.Commit on a transaction that was rolled back, cancelled or
// aborted: it must fail, and nothing may reach the store.
func (d *db) lateCommit(tx *sql.SQLTx, o *txObs) {
	d.op(func(ctx context.Context) {
		if err := tx.Commit(ctx); err == nil {
			if h := tx.TxHeader(); h != nil {
				o.LateCommitID = h.ID
			}
		}
	})
}

func (d *db) runScript(p *txProg, o *txObs) {
	parts := []string{"BEGIN TRANSACTION"}
	for _, s := range p.Stmts {
		parts = append(parts, s.SQL(d.sch[s.Table]))
	}
	parts = append(parts, "COMMIT")
	var err error
	var done []*sql.SQLTx
	var ntx *sql.SQLTx
	d.op(func(ctx context.Context) {
		ntx, done, err = d.eng.Exec(ctx, nil, strings.Join(parts, "; "), nil)
	})
	o.EndErr = classify(err)
	if err != nil {
		o.EndText = err.Error()
		return
	}
	if ntx != nil || len(done) != 1 {
		o.EndErr, o.EndText = errOther, fmt.Sprintf("script left an open transaction or acknowledged %d transactions", len(done))
		if ntx != nil {
			ntx.Cancel()
		}
		return
	}
	o.Committed = true
	if h := done[0].TxHeader(); h != nil {
		o.HeaderID = h.ID
		d.ack(h.ID)
	}
	snapshotCounters(done[0], &o.Final)
}

// runSessions runs every session's programs concurrently and returns all records.
func (d *db) runSessions(progs [][]*txProg) []*txObs {
	var wg sync.WaitGroup
	out := make([][]*txObs, len(progs))
	start := make(chan struct{})
	for s := range progs {
		wg.Add(1)
		go func(s int) {
			defer wg.Done()
			<-start
			for i, p := range progs[s] {
				if d.stuck.Load() {
					return
				}
				out[s] = append(out[s], d.runTx(p, s, i))
			}
		}(s)
	}
	close(start)
	wg.Wait()
	var all []*txObs
	for _, o := range out {
		all = append(all, o...)
	}
	return all
}
