package c13

import (
	"context"
	"fmt"
	"sort"
	"strings"

	"verifharness/internal/fw"
	m "verifharness/internal/sqlmodel"
)

func mapsEq(a, b map[string]int64) bool {
	if len(a) != len(b) {
		return false
	}
	for k, v := range a {
		if w, ok := b[k]; !ok || w != v {
			return false
		}
	}
	return true
}

// cmpStmt names the first aspect in which an observation differs from the interpreter's result.
func cmpStmt(want m.Result, got *stmtObs, query bool) string {
	switch {
	case want.Err != got.Err:
		return "outcome"
	case want.Err != "":
		return "" // a failed statement aborts the transaction; how far it got before failing depends on the scan order
	case query && !m.RowsEqual(want.Rows, got.Rows):
		return "rows"
	case want.Updated != got.Updated:
		return "affected-rows"
	case !mapsEq(want.First, got.First) || !mapsEq(want.Last, got.Last):
		return "generated-keys"
	}
	return ""
}

type verdict struct {
	ok     bool
	at     int    // statement of the first difference (len(stmts) = the end of the transaction)
	aspect string // what differed
	want   string
	db     *m.DB // the interpreter's state after the program (when ok)
}

// quirks selects an attribution interpreter (the zero value is the reference one).
type quirks struct{ keep, revisit bool }

const (
	sigKeep    = "sqltx/rollback-to-savepoint-keeps-writes"
	sigSnap    = "sqltx/snapshot-not-fixed-across-indexes"
	sigRevisit = "sqltx/update-revisits-rows-moved-in-scanned-index"
)

func (q quirks) sigs() []string {
	var out []string
	if q.keep {
		out = append(out, sigKeep)
	}
	if q.revisit {
		out = append(out, sigRevisit)
	}
	return out
}

// movesRowsInScannedIndex: an UPDATE that reaches its rows through a secondary index (named,
// or chosen because of an equality on its leading column) and changes a column of that
// index. Attribution interpreter `revisit`: such a statement may report up to twice the
// rows it changed (a row moved ahead of the scan position is met again).
func movesRowsInScannedIndex(s *m.Stmt, sch *m.Schema) bool {
	if s.Kind != m.Update || sch == nil {
		return false
	}
	for _, ix := range indexes(sch) {
		cols := strings.Split(ix, ", ")
		uses := s.Hint == ix
		if s.Hint == "" {
			for _, c := range s.Where {
				uses = uses || (c.Col == cols[0] && (c.Op == "=" || c.Op == "isnull"))
			}
		}
		if !uses {
			continue
		}
		for _, a := range s.Set {
			for _, c := range cols {
				if a.Col == c {
					return true
				}
			}
		}
	}
	return false
}

func (q quirks) begin(snapshot *m.DB) *m.Tx { return m.Begin(snapshot, q.keep) }

// candidates lists the attribution interpreters that can differ from the reference one for this program.
func candidates(o *txObs) []quirks {
	var out []quirks
	if o.Prog.RBAfterDML {
		out = append(out, quirks{keep: true})
	}
	for _, s := range o.Prog.Stmts {
		if movesRowsInScannedIndex(s, schemaOf[s.Table]) {
			n := len(out)
			out = append(out, quirks{revisit: true})
			for _, q := range out[:n] {
				q.revisit = true
				out = append(out, q)
			}
			break
		}
	}
	return out
}

// schemaOf: the tables of the case under judgement (one case per process at a time).
var schemaOf map[string]*m.Schema

// explain interprets o's program on snapshot and compares every observation not skipped.
func explain(o *txObs, snapshot *m.DB, q quirks, skip func(i int) bool) verdict {
	tx := q.begin(snapshot)
	p := o.Prog
	if p.Script {
		var res m.Result
		slack := 0
		for i, s := range p.Stmts {
			before := tx.Updated
			res = tx.Exec(s)
			if q.revisit && movesRowsInScannedIndex(s, schemaOf[s.Table]) {
				slack += res.Updated - before
			}
			if tx.Aborted {
				if !o.Committed && o.EndErr == res.Err {
					return verdict{ok: true, db: nil}
				}
				return verdict{at: i, aspect: "outcome", want: "statement fails: " + res.Err}
			}
		}
		if !o.Committed {
			if o.EndErr == errConflict {
				return verdict{ok: true}
			}
			return verdict{at: len(p.Stmts), aspect: "outcome", want: "script succeeds"}
		}
		if o.Final.Updated > res.Updated && o.Final.Updated <= res.Updated+slack {
			res.Updated = o.Final.Updated // attribution interpreter `revisit`: follow the engine's count
		}
		if a := cmpStmt(res, &o.Final, false); a != "" {
			return verdict{at: len(p.Stmts), aspect: a, want: fmt.Sprintf("updated=%d first=%v last=%v", res.Updated, res.First, res.Last)}
		}
		return verdict{ok: true, db: tx.DB}
	}
	var res m.Result
	for i := range o.Stmts {
		if tx.Aborted {
			return verdict{at: i, aspect: "outcome", want: "transaction aborted by the previous statement"}
		}
		s := p.Stmts[i]
		before := tx.Updated
		res = tx.Exec(s)
		if q.revisit && res.Err == "" && o.Stmts[i].Err == "" && movesRowsInScannedIndex(s, schemaOf[s.Table]) {
			prevObs := 0
			if i > 0 {
				prevObs = o.Stmts[i-1].Updated
			}
			if dm, do := res.Updated-before, o.Stmts[i].Updated-prevObs; do > dm && do <= 2*dm {
				tx.Updated = before + do // follow the engine's count
				res.Updated = tx.Updated
			}
		}
		if skip != nil && skip(i) && res.Err == o.Stmts[i].Err {
			continue
		}
		if a := cmpStmt(res, &o.Stmts[i], s.IsQuery()); a != "" {
			return verdict{at: i, aspect: a, want: render(res, s.IsQuery())}
		}
	}
	if len(o.Stmts) == len(p.Stmts) && !tx.Aborted && len(o.Stmts) > 0 {
		// counters reported at the end (after COMMIT for a committed transaction)
		if a := cmpStmt(m.Result{Updated: res.Updated, First: res.First, Last: res.Last}, &stmtObs{Updated: o.Final.Updated, First: o.Final.First, Last: o.Final.Last}, false); a != "" {
			return verdict{at: len(p.Stmts), aspect: a, want: render(res, false)}
		}
	}
	return verdict{ok: true, db: tx.DB}
}

func render(r m.Result, query bool) string {
	s := fmt.Sprintf("err=%q updated=%d first=%v last=%v", r.Err, r.Updated, r.First, r.Last)
	if query {
		s += fmt.Sprintf(" rows=%v", r.Rows)
	}
	return s
}

func (o *txObs) dump(sch map[string]*m.Schema) string {
	var sb strings.Builder
	p := o.Prog
	fmt.Fprintf(&sb, "session %d tx %d readonly=%v begin-stmt=%v script=%v end=%s committed=%v store-tx=%d begin-after-acked-tx=%d end-error=%q %s\n",
		o.Sess, o.Seq, p.ReadOnly, p.BeginStmt, p.Script, p.End, o.Committed, o.HeaderID, o.L, o.EndErr, o.EndText)
	for i, s := range p.Stmts {
		fmt.Fprintf(&sb, "  [%d] %s\n", i, s.SQL(sch[s.Table]))
		if i < len(o.Stmts) {
			so := o.Stmts[i]
			fmt.Fprintf(&sb, "        -> err=%q %s updated=%d first=%v last=%v frontier=%d", so.Err, so.ErrText, so.Updated, so.First, so.Last, so.Frontier)
			if s.IsQuery() {
				fmt.Fprintf(&sb, " rows=%v", so.Rows)
			}
			sb.WriteString("\n")
		}
	}
	fmt.Fprintf(&sb, "  final counters: updated=%d first=%v last=%v\n", o.Final.Updated, o.Final.First, o.Final.Last)
	return sb.String()
}

func (o *txObs) outcome() string {
	switch {
	case o.BeginErr != "":
		return "begin-failed"
	case o.Committed && o.HeaderID > 0:
		return "committed"
	case o.Committed:
		return "committed-empty"
	case len(o.Stmts) > 0 && o.Stmts[len(o.Stmts)-1].Err != "":
		return "stmt-failed:" + o.Stmts[len(o.Stmts)-1].Err
	case o.EndErr != "":
		return "end-failed:" + o.EndErr
	}
	return o.Prog.End
}

// firstRead is the index of the first statement that reads data.
func (o *txObs) firstRead() int {
	for i := range o.Stmts {
		// savepoint statements read nothing; DDL reads only the catalog, which the
		// transaction got at BEGIN
		switch s := o.Prog.Stmts[i]; {
		case s.Kind == m.Savepoint || s.Kind == m.RollbackTo || s.Kind == m.Release || s.IsDDL():
		default:
			return i
		}
	}
	return -1
}

type checker struct {
	c      *fw.Ctx
	d      *db
	tag    string
	nsess  int
	states map[uint64]*m.DB
	base   uint64
	last   uint64
	all    string // every record of the case, for witnesses
}

func (k *checker) viol(sig, detail string, o *txObs) {
	files := map[string][]byte{"case.txt": []byte(k.all)}
	if o != nil {
		files["transaction.txt"] = []byte(o.dump(k.d.sch))
		detail += "\n" + o.dump(k.d.sch)
	}
	k.c.Violation(sig, fmt.Sprintf("[%s, %d sessions] %s", k.tag, k.nsess, detail), files)
}

// replayCommitted builds the committed states in store-tx order. It returns false when the
// chain cannot be continued (an unexplained committed transaction).
func (k *checker) replayCommitted(committed []*txObs) bool {
	for _, o := range committed {
		prev := k.states[o.HeaderID-1]
		a := explain(o, prev, quirks{}, nil)
		k.c.Eval(len(o.Stmts) + 1)
		if a.ok {
			k.states[o.HeaderID] = a.db
			continue
		}
		attributed := false
		for _, q := range candidates(o) {
			if b := explain(o, prev, q, nil); b.ok {
				for _, sig := range q.sigs() {
					k.viol(sig, fmt.Sprintf("a committed transaction is explained only by the attribution interpreter %+v (reference interpreter differs at statement %d in %s, expected %s)", q, a.at, a.aspect, a.want), o)
				}
				k.states[o.HeaderID] = b.db // follow what the implementation did so that later transactions are judged fairly
				attributed = true
				break
			}
		}
		if attributed {
			continue
		}
		kind := "commit"
		if a.at < len(o.Prog.Stmts) {
			kind = o.Prog.Stmts[a.at].Kind
		}
		k.viol(fmt.Sprintf("sqltx/committed/%s/%s", kind, a.aspect),
			fmt.Sprintf("committed transaction (store tx %d) replayed on the state at its commit position: statement %d differs in %s; expected %s", o.HeaderID, a.at, a.aspect, a.want), o)
		return false
	}
	return true
}

// explainUncommitted: one committed state inside the window must explain every observation.
func (k *checker) explainUncommitted(o *txObs) {
	fr := o.firstRead()
	if o.Prog.Script {
		if o.EndErr == errConflict || o.EndErr == "" {
			return
		}
		fr = 0
	}
	if fr < 0 {
		if len(o.Stmts) == 0 {
			return
		}
		fr = 0 // only DDL / savepoint statements: their outcomes depend on the catalog the transaction got at BEGIN
	}
	lo, hi := o.L, k.last
	if !o.Prog.Script {
		hi = o.Stmts[fr].Frontier
	}
	if hi > k.last {
		hi = k.last
	}
	k.c.Eval(len(o.Stmts) + 1)
	var best verdict
	best.at = -1
	for id := lo; id <= hi; id++ {
		v := explain(o, k.states[id], quirks{}, nil)
		if v.ok {
			return
		}
		if v.at > best.at {
			best = v
		}
	}
	what := fmt.Sprintf("no single committed state in [%d,%d] explains all observations of this uncommitted transaction under the reference interpreter (closest state: statement %d differs in %s, expected %s)", lo, hi, best.at, best.aspect, best.want)
	cands := candidates(o)
	for _, q := range cands {
		for id := lo; id <= hi; id++ {
			if explain(o, k.states[id], q, nil).ok {
				for _, sig := range q.sigs() {
					k.viol(sig, what+fmt.Sprintf("; the attribution interpreter %+v on state %d does", q, id), o)
				}
				return
			}
		}
	}
	if o.Prog.Script {
		if k.perUnitScript(o, lo, hi) {
			k.viol(sigSnap, what+"; one state per table plus the catalog of another state of the window does", o)
			return
		}
		k.viol("sqltx/script-outcome", what, o)
		return
	}
	for _, q := range append([]quirks{{}}, cands...) {
		if k.perUnit(o, lo, q) {
			for _, sig := range append([]string{sigSnap}, q.sigs()...) {
				k.viol(sig, what+fmt.Sprintf("; one state per table/index does (interpreter %+v)", q), o)
			}
			return
		}
	}
	// attribution pass (c): the rows of one state of the window under the catalog of a state
	// OLDER than the window (older than every commit acknowledged before BEGIN): the engine's
	// cached catalog outlived a DDL commit
	if lo > k.base {
		for id := lo; id <= hi; id++ {
			for cat := k.base; cat < lo; cat++ {
				db := m.NewDB()
				for n, rt := range k.states[id].Tables {
					ct := k.states[cat].Tables[n]
					db.Tables[n] = &m.Table{Schema: rt.Schema, Rows: rt.Rows, MaxPK: rt.MaxPK, Checks: ct.Checks, Extra: ct.Extra, Idx: ct.Idx}
				}
				if explain(o, db, quirks{}, nil).ok {
					k.viol("sqltx/catalog-older-than-acknowledged-ddl-commit", what+fmt.Sprintf("; the rows of state %d under the catalog of state %d (before the window) do: the transaction worked on a catalog that predates a DDL commit serialized before a commit acknowledged before its BEGIN", id, cat), o)
					return
				}
			}
		}
	}
	sig := "sqltx/unexplained-read"
	if best.aspect == "affected-rows" {
		sig = "sqltx/uncommitted/affected-rows"
	}
	k.viol(sig, what+"; not even one state per table/index does", o)
}

// perUnitScript is attribution pass (b) for a one-call script, of which only the outcome is
// known: every table may take its rows from its own state of the window, and the catalog
// (which the transaction got at BEGIN) from yet another one. Exhaustive over a small window.
func (k *checker) perUnitScript(o *txObs, lo, hi uint64) bool {
	var names []string
	for n := range k.states[lo].Tables {
		names = append(names, n)
	}
	sort.Strings(names)
	w := hi - lo + 1
	total := uint64(1)
	for i := 0; i <= len(names); i++ {
		if total *= w; total > 20000 {
			return false
		}
	}
	for x := uint64(0); x < total; x++ {
		db := m.NewDB()
		y := x
		cat := lo + y%w
		y /= w
		for _, n := range names {
			rt, ct := k.states[lo+y%w].Tables[n], k.states[cat].Tables[n]
			y /= w
			db.Tables[n] = &m.Table{Schema: rt.Schema, Rows: rt.Rows, MaxPK: rt.MaxPK, Checks: ct.Checks, Extra: ct.Extra, Idx: ct.Idx}
		}
		if explain(o, db, quirks{}, nil).ok {
			return true
		}
	}
	return false
}

// perUnit: attribution pass (b). Every statement touches one table; a hinted query reads it
// through the secondary index (generated only before the transaction's first write to that
// table when sessions run concurrently), everything else through the primary index. Each
// unit may take its own committed state from [lo, frontier after the unit's first statement].
func (k *checker) perUnit(o *txObs, lo uint64, q quirks) bool {
	p := o.Prog
	unitOf := func(i int) string {
		s := p.Stmts[i]
		if s.Table == "" {
			return ""
		}
		if s.IsQuery() && o.Stmts[i].Secondary {
			return s.Table + "/" + o.Stmts[i].SecIndex // every secondary index is a store index of its own
		}
		if s.Hint != "" {
			return s.Table + "/" + s.Hint
		}
		return s.Table
	}
	units := map[string]uint64{}
	var names []string
	dataSeen := map[string]bool{}
	for i := range o.Stmts {
		if u := unitOf(i); u != "" {
			if _, ok := units[u]; !ok {
				names = append(names, u)
			}
			// the unit's rows are snapshotted by its first statement that is not DDL
			if !dataSeen[u] {
				units[u] = o.Stmts[i].Frontier
				dataSeen[u] = !p.Stmts[i].IsDDL()
			}
		}
	}
	if len(names) == 0 {
		return false
	}
	sort.Strings(names)
	// the catalog of a transaction is loaded (or taken from the engine's cache) at BEGIN, the
	// rows of a table at its first touch: a unit may pair the rows of one state with the
	// catalog (constraints, added columns) of another state of the window
	compose := func(table string, id, cat uint64) *m.DB {
		if id == cat {
			return k.states[id]
		}
		db := m.NewDB()
		for n, t := range k.states[id].Tables {
			db.Tables[n] = t
		}
		rt, ct := k.states[id].Tables[table], k.states[cat].Tables[table]
		db.Tables[table] = &m.Table{Schema: rt.Schema, Rows: rt.Rows, MaxPK: rt.MaxPK, Checks: ct.Checks, Extra: ct.Extra, Idx: ct.Idx}
		return db
	}
	composite := m.NewDB()
	for n, t := range k.states[lo].Tables {
		composite.Tables[n] = t
	}
	// statement-local differences of the counters (a cumulative counter mixes the tables)
	deltaObs := func(i int) int {
		if i == 0 {
			return o.Stmts[0].Updated
		}
		return o.Stmts[i].Updated - o.Stmts[i-1].Updated
	}
	for _, u := range names {
		hi := units[u]
		if hi > k.last {
			hi = k.last
		}
		table := strings.SplitN(u, "/", 2)[0]
		found := false
		for pair := uint64(0); pair < (hi-lo+1)*(hi-lo+1) && !found; pair++ {
			id, cat := lo+pair/(hi-lo+1), lo+pair%(hi-lo+1)
			snap := compose(table, id, cat)
			tx := q.begin(snap)
			ok := true
			prevUpd := 0
			for i := range o.Stmts {
				if tx.Aborted {
					ok = false
					break
				}
				s := p.Stmts[i]
				if s.Table != "" && s.Table != table {
					continue
				}
				res := tx.Exec(s)
				d := res.Updated - prevUpd
				prevUpd = res.Updated
				if s.Table == "" {
					continue
				}
				if unitOf(i) != u {
					// the table's other unit: keep the effects, leave the judgement to that unit
					if res.Err != "" {
						break
					}
					continue
				}
				got := &o.Stmts[i]
				if res.Err != got.Err || (s.IsQuery() && !m.RowsEqual(res.Rows, got.Rows)) || d != deltaObs(i) ||
					res.First[table] != got.First[table] || res.Last[table] != got.Last[table] {
					ok = false
					break
				}
			}
			if ok {
				found = true
				if !strings.Contains(u, "/") {
					composite.Tables[table] = snap.Tables[table]
				}
			}
		}
		if !found {
			return false
		}
	}
	// sanity: the whole program on the composite snapshot reproduces everything read through primary indexes
	v := explain(o, composite, q, func(i int) bool { return strings.Contains(unitOf(i), "/") })
	return v.ok
}

// checkCase is the oracle of one case (one database, one concurrent batch of sessions).
func checkCase(c *fw.Ctx, d *db, tag string, nsess int, base uint64, init *m.DB, obs []*txObs) {
	schemaOf = d.sch
	k := &checker{c: c, d: d, tag: tag, nsess: nsess, states: map[uint64]*m.DB{base: init}, base: base}
	var sb strings.Builder
	for _, o := range obs {
		sb.WriteString(o.dump(d.sch))
	}
	k.all = sb.String()
	k.last = d.st.LastCommittedTxID()

	var committed []*txObs
	bad := false
	for _, o := range obs {
		o.Out = o.outcome()
		if o.BeginErr != "" {
			c.Inconclusive(fmt.Sprintf("[%s] BEGIN failed: %s", tag, o.BeginErr))
			return
		}
		if o.LateCommitID != 0 {
			sig := "sqltx/commit-after-" + o.Prog.End
			if n := len(o.Stmts); n > 0 && o.Stmts[n-1].Err != "" {
				sig = "sqltx/commit-after-failed-statement"
			} else if o.EndErr != "" {
				sig = "sqltx/commit-after-failed-commit"
			}
			c.Eval(1)
			k.viol(sig, fmt.Sprintf("SQLTx.Commit on a finished transaction succeeded and wrote store tx %d (open after the failed statement: %v)", o.LateCommitID, o.OpenAfterFailure), o)
			bad = true
		}
		if o.Committed && o.HeaderID > 0 {
			committed = append(committed, o)
		}
		if o.EndErr == errOther || (len(o.Stmts) > 0 && o.Stmts[len(o.Stmts)-1].Err == errOther) {
			txt := o.EndText
			kind := "end"
			if n := len(o.Stmts); n > 0 && o.Stmts[n-1].Err == errOther {
				txt, kind = o.Stmts[n-1].ErrText, o.Prog.Stmts[n-1].Kind
			}
			c.Eval(1)
			k.viol("sqltx/unexpected-error/"+kind, "a statement of the generated subset failed with an error that is neither a constraint violation nor a read conflict: "+txt, o)
			bad = true
		}
	}
	if bad {
		return
	}
	sort.Slice(committed, func(i, j int) bool { return committed[i].HeaderID < committed[j].HeaderID })
	// every store tx after the setup must be an acknowledged commit of exactly one program
	c.Eval(1)
	for i, o := range committed {
		if o.HeaderID != base+uint64(i)+1 {
			k.viol("sqltx/store-tx-without-acknowledged-commit", fmt.Sprintf("store tx ids of the acknowledged commits are not contiguous after the setup (tx %d): position %d has id %d", base, i, o.HeaderID), nil)
			return
		}
	}
	if k.last != base+uint64(len(committed)) {
		k.viol("sqltx/store-tx-without-acknowledged-commit", fmt.Sprintf("the store holds %d transactions after the setup, %d commits were acknowledged: something of a rolled-back, failed or abandoned transaction reached the log", k.last-base, len(committed)), nil)
		return
	}
	if !k.replayCommitted(committed) {
		return
	}
	for _, o := range obs {
		if !(o.Committed && o.HeaderID > 0) {
			k.explainUncommitted(o)
		}
	}
	// final contents = the model built from committed transactions only
	final := k.states[k.last]
	for name, t := range final.Tables {
		s := &m.Stmt{Kind: m.Select, Table: name, Cols: colNames(t.Schema)}
		var rows []m.Row
		var err error
		d.op(func(ctx context.Context) { rows, err = d.query(ctx, nil, s) })
		c.Eval(1)
		if err != nil {
			k.viol("sqltx/final-read-error", "reading the final contents failed: "+err.Error(), nil)
			continue
		}
		want := t.Sorted()
		if !m.RowsEqual(want, rows) {
			k.viol("sqltx/final-contents", fmt.Sprintf("table %s after all sessions finished: engine %v, model of the committed transactions %v", name, rows, want), nil)
		}
	}
	// a write that a CHECK constraint forbids must fail exactly when no COMMITTED transaction dropped the constraint
	if ct := final.Tables["c"]; ct != nil {
		probe := &m.Stmt{Kind: m.Insert, Table: "c", Cols: colNames(ct.Schema), Rows: [][]m.Val{{int64(9999), int64(500), "probe"}}}
		want := m.Begin(final, false).Exec(probe).Err
		var err error
		d.op(func(ctx context.Context) { _, _, err = d.eng.Exec(ctx, nil, probe.SQL(ct.Schema), nil) })
		c.Eval(1)
		if got := classify(err); got != want {
			k.viol("sqltx/final-constraint", fmt.Sprintf("after all sessions finished %q gave %q (%v); the committed transactions imply %q (constraints in force: %v)", probe.SQL(ct.Schema), got, err, want, ct.Checks), nil)
		}
	}
	// a column exists exactly when a COMMITTED transaction added it
	if ct := final.Tables["c"]; ct != nil {
		for i := 0; i < 3; i++ {
			probe := &m.Stmt{Kind: m.Count, Table: "c", Where: m.Pred{{Col: fmt.Sprintf("x%d", i), Op: "isnull"}}}
			want := m.Begin(final, false).Exec(probe).Err
			var err error
			d.op(func(ctx context.Context) { _, err = d.query(ctx, nil, probe) })
			c.Eval(1)
			if got := classify(err); got != want {
				k.viol("sqltx/final-catalog", fmt.Sprintf("after all sessions finished %q gave %q (%v); the committed transactions imply %q (added columns: %v)", probe.SQL(ct.Schema), got, err, want, ct.Extra), nil)
			}
		}
	}
	for _, o := range obs {
		c.Distinct(fmt.Sprintf("%s/sessions=%d/%s", o.Prog.shape(len(o.Stmts)), nsess, o.Out))
		c.Count("tx_"+strings.SplitN(o.Out, ":", 2)[0], 1)
	}
}
