// Package c13: monitor for property C13 — SQL transactions are atomic and isolated,
// including rollback and savepoints (see DESIGN.md section 2).
//
// One case = one fresh database, 1–6 concurrent sessions, each running a list of PRNG
// transaction programs through the engine API. Everything the engine reports per statement
// (rows, cumulative affected rows, generated keys, error class) is recorded together with
// store tx ids bounding when the snapshot can have been taken; after the sessions finished
// the records are judged against internal/sqlmodel (oracle.go).
package c13

import (
	"context"
	"encoding/json"
	"fmt"
	"os"
	"time"
	"verifharness/mon/c13s"

	"github.com/codenotary/immudb/embedded/sql"
	"github.com/codenotary/immudb/embedded/store"

	"verifharness/internal/fw"
	"verifharness/internal/hook"
	m "verifharness/internal/sqlmodel"
	"verifharness/internal/sth"
)

func init() {
	fw.RegisterMonitor("C13", "exploration", Run)
	fw.RegisterIsolated("c13-engine", engineCase)
}

type caseSpec struct {
	Idx      int
	Sessions int
	TxPer    int
	Variant  int
	DDL      bool // DDL inside transactions (ALTER TABLE … DROP CONSTRAINT / ADD COLUMN, CREATE INDEX)
}

func openDB(c *fw.Ctx, name string) (*db, error) {
	st, err := store.Open(c.Dir(name), store.DefaultOptions().WithMultiIndexing(true).WithSynced(false).
		WithMaxConcurrency(16).WithMaxTxEntries(256).WithMaxKeyLen(256).WithLogger(sth.QuietLogger()))
	if err != nil {
		return nil, err
	}
	eng, err := sql.NewEngine(st, sql.DefaultOptions().WithPrefix([]byte{2}))
	if err != nil {
		st.Close()
		return nil, err
	}
	return &db{st: st, eng: eng, sch: map[string]*m.Schema{}}, nil
}

// setup creates the tables and the initial rows, in the engine and in the model.
func setup(d *db, r interface{ IntN(int) int }, variant int, multi bool) (*m.DB, error) {
	init := m.NewDB()
	tx := m.Begin(init, false)
	ctx := context.Background()
	for _, s := range schemas(variant, multi) {
		d.sch[s.Name] = s
		st := &m.Stmt{Kind: m.Create, Schema: s}
		if _, _, err := d.eng.Exec(ctx, nil, st.SQL(nil), nil); err != nil {
			return nil, err
		}
		tx.Exec(st)
		n := 3 + r.IntN(5)
		ins := &m.Stmt{Kind: m.Insert, Table: s.Name, Cols: colNames(s)}
		if s.AutoInc {
			ins.Cols = ins.Cols[1:]
		}
		for i := 0; i < n; i++ {
			row := []m.Val{}
			for _, cn := range ins.Cols {
				col := s.Cols[s.ColIdx(cn)]
				switch {
				case cn == "id":
					row = append(row, int64(i+1))
				case cn == "v":
					row = append(row, int64(100+i)) // (u, v) is unique
				case col.Kind == m.Int:
					row = append(row, int64(r.IntN(domain(cn))))
				case col.Kind == m.Str:
					row = append(row, fmt.Sprintf("init.%s.%d", s.Name, i))
				default:
					if r.IntN(4) == 0 {
						row = append(row, nil)
					} else {
						row = append(row, r.IntN(2) == 0)
					}
				}
			}
			ins.Rows = append(ins.Rows, row)
		}
		if _, _, err := d.eng.Exec(ctx, nil, ins.SQL(s), nil); err != nil {
			return nil, err
		}
		if res := tx.Exec(ins); res.Err != "" {
			return nil, fmt.Errorf("model rejected the setup: %s", res.Err)
		}
	}
	return tx.DB, nil
}

func engineCase(c *fw.Ctx, data []byte) {
	var cs caseSpec
	if err := json.Unmarshal(data, &cs); err != nil {
		c.Inconclusive("bad case: " + err.Error())
		return
	}
	if e := m.SelfCheck(); e != "" {
		c.Inconclusive("sqlmodel self-check failed: " + e)
		return
	}
	tag := fmt.Sprintf("case%d", cs.Idx)
	r := fw.NewRand(c.Seed, "c13/"+tag)
	d, err := openDB(c, "db")
	if err != nil {
		c.Inconclusive("open: " + err.Error())
		return
	}
	defer d.st.Close()
	init, err := setup(d, r, cs.Variant, cs.Sessions > 1)
	if err != nil {
		c.Inconclusive("setup: " + err.Error())
		return
	}
	sch := schemas(cs.Variant, cs.Sessions > 1)
	progs := make([][]*txProg, cs.Sessions)
	for s := range progs {
		sr := fw.NewRand(c.Seed, fmt.Sprintf("c13/%s/session%d", tag, s))
		readOnlySession := cs.Sessions > 1 && s == cs.Sessions-1 && cs.Idx%2 == 0
		for i := 0; i < cs.TxPer; i++ {
			ro := readOnlySession || sr.IntN(6) == 0
			progs[s] = append(progs[s], genProg(sr, sch, fmt.Sprintf("%d.%d.%d", cs.Idx, s, i), s, cs.Sessions > 1, ro, cs.DDL))
		}
	}
	base := d.st.LastCommittedTxID()
	d.acked.Store(base)
	if cs.DDL && cs.Sessions > 1 && cs.Idx%4 == 1 {
		// widen the window between a DDL commit reaching the store and the engine's catalog
		// cache learning about it (schedule perturbation only; no verdict depends on it)
		h := hook.Install(&hook.Config{Seed: c.Seed + int64(cs.Idx), Perturb: 0.7, MaxSleep: 3 * time.Millisecond,
			Sites: map[string]bool{"sql.commit.afterStoreCommit": true}})
		defer func() {
			hook.Uninstall()
			c.Count("hook_sql_commit_afterStoreCommit", int64(h.Hits()["sql.commit.afterStoreCommit"]))
		}()
	}
	obs := d.runSessions(progs)
	if d.stuck.Load() {
		c.Inconclusive(fmt.Sprintf("[%s] %v", tag, d.why.Load()))
		return
	}
	checkCase(c, d, tag, cs.Sessions, base, init, obs)
	if cs.Idx == 0 && len(obs) > 0 {
		o := obs[0]
		c.Sample(map[string]any{"case": tag, "sessions": cs.Sessions, "program": o.Prog.text(d.sch), "outcome": o.outcome(), "store_tx": o.HeaderID})
	}
}

func Run(c *fw.Ctx) {
	c.Rule = "PRNG transaction programs (INSERT/UPSERT/UPDATE/DELETE/SELECT/COUNT, injected statement failures, SAVEPOINT/ROLLBACK TO/RELEASE nested up to 3, COMMIT/ROLLBACK/Cancel, one-call scripts) in 1-6 concurrent engine sessions incl. read-only ones on a fresh database per case; per statement rows, cumulative affected rows and generated keys must equal internal/sqlmodel run on the state at the commit position (committed) or on ONE committed state between BEGIN and the first read (uncommitted); final contents equal the model of the committed transactions; distinct = (mode × statement kinds × savepoint depth × rollback-after-DML × failure position × end × sessions × outcome) observed"
	c.Assume("serializability in commit order (C05): a committed read-write transaction behaves as if run on the state left by the store transactions with smaller ids")
	c.Assume("the AUTO_INCREMENT counter is not given back by ROLLBACK TO SAVEPOINT (as PostgreSQL sequences); savepoint names are unique and never reused after ROLLBACK TO / RELEASE")
	c.Assume("a failed statement aborts the whole transaction (Engine.ExecPreparedStmts cancels it)")
	r := c.Rand("c13/cases")
	n := c.N(300, 15000)
	var cases [][]byte
	for i := 0; i < n; i++ {
		cs := caseSpec{Idx: i, Sessions: 1 + r.IntN(6), TxPer: 4 + r.IntN(5), Variant: r.IntN(4)}
		if i%3 == 0 {
			cs.Sessions = 4
		}
		cs.DDL = i%2 == 1
		b, _ := json.Marshal(cs)
		cases = append(cases, b)
	}
	if only := os.Getenv("VERIF_C13_ONLY"); only != "" { // development aid: run one case index many times
		var sel [][]byte
		for i, b := range cases {
			if fmt.Sprint(i) == only {
				for j := 0; j < 400; j++ {
					sel = append(sel, b)
				}
			}
		}
		cases = sel
	}
	c.RunIsolated("c13-engine", cases, fw.CasesOpts{Workers: 14, CaseTimout: 10 * time.Minute})
	if os.Getenv("VERIF_C13_ONLY") == "" {
		// the same property through the server's session transactions (gRPC) and the PostgreSQL wire front-end
		c13s.RunFrontends(c)
	}
}
