// Package c13: monitor for property C13 (see DESIGN.md section 2).
package c13
