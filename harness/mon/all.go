// Package mon links every monitor package into vcheck.
package mon

import (
	_ "verifharness/mon/c01"
	_ "verifharness/mon/c02"
	_ "verifharness/mon/c03"
	_ "verifharness/mon/c04"
	_ "verifharness/mon/c05"
	_ "verifharness/mon/c06"
	_ "verifharness/mon/c07"
	_ "verifharness/mon/c08"
	_ "verifharness/mon/c09"
	_ "verifharness/mon/c10"
	_ "verifharness/mon/c11"
	_ "verifharness/mon/c12"
	_ "verifharness/mon/c13"
	_ "verifharness/mon/c14"
	_ "verifharness/mon/c15"
	_ "verifharness/mon/c16"
	_ "verifharness/mon/c17"
	_ "verifharness/mon/c18"
	_ "verifharness/mon/c19"
)
