// Package mon links every monitor package into vcheck.
package mon

import (
	_ "verifharness/mon/c15"
)
