package c09

import (
	"fmt"
	"path/filepath"
	"testing"

	"github.com/codenotary/immudb/embedded/appendable"
)

func TestProf(t *testing.T) {
	dir := t.TempDir()
	cf := storeCfg{Name: "p", Compression: appendable.NoCompression, HdrVersion: 1, IOConc: 2, FileSize: 512, NTx: 5, Full: true, Seed: 1}
	g, err := build(cf, filepath.Join(dir, "s"))
	if err != nil {
		t.Fatal(err)
	}
	m := &gen{g: g}
	m.singleBits(true)
	fmt.Println("cases", len(m.cases), "bytes", len(g.Bytes), "files", len(g.Files))
	c0 := cpuMillis()
	n := 0
	for i := 0; i < len(m.cases); i += len(m.cases) / 300 {
		if m.cases[i].Field == "e.vlen" {
			continue
		}
		r := execCase(g, m.cases[i], filepath.Join(dir, "m"))
		_ = r
		n++
	}
	fmt.Println("cpu ms per case", float64(cpuMillis()-c0)/float64(n))
}
