// Package c09: monitor for property C09 (see DESIGN.md section 2).
package c09
