// Package c09: corruption of stored data is detected, never served as valid.
//
// Pristine small stores are built and closed cleanly; the commit log and the entries' value references
// locate every byte that holds a committed record or a referenced value. Each case alters some of those
// bytes on a copy (every single bit; PRNG multi-bit; field-targeted; same-size splices), then a child
// process opens the copy and drives every integrity-checked read path; each call must fail with an error
// or return exactly what was committed.
package c09

import (
	"encoding/json"
	"fmt"
	"os"
	"path/filepath"
	"strings"
	"sync"
	"time"

	"github.com/codenotary/immudb/embedded/appendable"

	"verifharness/internal/fw"
)

func init() {
	fw.RegisterMonitor("C09", "fault_enumeration", Run)
	fw.RegisterChild("c09-read", func(setup []byte, scratch string) func(i int, data []byte) []byte {
		var dirs []string
		json.Unmarshal(setup, &dirs)
		return func(i int, data []byte) []byte {
			var cs caseT
			res := &result{}
			if err := json.Unmarshal(data, &cs); err != nil {
				res.Err = "case: " + err.Error()
			} else if cs.S < 0 || cs.S >= len(dirs) {
				res.Err = "case: store index"
			} else if g, err := cachedGT(dirs[cs.S]); err != nil {
				res.Err = "ground truth: " + err.Error()
			} else {
				res = execCase(g, cs, filepath.Join(scratch, fmt.Sprintf("m%d", i)))
			}
			b, _ := json.Marshal(res)
			return b
		}
	})
}

var gtCache sync.Map

func cachedGT(dir string) (*groundTruth, error) {
	if v, ok := gtCache.Load(dir); ok {
		return v.(*groundTruth), nil
	}
	g, err := loadGT(dir)
	if err != nil {
		return nil, err
	}
	gtCache.Store(dir, g)
	return g, nil
}

func storeList(c *fw.Ctx) []storeCfg {
	r := c.Rand("c09/stores")
	mk := func(name string, emb bool, comp, ver, ioc, fsz, ntx, vcache, txcache int, full bool) storeCfg {
		return storeCfg{Name: name, Embedded: emb, Compression: comp, HdrVersion: ver, IOConc: ioc, FileSize: fsz, NTx: ntx, VCache: vcache, TxCache: txcache, Full: full, Seed: c.Seed}
	}
	sizes := []int{384, 512, 640}
	vc := []int{4, 16, 64}
	if c.Quick() {
		// value-log cache on in four of six (tx-log cache at the store's default there and tiny elsewhere)
		return []storeCfg{
			mk("plain-v1", false, appendable.NoCompression, 1, 2, sizes[r.IntN(3)], 3, vc[r.IntN(3)], 0, true),
			mk("embedded-v0", true, appendable.NoCompression, 0, 1, sizes[r.IntN(3)], 3, 0, 4, true),
			mk("zlib-v1", false, appendable.ZLibCompression, 1, 1, sizes[r.IntN(3)], 2, vc[r.IntN(3)], 2, false),
			mk("lzw-v0", false, appendable.LZWCompression, 0, 2, sizes[r.IntN(3)], 2, vc[r.IntN(3)], 0, false),
			mk("flate-v1", false, appendable.FlateCompression, 1, 3, sizes[r.IntN(3)], 2, 0, 4, false),
			mk("gzip-v0", false, appendable.GZipCompression, 0, 1, sizes[r.IntN(3)], 2, vc[r.IntN(3)], 0, false),
		}
	}
	var out []storeCfg
	for ver := 0; ver <= 1; ver++ {
		// header v0 stores: value cache on, default tx cache; v1: alternate
		vcOf := func(k int) int {
			if (k+ver)%2 == 0 {
				return vc[r.IntN(3)]
			}
			return 0
		}
		out = append(out,
			mk(fmt.Sprintf("plain-v%d", ver), false, appendable.NoCompression, ver, 1+ver, sizes[r.IntN(3)], 6, vcOf(0), 4*ver, true),
			mk(fmt.Sprintf("embedded-v%d", ver), true, appendable.NoCompression, ver, 1, sizes[r.IntN(3)], 6, vcOf(1), 4-4*ver, true),
			mk(fmt.Sprintf("flate-v%d", ver), false, appendable.FlateCompression, ver, 2-ver, sizes[r.IntN(3)], 6, vcOf(2), 4*ver, true),
			mk(fmt.Sprintf("gzip-v%d", ver), false, appendable.GZipCompression, ver, 1+2*ver, sizes[r.IntN(3)], 6, vcOf(3), 2-2*ver, true),
			mk(fmt.Sprintf("lzw-v%d", ver), false, appendable.LZWCompression, ver, 3-2*ver, sizes[r.IntN(3)], 6, vcOf(4), 4*ver, true),
			mk(fmt.Sprintf("zlib-v%d", ver), false, appendable.ZLibCompression, ver, 1+ver, sizes[r.IntN(3)], 6, vcOf(5), 0, true),
		)
	}
	return out
}

type runner struct {
	c       *fw.Ctx
	gts     []*groundTruth
	dirs    []string
	setup   []byte
	sampled int
	// suspected hangs / leaked locks to confirm alone
	suspects    []caseT
	lockSuspect *caseT
	lockCases   []string
	outcomes    map[string]int
}

func (rn *runner) witness(cs caseT, extra map[string][]byte) map[string][]byte {
	g := rn.gts[cs.S]
	files := map[string][]byte{}
	for _, f := range g.Files {
		files["pristine__"+strings.ReplaceAll(f, string(filepath.Separator), "__")] = g.Data[f]
	}
	if b, err := os.ReadFile(filepath.Join(rn.dirs[cs.S], "gt.gob")); err == nil {
		files["gt.gob"] = b
	}
	cs.S = 0
	b, _ := json.MarshalIndent(cs, "", " ")
	files["case.json"] = b
	for k, v := range extra {
		files[k] = v
	}
	return files
}

func (rn *runner) handle(cases []caseT, final bool) func(rs fw.CaseResult) {
	c := rn.c
	return func(rs fw.CaseResult) {
		cs := cases[rs.Index]
		g := rn.gts[cs.S]
		fmtKey := g.Cfg.format() + "|" + cs.Kind + ":" + cs.Field
		if cs.Pre {
			fmtKey += "|after-unchecked-export"
		}
		switch {
		case rs.TimedOut:
			// the in-child watchdog should have fired first: the process itself was stuck
			c.Inconclusive("child watchdog fired on [" + cs.Note + "]")
			return
		case rs.Crashed:
			sig := panicSig(rs.Text)
			if strings.HasSuffix(sig, "/out-of-memory") {
				// memory is not judged by C09 (C16 does): the child's address-space limit was hit
				c.Count("out_of_memory_children", 1)
				c.Inconclusive("child ran out of memory on [" + cs.Note + "]")
				return
			}
			c.Eval(1)
			c.Distinct(fmtKey + "|process|crash")
			c.Violation(sig, fmt.Sprintf("the process died while opening or reading a store with altered record/value bytes [%s]:\n%s", cs.Note, firstLines(rs.Text, 30)),
				rn.witness(cs, map[string][]byte{"stderr.txt": []byte(rs.Text)}))
			return
		}
		var res result
		if err := json.Unmarshal(rs.Out, &res); err != nil || res.Err != "" {
			c.Inconclusive(fmt.Sprintf("case [%s]: %v %s", cs.Note, err, res.Err))
			return
		}
		if os.Getenv("VERIF_C09_DEBUG") != "" {
			fmt.Printf("case %d [%s] ms=%d hung=%v step=%s idx=%s obs=%v findings=%v\n", rs.Index, cs.Note, res.Millis, res.Hung, res.Step, res.Index, res.Obs, res.Findings)
		}
		if res.Hung {
			if !final {
				cs.Confirm = true
				rn.suspects = append(rn.suspects, cs)
				c.Count("suspected_hangs", 1)
				return
			}
			if res.HangClass == "allocation-bound" {
				// busy allocating (a corrupted length): slow because of memory, which C09 does not judge
				c.Count("allocation_bound_slow_cases", 1)
				c.Inconclusive("still allocating after 120 s alone (memory is judged by C16): [" + cs.Note + "]")
				return
			}
			c.Eval(1)
			c.Distinct(fmtKey + "|" + res.Step + "|hang")
			c.Violation(res.Step+"/hang", fmt.Sprintf("%s does not return when run alone in a fresh process (%s; expected: milliseconds) [%s]\n%s", res.Step, res.HangClass, cs.Note, hangStack(res.Stacks)),
				rn.witness(cs, map[string][]byte{"goroutines.txt": []byte(res.Stacks)}))
			return
		}
		if cs.Kind == "pristine" {
			// control: the unaltered copy must read back identical through every path
			bad := len(res.Findings) > 0
			for _, o := range res.Obs {
				if strings.Contains(o, "|error:") || strings.Contains(o, "not-called") || strings.Contains(o, "DIFFERENT") || strings.Contains(o, "LOCK") || strings.Contains(o, "lagging") {
					bad = true
				}
			}
			if bad {
				c.Inconclusive(fmt.Sprintf("control failed: the unaltered copy of store %s does not read back identical: %v %v", g.Cfg.Name, res.Obs, res.Findings))
			}
			c.Count("controls", 1)
			return
		}
		c.Eval(1)
		c.Count("cases_"+cs.Kind, 1)
		c.Count("index_"+res.Index, 1)
		c.Count("calls_not_made_length_over_16MiB", int64(res.HugeSkipped))
		for _, o := range res.Obs {
			c.Distinct(fmtKey + "|" + o)
			p := o
			if i := strings.Index(o, "|"); i >= 0 {
				p = o[:i] + "|" + strings.SplitN(o[i+1:], ":", 2)[0]
			}
			rn.outcomes[p]++
		}
		if rn.sampled < 6 && len(res.Obs) > 2 && rs.Index%977 == 0 {
			rn.sampled++
			c.Sample(map[string]any{"case": cs.Note, "kind": cs.Kind, "field": cs.Field, "bytes_changed": res.Changed, "observed": res.Obs, "reindex": res.Index})
		}
		for _, f := range res.Findings {
			if f.Sig == "exporttx/returns-holding-export-lock" {
				// state-based suspicion (mutex held, nobody exporting); confirmed once by a real hang, see below
				if rn.lockSuspect == nil {
					cp := cs
					cp.Confirm = true
					rn.lockSuspect = &cp
				}
				if len(rn.lockCases) < 100000 {
					rn.lockCases = append(rn.lockCases, f.Detail)
				}
				continue
			}
			c.Violation(f.Sig, f.Detail, rn.witness(cs, nil))
		}
	}
}

func hangStack(s string) string {
	// the goroutine of the case is the one inside c09.(*checker).run
	for _, g := range strings.Split(s, "\n\n") {
		if strings.Contains(g, "c09.(*checker).run") {
			return firstLines(g, 30)
		}
	}
	return firstLines(s, 30)
}

func encodeCases(cs []caseT) [][]byte {
	out := make([][]byte, len(cs))
	for i := range cs {
		out[i], _ = json.Marshal(cs[i])
	}
	return out
}

const asLimit = 12 << 30 // memory is not judged here: far above the 4 GiB a corrupted length can request

func Run(c *fw.Ctx) {
	if c.ReplayPath != "" {
		replay(c)
		return
	}
	c.Rule = "pristine stores (plain / flate / gzip / lzw / zlib value logs, embedded values, header v0/v1, tx and kv metadata, several chunks) closed cleanly; every byte of committed tx-log records and referenced value extents located from the commit log and the entries' (vOff,vLen); a case = some of those bytes altered on a copy (every single bit; PRNG 2-8 bits / byte / range; every numeric field to boundary and sibling values, every metadata byte; same-size splices of records, headers, entries, value references, value extents), index directory absent; in a child: Open, ReadTx, ReadValue, ReadTxHeader, ReadTxEntry, ExportTx, TxReader asc/desc from every start, LinearProof/DualProof for every pair, then Get/History of every key once the index is rebuilt, every read made twice on the same open store (value-log cache on in most stores; some value cases start with an unchecked ExportTx of every tx, not judged); each call must return an error or exactly the committed content (panic, confirmed hang, different content = violation); distinct = (store format x mutation kind:field class x read path x outcome class) observed"
	c.Assume("ground truth = what was passed to Commit and the acknowledged headers; exports, proofs and Get/History answers are those of a reopen of the pristine store (checked against the log)")
	c.Assume("(vOff,vLen) of an entry are a locator, not content: they are judged where they are used (ReadValue, ExportTx, Resolve); ExportTx answering 'values unavailable' (digests + truncation flag) is a detection, not different content")
	c.Assume("while the re-indexing reports an error the index may lag: Get/History must then return only genuine committed versions; once it reports all txs indexed the answers must equal the pristine ones")
	c.Assume("memory is not judged (children run with a 12 GiB address-space limit); allocation driven by a corrupted length belongs to C16")

	rn := &runner{c: c, outcomes: map[string]int{}}
	root := c.Dir("stores")
	var all []caseT
	perKind := map[string]int{}
	mr := c.Rand("c09/mutations")
	located := map[string]int{}
	for _, cf := range storeList(c) {
		dir := filepath.Join(root, cf.Name)
		g, err := build(cf, dir)
		if err != nil {
			c.Inconclusive(fmt.Sprintf("store %s: %v", cf.Name, err))
			continue
		}
		s := len(rn.gts)
		rn.gts = append(rn.gts, g)
		rn.dirs = append(rn.dirs, dir)
		located[cf.Name] = len(g.Bytes)
		m := &gen{g: g, s: s}
		var allTx []uint64
		for _, t := range g.Txs {
			allTx = append(allTx, t.Rec.ID)
		}
		m.cases = append(m.cases, caseT{S: s, Kind: "pristine", Field: "none", Tx: allTx, Note: "store " + cf.Name + ": unaltered copy (control)"})
		m.singleBits(cf.Full)
		m.fieldTargeted()
		m.trailerCombos(mr)
		m.splices(mr, c.N(300, 3000))
		m.multi(mr, c.N(250, 22000))
		if cf.VCache > 0 {
			// twins of value-extent cases that start with an unchecked export of every tx (what fills the value cache
			// without validation); every third one in quick
			step := c.N(3, 1)
			nv := 0
			for _, cs := range m.cases {
				if strings.HasPrefix(cs.Field, "val") {
					if nv++; nv%step == 0 {
						tw := cs
						tw.Pre = true
						tw.Note += " (after an unchecked ExportTx of every tx)"
						m.cases = append(m.cases, tw)
					}
				}
			}
		}
		for _, cs := range m.cases {
			k := cs.Kind
			if cs.Pre {
				k += "+unchecked-export-first"
			}
			perKind[k]++
		}
		all = append(all, m.cases...)
	}
	if len(rn.gts) == 0 {
		return
	}
	c.Set("located_record_and_value_bytes", located)
	c.Set("cases_planned", perKind)
	rn.setup, _ = json.Marshal(rn.dirs)

	// interleave the stores so that every shard sees all formats and the heavy cases are spread
	order := c.Rand("c09/order").Perm(len(all))
	shuffled := make([]caseT, len(all))
	for i, j := range order {
		shuffled[i] = all[j]
	}
	all = shuffled
	// development aids (never set by registered commands)
	if v := os.Getenv("VERIF_C09_KIND"); v != "" {
		var keep []caseT
		for _, cs := range all {
			if strings.Contains(v, cs.Kind) && (os.Getenv("VERIF_C09_FIELD") == "" || strings.Contains(cs.Field, os.Getenv("VERIF_C09_FIELD"))) {
				keep = append(keep, cs)
			}
		}
		all = keep
	}
	if v := os.Getenv("VERIF_C09_MAX"); v != "" {
		n := 0
		fmt.Sscan(v, &n)
		if n < len(all) {
			all = all[:n]
		}
	}

	c.RunCases("c09-read", rn.setup, encodeCases(all), fw.CasesOpts{Workers: 14, CaseTimout: 3 * time.Minute, ASLimit: asLimit}, rn.handle(all, false))

	// hang suspects: alone, fresh idle child each, 60 s limit
	sus := rn.suspects
	if len(sus) > 12 {
		c.Count("suspected_hangs_not_rerun", int64(len(sus)-12))
		sus = sus[:12]
	}
	for _, cs := range sus {
		one := []caseT{cs}
		c.RunCases("c09-read", rn.setup, encodeCases(one), fw.CasesOpts{Workers: 1, CaseTimout: 3 * time.Minute, ASLimit: asLimit}, rn.handle(one, true))
	}
	// leaked export lock: confirm once that the next ExportTx really never returns
	if rn.lockSuspect != nil {
		cs := *rn.lockSuspect
		one := []caseT{cs}
		confirmed := false
		c.RunCases("c09-read", rn.setup, encodeCases(one), fw.CasesOpts{Workers: 1, CaseTimout: 3 * time.Minute, ASLimit: asLimit}, func(rs fw.CaseResult) {
			var res result
			if json.Unmarshal(rs.Out, &res) == nil && res.Hung && res.Step == "exporttx-after-lock-left-held" {
				confirmed = true
				for i, d := range rn.lockCases {
					files := map[string][]byte(nil)
					if i == 0 {
						files = rn.witness(cs, map[string][]byte{"goroutines.txt": []byte(res.Stacks)})
						d += "\nconfirmed: run alone in a fresh idle process the next ExportTx did not return:\n" + hangStack(res.Stacks)
					}
					c.Violation("exporttx/hang-after-returning-with-export-lock-held", d, files)
				}
			}
		})
		if !confirmed {
			c.Inconclusive(fmt.Sprintf("%d cases left the export mutex locked but the solo re-run did not hang", len(rn.lockCases)))
		}
	}
	c.Set("outcomes_by_read_path", rn.outcomes)
}

func replay(c *fw.Ctx) {
	b, err := os.ReadFile(filepath.Join(c.ReplayPath, "case.json"))
	if err != nil {
		c.Inconclusive("replay: " + err.Error())
		return
	}
	var cs caseT
	if err := json.Unmarshal(b, &cs); err != nil {
		c.Inconclusive("replay: " + err.Error())
		return
	}
	cs.S = 0
	g, err := loadGT(c.ReplayPath)
	if err != nil {
		c.Inconclusive("replay: " + err.Error())
		return
	}
	// the pristine files stored next to the case win over the copy inside gt.gob
	for _, f := range g.Files {
		if d, err := os.ReadFile(filepath.Join(c.ReplayPath, "pristine__"+strings.ReplaceAll(f, string(filepath.Separator), "__"))); err == nil {
			g.Data[f] = d
		}
	}
	dir := c.Dir("replay-gt")
	if gb, err := os.ReadFile(filepath.Join(c.ReplayPath, "gt.gob")); err == nil {
		os.WriteFile(filepath.Join(dir, "gt.gob"), gb, 0o644)
	}
	rn := &runner{c: c, gts: []*groundTruth{g}, dirs: []string{dir}, outcomes: map[string]int{}}
	rn.setup, _ = json.Marshal(rn.dirs)
	cs.Confirm = true
	one := []caseT{cs}
	c.RunCases("c09-read", rn.setup, encodeCases(one), fw.CasesOpts{Workers: 1, CaseTimout: 3 * time.Minute, ASLimit: asLimit}, func(rs fw.CaseResult) {
		var res result
		json.Unmarshal(rs.Out, &res)
		fmt.Printf("replay [%s]\n  reindex=%s observed=%v\n", cs.Note, res.Index, res.Obs)
		if res.Hung && res.Step == "exporttx-after-lock-left-held" {
			c.Eval(1)
			c.Distinct("replay|exporttx|hang")
			c.Distinct("replay|exporttx|lock-left-held")
			c.Violation("exporttx/hang-after-returning-with-export-lock-held", "replay: "+cs.Note+"\n"+hangStack(res.Stacks), nil)
			return
		}
		rn.handle(one, true)(rs)
		c.Distinct("replay|" + cs.Kind)
		c.Distinct("replay|" + cs.Field + "|")
	})
}
