package c09

import (
	"bytes"
	"context"
	"encoding/binary"
	"errors"
	"fmt"
	"os"
	"path/filepath"
	"reflect"
	"regexp"
	"runtime"
	"runtime/debug"
	"strings"
	"sync"
	"syscall"
	"time"
	"unsafe"

	"github.com/codenotary/immudb/embedded/store"

	"verifharness/internal/ledger"
)

type edit struct {
	F int    `json:"f"` // index into groundTruth.Files
	P int64  `json:"p"`
	B []byte `json:"b"`
}

type caseT struct {
	S       int      `json:"s"` // store index
	Kind    string   `json:"k"` // bit | multi | field | splice | pristine
	Field   string   `json:"f"` // mutated field class
	Tx      []uint64 `json:"t"` // txs whose record or values are altered
	Note    string   `json:"n"`
	Edits   []edit   `json:"e"`
	Pre     bool     `json:"p,omitempty"` // first an ExportTx(skipIntegrityCheck=true) of every tx (its result is not judged)
	Confirm bool     `json:"c,omitempty"` // solo re-run: 60 s limit, no repair of a leaked lock
	Witness string   `json:"w,omitempty"` // replay: directory holding the pristine files
}

type finding struct {
	Sig    string
	Detail string
}

type result struct {
	Findings    []finding
	Obs         []string // "<read path>|<outcome class>" observed on the altered txs
	Hung        bool
	HangClass   string // suspected | deadlock: ... | still-running | allocation-bound
	Step        string
	Stacks      string
	Err         string // harness-side problem
	Index       string // caught-up | lagging | wait-timeout | not-reached
	Changed     int    // bytes that really differ from the pristine store
	Millis      int64  // diagnostic only
	HugeSkipped int
}

// hugeLen: calls that would make immudb allocate more than this from a corrupted length are not made
// (counted): on a loaded machine clearing hundreds of megabytes per call turns cases into suspected hangs,
// and memory is judged by C16, not here. Lengths up to 16 MiB (4000 times the largest value) are exercised.
const hugeLen = 16 << 20

type checker struct {
	g     *groundTruth
	cs    caseT
	dir   string
	res   *result
	mu    sync.Mutex
	step  string
	obs   map[string]bool
	sigs  map[string]bool
	hit   map[uint64]bool
	abort bool
	big   bool
	rep   string // "" on the first round of reads, "-repeated" on the second one over the same open store
}

func (k *checker) setStep(s string) { k.mu.Lock(); k.step = s; k.mu.Unlock() }
func (k *checker) getStep() string  { k.mu.Lock(); defer k.mu.Unlock(); return k.step }

func (k *checker) find(sig, f string, a ...any) {
	// a whole well-formed record sitting at another tx's place is one situation, whatever read path shows it
	if k.cs.Kind == "splice" && (k.cs.Field == "record" || k.cs.Field == "record-swap") && !strings.Contains(sig, "-after-splice") && !strings.Contains(sig, ".") {
		sig += "-after-record-splice"
	}
	if k.rep != "" && !strings.Contains(sig, ".") {
		if k.sigs[sig] {
			return // the first round of reads showed the same thing already
		}
		if i := strings.IndexByte(sig, '/'); i > 0 {
			sig = sig[:i] + k.rep + sig[i:]
		}
	}
	if k.sigs[sig] {
		return
	}
	k.sigs[sig] = true
	k.res.Findings = append(k.res.Findings, finding{Sig: sig, Detail: fmt.Sprintf(f, a...)})
}

// observe records the outcome class of a read path on an altered tx.
func (k *checker) observe(tx uint64, path, outcome string) {
	if tx != 0 && !k.hit[tx] {
		return
	}
	o := path + k.rep + "|" + outcome
	if !k.obs[o] {
		k.obs[o] = true
		k.res.Obs = append(k.res.Obs, o)
	}
}

var digitsRe = regexp.MustCompile(`[0-9]+|0x[0-9a-f]+`)
var spaceRe = regexp.MustCompile(`[^a-z_]+`)

// errClass reduces an error to its kind (numbers and paths removed).
func errClass(err error) string {
	s := strings.ToLower(err.Error())
	if i := strings.Index(s, "/var/tmp"); i >= 0 {
		s = s[:i]
	}
	s = digitsRe.ReplaceAllString(s, "")
	s = strings.Trim(spaceRe.ReplaceAllString(s, "-"), "-")
	if len(s) > 60 {
		s = s[:60]
	}
	return "error:" + s
}

var immudbFrame = regexp.MustCompile(`(?m)^(github\.com/codenotary/immudb/[^\s]+)\(`)

// panicSig reduces a Go crash text to "<first immudb frame>/<kind>".
func panicSig(text string) string {
	kind := "panic"
	for _, p := range [][2]string{
		{"index out of range", "index-out-of-range"}, {"slice bounds out of range", "slice-bounds"},
		{"nil pointer dereference", "nil-deref"}, {"integer divide by zero", "divide-by-zero"},
		{"makeslice:", "makeslice"}, {"out of memory", "out-of-memory"}, {"cannot allocate memory", "out-of-memory"},
		{"stack overflow", "stack-overflow"}, {"concurrent map", "concurrent-map"},
		{"all goroutines are asleep", "deadlock"}, {"unlock of unlocked", "unlock-of-unlocked-mutex"},
		{"negative", "negative-size"},
	} {
		if strings.Contains(text, p[0]) {
			kind = p[1]
			break
		}
	}
	fn := "unknown"
	for _, m := range immudbFrame.FindAllStringSubmatch(text, -1) {
		name := strings.TrimPrefix(m[1], "github.com/codenotary/immudb/")
		if strings.Contains(name, "verifhook") {
			continue
		}
		// the regexp stops at the first "(" of a method receiver: re-attach "(*T).Method"
		if i := strings.Index(text, m[0]); i >= 0 {
			line := text[i:]
			if j := strings.IndexByte(line, '\n'); j >= 0 {
				line = line[:j]
			}
			if j := strings.LastIndexByte(line, '('); j > 0 {
				name = strings.TrimPrefix(line[:j], "github.com/codenotary/immudb/")
			}
		}
		if j := strings.LastIndexByte(name, '/'); j >= 0 {
			name = name[j+1:]
		}
		fn = name
		break
	}
	return fn + "/" + kind
}

// call runs one read call; a panic becomes a finding and aborts the rest of the case.
func (k *checker) call(path string, f func()) (ok bool) {
	if k.abort {
		return false
	}
	k.setStep(path)
	defer func() {
		if r := recover(); r != nil {
			text := fmt.Sprintf("panic: %v\n%s", r, debug.Stack())
			k.find(panicSig(text), "%s panicked on [%s]: %v\n%s", path, k.cs.Note, r, firstLines(text, 24))
			k.observe(0, path, "panic")
			k.abort = true
			ok = false
		}
	}()
	f()
	return true
}

func firstLines(s string, n int) string {
	ls := strings.SplitN(s, "\n", n+1)
	if len(ls) > n {
		ls = ls[:n]
	}
	return strings.Join(ls, "\n")
}

// hdrDiff names the first header field that differs from the ground truth ("" = identical).
func (k *checker) hdrDiff(h *store.TxHeader, id uint64) string {
	w := k.g.hdr(int(id - 1))
	switch {
	case h.ID != w.ID:
		return "id-mismatch"
	case h.PrevAlh != w.PrevAlh:
		return "prevalh-differs"
	case h.Ts != w.Ts:
		return "ts-differs"
	case h.Version != w.Version:
		return "version-differs"
	case h.NEntries != w.NEntries:
		return "nentries-differs"
	case h.Eh != w.Eh:
		return "eh-differs"
	case h.BlTxID != w.BlTxID:
		return "bltxid-differs"
	case h.BlRoot != w.BlRoot:
		return "blroot-differs"
	}
	var a, b []byte
	if h.Metadata != nil {
		a = h.Metadata.Bytes()
	}
	if w.Metadata != nil {
		b = w.Metadata.Bytes()
	}
	if !bytes.Equal(a, b) {
		return "txmetadata-differs"
	}
	hb, err := h.Bytes()
	if err != nil || !bytes.Equal(hb, k.g.Txs[id-1].Rec.Hdr) {
		return "header-bytes-differ"
	}
	if h.Alh() != k.g.Txs[id-1].Rec.Alh {
		return "alh-differs"
	}
	return ""
}

func (k *checker) spliceSuffix(what string) string {
	if what == "id-mismatch" && k.cs.Kind == "splice" {
		return what + "-after-splice"
	}
	return what
}

// entryDiff compares the content of an entry (key, metadata, value digest); the value reference
// (vOff, vLen) is a locator, judged where it is used (ReadValue, ExportTx, Resolve).
func (k *checker) entryDiff(e *store.TxEntry, id uint64, i int) string {
	t := &k.g.Txs[id-1]
	w := t.Rec.Entries[i]
	switch {
	case !bytes.Equal(e.Key(), w.Key):
		return "key-differs"
	case !bytes.Equal(ledger.MDBytes(e.Metadata()), w.MD):
		return "kvmetadata-differs"
	case e.HVal() != t.HVal[i]:
		return "hval-differs"
	}
	return ""
}

// txDiff compares a tx read under id with the ground truth.
func (k *checker) txDiff(tx *store.Tx, id uint64) string {
	if d := k.hdrDiff(tx.Header(), id); d != "" {
		return d
	}
	t := &k.g.Txs[id-1]
	es := tx.Entries()
	if len(es) != len(t.Rec.Entries) {
		return "entry-count-differs"
	}
	for i, e := range es {
		if d := k.entryDiff(e, id, i); d != "" {
			return d
		}
	}
	return ""
}

func refDiffers(e *store.TxEntry, t *gtTx, i int) bool {
	return e.VLen() != t.VLen[i] || e.VOff() != t.VOff[i]
}

// probeValBsMux reports whether ExportTx returned with the store's export-buffer mutex still held
// (no ExportTx is in progress in this process: the next ExportTx would block forever). State, not time.
func probeValBsMux(st *store.ImmuStore, repair bool) (leaked bool) {
	defer func() { recover() }()
	v := reflect.ValueOf(st).Elem().FieldByName("_valBsMux")
	if !v.IsValid() || v.Type() != reflect.TypeOf(sync.Mutex{}) {
		return false
	}
	mu := (*sync.Mutex)(unsafe.Pointer(v.UnsafeAddr()))
	if mu.TryLock() {
		mu.Unlock()
		return false
	}
	if repair {
		mu.Unlock()
	}
	return true
}

func (k *checker) run() {
	g := k.g
	n := uint64(len(g.Txs))
	lg := newIdxLogger()
	var st *store.ImmuStore
	var err error
	if !k.call("open", func() { st, err = store.Open(k.dir, g.Cfg.options().WithLogger(lg)) }) {
		return
	}
	if err != nil {
		k.observe(0, "open", errClass(err))
		k.res.Index = "not-reached"
		return
	}
	k.observe(0, "open", "ok")
	defer func() {
		k.setStep("close")
		func() {
			defer func() {
				if r := recover(); r != nil {
					text := fmt.Sprintf("panic: %v\n%s", r, debug.Stack())
					k.find(panicSig(text), "Close panicked on [%s]: %v\n%s", k.cs.Note, r, firstLines(text, 24))
				}
			}()
			st.Close()
		}()
	}()
	if c := st.LastCommittedTxID(); c != n {
		k.find("open/committed-count-differs", "after Open the store reports %d committed txs, %d were committed [%s]", c, n, k.cs.Note)
		return
	}

	tx := store.NewTx(8, 32)
	tx2 := store.NewTx(8, 32)
	if k.cs.Pre {
		// what a replica export does: unchecked reads first (not judged); the checked reads that follow on
		// the same open store must still be error-or-identical
		k.setStep("unchecked-exporttx")
		panicked := false
		func() {
			defer func() {
				if r := recover(); r != nil {
					panicked = true
				}
			}()
			for id := uint64(1); id <= n; id++ {
				st.ExportTx(id, false, true, tx2)
			}
		}()
		if panicked {
			k.observe(0, "unchecked-exporttx", "panic(not-judged)")
			return
		}
		if probeValBsMux(st, true) {
			k.observe(0, "unchecked-exporttx", "lock-left-held(not-judged,released)")
		}
	}
	// every read is made twice on the same open store: what a first read leaves behind (caches) must not
	// change the answer of the second
	for _, k.rep = range []string{"", "-repeated"} {
		for id := uint64(1); id <= n && !k.abort; id++ {
			t := &g.Txs[id-1]
			// ReadTx
			var rerr error
			k.call("readtx", func() { rerr = st.ReadTx(id, false, tx) })
			if k.abort {
				return
			}
			readOK := false
			if rerr != nil {
				k.observe(id, "readtx", errClass(rerr))
			} else if d := k.txDiff(tx, id); d != "" {
				k.observe(id, "readtx", "DIFFERENT:"+d)
				k.find("readtx/"+k.spliceSuffix(d), "ReadTx(%d) returned without error a tx that differs from the committed one (%s; header id %d) [%s]", id, d, tx.Header().ID, k.cs.Note)
			} else {
				readOK = true
				o := "identical"
				for i, e := range tx.Entries() {
					if refDiffers(e, t, i) {
						o = "identical-content/value-ref-differs"
					}
				}
				k.observe(id, "readtx", o)
			}
			// ReadValue of every entry
			if readOK {
				for i, e := range tx.Entries() {
					var v []byte
					var verr error
					if e.VLen() > hugeLen {
						k.res.HugeSkipped++
						k.observe(id, "readvalue", "not-called(length-over-16MiB)")
						continue
					}
					if e.VLen() > 4<<20 {
						k.big = true
					}
					k.call("readvalue", func() { v, verr = st.ReadValue(e) })
					if k.abort {
						return
					}
					w := t.Rec.Entries[i]
					switch {
					case verr != nil:
						o := errClass(verr)
						if t.ReadValErr[i] != "" && !refDiffers(e, t, i) {
							o = "identical(" + o + ")"
						}
						k.observe(id, "readvalue", o)
					case bytes.Equal(v, w.Value):
						k.observe(id, "readvalue", "identical")
					case e.VLen() == 0 && len(v) == 0:
						k.observe(id, "readvalue", "DIFFERENT:vlen-zero-served-empty")
						k.find("readvalue/vlen-zero-served-empty", "ReadValue(tx %d, entry %d %q) returned an empty value without error; the committed value has %d bytes (value length read as 0, digest not compared) [%s]", id, i, w.Key, len(w.Value), k.cs.Note)
					default:
						k.observe(id, "readvalue", "DIFFERENT:value")
						k.find("readvalue/different-value", "ReadValue(tx %d, entry %d %q) returned %d bytes that differ from the committed %d bytes without error [%s]", id, i, w.Key, len(v), len(w.Value), k.cs.Note)
					}
				}
			}
			// ReadTxHeader
			var h *store.TxHeader
			k.call("readtxheader", func() { h, rerr = st.ReadTxHeader(id, false, false) })
			if k.abort {
				return
			}
			if rerr != nil {
				k.observe(id, "readtxheader", errClass(rerr))
			} else if d := k.hdrDiff(h, id); d != "" {
				k.observe(id, "readtxheader", "DIFFERENT:"+d)
				k.find("readtxheader/"+k.spliceSuffix(d), "ReadTxHeader(%d) returned without error a header that differs from the committed one (%s; header id %d) [%s]", id, d, h.ID, k.cs.Note)
			} else {
				k.observe(id, "readtxheader", "identical")
			}
			// ReadTxEntry of every committed key
			for i, w := range t.Rec.Entries {
				var e *store.TxEntry
				k.call("readtxentry", func() { e, h, rerr = st.ReadTxEntry(id, w.Key, false) })
				if k.abort {
					return
				}
				if rerr != nil {
					k.observe(id, "readtxentry", errClass(rerr))
					continue
				}
				d := k.hdrDiff(h, id)
				if d == "" {
					d = k.entryDiff(e, id, i)
				}
				if d != "" {
					k.observe(id, "readtxentry", "DIFFERENT:"+d)
					k.find("readtxentry/"+k.spliceSuffix(d), "ReadTxEntry(%d, %q) returned without error content that differs from the committed one (%s) [%s]", id, w.Key, d, k.cs.Note)
					continue
				}
				k.observe(id, "readtxentry", "identical")
			}
			// ExportTx
			var xb []byte
			if readOK {
				huge := false
				for _, e := range tx.Entries() {
					huge = huge || e.VLen() > hugeLen
				}
				if huge {
					k.res.HugeSkipped++
					k.observe(id, "exporttx", "not-called(length-over-16MiB)")
					continue
				}
			}
			k.call("exporttx", func() { xb, rerr = st.ExportTx(id, false, false, tx2) })
			if k.abort {
				return
			}
			switch {
			case rerr != nil:
				k.observe(id, "exporttx", errClass(rerr))
			case bytes.Equal(xb, t.Export):
				k.observe(id, "exporttx", "identical")
			case bytes.Equal(xb, t.ExportTrunc):
				// the export says: values not available (digests only, truncation flag set); nothing is served as a value
				k.observe(id, "exporttx", "values-reported-unavailable")
			default:
				k.observe(id, "exporttx", "DIFFERENT:bytes")
				k.find("exporttx/different-bytes", "ExportTx(%d) returned without error %d bytes that differ from the export of the committed tx (%d bytes; first difference at %d) [%s]", id, len(xb), len(t.Export), firstDiff(xb, t.Export), k.cs.Note)
			}
			if probeValBsMux(st, !k.cs.Confirm) {
				k.observe(id, "exporttx", "LOCK-LEFT-HELD("+fmt.Sprint(rerr != nil)+")")
				if k.cs.Confirm {
					// confirm the consequence for real: the next export never returns (the watchdog reports the hang)
					k.setStep("exporttx-after-lock-left-held")
					st.ExportTx(id, false, false, tx2)
					return
				}
				k.find("exporttx/returns-holding-export-lock", "ExportTx(%d) returned (%v) with the store's export-buffer mutex still locked: every later ExportTx blocks forever [%s]", id, rerr, k.cs.Note)
			}
		}
	}
	k.rep = ""
	if k.abort {
		return
	}

	// TxReader ascending / descending from every start
	for _, desc := range []bool{false, true} {
		path := "txreader-asc"
		if desc {
			path = "txreader-desc"
		}
		for start := uint64(1); start <= n; start++ {
			var rd *store.TxReader
			var rerr error
			k.call(path, func() { rd, rerr = st.NewTxReader(start, desc, tx) })
			if k.abort {
				return
			}
			if rerr != nil {
				k.observe(0, path, errClass(rerr))
				continue
			}
			id := start
			for id >= 1 && id <= n {
				var rt *store.Tx
				k.call(path, func() { rt, rerr = rd.Read() })
				if k.abort {
					return
				}
				if rerr != nil {
					if errors.Is(rerr, store.ErrNoMoreEntries) {
						k.observe(id, path, "DIFFERENT:ends-early")
						k.find(path+"/ends-before-last-committed-tx", "TxReader started at %d reports no more entries at tx %d although %d txs are committed [%s]", start, id, n, k.cs.Note)
					} else {
						k.observe(id, path, errClass(rerr))
					}
					break
				}
				if d := k.txDiff(rt, id); d != "" {
					k.observe(id, path, "DIFFERENT:"+d)
					if id != start {
						// not the first tx of the iteration: the reader had the previous tx's alh to compare with
						d += "-mid-iteration"
					}
					k.find(path+"/"+k.spliceSuffix(strings.TrimSuffix(d, "-mid-iteration"))+strings.TrimPrefix(d, strings.TrimSuffix(d, "-mid-iteration")), "TxReader (start %d) returned at position %d without error a tx that differs from the committed one (%s; header id %d) [%s]", start, id, d, rt.Header().ID, k.cs.Note)
					break
				}
				k.observe(id, path, "identical")
				if desc {
					id--
				} else {
					id++
				}
			}
		}
	}

	// proofs against the ground-truth headers / alh
	for i := uint64(1); i <= n; i++ {
		for j := i; j <= n; j++ {
			var lp *store.LinearProof
			var dp *store.DualProof
			var perr error
			k.call("linearproof", func() { lp, perr = st.LinearProof(i, j) })
			if k.abort {
				return
			}
			affected := uint64(0)
			for id := i; id <= j; id++ {
				if k.hit[id] {
					affected = id
				}
			}
			obsTx := affected
			if affected == 0 {
				obsTx = ^uint64(0) // not an altered range: outcome not recorded as an observation of the mutation
			}
			switch {
			case perr != nil:
				k.observe(obsTx, "linearproof", errClass(perr))
			case linDigest(lp) == g.Proofs[fmt.Sprintf("lin/%d/%d", i, j)]:
				k.observe(obsTx, "linearproof", "identical")
			default:
				ver := store.VerifyLinearProof(lp, i, j, g.Txs[i-1].Rec.Alh, g.Txs[j-1].Rec.Alh)
				k.observe(obsTx, "linearproof", "DIFFERENT")
				k.find("linearproof/different-terms", "LinearProof(%d,%d) returned without error terms that differ from the proof over the committed txs (verifies against the committed alh: %v) [%s]", i, j, ver, k.cs.Note)
			}
			k.call("dualproof", func() { dp, perr = st.DualProof(g.hdr(int(i-1)), g.hdr(int(j-1))) })
			if k.abort {
				return
			}
			switch {
			case perr != nil:
				k.observe(obsTx, "dualproof", errClass(perr))
			case dualDigest(dp) == g.Proofs[fmt.Sprintf("dual/%d/%d", i, j)]:
				k.observe(obsTx, "dualproof", "identical")
			default:
				ver := store.VerifyDualProof(dp, i, j, g.Txs[i-1].Rec.Alh, g.Txs[j-1].Rec.Alh)
				k.observe(obsTx, "dualproof", "DIFFERENT")
				k.find("dualproof/different-proof", "DualProof(%d,%d) returned without error a proof that differs from the one over the committed txs (verifies against the committed alh: %v) [%s]", i, j, ver, k.cs.Note)
			}
		}
	}

	k.index(st, lg)
}

func firstDiff(a, b []byte) int {
	for i := 0; i < len(a) && i < len(b); i++ {
		if a[i] != b[i] {
			return i
		}
	}
	if len(a) < len(b) {
		return len(a)
	}
	return len(b)
}

// index: the index directory was deleted, so the index is rebuilt from the (altered) log. When the
// indexer reports that it cannot read a tx, the index legitimately lags: then a Get may only return a
// genuine committed version; when it has caught up, the answers must be the pristine ones.
func (k *checker) index(st *store.ImmuStore, lg *idxLogger) {
	g := k.g
	n := uint64(len(g.Txs))
	k.setStep("wait-for-indexing")
	ctx, cancel := context.WithCancel(context.Background())
	defer cancel()
	done := make(chan error, 1)
	go func() { done <- st.WaitForIndexingUpto(ctx, n) }()
	caughtUp := false
	select {
	case err := <-done:
		caughtUp = err == nil
		k.res.Index = "caught-up"
		if err != nil {
			k.res.Index = "lagging"
		}
	case <-lg.errs:
		k.res.Index = "lagging"
	case <-time.After(15 * time.Second):
		k.res.Index = "wait-timeout" // treated as lagging: only the weaker check applies
	}
	cancel()
	k.observe(0, "reindex", k.res.Index)

	// entry of key in tx id
	entryOf := func(key []byte, id uint64) (int, bool) {
		if id < 1 || id > n {
			return 0, false
		}
		for i, e := range g.Txs[id-1].Rec.Entries {
			if bytes.Equal(e.Key, key) {
				return i, true
			}
		}
		return 0, false
	}
	// checkRef: a returned reference must be a genuine committed version of the key
	checkRef := func(path string, key []byte, ref store.ValueRef) (ok bool) {
		id := ref.Tx()
		i, found := entryOf(key, id)
		if !found {
			k.observe(0, path, "DIFFERENT:not-a-version")
			k.find(path+"/version-never-committed", "%s(%q) returned tx %d, which holds no entry of that key [%s]", path, key, id, k.cs.Note)
			return false
		}
		t := &g.Txs[id-1]
		w := t.Rec.Entries[i]
		var kvmd, txmd []byte
		if ref.KVMetadata() != nil {
			kvmd = ref.KVMetadata().Bytes()
		}
		if ref.TxMetadata() != nil {
			txmd = ref.TxMetadata().Bytes()
		}
		switch {
		case ref.HVal() != t.HVal[i]:
			k.observe(id, path, "DIFFERENT:hval")
			k.find(path+"/hval-differs", "%s(%q) returned for tx %d a value digest that differs from the committed one [%s]", path, key, id, k.cs.Note)
			return false
		case !bytes.Equal(kvmd, w.MD):
			k.observe(id, path, "DIFFERENT:kvmetadata")
			k.find(path+"/kvmetadata-differs", "%s(%q) returned for tx %d kv metadata %x, committed %x [%s]", path, key, id, kvmd, w.MD, k.cs.Note)
			return false
		case !bytes.Equal(txmd, t.TxMD):
			k.observe(id, path, "DIFFERENT:txmetadata")
			k.find(path+"/txmetadata-differs", "%s(%q) returned for tx %d tx metadata %x, committed %x [%s]", path, key, id, txmd, t.TxMD, k.cs.Note)
			return false
		}
		if ref.Len() > hugeLen {
			k.res.HugeSkipped++
			k.observe(id, path+"+resolve", "not-called(length-over-16MiB)")
			return true
		}
		if ref.Len() > 4<<20 {
			k.big = true
		}
		var v []byte
		var verr error
		k.call(path+"+resolve", func() { v, verr = ref.Resolve() })
		if k.abort {
			return false
		}
		switch {
		case verr != nil:
			o := errClass(verr)
			if t.ReadValErr[i] != "" && errors.Is(verr, store.ErrExpiredEntry) {
				o = "identical(" + o + ")" // the pristine store withholds this (expired) value too
			}
			k.observe(id, path+"+resolve", o)
		case bytes.Equal(v, w.Value):
			k.observe(id, path+"+resolve", "identical")
		case ref.Len() == 0 && len(v) == 0:
			k.observe(id, path+"+resolve", "DIFFERENT:vlen-zero-served-empty")
			k.find(path+"/vlen-zero-served-empty", "%s(%q) resolved tx %d to an empty value without error; the committed value has %d bytes [%s]", path, key, id, len(w.Value), k.cs.Note)
		default:
			k.observe(id, path+"+resolve", "DIFFERENT:value")
			k.find(path+"/wrong-value", "%s(%q) resolved tx %d to %d bytes that differ from the committed value without error [%s]", path, key, id, len(v), k.cs.Note)
		}
		return true
	}

	defer func() { k.rep = "" }()
	for _, k.rep = range []string{"", "-repeated"} {
		for _, gk := range g.Keys {
			if k.abort {
				return
			}
			var ref store.ValueRef
			var err error
			k.call("get-after-reindex", func() { ref, err = st.Get(context.Background(), gk.Key) })
			if k.abort {
				return
			}
			last := uint64(0)
			if len(gk.Versions) > 0 {
				last = gk.Versions[len(gk.Versions)-1]
			}
			switch {
			case err != nil:
				o := errClass(err)
				if caughtUp && gk.GetErr == "" && errors.Is(err, store.ErrKeyNotFound) {
					k.observe(last, "get-after-reindex", "DIFFERENT:key-not-found")
					k.find("get-after-reindex/key-missing-index-caught-up", "Get(%q) says key not found although the index reports having indexed all %d txs and the committed log holds the key in tx %d [%s]", gk.Key, n, last, k.cs.Note)
				} else {
					if err.Error() == gk.GetErr {
						o = "identical(" + o + ")"
					}
					k.observe(last, "get-after-reindex", o)
				}
			default:
				if !checkRef("get-after-reindex", gk.Key, ref) {
					break
				}
				switch {
				case caughtUp && gk.GetErr != "":
					k.observe(last, "get-after-reindex", "DIFFERENT:serves-filtered")
					k.find("get-after-reindex/serves-version-the-committed-log-hides", "Get(%q) returned tx %d; on the committed data it answers %q [%s]", gk.Key, ref.Tx(), gk.GetErr, k.cs.Note)
				case caughtUp && (ref.Tx() != gk.GetTx || ref.HC() != gk.GetHC):
					k.observe(last, "get-after-reindex", "DIFFERENT:stale")
					k.find("get-after-reindex/stale-version-index-caught-up", "Get(%q) returned tx %d (hc %d) although the index reports having indexed all %d txs; the committed log says tx %d (hc %d) [%s]", gk.Key, ref.Tx(), ref.HC(), n, gk.GetTx, gk.GetHC, k.cs.Note)
				case caughtUp:
					k.observe(last, "get-after-reindex", "identical")
				default:
					k.observe(ref.Tx(), "get-after-reindex", "genuine-version(index-lagging)")
				}
			}
			var refs []store.ValueRef
			k.call("history-after-reindex", func() { refs, _, err = st.History(gk.Key, 0, false, 100) })
			if k.abort {
				return
			}
			if err != nil {
				o := errClass(err)
				if err.Error() == gk.HistErr {
					o = "identical(" + o + ")"
				}
				if caughtUp && gk.HistErr == "" {
					k.observe(last, "history-after-reindex", "DIFFERENT:error-on-caught-up-index")
					if errors.Is(err, store.ErrKeyNotFound) {
						k.find("history-after-reindex/key-missing-index-caught-up", "History(%q) says key not found although the index reports having indexed all %d txs [%s]", gk.Key, n, k.cs.Note)
					}
				} else {
					k.observe(last, "history-after-reindex", o)
				}
				continue
			}
			var got []uint64
			for _, r := range refs {
				got = append(got, r.Tx())
			}
			isPrefix := len(got) <= len(gk.Versions)
			for i := 0; isPrefix && i < len(got); i++ {
				isPrefix = got[i] == gk.Versions[i]
			}
			switch {
			case !isPrefix:
				k.observe(last, "history-after-reindex", "DIFFERENT:versions")
				k.find("history-after-reindex/versions-differ", "History(%q) returned txs %v, the committed log says %v [%s]", gk.Key, got, gk.Versions, k.cs.Note)
			case caughtUp && len(got) != len(gk.Versions):
				k.observe(last, "history-after-reindex", "DIFFERENT:short")
				k.find("history-after-reindex/versions-missing-index-caught-up", "History(%q) returned txs %v although the index reports having indexed all %d txs; the committed log says %v [%s]", gk.Key, got, n, gk.Versions, k.cs.Note)
			default:
				for _, r := range refs {
					if !checkRef("history-after-reindex", gk.Key, r) || k.abort {
						break
					}
				}
				if caughtUp {
					k.observe(last, "history-after-reindex", "identical")
				} else {
					k.observe(last, "history-after-reindex", "genuine-prefix(index-lagging)")
				}
			}
		}
	}
}

// materialize writes the pristine files with the edits applied.
func materialize(g *groundTruth, dir string, edits []edit) (changed int, err error) {
	os.RemoveAll(dir)
	patched := map[int][]byte{}
	for _, e := range edits {
		if e.F < 0 || e.F >= len(g.Files) {
			return 0, fmt.Errorf("edit: file index %d", e.F)
		}
		b, ok := patched[e.F]
		if !ok {
			b = append([]byte(nil), g.Data[g.Files[e.F]]...)
			patched[e.F] = b
		}
		if e.P < 0 || e.P+int64(len(e.B)) > int64(len(b)) {
			return 0, fmt.Errorf("edit beyond %s", g.Files[e.F])
		}
		copy(b[e.P:], e.B)
	}
	made := map[string]bool{}
	for i, rel := range g.Files {
		p := filepath.Join(dir, rel)
		if d := filepath.Dir(p); !made[d] {
			if err := os.MkdirAll(d, 0o755); err != nil {
				return 0, err
			}
			made[d] = true
		}
		b := g.Data[rel]
		if pb, ok := patched[i]; ok {
			for j := range pb {
				if pb[j] != b[j] {
					changed++
				}
			}
			b = pb
		}
		if err := os.WriteFile(p, b, 0o644); err != nil {
			return 0, err
		}
	}
	return changed, nil
}

// execCase runs one case under a watchdog. Limits are generous (a case takes tens of milliseconds); a
// case that exceeds them is only *suspected* to hang and is re-run alone by the parent.
func execCase(g *groundTruth, cs caseT, dir string) *result {
	res := &result{}
	cpu0 := cpuMillis()
	changed, err := materialize(g, dir, cs.Edits)
	if err != nil {
		res.Err = "materialize: " + err.Error()
		return res
	}
	res.Changed = changed
	k := &checker{g: g, cs: cs, dir: dir, res: res, obs: map[string]bool{}, sigs: map[string]bool{}, hit: map[uint64]bool{}}
	for _, id := range cs.Tx {
		k.hit[id] = true
	}
	done := make(chan struct{})
	go func() {
		defer close(done)
		k.run()
	}()
	finished := func() *result {
		res.Millis = cpuMillis() - cpu0
		os.RemoveAll(dir)
		var ms runtime.MemStats
		runtime.ReadMemStats(&ms)
		if k.big || ms.HeapIdle-ms.HeapReleased > 256<<20 {
			debug.FreeOSMemory() // a corrupted length made the store allocate gigabytes: give them back before the next case
		}
		return res
	}
	hung := func(class string, dumps ...string) *result {
		// the goroutine stays behind (it may hold the store open); nothing it observed so far is reported
		return &result{Hung: true, HangClass: class, Step: k.getStep(), Stacks: strings.Join(dumps, "\n======== 2 s later ========\n"), Changed: changed}
	}
	if !cs.Confirm {
		// first pass: only a suspicion, decided by the solo re-run
		select {
		case <-done:
			return finished()
		case <-time.After(45 * time.Second):
			return hung("suspected", allStacks())
		}
	}
	// solo re-run in a fresh idle process: a deadlock is decided from state (the case's goroutine parked in the
	// same lock/channel wait in two dumps 2 s apart while no goroutine is runnable inside immudb); a goroutine
	// that is still running is given 120 s (the expected duration is milliseconds)
	start := time.Now()
	for {
		select {
		case <-done:
			return finished()
		case <-time.After(5 * time.Second):
		}
		if time.Since(start) < 20*time.Second {
			continue
		}
		d1 := allStacks()
		select {
		case <-done:
			return finished()
		case <-time.After(2 * time.Second):
		}
		d2 := allStacks()
		if w := deadlocked(d1, d2); w != "" {
			return hung("deadlock: "+w, d1, d2)
		}
		if time.Since(start) > 120*time.Second {
			if allocating(d1) || allocating(d2) {
				return hung("allocation-bound", d1, d2)
			}
			return hung("still-running", d1, d2)
		}
	}
}

func allStacks() string {
	buf := make([]byte, 2<<20)
	return string(buf[:runtime.Stack(buf, true)])
}

type gor struct {
	state string
	body  string
}

var gorHead = regexp.MustCompile(`^goroutine \d+ \[([^\],]+)`)

func parseStacks(dump string) (caseG *gor, all []gor) {
	for _, blk := range strings.Split(dump, "\n\n") {
		m := gorHead.FindStringSubmatch(blk)
		if m == nil {
			continue
		}
		all = append(all, gor{state: m[1], body: blk})
		if strings.Contains(blk, "c09.(*checker).run") {
			caseG = &all[len(all)-1]
		}
	}
	return
}

func blockedState(s string) bool {
	switch s {
	case "sync.Mutex.Lock", "sync.RWMutex.Lock", "sync.RWMutex.RLock", "semacquire", "sync.Cond.Wait", "chan receive", "chan send", "select", "sync.WaitGroup.Wait", "chan receive (nil chan)", "chan send (nil chan)", "select (no cases)":
		return true
	}
	return false
}

func topFrames(body string, n int) string {
	ls := strings.Split(body, "\n")
	var fs []string
	for _, l := range ls[1:] {
		if !strings.HasPrefix(l, "\t") {
			if i := strings.LastIndexByte(l, '('); i > 0 {
				l = l[:i]
			}
			fs = append(fs, l)
		}
		if len(fs) == n {
			break
		}
	}
	return strings.Join(fs, " < ")
}

// deadlocked: the case's goroutine is parked in the same wait in both dumps and no goroutine is
// running/runnable inside immudb in either dump. Returns a description, "" otherwise.
func deadlocked(d1, d2 string) string {
	c1, a1 := parseStacks(d1)
	c2, a2 := parseStacks(d2)
	if c1 == nil || c2 == nil || !blockedState(c1.state) || c1.state != c2.state || topFrames(c1.body, 8) != topFrames(c2.body, 8) {
		return ""
	}
	// the wait must be inside immudb (the monitor's own bounded waits do not count)
	inImmudb := false
	for _, fr := range strings.Split(topFrames(c1.body, 12), " < ") {
		if strings.HasPrefix(fr, "runtime.") || strings.HasPrefix(fr, "sync.") || strings.HasPrefix(fr, "internal/") || strings.HasPrefix(fr, "time.") || strings.HasPrefix(fr, "context.") {
			continue
		}
		inImmudb = strings.HasPrefix(fr, "github.com/codenotary/immudb/")
		break
	}
	if !inImmudb {
		return ""
	}
	for _, a := range [][]gor{a1, a2} {
		for _, g := range a {
			if (g.state == "running" || g.state == "runnable" || g.state == "syscall") && strings.Contains(g.body, "github.com/codenotary/immudb/") && !strings.Contains(g.body, "c09.allStacks") {
				return ""
			}
		}
	}
	return "parked in [" + c1.state + "] at " + topFrames(c1.body, 6)
}

func allocating(dump string) bool {
	c, _ := parseStacks(dump)
	if c == nil {
		return false
	}
	top := topFrames(c.body, 6)
	return strings.Contains(top, "runtime.mallocgc") || strings.Contains(top, "runtime.memclr") || strings.Contains(top, "runtime.makeslice") || strings.Contains(top, "runtime.(*mheap)") || strings.Contains(top, "runtime.growslice")
}

// cpuMillis: CPU time used by this process so far (diagnostic, never part of a verdict).
func cpuMillis() int64 {
	var ru syscall.Rusage
	syscall.Getrusage(syscall.RUSAGE_SELF, &ru)
	return (ru.Utime.Sec+ru.Stime.Sec)*1000 + int64(ru.Utime.Usec+ru.Stime.Usec)/1000
}

func u16(b []byte) int { return int(binary.BigEndian.Uint16(b)) }
