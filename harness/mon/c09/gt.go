package c09

import (
	"bytes"
	"context"
	"crypto/sha256"
	"encoding/binary"
	"encoding/gob"
	"errors"
	"fmt"
	"os"
	"path/filepath"
	"sort"
	"strings"
	"time"

	"github.com/codenotary/immudb/embedded/appendable"
	"github.com/codenotary/immudb/embedded/store"

	"verifharness/internal/fw"
	"verifharness/internal/ledger"
	"verifharness/internal/sth"
)

// storeCfg describes one pristine store (a pure function of seed and tier).
type storeCfg struct {
	Name        string
	Embedded    bool
	Compression int // appendable.NoCompression .. ZLibCompression
	HdrVersion  int
	IOConc      int
	FileSize    int
	NTx         int
	VCache      int  // value-log cache entries (0 = off)
	TxCache     int  // tx-log cache entries (0 = the store's default)
	Full        bool // every single bit of every record/value byte is flipped; otherwise value extents + value references only
	Seed        int64
}

var compNames = map[int]string{
	appendable.NoCompression: "plain", appendable.FlateCompression: "flate", appendable.GZipCompression: "gzip",
	appendable.LZWCompression: "lzw", appendable.ZLibCompression: "zlib",
}

// format is the "store format" component of the distinct fingerprints.
func (cf storeCfg) format() string {
	v := compNames[cf.Compression]
	if cf.Embedded {
		v = "embedded"
	}
	return fmt.Sprintf("%s/hdr-v%d/vlogs%d/vcache%d", v, cf.HdrVersion, cf.IOConc, cf.VCache)
}

func (cf storeCfg) options() *store.Options {
	o := sth.SmallOpts().
		WithMaxTxEntries(8).WithMaxKeyLen(32).WithMaxValueLen(512).WithMaxConcurrency(2).
		WithEmbeddedValues(cf.Embedded).
		WithCompressionFormat(cf.Compression).
		WithWriteTxHeaderVersion(cf.HdrVersion).
		WithMaxIOConcurrency(cf.IOConc).
		WithFileSize(cf.FileSize).WithWriteBufferSize(1024).
		WithVLogCacheSize(cf.VCache).
		WithMaxActiveTransactions(8).WithMaxWaitees(8)
	if cf.TxCache > 0 {
		o.WithTxLogCacheSize(cf.TxCache)
	}
	o.WithIndexOptions(o.IndexOpts.WithMaxNodeSize(1024).WithCacheSize(32).WithMaxActiveSnapshots(4).WithRenewSnapRootAfter(0).WithFlushBufferSize(1 << 14))
	o.WithAHTOptions(o.AHTOpts.WithWriteBufferSize(4096)) // the default (16 MiB per file, three files) costs more to clear than the whole case
	return o
}

// field is one contiguous (logical) field of a committed record or value extent.
type field struct {
	Tx    uint64
	Entry int    // -1: header / trailer field
	Class string // mutated field class: hdr.id, e.vlen, val, ...
	Num   bool   // numeric field (length, offset, count, version, id, timestamp)
	Lo    int    // index range [Lo,Hi) into groundTruth.Bytes
	Hi    int
}

// tbyte is the physical place of one target byte.
type tbyte struct {
	F int   // index into groundTruth.Files
	P int64 // offset inside that file
}

type gtKey struct {
	Key      []byte
	Versions []uint64 // ids of the txs holding an indexable entry of the key, ascending
	// what the pristine store answers once the index is rebuilt
	GetErr  string
	GetTx   uint64
	GetHC   uint64
	HistErr string
	HistTxs []uint64
}

type gtTx struct {
	Rec         ledger.Rec // id, header bytes, alh, entries (key, value, kv metadata), sha of the export
	TxMD        []byte
	VLen        []int
	VOff        []int64
	HVal        [][32]byte
	ReadValErr  []string // what ReadValue answers on the pristine store ("" = the value)
	Export      []byte
	ExportTrunc []byte // the form ExportTx produces when it finds the values of the tx unavailable (digests instead of values)
	RecOff      int64
	RecSize     int
}

type groundTruth struct {
	Cfg    storeCfg
	Files  []string          // relative paths of every file of the pristine directory (index excluded)
	Data   map[string][]byte // their pristine content
	Txs    []gtTx
	Keys   []gtKey
	Proofs map[string][32]byte // "lin/i/j", "dual/i/j" -> digest of the proof produced by the pristine store
	Fields []field
	Bytes  []tbyte
}

func (g *groundTruth) fileIndex(rel string) int {
	for i, f := range g.Files {
		if f == rel {
			return i
		}
	}
	return -1
}

var farFuture = time.Date(2100, 1, 1, 0, 0, 0, 0, time.UTC)
var farPast = time.Date(2001, 1, 1, 0, 0, 0, 0, time.UTC)

func kvmdKind(k int) *store.KVMetadata {
	md := store.NewKVMetadata()
	switch k {
	case 1:
		md.AsDeleted(true)
	case 2:
		md.ExpiresAt(farFuture)
	case 3:
		md.ExpiresAt(farPast)
	case 4:
		md.AsNonIndexable(true)
	case 5:
		md.AsDeleted(true)
		md.ExpiresAt(farFuture)
	default:
		return nil
	}
	return md
}

type planEntry struct {
	Key   []byte
	Value []byte
	MD    int
}

type planTx struct {
	TxMD    int // 0 none, 1 extra, 2 truncated-tx-id, 3 both
	Entries []planEntry
}

// plan generates the committed history of a store: pairs of transactions of the same shape (so that
// same-size records exist for the splices), repeated keys (history), all value-length classes.
func plan(cf storeCfg) []planTx {
	r := fw.NewRand(cf.Seed, "c09/plan/"+cf.Name)
	vlens := []int{0, 1, 7, 24, 24, 61, 130}
	var txs []planTx
	uniq := 0
	for len(txs) < cf.NTx {
		ne := 1 + r.IntN(3)
		if len(txs) == 0 {
			ne = 3
		}
		shape := planTx{}
		if cf.HdrVersion == 1 {
			shape.TxMD = r.IntN(4)
		}
		type slot struct{ klen, md, vlen int }
		var slots []slot
		for i := 0; i < ne; i++ {
			s := slot{klen: 2 + r.IntN(4), vlen: vlens[r.IntN(len(vlens))]}
			if cf.HdrVersion == 1 && r.IntN(2) == 0 {
				s.md = 1 + r.IntN(5)
			}
			slots = append(slots, s)
		}
		for rep := 0; rep < 2 && len(txs) < cf.NTx; rep++ {
			tx := planTx{TxMD: shape.TxMD}
			seen := map[string]bool{}
			for _, s := range slots {
				var k string
				for {
					if r.IntN(3) > 0 {
						k = fmt.Sprintf("k%d", r.IntN(5))
					} else {
						uniq++
						k = fmt.Sprintf("u%d", uniq)
					}
					for len(k) < s.klen {
						k += "_"
					}
					k = k[:s.klen]
					if !seen[k] {
						break
					}
				}
				seen[k] = true
				v := make([]byte, s.vlen)
				for i := range v {
					v[i] = byte('a' + r.IntN(6)) // low entropy: compresses
				}
				tx.Entries = append(tx.Entries, planEntry{Key: []byte(k), Value: v, MD: s.md})
			}
			txs = append(txs, tx)
		}
	}
	return txs
}

func hashFiles(dir string, skip string) (files []string, data map[string][]byte, err error) {
	data = map[string][]byte{}
	err = filepath.Walk(dir, func(p string, info os.FileInfo, err error) error {
		if err != nil {
			return err
		}
		rel, _ := filepath.Rel(dir, p)
		if rel == skip || strings.HasPrefix(rel, skip+string(filepath.Separator)) {
			if info.IsDir() {
				return filepath.SkipDir
			}
			return nil
		}
		if info.IsDir() {
			return nil
		}
		b, err := os.ReadFile(p)
		if err != nil {
			return err
		}
		files = append(files, rel)
		data[rel] = b
		return nil
	})
	sort.Strings(files)
	return
}

type idxLogger struct {
	errs chan string
}

func newIdxLogger() *idxLogger { return &idxLogger{errs: make(chan string, 64)} }

func (l *idxLogger) Errorf(f string, a ...interface{}) {
	select {
	case l.errs <- fmt.Sprintf(f, a...):
	default:
	}
}
func (l *idxLogger) Warningf(string, ...interface{}) {}
func (l *idxLogger) Infof(string, ...interface{})    {}
func (l *idxLogger) Debugf(string, ...interface{})   {}
func (l *idxLogger) Close() error                    { return nil }

// build creates the pristine store, closes it cleanly, and records the ground truth from what was
// committed (values, keys, metadata as given to the store; headers and alh as acknowledged) and, for
// the derived answers (exports, proofs, Get/History after re-indexing), from a fresh reopen.
func build(cf storeCfg, dir string) (*groundTruth, error) {
	data := filepath.Join(dir, "data")
	os.RemoveAll(dir)
	if err := os.MkdirAll(dir, 0o755); err != nil {
		return nil, err
	}
	st, err := store.Open(data, cf.options())
	if err != nil {
		return nil, fmt.Errorf("open: %w", err)
	}
	g := &groundTruth{Cfg: cf, Proofs: map[string][32]byte{}}
	for i, p := range plan(cf) {
		var kvs []sth.KV
		var les []ledger.Entry
		for _, e := range p.Entries {
			md := kvmdKind(e.MD)
			kvs = append(kvs, sth.KV{K: e.Key, V: e.Value, MD: md})
			les = append(les, ledger.Entry{Key: e.Key, Value: e.Value, MD: ledger.MDBytes(md)})
		}
		var hdr *store.TxHeader
		if p.TxMD == 0 {
			hdr, err = sth.Commit(st, kvs...)
		} else {
			md := store.NewTxMetadata()
			if p.TxMD&1 != 0 {
				md.WithExtra([]byte(fmt.Sprintf("x%d", i)))
			}
			if p.TxMD&2 != 0 {
				md.WithTruncatedTxID(uint64(1 + i/2))
			}
			hdr, err = sth.CommitMD(st, md, kvs...)
		}
		if err != nil {
			st.Close()
			return nil, fmt.Errorf("commit %d: %w", i+1, err)
		}
		hb, err := hdr.Bytes()
		if err != nil {
			st.Close()
			return nil, err
		}
		t := gtTx{Rec: ledger.Rec{ID: hdr.ID, Hdr: hb, Alh: hdr.Alh(), Entries: les}}
		if hdr.Metadata != nil {
			t.TxMD = hdr.Metadata.Bytes()
		}
		g.Txs = append(g.Txs, t)
	}
	if err := st.Close(); err != nil {
		return nil, fmt.Errorf("close: %w", err)
	}
	os.RemoveAll(filepath.Join(data, "index"))
	files0, data0, err := hashFiles(data, "index")
	if err != nil {
		return nil, err
	}
	g.Files, g.Data = files0, data0

	// derived answers from a fresh reopen (index rebuilt from the log)
	if err := g.derive(data); err != nil {
		return nil, err
	}
	os.RemoveAll(filepath.Join(data, "index"))
	files1, data1, err := hashFiles(data, "index")
	if err != nil {
		return nil, err
	}
	if len(files1) != len(files0) {
		return nil, fmt.Errorf("reading the pristine store changed its file set")
	}
	for _, f := range files0 {
		if !bytes.Equal(data0[f], data1[f]) {
			return nil, fmt.Errorf("reading the pristine store changed %s", f)
		}
	}
	if err := g.locate(); err != nil {
		return nil, fmt.Errorf("locate: %w", err)
	}
	f, err := os.Create(filepath.Join(dir, "gt.gob"))
	if err != nil {
		return nil, err
	}
	defer f.Close()
	return g, gob.NewEncoder(f).Encode(g)
}

func loadGT(dir string) (*groundTruth, error) {
	f, err := os.Open(filepath.Join(dir, "gt.gob"))
	if err != nil {
		return nil, err
	}
	defer f.Close()
	g := &groundTruth{}
	if err := gob.NewDecoder(f).Decode(g); err != nil {
		return nil, err
	}
	return g, nil
}

func errText(err error) string {
	if err == nil {
		return ""
	}
	return err.Error()
}

func (g *groundTruth) hdr(i int) *store.TxHeader {
	h := &store.TxHeader{}
	if err := h.ReadFrom(g.Txs[i].Rec.Hdr); err != nil {
		panic("ground-truth header does not parse: " + err.Error())
	}
	return h
}

func (g *groundTruth) derive(data string) error {
	lg := newIdxLogger()
	st, err := store.Open(data, g.Cfg.options().WithLogger(lg))
	if err != nil {
		return fmt.Errorf("reopen: %w", err)
	}
	defer st.Close()
	n := uint64(len(g.Txs))
	if st.LastCommittedTxID() != n {
		return fmt.Errorf("reopen: %d committed txs, %d were acknowledged", st.LastCommittedTxID(), n)
	}
	tx := store.NewTx(8, 32)
	versions := map[string][]uint64{}
	var keyOrder []string
	for i := range g.Txs {
		t := &g.Txs[i]
		if err := st.ReadTx(t.Rec.ID, false, tx); err != nil {
			return fmt.Errorf("pristine ReadTx(%d): %w", t.Rec.ID, err)
		}
		h := tx.Header()
		hb, _ := h.Bytes()
		if !bytes.Equal(hb, t.Rec.Hdr) || h.Alh() != t.Rec.Alh || len(tx.Entries()) != len(t.Rec.Entries) {
			return fmt.Errorf("pristine ReadTx(%d) differs from the acknowledged header", t.Rec.ID)
		}
		for k, e := range tx.Entries() {
			w := t.Rec.Entries[k]
			if !bytes.Equal(e.Key(), w.Key) || !bytes.Equal(ledger.MDBytes(e.Metadata()), w.MD) || e.HVal() != sha256.Sum256(w.Value) || e.VLen() != len(w.Value) {
				return fmt.Errorf("pristine ReadTx(%d) entry %d differs from what was committed", t.Rec.ID, k)
			}
			t.VLen = append(t.VLen, e.VLen())
			t.VOff = append(t.VOff, e.VOff())
			t.HVal = append(t.HVal, e.HVal())
			v, err := st.ReadValue(e)
			if err == nil && !bytes.Equal(v, w.Value) {
				return fmt.Errorf("pristine ReadValue(%d,%d) differs from what was committed", t.Rec.ID, k)
			}
			if err != nil && !errors.Is(err, store.ErrExpiredEntry) {
				return fmt.Errorf("pristine ReadValue(%d,%d): %w", t.Rec.ID, k, err)
			}
			t.ReadValErr = append(t.ReadValErr, errText(err))
			if md := e.Metadata(); md == nil || !md.NonIndexable() {
				ks := string(w.Key)
				if _, ok := versions[ks]; !ok {
					keyOrder = append(keyOrder, ks)
				}
				versions[ks] = append(versions[ks], t.Rec.ID)
			} else if _, ok := versions[string(w.Key)]; !ok {
				keyOrder = append(keyOrder, string(w.Key))
				versions[string(w.Key)] = nil
			}
		}
		b, err := st.ExportTx(t.Rec.ID, false, false, tx)
		if err != nil {
			return fmt.Errorf("pristine ExportTx(%d): %w", t.Rec.ID, err)
		}
		t.Export = append([]byte(nil), b...)
		t.Rec.Export = sha256.Sum256(b)
		t.ExportTrunc = exportTruncated(t)
	}
	// proofs
	for i := 1; i <= int(n); i++ {
		for j := i; j <= int(n); j++ {
			lp, err := st.LinearProof(uint64(i), uint64(j))
			if err != nil {
				return fmt.Errorf("pristine LinearProof(%d,%d): %w", i, j, err)
			}
			if !store.VerifyLinearProof(lp, uint64(i), uint64(j), g.Txs[i-1].Rec.Alh, g.Txs[j-1].Rec.Alh) {
				return fmt.Errorf("pristine LinearProof(%d,%d) does not verify", i, j)
			}
			g.Proofs[fmt.Sprintf("lin/%d/%d", i, j)] = linDigest(lp)
			dp, err := st.DualProof(g.hdr(i-1), g.hdr(j-1))
			if err != nil {
				return fmt.Errorf("pristine DualProof(%d,%d): %w", i, j, err)
			}
			if !store.VerifyDualProof(dp, uint64(i), uint64(j), g.Txs[i-1].Rec.Alh, g.Txs[j-1].Rec.Alh) {
				return fmt.Errorf("pristine DualProof(%d,%d) does not verify", i, j)
			}
			g.Proofs[fmt.Sprintf("dual/%d/%d", i, j)] = dualDigest(dp)
		}
	}
	// index
	ctx, cancel := context.WithTimeout(context.Background(), 60*time.Second)
	defer cancel()
	if err := st.WaitForIndexingUpto(ctx, n); err != nil {
		return fmt.Errorf("pristine store does not finish indexing: %w", err)
	}
	for _, ks := range keyOrder {
		k := gtKey{Key: []byte(ks), Versions: versions[ks]}
		ref, err := st.Get(ctx, k.Key)
		k.GetErr = errText(err)
		if err == nil {
			k.GetTx, k.GetHC = ref.Tx(), ref.HC()
		}
		refs, _, err := st.History(k.Key, 0, false, 100)
		k.HistErr = errText(err)
		for _, r := range refs {
			k.HistTxs = append(k.HistTxs, r.Tx())
		}
		if err == nil && fmt.Sprint(k.HistTxs) != fmt.Sprint(k.Versions) {
			return fmt.Errorf("pristine History(%q) = %v, the log says %v", ks, k.HistTxs, k.Versions)
		}
		if k.GetErr == "" && (len(k.Versions) == 0 || k.GetTx != k.Versions[len(k.Versions)-1]) {
			return fmt.Errorf("pristine Get(%q) = tx %d, the log says %v", ks, k.GetTx, k.Versions)
		}
		g.Keys = append(g.Keys, k)
	}
	return nil
}

// exportTruncated builds the export ExportTx gives for a tx whose values are not available (value-log
// truncated): digests in place of the values and the flag byte set.
func exportTruncated(t *gtTx) []byte {
	var buf bytes.Buffer
	var b [4]byte
	binary.BigEndian.PutUint32(b[:], uint32(len(t.Rec.Hdr)))
	buf.Write(b[:])
	buf.Write(t.Rec.Hdr)
	for k, e := range t.Rec.Entries {
		binary.BigEndian.PutUint16(b[:], uint16(len(e.Key)))
		buf.Write(b[:2])
		buf.Write(e.Key)
		binary.BigEndian.PutUint16(b[:], uint16(len(e.MD)))
		buf.Write(b[:2])
		buf.Write(e.MD)
		binary.BigEndian.PutUint32(b[:], 32)
		buf.Write(b[:])
		buf.Write(t.HVal[k][:])
	}
	binary.BigEndian.PutUint16(b[:], 1)
	buf.Write(b[:2])
	buf.WriteByte(1)
	return buf.Bytes()
}

func linDigest(p *store.LinearProof) [32]byte {
	h := sha256.New()
	if p == nil {
		return sha256.Sum256([]byte("nil"))
	}
	fmt.Fprintf(h, "lin %d %d %d|", p.SourceTxID, p.TargetTxID, len(p.Terms))
	for _, t := range p.Terms {
		h.Write(t[:])
	}
	var d [32]byte
	copy(d[:], h.Sum(nil))
	return d
}

func dualDigest(p *store.DualProof) [32]byte {
	h := sha256.New()
	hb := func(x *store.TxHeader) {
		if x == nil {
			h.Write([]byte("nil"))
			return
		}
		b, _ := x.Bytes()
		fmt.Fprintf(h, "hdr %d|", len(b))
		h.Write(b)
	}
	terms := func(name string, ts [][32]byte) {
		fmt.Fprintf(h, "%s %d|", name, len(ts))
		for _, t := range ts {
			h.Write(t[:])
		}
	}
	hb(p.SourceTxHeader)
	hb(p.TargetTxHeader)
	terms("incl", p.InclusionProof)
	terms("cons", p.ConsistencyProof)
	h.Write(p.TargetBlTxAlh[:])
	terms("last", p.LastInclusionProof)
	ld := linDigest(p.LinearProof)
	h.Write(ld[:])
	if p.LinearAdvanceProof != nil {
		terms("lap", p.LinearAdvanceProof.LinearProofTerms)
		fmt.Fprintf(h, "lapincl %d|", len(p.LinearAdvanceProof.InclusionProofs))
		for _, ip := range p.LinearAdvanceProof.InclusionProofs {
			terms("i", ip)
		}
	}
	var d [32]byte
	copy(d[:], h.Sum(nil))
	return d
}
