package c09

import (
	"encoding/binary"
	"fmt"
	"math/rand/v2"
	"sort"
)

// gen builds mutation cases for one store. Every edit lands on located bytes only (g.Bytes).
type gen struct {
	g     *groundTruth
	s     int
	cases []caseT
}

func (m *gen) cur(i int) byte { return m.g.at(m.g.Bytes[i]) }

// editsFor turns (byte index -> new value) into per-file edits, dropping bytes that do not change.
func (m *gen) editsFor(set map[int]byte) []edit {
	idx := make([]int, 0, len(set))
	for i, v := range set {
		if m.cur(i) != v {
			idx = append(idx, i)
		}
	}
	sort.Ints(idx)
	var es []edit
	for _, i := range idx {
		b := m.g.Bytes[i]
		if n := len(es); n > 0 && es[n-1].F == b.F && es[n-1].P+int64(len(es[n-1].B)) == b.P {
			es[n-1].B = append(es[n-1].B, set[i])
			continue
		}
		es = append(es, edit{F: b.F, P: b.P, B: []byte{set[i]}})
	}
	return es
}

func (m *gen) add(kind, class string, txs []uint64, note string, set map[int]byte) {
	es := m.editsFor(set)
	if len(es) == 0 {
		return // not a mutation
	}
	m.cases = append(m.cases, caseT{S: m.s, Kind: kind, Field: class, Tx: txs, Note: fmt.Sprintf("store %s (%s): %s", m.g.Cfg.Name, m.g.Cfg.format(), note), Edits: es})
}

func fdesc(f field) string {
	if f.Entry >= 0 {
		return fmt.Sprintf("tx %d entry %d %s", f.Tx, f.Entry, f.Class)
	}
	return fmt.Sprintf("tx %d %s", f.Tx, f.Class)
}

// valueRefOrValue tells the fields flipped bit by bit in the stores that are not fully enumerated.
func valueRefOrValue(class string) bool {
	switch class {
	case "e.vlen", "e.voff", "val.plain", "val.embedded", "val.clen", "val.cdata", "emb.prefix":
		return true
	}
	return false
}

// singleBits: the fault enumeration proper.
func (m *gen) singleBits(full bool) {
	for _, f := range m.g.Fields {
		if !full && !valueRefOrValue(f.Class) {
			continue
		}
		for i := f.Lo; i < f.Hi; i++ {
			for bit := 0; bit < 8; bit++ {
				m.add("bit", f.Class, []uint64{f.Tx}, fmt.Sprintf("%s byte %d bit %d flipped", fdesc(f), i-f.Lo, bit), map[int]byte{i: m.cur(i) ^ (1 << bit)})
			}
		}
	}
}

func (m *gen) num(f field) uint64 {
	var v uint64
	for i := f.Lo; i < f.Hi; i++ {
		v = v<<8 | uint64(m.cur(i))
	}
	return v
}

func (m *gen) setNum(f field, v uint64) map[int]byte {
	set := map[int]byte{}
	n := f.Hi - f.Lo
	for j := 0; j < n; j++ {
		set[f.Lo+j] = byte(v >> (8 * uint(n-1-j)))
	}
	return set
}

// fieldTargeted: every numeric field set to boundary values and to the values of its siblings, every
// metadata byte to the attribute codes and boundaries.
func (m *gen) fieldTargeted() {
	byClass := map[string][]field{}
	for _, f := range m.g.Fields {
		byClass[f.Class] = append(byClass[f.Class], f)
	}
	for _, f := range m.g.Fields {
		n := f.Hi - f.Lo
		if f.Num {
			cur := m.num(f)
			max := uint64(1)<<(8*uint(n)) - 1
			if n == 8 {
				max = ^uint64(0)
			}
			vals := map[uint64]string{0: "0", 1: "1", max: "max", max >> 1: "max/2", cur + 1: "+1", cur - 1: "-1", cur + 2: "+2", cur * 2: "x2", cur | 1<<(8*uint(n)-1): "top-bit"}
			sib := 0
			for _, o := range byClass[f.Class] {
				if v := m.num(o); v != cur && sib < 3 {
					if _, dup := vals[v]; !dup {
						sib++
					}
					vals[v] = fmt.Sprintf("value of %s", fdesc(o))
				}
			}
			if f.Class == "e.voff" {
				for _, id := range []uint64{0, 1, 2, 3, 4, 0x7f, 0x80, 0xff} {
					vals[cur&(1<<56-1)|id<<56] = fmt.Sprintf("vlog id %d", id)
				}
				for _, d := range []uint64{4, 8, uint64(m.g.Cfg.FileSize)} {
					vals[cur+d] = fmt.Sprintf("+%d", d)
					vals[cur-d] = fmt.Sprintf("-%d", d)
				}
			}
			keys := make([]uint64, 0, len(vals))
			for v := range vals {
				keys = append(keys, v&max)
			}
			sort.Slice(keys, func(i, j int) bool { return keys[i] < keys[j] })
			var prev uint64
			for i, v := range keys {
				if i > 0 && v == prev {
					continue
				}
				prev = v
				m.add("field", f.Class, []uint64{f.Tx}, fmt.Sprintf("%s set to %#x (%s; was %#x)", fdesc(f), v, vals[v], cur), m.setNum(f, v))
			}
		}
		if f.Class == "e.kvmd" || f.Class == "hdr.txmd" {
			for i := f.Lo; i < f.Hi; i++ {
				c := m.cur(i)
				for _, v := range []byte{0, 1, 2, 3, 4, 0x80, 0xff, c + 1, c ^ 0xff} {
					m.add("field", f.Class, []uint64{f.Tx}, fmt.Sprintf("%s byte %d set to %#x", fdesc(f), i-f.Lo, v), map[int]byte{i: v})
				}
			}
		}
	}
}

// trailerCombos: the trailing alh of a record zeroed / replaced by another record's, alone and together
// with one flipped bit in each other field of the record (a check that trusts or skips a blank trailer).
func (m *gen) trailerCombos(r *rand.Rand) {
	alh := map[uint64]field{}
	for _, f := range m.g.Fields {
		if f.Class == "rec.alh" {
			alh[f.Tx] = f
		}
	}
	nf := 0
	for _, f := range m.g.Fields {
		a, ok := alh[f.Tx]
		if !ok || f.Class[:3] == "val" || f.Class == "emb.prefix" {
			continue
		}
		nf++
		for variant := 0; variant < 2; variant++ {
			if variant == 1 && f.Class != "rec.alh" && nf%3 != 0 {
				continue
			}
			set := map[int]byte{}
			what := "zeroed"
			if variant == 1 {
				// the trailer of the next tx (or the first)
				o, ok := alh[f.Tx+1]
				if !ok {
					o = alh[1]
				}
				if o.Tx == f.Tx {
					continue
				}
				for j := 0; j < 32; j++ {
					set[a.Lo+j] = m.cur(o.Lo + j)
				}
				what = fmt.Sprintf("replaced by the one of tx %d", o.Tx)
			} else {
				for j := a.Lo; j < a.Hi; j++ {
					set[j] = 0
				}
			}
			if f.Class == "rec.alh" {
				m.add("field", "rec.alh", []uint64{f.Tx}, fmt.Sprintf("tx %d trailing alh %s", f.Tx, what), set)
				continue
			}
			i := f.Lo + r.IntN(f.Hi-f.Lo)
			bit := r.IntN(8)
			set[i] = m.cur(i) ^ 1<<bit
			m.add("field", f.Class+"+rec.alh", []uint64{f.Tx}, fmt.Sprintf("%s byte %d bit %d flipped and the tx's trailing alh %s", fdesc(f), i-f.Lo, bit, what), set)
		}
	}
}

// span is a run of located bytes that are logically consecutive (one record, one entry, one value extent).
type span struct {
	Tx     uint64
	What   string
	Lo, Hi int
}

func (m *gen) records() []span {
	var out []span
	for _, t := range m.g.Txs {
		s := span{Tx: t.Rec.ID, What: "record", Lo: -1}
		for _, f := range m.g.Fields {
			if f.Tx != t.Rec.ID || f.Class[:3] == "val" || f.Class == "emb.prefix" {
				continue
			}
			if s.Lo < 0 {
				s.Lo = f.Lo
			}
			s.Hi = f.Hi
		}
		out = append(out, s)
	}
	return out
}

func (m *gen) groups(pick func(f field) string) []span {
	var out []span
	idx := map[string]int{}
	for _, f := range m.g.Fields {
		what := pick(f)
		if what == "" {
			continue
		}
		key := fmt.Sprintf("%d/%d/%s", f.Tx, f.Entry, what)
		if i, ok := idx[key]; ok && out[i].Hi == f.Lo {
			out[i].Hi = f.Hi
			continue
		}
		idx[key] = len(out)
		out = append(out, span{Tx: f.Tx, What: fmt.Sprintf("%s of tx %d entry %d", what, f.Tx, f.Entry), Lo: f.Lo, Hi: f.Hi})
	}
	return out
}

func (m *gen) copySpan(class string, src, dst span, n int) {
	set := map[int]byte{}
	for j := 0; j < n; j++ {
		set[dst.Lo+j] = m.cur(src.Lo + j)
	}
	what := "copied over"
	if n < dst.Hi-dst.Lo {
		what = fmt.Sprintf("(first %d bytes) copied over the start of", n)
	}
	m.add("splice", class, []uint64{dst.Tx}, fmt.Sprintf("%s of tx %d %s %s of tx %d", src.What, src.Tx, what, dst.What, dst.Tx), set)
}

// splices: same-size record over record, entry over entry, header over header, value reference over
// value reference, value extent over value extent (same size, or a shorter one over the start of a longer).
func (m *gen) splices(r *rand.Rand, limit int) {
	start := len(m.cases)
	recs := m.records()
	for _, a := range recs {
		for _, b := range recs {
			if a.Tx != b.Tx && a.Hi-a.Lo == b.Hi-b.Lo {
				m.copySpan("record", a, b, a.Hi-a.Lo)
			}
		}
	}
	// two records swapped
	for i, a := range recs {
		for _, b := range recs[i+1:] {
			if a.Hi-a.Lo == b.Hi-b.Lo {
				set := map[int]byte{}
				for j := 0; j < a.Hi-a.Lo; j++ {
					set[a.Lo+j], set[b.Lo+j] = m.cur(b.Lo+j), m.cur(a.Lo+j)
				}
				m.add("splice", "record-swap", []uint64{a.Tx, b.Tx}, fmt.Sprintf("records of tx %d and tx %d swapped", a.Tx, b.Tx), set)
			}
		}
	}
	pairs := func(class string, sp []span, prefixOK bool) {
		for _, a := range sp {
			for _, b := range sp {
				if a.Lo == b.Lo {
					continue
				}
				la, lb := a.Hi-a.Lo, b.Hi-b.Lo
				if la == lb || (prefixOK && la < lb) {
					m.copySpan(class, a, b, la)
				}
			}
		}
	}
	pairs("header", m.groups(func(f field) string {
		if f.Entry < 0 && f.Class[:3] == "hdr" {
			return "header"
		}
		return ""
	}), false)
	pairs("entry", m.groups(func(f field) string {
		if f.Entry >= 0 && f.Class[:2] == "e." {
			return "entry"
		}
		return ""
	}), false)
	pairs("value-ref", m.groups(func(f field) string {
		if f.Class == "e.vlen" || f.Class == "e.voff" || f.Class == "e.hval" {
			return "value reference (vLen,vOff,hVal)"
		}
		return ""
	}), false)
	pairs("value-locator", m.groups(func(f field) string {
		if f.Class == "e.vlen" || f.Class == "e.voff" {
			return "value locator (vLen,vOff)"
		}
		return ""
	}), false)
	pairs("value", m.groups(func(f field) string {
		if f.Class[:3] == "val" {
			return "value extent"
		}
		return ""
	}), true)
	pairs("rec.alh", m.groups(func(f field) string {
		if f.Class == "rec.alh" {
			return "trailing alh"
		}
		return ""
	}), false)
	if limit > 0 && len(m.cases)-start > limit {
		// deterministic sample
		sp := m.cases[start:]
		r.Shuffle(len(sp), func(i, j int) { sp[i], sp[j] = sp[j], sp[i] })
		m.cases = m.cases[:start+limit]
	}
}

// multi: PRNG multi-bit alterations inside one tx's bytes (2-8 bits, byte overwrite, zeroed / 0xff range),
// and across two txs.
func (m *gen) multi(r *rand.Rand, count int) {
	if len(m.g.Fields) == 0 {
		return
	}
	byTx := map[uint64][]field{}
	var ids []uint64
	for _, f := range m.g.Fields {
		if _, ok := byTx[f.Tx]; !ok {
			ids = append(ids, f.Tx)
		}
		byTx[f.Tx] = append(byTx[f.Tx], f)
	}
	pickByte := func(fs []field) (int, field) {
		f := fs[r.IntN(len(fs))]
		for f.Hi == f.Lo {
			f = fs[r.IntN(len(fs))]
		}
		return f.Lo + r.IntN(f.Hi-f.Lo), f
	}
	for n := 0; n < count; n++ {
		id := ids[r.IntN(len(ids))]
		fs := byTx[id]
		set := map[int]byte{}
		txs := []uint64{id}
		var note, class string
		switch r.IntN(6) {
		case 0, 1: // 2-8 bits anywhere in the tx's bytes
			nb := 2 + r.IntN(7)
			classes := map[string]bool{}
			for b := 0; b < nb; b++ {
				i, f := pickByte(fs)
				v, ok := set[i]
				if !ok {
					v = m.cur(i)
				}
				set[i] = v ^ 1<<r.IntN(8)
				classes[f.Class] = true
			}
			class = "multi-field"
			if len(classes) == 1 {
				for c := range classes {
					class = c
				}
			}
			note = fmt.Sprintf("%d random bits of tx %d flipped", nb, id)
		case 2: // 2-8 bits inside one field
			_, f := pickByte(fs)
			nb := 2 + r.IntN(7)
			for b := 0; b < nb; b++ {
				i := f.Lo + r.IntN(f.Hi-f.Lo)
				v, ok := set[i]
				if !ok {
					v = m.cur(i)
				}
				set[i] = v ^ 1<<r.IntN(8)
			}
			class = f.Class
			note = fmt.Sprintf("%d random bits of %s flipped", nb, fdesc(f))
		case 3: // byte overwrite
			i, f := pickByte(fs)
			v := byte(r.IntN(256))
			set[i] = v
			class = f.Class
			note = fmt.Sprintf("%s byte %d overwritten with %#x", fdesc(f), i-f.Lo, v)
		case 4: // zeroed / 0xff range, may run over field boundaries
			i, f := pickByte(fs)
			l := 2 + r.IntN(15)
			fill := byte(0)
			if r.IntN(4) == 0 {
				fill = 0xff
			}
			last := fs[len(fs)-1].Hi
			for j := i; j < i+l && j < last && j < len(m.g.Bytes); j++ {
				set[j] = fill
			}
			class = f.Class + "+range"
			note = fmt.Sprintf("%d bytes from %s byte %d set to %#x", l, fdesc(f), i-f.Lo, fill)
		case 5: // one bit in each of two txs
			id2 := ids[r.IntN(len(ids))]
			i, f := pickByte(fs)
			j, f2 := pickByte(byTx[id2])
			set[i] = m.cur(i) ^ 1<<r.IntN(8)
			if j != i {
				set[j] = m.cur(j) ^ 1<<r.IntN(8)
			}
			if id2 != id {
				txs = append(txs, id2)
			}
			class = "two-tx"
			note = fmt.Sprintf("one bit of %s and one bit of %s flipped", fdesc(f), fdesc(f2))
		}
		m.add("multi", class, txs, note, set)
	}
}

func be64(b []byte) uint64 { return binary.BigEndian.Uint64(b) }
