package c09

import (
	"bytes"
	"compress/flate"
	"compress/gzip"
	"compress/lzw"
	"compress/zlib"
	"encoding/binary"
	"fmt"
	"io"
	"path/filepath"

	"github.com/codenotary/immudb/embedded/appendable"
)

const cLogEntrySize = 8 + 4 + 32 // store version 2: tx offset, tx size, alh

// place gives the physical position of logical byte off of an uncompressed multi-file log:
// chunk off/FileSize, after that file's header (4-byte length + metadata).
func (g *groundTruth) place(logDir, ext string, off int64) (tbyte, error) {
	fs := int64(g.Cfg.FileSize)
	rel := filepath.Join(logDir, fmt.Sprintf("%08d.%s", off/fs, ext))
	fi := g.fileIndex(rel)
	if fi < 0 {
		return tbyte{}, fmt.Errorf("no chunk file %s for logical offset %d", rel, off)
	}
	d := g.Data[rel]
	if len(d) < 4 {
		return tbyte{}, fmt.Errorf("%s: short header", rel)
	}
	p := 4 + int64(binary.BigEndian.Uint32(d)) + off%fs
	if p >= int64(len(d)) {
		return tbyte{}, fmt.Errorf("%s: logical offset %d is beyond the file (%d bytes)", rel, off, len(d))
	}
	return tbyte{F: fi, P: p}, nil
}

func (g *groundTruth) at(t tbyte) byte { return g.Data[g.Files[t.F]][t.P] }

func (g *groundTruth) readLog(logDir, ext string, off int64, n int) ([]byte, []tbyte, error) {
	bs := make([]byte, n)
	ps := make([]tbyte, n)
	for i := 0; i < n; i++ {
		t, err := g.place(logDir, ext, off+int64(i))
		if err != nil {
			return nil, nil, err
		}
		ps[i] = t
		bs[i] = g.at(t)
	}
	return bs, ps, nil
}

func decodeVOff(v int64) (id byte, off int64) { return byte(uint64(v) >> 56), v & (1<<56 - 1) }

func decompress(format int, b []byte) ([]byte, error) {
	var r io.ReadCloser
	var err error
	switch format {
	case appendable.FlateCompression:
		r = flate.NewReader(bytes.NewReader(b))
	case appendable.GZipCompression:
		r, err = gzip.NewReader(bytes.NewReader(b))
	case appendable.LZWCompression:
		r = lzw.NewReader(bytes.NewReader(b), lzw.MSB, 8)
	case appendable.ZLibCompression:
		r, err = zlib.NewReader(bytes.NewReader(b))
	default:
		return nil, fmt.Errorf("format %d", format)
	}
	if err != nil {
		return nil, err
	}
	defer r.Close()
	return io.ReadAll(r)
}

// locate finds, from the commit log and the entries' value references, every byte that holds a committed
// record or a referenced value, split into fields. Every located field is cross-checked against the ground
// truth so that a mapping error cannot go unnoticed.
func (g *groundTruth) locate() error {
	g.Fields, g.Bytes = nil, nil
	add := func(tx uint64, entry int, class string, num bool, ps []tbyte) {
		lo := len(g.Bytes)
		g.Bytes = append(g.Bytes, ps...)
		g.Fields = append(g.Fields, field{Tx: tx, Entry: entry, Class: class, Num: num, Lo: lo, Hi: len(g.Bytes)})
	}
	for i := range g.Txs {
		t := &g.Txs[i]
		cb, _, err := g.readLog("commit", "txi", int64(i)*cLogEntrySize, cLogEntrySize)
		if err != nil {
			return fmt.Errorf("commit log entry %d: %w", i+1, err)
		}
		t.RecOff = int64(binary.BigEndian.Uint64(cb))
		t.RecSize = int(binary.BigEndian.Uint32(cb[8:]))
		if !bytes.Equal(cb[12:], t.Rec.Alh[:]) {
			return fmt.Errorf("commit log entry %d does not carry the acknowledged alh", i+1)
		}
		rb, rp, err := g.readLog("tx", "tx", t.RecOff, t.RecSize)
		if err != nil {
			return fmt.Errorf("record %d: %w", i+1, err)
		}
		h := g.hdr(i)
		c := 0
		take := func(n int, class string, num bool, entry int) ([]byte, error) {
			if c+n > len(rb) {
				return nil, fmt.Errorf("record %d: field %s runs past the record", i+1, class)
			}
			b := rb[c : c+n]
			if n > 0 {
				add(t.Rec.ID, entry, class, num, rp[c:c+n])
			}
			c += n
			return b, nil
		}
		chk := func(ok bool, what string) error {
			if !ok {
				return fmt.Errorf("record %d: located %s does not match the ground truth", i+1, what)
			}
			return nil
		}
		var b []byte
		steps := []func() error{
			func() error {
				b, err = take(8, "hdr.id", true, -1)
				if err != nil {
					return err
				}
				return chk(binary.BigEndian.Uint64(b) == t.Rec.ID, "id")
			},
			func() error {
				b, err = take(8, "hdr.ts", true, -1)
				if err != nil {
					return err
				}
				return chk(int64(binary.BigEndian.Uint64(b)) == h.Ts, "ts")
			},
			func() error {
				b, err = take(8, "hdr.bltxid", true, -1)
				if err != nil {
					return err
				}
				return chk(binary.BigEndian.Uint64(b) == h.BlTxID, "bltxid")
			},
			func() error {
				b, err = take(32, "hdr.blroot", false, -1)
				if err != nil {
					return err
				}
				return chk(bytes.Equal(b, h.BlRoot[:]), "blroot")
			},
			func() error {
				b, err = take(32, "hdr.prevalh", false, -1)
				if err != nil {
					return err
				}
				return chk(bytes.Equal(b, h.PrevAlh[:]), "prevalh")
			},
			func() error {
				b, err = take(2, "hdr.version", true, -1)
				if err != nil {
					return err
				}
				return chk(int(binary.BigEndian.Uint16(b)) == h.Version && h.Version == g.Cfg.HdrVersion, "version")
			},
		}
		for _, s := range steps {
			if err := s(); err != nil {
				return err
			}
		}
		if h.Version == 0 {
			b, err = take(2, "hdr.nentries", true, -1)
			if err != nil {
				return err
			}
			if err := chk(int(binary.BigEndian.Uint16(b)) == len(t.Rec.Entries), "nentries"); err != nil {
				return err
			}
		} else {
			b, err = take(2, "hdr.txmdlen", true, -1)
			if err != nil {
				return err
			}
			if err := chk(int(binary.BigEndian.Uint16(b)) == len(t.TxMD), "txmdlen"); err != nil {
				return err
			}
			b, err = take(len(t.TxMD), "hdr.txmd", false, -1)
			if err != nil {
				return err
			}
			if err := chk(bytes.Equal(b, t.TxMD), "txmd"); err != nil {
				return err
			}
			b, err = take(4, "hdr.nentries", true, -1)
			if err != nil {
				return err
			}
			if err := chk(int(binary.BigEndian.Uint32(b)) == len(t.Rec.Entries), "nentries"); err != nil {
				return err
			}
		}
		for k, e := range t.Rec.Entries {
			b, err = take(2, "e.kvmdlen", true, k)
			if err != nil {
				return err
			}
			if err := chk(int(binary.BigEndian.Uint16(b)) == len(e.MD), "kvmdlen"); err != nil {
				return err
			}
			b, err = take(len(e.MD), "e.kvmd", false, k)
			if err != nil {
				return err
			}
			if err := chk(bytes.Equal(b, e.MD), "kvmd"); err != nil {
				return err
			}
			b, err = take(2, "e.klen", true, k)
			if err != nil {
				return err
			}
			if err := chk(int(binary.BigEndian.Uint16(b)) == len(e.Key), "klen"); err != nil {
				return err
			}
			b, err = take(len(e.Key), "e.key", false, k)
			if err != nil {
				return err
			}
			if err := chk(bytes.Equal(b, e.Key), "key"); err != nil {
				return err
			}
			b, err = take(4, "e.vlen", true, k)
			if err != nil {
				return err
			}
			if err := chk(int(binary.BigEndian.Uint32(b)) == len(e.Value), "vlen"); err != nil {
				return err
			}
			b, err = take(8, "e.voff", true, k)
			if err != nil {
				return err
			}
			if err := chk(int64(binary.BigEndian.Uint64(b)) == t.VOff[k], "voff"); err != nil {
				return err
			}
			b, err = take(32, "e.hval", false, k)
			if err != nil {
				return err
			}
			if err := chk(bytes.Equal(b, t.HVal[k][:]), "hval"); err != nil {
				return err
			}
		}
		b, err = take(32, "rec.alh", false, -1)
		if err != nil {
			return err
		}
		if err := chk(bytes.Equal(b, t.Rec.Alh[:]) && c == len(rb), "alh / record size"); err != nil {
			return err
		}

		// value extents
		embLen := 0
		minOff := t.RecOff
		for k, e := range t.Rec.Entries {
			if len(e.Value) == 0 {
				continue
			}
			id, off := decodeVOff(t.VOff[k])
			switch {
			case g.Cfg.Embedded:
				if id != 0 {
					return fmt.Errorf("tx %d entry %d: embedded value with vlog id %d", t.Rec.ID, k, id)
				}
				vb, vp, err := g.readLog("tx", "tx", off, len(e.Value))
				if err != nil {
					return err
				}
				if !bytes.Equal(vb, e.Value) {
					return fmt.Errorf("tx %d entry %d: located embedded value differs", t.Rec.ID, k)
				}
				add(t.Rec.ID, k, "val.embedded", false, vp)
				embLen += len(e.Value)
				if off < minOff {
					minOff = off
				}
			case g.Cfg.Compression == appendable.NoCompression:
				if id == 0 || int(id) > g.Cfg.IOConc {
					return fmt.Errorf("tx %d entry %d: vlog id %d", t.Rec.ID, k, id)
				}
				vb, vp, err := g.readLog(fmt.Sprintf("val_%d", id-1), "val", off, len(e.Value))
				if err != nil {
					return err
				}
				if !bytes.Equal(vb, e.Value) {
					return fmt.Errorf("tx %d entry %d: located value differs", t.Rec.ID, k)
				}
				add(t.Rec.ID, k, "val.plain", false, vp)
			default:
				if id == 0 || int(id) > g.Cfg.IOConc {
					return fmt.Errorf("tx %d entry %d: vlog id %d", t.Rec.ID, k, id)
				}
				// a compressed append is never split: 4-byte length + stream, contiguous in the chunk of its first byte
				first, err := g.place(fmt.Sprintf("val_%d", id-1), "val", off)
				if err != nil {
					return err
				}
				d := g.Data[g.Files[first.F]]
				if first.P+4 > int64(len(d)) {
					return fmt.Errorf("tx %d entry %d: compressed length prefix beyond the file", t.Rec.ID, k)
				}
				clen := int64(binary.BigEndian.Uint32(d[first.P:]))
				if first.P+4+clen > int64(len(d)) {
					return fmt.Errorf("tx %d entry %d: compressed stream beyond the file", t.Rec.ID, k)
				}
				plain, err := decompress(g.Cfg.Compression, d[first.P+4:first.P+4+clen])
				if err != nil || !bytes.Equal(plain, e.Value) {
					return fmt.Errorf("tx %d entry %d: located compressed value does not decode to the value (%v)", t.Rec.ID, k, err)
				}
				ps := make([]tbyte, 4+clen)
				for j := range ps {
					ps[j] = tbyte{F: first.F, P: first.P + int64(j)}
				}
				add(t.Rec.ID, k, "val.clen", true, ps[:4])
				add(t.Rec.ID, k, "val.cdata", false, ps[4:])
			}
		}
		if g.Cfg.Embedded {
			pb, pp, err := g.readLog("tx", "tx", minOff-2, 2)
			if err != nil {
				return err
			}
			if int(binary.BigEndian.Uint16(pb)) != embLen || minOff+int64(embLen) != t.RecOff {
				return fmt.Errorf("tx %d: embedded-values prefix not where expected", t.Rec.ID)
			}
			add(t.Rec.ID, -1, "emb.prefix", true, pp)
		}
	}
	// no two fields may share a byte
	seen := map[tbyte]bool{}
	for _, b := range g.Bytes {
		if seen[b] {
			return fmt.Errorf("byte %s+%d located twice", g.Files[b.F], b.P)
		}
		seen[b] = true
	}
	return nil
}
