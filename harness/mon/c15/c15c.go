package c15

import (
	"context"
	"fmt"
	"math"
	"math/rand/v2"
	"strconv"
	"strings"
	"time"

	"github.com/codenotary/immudb/embedded/sql"
	"github.com/google/uuid"

	"verifharness/internal/fw"
)

// sqlConversions: values that ENTER the engine through its conversions (CAST and the
// implicit coercion of statement parameters) instead of through the typed-value
// constructors. Whatever value a conversion yields is a value "the system
// serializes": the row written with it must decode back to the value the same
// expression evaluates to, its index key must be the key of the decoded value
// (equal values encode identically), and an index lookup with the same expression
// must find the row. Added after seeded change C15-2 (a converter that let
// sub-microsecond timestamps in: the row codec stores microseconds, the key codec
// nanoseconds).

type convCase struct {
	col   string           // destination column
	dst   sql.SQLValueType // its type
	src   string           // source kind (for fingerprints)
	param any              // statement parameter
	cast  bool             // CAST(@x AS T) or bare @x (implicit coercion)
}

func tsStrings(r *rand.Rand) (string, string) {
	y := 1700 + r.IntN(550)
	t := time.Date(y, time.Month(1+r.IntN(12)), 1+r.IntN(28), r.IntN(24), r.IntN(60), r.IntN(60), 0, time.UTC)
	digits := r.IntN(10) // 0..9 fractional digits
	frac := ""
	if digits > 0 {
		var sb strings.Builder
		sb.WriteByte('.')
		for i := 0; i < digits; i++ {
			d := byte('0' + r.IntN(10))
			if i == digits-1 && d == '0' {
				d = '7' // the last digit carries the precision
			}
			sb.WriteByte(d)
		}
		frac = sb.String()
	}
	kind := fmt.Sprintf("frac%d", digits)
	switch r.IntN(6) {
	case 0:
		return t.Format("2006-01-02 15:04:05") + frac, "space/" + kind
	case 1:
		return t.Format("2006-01-02T15:04:05") + frac, "iso/" + kind
	case 2:
		return t.Format("2006-01-02T15:04:05") + frac + "Z", "rfc3339Z/" + kind
	case 3:
		return t.Format("2006-01-02T15:04:05") + frac + []string{"+02:00", "-07:30", "+00:00"}[r.IntN(3)], "rfc3339off/" + kind
	case 4:
		if frac == "" {
			return t.Format("2006-01-02 15:04:05") + []string{" +0200", " -0730", " UTC"}[r.IntN(3)], "space-zone/" + kind
		}
		return t.Format("2006-01-02 15:04:05") + frac, "space/" + kind
	default:
		if frac == "" && r.IntN(2) == 0 {
			return t.Format("2006-01-02"), "date/" + kind
		}
		return t.Format("2006-01-02 15:04:05") + frac, "space/" + kind
	}
}

func genConvCase(r *rand.Rand) convCase {
	cast := r.IntN(3) != 0
	switch r.IntN(14) {
	case 0, 1, 2, 3:
		s, k := tsStrings(r)
		return convCase{"ts", sql.TimestampType, "varchar/" + k, s, cast}
	case 4:
		return convCase{"ts", sql.TimestampType, "integer", int64(r.IntN(1<<33)) - 1<<32, true}
	case 5:
		f := genRaw(r, colT{sql.Float64Type, 8, false}, nil).(float64)
		if f == 0 || math.IsInf(f, 0) {
			f = 1.5
		}
		return convCase{"f", sql.Float64Type, "varchar", strconv.FormatFloat(f, []byte{'g', 'e', 'f'}[r.IntN(2)], -1, 64), cast}
	case 6:
		return convCase{"f", sql.Float64Type, "integer", genRaw(r, colT{sql.IntegerType, 8, false}, nil).(int64), true}
	case 7:
		f := (r.Float64() - 0.5) * math.Pow(2, float64(r.IntN(62)))
		return convCase{"i", sql.IntegerType, "float", f, true}
	case 8:
		return convCase{"i", sql.IntegerType, "varchar", strconv.FormatInt(genRaw(r, colT{sql.IntegerType, 8, false}, nil).(int64), 10), cast}
	case 9:
		u := genRaw(r, colT{sql.UUIDType, 16, false}, nil).(uuid.UUID)
		s := u.String()
		switch r.IntN(4) {
		case 0:
			s = strings.ToUpper(s)
		case 1:
			s = "urn:uuid:" + s
		case 2:
			s = "{" + s + "}"
		}
		return convCase{"u", sql.UUIDType, "varchar", s, cast}
	case 10:
		u := genRaw(r, colT{sql.UUIDType, 16, false}, nil).(uuid.UUID)
		return convCase{"u", sql.UUIDType, "blob", u[:], true}
	case 11:
		if r.IntN(2) == 0 {
			return convCase{"bl", sql.BLOBType, "varchar", printable(genRaw(r, colT{sql.VarcharType, 24, false}, nil).(string)), true}
		}
		u := genRaw(r, colT{sql.UUIDType, 16, false}, nil).(uuid.UUID)
		return convCase{"bl", sql.BLOBType, "uuid", u.String(), true} // CAST(CAST(@x AS UUID) AS BLOB) below
	case 12:
		switch r.IntN(3) {
		case 0:
			return convCase{"s", sql.VarcharType, "integer", genRaw(r, colT{sql.IntegerType, 8, false}, nil).(int64), true}
		case 1:
			f := genRaw(r, colT{sql.Float64Type, 8, false}, nil).(float64)
			return convCase{"s", sql.VarcharType, "float", f, true}
		default:
			return convCase{"s", sql.VarcharType, "boolean", r.IntN(2) == 0, true}
		}
	default:
		return convCase{"b", sql.BooleanType, "varchar", []string{"t", "f", "true", "FALSE", "y", "no", "on", "off", "1", "0", "Yes", "N"}[r.IntN(12)], cast}
	}
}

func (cc convCase) expr() string {
	if !cc.cast {
		return "@x"
	}
	if cc.dst == sql.BLOBType && cc.src == "uuid" {
		return "CAST(CAST(@x AS UUID) AS BLOB)"
	}
	return "CAST(@x AS " + string(cc.dst) + ")"
}

func sqlConversions(c *fw.Ctx, eng *sql.Engine, r *rand.Rand, n int) {
	ctx := context.Background()
	if _, _, err := eng.Exec(ctx, nil, `CREATE TABLE cv (id INTEGER AUTO_INCREMENT, i INTEGER, b BOOLEAN, s VARCHAR[64], bl BLOB[64], u UUID, ts TIMESTAMP, f FLOAT, PRIMARY KEY id);
		CREATE INDEX ON cv(i); CREATE INDEX ON cv(b); CREATE INDEX ON cv(s); CREATE INDEX ON cv(bl); CREATE INDEX ON cv(u); CREATE INDEX ON cv(ts); CREATE INDEX ON cv(f);`, nil); err != nil {
		c.Inconclusive("create cv: " + err.Error())
		return
	}
	one := func(q string, params map[string]any) ([]sql.TypedValue, int, error) {
		rd, err := eng.Query(ctx, nil, q, params)
		if err != nil {
			return nil, 0, err
		}
		defer rd.Close()
		var first []sql.TypedValue
		rows := 0
		for {
			row, err := rd.Read(ctx)
			if err != nil {
				if err != sql.ErrNoMoreRows {
					return first, rows, err
				}
				break
			}
			if rows == 0 {
				first = row.ValuesByPosition
			}
			rows++
		}
		return first, rows, nil
	}
	for k := 0; k < n; k++ {
		cc := genConvCase(r)
		fp := fmt.Sprintf("sqlconv/%s<-%s/cast=%v", cc.dst, cc.src, cc.cast)
		params := map[string]any{"x": cc.param}
		_, txs, err := eng.Exec(ctx, nil, fmt.Sprintf("INSERT INTO cv(%s) VALUES (%s)", cc.col, cc.expr()), params)
		if err != nil || len(txs) == 0 {
			c.Count("sqlconv_refused", 1) // the property does not oblige a conversion to exist
			c.Distinct(fp + "/refused")
			continue
		}
		id, ok := txs[len(txs)-1].LastInsertedPKs()["cv"]
		if !ok {
			continue
		}
		params["id"] = id
		// (a) the value the expression evaluates to, next to the stored one
		castExpr := cc.expr()
		if !cc.cast {
			castExpr = "CAST(@x AS " + string(cc.dst) + ")"
		}
		vals, rows, err := one(fmt.Sprintf("SELECT %s, %s FROM cv WHERE id = @id", castExpr, cc.col), params)
		if err != nil || rows != 1 || len(vals) != 2 {
			c.Count("sqlconv_unreadable", 1)
			continue
		}
		c.Eval(1)
		c.Distinct(fp + "/stored")
		vExpr, vStored := rawOf(vals[0]), rawOf(vals[1])
		sig := fmt.Sprintf("sqlconv/%s-from-%s", cc.dst, strings.SplitN(cc.src, "/", 2)[0])
		if f, isF := vExpr.(float64); isF && (f == 0 || math.IsNaN(f)) {
			continue // ±0 and NaN are judged elsewhere / not at all
		}
		if !rawEqual(cc.dst, vExpr, vStored) {
			c.Violation(sig+"/stored-differs-from-converted", fmt.Sprintf("INSERT INTO cv(%s) VALUES (%s) with @x=%v: the expression evaluates to %s, the stored row decodes to %s", cc.col, cc.expr(), cc.param, show(cc.dst, vExpr), show(cc.dst, vStored)), nil)
			continue
		}
		// (b) equal values encode identically: key of the converted value = key of the decoded one
		if vExpr != nil {
			k1, _, e1 := sql.EncodeValueAsKey(vals[0], cc.dst, 64)
			k2, _, e2 := sql.EncodeValueAsKey(vals[1], cc.dst, 64)
			c.Eval(1)
			if e1 == nil && e2 == nil && string(k1) != string(k2) {
				c.Violation(sig+"/key-differs-for-equal-values", fmt.Sprintf("@x=%v: key of the converted value %x, key of the stored value %x (both %s)", cc.param, trunc(k1), trunc(k2), show(cc.dst, vStored)), nil)
				continue
			}
		}
		// (c) the index finds the row by the same expression
		_, rows, err = one(fmt.Sprintf("SELECT id FROM cv USE INDEX ON (%s) WHERE %s = %s AND id = @id", cc.col, cc.col, castExpr), params)
		c.Eval(1)
		c.Distinct(fp + "/lookup")
		if err == nil && rows != 1 {
			c.Violation(sig+"/index-lookup-misses-own-row", fmt.Sprintf("row %d inserted with %s (@x=%v) is not found by WHERE %s = %s through the index on %s", id, cc.expr(), cc.param, cc.col, castExpr, cc.col), nil)
		}
		if k == 0 {
			c.Sample(map[string]any{"check": "sql-conversion", "expr": cc.expr(), "param": fmt.Sprint(cc.param), "stored": show(cc.dst, vStored)})
		}
	}
}

var _ = fw.Guard
