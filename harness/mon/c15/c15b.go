package c15

import (
	"bytes"
	"context"
	"fmt"
	"math"
	"sort"
	"strings"
	"time"

	"github.com/codenotary/immudb/embedded/sql"
	"github.com/codenotary/immudb/embedded/store"
	"github.com/google/uuid"

	"verifharness/internal/fw"
	"verifharness/internal/sth"
)

// ExportTx -> ReplicateTx -> ExportTx must be byte-identical.
func exportReplicate(c *fw.Ctx) {
	r := c.Rand("c15/export")
	rounds := c.N(6, 120)
	for round := 0; round < rounds; round++ {
		ver := round % 2
		opts := sth.SmallOpts().WithWriteTxHeaderVersion(ver).WithEmbeddedValues(round%3 == 0).WithFileSize(1 << (10 + r.IntN(6)))
		pdir, rdir := c.Dir("exp-p"), c.Dir("exp-r")
		p, err := store.Open(pdir, opts)
		if err != nil {
			c.Inconclusive("open primary: " + err.Error())
			return
		}
		q, err := store.Open(rdir, opts)
		if err != nil {
			c.Inconclusive("open replica: " + err.Error())
			return
		}
		ntx := 20 + r.IntN(40)
		for i := 0; i < ntx; i++ {
			ne := 1 + r.IntN(8)
			kvs := make([]sth.KV, ne)
			for j := range kvs {
				k := []byte(fmt.Sprintf("k%02d-%d", r.IntN(30), j))
				v := make([]byte, []int{0, 1, 17, 300, 2000}[r.IntN(5)])
				for x := range v {
					v[x] = byte(r.IntN(256))
				}
				kvs[j] = sth.KV{K: k, V: v}
				if ver == 1 {
					kvs[j].MD = genKVMetadata(r)
				}
			}
			var err error
			if ver == 1 && r.IntN(3) == 0 {
				_, err = sth.CommitMD(p, genTxMetadata(r), kvs...)
			} else {
				_, err = sth.Commit(p, kvs...)
			}
			if err != nil {
				c.Inconclusive("commit: " + err.Error())
				return
			}
		}
		tx := store.NewTx(opts.MaxTxEntries, opts.MaxKeyLen)
		for id := uint64(1); id <= uint64(ntx); id++ {
			e1, err := p.ExportTx(id, false, false, tx)
			if err != nil {
				c.Violation("export/error", fmt.Sprintf("ExportTx(%d) failed on a healthy store: %v", id, err), nil)
				break
			}
			e1 = append([]byte{}, e1...)
			hdr, err := q.ReplicateTx(context.Background(), e1, false, false)
			if err != nil {
				c.Violation("export/replicate-error", fmt.Sprintf("ReplicateTx of an honest export of tx %d failed: %v", id, err), map[string][]byte{"export.bin": e1})
				break
			}
			e2, err := q.ExportTx(id, false, false, tx)
			c.Eval(1)
			c.Distinct(fmt.Sprintf("export/v%d/embedded=%v/md=%v/len%d", ver, round%3 == 0, hdr.Metadata != nil && !hdr.Metadata.IsEmpty(), bucket(len(e1)/64)))
			if err != nil || !bytes.Equal(e1, e2) {
				c.Violation("export/roundtrip", fmt.Sprintf("ExportTx(ReplicateTx(ExportTx(tx %d))) differs from the first export (err %v)", id, err), map[string][]byte{"export1.bin": e1, "export2.bin": e2})
				break
			}
			if id == 1 && round == 0 {
				c.Sample(map[string]any{"check": "export-replicate-export", "tx": id, "bytes": len(e1), "header_version": ver})
			}
		}
		p.Close()
		q.Close()
	}
}

// End to end: an index scan with ORDER BY must return the rows in the order of
// the reference comparator (and what was stored must come back equal).
func sqlEndToEnd(c *fw.Ctx) {
	r := c.Rand("c15/sql")
	rounds := c.N(3, 60)
	for round := 0; round < rounds; round++ {
		dir := c.Dir("sql")
		st, err := store.Open(dir, store.DefaultOptions().WithMultiIndexing(true).WithSynced(false).WithMaxConcurrency(4).WithLogger(sth.QuietLogger()))
		if err != nil {
			c.Inconclusive("open: " + err.Error())
			return
		}
		eng, err := sql.NewEngine(st, sql.DefaultOptions().WithPrefix([]byte{2}))
		if err != nil {
			c.Inconclusive("engine: " + err.Error())
			st.Close()
			return
		}
		ctx := context.Background()
		_, _, err = eng.Exec(ctx, nil, `CREATE TABLE t (id INTEGER AUTO_INCREMENT, i INTEGER, b BOOLEAN, s VARCHAR[24], bl BLOB[24], u UUID, ts TIMESTAMP, f FLOAT, PRIMARY KEY id);
			CREATE INDEX ON t(i); CREATE INDEX ON t(b); CREATE INDEX ON t(s); CREATE INDEX ON t(bl); CREATE INDEX ON t(u); CREATE INDEX ON t(ts); CREATE INDEX ON t(f); CREATE INDEX ON t(s, f);`, nil)
		if err != nil {
			c.Inconclusive("create: " + err.Error())
			st.Close()
			return
		}
		cols := []struct {
			name string
			c    colT
		}{{"i", colT{sql.IntegerType, 8, false}}, {"b", colT{sql.BooleanType, 1, false}}, {"s", colT{sql.VarcharType, 24, false}}, {"bl", colT{sql.BLOBType, 24, false}}, {"u", colT{sql.UUIDType, 16, false}}, {"ts", colT{sql.TimestampType, 8, false}}, {"f", colT{sql.Float64Type, 8, false}}}
		nrows := 120
		rows := make([][]any, nrows)
		prev := make([]any, len(cols))
		for i := 0; i < nrows; i++ {
			row := make([]any, len(cols))
			params := map[string]any{}
			for j, col := range cols {
				var v any = genRaw(r, col.c, prev[j])
				if col.c.t == sql.VarcharType {
					v = printable(v.(string)) // statement parameters travel as Go strings; keep them valid text
				}
				if f, ok := v.(float64); ok && f == 0 {
					v = 0.0 // ±0 is judged by keyOrder under its own signature
				}
				if r.IntN(10) == 0 {
					v = nil
				}
				row[j] = v
				prev[j] = v
				params[col.name] = v
				if u, ok := v.(uuid.UUID); ok {
					params[col.name] = u.String() // parameters carry UUIDs in text form
				}
			}
			rows[i] = row
			_, _, err := eng.Exec(ctx, nil, "INSERT INTO t(i,b,s,bl,u,ts,f) VALUES (@i,@b,@s,@bl,@u,@ts,@f)", params)
			if err != nil {
				c.Violation("sql/insert-error", fmt.Sprintf("INSERT of legal values failed: %v (%v)", err, params), nil)
				st.Close()
				return
			}
		}
		for j, col := range cols {
			for _, desc := range []bool{false, true} {
				q := fmt.Sprintf("SELECT id, %s FROM t ORDER BY %s", col.name, col.name)
				if desc {
					q += " DESC"
				}
				rd, err := eng.Query(ctx, nil, q, nil)
				if err != nil {
					c.Inconclusive("query: " + err.Error())
					continue
				}
				var got []any
				var ids []int64
				for {
					row, err := rd.Read(ctx)
					if err != nil {
						break
					}
					ids = append(ids, row.ValuesByPosition[0].RawValue().(int64))
					got = append(got, rawOf(row.ValuesByPosition[1]))
				}
				rd.Close()
				c.Eval(1)
				c.Distinct(fmt.Sprintf("sql-orderby/%s/desc=%v", col.c.t, desc))
				if len(got) != nrows {
					c.Violation("sql/orderby/rowcount", fmt.Sprintf("%s returned %d rows of %d", q, len(got), nrows), nil)
					continue
				}
				for k := range got {
					want := rows[ids[k]-1][j]
					if !rawEqual(col.c.t, want, got[k]) {
						c.Violation("sql/stored-value/"+col.c.t, fmt.Sprintf("row %d column %s: stored %s, read %s", ids[k], col.name, show(col.c.t, want), show(col.c.t, got[k])), nil)
						break
					}
					if k > 0 {
						o := refCmp(col.c.t, got[k-1], got[k])
						if (!desc && o > 0) || (desc && o < 0) {
							c.Violation("sql/orderby/"+col.c.t, fmt.Sprintf("%s: %s came before %s", q, show(col.c.t, got[k-1]), show(col.c.t, got[k])), nil)
							break
						}
					}
				}
			}
		}
		if round == 0 {
			farOrder(c, eng)
		}
		// composite index (s, f): lexicographic
		rd, err := eng.Query(ctx, nil, "SELECT s, f FROM t WHERE s IS NOT NULL AND f IS NOT NULL ORDER BY s, f", nil)
		if err == nil {
			type pr struct {
				s string
				f float64
			}
			var got []pr
			for {
				row, err := rd.Read(ctx)
				if err != nil {
					break
				}
				got = append(got, pr{row.ValuesByPosition[0].RawValue().(string), row.ValuesByPosition[1].RawValue().(float64)})
			}
			rd.Close()
			c.Eval(1)
			c.Distinct("sql-orderby/composite")
			if !sort.SliceIsSorted(got, func(a, b int) bool {
				if got[a].s != got[b].s {
					return got[a].s < got[b].s
				}
				return got[a].f < got[b].f
			}) {
				c.Violation("sql/orderby/composite", "ORDER BY s, f through the composite index is not lexicographic", nil)
			}
		}
		sqlConversions(c, eng, c.Rand(fmt.Sprintf("c15/sqlconv/%d", round)), 400)
		st.Close()
	}
}

// far dates are legal TIMESTAMP values; their index order is judged under its own signature.
func farOrder(c *fw.Ctx, eng *sql.Engine) {
	ctx := context.Background()
	if _, _, err := eng.Exec(ctx, nil, "CREATE TABLE far (id INTEGER AUTO_INCREMENT, ts TIMESTAMP, PRIMARY KEY id); CREATE INDEX ON far(ts);", nil); err != nil {
		return
	}
	for _, y := range []int{2000, 3000, 1000, 2200} {
		eng.Exec(ctx, nil, "INSERT INTO far(ts) VALUES (@ts)", map[string]any{"ts": time.Date(y, 1, 1, 0, 0, 0, 0, time.UTC)})
	}
	rd, err := eng.Query(ctx, nil, "SELECT ts FROM far ORDER BY ts", nil)
	if err != nil {
		return
	}
	defer rd.Close()
	var prev time.Time
	for i := 0; ; i++ {
		row, err := rd.Read(ctx)
		if err != nil {
			break
		}
		t := row.ValuesByPosition[0].RawValue().(time.Time)
		c.Eval(1)
		if i > 0 && t.Before(prev) {
			c.Violation("keyenc/TIMESTAMP/beyond-int64-nanoseconds", fmt.Sprintf("SELECT ts FROM far ORDER BY ts: %s came before %s", prev, t), nil)
		}
		prev = t
	}
}

func printable(s string) string {
	var sb strings.Builder
	for i := 0; i < len(s); i++ {
		sb.WriteByte(32 + s[i]%95)
	}
	return sb.String()
}

var _ = math.Inf
var _ = time.Now
var _ = uuid.Nil
