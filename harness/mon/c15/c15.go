// Package c15: codecs round-trip, key encodings preserve SQL order.
package c15

import (
	"bytes"
	"fmt"
	"math"
	"math/rand/v2"
	"time"

	"github.com/codenotary/immudb/embedded/sql"
	"github.com/codenotary/immudb/embedded/store"
	"github.com/codenotary/immudb/pkg/api/schema"
	"github.com/google/uuid"

	"verifharness/internal/fw"
)

func init() { fw.RegisterMonitor("C15", "exploration", Run) }

type colT struct {
	t      sql.SQLValueType
	maxLen int
	far    bool // also generate timestamps outside the int64-nanosecond range
}

var keyTypes = []sql.SQLValueType{sql.IntegerType, sql.BooleanType, sql.VarcharType, sql.BLOBType, sql.UUIDType, sql.TimestampType, sql.Float64Type}

func fixedLen(t sql.SQLValueType) int {
	switch t {
	case sql.IntegerType, sql.TimestampType, sql.Float64Type:
		return 8
	case sql.BooleanType:
		return 1
	case sql.UUIDType:
		return 16
	}
	return 0
}

// harness comparator on raw values of one type (independent of the engine's).
func refCmp(t sql.SQLValueType, a, b any) int {
	if a == nil || b == nil {
		switch {
		case a == nil && b == nil:
			return 0
		case a == nil:
			return -1
		}
		return 1
	}
	switch t {
	case sql.IntegerType:
		x, y := a.(int64), b.(int64)
		return cmpOrd(x < y, x > y)
	case sql.BooleanType:
		x, y := a.(bool), b.(bool)
		return cmpOrd(!x && y, x && !y)
	case sql.VarcharType:
		return bytes.Compare([]byte(a.(string)), []byte(b.(string)))
	case sql.BLOBType:
		return bytes.Compare(a.([]byte), b.([]byte))
	case sql.UUIDType:
		x, y := a.(uuid.UUID), b.(uuid.UUID)
		return bytes.Compare(x[:], y[:])
	case sql.TimestampType:
		x, y := a.(time.Time), b.(time.Time)
		return cmpOrd(x.Before(y), x.After(y))
	case sql.Float64Type:
		x, y := a.(float64), b.(float64)
		return cmpOrd(x < y, x > y)
	}
	panic("type")
}

func cmpOrd(lt, gt bool) int {
	if lt {
		return -1
	}
	if gt {
		return 1
	}
	return 0
}

func sign(x int) int { return cmpOrd(x < 0, x > 0) }

var intEdges = []int64{math.MinInt64, math.MinInt64 + 1, -1 << 32, -256, -2, -1, 0, 1, 2, 255, 256, 1 << 32, math.MaxInt64 - 1, math.MaxInt64}
var floatEdges = []float64{math.Inf(-1), -math.MaxFloat64, -1e300, -2, -1, -math.SmallestNonzeroFloat64, math.Copysign(0, -1), 0, math.SmallestNonzeroFloat64, 2.2250738585072014e-308, 1, 2, 1e300, math.MaxFloat64, math.Inf(1)}

// timestamps: microsecond precision (what SQL stores), before and after 1970,
// inside the range representable as int64 nanoseconds (1678..2262).
var tsEdges = []time.Time{
	time.Unix(-9000000000, 0).UTC(), time.Unix(-1, 999999000).UTC(), time.Unix(0, 0).UTC(), time.Unix(0, 1000).UTC(),
	time.Unix(1, 0).UTC(), time.Unix(1700000000, 123456000).UTC(), time.Unix(9000000000, 999999000).UTC(),
	time.Date(1700, 1, 1, 0, 0, 0, 0, time.UTC), time.Date(2262, 1, 1, 0, 0, 0, 0, time.UTC),
}

func genRaw(r *rand.Rand, c colT, near any) any {
	switch c.t {
	case sql.IntegerType:
		if near != nil && r.IntN(2) == 0 {
			v := near.(int64)
			switch r.IntN(3) {
			case 0:
				return v ^ (1 << uint(r.IntN(64)))
			case 1:
				if v < math.MaxInt64 {
					return v + 1
				}
			}
			return v
		}
		if r.IntN(3) == 0 {
			return intEdges[r.IntN(len(intEdges))]
		}
		return int64(r.Uint64()) >> uint(r.IntN(64))
	case sql.BooleanType:
		return r.IntN(2) == 0
	case sql.VarcharType, sql.BLOBType:
		var b []byte
		if near != nil && r.IntN(2) == 0 {
			if c.t == sql.VarcharType {
				b = []byte(near.(string))
			} else {
				b = append([]byte{}, near.([]byte)...)
			}
			switch r.IntN(4) {
			case 0:
				if len(b) < c.maxLen {
					b = append(b, byte(r.IntN(3))) // often NUL
				}
			case 1:
				if len(b) > 0 {
					b = b[:len(b)-1]
				}
			case 2:
				if len(b) > 0 {
					b[r.IntN(len(b))] ^= 1 << uint(r.IntN(8))
				}
			}
		} else {
			n := r.IntN(c.maxLen + 1)
			if r.IntN(4) == 0 {
				n = c.maxLen
			}
			b = make([]byte, n)
			for i := range b {
				switch r.IntN(4) {
				case 0:
					b[i] = 0
				case 1:
					b[i] = 0xff
				default:
					b[i] = byte(r.IntN(256))
				}
			}
		}
		if c.t == sql.VarcharType {
			return string(b)
		}
		return b
	case sql.UUIDType:
		var u uuid.UUID
		if near != nil && r.IntN(2) == 0 {
			u = near.(uuid.UUID)
			u[r.IntN(16)] ^= 1 << uint(r.IntN(8))
			return u
		}
		for i := range u {
			u[i] = byte(r.IntN(256))
		}
		if r.IntN(8) == 0 {
			u = uuid.UUID{}
		}
		return u
	case sql.TimestampType:
		if near != nil && r.IntN(2) == 0 {
			return near.(time.Time).Add(time.Duration(r.IntN(5)-2) * time.Microsecond)
		}
		if r.IntN(3) == 0 {
			return tsEdges[r.IntN(len(tsEdges))]
		}
		if c.far && r.IntN(25) == 0 {
			// far dates: legal SQL timestamps (stored as int64 microseconds) outside the int64-nanosecond range
			return time.Date([]int{1, 1000, 1600, 2300, 3000, 9999}[r.IntN(6)], time.Month(1+r.IntN(12)), 1+r.IntN(28), r.IntN(24), 0, 0, 0, time.UTC)
		}
		// microseconds in [-9e15, 9e15]
		us := r.Int64N(18e15) - 9e15
		return sql.TimeFromInt64(us)
	case sql.Float64Type:
		if near != nil && r.IntN(2) == 0 {
			v := near.(float64)
			if r.IntN(2) == 0 {
				return math.Nextafter(v, math.Inf(1))
			}
			return math.Nextafter(v, math.Inf(-1))
		}
		if r.IntN(3) == 0 {
			return floatEdges[r.IntN(len(floatEdges))]
		}
		for {
			f := math.Float64frombits(r.Uint64())
			if !math.IsNaN(f) {
				return f
			}
		}
	}
	panic("type")
}

func rawEqual(t sql.SQLValueType, a, b any) bool {
	if a == nil || b == nil {
		return a == nil && b == nil
	}
	switch t {
	case sql.BLOBType:
		return bytes.Equal(a.([]byte), b.([]byte))
	case sql.TimestampType:
		return a.(time.Time).Equal(b.(time.Time))
	case sql.Float64Type:
		return math.Float64bits(a.(float64)) == math.Float64bits(b.(float64))
	}
	return a == b
}

func show(t sql.SQLValueType, v any) string {
	switch x := v.(type) {
	case nil:
		return "NULL"
	case []byte:
		return fmt.Sprintf("%s:x'%x'", t, x)
	case string:
		return fmt.Sprintf("%s:%q", t, x)
	case float64:
		return fmt.Sprintf("%s:%v(bits %016x)", t, x, math.Float64bits(x))
	case time.Time:
		return fmt.Sprintf("%s:%s", t, x.UTC().Format(time.RFC3339Nano))
	}
	return fmt.Sprintf("%s:%v", t, v)
}

func floatClass(f float64) string {
	switch {
	case math.IsInf(f, 0):
		return "inf"
	case f == 0 && math.Signbit(f):
		return "-0"
	case f == 0:
		return "+0"
	case math.Abs(f) < 2.2250738585072014e-308:
		return "subnormal"
	case f < 0:
		return "neg"
	}
	return "pos"
}

func valClass(t sql.SQLValueType, v any) string {
	switch x := v.(type) {
	case nil:
		return "null"
	case int64:
		return fmt.Sprintf("int%d", sign(int(cmpOrd(x < 0, x > 0))))
	case float64:
		return floatClass(x)
	case string:
		return fmt.Sprintf("len%d", bucket(len(x)))
	case []byte:
		return fmt.Sprintf("len%d", bucket(len(x)))
	case time.Time:
		if x.Before(time.Unix(0, 0)) {
			return "pre1970"
		}
		return "post1970"
	case bool:
		return fmt.Sprint(x)
	}
	return "v"
}

func bucket(n int) int {
	switch {
	case n == 0:
		return 0
	case n < 4:
		return 1
	case n < 32:
		return 2
	}
	return 3
}

func Run(c *fw.Ctx) {
	c.Rule = "PRNG values per SQL type (boundaries, neighbours one bit/ulp/byte/µs apart); an evaluation is one round-trip or one order/equality decision; distinct = (check kind × type × value class pair × outcome sign)"
	c.Assume("NaN is not generated: no SQL comparison is defined for it")
	c.Assume("timestamps are generated inside the int64-nanosecond range (1678..2262) and at microsecond precision, the precision SQL stores")
	keyOrder(c)
	valueRoundTrip(c)
	composite(c)
	headers(c)
	protoConv(c)
	exportReplicate(c)
	sqlEndToEnd(c)
}

func encKey(c colT, v any) ([]byte, error) {
	b, _, err := sql.EncodeRawValueAsKey(v, c.t, c.maxLen)
	return b, err
}

func typed(c colT, v any) (sql.TypedValue, error) {
	if v == nil {
		return sql.NewNull(c.t), nil
	}
	b, err := sql.EncodeRawValue(v, c.t, c.maxLen, false)
	if err != nil {
		return nil, err
	}
	tv, _, err := sql.DecodeValue(b, c.t)
	return tv, err
}

func keyOrder(c *fw.Ctx) {
	r := c.Rand("c15/keyorder")
	n := c.N(1_200_000, 60_000_000)
	for i := 0; i < n; i++ {
		t := keyTypes[r.IntN(len(keyTypes))]
		col := colT{t, fixedLen(t), true}
		if col.maxLen == 0 {
			col.maxLen = []int{1, 2, 3, 8, 33, 256, 512}[r.IntN(7)]
			if r.IntN(50) == 0 {
				col.maxLen = sql.MaxKeyLen
			}
		}
		var a, b any
		a = genRaw(r, col, nil)
		if r.IntN(3) > 0 {
			b = genRaw(r, col, a)
		} else {
			b = genRaw(r, col, nil)
		}
		if r.IntN(20) == 0 {
			a = nil
		}
		if r.IntN(20) == 0 {
			b = nil
		}
		ea, err1 := encKey(col, a)
		eb, err2 := encKey(col, b)
		if err1 != nil || err2 != nil {
			c.Violation("keyenc/"+t+"/encode-error", fmt.Sprintf("EncodeRawValueAsKey failed for a legal value: %s / %s: %v %v (maxLen %d)", show(t, a), show(t, b), err1, err2, col.maxLen), nil)
			continue
		}
		// round trip through the key decoder
		for _, p := range []struct {
			v any
			e []byte
		}{{a, ea}, {b, eb}} {
			dv, nread, err := sql.DecodeValueFromKey(p.e, col.t, col.maxLen)
			c.Eval(1)
			if err != nil || nread != len(p.e) || (dv != nil && dv.IsNull()) != (p.v == nil) || refCmp(t, p.v, rawOf(dv)) != 0 {
				if farTS(p.v) {
					c.Violation("keyenc/TIMESTAMP/beyond-int64-nanoseconds", fmt.Sprintf("key round trip of %s gives %v", show(t, p.v), rawShow(t, dv)), nil)
					continue
				}
				c.Violation("keyenc/"+t+"/roundtrip", fmt.Sprintf("DecodeValueFromKey(EncodeRawValueAsKey(%s)) = %v (n=%d of %d, err=%v)", show(t, p.v), rawShow(t, dv), nread, len(p.e), err), nil)
			}
		}
		want := refCmp(t, a, b)
		got := sign(bytes.Compare(ea, eb))
		c.Eval(1)
		c.Distinct(fmt.Sprintf("order/%s/%s~%s/%d", t, valClass(t, a), valClass(t, b), want))
		if i < 3 {
			c.Sample(map[string]any{"check": "key-order", "a": show(t, a), "b": show(t, b), "enc_a": fmt.Sprintf("%x", trunc(ea)), "enc_b": fmt.Sprintf("%x", trunc(eb)), "cmp": want})
		}
		if a != nil && b != nil {
			// the engine's own comparator must agree with the harness comparator
			ta, e1 := typed(col, a)
			tb, e2 := typed(col, b)
			if e1 == nil && e2 == nil {
				ec, err := ta.Compare(tb)
				c.Eval(1)
				if err != nil || sign(ec) != want {
					c.Violation("compare/"+t+"/engine-vs-reference", fmt.Sprintf("TypedValue.Compare(%s, %s) = %d, %v; reference %d", show(t, a), show(t, b), ec, err, want), nil)
				}
			}
		}
		if got != want {
			sig := "keyenc/" + t + "/order"
			if t == sql.Float64Type && a.(float64) == 0 && b.(float64) == 0 {
				sig = "keyenc/FLOAT/negative-zero"
			} else if t == sql.TimestampType && (farTS(a) || farTS(b)) {
				sig = "keyenc/TIMESTAMP/beyond-int64-nanoseconds"
			} else if want == 0 {
				sig = "keyenc/" + t + "/equal-values-different-encoding"
			}
			c.Violation(sig, fmt.Sprintf("values %s and %s compare %d in SQL but their index keys compare %d (%x vs %x)", show(t, a), show(t, b), want, got, trunc(ea), trunc(eb)), nil)
		}
	}
}

func farTS(v any) bool {
	t, ok := v.(time.Time)
	return ok && (t.Year() < 1678 || t.Year() > 2261)
}

func trunc(b []byte) []byte {
	if len(b) > 48 {
		return b[:48]
	}
	return b
}

func rawOf(tv sql.TypedValue) any {
	if tv == nil || tv.IsNull() {
		return nil
	}
	return tv.RawValue()
}

func rawShow(t sql.SQLValueType, tv sql.TypedValue) string {
	if tv == nil {
		return "<nil>"
	}
	return show(t, rawOf(tv))
}

func valueRoundTrip(c *fw.Ctx) {
	r := c.Rand("c15/value")
	n := c.N(400_000, 20_000_000)
	for i := 0; i < n; i++ {
		t := keyTypes[r.IntN(len(keyTypes))]
		col := colT{t, fixedLen(t), true}
		if col.maxLen == 0 {
			col.maxLen = []int{0, 1, 7, 256, 4096}[r.IntN(5)]
		}
		gl := col
		if gl.maxLen == 0 {
			gl.maxLen = 64
		}
		var v any = genRaw(r, gl, nil)
		nullable := r.IntN(2) == 0
		if nullable && r.IntN(10) == 0 {
			v = nil
		}
		enc, err := sql.EncodeRawValue(v, t, col.maxLen, nullable)
		c.Eval(1)
		if err != nil {
			c.Violation("valenc/"+t+"/encode-error", fmt.Sprintf("EncodeRawValue(%s) failed: %v", show(t, v), err), nil)
			continue
		}
		// followed by trailing bytes, as inside a row
		buf := append(append([]byte{}, enc...), 0xAA, 0xBB)
		var dv sql.TypedValue
		var nread int
		if nullable {
			dv, nread, err = sql.DecodeNullableValue(buf, t)
		} else {
			dv, nread, err = sql.DecodeValue(buf, t)
		}
		c.Distinct(fmt.Sprintf("value/%s/%s/nullable=%v", t, valClass(t, v), nullable))
		// an empty varchar/blob in a nullable column is encoded exactly like NULL: the
		// codec cannot tell them apart; that is a documented trait of the row format
		// (length 0 = NULL), so it is only required to come back as NULL or empty.
		emptyVar := nullable && v != nil && (t == sql.VarcharType || t == sql.BLOBType) && bucket(lenOf(v)) == 0
		if err != nil || nread != len(enc) || (!emptyVar && !rawEqual(t, v, rawOf(dv))) {
			c.Violation("valenc/"+t+"/roundtrip", fmt.Sprintf("DecodeValue(EncodeRawValue(%s, nullable=%v)) = %s (n=%d of %d, err=%v)", show(t, v), nullable, rawShow(t, dv), nread, len(enc), err), nil)
		}
		if i == 0 {
			c.Sample(map[string]any{"check": "value-roundtrip", "value": show(t, v), "encoded": fmt.Sprintf("%x", trunc(enc))})
		}
	}
}

func lenOf(v any) int {
	switch x := v.(type) {
	case string:
		return len(x)
	case []byte:
		return len(x)
	}
	return -1
}

// composite keys must order lexicographically by column.
func composite(c *fw.Ctx) {
	r := c.Rand("c15/composite")
	n := c.N(200_000, 10_000_000)
	for i := 0; i < n; i++ {
		ncols := 2 + r.IntN(3)
		cols := make([]colT, ncols)
		for j := range cols {
			t := keyTypes[r.IntN(len(keyTypes))]
			cols[j] = colT{t, fixedLen(t), true}
			if cols[j].maxLen == 0 {
				cols[j].maxLen = 1 + r.IntN(12)
			}
		}
		a := make([]any, ncols)
		b := make([]any, ncols)
		var ka, kb []byte
		want := 0
		shape := ""
		bad := false
		for j, col := range cols {
			a[j] = genRaw(r, col, nil)
			if r.IntN(3) > 0 {
				b[j] = a[j] // long equal prefixes
			} else {
				b[j] = genRaw(r, col, a[j])
			}
			if r.IntN(12) == 0 {
				a[j] = nil
			}
			if r.IntN(12) == 0 {
				b[j] = nil
			}
			if col.t == sql.Float64Type && a[j] != nil && b[j] != nil && a[j].(float64) == 0 && b[j].(float64) == 0 && math.Signbit(a[j].(float64)) != math.Signbit(b[j].(float64)) {
				bad = true // ±0 is judged by keyOrder under its own signature
			}
			ea, e1 := encKey(col, a[j])
			eb, e2 := encKey(col, b[j])
			if e1 != nil || e2 != nil {
				bad = true
				break
			}
			ka = append(ka, ea...)
			kb = append(kb, eb...)
			cj := refCmp(col.t, a[j], b[j])
			if want == 0 && cj != 0 {
				want = cj
				shape = fmt.Sprintf("decided-at-col%d-of-%d/%s", j, ncols, col.t)
			}
		}
		if bad {
			continue
		}
		if shape == "" {
			shape = fmt.Sprintf("all-equal/%d", ncols)
		}
		got := sign(bytes.Compare(ka, kb))
		c.Eval(1)
		c.Distinct("composite/" + shape)
		if got != want {
			desc := ""
			for j, col := range cols {
				desc += fmt.Sprintf("[%s | %s] ", show(col.t, a[j]), show(col.t, b[j]))
			}
			sig := "keyenc/composite/order"
			for j := range cols {
				if farTS(a[j]) || farTS(b[j]) {
					sig = "keyenc/TIMESTAMP/beyond-int64-nanoseconds"
				}
			}
			c.Violation(sig, fmt.Sprintf("composite keys compare %d, column-wise SQL comparison %d: %s", got, want, desc), nil)
		}
	}
}

func randHash(r *rand.Rand) (h [32]byte) {
	for i := range h {
		h[i] = byte(r.IntN(256))
	}
	return
}

func genTxMetadata(r *rand.Rand) *store.TxMetadata {
	md := store.NewTxMetadata()
	if r.IntN(2) == 0 {
		md.WithTruncatedTxID(1 + r.Uint64N(1<<uint(1+r.IntN(63))))
	}
	if r.IntN(2) == 0 {
		n := []int{1, 2, 255, 256, r.IntN(257)}[r.IntN(5)]
		if n == 0 {
			n = 1
		}
		ex := make([]byte, n)
		for i := range ex {
			ex[i] = byte(r.IntN(256))
		}
		md.WithExtra(ex)
	}
	return md
}

func headers(c *fw.Ctx) {
	r := c.Rand("c15/headers")
	n := c.N(200_000, 10_000_000)
	for i := 0; i < n; i++ {
		h := &store.TxHeader{
			ID:      1 + r.Uint64N(1<<uint(1+r.IntN(63))),
			Ts:      int64(r.Uint64()),
			PrevAlh: randHash(r), BlRoot: randHash(r), Eh: randHash(r),
			Version: r.IntN(2),
		}
		h.BlTxID = r.Uint64N(h.ID)
		if h.Version == 0 {
			h.NEntries = 1 + r.IntN(65535)
		} else {
			h.NEntries = 1 + r.IntN(1<<uint(1+r.IntN(30)))
			if r.IntN(3) > 0 {
				h.Metadata = genTxMetadata(r)
			}
		}
		b, err := h.Bytes()
		c.Eval(1)
		if err != nil {
			c.Violation("txheader/bytes-error", fmt.Sprintf("TxHeader.Bytes failed on %+v: %v", h, err), nil)
			continue
		}
		var g store.TxHeader
		err = g.ReadFrom(b)
		mdState := "nomd"
		if h.Metadata != nil {
			mdState = fmt.Sprintf("md(trunc=%v,extra=%d)", h.Metadata.HasTruncatedTxID(), bucket(len(h.Metadata.Extra())))
		}
		c.Distinct(fmt.Sprintf("txheader/v%d/%s", h.Version, mdState))
		ok := err == nil && g.ID == h.ID && g.Ts == h.Ts && g.PrevAlh == h.PrevAlh && g.BlRoot == h.BlRoot && g.Eh == h.Eh &&
			g.Version == h.Version && g.NEntries == h.NEntries && g.BlTxID == h.BlTxID && mdEqual(g.Metadata, h.Metadata)
		if ok {
			b2, err2 := g.Bytes()
			ok = err2 == nil && bytes.Equal(b, b2) && g.Alh() == h.Alh()
		}
		if !ok {
			c.Violation("txheader/roundtrip", fmt.Sprintf("TxHeader round trip differs: %+v -> %+v (err %v)", h, g, err), map[string][]byte{"header.bin": b})
		}
		if i == 0 {
			c.Sample(map[string]any{"check": "txheader-roundtrip", "id": h.ID, "version": h.Version, "nentries": h.NEntries, "bytes": len(b)})
		}
		// tx metadata alone
		md := genTxMetadata(r)
		mb := md.Bytes()
		md2 := store.NewTxMetadata()
		c.Eval(1)
		if len(mb) > 0 {
			if err := md2.ReadFrom(mb); err != nil || !mdEqual(md, md2) || !bytes.Equal(md2.Bytes(), mb) {
				c.Violation("txmetadata/roundtrip", fmt.Sprintf("TxMetadata round trip differs (err %v): %x", err, mb), nil)
			}
		}
	}
}

func mdEqual(a, b *store.TxMetadata) bool {
	ae := a == nil || a.IsEmpty()
	be := b == nil || b.IsEmpty()
	if ae || be {
		return ae == be
	}
	if a.HasTruncatedTxID() != b.HasTruncatedTxID() {
		return false
	}
	if a.HasTruncatedTxID() {
		x, _ := a.GetTruncatedTxID()
		y, _ := b.GetTruncatedTxID()
		if x != y {
			return false
		}
	}
	return bytes.Equal(a.Extra(), b.Extra())
}

func genKVMetadata(r *rand.Rand) *store.KVMetadata {
	if r.IntN(4) == 0 {
		return nil
	}
	md := store.NewKVMetadata()
	md.AsDeleted(r.IntN(2) == 0)
	md.AsNonIndexable(r.IntN(2) == 0)
	if r.IntN(2) == 0 {
		md.ExpiresAt(time.Unix(r.Int64N(1<<40)-(1<<30), 0))
	}
	return md
}

func kvmdEqual(a, b *store.KVMetadata) bool {
	trivial := func(m *store.KVMetadata) bool {
		return m == nil || (!m.Deleted() && !m.NonIndexable() && !m.IsExpirable())
	}
	if trivial(a) || trivial(b) {
		return trivial(a) == trivial(b)
	}
	if a.Deleted() != b.Deleted() || a.NonIndexable() != b.NonIndexable() || a.IsExpirable() != b.IsExpirable() {
		return false
	}
	if a.IsExpirable() {
		x, _ := a.ExpirationTime()
		y, _ := b.ExpirationTime()
		return x.Equal(y)
	}
	return true
}

func protoConv(c *fw.Ctx) {
	r := c.Rand("c15/proto")
	n := c.N(100_000, 5_000_000)
	for i := 0; i < n; i++ {
		// headers
		h := &store.TxHeader{ID: 1 + r.Uint64N(1<<40), Ts: r.Int64(), PrevAlh: randHash(r), BlRoot: randHash(r), Eh: randHash(r), Version: r.IntN(2), NEntries: 1 + r.IntN(1<<20)}
		h.BlTxID = r.Uint64N(h.ID)
		if h.Version == 1 && r.IntN(2) == 0 {
			h.Metadata = genTxMetadata(r)
		}
		g := schema.TxHeaderFromProto(schema.TxHeaderToProto(h))
		c.Eval(1)
		c.Distinct(fmt.Sprintf("proto/txheader/v%d/md=%v", h.Version, h.Metadata != nil && !h.Metadata.IsEmpty()))
		if g.ID != h.ID || g.Ts != h.Ts || g.PrevAlh != h.PrevAlh || g.BlRoot != h.BlRoot || g.Eh != h.Eh || g.Version != h.Version ||
			g.NEntries != h.NEntries || g.BlTxID != h.BlTxID || !mdEqual(g.Metadata, h.Metadata) || g.Alh() != h.Alh() {
			c.Violation("proto/txheader/roundtrip", fmt.Sprintf("TxHeaderFromProto(TxHeaderToProto(h)) differs: %+v -> %+v", h, g), nil)
		}
		// kv metadata
		md := genKVMetadata(r)
		md2 := schema.KVMetadataFromProto(schema.KVMetadataToProto(md))
		c.Eval(1)
		c.Distinct(fmt.Sprintf("proto/kvmd/%v", md == nil))
		if !kvmdEqual(md, md2) {
			c.Violation("proto/kvmetadata/roundtrip", fmt.Sprintf("KVMetadata proto round trip differs: %+v -> %+v", md, md2), nil)
		}
		// whole tx (entries digest must be preserved: Eh is recomputed from the entries)
		ne := 1 + r.IntN(6)
		es := make([]*store.TxEntry, ne)
		for j := range es {
			k := make([]byte, 1+r.IntN(20))
			for x := range k {
				k[x] = byte(r.IntN(256))
			}
			k = append(k, byte(j))
			es[j] = store.NewTxEntry(k, genKVMetadata(r), r.IntN(1<<20), randHash(r), r.Int64N(1<<40))
		}
		th := *h
		th.NEntries = ne
		th.Version = 1
		tx := store.NewTxWithEntries(&th, es)
		if err := tx.BuildHashTree(); err != nil {
			continue
		}
		tx2 := schema.TxFromProto(schema.TxToProto(tx))
		c.Eval(1)
		same := tx2.Header().Eh == tx.Header().Eh && tx2.Header().Alh() == tx.Header().Alh() && len(tx2.Entries()) == ne
		if same {
			for j := range es {
				e1, e2 := tx.Entries()[j], tx2.Entries()[j]
				if !bytes.Equal(e1.Key(), e2.Key()) || e1.HVal() != e2.HVal() || e1.VLen() != e2.VLen() || !kvmdEqual(e1.Metadata(), e2.Metadata()) {
					same = false
				}
			}
		}
		if !same {
			c.Violation("proto/tx/roundtrip", "TxFromProto(TxToProto(tx)) differs in entries, Eh or Alh", nil)
		}
		// SQL values
		t := keyTypes[r.IntN(len(keyTypes))]
		col := colT{t, 32, false}
		v := genRaw(r, col, nil)
		tv, err := typed(colT{t, 0, false}, v)
		if err == nil && t != sql.UUIDType { // UUID travels as its string form, not invertible by RawValue by design
			back := schema.RawValue(schema.TypedValueToRowValue(tv))
			c.Eval(1)
			c.Distinct("proto/sqlvalue/" + t)
			if !rawEqual(t, v, back) {
				c.Violation("proto/sqlvalue/"+t+"/roundtrip", fmt.Sprintf("RawValue(TypedValueToRowValue(%s)) = %v", show(t, v), back), nil)
			}
		}
	}
}
