package c11

import (
	"encoding/hex"
	"fmt"
	"math/rand/v2"
	"strconv"
	"strings"
	"time"
)

// ---------------------------------------------------------------- values

type kind int

const (
	kInt kind = iota
	kBool
	kVarchar
	kBlob
	kTs
	kFloat
	kUUID
	kJSON
)

var kindName = map[kind]string{kInt: "int", kBool: "bool", kVarchar: "varchar", kBlob: "blob", kTs: "ts", kFloat: "float", kUUID: "uuid", kJSON: "json"}

// val is a harness-side SQL value (what was written / what was read).
type val struct {
	Null bool
	K    kind
	I    int64
	S    string // varchar / json text
	B    bool
	X    []byte // blob / uuid
	T    time.Time
	F    float64
}

func (v val) lit() string {
	if v.Null {
		return "NULL"
	}
	switch v.K {
	case kInt:
		return strconv.FormatInt(v.I, 10)
	case kBool:
		if v.B {
			return "true"
		}
		return "false"
	case kVarchar, kJSON:
		return "'" + v.S + "'"
	case kBlob:
		return "x'" + strings.ToUpper(hex.EncodeToString(v.X)) + "'"
	case kTs:
		return "CAST('" + v.T.UTC().Format("2006-01-02 15:04:05.000000") + "' AS TIMESTAMP)"
	case kFloat:
		s := strconv.FormatFloat(v.F, 'f', -1, 64)
		if !strings.ContainsAny(s, ".") {
			s += ".0"
		}
		return s
	case kUUID:
		h := hex.EncodeToString(v.X)
		return "CAST('" + h[0:8] + "-" + h[8:12] + "-" + h[12:16] + "-" + h[16:20] + "-" + h[20:32] + "' AS UUID)"
	}
	return "NULL"
}

const strAlphabet = "abcABCxyz019 _%-.#"

func genPool(r *rand.Rand, k kind, maxLen int, small bool) []val {
	n := 4 + r.IntN(6)
	var out []val
	switch k {
	case kInt:
		if small {
			base := int64(r.IntN(2000) - 1000)
			for i := 0; i < n; i++ {
				out = append(out, val{K: kInt, I: base + int64(r.IntN(40)-20)})
			}
			out = append(out, val{K: kInt, I: 0}, val{K: kInt, I: -1})
		} else {
			ext := []int64{0, 1, -1, 255, 256, -256, 65535, 1 << 31, -(1 << 31), 1<<63 - 1, -(1<<63 - 1), 1 << 40, -(1 << 40)}
			for i := 0; i < n; i++ {
				out = append(out, val{K: kInt, I: ext[r.IntN(len(ext))]})
			}
		}
	case kBool:
		out = []val{{K: kBool, B: true}, {K: kBool, B: false}}
	case kVarchar:
		stem := ""
		for i := 0; i < n; i++ {
			var s string
			switch r.IntN(5) {
			case 0: // grow a common stem: prefixes of one another
				if len(stem) < maxLen {
					stem += string(strAlphabet[r.IntN(len(strAlphabet))])
				}
				s = stem
			case 1:
				s = ""
			case 2: // full length
				b := make([]byte, maxLen)
				for j := range b {
					b[j] = strAlphabet[r.IntN(len(strAlphabet))]
				}
				s = string(b)
			default:
				b := make([]byte, r.IntN(maxLen+1))
				for j := range b {
					b[j] = strAlphabet[r.IntN(len(strAlphabet))]
				}
				s = string(b)
			}
			out = append(out, val{K: kVarchar, S: s})
		}
	case kBlob:
		for i := 0; i < n; i++ {
			b := make([]byte, r.IntN(maxLen+1))
			for j := range b {
				b[j] = []byte{0, 1, 0x7f, 0x80, 0xff, 0x41}[r.IntN(6)]
			}
			out = append(out, val{K: kBlob, X: b})
		}
	case kTs:
		// inside 1700..2200 (far timestamps are a recorded finding of C15), microsecond precision
		for i := 0; i < n; i++ {
			var t time.Time
			switch r.IntN(4) {
			case 0:
				t = time.Date(1969, 12, 31, 23, 59, 59, 0, time.UTC).Add(time.Duration(r.IntN(3)) * time.Second)
			case 1:
				t = time.Date(1700+r.IntN(500), time.Month(1+r.IntN(12)), 1+r.IntN(28), r.IntN(24), r.IntN(60), r.IntN(60), 0, time.UTC)
			default:
				t = time.Date(2020, 1, 1+r.IntN(3), 0, 0, r.IntN(3), r.IntN(1000000)*1000, time.UTC)
			}
			out = append(out, val{K: kTs, T: t})
		}
	case kFloat:
		// no negative zero, no NaN/Inf
		cands := []float64{0, 1, -1, 0.5, -0.5, 1.25, 1.5, 1.75, -2.75, -2.25, 3.25, 3.5, 1e15, -1e15, 123456.789, 0.000244140625, -0.000244140625, 3, -3}
		for i := 0; i < n; i++ {
			out = append(out, val{K: kFloat, F: cands[r.IntN(len(cands))]})
		}
	case kUUID:
		for i := 0; i < n; i++ {
			b := make([]byte, 16)
			for j := range b {
				b[j] = []byte{0, 1, 0x7f, 0x80, 0xff}[r.IntN(5)]
			}
			out = append(out, val{K: kUUID, X: b})
		}
	case kJSON:
		for _, s := range []string{`{"a": 1}`, `{"a": 2, "b": "x"}`, `[1, 2, 3]`, `"str"`, `12`, `{"n": null}`} {
			out = append(out, val{K: kJSON, S: s})
		}
	}
	return out
}

// ---------------------------------------------------------------- schema

type column struct {
	Name    string
	K       kind
	Len     int
	NotNull bool
	PK      bool
	Uniq    bool // values never repeat (dedicated counter)
	Small   bool // small integers: SUM and arithmetic are overflow-free
	Pool    []val
}

func (c *column) ddl() string {
	s := c.Name + " "
	switch c.K {
	case kInt:
		s += "INTEGER"
	case kBool:
		s += "BOOLEAN"
	case kVarchar:
		s += fmt.Sprintf("VARCHAR[%d]", c.Len)
	case kBlob:
		s += fmt.Sprintf("BLOB[%d]", c.Len)
	case kTs:
		s += "TIMESTAMP"
	case kFloat:
		s += "FLOAT"
	case kUUID:
		s += "UUID"
	case kJSON:
		s += "JSON"
	}
	if c.NotNull && !c.PK {
		s += " NOT NULL"
	}
	return s
}

type index struct {
	Cols   []string
	Unique bool
	Late   bool // created after the first data
}

func (ix index) class(s *schema) string {
	if ix.Unique {
		return "unique"
	}
	if len(ix.Cols) > 1 {
		return "composite"
	}
	return "single-" + kindName[s.col(ix.Cols[0]).K]
}

type schema struct {
	Cols []*column // primary key columns first
	PK   []*column
	Idx  []index // secondary indexes of t_idx
	uniq int64   // counter for unique columns

	// named statement parameters (@p1, @p2 …): every Exec / Query of the case gets the whole map
	Params map[string]interface{}
}

// operand renders a comparison constant: a literal, or (now and then) a named parameter.
func (s *schema) operand(r *rand.Rand, v val) string {
	if v.Null || r.IntN(4) != 0 {
		return v.lit()
	}
	var pv interface{}
	switch v.K {
	case kInt:
		pv = v.I
	case kVarchar:
		pv = v.S
	case kBool:
		pv = v.B
	case kBlob:
		pv = append([]byte{}, v.X...)
	case kTs:
		pv = v.T
	case kFloat:
		pv = v.F
	default:
		return v.lit() // UUID parameters travel as text: keep the typed literal
	}
	if s.Params == nil {
		s.Params = map[string]interface{}{}
	}
	name := fmt.Sprintf("p%d", len(s.Params)+1)
	s.Params[name] = pv
	return "@" + name
}

func (s *schema) col(name string) *column {
	for _, c := range s.Cols {
		if c.Name == name {
			return c
		}
	}
	return nil
}

// indexedAs tells how t_idx can reach column c: "pk", "indexed" (leading column
// of a secondary index), "indexed-nonleading" or "unindexed".
func (s *schema) indexedAs(c *column) string {
	if c.PK && s.PK[0] == c {
		return "pk"
	}
	non := false
	for _, ix := range s.Idx {
		for i, n := range ix.Cols {
			if n == c.Name {
				if i == 0 {
					return "indexed"
				}
				non = true
			}
		}
	}
	if non || c.PK {
		return "indexed-nonleading"
	}
	return "unindexed"
}

func genSchema(r *rand.Rand) *schema {
	s := &schema{}
	switch r.IntN(10) {
	case 0, 1: // composite primary key
		id := &column{Name: "id", K: kInt, PK: true, NotNull: true}
		for i := 1; i <= 9; i++ {
			id.Pool = append(id.Pool, val{K: kInt, I: int64(i)})
		}
		k := &column{Name: "k", K: kVarchar, Len: 4, PK: true, NotNull: true}
		for _, x := range []string{"a", "ab", "b", "B", "zz"} {
			k.Pool = append(k.Pool, val{K: kVarchar, S: x})
		}
		s.Cols = append(s.Cols, id, k)
	case 2: // varchar primary key
		id := &column{Name: "id", K: kVarchar, Len: 6, PK: true, NotNull: true}
		for i := 0; i < 40; i++ {
			id.Pool = append(id.Pool, val{K: kVarchar, S: fmt.Sprintf("%c%c%d", "abcXYZ"[i%6], "k_%-"[i%4], i)})
		}
		s.Cols = append(s.Cols, id)
	default:
		id := &column{Name: "id", K: kInt, PK: true, NotNull: true}
		off := int64(0)
		if r.IntN(3) == 0 {
			off = -20 // negative keys too
		}
		for i := 1; i <= 45; i++ {
			id.Pool = append(id.Pool, val{K: kInt, I: int64(i) + off})
		}
		s.Cols = append(s.Cols, id)
	}
	s.PK = append(s.PK, s.Cols...)

	// i0 and s0 always exist (join partners of table d)
	s.Cols = append(s.Cols, &column{Name: "i0", K: kInt, Small: true, NotNull: r.IntN(5) == 0})
	s.Cols = append(s.Cols, &column{Name: "s0", K: kVarchar, Len: 3 + r.IntN(10), NotNull: r.IntN(6) == 0})
	kinds := []kind{kInt, kBool, kVarchar, kBlob, kTs, kFloat, kUUID}
	extra := 2 + r.IntN(5)
	for i := 0; i < extra; i++ {
		k := kinds[r.IntN(len(kinds))]
		c := &column{Name: fmt.Sprintf("c%d", i+1), K: k, NotNull: r.IntN(6) == 0}
		switch k {
		case kVarchar:
			c.Len = 1 + r.IntN(24)
		case kBlob:
			c.Len = 1 + r.IntN(12)
		case kInt:
			c.Small = r.IntN(2) == 0
		}
		s.Cols = append(s.Cols, c)
	}
	if r.IntN(2) == 0 {
		s.Cols = append(s.Cols, &column{Name: "uq", K: kInt, NotNull: true, Uniq: true})
	}
	if r.IntN(3) == 0 {
		s.Cols = append(s.Cols, &column{Name: "js", K: kJSON})
	}
	for _, c := range s.Cols {
		if c.Pool == nil && !c.Uniq {
			c.Pool = genPool(r, c.K, c.Len, c.Small)
		}
	}

	// secondary indexes of t_idx
	seen := map[string]bool{}
	add := func(ix index) {
		key := strings.Join(ix.Cols, ",")
		if seen[key] || (len(ix.Cols) == len(s.PK) && key == pkNames(s)) {
			return
		}
		seen[key] = true
		s.Idx = append(s.Idx, ix)
	}
	var indexable []*column
	for _, c := range s.Cols {
		if c.K != kJSON {
			indexable = append(indexable, c)
		}
	}
	for _, c := range indexable {
		if c.PK && len(s.PK) == 1 {
			continue
		}
		if c.Uniq {
			add(index{Cols: []string{c.Name}, Unique: true, Late: r.IntN(3) == 0})
			continue
		}
		if r.IntN(10) < 6 {
			add(index{Cols: []string{c.Name}, Late: r.IntN(3) == 0})
		}
	}
	for n := 1 + r.IntN(2); n > 0; n-- {
		w := 2 + r.IntN(2)
		perm := r.Perm(len(indexable))
		var cols []string
		for _, p := range perm[:w] {
			cols = append(cols, indexable[p].Name)
		}
		uq := false
		for _, cn := range cols {
			uq = uq || s.col(cn).Uniq
		}
		add(index{Cols: cols, Unique: uq && r.IntN(2) == 0, Late: r.IntN(3) == 0})
	}
	if r.IntN(10) < 8 {
		// a composite index led by a numeric column: narrow ranges on the leading column
		// with ORDER BY / GROUP BY on the next one
		lead := s.col("i0")
		for _, c := range s.Cols {
			if c.K == kFloat && (lead.K != kFloat || r.IntN(2) == 0) {
				lead = c
			}
		}
		var next, bare []*column
		for _, c := range indexable {
			if c != lead {
				next = append(next, c)
				if !seen[c.Name] && !c.PK {
					bare = append(bare, c)
				}
			}
		}
		if len(bare) > 0 && r.IntN(4) != 0 {
			// (an index on the next column alone would be preferred by the planner for ORDER BY on it)
			next = bare
		}
		if r.IntN(2) == 0 {
			lead.NotNull = true // no NULLs under the leading column in half of the schemas
		}
		cols := []string{lead.Name, next[r.IntN(len(next))].Name}
		if r.IntN(3) == 0 {
			if c := next[r.IntN(len(next))]; c.Name != cols[1] {
				cols = append(cols, c.Name)
			}
		}
		add(index{Cols: cols, Late: r.IntN(4) == 0})
	}
	if len(s.Idx) == 0 {
		add(index{Cols: []string{"i0"}})
	}
	return s
}

// dKey gives the n-th primary key of the join partner d: its keys lie inside the value range
// of column i0, so that `a.i0 < b.k` separates rows without arithmetic on a nullable column
// (NULL arithmetic is an evaluation error whose occurrence depends on which rows a plan evaluates).
func (s *schema) dKey(n int) int64 {
	return s.col("i0").Pool[0].I - 5 + int64(n)
}

func pkNames(s *schema) string {
	var n []string
	for _, c := range s.PK {
		n = append(n, c.Name)
	}
	return strings.Join(n, ",")
}

func (s *schema) createTable(name string) string {
	var parts []string
	for _, c := range s.Cols {
		parts = append(parts, c.ddl())
	}
	pk := pkNames(s)
	if len(s.PK) > 1 {
		pk = "(" + pk + ")"
	}
	return fmt.Sprintf("CREATE TABLE %s (%s, PRIMARY KEY %s)", name, strings.Join(parts, ", "), pk)
}

func (ix index) create(table string) string {
	u := ""
	if ix.Unique {
		u = "UNIQUE "
	}
	return fmt.Sprintf("CREATE %sINDEX ON %s(%s)", u, table, strings.Join(ix.Cols, ", "))
}

// pick draws a value for column c (NULL for nullable columns now and then).
func (s *schema) pick(r *rand.Rand, c *column) val {
	if c.Uniq {
		s.uniq++
		return val{K: kInt, I: (s.uniq*7919)%100003 - 50000}
	}
	if !c.NotNull && r.IntN(7) == 0 {
		return val{Null: true, K: c.K}
	}
	// skewed: the first pool entries are hot
	n := len(c.Pool)
	i := r.IntN(n)
	if r.IntN(3) == 0 {
		i = r.IntN(1 + n/3)
	}
	return c.Pool[i]
}

// near draws a comparison literal: a pool value or a neighbour of one.
func (s *schema) near(r *rand.Rand, c *column) val {
	if c.Uniq {
		return val{K: kInt, I: ((1+int64(r.IntN(int(s.uniq+2))))*7919)%100003 - 50000 + int64(r.IntN(3)-1)}
	}
	v := c.Pool[r.IntN(len(c.Pool))]
	if r.IntN(3) != 0 {
		return v
	}
	switch c.K {
	case kInt:
		if v.I < 1<<62 && v.I > -(1<<62) {
			v.I += int64(r.IntN(5) - 2)
		}
	case kVarchar:
		if len(v.S) > 0 && r.IntN(2) == 0 {
			v.S = v.S[:len(v.S)-1]
		} else if len(v.S) < c.Len {
			v.S += string(strAlphabet[r.IntN(len(strAlphabet))])
		}
	case kBlob:
		if len(v.X) > 0 && r.IntN(2) == 0 {
			v.X = v.X[:len(v.X)-1]
		} else if len(v.X) < c.Len {
			v.X = append(append([]byte{}, v.X...), byte(r.IntN(256)))
		}
	case kTs:
		v.T = v.T.Add(time.Duration(r.IntN(3)-1) * time.Microsecond)
	case kFloat:
		v.F += []float64{-0.25, 0.25, 1}[r.IntN(3)]
		if v.F == 0 {
			v.F = 0
		}
	}
	return v
}

// ---------------------------------------------------------------- predicates

// pred is a WHERE condition template: {q} is the column qualifier ("" or "a."),
// {T} / {D} the twin's table names.
type pred struct {
	Tpl   string
	Class string  // shape class used in signatures
	Col   *column // the (nullable) column it reads, for the column form of the ternary partition
}

func cmpCols(s *schema) []*column {
	var out []*column
	for _, c := range s.Cols {
		if c.K != kJSON {
			out = append(out, c)
		}
	}
	return out
}

func genLeaf(r *rand.Rand, s *schema, allowSub bool) pred {
	cs := cmpCols(s)
	c := cs[r.IntN(len(cs))]
	if r.IntN(3) == 0 {
		// the columns a scan can be bounded on: the primary key and the leading columns of the indexes
		var lead []*column
		for _, x := range cs {
			if a := s.indexedAs(x); a == "pk" || a == "indexed" {
				lead = append(lead, x)
			}
		}
		c = lead[r.IntN(len(lead))]
	}
	on := "-on-" + s.indexedAs(c) + "-" + kindName[c.K]
	col := "{q}" + c.Name
	k := func() string { return s.operand(r, s.near(r, c)) }
	w := r.IntN(100)
	switch {
	case w < 20: // equality / inequality
		op := "="
		if r.IntN(5) == 0 {
			op = "<>"
		}
		if r.IntN(5) == 0 {
			return pred{fmt.Sprintf("%s %s %s", k(), op, col), "eq-rev" + on, c}
		}
		return pred{fmt.Sprintf("%s %s %s", col, op, k()), "eq" + on, c}
	case w < 48 && c.K != kBool: // ranges, the column on either side of the operator
		ops := []string{"<", "<=", ">", ">="}
		lo, hi := ops[2+r.IntN(2)], ops[r.IntN(2)]   // col > a , col < b
		rlo, rhi := ops[r.IntN(2)], ops[2+r.IntN(2)] // a < col , b > col
		switch r.IntN(8) {
		case 0:
			return pred{fmt.Sprintf("%s BETWEEN %s AND %s", col, k(), k()), "range" + on, c}
		case 1:
			return pred{fmt.Sprintf("%s %s %s AND %s %s %s", col, lo, k(), col, hi, k()), "range" + on, c}
		case 2: // a <= col AND col < b
			return pred{fmt.Sprintf("%s %s %s AND %s %s %s", k(), rlo, col, col, hi, k()), "range-rev" + on, c}
		case 3: // a <= col AND b > col
			return pred{fmt.Sprintf("%s %s %s AND %s %s %s", k(), rlo, col, k(), rhi, col), "range-rev" + on, c}
		case 4: // col >= a AND b > col
			return pred{fmt.Sprintf("%s %s %s AND %s %s %s", col, lo, k(), k(), rhi, col), "range-rev" + on, c}
		case 5, 6: // constant / parameter on the left
			return pred{fmt.Sprintf("%s %s %s", k(), ops[r.IntN(4)], col), "range-rev" + on, c}
		default:
			return pred{fmt.Sprintf("%s %s %s", col, ops[r.IntN(4)], k()), "range" + on, c}
		}
	case w < 57: // IN list
		n := 1 + r.IntN(4)
		var l []string
		for i := 0; i < n; i++ {
			if r.IntN(3) == 0 {
				l = append(l, k()) // literal or parameter
			} else {
				l = append(l, s.near(r, c).lit())
			}
		}
		class := "in"
		if r.IntN(3) == 0 {
			// a NULL member (literal, or a parameter bound to nil) anywhere in the list
			m := "NULL"
			if r.IntN(3) == 0 {
				if s.Params == nil {
					s.Params = map[string]interface{}{}
				}
				name := fmt.Sprintf("p%d", len(s.Params)+1)
				s.Params[name] = nil
				m = "@" + name
			}
			at := r.IntN(len(l) + 1)
			l = append(l[:at], append([]string{m}, l[at:]...)...)
			class = "in-with-null"
		}
		not := ""
		if r.IntN(4) == 0 {
			not = "NOT "
		}
		return pred{fmt.Sprintf("%s %sIN (%s)", col, not, strings.Join(l, ", ")), class + on, c}
	case w < 69: // IS NULL
		if r.IntN(2) == 0 {
			return pred{col + " IS NULL", "isnull" + on, c}
		}
		return pred{col + " IS NOT NULL", "isnull" + on, c}
	case w < 81: // LIKE on some varchar column
		var vs []*column
		for _, x := range cs {
			if x.K == kVarchar {
				vs = append(vs, x)
			}
		}
		c = vs[r.IntN(len(vs))]
		v := c.Pool[r.IntN(len(c.Pool))].S // '%' and '_' inside pool strings act as wildcards
		var pat string
		switch r.IntN(4) {
		case 0:
			pat = v[:r.IntN(len(v)+1)] + "%"
		case 1:
			pat = "%" + v[r.IntN(len(v)+1):]
		case 2:
			pat = "%" + v[:r.IntN(len(v)+1)] + "_%"
		default:
			pat = v
		}
		not := ""
		if r.IntN(4) == 0 {
			not = "NOT "
		}
		return pred{fmt.Sprintf("{q}%s %sLIKE '%s'", c.Name, not, pat), "like-on-" + s.indexedAs(c) + "-varchar", c}
	case w < 86 && c.K == kBool:
		// a bare boolean column is not generated: `WHERE NOT (b)` is rejected by the engine when b is NULL
		// ("invalid condition") while `WHERE b` is accepted, so its partition is not expressible
		return pred{col + " = " + []string{"true", "false"}[r.IntN(2)], "eq" + on, c}
	case w < 93 && allowSub: // scalar subquery
		fn := []string{"MIN", "MAX"}[r.IntN(2)]
		op := []string{"=", "<", ">=", "<>"}[r.IntN(4)]
		inner := ""
		if r.IntN(2) == 0 {
			inner = " WHERE " + strings.ReplaceAll(genLeaf(r, s, false).Tpl, "{q}", "sq.")
		}
		if c.K == kBool || c.K == kBlob || c.K == kUUID {
			c = s.col("i0")
			col = "{q}i0"
			on = "-on-" + s.indexedAs(c) + "-int"
		}
		return pred{fmt.Sprintf("%s %s (SELECT %s(sq.%s) FROM {T} sq%s)", col, op, fn, c.Name, inner), "subq-scalar" + on, c}
	case allowSub: // IN subquery
		not := ""
		if r.IntN(4) == 0 {
			not = "NOT "
		}
		inner := ""
		if r.IntN(2) == 0 {
			inner = " WHERE " + strings.ReplaceAll(genLeaf(r, s, false).Tpl, "{q}", "sq.")
		}
		if r.IntN(3) == 0 {
			return pred{fmt.Sprintf("{q}i0 %sIN (SELECT sq.iv FROM {D} sq WHERE sq.k > %d)", not, s.dKey(r.IntN(8))), "subq-in-on-" + s.indexedAs(s.col("i0")) + "-int", s.col("i0")}
		}
		return pred{fmt.Sprintf("%s %sIN (SELECT sq.%s FROM {T} sq%s)", col, not, c.Name, inner), "subq-in" + on, c}
	}
	return pred{fmt.Sprintf("%s = %s", col, s.near(r, c).lit()), "eq" + on, c}
}

func genPred(r *rand.Rand, s *schema, depth int) pred {
	w := r.IntN(100)
	if depth <= 0 || w < 55 {
		return genLeaf(r, s, true)
	}
	switch {
	case w < 62 && len(s.Idx) > 0: // equality on the leading column(s) of a composite index + range on the next
		var comp []index
		for _, ix := range s.Idx {
			if len(ix.Cols) > 1 {
				comp = append(comp, ix)
			}
		}
		if len(comp) == 0 {
			return genLeaf(r, s, true)
		}
		ix := comp[r.IntN(len(comp))]
		n := 1 + r.IntN(len(ix.Cols)-1)
		var parts []string
		for _, cn := range ix.Cols[:n] {
			c := s.col(cn)
			if c.K == kJSON {
				return genLeaf(r, s, true)
			}
			parts = append(parts, fmt.Sprintf("{q}%s = %s", cn, s.near(r, c).lit()))
		}
		c := s.col(ix.Cols[n])
		if c.K != kBool {
			parts = append(parts, fmt.Sprintf("{q}%s %s %s", c.Name, []string{"<", "<=", ">", ">="}[r.IntN(4)], s.near(r, c).lit()))
		}
		return pred{strings.Join(parts, " AND "), "composite-prefix", c}
	case w < 78:
		a, b := genPred(r, s, depth-1), genPred(r, s, depth-1)
		return pred{"(" + a.Tpl + ") AND (" + b.Tpl + ")", "and(" + short(a.Class) + "," + short(b.Class) + ")", a.Col}
	case w < 92:
		a, b := genPred(r, s, depth-1), genPred(r, s, depth-1)
		return pred{"(" + a.Tpl + ") OR (" + b.Tpl + ")", "or(" + short(a.Class) + "," + short(b.Class) + ")", a.Col}
	default:
		a := genPred(r, s, depth-1)
		return pred{"NOT (" + a.Tpl + ")", "not(" + short(a.Class) + ")", a.Col}
	}
}

// short keeps the operator and the reachability of a leaf class: "range-on-indexed-varchar" -> "range-indexed".
func short(class string) string {
	if i := strings.Index(class, "("); i >= 0 {
		return class[:i]
	}
	p := strings.Split(class, "-on-")
	if len(p) != 2 {
		return class
	}
	q := p[1]
	if j := strings.LastIndex(q, "-"); j >= 0 {
		q = q[:j]
	}
	return p[0] + "-" + q
}

// ---------------------------------------------------------------- DML

type step struct {
	Kind  string // insert, upsert, on-conflict-nothing, on-conflict-update, update, delete
	Tpl   string // {T} = twin table
	Where string // shape class of the WHERE clause
}

func (s *schema) rowLits(r *rand.Rand, pk []val) (cols []string, lits []string) {
	for i, c := range s.Cols {
		var v val
		if c.PK {
			v = pk[i]
		} else {
			v = s.pick(r, c)
			if !c.NotNull && !c.Uniq && r.IntN(12) == 0 {
				continue // column left out: NULL by omission
			}
		}
		cols = append(cols, c.Name)
		lits = append(lits, v.lit())
	}
	return
}

func (s *schema) pickPK(r *rand.Rand) []val {
	var pk []val
	for _, c := range s.PK {
		pk = append(pk, c.Pool[r.IntN(len(c.Pool))])
	}
	return pk
}

func (s *schema) pkEq(pk []val) string {
	var parts []string
	for i, c := range s.PK {
		parts = append(parts, fmt.Sprintf("%s = %s", c.Name, pk[i].lit()))
	}
	return strings.Join(parts, " AND ")
}

func (s *schema) sets(r *rand.Rand, single bool) string {
	var cands []*column
	for _, c := range s.Cols {
		if c.PK || (c.Uniq && !single) {
			continue
		}
		cands = append(cands, c)
	}
	n := 1 + r.IntN(2)
	perm := r.Perm(len(cands))
	var parts []string
	for _, p := range perm[:min(n, len(cands))] {
		c := cands[p]
		if c.K == kInt && c.Small && r.IntN(4) == 0 {
			parts = append(parts, fmt.Sprintf("%s = %s + %d", c.Name, c.Name, 1+r.IntN(3)))
			continue
		}
		parts = append(parts, fmt.Sprintf("%s = %s", c.Name, s.pick(r, c).lit()))
	}
	return strings.Join(parts, ", ")
}

// genStep: inTx restricts to statements that cannot fail by construction
// (a failing statement cancels the whole explicit transaction).
func genStep(r *rand.Rand, s *schema, inTx bool) step {
	w := r.IntN(100)
	multi := func() (string, string) {
		n := 1 + r.IntN(3)
		seen := map[string]bool{}
		var rows []string
		var cols []string
		for i := 0; i < n; i++ {
			pk := s.pickPK(r)
			key := fmt.Sprint(pk)
			if seen[key] {
				continue
			}
			seen[key] = true
			// the same column list for every row of the statement
			var lits []string
			cols = cols[:0]
			for j, c := range s.Cols {
				v := s.pick(r, c)
				if c.PK {
					v = pk[j]
				}
				cols = append(cols, c.Name)
				lits = append(lits, v.lit())
			}
			rows = append(rows, "("+strings.Join(lits, ", ")+")")
		}
		return strings.Join(cols, ", "), strings.Join(rows, ", ")
	}
	switch {
	case w < 14 && !inTx:
		pk := s.pickPK(r)
		cols, lits := s.rowLits(r, pk)
		return step{Kind: "insert", Tpl: fmt.Sprintf("INSERT INTO {T}(%s) VALUES (%s)", strings.Join(cols, ", "), strings.Join(lits, ", "))}
	case w < 34:
		cols, rows := multi()
		return step{Kind: "upsert", Tpl: fmt.Sprintf("UPSERT INTO {T}(%s) VALUES %s", cols, rows)}
	case w < 44:
		cols, rows := multi()
		return step{Kind: "on-conflict-nothing", Tpl: fmt.Sprintf("INSERT INTO {T}(%s) VALUES %s ON CONFLICT DO NOTHING", cols, rows)}
	case w < 54:
		pk := s.pickPK(r)
		cols, lits := s.rowLits(r, pk)
		return step{Kind: "on-conflict-update", Tpl: fmt.Sprintf("INSERT INTO {T}(%s) VALUES (%s) ON CONFLICT DO UPDATE SET %s", strings.Join(cols, ", "), strings.Join(lits, ", "), s.sets(r, true))}
	case w < 66:
		return step{Kind: "update", Where: "pk-eq", Tpl: fmt.Sprintf("UPDATE {T} SET %s WHERE %s", s.sets(r, true), s.pkEq(s.pickPK(r)))}
	case w < 84:
		p := genPred(r, s, 1)
		return step{Kind: "update", Where: p.Class, Tpl: fmt.Sprintf("UPDATE {T} SET %s WHERE %s", s.sets(r, false), strings.ReplaceAll(p.Tpl, "{q}", ""))}
	case w < 92:
		return step{Kind: "delete", Where: "pk-eq", Tpl: fmt.Sprintf("DELETE FROM {T} WHERE %s", s.pkEq(s.pickPK(r)))}
	default:
		p := genLeaf(r, s, false)
		return step{Kind: "delete", Where: p.Class, Tpl: fmt.Sprintf("DELETE FROM {T} WHERE %s", strings.ReplaceAll(p.Tpl, "{q}", ""))}
	}
}

// ---------------------------------------------------------------- queries

type target struct {
	Expr string // with {q}/{b} qualifiers
	K    kind
}

type ordCol struct {
	T    int // index into Targets
	Desc bool
}

type query struct {
	ID       int
	Kind     string // select, distinct, agg, groupby, join, history
	Star     bool
	Targets  []target
	Distinct bool
	Alias    bool   // FROM {T} a ... with qualified columns
	Join     string // " INNER JOIN {D} b{RIDX} ON ..." ("" = none)
	JoinIdx  [][]string
	Period   string
	Where    *pred
	GroupBy  string
	Having   string
	Order    []ordCol
	Total    bool
	Limit    int
	Offset   int
	Shape    string
	Mods     string
}

func (q *query) sql(T, D string, force []string, rforce []string, where string) string {
	var sb strings.Builder
	sb.WriteString("SELECT ")
	if q.Distinct {
		sb.WriteString("DISTINCT ")
	}
	if q.Star {
		sb.WriteString("*")
	} else {
		for i, t := range q.Targets {
			if i > 0 {
				sb.WriteString(", ")
			}
			sb.WriteString(t.Expr)
		}
	}
	sb.WriteString(" FROM {T}")
	if q.Period != "" {
		sb.WriteString(" " + q.Period)
	}
	if q.Alias {
		sb.WriteString(" a")
	}
	if force != nil {
		sb.WriteString(" USE INDEX ON (" + strings.Join(force, ", ") + ")")
	}
	if q.Join != "" {
		rf := ""
		if rforce != nil {
			rf = " USE INDEX ON (" + strings.Join(rforce, ", ") + ")"
		}
		sb.WriteString(strings.ReplaceAll(q.Join, "{RIDX}", rf))
	}
	if where != "" {
		sb.WriteString(" WHERE " + where)
	}
	if q.GroupBy != "" {
		sb.WriteString(" GROUP BY " + q.GroupBy)
	}
	if q.Having != "" {
		sb.WriteString(" HAVING " + q.Having)
	}
	if len(q.Order) > 0 {
		sb.WriteString(" ORDER BY ")
		for i, o := range q.Order {
			if i > 0 {
				sb.WriteString(", ")
			}
			sb.WriteString(q.Targets[o.T].Expr)
			if o.Desc {
				sb.WriteString(" DESC")
			} else if i%2 == 1 {
				sb.WriteString(" ASC")
			}
		}
	}
	if q.Limit > 0 {
		sb.WriteString(fmt.Sprintf(" LIMIT %d", q.Limit))
	}
	if q.Offset > 0 {
		sb.WriteString(fmt.Sprintf(" OFFSET %d", q.Offset))
	}
	qual := ""
	if q.Alias {
		qual = "a."
	}
	return strings.NewReplacer("{T}", T, "{D}", D, "{q}", qual).Replace(sb.String())
}

func (q *query) whereTpl() string {
	if q.Where == nil {
		return ""
	}
	return q.Where.Tpl
}

func (q *query) shape() string {
	sh := "scan"
	if q.Where != nil {
		sh = q.Where.Class
	}
	if q.Mods != "" {
		sh += "/" + q.Mods
	}
	return sh
}

func genOrder(r *rand.Rand, s *schema, q *query, cands []int, totalWith []int) {
	if r.IntN(100) < 35 || len(cands) == 0 {
		return
	}
	n := 1 + r.IntN(min(3, len(cands)))
	perm := r.Perm(len(cands))
	used := map[int]bool{}
	for _, p := range perm[:n] {
		q.Order = append(q.Order, ordCol{T: cands[p], Desc: r.IntN(2) == 0})
		used[cands[p]] = true
	}
	if totalWith != nil && r.IntN(10) < 6 {
		desc := r.IntN(3) == 0
		for _, t := range totalWith {
			if !used[t] {
				q.Order = append(q.Order, ordCol{T: t, Desc: desc})
			}
		}
		q.Total = true
	}
	dir := "asc"
	if q.Order[0].Desc {
		dir = "desc"
	}
	if len(q.Order) > 1 {
		dir += "-multi"
	}
	q.Mods = addMod(q.Mods, "orderby-"+dir)
	if q.Total && r.IntN(10) < 4 {
		q.Limit = 1 + r.IntN(12)
		if r.IntN(2) == 0 {
			q.Offset = r.IntN(8)
		}
		q.Mods = addMod(q.Mods, "limit")
	}
}

func addMod(m, x string) string {
	if m == "" {
		return x
	}
	return m + "+" + x
}

func aggTargets(r *rand.Rand, s *schema, qual string) []target {
	ts := []target{{Expr: "COUNT(*)", K: kInt}}
	cs := cmpCols(s)
	for n := r.IntN(4); n > 0; n-- {
		c := cs[r.IntN(len(cs))]
		switch {
		case c.K == kInt && c.Small && r.IntN(2) == 0:
			ts = append(ts, target{Expr: "SUM(" + qual + c.Name + ")", K: kInt})
		case c.K == kBool || c.K == kBlob || c.K == kUUID:
			ts = append(ts, target{Expr: "COUNT(" + qual + c.Name + ")", K: kInt})
		default:
			ts = append(ts, target{Expr: []string{"MIN", "MAX"}[r.IntN(2)] + "(" + qual + c.Name + ")", K: c.K})
		}
	}
	return ts
}

// genLeadPred bounds column a (the leading column of a composite index) in the ways a planner
// may take for "a single value": equality, IN, point and adjacent-integer ranges with mixed
// strict / inclusive ends, redundant and contradictory bounds, integer constants against a
// FLOAT column, constants on either side, literals or parameters.
func genLeadPred(r *rand.Rand, s *schema, a *column) pred {
	col := "{q}" + a.Name
	kn := kindName[a.K]
	k := func(v val) string { return s.operand(r, v) }
	w := r.IntN(100)
	numeric := a.K == kInt || a.K == kFloat
	if !numeric || a.Uniq {
		switch {
		case w < 35:
			return pred{fmt.Sprintf("%s = %s", col, k(s.near(r, a))), "lead-eq-" + kn, a}
		case w < 50:
			return pred{fmt.Sprintf("%s = %s", k(s.near(r, a)), col), "lead-eq-" + kn, a}
		case w < 70:
			return pred{fmt.Sprintf("%s IN (%s, %s)", col, k(s.near(r, a)), k(s.near(r, a))), "lead-in-" + kn, a}
		case w < 80 || a.K == kBool:
			return pred{fmt.Sprintf("%s IN (%s)", col, k(s.near(r, a))), "lead-in-" + kn, a}
		default:
			v := s.near(r, a)
			return pred{fmt.Sprintf("%s >= %s AND %s <= %s", col, k(v), col, k(v)), "lead-point-range-" + kn, a}
		}
	}
	// an integer n close to a stored value; the bounds are INTEGER constants also for FLOAT columns
	pv := a.Pool[r.IntN(len(a.Pool))]
	var n int64
	if a.K == kInt {
		n = pv.I
		if n > 1<<62 || n < -(1<<62) {
			n = 0
		}
	} else {
		f := pv.F
		if f > 1e9 || f < -1e9 {
			f = 0
		}
		n = int64(f)
		if float64(n) > f {
			n-- // floor
		}
	}
	if r.IntN(5) < 2 {
		n += int64(r.IntN(3)) - 1
	}
	iv := func(x int64) string { return k(val{K: kInt, I: x}) }
	fv := func(x int64) string { // the same bound, typed as the column now and then
		if a.K == kFloat && r.IntN(5) == 0 {
			return k(val{K: kFloat, F: float64(x)})
		}
		return iv(x)
	}
	ge, gt, le, lt := ">=", ">", "<=", "<"
	switch {
	case w < 10:
		return pred{fmt.Sprintf("%s = %s", col, fv(n)), "lead-eq-" + kn, a}
	case w < 18:
		return pred{fmt.Sprintf("%s IN (%s, %s)", col, fv(n), fv(n+1)), "lead-in-" + kn, a}
	case w < 30: // n <= a < n+1
		return pred{fmt.Sprintf("%s %s %s AND %s %s %s", col, ge, fv(n), col, lt, fv(n+1)), "lead-adjacent-range-" + kn, a}
	case w < 40: // n < a <= n+1
		return pred{fmt.Sprintf("%s %s %s AND %s %s %s", col, gt, fv(n), col, le, fv(n+1)), "lead-adjacent-range-" + kn, a}
	case w < 48: // the same, constants on the left
		return pred{fmt.Sprintf("%s %s %s AND %s %s %s", fv(n), le, col, fv(n+1), gt, col), "lead-adjacent-range-rev-" + kn, a}
	case w < 54:
		return pred{fmt.Sprintf("%s %s %s AND %s %s %s", fv(n+1), ge, col, fv(n), lt, col), "lead-adjacent-range-rev-" + kn, a}
	case w < 60: // both ends inclusive / both strict
		if r.IntN(2) == 0 {
			return pred{fmt.Sprintf("%s BETWEEN %s AND %s", col, fv(n), fv(n+1)), "lead-adjacent-range-" + kn, a}
		}
		return pred{fmt.Sprintf("%s %s %s AND %s %s %s", col, gt, fv(n), col, lt, fv(n+1)), "lead-adjacent-range-" + kn, a}
	case w < 68: // point range
		return pred{fmt.Sprintf("%s %s %s AND %s %s %s", col, ge, fv(n), col, le, fv(n)), "lead-point-range-" + kn, a}
	case w < 80: // redundant bounds: a > n AND a >= n+1 AND a <= n+2
		parts := []string{
			fmt.Sprintf("%s %s %s", col, gt, fv(n)),
			fmt.Sprintf("%s %s %s", col, ge, fv(n+1)),
			fmt.Sprintf("%s %s %s", col, le, fv(n+2)),
		}
		if r.IntN(2) == 0 {
			parts = append(parts, fmt.Sprintf("%s %s %s", col, lt, fv(n+3)))
		}
		r.Shuffle(len(parts), func(i, j int) { parts[i], parts[j] = parts[j], parts[i] })
		return pred{strings.Join(parts, " AND "), "lead-redundant-range-" + kn, a}
	case w < 86: // contradictory bounds
		return pred{fmt.Sprintf("%s %s %s AND %s %s %s", col, gt, fv(n+1), col, lt, fv(n)), "lead-contradictory-range-" + kn, a}
	case w < 93: // wider range
		return pred{fmt.Sprintf("%s %s %s AND %s %s %s", col, []string{ge, gt}[r.IntN(2)], fv(n-1), col, []string{le, lt}[r.IntN(2)], fv(n+2)), "lead-range-" + kn, a}
	default: // one-sided
		return pred{fmt.Sprintf("%s %s %s", col, []string{ge, gt, le, lt}[r.IntN(4)], fv(n)), "lead-range-" + kn, a}
	}
}

// genNextCol builds a query that bounds the leading column(s) of a composite index and orders /
// groups / de-duplicates on the next index column(s), without an index hint.
func genNextCol(r *rand.Rand, s *schema, q *query) bool {
	var comp []index
	for _, ix := range s.Idx {
		if len(ix.Cols) > 1 {
			comp = append(comp, ix)
		}
	}
	if len(comp) == 0 {
		return false
	}
	ix := comp[r.IntN(len(comp))]
	if r.IntN(10) < 6 {
		for _, c := range comp {
			if k := s.col(c.Cols[0]).K; (k == kFloat || k == kInt) && !s.col(c.Cols[0]).Uniq && !s.col(c.Cols[0]).PK {
				ix = c
			}
		}
	}
	nlead := 1
	if len(ix.Cols) > 2 && r.IntN(3) == 0 {
		nlead = 2
	}
	var parts []string
	var classes []string
	for _, cn := range ix.Cols[:nlead] {
		lp := genLeadPred(r, s, s.col(cn))
		parts = append(parts, lp.Tpl)
		classes = append(classes, lp.Class)
	}
	pr := pred{strings.Join(parts, " AND "), strings.Join(classes, "+"), s.col(ix.Cols[0])}
	if r.IntN(5) == 0 { // and something else
		x := genLeaf(r, s, false)
		pr.Tpl = "(" + pr.Tpl + ") AND (" + x.Tpl + ")"
	}
	q.Where = &pr
	q.Kind = "nextcol"
	next := ix.Cols[nlead:]
	nord := 1 + r.IntN(len(next))
	desc := r.IntN(2) == 0
	dir := map[bool]string{false: "asc", true: "desc"}[desc]
	switch w := r.IntN(100); {
	case w < 30: // rows ordered by the next column(s): multiset + sortedness
		for i, c := range s.Cols {
			if i < len(s.PK) || r.IntN(2) == 0 {
				q.Targets = append(q.Targets, target{Expr: "{q}" + c.Name, K: c.K})
			}
		}
		for _, cn := range next[:nord] {
			q.Targets = append(q.Targets, target{Expr: "{q}" + cn, K: s.col(cn).K})
			q.Order = append(q.Order, ordCol{T: len(q.Targets) - 1, Desc: desc})
		}
		q.Mods = "next-col-orderby-" + dir
	case w < 65: // only the ordering columns are selected: the sequence is fully determined, LIMIT / OFFSET allowed
		for _, cn := range next[:nord] {
			q.Targets = append(q.Targets, target{Expr: "{q}" + cn, K: s.col(cn).K})
			q.Order = append(q.Order, ordCol{T: len(q.Targets) - 1, Desc: desc})
		}
		q.Total = true
		q.Mods = "next-col-orderby-" + dir
		if r.IntN(3) != 0 {
			q.Limit = 1 + r.IntN(8)
			if r.IntN(3) == 0 {
				q.Offset = r.IntN(4)
			}
			q.Mods += "+limit"
		}
	case w < 85: // GROUP BY the next column(s)
		var g []string
		for _, cn := range next[:nord] {
			q.Targets = append(q.Targets, target{Expr: "{q}" + cn, K: s.col(cn).K})
			g = append(g, "{q}"+cn)
		}
		q.GroupBy = strings.Join(g, ", ")
		q.Targets = append(q.Targets, target{Expr: "COUNT(*)", K: kInt})
		if r.IntN(2) == 0 {
			q.Targets = append(q.Targets, target{Expr: "MIN({q}" + s.PK[0].Name + ")", K: s.PK[0].K})
		}
		q.Mods = "next-col-groupby"
		if r.IntN(2) == 0 {
			for i := 0; i < nord; i++ {
				q.Order = append(q.Order, ordCol{T: i, Desc: desc})
			}
			q.Total = true
			q.Mods += "+orderby-" + dir
			if r.IntN(3) == 0 {
				q.Limit = 1 + r.IntN(5)
				q.Mods += "+limit"
			}
		}
	default: // DISTINCT on the next column(s)
		q.Distinct = true
		for _, cn := range next[:nord] {
			q.Targets = append(q.Targets, target{Expr: "{q}" + cn, K: s.col(cn).K})
		}
		q.Mods = "next-col-distinct"
		if r.IntN(2) == 0 {
			for i := 0; i < nord; i++ {
				q.Order = append(q.Order, ordCol{T: i, Desc: desc})
			}
			q.Total = true
			q.Mods += "+orderby-" + dir
			if r.IntN(3) == 0 {
				q.Limit = 1 + r.IntN(5)
				q.Mods += "+limit"
			}
		}
	}
	return true
}

func genQuery(r *rand.Rand, s *schema, id int, syncTxs []uint64) *query {
	q := &query{ID: id}
	allTargets := func(qual string) []target {
		var ts []target
		for _, c := range s.Cols {
			ts = append(ts, target{Expr: qual + c.Name, K: c.K})
		}
		return ts
	}
	pkIdx := func() []int {
		var out []int
		for i := range s.PK {
			out = append(out, i)
		}
		return out
	}
	orderable := func(ts []target) []int {
		var out []int
		for i, t := range ts {
			if t.K != kJSON {
				out = append(out, i)
			}
		}
		return out
	}
	maybeWhere := func(p int) {
		if r.IntN(100) < p {
			pr := genPred(r, s, 2)
			q.Where = &pr
		}
	}
	w := r.IntN(100)
	if w >= 28 && w < 44 {
		if genNextCol(r, s, q) {
			q.Shape = q.shape()
			return q
		}
	}
	switch {
	case w < 44:
		q.Kind = "select"
		if r.IntN(10) < 4 {
			q.Star = true
			q.Targets = allTargets("{q}")
		} else {
			// primary key + a subset of the columns
			for i, c := range s.Cols {
				if i < len(s.PK) || r.IntN(2) == 0 {
					q.Targets = append(q.Targets, target{Expr: "{q}" + c.Name, K: c.K})
				}
			}
		}
		q.Alias = r.IntN(6) == 0
		maybeWhere(88)
		genOrder(r, s, q, orderable(q.Targets), pkIdx())
	case w < 52:
		q.Kind = "distinct"
		q.Distinct = true
		cs := cmpCols(s)
		n := 1 + r.IntN(2)
		perm := r.Perm(len(cs))
		for _, p := range perm[:n] {
			q.Targets = append(q.Targets, target{Expr: "{q}" + cs[p].Name, K: cs[p].K})
		}
		maybeWhere(60)
		q.Mods = "distinct"
		if r.IntN(2) == 0 {
			for i := range q.Targets {
				q.Order = append(q.Order, ordCol{T: i, Desc: r.IntN(2) == 0})
			}
			q.Total = true
			q.Mods = addMod(q.Mods, "orderby")
		}
	case w < 54:
		// COUNT(*) filtered by a subquery over the same table whose inner columns are unqualified
		q.Kind = "agg"
		q.Targets = []target{{Expr: "COUNT(*)", K: kInt}}
		q.Mods = "count-star"
		cs := cmpCols(s)
		c := cs[r.IntN(len(cs))]
		pr := pred{fmt.Sprintf("%s IN (SELECT %s FROM {T} WHERE %s)", c.Name, c.Name, s.pkEq(s.pickPK(r))), "subq-unqualified-same-table", c}
		q.Where = &pr
	case w < 63:
		q.Kind = "agg"
		if r.IntN(3) == 0 {
			q.Targets = []target{{Expr: "COUNT(*)", K: kInt}}
			q.Mods = "count-star"
		} else {
			q.Targets = aggTargets(r, s, "{q}")
			q.Mods = "aggregates"
		}
		maybeWhere(75)
	case w < 76:
		q.Kind = "groupby"
		cs := cmpCols(s)
		n := 1 + r.IntN(2)
		perm := r.Perm(len(cs))
		var g []string
		for _, p := range perm[:n] {
			q.Targets = append(q.Targets, target{Expr: "{q}" + cs[p].Name, K: cs[p].K})
			g = append(g, "{q}"+cs[p].Name)
		}
		q.GroupBy = strings.Join(g, ", ")
		q.Targets = append(q.Targets, aggTargets(r, s, "{q}")...)
		maybeWhere(55)
		q.Mods = "groupby-" + kindName[q.Targets[0].K]
		if r.IntN(4) == 0 {
			q.Having = fmt.Sprintf("COUNT(*) > %d", r.IntN(3))
			q.Mods = addMod(q.Mods, "having")
		}
		if r.IntN(10) < 6 {
			for i := 0; i < n; i++ {
				q.Order = append(q.Order, ordCol{T: i, Desc: r.IntN(2) == 0})
			}
			q.Total = true
			q.Mods = addMod(q.Mods, "orderby")
		}
	case w < 90:
		q.Kind = "join"
		q.Alias = true
		jt := []string{"INNER", "LEFT"}[r.IntN(2)]
		var on string
		self := r.IntN(4) == 0
		if self {
			// self join on two columns of the same type
			cs := cmpCols(s)
			a := cs[r.IntN(len(cs))]
			var same []*column
			for _, c := range cs {
				if c.K == a.K {
					same = append(same, c)
				}
			}
			b := same[r.IntN(len(same))]
			jop := "="
			if a.K != kBool && r.IntN(3) == 0 {
				jop = []string{"<", "<=", ">", ">="}[r.IntN(4)]
				if r.IntN(2) == 0 { // against the inner table's leading primary-key column when the types agree
					for _, pc := range s.PK[:1] {
						if pc.K == a.K {
							b = pc
						}
					}
				}
			}
			on = fmt.Sprintf("a.%s %s b.%s", a.Name, jop, b.Name)
			q.Join = fmt.Sprintf(" %s JOIN {T} b{RIDX} ON %s", jt, on)
			for i, c := range s.PK {
				_ = i
				q.Targets = append(q.Targets, target{Expr: "a." + c.Name, K: c.K})
			}
			for _, c := range s.PK {
				q.Targets = append(q.Targets, target{Expr: "b." + c.Name, K: c.K})
			}
			q.Targets = append(q.Targets, target{Expr: "a." + a.Name, K: a.K}, target{Expr: "b." + b.Name, K: b.K})
			for _, ix := range s.Idx {
				q.JoinIdx = append(q.JoinIdx, ix.Cols)
			}
			q.Mods = "self-join-" + strings.ToLower(jt) + "-" + kindName[a.K]
			if jop != "=" {
				q.Mods = "nonequi-" + q.Mods
			}
		} else {
			iop := []string{"<", "<=", ">", ">="}[r.IntN(4)]
			switch r.IntN(8) {
			case 0:
				on = "a.i0 = b.k"
			case 1:
				on = "a.s0 = b.sv"
			case 2:
				on = "a.i0 = b.iv AND a.s0 <> b.sv"
			case 3: // non-equi, outer column on the left, inner primary key on the right
				on = "a.i0 " + iop + " b.k"
				q.Mods = "nonequi-"
			case 4: // the same with a plain outer column against the inner indexed column
				on = "a.i0 " + iop + " b.iv"
				q.Mods = "nonequi-"
			case 5:
				on = "a.s0 " + iop + " b.sv"
				q.Mods = "nonequi-"
			case 6:
				on = "a.i0 = b.iv AND a.s0 " + iop + " b.sv"
				q.Mods = "nonequi-"
			default:
				on = "a.i0 = b.iv"
			}
			q.Join = fmt.Sprintf(" %s JOIN {D} b{RIDX} ON %s", jt, on)
			for _, c := range s.PK {
				q.Targets = append(q.Targets, target{Expr: "a." + c.Name, K: c.K})
			}
			q.Targets = append(q.Targets, target{Expr: "b.k", K: kInt}, target{Expr: "a.i0", K: kInt}, target{Expr: "a.s0", K: kVarchar}, target{Expr: "b.iv", K: kInt}, target{Expr: "b.sv", K: kVarchar})
			q.JoinIdx = [][]string{{"k"}, {"iv"}, {"sv"}, {"iv", "sv"}}
			q.Mods += "join-" + strings.ToLower(jt)
		}
		maybeWhere(50)
		// a total order: a's key then b's key
		var tot []int
		for i := 0; i < 2*len(s.PK) && i < len(q.Targets); i++ {
			if self || i <= len(s.PK) {
				tot = append(tot, i)
			}
		}
		genOrder(r, s, q, orderable(q.Targets), tot)
	default:
		q.Kind = "history"
		if len(syncTxs) == 0 {
			return genQuery(r, s, id, syncTxs)
		}
		q.Star = r.IntN(2) == 0
		q.Targets = allTargets("{q}")
		tx := syncTxs[r.IntN(len(syncTxs))]
		switch r.IntN(4) {
		case 0:
			q.Period = fmt.Sprintf("BEFORE TX %d", tx+1)
			q.Mods = "before-tx"
		case 1:
			q.Period = fmt.Sprintf("UNTIL TX %d", tx)
			q.Mods = "until-tx"
		case 2:
			q.Period = fmt.Sprintf("SINCE TX %d", tx+1)
			q.Mods = "since-tx"
		default:
			q.Period = fmt.Sprintf("AFTER TX %d", tx)
			q.Mods = "after-tx"
		}
		maybeWhere(60)
		genOrder(r, s, q, orderable(q.Targets), pkIdx())
	}
	q.Shape = q.shape()
	if q.Kind == "history" {
		// one class per period kind: what a historical query returns through a secondary
		// index does not depend on the rest of the statement
		q.Shape = "history/" + strings.Split(q.Mods, "+")[0]
	}
	return q
}
