package c11

import (
	"fmt"
	"os"
	"strings"
	"testing"
	"time"
)

// TestScript: VERIF_C11_SCRIPT=<file>: statements separated by ";\n"; lines starting with "? " are queries.
func TestScript(t *testing.T) {
	path := os.Getenv("VERIF_C11_SCRIPT")
	if path == "" {
		t.Skip()
	}
	b, err := os.ReadFile(path)
	if err != nil {
		t.Fatal(err)
	}
	e := &env{dir: t.TempDir()}
	if err := e.open(); err != nil {
		t.Fatal(err)
	}
	defer e.close()
	for _, st := range strings.Split(string(b), "\n") {
		st = strings.TrimSpace(st)
		st = strings.TrimSuffix(st, ";")
		if st == "" || strings.HasPrefix(st, "--") {
			if strings.Contains(st, "reopen") {
				e.reopen()
			}
			continue
		}
		if strings.HasPrefix(st, "? ") {
			r := e.run(st[2:])
			fmt.Printf("Q %s\n   plan %s err %v\n", st[2:], r.Plan, r.Err)
			for _, row := range r.Enc {
				fmt.Println("     ", row)
			}
			continue
		}
		if err := e.exec(st); err != nil {
			fmt.Printf("X %s\n   ERR %v\n", st, err)
		}
	}
}

func TestSpeed(t *testing.T) {
	e := &env{dir: t.TempDir()}
	if err := e.open(); err != nil {
		t.Fatal(err)
	}
	defer e.close()
	e.exec("CREATE TABLE t(id INTEGER, c INTEGER, PRIMARY KEY id)")
	e.exec("CREATE INDEX ON t(c)")
	for i := 0; i < 30; i++ {
		e.exec(fmt.Sprintf("INSERT INTO t(id,c) VALUES (%d,%d)", i, i%7))
	}
	t0 := time.Now()
	for i := 0; i < 200; i++ {
		e.run("SELECT * FROM t WHERE c > 2")
	}
	fmt.Println("committed query", time.Since(t0)/200)
	t0 = time.Now()
	for i := 0; i < 20; i++ {
		e.exec(fmt.Sprintf("UPDATE t SET c = %d WHERE id = 3", i))
	}
	fmt.Println("autocommit update", time.Since(t0)/20)
	e.exec("BEGIN TRANSACTION")
	e.exec("UPDATE t SET c = 9 WHERE id = 3")
	t0 = time.Now()
	for i := 0; i < 200; i++ {
		e.run("SELECT * FROM t WHERE c > 2")
	}
	fmt.Println("in-tx query", time.Since(t0)/200)
	e.exec("COMMIT")
	t0 = time.Now()
	e.reopen()
	fmt.Println("reopen", time.Since(t0))
}
