// Package c11: monitor for property C11 (see DESIGN.md section 2).
package c11
