// Package c11: monitor for property C11 — SQL query results do not depend on
// the physical plan (see DESIGN.md section 2).
//
// Only metamorphic relations between executions of immudb itself decide:
// twin tables (primary key only / all secondary indexes), forced plans
// (USE INDEX ON), ternary partition (p / NOT p / p IS NULL), lifecycle
// (inside the writing transaction / committed / reopened) and ORDER BY
// sortedness under the harness comparator.
package c11

import (
	"encoding/json"
	"errors"
	"fmt"
	"math/rand/v2"
	"os"
	"sort"
	"strconv"
	"strings"
	"time"

	"github.com/codenotary/immudb/embedded/store"

	"verifharness/internal/fw"
)

func init() {
	fw.RegisterMonitor("C11", "exploration", Run)
	fw.RegisterIsolated("c11-schema", func(c *fw.Ctx, data []byte) {
		var cs caseSpec
		if err := json.Unmarshal(data, &cs); err != nil {
			c.Inconclusive("bad case: " + err.Error())
			return
		}
		runCase(c, cs)
	})
}

type caseSpec struct {
	Index   int
	Queries int
}

func Run(c *fw.Ctx) {
	c.Rule = "PRNG schema (all column types, nullable, composite/unique/late indexes) × DML history applied to twin tables t_plain (primary key only) and t_idx (all secondary indexes) × PRNG queries; an evaluation is one pair of executions that must agree by construction (twin tables, forced USE INDEX ON plan, p/NOT p/p IS NULL partition, in-tx/committed/reopened, ORDER BY sortedness); distinct = (relation × query shape × access path of each side × outcome) observed with a non-empty result"
	c.Assume("no hand-written SQL semantics: the only harness-side meaning is multiset/sequence equality of rows, multiset union, and the ORDER BY comparator (NULL first, numeric, bytewise, false<true, chronological)")
	c.Assume("excluded as recorded findings of C15: -0.0 in FLOAT columns and timestamps outside 1678–2262; float SUM/AVG (order dependent); LIMIT/OFFSET without a total order; historical queries inside an open transaction")
	nSchemas := c.N(30, 1500)
	nQueries := 60
	if v := os.Getenv("VERIF_C11_SCHEMAS"); v != "" { // development aid
		nSchemas, _ = strconv.Atoi(v)
	}
	var cases [][]byte
	first := 0
	if v := os.Getenv("VERIF_C11_FIRST"); v != "" {
		first, _ = strconv.Atoi(v)
	}
	for i := first; i < first+nSchemas; i++ {
		b, _ := json.Marshal(caseSpec{Index: i, Queries: nQueries})
		cases = append(cases, b)
	}
	c.RunIsolated("c11-schema", cases, fw.CasesOpts{Workers: 14, CaseTimout: 15 * time.Minute})
}

type runner struct {
	c           *fw.Ctx
	r           *rand.Rand
	s           *schema
	e           *env
	idx         int
	aborted     bool
	nviol       int
	syncTxs     []uint64
	life        map[int]map[string][2]*result // query id -> stage -> (plain, idx) results
	plans       map[string]int
	forcedClass string
}

var twins = [2][2]string{{"t_plain", "d_plain"}, {"t_idx", "d_idx"}}

func subst(tpl string, tw [2]string) string {
	return strings.NewReplacer("{T}", tw[0], "{D}", tw[1], "{q}", "").Replace(tpl)
}

func runCase(c *fw.Ctx, cs caseSpec) {
	r := fw.NewRand(c.Seed, fmt.Sprintf("c11/schema/%d", cs.Index))
	rn := &runner{c: c, r: r, idx: cs.Index, s: genSchema(r), life: map[int]map[string][2]*result{}, plans: map[string]int{}}
	rn.s.Params = map[string]interface{}{}
	rn.e = &env{dir: c.Dir("sql"), params: rn.s.Params}
	if err := rn.e.open(); err != nil {
		c.Inconclusive("open: " + err.Error())
		return
	}
	defer func() { rn.e.close() }()
	s := rn.s

	// DDL: twin tables, the join partner d, early indexes
	ddl := []string{s.createTable("t_plain"), s.createTable("t_idx")}
	svLen := s.col("s0").Len
	for _, d := range []string{"d_plain", "d_idx"} {
		ddl = append(ddl, fmt.Sprintf("CREATE TABLE %s (k INTEGER, iv INTEGER, sv VARCHAR[%d], PRIMARY KEY k)", d, svLen))
	}
	ddl = append(ddl, "CREATE INDEX ON d_idx(iv)", "CREATE INDEX ON d_idx(sv)", "CREATE INDEX ON d_idx(iv, sv)")
	for _, ix := range s.Idx {
		if !ix.Late {
			ddl = append(ddl, ix.create("t_idx"))
		}
	}
	for _, st := range ddl {
		if err := rn.e.exec(st); err != nil {
			c.Inconclusive(fmt.Sprintf("schema %d: DDL rejected: %s: %v", cs.Index, st, err))
			c.Count("schemas_rejected", 1)
			return
		}
	}
	for k := 1; k <= 10; k++ {
		iv, sv := s.pick(r, s.col("i0")), s.pick(r, s.col("s0"))
		if iv.Null && s.col("i0").NotNull || r.IntN(6) == 0 {
			iv = val{Null: true}
		}
		rn.apply(step{Kind: "insert-d", Tpl: fmt.Sprintf("INSERT INTO {D}(k, iv, sv) VALUES (%d, %s, %s)", s.dKey(k), iv.lit(), sv.lit())})
	}

	// phase A: first data
	for i := 0; i < 22 && !rn.aborted; i++ {
		st := genStep(r, s, false)
		if i < 12 {
			pk := s.pickPK(r)
			cols, lits := s.rowLits(r, pk)
			st = step{Kind: "insert", Tpl: fmt.Sprintf("INSERT INTO {T}(%s) VALUES (%s)", strings.Join(cols, ", "), strings.Join(lits, ", "))}
		}
		rn.apply(st)
	}
	// indexes created after the data
	for _, ix := range s.Idx {
		if ix.Late && !rn.aborted {
			if err := rn.e.exec(ix.create("t_idx")); err != nil {
				// an index that cannot be built over existing rows is a refusal, not a wrong answer
				c.Count("late_index_rejected", 1)
				c.Note(fmt.Sprintf("schema %d: %s rejected: %v", cs.Index, ix.create("t_idx"), err))
				rn.dropIndex(ix)
			}
		}
	}
	// phase B
	for i := 0; i < 16 && !rn.aborted; i++ {
		if i%6 == 5 {
			k := s.dKey(1 + r.IntN(10))
			if r.IntN(2) == 0 {
				rn.apply(step{Kind: "update-d", Tpl: fmt.Sprintf("UPDATE {D} SET iv = %s WHERE k = %d", s.pick(r, s.col("i0")).lit(), k)})
			} else {
				rn.apply(step{Kind: "delete-d", Tpl: fmt.Sprintf("DELETE FROM {D} WHERE k = %d", k)})
			}
			continue
		}
		rn.apply(genStep(r, s, false))
	}
	if rn.aborted {
		return
	}

	// batch 1: committed state only (historical queries included)
	n1 := cs.Queries / 3
	for i := 0; i < n1 && !rn.aborted; i++ {
		q := rn.prepare(genQuery(r, s, i, rn.syncTxs))
		rn.checkQuery(q, "committed")
	}

	// phase C: an explicit transaction; the same batch inside it, after commit, after reopen
	var batch []*query
	for i := n1; i < cs.Queries; i++ {
		q := genQuery(r, s, i, nil)
		for q.Kind == "history" {
			q = genQuery(r, s, i, nil)
		}
		batch = append(batch, rn.prepare(q))
	}
	if err := rn.e.exec("BEGIN TRANSACTION"); err != nil {
		c.Inconclusive("BEGIN TRANSACTION: " + err.Error())
		return
	}
	for i := 0; i < 4+r.IntN(6) && !rn.aborted; i++ {
		rn.apply(genStep(r, s, true))
	}
	if rn.e.tx != nil && !rn.aborted {
		for _, q := range batch {
			if rn.aborted {
				break
			}
			rn.checkQuery(q, "in-tx")
		}
	} else {
		c.Count("explicit_tx_lost", 1)
	}
	if rn.aborted {
		return
	}
	if rn.e.tx != nil {
		if err := rn.e.exec("COMMIT"); err != nil {
			c.Count("commit_rejected", 1)
			c.Note(fmt.Sprintf("schema %d: COMMIT rejected: %v", cs.Index, err))
			rn.life = map[int]map[string][2]*result{} // the transaction's writes are gone
		}
	}
	for _, q := range batch {
		if rn.aborted {
			return
		}
		rn.checkQuery(q, "committed")
	}
	if err := rn.e.reopen(); err != nil {
		c.Violation("lifecycle/reopen-failed", fmt.Sprintf("schema %d: the store/engine could not be reopened: %v", cs.Index, err), rn.files(nil, nil))
		return
	}
	for _, q := range batch {
		if rn.aborted {
			return
		}
		rn.checkQuery(q, "reopened")
	}
	c.Count("schemas_completed", 1)
	if cs.Index%10 == 0 {
		c.Sample(map[string]any{"schema": cs.Index, "ddl_t_idx": s.createTable("t_idx"), "indexes": len(s.Idx), "statements": len(rn.e.script)})
	}
	pl := map[string]any{}
	for k, v := range rn.plans {
		pl[k] = float64(v)
	}
	c.Set("access_paths_observed", pl)
}

func (rn *runner) dropIndex(ix index) {
	var keep []index
	for _, x := range rn.s.Idx {
		if strings.Join(x.Cols, ",") != strings.Join(ix.Cols, ",") {
			keep = append(keep, x)
		}
	}
	rn.s.Idx = keep
}

func (rn *runner) stageTag() string {
	if rn.e.tx != nil {
		return "/in-tx"
	}
	return ""
}

// files builds the witness: the SQL script so far and the compared executions.
func (rn *runner) files(a, b *result) map[string][]byte {
	var sb strings.Builder
	fmt.Fprintf(&sb, "-- C11 witness, schema %d (statements are applied through sql.Engine.Exec; in-tx = inside the open BEGIN TRANSACTION)\n", rn.idx)
	if len(rn.s.Params) > 0 {
		names := make([]string, 0, len(rn.s.Params))
		for n := range rn.s.Params {
			names = append(names, n)
		}
		sort.Strings(names)
		sb.WriteString("-- named parameters passed to every statement:\n")
		for _, n := range names {
			fmt.Fprintf(&sb, "--   @%s = %#v\n", n, rn.s.Params[n])
		}
	}
	sb.WriteString(strings.Join(rn.e.script, "\n"))
	sb.WriteString("\n")
	for _, r := range []*result{a, b} {
		if r == nil {
			continue
		}
		fmt.Fprintf(&sb, "\n-- query: %s\n-- plan: %s\n", r.SQL, r.Plan)
		if r.Err != nil {
			fmt.Fprintf(&sb, "-- error: %v\n", r.Err)
		}
		for _, row := range r.Enc {
			sb.WriteString("--   " + row + "\n")
		}
	}
	return map[string][]byte{"script.sql": []byte(sb.String())}
}

func (rn *runner) violation(sig, detail string, a, b *result) {
	rn.nviol++
	rn.c.Violation(sig, fmt.Sprintf("schema %d: %s", rn.idx, detail), rn.files(a, b))
	if rn.nviol >= 12 {
		rn.aborted = true // enough witnesses from this schema
	}
}

// apply runs one DML step on both twins and checks that the twins still hold the same rows.
func (rn *runner) apply(st step) {
	if rn.aborted {
		return
	}
	inTx := rn.e.tx != nil
	tag := rn.stageTag()
	var errs [2]error
	for i, tw := range twins {
		if inTx && rn.e.tx == nil {
			break // the first twin's failure cancelled the transaction
		}
		errs[i] = rn.e.exec(subst(st.Tpl, tw))
	}
	rn.c.Count("dml_statements", 2)
	where := ""
	if st.Where != "" {
		where = "/" + st.Where
	}
	switch {
	case errs[0] != nil && errs[1] != nil:
		rn.c.Count("dml_rejected_on_both", 1)
		return
	case inTx && errs[0] != nil:
		// cancelled by the first twin; the second one never ran: nothing to compare
		rn.c.Count("dml_cancelled_tx", 1)
		return
	case errs[0] != nil || errs[1] != nil:
		side, err := "t_plain", errs[0]
		if errs[1] != nil {
			side, err = "t_idx", errs[1]
		}
		rn.c.Eval(1)
		rn.violation("twin-tables/dml-"+st.Kind+"/error-on-one-side/"+errClass(err),
			fmt.Sprintf("%s is rejected on %s only: %v", st.Tpl, side, err), nil, nil)
		rn.aborted = true
		return
	}
	if !inTx {
		rn.syncTxs = append(rn.syncTxs, rn.e.st.LastCommittedTxID())
	}
	// state check through the primary indexes
	tbl := "{T}"
	if strings.HasSuffix(st.Kind, "-d") {
		tbl = "{D}"
	}
	a := rn.e.run(subst("SELECT * FROM "+tbl, twins[0]))
	b := rn.e.run(subst("SELECT * FROM "+tbl, twins[1]))
	rn.c.Eval(1)
	if a.Err != nil || b.Err != nil {
		if (a.Err == nil) != (b.Err == nil) && !resourceRefusal(a.Err) && !resourceRefusal(b.Err) {
			rn.violation("twin-tables/dml-"+st.Kind+where+tag+"/full-scan-error-on-one-side", fmt.Sprintf("after %s: SELECT * fails on one twin only: %v / %v", st.Tpl, a.Err, b.Err), a, b)
			rn.aborted = true
		}
		return
	}
	out, oa, ob := diffRows(a, b, false)
	if len(a.Enc) > 0 {
		rn.c.Distinct("dml|" + st.Kind + "|" + short(st.Where) + tag + "|" + out)
	}
	if out != "equal" {
		rn.violation("twin-tables/dml-"+st.Kind+where+tag+"/state-diverged",
			fmt.Sprintf("after %s the twins hold different rows (primary-key scans): only in t_plain:\n    %s\n  only in t_idx:\n    %s", st.Tpl, head(oa, 4), head(ob, 4)), a, b)
		rn.aborted = true
	}
}

// prepare fixes the per-query choices (forced indexes, partition predicate)
// so that every stage runs the same statements.
type prepared struct {
	forced  [][]string
	rforced []string
	tern    *pred
	colForm bool
}

var prep = map[*query]*prepared{}

func (rn *runner) prepare(q *query) *query {
	p := &prepared{}
	all := [][]string{strings.Split(pkNames(rn.s), ",")}
	for _, ix := range rn.s.Idx {
		all = append(all, ix.Cols)
	}
	// the primary key always, and three of the secondary indexes
	p.forced = append(p.forced, all[0])
	perm := rn.r.Perm(len(all) - 1)
	for _, i := range perm[:min(3, len(all)-1)] {
		p.forced = append(p.forced, all[1+i])
	}
	if q.Join != "" && len(q.JoinIdx) > 0 {
		p.rforced = q.JoinIdx[rn.r.IntN(len(q.JoinIdx))]
	}
	if (q.Kind == "select" || q.Kind == "join" || q.Kind == "history") && q.Limit == 0 && q.Offset == 0 {
		t := genPred(rn.r, rn.s, 1)
		p.tern = &t
		p.colForm = rn.r.IntN(4) == 0
	}
	prep[q] = p
	return q
}

func (rn *runner) idxClass(cols []string, q *query) string {
	key := strings.Join(cols, ",")
	if key == pkNames(rn.s) {
		return "pk"
	}
	for _, ix := range rn.s.Idx {
		if strings.Join(ix.Cols, ",") == key {
			cl := ix.class(rn.s)
			if len(ix.Cols) > 1 && q.Where != nil && strings.Contains(q.Where.Tpl, "{q}"+ix.Cols[0]+" = ") {
				cl += "-prefix"
			}
			return cl
		}
	}
	return "other"
}

func (rn *runner) plan(r *result) string {
	if r.Err != nil {
		return "error"
	}
	p := planClass(rn.s, r.Index)
	if strings.Contains(r.Plan, " desc ") {
		p += "↓"
	}
	return p
}

// compare decides one pair of executions that must agree.
func (rn *runner) compare(relation, shape, stage string, a, b *result, ordered bool) {
	tag := ""
	if stage == "in-tx" {
		tag = "/in-tx"
	}
	if a.Err != nil && b.Err != nil {
		rn.c.Count("pairs_rejected_on_both", 1)
		return
	}
	if resourceRefusal(a.Err) || resourceRefusal(b.Err) {
		// the read set of a read-write transaction is bounded: a refusal the API is allowed to give
		rn.c.Count("pairs_refused_for_resources", 1)
		return
	}
	rn.c.Eval(1)
	if a.Err != nil || b.Err != nil {
		rn.violation(relation+"/"+shape+tag+"/error-on-one-side",
			fmt.Sprintf("[%s] one execution fails, the other answers:\n  A: %s\n     -> %v (%d rows, %s)\n  B: %s\n     -> %v (%d rows, %s)", stage, a.SQL, a.Err, len(a.Enc), a.Plan, b.SQL, b.Err, len(b.Enc), b.Plan), a, b)
		return
	}
	out, oa, ob := diffRows(a, b, ordered)
	pa, pb := rn.plan(a), rn.plan(b)
	rn.plans[pa]++
	rn.plans[pb]++
	if len(a.Enc)+len(b.Enc) > 0 {
		rn.c.Distinct(relation + "|" + rn.forcedClass + "|" + distinctShape(shape) + "|" + stage + "|" + pa + "~" + pb + "|" + out)
	} else {
		rn.c.Count("pairs_both_empty", 1)
	}
	if out == "equal" {
		return
	}
	sig := relation + "/" + shape + tag
	if out != "rows-differ" {
		sig += "/" + out
	}
	rn.violation(sig, fmt.Sprintf("[%s] two executions that must agree differ (%s):\n  A: %s\n     plan %s, %d rows\n  B: %s\n     plan %s, %d rows\n  only in A:\n    %s\n  only in B:\n    %s",
		stage, out, a.SQL, a.Plan, len(a.Enc), b.SQL, b.Plan, len(b.Enc), head(oa, 5), head(ob, 5)), a, b)
}

// distinctShape coarsens a shape for the evidence fingerprint (operator × reachability × modifiers, no column type).
func distinctShape(shape string) string {
	parts := strings.Split(shape, "/")
	for i, p := range parts {
		if strings.Contains(p, "-on-") {
			parts[i] = short(p)
		}
	}
	return strings.Join(parts, "/")
}

func (rn *runner) orderCheck(q *query, stage string, res *result) {
	if len(q.Order) == 0 || res.Err != nil {
		return
	}
	rn.c.Eval(1)
	if i, k, bad := sortedViolation(q, res); bad {
		tag := ""
		if stage == "in-tx" {
			tag = "/in-tx"
		}
		dir := "asc"
		if q.Order[0].Desc {
			dir = "desc"
		}
		rn.violation("orderby/not-sorted/"+kindName[k]+"/"+dir+tag,
			fmt.Sprintf("[%s] %s\n  plan %s: row %d comes before row %d:\n    %s\n    %s", stage, res.SQL, res.Plan, i-1, i, res.Enc[i-1], res.Enc[i]), res, nil)
		return
	}
	if len(res.Rows) > 1 {
		rn.c.Distinct("orderby|" + q.Mods + "|" + rn.plan(res) + "|sorted")
	}
}

func andWhere(w, p string) string {
	if w == "" {
		return p
	}
	return "(" + w + ") AND " + p
}

func (rn *runner) checkQuery(q *query, stage string) {
	p := prep[q]
	w := q.whereTpl()
	rn.c.Count("queries_"+stage, 1)
	plain := rn.e.run(q.sql("t_plain", "d_plain", nil, nil, w))
	base := rn.e.run(q.sql("t_idx", "d_idx", nil, nil, w))

	// (1) twin tables
	rn.compare("twin-tables", q.Shape, stage, plain, base, q.Total)
	// (5) ordering
	rn.orderCheck(q, stage, plain)
	rn.orderCheck(q, stage, base)

	// (2) forced plans
	for _, f := range p.forced {
		if rn.aborted {
			return
		}
		fr := rn.e.run(q.sql("t_idx", "d_idx", f, nil, w))
		rn.forcedClass = rn.idxClass(f, q)
		rn.compare("forced-index", q.Shape, stage, base, fr, q.Total)
		rn.forcedClass = ""
		rn.orderCheck(q, stage, fr)
	}
	if p.rforced != nil && !rn.aborted {
		fr := rn.e.run(q.sql("t_idx", "d_idx", nil, p.rforced, w))
		rn.forcedClass = "join-right"
		rn.compare("forced-index", q.Shape, stage, base, fr, q.Total)
		rn.forcedClass = ""
	}

	// (3) ternary partition
	if p.tern != nil && !rn.aborted && base.Err == nil {
		rn.ternary(q, p, stage, base, w)
	}

	// (4) lifecycle
	if rn.life[q.ID] == nil {
		rn.life[q.ID] = map[string][2]*result{}
	}
	rn.life[q.ID][stage] = [2]*result{plain, base}
	prev := map[string]string{"committed": "in-tx", "reopened": "committed"}[stage]
	if old, ok := rn.life[q.ID][prev]; ok && !rn.aborted {
		rel := "lifecycle/" + prev + "-vs-" + stage
		rn.compare(rel, "t_plain/"+q.Shape, stage, old[0], plain, q.Total)
		rn.compare(rel, "t_idx/"+q.Shape, stage, old[1], base, q.Total)
	}
}

func (rn *runner) ternary(q *query, p *prepared, stage string, base *result, w string) {
	t := p.tern
	rel := "ternary"
	var parts []string
	leaf := !strings.Contains(t.Class, "(") && t.Class != "composite-prefix"
	colForm := p.colForm && leaf && t.Col != nil
	mk := func(colForm bool) []string {
		if colForm {
			c := "{q}" + t.Col.Name
			return []string{andWhere(w, c+" IS NULL"), andWhere(w, c+" IS NOT NULL AND ("+t.Tpl+")"), andWhere(w, c+" IS NOT NULL AND NOT ("+t.Tpl+")")}
		}
		return []string{andWhere(w, "("+t.Tpl+")"), andWhere(w, "NOT ("+t.Tpl+")"), andWhere(w, "(("+t.Tpl+") IS NULL)")}
	}
	parts = mk(colForm)
	run := func(parts []string) ([]*result, int) {
		var rs []*result
		nerr := 0
		for _, pw := range parts {
			r := rn.e.run(q.sql("t_idx", "d_idx", nil, nil, pw))
			if r.Err != nil {
				nerr++
			}
			rs = append(rs, r)
		}
		return rs, nerr
	}
	rs, nerr := run(parts)
	if !colForm && nerr == 1 && rs[2].Err != nil && leaf && t.Col != nil {
		// nullness of p is not expressible: partition on the column it reads
		rn.c.Count("ternary_isnull_not_expressible", 1)
		colForm = true
		rs, nerr = run(mk(true))
	}
	if colForm {
		rel = "ternary-col"
	}
	shape := t.Class
	if q.Mods != "" {
		shape += "/" + q.Mods
	}
	if q.Kind == "history" {
		shape = q.Shape
	}
	tag := ""
	if stage == "in-tx" {
		tag = "/in-tx"
	}
	if nerr == 3 {
		rn.c.Count("pairs_rejected_on_both", 1)
		return
	}
	for _, r := range rs {
		if resourceRefusal(r.Err) {
			rn.c.Count("pairs_refused_for_resources", 1)
			return
		}
	}
	rn.c.Eval(1)
	if nerr > 0 {
		var bad *result
		for _, r := range rs {
			if r.Err != nil {
				bad = r
			}
		}
		rn.violation(rel+"/"+shape+tag+"/error-on-one-side", fmt.Sprintf("[%s] the unsplit query answers (%d rows) but a part of its partition fails:\n  Q: %s\n  part: %s\n     -> %v", stage, len(base.Enc), base.SQL, bad.SQL, bad.Err), base, bad)
		return
	}
	union := &result{SQL: rs[0].SQL + "\n  ⊎ " + rs[1].SQL + "\n  ⊎ " + rs[2].SQL, Plan: rs[0].Plan + " ⊎ " + rs[1].Plan + " ⊎ " + rs[2].Plan}
	for _, r := range rs {
		union.Enc = append(union.Enc, r.Enc...)
	}
	out, oa, ob := diffRows(base, union, false)
	if len(base.Enc) > 0 {
		sizes := []string{}
		for _, r := range rs {
			sizes = append(sizes, map[bool]string{true: "0", false: "n"}[len(r.Enc) == 0])
		}
		rn.c.Distinct(rel + "|" + distinctShape(shape) + "|" + stage + "|" + rn.plan(base) + "~" + rn.plan(rs[0]) + "," + rn.plan(rs[1]) + "," + rn.plan(rs[2]) + "|" + strings.Join(sizes, "") + "|" + out)
	}
	if out == "equal" {
		return
	}
	rn.violation(rel+"/"+shape+tag, fmt.Sprintf("[%s] the three parts do not partition the result:\n  Q (%d rows, plan %s): %s\n  parts (%d + %d + %d rows):\n    %s\n  only in Q:\n    %s\n  only in the parts:\n    %s",
		stage, len(base.Enc), base.Plan, base.SQL, len(rs[0].Enc), len(rs[1].Enc), len(rs[2].Enc), union.SQL, head(oa, 5), head(ob, 5)), base, union)
}

var _ = sort.Strings

// errClass names the refusal (the sentinel error text, not its arguments).
func errClass(err error) string {
	t := strings.ToLower(err.Error())
	if i := strings.Index(t, ":"); i > 0 {
		t = t[:i]
	}
	var sb strings.Builder
	for _, ch := range t {
		switch {
		case ch >= 'a' && ch <= 'z' || ch >= '0' && ch <= '9':
			sb.WriteRune(ch)
		default:
			if sb.Len() > 0 && !strings.HasSuffix(sb.String(), "-") {
				sb.WriteByte('-')
			}
		}
		if sb.Len() >= 48 {
			break
		}
	}
	return strings.Trim(sb.String(), "-")
}

func resourceRefusal(err error) bool {
	return err != nil && errors.Is(err, store.ErrMVCCReadSetLimitExceeded)
}
