package c11

import (
	"bytes"
	"context"
	"encoding/hex"
	"encoding/json"
	"errors"
	"fmt"
	"os"
	"sort"
	"strings"
	"time"

	"github.com/codenotary/immudb/embedded/sql"
	"github.com/codenotary/immudb/embedded/store"
	"github.com/google/uuid"

	"verifharness/internal/sth"
)

// env is one store + engine holding the twin tables.
type env struct {
	dir    string
	st     *store.ImmuStore
	eng    *sql.Engine
	tx     *sql.SQLTx             // open explicit transaction, if any
	script []string               // every statement executed so far (the replay script)
	params map[string]interface{} // named parameters of the case (shared with the schema)
}

func (e *env) open() error {
	st, err := store.Open(e.dir, store.DefaultOptions().WithMultiIndexing(true).WithSynced(false).
		WithMaxConcurrency(4).WithMVCCReadSetLimit(20_000_000).WithLogger(sth.QuietLogger()))
	if err != nil {
		return err
	}
	eng, err := sql.NewEngine(st, sql.DefaultOptions().WithPrefix([]byte{2}))
	if err != nil {
		st.Close()
		return err
	}
	e.st, e.eng = st, eng
	return nil
}

func (e *env) close() {
	if e.tx != nil {
		e.tx.Cancel()
		e.tx = nil
	}
	if e.st != nil {
		e.st.Close()
		e.st = nil
	}
}

func (e *env) reopen() error {
	e.close()
	e.script = append(e.script, "-- close and reopen the store and the engine")
	return e.open()
}

// exec runs one statement (inside the explicit transaction when one is open).
func (e *env) exec(stmt string) error {
	e.script = append(e.script, stmt+";")
	if p := os.Getenv("VERIF_C11_TRACE"); p != "" { // development aid: statement log that survives a crash of the child
		if f, err := os.OpenFile(p, os.O_CREATE|os.O_APPEND|os.O_WRONLY, 0o644); err == nil {
			fmt.Fprintf(f, "%s;\n", stmt)
			f.Close()
		}
	}
	ntx, _, err := e.eng.Exec(context.Background(), e.tx, stmt, e.params)
	if e.tx != nil || ntx != nil {
		e.tx = ntx // nil after COMMIT, and after an error (the engine cancels the transaction)
	}
	if err != nil {
		e.script[len(e.script)-1] += " -- error: " + err.Error()
	}
	return err
}

// result of one query execution.
type result struct {
	SQL   string
	Err   error
	Rows  [][]val
	Enc   []string // canonical encoding of each row
	Plan  string   // index the scan used, scan direction, outermost reader
	Index string
}

func fromTyped(tv sql.TypedValue) val {
	if tv == nil || tv.IsNull() {
		return val{Null: true}
	}
	switch x := tv.RawValue().(type) {
	case int64:
		return val{K: kInt, I: x}
	case bool:
		return val{K: kBool, B: x}
	case string:
		if tv.Type() == sql.JSONType {
			return val{K: kJSON, S: x}
		}
		return val{K: kVarchar, S: x}
	case []byte:
		return val{K: kBlob, X: x}
	case time.Time:
		return val{K: kTs, T: x}
	case float64:
		return val{K: kFloat, F: x}
	case uuid.UUID:
		return val{K: kUUID, X: append([]byte{}, x[:]...)}
	default:
		b, _ := json.Marshal(x) // JSON documents: canonical text (sorted keys)
		return val{K: kJSON, S: string(b)}
	}
}

func (v val) enc() string {
	if v.Null {
		return "NULL"
	}
	switch v.K {
	case kInt:
		return fmt.Sprintf("%d", v.I)
	case kBool:
		return fmt.Sprintf("%v", v.B)
	case kVarchar:
		return fmt.Sprintf("%q", v.S)
	case kJSON:
		return "json:" + v.S
	case kBlob:
		return "x'" + hex.EncodeToString(v.X) + "'"
	case kUUID:
		return "uuid:" + hex.EncodeToString(v.X)
	case kTs:
		return v.T.UTC().Format("2006-01-02T15:04:05.000000000")
	case kFloat:
		return fmt.Sprintf("%v", v.F)
	}
	return "?"
}

func encRow(r []val) string {
	p := make([]string, len(r))
	for i, v := range r {
		p[i] = v.enc()
	}
	return strings.Join(p, " | ")
}

func (e *env) run(q string) *result {
	ctx := context.Background()
	res := &result{SQL: q}
	rd, err := e.eng.Query(ctx, e.tx, q, e.params)
	if err != nil {
		res.Err = err
		return res
	}
	defer rd.Close()
	if ss := rd.ScanSpecs(); ss != nil && ss.Index != nil {
		res.Index = ss.Index.Name()
		res.Plan = res.Index
		if ss.DescOrder {
			res.Plan += " desc"
		}
	} else {
		res.Plan = "no-scan-specs"
	}
	res.Plan += " " + strings.TrimPrefix(fmt.Sprintf("%T", rd), "*sql.")
	for {
		row, err := rd.Read(ctx)
		if err != nil {
			if !errors.Is(err, sql.ErrNoMoreRows) {
				res.Err = err
			}
			break
		}
		vs := make([]val, len(row.ValuesByPosition))
		for i, tv := range row.ValuesByPosition {
			vs[i] = fromTyped(tv)
		}
		res.Rows = append(res.Rows, vs)
		res.Enc = append(res.Enc, encRow(vs))
		if len(res.Rows) > 20000 {
			res.Err = fmt.Errorf("harness: more than 20000 rows")
			break
		}
	}
	return res
}

// planClass reduces an index name "t_idx(c1,c2)" to the kind of access path.
func planClass(s *schema, index string) string {
	i := strings.Index(index, "(")
	if i < 0 {
		return "none"
	}
	cols := strings.Split(strings.TrimSuffix(index[i+1:], ")"), ",")
	for j := range cols {
		cols[j] = strings.TrimSpace(cols[j])
	}
	if strings.HasPrefix(index, "d_") {
		return "d(" + strings.Join(cols, ",") + ")"
	}
	if strings.Join(cols, ",") == pkNames(s) {
		return "pk"
	}
	for _, ix := range s.Idx {
		if strings.Join(ix.Cols, ",") == strings.Join(cols, ",") {
			return ix.class(s)
		}
	}
	return "other"
}

// ------------------------------------------------------------ comparisons

// cmpVal: the harness comparator of relation (5): NULL first, integers and
// floats numeric, strings / blobs / uuids bytewise, false < true, timestamps
// chronological.
func cmpVal(a, b val) int {
	switch {
	case a.Null && b.Null:
		return 0
	case a.Null:
		return -1
	case b.Null:
		return 1
	}
	switch a.K {
	case kInt:
		if b.K == kFloat {
			return cmpF(float64(a.I), b.F)
		}
		switch {
		case a.I < b.I:
			return -1
		case a.I > b.I:
			return 1
		}
		return 0
	case kFloat:
		if b.K == kInt {
			return cmpF(a.F, float64(b.I))
		}
		return cmpF(a.F, b.F)
	case kBool:
		switch {
		case a.B == b.B:
			return 0
		case !a.B:
			return -1
		}
		return 1
	case kVarchar, kJSON:
		return strings.Compare(a.S, b.S)
	case kBlob, kUUID:
		return bytes.Compare(a.X, b.X)
	case kTs:
		switch {
		case a.T.Before(b.T):
			return -1
		case a.T.After(b.T):
			return 1
		}
		return 0
	}
	return 0
}

func cmpF(a, b float64) int {
	switch {
	case a < b:
		return -1
	case a > b:
		return 1
	}
	return 0
}

// sortedViolation returns the first adjacent pair that is out of order.
func sortedViolation(q *query, res *result) (int, kind, bool) {
	for i := 1; i < len(res.Rows); i++ {
		a, b := res.Rows[i-1], res.Rows[i]
		for _, o := range q.Order {
			if o.T >= len(a) || o.T >= len(b) {
				return 0, 0, false
			}
			c := cmpVal(a[o.T], b[o.T])
			if o.Desc {
				c = -c
			}
			if c < 0 {
				break
			}
			if c > 0 {
				return i, q.Targets[o.T].K, true
			}
		}
	}
	return 0, 0, false
}

// diffRows compares two results as sequences (ordered) or multisets.
// outcome: "equal", "order-differs", "rows-differ".
func diffRows(a, b *result, ordered bool) (outcome string, onlyA, onlyB []string) {
	if ordered {
		same := len(a.Enc) == len(b.Enc)
		for i := 0; same && i < len(a.Enc); i++ {
			same = a.Enc[i] == b.Enc[i]
		}
		if same {
			return "equal", nil, nil
		}
	}
	ca := map[string]int{}
	for _, r := range a.Enc {
		ca[r]++
	}
	for _, r := range b.Enc {
		if ca[r] > 0 {
			ca[r]--
		} else {
			onlyB = append(onlyB, r)
		}
	}
	for r, n := range ca {
		for ; n > 0; n-- {
			onlyA = append(onlyA, r)
		}
	}
	sort.Strings(onlyA)
	sort.Strings(onlyB)
	if len(onlyA) == 0 && len(onlyB) == 0 {
		if ordered {
			return "order-differs", nil, nil
		}
		return "equal", nil, nil
	}
	return "rows-differ", onlyA, onlyB
}

func head(rows []string, n int) string {
	if len(rows) > n {
		return strings.Join(rows[:n], "\n    ") + fmt.Sprintf("\n    … (%d rows)", len(rows))
	}
	return strings.Join(rows, "\n    ")
}
