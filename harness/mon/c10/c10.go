// Package c10: monitor for property C10 (see DESIGN.md section 2).
package c10
