// Package c10: the timed B-tree (embedded/tbtree) equals a multi-version
// ordered map; snapshots are immutable; flush, restart and compaction preserve
// the content. See DESIGN.md section 2, C10.
//
// PRNG sequences of writer operations (BulkInsert, Insert, IncreaseTs,
// FlushWith, Sync, Compact, Close/reopen) interleaved with reads on the tree,
// on snapshots, on readers and history readers. The oracle is kvmodel: the
// tree is compared with the model's current state, every snapshot with the
// model state frozen at snapshot.Ts(); after every mutation a sample of queries
// is repeated on every open snapshot.
package c10

import (
	"bytes"
	"encoding/json"
	"errors"
	"fmt"
	"io"
	"math/rand/v2"
	"os"
	"path/filepath"
	"regexp"
	"runtime"
	"strconv"
	"strings"
	"sync"
	"sync/atomic"
	"time"

	"github.com/codenotary/immudb/embedded/cache"
	"github.com/codenotary/immudb/embedded/logger"
	"github.com/codenotary/immudb/embedded/tbtree"
	"github.com/prometheus/client_golang/prometheus"
	dto "github.com/prometheus/client_model/go"

	"verifharness/internal/fw"
	"verifharness/internal/kvmodel"
)

func init() { fw.RegisterMonitor("C10", "exploration", Run) }

// ---------------------------------------------------------------- depth probe

// The tree does not expose its depth; it publishes it in the gauge
// immudb_btree_depth{id=<path>} on every insertion. The collector is
// unexported, so it is recovered from the default registry.
var (
	depthOnce sync.Once
	depthVec  *prometheus.GaugeVec
)

func depthOf(path string) int {
	depthOnce.Do(func() {
		gv := prometheus.NewGaugeVec(prometheus.GaugeOpts{Name: "immudb_btree_depth", Help: "Btree depth"}, []string{"id"})
		err := prometheus.Register(gv)
		if err == nil {
			prometheus.Unregister(gv)
			return
		}
		var are prometheus.AlreadyRegisteredError
		if errors.As(err, &are) {
			depthVec, _ = are.ExistingCollector.(*prometheus.GaugeVec)
		}
	})
	if depthVec == nil {
		return -1
	}
	g, err := depthVec.GetMetricWithLabelValues(path)
	if err != nil {
		return -1
	}
	var m dto.Metric
	if g.Write(&m) != nil || m.Gauge == nil {
		return -1
	}
	return int(m.Gauge.GetValue())
}

// ---------------------------------------------------------------- configuration

type cfg struct {
	MaxKey, MaxVal, NodeSize       int
	CacheSize                      int
	FlushThld, SyncThld, MaxBuf    int
	CleanupPct                     float32
	MaxSnaps, CompThld, FileSize   int
	Renew, DelayComp               time.Duration
	PoolSize                       int
	NodesFiles, HistFiles, CLFiles int
	Small                          bool // few short keys in a big node: the root stays a single leaf
}

func requiredNodeSize(k, v int) int {
	a, b := 2*(29+k), 31+k+v
	if a < b {
		return b
	}
	return a
}

func pick[T any](r *rand.Rand, xs ...T) T { return xs[r.IntN(len(xs))] }

func genCfg(r *rand.Rand) cfg {
	var cf cfg
	cf.MaxKey = pick(r, 2, 3, 4, 6, 8, 12, 16)
	cf.MaxVal = pick(r, 1, 2, 4, 8, 16, 40)
	cf.NodeSize = requiredNodeSize(cf.MaxKey, cf.MaxVal) + pick(r, 0, 0, 0, 1, 16, 64, 300)
	cf.PoolSize = pick(r, 6, 24, 80, 200, 400)
	if r.IntN(4) == 0 {
		// small-tree profile: the whole tree is one leaf (or a root over two or three
		// leaves), the copy-on-write of the root itself is what every operation exercises
		cf.Small = true
		cf.MaxKey = pick(r, 2, 3, 4)
		cf.MaxVal = pick(r, 1, 4, 8)
		cf.NodeSize = requiredNodeSize(cf.MaxKey, cf.MaxVal) + pick(r, 120, 400, 1000, 4000)
		cf.PoolSize = pick(r, 3, 4, 6, 8)
	}
	cf.tune(r)
	// history reads fetch 4 KiB at a time: files of ~100 bytes cost dozens of opens per read, so they are rare
	cf.FileSize = pick(r, 2048, 4096, 4096, 8192, 8192, 1<<16, 1<<20, 1<<20)
	if r.IntN(12) == 0 {
		cf.FileSize = pick(r, 96, 200, 512, 1024)
	}
	return cf
}

// tune (re)draws the options that may change from one opening to the next.
func (cf *cfg) tune(r *rand.Rand) {
	cf.CacheSize = pick(r, 1, cf.NodeSize, 2*cf.NodeSize, 3*cf.NodeSize, 4*cf.NodeSize, 64*cf.NodeSize)
	cf.FlushThld = pick(r, 1, 2, 3, 7, 25, 100000)
	cf.SyncThld = cf.FlushThld * pick(r, 1, 2, 10, 1000)
	cf.MaxBuf = pick(r, 1, 40, 400, 1<<22)
	cf.CleanupPct = pick(r, float32(0), 0, 0.5, 10, 50, 100)
	cf.MaxSnaps = pick(r, 1, 2, 3, 5, 100)
	cf.CompThld = pick(r, 1, 1, 2, 3)
	cf.Renew = pick(r, time.Duration(0), time.Nanosecond, time.Hour)
	cf.DelayComp = pick(r, time.Duration(0), time.Millisecond)
	// few file handles mean an open (header read, buffers) per node or history chunk read: kept in the mix, not dominant
	cf.NodesFiles = pick(r, 1, 2, 10, 10)
	cf.HistFiles = pick(r, 1, 3, 10, 10, 10)
	cf.CLFiles = pick(r, 1, 2)
}

func (cf cfg) opts() *tbtree.Options {
	return tbtree.DefaultOptions().
		WithLogger(logger.NewSimpleLoggerWithLevel("c10", io.Discard, logger.LogError)).
		WithMaxKeySize(cf.MaxKey).WithMaxValueSize(cf.MaxVal).WithMaxNodeSize(cf.NodeSize).
		WithCacheSize(cf.CacheSize).
		WithFlushThld(cf.FlushThld).WithSyncThld(cf.SyncThld).WithMaxBufferedDataSize(cf.MaxBuf).
		WithCleanupPercentage(cf.CleanupPct).WithMaxActiveSnapshots(cf.MaxSnaps).
		WithCompactionThld(cf.CompThld).WithFileSize(cf.FileSize).
		WithRenewSnapRootAfter(cf.Renew).WithDelayDuringCompaction(cf.DelayComp).
		WithNodesLogMaxOpenedFiles(cf.NodesFiles).WithHistoryLogMaxOpenedFiles(cf.HistFiles).WithCommitLogMaxOpenedFiles(cf.CLFiles)
}

// ---------------------------------------------------------------- sequence state

type kvReader interface {
	Get(key []byte) ([]byte, uint64, uint64, error)
	GetBetween(key []byte, initialTs, finalTs uint64) ([]byte, uint64, uint64, error)
	History(key []byte, offset uint64, descOrder bool, limit int) ([]tbtree.TimedValue, uint64, error)
	GetWithPrefix(prefix, neq []byte) ([]byte, []byte, uint64, uint64, error)
}

const (
	modeRead = iota
	modeHistory
	modeBetween
)

type rdState struct {
	rd       *tbtree.Reader
	spec     tbtree.ReaderSpec
	shape    string
	mode     int
	iTs, fTs uint64
	exp      []kvmodel.Entry
	pos      int
	resets   int
}

type snapState struct {
	s       *tbtree.Snapshot
	ts0     uint64
	frozen  *kvmodel.Model // state at ts0 plus local writes
	readers []*rdState
	stale   bool // the tree was mutated after this snapshot was taken
	depth   int
	id      int
}

type seq struct {
	c    *fw.Ctx
	r    *rand.Rand
	id   int
	dir  string
	cf   cfg
	t    *tbtree.TBtree
	m    *kvmodel.Model
	pool [][]byte

	snaps     []*snapState
	snapSeq   int
	compactTs uint64 // timestamp reported by the last successful Compact since the tree was opened
	valCtr    uint64
	lastKeys  [][]byte // keys written by the latest insertion: always re-queried on every open snapshot
	opens     int      // how many times the tree was opened
	busy      int      // > 0 while reader goroutines or a background compaction use the tree: no close / reopen
	tsAtOpen  uint64   // logical time of the tree when it was last opened
	depth     int
	maxDepth  int
	conc      bool         // thorough tier: reader goroutines and background compaction
	dead      atomic.Bool  // a violation was recorded: the sequence stops
	progress  atomic.Int64 // oracle steps taken (watchdog: a sequence that stops moving is reported inconclusive)
	held      int          // snapshots lent to reader goroutines (burst)

	logMu sync.Mutex
	log   []string
}

func (s *seq) logf(f string, a ...any) {
	s.progress.Add(1)
	s.logMu.Lock()
	s.log = append(s.log, fmt.Sprintf(f, a...))
	s.logMu.Unlock()
}

// canonSig folds the places where one defect can surface into one signature
// (the operation that happened to hit it stays in the detail text).
func canonSig(sig string) string {
	switch {
	case strings.Contains(sig, "unexpected-error/cache-key-not-found"):
		// multiapp's file-handle cache lets its own miss escape to the caller
		return "multiapp.handle-cache/key-not-found-leaked"
	case strings.Contains(sig, "unexpected-error/eof"):
		// a node (or history chunk) that the object still refers to is gone from the log
		if strings.HasPrefix(sig, "snapshot.") {
			return "snapshot/node-read-eof"
		}
		return "tree/node-read-eof"
	}
	return sig
}

func (s *seq) violation(sig, detail string) {
	s.dead.Store(true)
	s.record(sig, detail)
}

// record reports a violation without ending the sequence (the caller re-aligns the model).
func (s *seq) record(sig, detail string) {
	if c := canonSig(sig); c != sig {
		detail = "[" + sig + "] " + detail
		sig = c
	}
	s.logMu.Lock()
	ops := strings.Join(s.log, "\n")
	s.logMu.Unlock()
	s.c.Violation(sig, fmt.Sprintf("sequence %d (%+v): %s", s.id, s.cf, detail), map[string][]byte{
		"ops.txt":    []byte(ops + "\n"),
		"config.txt": []byte(fmt.Sprintf("sequence=%d\n%+v\nrerun: VERIF_SEED=%d VERIF_C10_SEQ=%d ./check C10 --tier %s\n", s.id, s.cf, s.c.Seed, s.id, s.c.Tier)),
	})
}

// guard runs f; a panic inside immudb becomes a violation named after the panicking frame.
func (s *seq) guard(what string, f func()) bool {
	panicked, sig, text := fw.Guard(f)
	if panicked {
		s.violation(panicSig(sig, text), what+": "+text)
		return false
	}
	return true
}

var immudbFrame = regexp.MustCompile(`(?m)^github\.com/codenotary/immudb/(\S+?)\((?:0x|\{|\)|\.\.\.|[0-9])`)

// panicSig is "pkg.Func/kind": the first immudb frame of the stack (methods with
// pointer receivers included, e.g. embedded/tbtree.(*leafNode).writeTo) and the
// panic kind computed by the framework.
func panicSig(fwSig, text string) string {
	kind := fwSig[strings.LastIndex(fwSig, "/")+1:]
	for _, m := range immudbFrame.FindAllStringSubmatch(text, -1) {
		if !strings.Contains(m[1], "/verifhook.") {
			return m[1] + "/" + kind
		}
	}
	return fwSig
}

func hx(b []byte) string {
	if b == nil {
		return "nil"
	}
	return fmt.Sprintf("%x", b)
}

// ---------------------------------------------------------------- generators

var alphabet = []byte{0x00, 0x01, 'a', 'b', 0xFE, 0xFF}

func (s *seq) rawKey(maxLen int) []byte {
	n := 1 + s.r.IntN(maxLen)
	if s.r.IntN(4) == 0 {
		n = maxLen
	}
	k := make([]byte, n)
	for i := range k {
		k[i] = alphabet[s.r.IntN(len(alphabet))]
	}
	return k
}

func (s *seq) buildPool() {
	mk := s.cf.MaxKey
	s.pool = append(s.pool, bytes.Repeat([]byte{0xFF}, mk), []byte{0x00}, []byte{0xFF})
	for len(s.pool) < s.cf.PoolSize {
		switch s.r.IntN(4) {
		case 0, 1:
			s.pool = append(s.pool, s.rawKey(mk))
		case 2: // extension of an existing key (shared prefixes)
			k := s.pool[s.r.IntN(len(s.pool))]
			if len(k) < mk {
				e := append(append([]byte{}, k...), s.rawKey(mk-len(k))...)
				s.pool = append(s.pool, e)
			}
		case 3: // prefix of an existing key
			k := s.pool[s.r.IntN(len(s.pool))]
			s.pool = append(s.pool, append([]byte{}, k[:1+s.r.IntN(len(k))]...))
		}
	}
}

func (s *seq) poolKey() []byte { return s.pool[s.r.IntN(len(s.pool))] }

// someKey: mostly a pool key (present or not), sometimes a neighbour or a random key.
func (s *seq) someKey() []byte {
	switch s.r.IntN(10) {
	case 0:
		return s.rawKey(s.cf.MaxKey)
	case 1:
		k := append([]byte{}, s.poolKey()...)
		switch s.r.IntN(3) {
		case 0:
			k[len(k)-1]++
		case 1:
			k[len(k)-1]--
		case 2:
			if len(k) < s.cf.MaxKey {
				k = append(k, 0)
			}
		}
		return k
	}
	return s.poolKey()
}

func (s *seq) value() []byte {
	s.valCtr++
	n := 1 + s.r.IntN(s.cf.MaxVal)
	if s.r.IntN(5) == 0 {
		n = s.cf.MaxVal
	}
	v := make([]byte, n)
	x := s.valCtr
	for i := range v {
		v[i] = byte(x) | 1 // never all-zero, position dependent
		x = x>>7 + uint64(i)*131
	}
	v[0] = byte(s.valCtr)
	return v
}

// someTs: a timestamp around the interesting ones of the given view.
func (s *seq) someTs(top uint64) uint64 {
	switch s.r.IntN(8) {
	case 0:
		return 0
	case 1:
		return top + 1 + uint64(s.r.IntN(3))
	case 2:
		return top
	}
	return uint64(s.r.Int64N(int64(top) + 1))
}

// ---------------------------------------------------------------- checks on single queries

type query struct {
	kind   int // 0 Get, 1 GetBetween, 2 History, 3 GetWithPrefix
	key    []byte
	neq    []byte
	i, f   uint64
	offset uint64
	desc   bool
	limit  int
}

func (q query) String() string {
	switch q.kind {
	case 0:
		return fmt.Sprintf("Get(%s)", hx(q.key))
	case 1:
		return fmt.Sprintf("GetBetween(%s,%d,%d)", hx(q.key), q.i, q.f)
	case 2:
		return fmt.Sprintf("History(%s,off=%d,desc=%v,limit=%d)", hx(q.key), q.offset, q.desc, q.limit)
	}
	return fmt.Sprintf("GetWithPrefix(%s,neq=%s)", hx(q.key), hx(q.neq))
}

func (s *seq) genQuery(r *rand.Rand, v kvmodel.View, top uint64) query {
	q := query{kind: r.IntN(4)}
	// the key: drawn with the sequence-independent generator r (reader goroutines have their own)
	q.key = s.pool[r.IntN(len(s.pool))]
	if r.IntN(8) == 0 {
		k := append([]byte{}, q.key...)
		k[len(k)-1] ^= byte(1 + r.IntN(3))
		q.key = k
	}
	switch q.kind {
	case 1:
		q.i = tsNear(r, top)
		q.f = tsNear(r, top)
		if r.IntN(3) > 0 && q.i > q.f {
			q.i, q.f = q.f, q.i
		}
		// bias towards windows that end below the newest version of the key
		if ver, _, ok := v.Get(q.key); ok && r.IntN(2) == 0 && ver.Ts > 1 {
			q.f = uint64(r.Int64N(int64(ver.Ts)))
			if q.i > q.f {
				q.i = uint64(r.Int64N(int64(q.f) + 1))
			}
		}
	case 2:
		_, n, _ := v.Get(q.key)
		q.offset = uint64(r.IntN(int(n) + 3))
		if r.IntN(3) == 0 {
			q.offset = 0
		}
		q.desc = r.IntN(2) == 0
		q.limit = pick(r, 1, 1, 2, 3, 5, 100)
		if r.IntN(40) == 0 {
			q.limit = pick(r, 0, -1)
		}
	case 3:
		// prefix: a prefix of a pool key, or the key itself
		if r.IntN(3) > 0 {
			q.key = q.key[:1+r.IntN(len(q.key))]
		}
		if r.IntN(12) == 0 {
			q.key = nil
		}
		// neq is restricted to the unambiguous choices: none, the prefix itself,
		// or something below the prefix ("first key with the prefix other than neq").
		switch r.IntN(4) {
		case 0:
			q.neq = q.key
		case 1:
			if len(q.key) > 1 {
				q.neq = q.key[:len(q.key)-1]
			}
		}
	}
	return q
}

func tsNear(r *rand.Rand, top uint64) uint64 {
	switch r.IntN(8) {
	case 0:
		return 0
	case 1:
		return top + 1 + uint64(r.IntN(3))
	case 2:
		return top
	}
	return uint64(r.Int64N(int64(top) + 1))
}

func errClass(err error) string {
	switch {
	case err == nil:
		return "ok"
	case errors.Is(err, tbtree.ErrKeyNotFound):
		return "key-not-found"
	case errors.Is(err, tbtree.ErrNoMoreEntries):
		return "no-more-entries"
	case errors.Is(err, tbtree.ErrOffsetOutOfRange):
		return "offset-out-of-range"
	case errors.Is(err, tbtree.ErrIllegalArguments):
		return "illegal-arguments"
	case errors.Is(err, tbtree.ErrAlreadyClosed):
		return "already-closed"
	case errors.Is(err, tbtree.ErrReadersNotClosed):
		return "readers-not-closed"
	case errors.Is(err, tbtree.ErrSnapshotsNotClosed):
		return "snapshots-not-closed"
	case errors.Is(err, tbtree.ErrorToManyActiveSnapshots):
		return "too-many-snapshots"
	case errors.Is(err, tbtree.ErrCompactionThresholdNotReached):
		return "compaction-thld"
	case errors.Is(err, tbtree.ErrorMaxKeySizeExceeded):
		return "max-key-size"
	case errors.Is(err, tbtree.ErrorMaxValueSizeExceeded):
		return "max-value-size"
	}
	return "other-error"
}

// unexp names an error that the model does not allow at this point. The file
// handle cache of multiapp leaking its own "key not found" gets a name of its own.
func unexp(err error) string {
	if errors.Is(err, cache.ErrKeyNotFound) {
		return "unexpected-error/cache-key-not-found"
	}
	if errors.Is(err, io.EOF) {
		return "unexpected-error/eof"
	}
	return "unexpected-error"
}

// checkQuery runs q on rd and compares it with view. target names the object
// ("tree", "snapshot", "syncsnapshot"), phase qualifies the moment ("", "stale",
// "reopen", "compact-reopen"). It returns false when a violation was recorded.
func (s *seq) checkQuery(target, phase string, depth int, rd kvReader, v kvmodel.View, q query) bool {
	ph := ""
	if phase != "" {
		ph = "@" + phase
	}
	var opName, class, detail string
	between := false // a time-bounded lookup answered with a version that the key never had
	ok := s.guard(target+"."+q.String(), func() {
		switch q.kind {
		case 0:
			opName = "Get"
			val, ts, hc, err := rd.Get(q.key)
			ver, n, found := v.Get(q.key)
			switch {
			case !found:
				if !errors.Is(err, tbtree.ErrKeyNotFound) {
					class, detail = "missing-error", fmt.Sprintf("key absent in the model, got value=%s ts=%d hc=%d err=%v", hx(val), ts, hc, err)
				}
			case err != nil:
				class, detail = unexp(err), fmt.Sprintf("model has %s@%d (%d versions), got err=%v", hx(ver.Value), ver.Ts, n, err)
			case !bytes.Equal(val, ver.Value) || ts != ver.Ts:
				class, detail = "wrong-version", fmt.Sprintf("model %s@%d, got %s@%d", hx(ver.Value), ver.Ts, hx(val), ts)
			case hc != n:
				class, detail = "wrong-hc", fmt.Sprintf("model has %d versions, got hc=%d", n, hc)
			}
			class0 := errClass(err)
			if found && n > 1 {
				class0 += "/multi"
			}
			s.c.Distinct(fmt.Sprintf("d%d/%s.Get%s/%s", depth, target, ph, class0))
		case 1:
			opName = "GetBetween"
			val, ts, hc, err := rd.GetBetween(q.key, q.i, q.f)
			_, _, present := v.Get(q.key)
			ver, rev, found := v.GetBetween(q.key, q.i, q.f)
			shape := "in"
			switch {
			case !present:
				shape = "absent"
				if !errors.Is(err, tbtree.ErrKeyNotFound) {
					class, detail = "missing-error", fmt.Sprintf("key absent in the model, got value=%s ts=%d hc=%d err=%v", hx(val), ts, hc, err)
				}
			case q.i > q.f:
				shape = "inverted"
				if !errors.Is(err, tbtree.ErrIllegalArguments) {
					class, detail = "missing-error", fmt.Sprintf("initialTs > finalTs must be rejected, got value=%s ts=%d err=%v", hx(val), ts, err)
				}
			case !found:
				shape = "none-in-window"
				if !errors.Is(err, tbtree.ErrKeyNotFound) {
					class, detail = "missing-error", fmt.Sprintf("no version of the key in [%d,%d], got value=%s ts=%d hc=%d err=%v", q.i, q.f, hx(val), ts, hc, err)
				}
			case err != nil:
				class, detail = unexp(err), fmt.Sprintf("model %s@%d rev %d, got err=%v", hx(ver.Value), ver.Ts, rev, err)
			case !bytes.Equal(val, ver.Value) || ts != ver.Ts:
				class, detail = "wrong-version", fmt.Sprintf("model %s@%d, got %s@%d", hx(ver.Value), ver.Ts, hx(val), ts)
			case hc != rev:
				class, detail = "wrong-hc", fmt.Sprintf("model revision %d, got hc=%d", rev, hc)
			}
			if found {
				if _, n, _ := v.Get(q.key); rev < n {
					shape = "older-version"
				}
			}
			if class != "" && present && q.i <= q.f && err == nil && foreign(v, q.key, val, ts) {
				between = true
				detail += " (the pair returned is not a version of this key)"
			}
			s.c.Distinct(fmt.Sprintf("d%d/%s.GetBetween%s/%s/%s", depth, target, ph, shape, errClass(err)))
		case 2:
			opName = "History"
			if q.desc {
				opName = "History/desc"
			}
			tvs, hc, err := rd.History(q.key, q.offset, q.desc, q.limit)
			exp, n, st := v.History(q.key, q.offset, q.desc, q.limit)
			shape := "page"
			switch {
			case q.limit < 1:
				shape = "bad-limit"
				if !errors.Is(err, tbtree.ErrIllegalArguments) {
					class, detail = "missing-error", fmt.Sprintf("limit %d must be rejected, got %d values err=%v", q.limit, len(tvs), err)
				}
			case st == kvmodel.HistoryKeyNotFound:
				shape = "absent"
				if !errors.Is(err, tbtree.ErrKeyNotFound) {
					class, detail = "missing-error", fmt.Sprintf("key absent in the model, got %d values hc=%d err=%v", len(tvs), hc, err)
				}
			case st == kvmodel.HistoryNoMore:
				shape = "offset=count"
				if !errors.Is(err, tbtree.ErrNoMoreEntries) {
					class, detail = "missing-error", fmt.Sprintf("offset equals the %d versions, got %d values err=%v", n, len(tvs), err)
				}
			case st == kvmodel.HistoryOutOfRange:
				shape = "offset>count"
				if !errors.Is(err, tbtree.ErrOffsetOutOfRange) {
					class, detail = "missing-error", fmt.Sprintf("offset beyond the %d versions, got %d values err=%v", n, len(tvs), err)
				}
			case err != nil:
				class, detail = unexp(err), fmt.Sprintf("model has %d versions, got err=%v", n, err)
			default:
				if d := cmpVersions(exp, tvs); d != "" {
					class, detail = "wrong-versions", d
				} else if hc != n {
					class, detail = "wrong-hc", fmt.Sprintf("model has %d versions, got hCount=%d", n, hc)
				}
				if q.offset > 0 {
					shape = "page+offset"
				}
				if uint64(len(exp)) < n {
					shape += "/partial"
				}
			}
			s.c.Distinct(fmt.Sprintf("d%d/%s.History%s/desc=%v/%s/%s", depth, target, ph, q.desc, shape, errClass(err)))
		case 3:
			opName = "GetWithPrefix"
			key, val, ts, hc, err := rd.GetWithPrefix(q.key, q.neq)
			ek, ver, n, found := v.GetWithPrefix(q.key, q.neq)
			switch {
			case !found:
				if !errors.Is(err, tbtree.ErrKeyNotFound) {
					class, detail = "missing-error", fmt.Sprintf("no such key in the model, got key=%s value=%s err=%v", hx(key), hx(val), err)
				}
			case err != nil:
				class, detail = unexp(err), fmt.Sprintf("model answers key %s, got err=%v", hx(ek), err)
			case !bytes.Equal(key, ek):
				class, detail = "wrong-key", fmt.Sprintf("model answers key %s, got %s", hx(ek), hx(key))
			case !bytes.Equal(val, ver.Value) || ts != ver.Ts:
				class, detail = "wrong-version", fmt.Sprintf("key %s: model %s@%d, got %s@%d", hx(ek), hx(ver.Value), ver.Ts, hx(val), ts)
			case hc != n:
				class, detail = "wrong-hc", fmt.Sprintf("key %s: model has %d versions, got hc=%d", hx(ek), n, hc)
			}
			s.c.Distinct(fmt.Sprintf("d%d/%s.GetWithPrefix%s/neq=%v/%s", depth, target, ph, len(q.neq) > 0, errClass(err)))
		}
	})
	s.c.Eval(1)
	s.progress.Add(1)
	if !ok {
		return false
	}
	if between {
		s.violation("between/version-of-another-key", fmt.Sprintf("[%s.%s/%s%s] %s.%s: %s", target, opName, class, ph, target, q, detail))
		return false
	}
	if class != "" {
		s.violation(fmt.Sprintf("%s.%s/%s%s", target, opName, class, ph), fmt.Sprintf("%s.%s: %s", target, q, detail))
		return false
	}
	return true
}

// foreign reports whether (val, ts) is not a version of key at all in the view.
func foreign(v kvmodel.View, key, val []byte, ts uint64) bool {
	vs, _, st := v.History(key, 0, false, -1)
	if st != kvmodel.HistoryOK {
		return true
	}
	for _, x := range vs {
		if x.Ts == ts && bytes.Equal(x.Value, val) {
			return false
		}
	}
	return true
}

func cmpVersions(exp []kvmodel.Version, got []tbtree.TimedValue) string {
	if len(exp) != len(got) {
		return fmt.Sprintf("model has %d versions on this page, got %d (%s vs %s)", len(exp), len(got), showVers(exp), showTVs(got))
	}
	for i := range exp {
		if exp[i].Ts != got[i].Ts || !bytes.Equal(exp[i].Value, got[i].Value) {
			return fmt.Sprintf("position %d: model %s@%d, got %s@%d (%s vs %s)", i, hx(exp[i].Value), exp[i].Ts, hx(got[i].Value), got[i].Ts, showVers(exp), showTVs(got))
		}
	}
	return ""
}

func showVers(vs []kvmodel.Version) string {
	var b strings.Builder
	for i, v := range vs {
		if i == 8 {
			b.WriteString(" …")
			break
		}
		fmt.Fprintf(&b, " %s@%d", hx(v.Value), v.Ts)
	}
	return "[" + strings.TrimSpace(b.String()) + "]"
}

func showTVs(vs []tbtree.TimedValue) string {
	var b strings.Builder
	for i, v := range vs {
		if i == 8 {
			b.WriteString(" …")
			break
		}
		fmt.Fprintf(&b, " %s@%d", hx(v.Value), v.Ts)
	}
	return "[" + strings.TrimSpace(b.String()) + "]"
}

// ---------------------------------------------------------------- readers

func keyShape(r *rand.Rand, v kvmodel.View, k []byte) string {
	if len(k) == 0 {
		return "-"
	}
	if _, _, ok := v.Get(k); ok {
		return "k"
	}
	return "x"
}

func (s *seq) genSpec(r *rand.Rand, v kvmodel.View) (tbtree.ReaderSpec, string) {
	var sp tbtree.ReaderSpec
	key := func() []byte {
		k := s.pool[r.IntN(len(s.pool))]
		switch r.IntN(8) {
		case 0:
			k = append(append([]byte{}, k...), 0)
			if len(k) > s.cf.MaxKey {
				k = k[:s.cf.MaxKey]
			}
		case 1:
			k = append([]byte{}, k...)
			k[len(k)-1] ^= byte(1 + r.IntN(3))
		case 2:
			k = k[:1+r.IntN(len(k))]
		}
		return k
	}
	if r.IntN(10) < 7 {
		sp.SeekKey = key()
	}
	if r.IntN(10) < 5 {
		sp.EndKey = key()
		// make the window non-empty more often than not
		if len(sp.SeekKey) > 0 && r.IntN(4) > 0 {
			lo, hi := sp.SeekKey, sp.EndKey
			if bytes.Compare(lo, hi) > 0 {
				lo, hi = hi, lo
			}
			sp.SeekKey, sp.EndKey = lo, hi
		}
	}
	sp.DescOrder = r.IntN(2) == 0
	if sp.DescOrder && len(sp.SeekKey) > 0 && len(sp.EndKey) > 0 && bytes.Compare(sp.SeekKey, sp.EndKey) < 0 && r.IntN(4) > 0 {
		sp.SeekKey, sp.EndKey = sp.EndKey, sp.SeekKey
	}
	if r.IntN(10) < 4 {
		p := s.pool[r.IntN(len(s.pool))]
		sp.Prefix = p[:1+r.IntN(len(p))]
		if r.IntN(3) == 0 {
			sp.Prefix = p[:1]
		}
	}
	sp.InclusiveSeek = r.IntN(2) == 0
	sp.InclusiveEnd = r.IntN(2) == 0
	sp.IncludeHistory = r.IntN(6) == 0
	if r.IntN(10) < 3 {
		sp.Offset = uint64(1 + r.IntN(4))
		if r.IntN(5) == 0 {
			sp.Offset = uint64(r.IntN(500))
		}
	}
	off := "0"
	if sp.Offset > 0 {
		off = "+"
	}
	shape := fmt.Sprintf("seek=%s%v/end=%s%v/pfx=%v/desc=%v/off=%s/hist=%v",
		keyShape(r, v, sp.SeekKey), sp.InclusiveSeek, keyShape(r, v, sp.EndKey), sp.InclusiveEnd, len(sp.Prefix) > 0, sp.DescOrder, off, sp.IncludeHistory)
	return sp, shape
}

func modelSpec(sp tbtree.ReaderSpec) kvmodel.RangeSpec {
	return kvmodel.RangeSpec{SeekKey: sp.SeekKey, EndKey: sp.EndKey, Prefix: sp.Prefix,
		InclusiveSeek: sp.InclusiveSeek, InclusiveEnd: sp.InclusiveEnd, Desc: sp.DescOrder, Offset: sp.Offset}
}

func specString(sp tbtree.ReaderSpec) string {
	return fmt.Sprintf("{seek=%s incl=%v end=%s incl=%v prefix=%s desc=%v offset=%d history=%v}",
		hx(sp.SeekKey), sp.InclusiveSeek, hx(sp.EndKey), sp.InclusiveEnd, hx(sp.Prefix), sp.DescOrder, sp.Offset, sp.IncludeHistory)
}

func (rs *rdState) opName() string {
	switch rs.mode {
	case modeHistory:
		return "Reader.Read+history"
	case modeBetween:
		return "Reader.ReadBetween"
	}
	return "Reader.Read"
}

func (rs *rdState) expect(v kvmodel.View) {
	ms := modelSpec(rs.spec)
	switch rs.mode {
	case modeRead:
		rs.exp = v.Range(ms)
	case modeHistory:
		rs.exp = v.RangeHistory(ms)
	case modeBetween:
		if rs.iTs > rs.fTs {
			rs.exp = nil // every key is rejected (initialTs > finalTs): nothing qualifies
		} else {
			rs.exp = v.RangeBetween(ms, rs.iTs, rs.fTs)
		}
	}
	rs.pos = 0
}

// newReader opens a reader on snapshot ss with a PRNG spec; nil if none was opened.
func (s *seq) newReader(r *rand.Rand, target, phase string, ss *snapState) *rdState {
	v := ss.frozen.Now()
	sp, shape := s.genSpec(r, v)
	rs := &rdState{spec: sp, shape: shape}
	if sp.IncludeHistory {
		rs.mode = modeHistory
	} else if r.IntN(4) == 0 {
		rs.mode = modeBetween
		rs.iTs, rs.fTs = tsNear(r, ss.ts0), tsNear(r, ss.ts0)
		if rs.iTs > rs.fTs && r.IntN(4) > 0 {
			rs.iTs, rs.fTs = rs.fTs, rs.iTs
		}
		if r.IntN(3) == 0 {
			rs.iTs = 0
		}
	}
	if r.IntN(60) == 0 { // oversized seek key / prefix must be rejected
		big := bytes.Repeat([]byte{'a'}, s.cf.MaxKey+1)
		bad := sp
		if r.IntN(2) == 0 {
			bad.SeekKey = big
		} else {
			bad.Prefix = big
		}
		var err error
		var rd *tbtree.Reader
		if !s.guard("NewReader(oversized)", func() { rd, err = ss.s.NewReader(bad) }) {
			return nil
		}
		s.c.Eval(1)
		s.c.Distinct(fmt.Sprintf("d%d/%s.NewReader/oversized/%s", ss.depth, target, errClass(err)))
		if err == nil {
			rd.Close()
			s.violation(target+".NewReader/missing-error", "seek key / prefix longer than MaxKeySize accepted: "+specString(bad))
		}
		return nil
	}
	var err error
	if !s.guard("NewReader", func() { rs.rd, err = ss.s.NewReader(sp) }) {
		return nil
	}
	if err != nil {
		s.violation(target+".NewReader/"+unexp(err), fmt.Sprintf("NewReader(%s): %v", specString(sp), err))
		return nil
	}
	rs.expect(v)
	return rs
}

// advance reads n more entries (n < 0: until exhaustion) and compares them with
// the expected sequence. It returns false when a violation was recorded.
func (s *seq) advance(target, phase string, ss *snapState, rs *rdState, n int) bool {
	ph := ""
	if phase != "" {
		ph = "@" + phase
	}
	op := rs.opName()
	if rs.resets > 0 {
		op += "+reset"
	}
	// "until exhaustion" is bounded: listing versions one by one walks the history
	// chain of the key from its head for every version (quadratic in the tree)
	limit := 4000
	if rs.mode == modeHistory {
		limit = 60
	}
	for i := 0; (n < 0 && i < limit) || i < n; i++ {
		var k, val []byte
		var ts, hc uint64
		var err error
		if !s.guard(target+"."+op, func() {
			if rs.mode == modeBetween {
				k, val, ts, hc, err = rs.rd.ReadBetween(rs.iTs, rs.fTs)
			} else {
				k, val, ts, hc, err = rs.rd.Read()
			}
		}) {
			return false
		}
		s.c.Eval(1)
		s.progress.Add(1)
		where := fmt.Sprintf("%s %s between=[%d,%d] on %s as of ts %d, entry %d of %d", op, specString(rs.spec), rs.iTs, rs.fTs, target, ss.ts0, rs.pos, len(rs.exp))
		// report names the mismatch; two symptoms have a name of their own whatever the place they show up in
		report := func(class, detail string) bool {
			sig := fmt.Sprintf("%s.%s/%s%s", target, op, class, ph)
			switch {
			case rs.mode == modeBetween && err == nil && len(k) > 0 && foreign(ss.frozen.Now(), k, val, ts):
				detail = "[" + sig + "] " + detail + " (the pair returned is not a version of this key)"
				sig = "between/version-of-another-key"
			case rs.mode == modeHistory && rs.resets > 0 && err == nil:
				detail = "[" + sig + "] " + detail + " (history listing after Reset)"
				sig = "reader.reset/history-listing-not-restarted"
			}
			s.violation(sig, where+": "+detail)
			return false
		}
		if rs.pos >= len(rs.exp) {
			out := "end"
			if len(rs.exp) == 0 {
				out = "empty"
			}
			s.c.Distinct(fmt.Sprintf("d%d/%s.%s%s/%s/%s", ss.depth, target, op, ph, rs.shape, out))
			if !errors.Is(err, tbtree.ErrNoMoreEntries) {
				if err != nil {
					return report(unexp(err), err.Error())
				}
				return report("extra-entry", fmt.Sprintf("the model has no more entries, got key=%s value=%s ts=%d hc=%d", hx(k), hx(val), ts, hc))
			}
			return true
		}
		e := rs.exp[rs.pos]
		switch {
		case errors.Is(err, tbtree.ErrNoMoreEntries):
			return report("missing-entry", fmt.Sprintf("reader ended, the model continues with key=%s %s@%d", hx(e.Key), hx(e.Value), e.Ts))
		case err != nil:
			return report(unexp(err), err.Error())
		case !bytes.Equal(k, e.Key):
			return report("wrong-key", fmt.Sprintf("model key=%s, got key=%s (%s@%d)", hx(e.Key), hx(k), hx(val), ts))
		case !bytes.Equal(val, e.Value) || ts != e.Ts:
			return report("wrong-version", fmt.Sprintf("key=%s model %s@%d, got %s@%d", hx(k), hx(e.Value), e.Ts, hx(val), ts))
		case hc != e.Rev:
			return report("wrong-hc", fmt.Sprintf("key=%s model revision %d, got hc=%d", hx(k), e.Rev, hc))
		}
		rs.pos++
		if rs.pos == 1 || rs.pos == len(rs.exp) {
			s.c.Distinct(fmt.Sprintf("d%d/%s.%s%s/%s/entry", ss.depth, target, op, ph, rs.shape))
		}
	}
	return true
}

func (s *seq) closeReader(ss *snapState, rs *rdState) bool {
	var err error
	if !s.guard("Reader.Close", func() { err = rs.rd.Close() }) {
		return false
	}
	if err != nil {
		s.violation("snapshot.Reader.Close/"+unexp(err), fmt.Sprintf("closing an open reader: %v", err))
		return false
	}
	for i, x := range ss.readers {
		if x == rs {
			ss.readers = append(ss.readers[:i], ss.readers[i+1:]...)
			break
		}
	}
	return true
}

// historyReader drives one HistoryReader to exhaustion against the model.
func (s *seq) historyReader(r *rand.Rand, target, phase string, ss *snapState) bool {
	ph := ""
	if phase != "" {
		ph = "@" + phase
	}
	v := ss.frozen.Now()
	key := s.pool[r.IntN(len(s.pool))]
	_, n, _ := v.Get(key)
	spec := &tbtree.HistoryReaderSpec{Key: key, DescOrder: r.IntN(2) == 0, ReadLimit: pick(r, 1, 1, 2, 3, 10)}
	if r.IntN(3) == 0 {
		spec.Offset = uint64(r.IntN(int(n) + 2))
	}
	var hr *tbtree.HistoryReader
	var err error
	if !s.guard("NewHistoryReader", func() { hr, err = ss.s.NewHistoryReader(spec) }) {
		return false
	}
	if err != nil {
		s.violation(target+".NewHistoryReader/"+unexp(err), fmt.Sprintf("NewHistoryReader(%+v): %v", *spec, err))
		return false
	}
	defer func() { s.guard("HistoryReader.Close", func() { hr.Close() }) }()
	off := spec.Offset
	for round := 0; round < 24; round++ {
		var tvs []tbtree.TimedValue
		if !s.guard("HistoryReader.Read", func() { tvs, err = hr.Read() }) {
			return false
		}
		s.c.Eval(1)
		exp, cnt, st := v.History(key, off, spec.DescOrder, spec.ReadLimit)
		where := fmt.Sprintf("HistoryReader{key=%s offset=%d desc=%v limit=%d}.Read #%d on %s as of ts %d", hx(key), spec.Offset, spec.DescOrder, spec.ReadLimit, round, target, ss.ts0)
		s.c.Distinct(fmt.Sprintf("d%d/%s.HistoryReader.Read%s/desc=%v/off=%v/%s", ss.depth, target, ph, spec.DescOrder, spec.Offset > 0, errClass(err)))
		var want error
		switch st {
		case kvmodel.HistoryKeyNotFound:
			want = tbtree.ErrKeyNotFound
		case kvmodel.HistoryNoMore:
			want = tbtree.ErrNoMoreEntries
		case kvmodel.HistoryOutOfRange:
			want = tbtree.ErrOffsetOutOfRange
		}
		if want != nil {
			if !errors.Is(err, want) {
				s.violation(fmt.Sprintf("%s.HistoryReader.Read/missing-error%s", target, ph), fmt.Sprintf("%s: model has %d versions and expects %v, got %d values err=%v", where, cnt, want, len(tvs), err))
				return false
			}
			return true
		}
		if err != nil {
			s.violation(fmt.Sprintf("%s.HistoryReader.Read/%s%s", target, unexp(err), ph), fmt.Sprintf("%s: %v", where, err))
			return false
		}
		if d := cmpVersions(exp, tvs); d != "" {
			s.violation(fmt.Sprintf("%s.HistoryReader.Read/wrong-versions%s", target, ph), where+": "+d)
			return false
		}
		off += uint64(len(tvs))
	}
	return true
}

// ---------------------------------------------------------------- snapshots

func (ss *snapState) phase() string {
	if ss.stale {
		return "stale"
	}
	return ""
}

// probeSnapshot runs n PRNG queries / reader steps on a snapshot.
func (s *seq) probeSnapshot(r *rand.Rand, ss *snapState, n int, allowNewReaders bool) bool {
	target := "snapshot"
	for i := 0; i < n; i++ {
		switch x := r.IntN(10); {
		case x < 6:
			q := s.genQuery(r, ss.frozen.Now(), ss.ts0)
			if !s.checkQuery(target, ss.phase(), ss.depth, ss.s, ss.frozen.Now(), q) {
				return false
			}
		case x < 8 && len(ss.readers) > 0:
			rs := ss.readers[r.IntN(len(ss.readers))]
			if !s.advance(target, ss.phase(), ss, rs, 1+r.IntN(4)) {
				return false
			}
		case allowNewReaders:
			rs := s.newReader(r, target, ss.phase(), ss)
			if s.dead.Load() {
				return false
			}
			if rs == nil {
				continue
			}
			ss.readers = append(ss.readers, rs)
			k := -1
			if r.IntN(3) == 0 {
				k = r.IntN(6)
			}
			if !s.advance(target, ss.phase(), ss, rs, k) {
				return false
			}
			if (k < 0 || len(ss.readers) > 3) && !s.closeReader(ss, rs) {
				return false
			}
		}
	}
	return true
}

// fullCheck compares the whole content reachable through snapshot ss (every
// key, every version) with the frozen model: a plain scan over all keys, the
// (bounded) start of a history listing in the other direction, and the complete
// history of every key through one History call each.
func (s *seq) fullCheck(target, phase string, ss *snapState) bool {
	desc := s.r.IntN(2) == 0
	for _, sp := range []tbtree.ReaderSpec{{DescOrder: !desc}, {IncludeHistory: true, DescOrder: desc}} {
		rs := &rdState{spec: sp, shape: fmt.Sprintf("full/desc=%v/hist=%v", sp.DescOrder, sp.IncludeHistory)}
		if sp.IncludeHistory {
			rs.mode = modeHistory // bounded prefix of the listing, see advance
		}
		var err error
		if !s.guard("NewReader", func() { rs.rd, err = ss.s.NewReader(sp) }) {
			return false
		}
		if err != nil {
			s.violation(target+".NewReader/"+unexp(err), fmt.Sprintf("NewReader(%s): %v", specString(sp), err))
			return false
		}
		rs.expect(ss.frozen.Now())
		ok := s.advance(target, phase, ss, rs, -1)
		s.guard("Reader.Close", func() { rs.rd.Close() })
		if !ok {
			return false
		}
	}
	// every version of every key, one History call per key
	v := ss.frozen.Now()
	for _, k := range v.Keys() {
		_, n, _ := v.Get(k)
		if !s.checkQuery(target, phase, ss.depth, ss.s, v, query{kind: 2, key: k, desc: desc, limit: int(n)}) {
			return false
		}
	}
	return true
}

// scanSnapshot walks every node still reachable from the snapshot (one plain
// scan over all keys): whatever a flush, cleanup or compaction discarded or
// rewrote underneath an open snapshot shows up here.
func (s *seq) scanSnapshot(ss *snapState) bool {
	sp := tbtree.ReaderSpec{DescOrder: s.r.IntN(2) == 0}
	rs := &rdState{spec: sp, shape: fmt.Sprintf("full/desc=%v/hist=false", sp.DescOrder)}
	var err error
	if !s.guard("NewReader", func() { rs.rd, err = ss.s.NewReader(sp) }) {
		return false
	}
	if err != nil {
		s.violation("snapshot.NewReader/"+unexp(err), fmt.Sprintf("NewReader(%s): %v", specString(sp), err))
		return false
	}
	rs.expect(ss.frozen.Now())
	ok := s.advance("snapshot", ss.phase(), ss, rs, -1)
	s.guard("Reader.Close", func() { rs.rd.Close() })
	return ok
}

func (s *seq) openSnapshot() {
	if len(s.snaps) >= 6 { // bound the work done after every mutation
		if !s.closeSnapshot(s.r.IntN(len(s.snaps)), false) {
			return
		}
	}
	kind := s.r.IntN(3)
	req := uint64(0)
	if kind == 1 {
		req = s.someTs(s.m.Ts())
	}
	var snap *tbtree.Snapshot
	var err error
	tsBefore := s.m.Ts()
	if !s.guard("Snapshot", func() {
		if kind == 1 {
			snap, err = s.t.SnapshotMustIncludeTs(req)
		} else {
			snap, err = s.t.Snapshot()
		}
	}) {
		return
	}
	s.logf("snapshot kind=%d req=%d -> %s", kind, req, errClass(err))
	s.c.Eval(1)
	s.c.Distinct(fmt.Sprintf("d%d/tree.Snapshot/req=%v/open=%d/%s", s.depth, req > 0, min(len(s.snaps), 3), errClass(err)))
	if err != nil {
		switch {
		case req > tsBefore:
			// asking for a future timestamp cannot be satisfied: any error is fine
		case errors.Is(err, tbtree.ErrorToManyActiveSnapshots) && len(s.snaps)+s.held > 0:
			// the limit is part of the API (not judged beyond "some snapshot is open")
		default:
			s.violation("tree.Snapshot/"+unexp(err), fmt.Sprintf("SnapshotMustIncludeTs(%d) with tree ts %d and %d open snapshots (max %d): %v", req, tsBefore, len(s.snaps), s.cf.MaxSnaps, err))
		}
		return
	}
	if req > tsBefore {
		snap.Close()
		s.violation("tree.Snapshot/future-ts-accepted", fmt.Sprintf("SnapshotMustIncludeTs(%d) succeeded while the tree is at ts %d", req, tsBefore))
		return
	}
	ts0 := snap.Ts()
	s.snapSeq++
	ss := &snapState{s: snap, ts0: ts0, depth: s.depth, id: s.snapSeq}
	s.snaps = append(s.snaps, ss)
	if ts0 < req || ts0 > tsBefore {
		s.violation("snapshot.Ts/out-of-bounds", fmt.Sprintf("SnapshotMustIncludeTs(%d) returned a snapshot at ts %d while the tree is at ts %d", req, ts0, tsBefore))
		return
	}
	ss.frozen = s.m.CloneAt(ts0)
	s.logf("  snapshot #%d ts0=%d", ss.id, ts0)
	if s.r.IntN(6) == 0 {
		if !s.fullCheck("snapshot", "", ss) {
			return
		}
	}
	if !s.probeSnapshot(s.r, ss, 3, true) {
		return
	}
	// a refusal with a snapshot open and an accepted insertion pending
	if s.r.IntN(8) == 0 {
		s.insert()
		if !s.dead.Load() {
			s.badInsert(badDecreasingTs)
		}
	}
}

func (s *seq) closeSnapshot(i int, probeBusy bool) bool {
	ss := s.snaps[i]
	if probeBusy && len(ss.readers) > 0 {
		var err error
		if !s.guard("Snapshot.Close", func() { err = ss.s.Close() }) {
			return false
		}
		s.c.Eval(1)
		s.c.Distinct("snapshot.Close/readers-open/" + errClass(err))
		if !errors.Is(err, tbtree.ErrReadersNotClosed) {
			s.violation("snapshot.Close/readers-open-accepted", fmt.Sprintf("closing a snapshot with %d open readers returned %v", len(ss.readers), err))
			return false
		}
	}
	for len(ss.readers) > 0 {
		if !s.closeReader(ss, ss.readers[0]) {
			return false
		}
	}
	var err error
	if !s.guard("Snapshot.Close", func() { err = ss.s.Close() }) {
		return false
	}
	s.logf("close snapshot #%d -> %s", ss.id, errClass(err))
	if err != nil {
		s.violation("snapshot.Close/"+unexp(err), fmt.Sprintf("closing a snapshot without readers: %v", err))
		return false
	}
	s.snaps = append(s.snaps[:i], s.snaps[i+1:]...)
	return true
}

func (s *seq) localSet(ss *snapState) {
	// readers positioned inside nodes that a local write replaces have no defined
	// continuation: they are reset afterwards, as the store does.
	k, v := s.poolKey(), s.value()
	var err error
	if !s.guard("Snapshot.Set", func() { err = ss.s.Set(k, v) }) {
		return
	}
	s.logf("snapshot #%d Set(%s,%s) -> %s", ss.id, hx(k), hx(v), errClass(err))
	s.c.Eval(1)
	_, n, _ := ss.frozen.Now().Get(k)
	s.c.Distinct(fmt.Sprintf("d%d/snapshot.Set/existing=%v/%s", ss.depth, n > 0, errClass(err)))
	if err != nil {
		s.violation("snapshot.Set/"+unexp(err), fmt.Sprintf("Set(%s,%s): %v", hx(k), hx(v), err))
		return
	}
	ss.frozen.Set(k, v, ss.ts0+1) // a second local write of the same key is a same-timestamp re-insert: no-op
	for _, rs := range append([]*rdState{}, ss.readers...) {
		if rs.mode == modeHistory {
			// Reset does not define what happens to a key whose versions are being listed: reopen
			if !s.closeReader(ss, rs) {
				return
			}
			continue
		}
		if !s.guard("Reader.Reset", func() { err = rs.rd.Reset() }) {
			return
		}
		if err != nil {
			s.violation("snapshot.Reader.Reset/"+unexp(err), err.Error())
			return
		}
		rs.resets++
		rs.expect(ss.frozen.Now())
	}
	q := query{kind: 0, key: k}
	s.checkQuery("snapshot", ss.phase(), ss.depth, ss.s, ss.frozen.Now(), q)
}

// ---------------------------------------------------------------- writer operations

func (s *seq) afterMutation(what string) {
	if s.dead.Load() {
		return
	}
	var ts uint64
	if !s.guard("Ts", func() { ts = s.t.Ts() }) {
		return
	}
	s.c.Eval(1)
	if ts != s.m.Ts() {
		s.violation("tree.Ts/mismatch", fmt.Sprintf("after %s the tree is at ts %d, the model at %d", what, ts, s.m.Ts()))
		return
	}
	if d := depthOf(s.dir); d > 0 {
		s.depth = d
		if d > s.maxDepth {
			s.maxDepth = d
		}
	}
	// the keys just written: the tree must show the new version, every open snapshot the old state
	for i, k := range s.lastKeys {
		if i == 4 {
			break
		}
		if !s.checkQuery("tree", "", s.depth, s.t, s.m.Now(), query{kind: 0, key: k}) {
			return
		}
	}
	for _, ss := range s.snaps {
		ss.stale = true
		for i, k := range s.lastKeys {
			if i == 4 {
				break
			}
			q := query{kind: 0, key: k}
			switch s.r.IntN(3) {
			case 1:
				q = query{kind: 2, key: k, desc: s.r.IntN(2) == 0, limit: 3}
			case 2:
				q = query{kind: 1, key: k, i: 0, f: ss.ts0 + 2}
			}
			if !s.checkQuery("snapshot", ss.phase(), ss.depth, ss.s, ss.frozen.Now(), q) {
				return
			}
		}
		if !s.probeSnapshot(s.r, ss, 2, true) {
			return
		}
		// now and then, and always after an explicit flush, everything the snapshot pins is read again
		if (s.r.IntN(8) == 0 || strings.HasPrefix(what, "FlushWith") || what == "Sync" || what == "Compact") && !s.scanSnapshot(ss) {
			return
		}
	}
}

func (s *seq) genBulk() (bulk []*tbtree.KVT, eff []kvmodel.KVT) {
	n := 1 + s.r.IntN(4)
	switch s.r.IntN(10) {
	case 0:
		n = 8 + s.r.IntN(40)
	case 1, 2:
		n = 1
	}
	if s.cf.Small && s.r.IntN(4) > 0 {
		n = 1 + s.r.IntN(2)
	}
	cur := s.m.Ts()
	mode := s.r.IntN(4) // 0 all zero, 1 one explicit ts, 2 rising, 3 mixed
	base := cur + 1 + uint64(s.r.IntN(3))
	last := map[string]uint64{}
	for i := 0; i < n; i++ {
		k := s.poolKey()
		if i > 0 && s.r.IntN(6) == 0 {
			k = bulk[s.r.IntN(len(bulk))].K // repeated key
		}
		var t uint64
		switch mode {
		case 0:
			t = 0
		case 1:
			t = base
		case 2:
			t = base + uint64(i/2)
		case 3:
			if s.r.IntN(2) == 0 {
				t = cur + 1 + uint64(s.r.IntN(4))
			}
		}
		e := t
		if e == 0 {
			e = cur + 1
		}
		// a key may only move forward in time inside a bulk (documented precondition)
		if l, ok := last[string(k)]; ok && e < l {
			e, t = l, l
		}
		last[string(k)] = e
		v := s.value()
		bulk = append(bulk, &tbtree.KVT{K: k, V: v, T: t})
		eff = append(eff, kvmodel.KVT{K: k, V: v, T: e})
	}
	return
}

func bulkString(b []*tbtree.KVT) string {
	var sb strings.Builder
	for i, e := range b {
		if i > 0 {
			sb.WriteByte(' ')
		}
		fmt.Fprintf(&sb, "%s=%s@%d", hx(e.K), hx(e.V), e.T)
	}
	return sb.String()
}

func (s *seq) insert() {
	if s.r.IntN(8) == 0 {
		k, v := s.poolKey(), s.value()
		var err error
		if !s.guard("Insert", func() { err = s.t.Insert(k, v) }) {
			return
		}
		s.logf("Insert %s=%s -> %s", hx(k), hx(v), errClass(err))
		s.c.Eval(1)
		if err != nil {
			s.violation("tree.Insert/"+unexp(err), fmt.Sprintf("Insert(%s,%s): %v", hx(k), hx(v), err))
			return
		}
		s.m.Set(k, v, s.m.Ts()+1)
		s.c.Distinct(fmt.Sprintf("d%d/tree.Insert/ok", s.depth))
		s.lastKeys = [][]byte{k}
		s.afterMutation("Insert")
		return
	}
	bulk, eff := s.genBulk()
	var err error
	if !s.guard("BulkInsert", func() { err = s.t.BulkInsert(bulk) }) {
		return
	}
	s.logf("BulkInsert [%s] -> %s", bulkString(bulk), errClass(err))
	s.c.Eval(1)
	if err != nil {
		s.violation("tree.BulkInsert/"+unexp(err), fmt.Sprintf("BulkInsert(%s) at ts %d: %v", bulkString(bulk), s.m.Ts(), err))
		return
	}
	explicit, repeated := false, false
	seen := map[string]bool{}
	for _, e := range bulk {
		explicit = explicit || e.T != 0
		repeated = repeated || seen[string(e.K)]
		seen[string(e.K)] = true
	}
	if aerr := s.m.Apply(eff); aerr != nil {
		panic("c10 generator produced an illegal bulk: " + aerr.Error())
	}
	sz := "1"
	if len(bulk) > 1 {
		sz = "few"
	}
	if len(bulk) >= 8 {
		sz = "many"
	}
	s.c.Distinct(fmt.Sprintf("d%d/tree.BulkInsert/n=%s/explicit-ts=%v/repeated=%v/ok", s.depth, sz, explicit, repeated))
	s.lastKeys = s.lastKeys[:0]
	for _, e := range bulk {
		s.lastKeys = append(s.lastKeys, e.K)
	}
	s.r.Shuffle(len(s.lastKeys), func(i, j int) { s.lastKeys[i], s.lastKeys[j] = s.lastKeys[j], s.lastKeys[i] })
	s.afterMutation("BulkInsert")
}

// refused inputs: the call must fail and leave the tree - accepted but not yet
// flushed insertions included - and every open snapshot as they were.
const (
	badEmptyBulk = iota
	badEmptyKey
	badEmptyValue
	badKeyTooLong
	badValueTooLong
	badStaleTs
	badDecreasingTs // same key twice in one bulk, the second time with an older timestamp: refused while inserting
	badKinds
)

var badNames = [...]string{"empty-bulk", "empty-key", "empty-value", "key-too-long", "value-too-long", "stale-ts", "decreasing-ts"}

// validEntries: n entries on distinct keys (none equal to avoid) with legal timestamps.
func (s *seq) validEntries(n int, avoid []byte) []*tbtree.KVT {
	cur := s.m.Ts()
	var out []*tbtree.KVT
	seen := map[string]bool{string(avoid): true}
	for i := 0; i < 4*n && len(out) < n; i++ {
		k := s.poolKey()
		if seen[string(k)] {
			continue
		}
		seen[string(k)] = true
		e := &tbtree.KVT{K: k, V: s.value()}
		if s.r.IntN(3) == 0 {
			e.T = cur + 1 + uint64(s.r.IntN(4))
		}
		out = append(out, e)
	}
	return out
}

func (s *seq) badInsert(kind int) {
	if kind < 0 {
		kind = s.r.IntN(badKinds + 3)
		if kind >= badKinds {
			kind = badDecreasingTs
		}
	}
	cur := s.m.Ts()
	name := badNames[kind]
	place := "last"
	var bad []*tbtree.KVT
	switch kind {
	case badEmptyBulk:
	case badEmptyKey:
		bad = []*tbtree.KVT{{K: nil, V: s.value()}}
	case badEmptyValue:
		bad = []*tbtree.KVT{{K: s.poolKey(), V: nil}}
	case badKeyTooLong:
		bad = []*tbtree.KVT{{K: bytes.Repeat([]byte{'a'}, s.cf.MaxKey+1), V: s.value()}}
	case badValueTooLong:
		bad = []*tbtree.KVT{{K: s.poolKey(), V: bytes.Repeat([]byte{'a'}, s.cf.MaxVal+1)}}
	case badStaleTs:
		if cur == 0 {
			return
		}
		bad = []*tbtree.KVT{{K: s.poolKey(), V: s.value(), T: cur - uint64(s.r.IntN(2))*uint64(s.r.Int64N(int64(cur)))}}
	case badDecreasingTs:
		k := s.poolKey()
		t1 := cur + 2 + uint64(s.r.IntN(3))
		t2 := cur + 1 + uint64(s.r.Int64N(int64(t1-cur-1)))
		if t2 == cur+1 && s.r.IntN(2) == 0 {
			t2 = 0 // the zero form of "current time plus one"
		}
		bad = []*tbtree.KVT{{K: k, V: s.value(), T: t1}, {K: k, V: s.value(), T: t2}}
	}
	var bulk []*tbtree.KVT
	if kind != badEmptyBulk {
		avoid := bad[0].K
		n := s.r.IntN(7)
		if s.r.IntN(6) == 0 {
			n = 10 + s.r.IntN(30) // spread over many leaves: some children are updated before the refusal
		}
		valid := s.validEntries(n, avoid)
		// the offending entries go first, in the middle or last among the valid ones
		p1 := s.r.IntN(len(valid) + 1)
		p2 := p1 + s.r.IntN(len(valid)-p1+1)
		switch {
		case p1 == 0 && len(valid) > 0:
			place = "first"
		case p2 < len(valid):
			place = "middle"
		}
		bulk = append(bulk, valid[:p1]...)
		bulk = append(bulk, bad[0])
		bulk = append(bulk, valid[p1:p2]...)
		if len(bad) > 1 {
			bulk = append(bulk, bad[1])
		}
		bulk = append(bulk, valid[p2:]...)
	}
	var err error
	if !s.guard("BulkInsert("+name+")", func() { err = s.t.BulkInsert(bulk) }) {
		return
	}
	s.logf("BulkInsert(%s) [%s] -> %s", name, bulkString(bulk), errClass(err))
	s.c.Eval(1)
	if err == nil {
		s.c.Distinct(fmt.Sprintf("tree.BulkInsert/refused/%s/accepted", name))
		s.violation("tree.BulkInsert/"+name+"-accepted", fmt.Sprintf("BulkInsert(%s) at ts %d succeeded", bulkString(bulk), cur))
		return
	}
	// the tree as it was before the call: its clock first (every accepted insertion moved it forward)
	var ts uint64
	if !s.guard("Ts", func() { ts = s.t.Ts() }) {
		return
	}
	s.c.Eval(1)
	outcome := "unchanged"
	state := fmt.Sprintf("reopened=%v/snaps=%v", s.opens > 1, len(s.snaps) > 0)
	if ts != s.m.Ts() {
		what := fmt.Sprintf("BulkInsert(%s) at ts %d was refused (%v); afterwards the tree is at ts %d", bulkString(bulk), cur, err, ts)
		if s.opens > 1 && s.m.At(ts).Versions() < s.m.At(s.tsAtOpen).Versions() {
			s.c.Distinct(fmt.Sprintf("d%d/tree.BulkInsert/refused/%s/%s/%s/emptied", s.depth, name, place, state))
			s.violation("bulkinsert-refused/after-reopen/tree-emptied", what+fmt.Sprintf(": older than the state loaded when the tree was opened (ts %d, %d keys): what was read from disk is gone too", s.tsAtOpen, s.m.At(s.tsAtOpen).Len()))
			return
		}
		if ts > s.m.Ts() {
			s.violation("bulkinsert-refused/clock-advanced", what+", ahead of the model")
			return
		}
		lost := s.m.Versions() - s.m.CloneAt(ts).Versions()
		s.record("bulkinsert-refused/accepted-inserts-lost", what+fmt.Sprintf(": %d accepted versions (and the clock advance from %d) written since the last flush are gone", lost, ts))
		// the sequence goes on from what the tree rolled back to
		s.m.TruncateAfter(ts)
		outcome = "rolled-back"
		if ts < s.tsAtOpen {
			// only the clock advance recorded in the timestamp file was lost; that file still holds
			// it, so the next restart would bring it back: the sequence ends here rather than chase that
			s.dead.Store(true)
			return
		}
	}
	// nothing of the refused bulk may be there
	for i, e := range bulk {
		if i == 6 || s.dead.Load() {
			break
		}
		if len(e.K) == 0 || len(e.K) > s.cf.MaxKey {
			continue
		}
		var val []byte
		var vts uint64
		var gerr error
		if !s.guard("Get", func() { val, vts, _, gerr = s.t.Get(e.K) }) {
			return
		}
		s.c.Eval(1)
		if gerr == nil && vts > s.m.Ts() {
			s.violation("bulkinsert-refused/partially-applied", fmt.Sprintf("BulkInsert(%s) at ts %d was refused (%v) but Get(%s) = %s@%d", bulkString(bulk), cur, err, hx(e.K), hx(val), vts))
			return
		}
		s.checkQuery("tree", "", s.depth, s.t, s.m.Now(), query{kind: 0, key: e.K})
	}
	if s.dead.Load() {
		return
	}
	s.c.Distinct(fmt.Sprintf("d%d/tree.BulkInsert/refused/%s/%s/%s/%s/%s", s.depth, name, place, state, errClass(err), outcome))
	s.afterMutation("refused BulkInsert(" + name + ")")
	// ... and after flush + restart
	if !s.dead.Load() && s.busy == 0 && s.r.IntN(5) == 0 {
		s.reopen()
	}
}

func bulk0Key(b []*tbtree.KVT, def []byte) []byte {
	if len(b) > 0 && len(b[0].K) > 0 {
		return b[0].K
	}
	return def
}

func (s *seq) increaseTs() {
	cur := s.m.Ts()
	ts := cur + 1 + uint64(s.r.IntN(4))
	if s.r.IntN(5) == 0 {
		ts = cur - min(cur, uint64(s.r.IntN(3)))
	}
	var err error
	if !s.guard("IncreaseTs", func() { err = s.t.IncreaseTs(ts) }) {
		return
	}
	s.logf("IncreaseTs %d (cur %d) -> %s", ts, cur, errClass(err))
	s.c.Eval(1)
	s.c.Distinct(fmt.Sprintf("d%d/tree.IncreaseTs/forward=%v/%s", s.depth, ts > cur, errClass(err)))
	if ts <= cur {
		if err == nil {
			s.violation("tree.IncreaseTs/backwards-accepted", fmt.Sprintf("IncreaseTs(%d) succeeded at ts %d", ts, cur))
			return
		}
	} else {
		if err != nil {
			s.violation("tree.IncreaseTs/"+unexp(err), fmt.Sprintf("IncreaseTs(%d) at ts %d: %v", ts, cur, err))
			return
		}
		s.m.AdvanceTs(ts)
	}
	s.afterMutation("IncreaseTs")
	if !s.dead.Load() && ts > cur && s.r.IntN(6) == 0 {
		s.badInsert(badDecreasingTs) // refusal right after a clock advance
	}
}

func (s *seq) flush() {
	var err error
	var what string
	switch x := s.r.IntN(10); {
	case x == 0:
		what = "Sync"
		if !s.guard(what, func() { err = s.t.Sync() }) {
			return
		}
	case x == 1:
		what = "Flush"
		if !s.guard(what, func() { _, _, err = s.t.Flush() }) {
			return
		}
	case x == 2:
		pct := pick(s.r, float32(-1), 100.5, 1000)
		what = fmt.Sprintf("FlushWith(%v)", pct)
		if !s.guard(what, func() { _, _, err = s.t.FlushWith(pct, s.r.IntN(2) == 0) }) {
			return
		}
		s.logf("%s -> %s", what, errClass(err))
		s.c.Eval(1)
		s.c.Distinct("tree.FlushWith/bad-percentage/" + errClass(err))
		if err == nil {
			s.violation("tree.FlushWith/bad-percentage-accepted", what+" succeeded")
			return
		}
		s.afterMutation(what)
		return
	default:
		pct := pick(s.r, float32(0), 0, 0.1, 5, 33.3, 50, 99, 100, 100)
		synced := s.r.IntN(3) == 0
		what = fmt.Sprintf("FlushWith(%v,%v)", pct, synced)
		if !s.guard(what, func() { _, _, err = s.t.FlushWith(pct, synced) }) {
			return
		}
		s.c.Distinct(fmt.Sprintf("d%d/tree.FlushWith/cleanup=%v/synced=%v/snaps=%v/%s", s.depth, pct > 0, synced, len(s.snaps) > 0, errClass(err)))
	}
	s.logf("%s -> %s", what, errClass(err))
	s.c.Eval(1)
	if err != nil {
		s.violation("tree.Flush/"+unexp(err), fmt.Sprintf("%s: %v", what, err))
		return
	}
	s.afterMutation(what)
}

func (s *seq) compact() {
	var ts uint64
	var err error
	tsBefore := s.m.Ts()
	seen := map[uint64]bool{tsBefore: true}
	if s.r.IntN(2) == 0 {
		// background compaction while the writer proceeds (both tiers: what a compaction stamps on the
		// dumped index matters only when the writer moved on during the dump and the tree is reopened)
		before := map[string]bool{}
		if es, e := os.ReadDir(s.dir); e == nil {
			for _, de := range es {
				before[de.Name()] = true
			}
		}
		done := make(chan struct{})
		s.busy++
		var panicked bool
		var psig, ptext string
		go func() {
			defer close(done)
			panicked, psig, ptext = fw.Guard(func() { ts, err = s.t.Compact() })
		}()
		// let the dump begin (its target folder appears) before writing; bounded, shapes the schedule only
		if s.r.IntN(4) != 0 {
		wait:
			for i := 0; i < 4000; i++ {
				select {
				case <-done:
					break wait
				default:
				}
				if es, e := os.ReadDir(s.dir); e == nil {
					for _, de := range es {
						if !before[de.Name()] {
							break wait
						}
					}
				}
				time.Sleep(25 * time.Microsecond)
			}
		}
		n := 1 + s.r.IntN(4)
		for i := 0; i < n && !s.dead.Load(); i++ {
			runtime.Gosched()
			switch s.r.IntN(4) {
			case 0:
				s.flush()
			case 1:
				s.increaseTs()
			default:
				s.insert()
			}
			seen[s.m.Ts()] = true
		}
		<-done
		s.busy--
		if panicked {
			s.violation(panicSig(psig, ptext), "Compact (background): "+ptext)
			return
		}
		s.logf("Compact (background, ts %d..%d) -> ts=%d %v", tsBefore, s.m.Ts(), ts, err)
	} else {
		if !s.guard("Compact", func() { ts, err = s.t.Compact() }) {
			return
		}
		s.logf("Compact (ts %d) -> ts=%d %v", tsBefore, ts, err)
	}
	if s.dead.Load() {
		return
	}
	s.c.Eval(1)
	s.c.Distinct(fmt.Sprintf("d%d/tree.Compact/snaps=%v/%s", s.depth, len(s.snaps) > 0, errClass(err)))
	if err != nil {
		// threshold not reached, target folder of the same timestamp already there, ...: nothing is claimed
		s.afterMutation("failed Compact")
		return
	}
	if !seen[ts] {
		s.violation("tree.Compact/unknown-ts", fmt.Sprintf("Compact reported ts %d, the tree went through %v", ts, seen))
		return
	}
	s.compactTs = ts
	s.c.Count("compactions", 1)
	s.afterMutation("Compact")
}

func (s *seq) open(phase string) bool {
	var err error
	if !s.guard("Open", func() { s.t, err = tbtree.Open(s.dir, s.cf.opts()) }) {
		return false
	}
	if err != nil {
		s.t = nil
		s.violation("tree.Open/"+unexp(err)+phaseSuffix(phase), fmt.Sprintf("Open: %v", err))
		return false
	}
	s.opens++
	s.tsAtOpen = s.m.Ts()
	return true
}

func phaseSuffix(p string) string {
	if p == "" {
		return ""
	}
	return "@" + p
}

func (s *seq) reopen() {
	// Close is refused while snapshots are open
	if len(s.snaps) > 0 && s.r.IntN(2) == 0 {
		var err error
		if !s.guard("Close", func() { err = s.t.Close() }) {
			return
		}
		s.c.Eval(1)
		s.c.Distinct("tree.Close/snapshots-open/" + errClass(err))
		s.logf("Close with %d snapshots -> %s", len(s.snaps), errClass(err))
		if !errors.Is(err, tbtree.ErrSnapshotsNotClosed) {
			s.violation("tree.Close/snapshots-open-accepted", fmt.Sprintf("Close with %d open snapshots returned %v", len(s.snaps), err))
			return
		}
		s.afterMutation("refused Close")
		if s.dead.Load() {
			return
		}
	}
	for len(s.snaps) > 0 {
		if !s.closeSnapshot(0, false) {
			return
		}
	}
	var err error
	if !s.guard("Close", func() { err = s.t.Close() }) {
		return
	}
	s.logf("Close -> %s", errClass(err))
	if err != nil {
		s.violation("tree.Close/"+unexp(err), fmt.Sprintf("Close: %v", err))
		return
	}
	if s.r.IntN(8) == 0 { // a closed tree refuses everything
		var e1, e2 error
		s.guard("Get on closed tree", func() { _, _, _, e1 = s.t.Get(s.poolKey()); e2 = s.t.Insert(s.poolKey(), []byte{1}) })
		s.c.Eval(1)
		if !errors.Is(e1, tbtree.ErrAlreadyClosed) || !errors.Is(e2, tbtree.ErrAlreadyClosed) {
			s.violation("tree.closed/operation-accepted", fmt.Sprintf("Get / Insert on a closed tree returned %v / %v", e1, e2))
			return
		}
	}
	phase := "reopen"
	if s.compactTs != 0 {
		// the compacted tree is what a restart loads: newer versions are gone, the caller re-inserts them
		phase = "compact-reopen"
		s.m.TruncateAfter(s.compactTs)
		s.compactTs = 0
	}
	if s.r.IntN(2) == 0 {
		s.cf.tune(s.r)
	}
	if !s.open(phase) {
		return
	}
	s.logf("Open (%s) model ts=%d keys=%d cfg=%+v", phase, s.m.Ts(), s.m.Len(), s.cf)
	s.c.Count("reopens", 1)
	var ts uint64
	s.guard("Ts", func() { ts = s.t.Ts() })
	s.c.Eval(1)
	if ts != s.m.Ts() {
		s.violation("tree.Ts/mismatch@"+phase, fmt.Sprintf("after %s the tree is at ts %d, the model at %d", phase, ts, s.m.Ts()))
		return
	}
	s.c.Distinct(fmt.Sprintf("d%d/tree.Open/%s/keys=%v", s.depth, phase, s.m.Len() > 0))
	// a few direct reads first (the root is not yet flushed / cached), then everything
	for i := 0; i < 4; i++ {
		if !s.checkQuery("tree", phase, s.depth, s.t, s.m.Now(), s.genQuery(s.r, s.m.Now(), s.m.Ts())) {
			return
		}
	}
	// a refusal right after a restart, before anything was flushed or snapshotted in this
	// session: directly, or with one accepted insertion pending
	if s.r.IntN(3) == 0 {
		if s.r.IntN(2) == 0 {
			s.insert()
		}
		if !s.dead.Load() {
			s.badInsert(badDecreasingTs)
		}
		if s.dead.Load() {
			return
		}
	}
	var snap *tbtree.Snapshot
	// (a plain Snapshot may reuse the persisted root, which is older than the tree's clock when the
	// clock was advanced without insertions; the comparison wants everything up to the model's clock)
	if !s.guard("Snapshot", func() { snap, err = s.t.SnapshotMustIncludeTs(s.m.Ts()) }) {
		return
	}
	if err != nil {
		s.violation("tree.Snapshot/"+unexp(err)+"@"+phase, err.Error())
		return
	}
	ss := &snapState{s: snap, ts0: snap.Ts(), depth: s.depth, frozen: s.m.CloneAt(s.m.Ts())}
	if ss.ts0 != s.m.Ts() {
		s.violation("snapshot.Ts/out-of-bounds@"+phase, fmt.Sprintf("first snapshot after %s is at ts %d, the model at %d", phase, ss.ts0, s.m.Ts()))
		snap.Close()
		return
	}
	ok := s.fullCheck("tree", phase, ss)
	s.guard("Snapshot.Close", func() { snap.Close() })
	if !ok {
		return
	}
}

func (s *seq) syncSnapshot() {
	// holds the tree's read lock until closed: only reads on it in between
	var snap *tbtree.Snapshot
	var err error
	if !s.guard("SyncSnapshot", func() { snap, err = s.t.SyncSnapshot() }) {
		return
	}
	s.logf("SyncSnapshot -> %s", errClass(err))
	if err != nil {
		s.violation("tree.SyncSnapshot/"+unexp(err), err.Error())
		return
	}
	ss := &snapState{s: snap, ts0: snap.Ts(), depth: s.depth, frozen: s.m}
	defer func() {
		for _, rs := range ss.readers {
			s.guard("Reader.Close", func() { rs.rd.Close() })
		}
		var cerr error
		s.guard("SyncSnapshot.Close", func() { cerr = snap.Close() })
		if cerr != nil && !s.dead.Load() {
			s.violation("syncsnapshot.Close/"+unexp(cerr), cerr.Error())
		}
	}()
	s.c.Eval(1)
	if ss.ts0 != s.m.Ts() {
		s.violation("syncsnapshot.Ts/mismatch", fmt.Sprintf("SyncSnapshot is at ts %d, the model at %d", ss.ts0, s.m.Ts()))
		return
	}
	for i := 0; i < 3 && !s.dead.Load(); i++ {
		switch s.r.IntN(3) {
		case 0:
			s.checkQuery("syncsnapshot", "", s.depth, snap, s.m.Now(), s.genQuery(s.r, s.m.Now(), s.m.Ts()))
		case 1:
			if rs := s.newReader(s.r, "syncsnapshot", "", ss); rs != nil {
				ss.readers = append(ss.readers, rs)
				s.advance("syncsnapshot", "", ss, rs, -1)
			}
		case 2:
			s.historyReader(s.r, "syncsnapshot", "", ss)
		}
	}
}

// burst: reader goroutines on open snapshots while the writer proceeds (thorough tier).
func (s *seq) burst() {
	if len(s.snaps) == 0 {
		s.openSnapshot()
		if s.dead.Load() || len(s.snaps) == 0 {
			return
		}
	}
	var wg sync.WaitGroup
	ng := 0
	for _, ss := range s.snaps {
		for g := 0; g < 1+s.r.IntN(2) && ng < 6; g++ {
			ng++
			gr := rand.New(rand.NewPCG(s.r.Uint64(), s.r.Uint64()))
			steps := 5 + s.r.IntN(16)
			first := g == 0
			own := &snapState{s: ss.s, ts0: ss.ts0, frozen: ss.frozen, depth: ss.depth, id: ss.id, stale: true}
			wg.Add(1)
			go func() {
				defer wg.Done()
				for i := 0; i < steps && !s.dead.Load(); i++ {
					if first && gr.IntN(8) == 0 {
						// NewHistoryReader registers the reader under the snapshot's read lock:
						// a single goroutine per snapshot uses it
						s.historyReader(gr, "snapshot", "concurrent", own)
						continue
					}
					switch gr.IntN(3) {
					case 0:
						rs := s.newReader(gr, "snapshot", "concurrent", own)
						if rs == nil {
							continue
						}
						s.advance("snapshot", "concurrent", own, rs, -1)
						s.guard("Reader.Close", func() { rs.rd.Close() })
					default:
						s.checkQuery("snapshot", "concurrent", own.depth, own.s, own.frozen.Now(), s.genQuery(gr, own.frozen.Now(), own.ts0))
					}
				}
			}()
		}
	}
	s.logf("burst: %d reader goroutines on %d snapshots", ng, len(s.snaps))
	s.c.Count("reader_goroutines", int64(ng))
	// the writer proceeds; snapshots in the burst are not touched by this goroutine
	held := s.snaps
	s.snaps = nil
	s.held = len(held)
	s.busy++
	n := 3 + s.r.IntN(12)
	for i := 0; i < n && !s.dead.Load(); i++ {
		switch x := s.r.IntN(10); {
		case x < 6:
			s.insert()
		case x < 7:
			s.increaseTs()
		case x < 9:
			s.flush()
		default:
			if len(s.snaps) < 2 {
				s.openSnapshot()
			}
		}
	}
	wg.Wait()
	for _, ss := range held {
		ss.stale = true
	}
	s.snaps = append(held, s.snaps...)
	s.held = 0
	s.busy--
	if !s.dead.Load() {
		s.afterMutation("burst")
	}
}

// ---------------------------------------------------------------- the sequence

func (s *seq) run(nops int) {
	s.cf = genCfg(s.r)
	s.buildPool()
	s.m = kvmodel.New()
	os.RemoveAll(s.dir)
	s.logf("sequence %d cfg=%+v pool=%d", s.id, s.cf, len(s.pool))
	if s.cf.FileSize < 1024 {
		// every node / history chunk read or written crosses several files: such
		// sequences are kept short (a count, like every other bound here)
		nops /= 4
	}
	if !s.open("") {
		return
	}
	defer func() {
		if s.t == nil {
			return
		}
		fw.Guard(func() {
			for _, ss := range s.snaps {
				for _, rs := range ss.readers {
					rs.rd.Close()
				}
				ss.s.Close()
			}
			s.t.Close()
		})
	}()
	for op := 0; op < nops && !s.dead.Load(); op++ {
		x := s.r.IntN(100)
		// the first part of a sequence fills the tree
		if op < nops/8 && x >= 40 && x < 80 {
			x = 0
		}
		if s.cf.Small {
			// dense in flush / snapshot / IncreaseTs / update of a present key / snapshot re-query
			// (values are representatives of the ranges of the switch below)
			x = pick(s.r, 0, 0, 0, 0, 0, 0, 30, 30, 30, 30, 81, 81, 81, 81, 46, 46, 46, 46, 54, 59, 59, 59, 36, 72, 75, 78, 88, 90, 93, 34, 95)
		}
		switch {
		case x < 30:
			s.insert()
		case x < 34:
			s.increaseTs()
		case x < 36:
			s.badInsert(-1)
		case x < 46:
			for i := 0; i < 3 && !s.dead.Load(); i++ {
				s.checkQuery("tree", "", s.depth, s.t, s.m.Now(), s.genQuery(s.r, s.m.Now(), s.m.Ts()))
			}
		case x < 54:
			s.openSnapshot()
		case x < 59:
			if len(s.snaps) > 0 {
				s.closeSnapshot(s.r.IntN(len(s.snaps)), s.r.IntN(3) == 0)
			}
		case x < 72:
			if len(s.snaps) > 0 {
				s.probeSnapshot(s.r, s.snaps[s.r.IntN(len(s.snaps))], 4, true)
			}
		case x < 75:
			if len(s.snaps) > 0 {
				ss := s.snaps[s.r.IntN(len(s.snaps))]
				s.historyReader(s.r, "snapshot", ss.phase(), ss)
			}
		case x < 78:
			if len(s.snaps) > 0 {
				s.localSet(s.snaps[s.r.IntN(len(s.snaps))])
			}
		case x < 81:
			// reset a reader and read it again from the start
			if len(s.snaps) > 0 {
				ss := s.snaps[s.r.IntN(len(s.snaps))]
				if len(ss.readers) > 0 {
					rs := ss.readers[s.r.IntN(len(ss.readers))]
					var err error
					if s.guard("Reader.Reset", func() { err = rs.rd.Reset() }) {
						if err != nil {
							s.violation("snapshot.Reader.Reset/"+unexp(err), err.Error())
							break
						}
						s.logf("reader reset on snapshot #%d %s pos=%d", ss.id, specString(rs.spec), rs.pos)
						rs.resets++
						rs.pos = 0
						s.advance("snapshot", ss.phase(), ss, rs, 1+s.r.IntN(5))
					}
				}
			}
		case x < 88:
			s.flush()
		case x < 90:
			s.compact()
		case x < 93:
			s.reopen()
		case x < 95:
			s.syncSnapshot()
		default:
			if s.conc {
				s.burst()
			} else {
				s.insert()
			}
		}
	}
	if s.dead.Load() {
		return
	}
	// final: everything closed, reopened and compared once more
	s.reopen()
	s.c.Count("ops", int64(nops))
}

// ---------------------------------------------------------------- entry point

func init() { fw.RegisterIsolated("c10-seq", runSequence) }

type seqCase struct {
	ID, Ops int
}

// runSequence runs one sequence inside a child process (a fatal runtime error
// of immudb - stack overflow, concurrent map writes - is then attributed to the
// sequence by the parent as "crash/<func>/<kind>" instead of ending the run).
func runSequence(c *fw.Ctx, data []byte) {
	var sc seqCase
	if err := json.Unmarshal(data, &sc); err != nil {
		c.Inconclusive("c10-seq: bad case: " + err.Error())
		return
	}
	s := &seq{c: c, id: sc.ID, r: c.Rand(fmt.Sprintf("c10/seq/%d", sc.ID)), dir: filepath.Join(c.Dir("seq"), "t"), conc: c.Thorough()}
	t0 := time.Now()
	panicked, sig, text := fw.Guard(func() { s.run(sc.Ops) })
	if os.Getenv("VERIF_C10_TIMING") != "" { // diagnostics only, never part of a verdict
		fmt.Fprintf(os.Stderr, "seq %d: %.1fs depth=%d %+v\n", sc.ID, time.Since(t0).Seconds(), s.maxDepth, s.cf)
	}
	if panicked {
		if strings.Contains(text, "c10 generator") || !strings.Contains(text, "codenotary/immudb") {
			c.Inconclusive(fmt.Sprintf("sequence %d: monitor fault: %s", sc.ID, text))
		} else {
			s.violation(panicSig(sig, text), text)
		}
	}
	profile := "regular"
	if s.cf.Small {
		profile = "small-tree"
	}
	c.Set("sequences_by_max_depth", map[string]any{fmt.Sprintf("depth_%02d", s.maxDepth): 1})
	c.Set("sequences_by_profile", map[string]any{profile: 1})
}

func Run(c *fw.Ctx) {
	c.Rule = "PRNG sequences of BulkInsert/Insert/IncreaseTs/FlushWith/Sync/Compact/Close+reopen on embedded/tbtree with tiny nodes, caches and files " +
		"(a quarter of them on trees small enough to stay a single leaf); " +
		"every Get/GetBetween/History/GetWithPrefix/Reader/HistoryReader answer of the tree equals kvmodel's current state and every answer of a snapshot equals " +
		"the state frozen at snapshot.Ts() (re-sampled after every later mutation, always including the keys just written); after reopen the tree equals the model, after Compact+reopen the model at the reported ts. " +
		"distinct = tree depth x operation x argument/reader-spec shape x outcome class, as observed"
	c.Assume("kvmodel (multi-version ordered map) is the specification; it passes its own self-check")
	c.Assume("inputs respect BulkInsert's documented precondition: per key, timestamps do not decrease inside one bulk (a failed insertion rolls the tree back to its last flushed root by design)")
	c.Assume("GetWithPrefix is only asked with neq empty, equal to the prefix or below it; ReaderSpec.Offset with IncludeHistory counts keys, as coded")
	c.Assume("limits (ErrorToManyActiveSnapshots, ErrCompactionThresholdNotReached, failed Compact) are accepted whenever returned")
	if err := kvmodel.SelfCheck(); err != nil {
		c.Inconclusive(err.Error())
		return
	}
	nseq := c.N(40, 300)
	nops := c.N(400, 1500)
	// diagnostics: VERIF_C10_SEQ=n runs only sequence n, VERIF_C10_MAXSEQ=n only the first n
	// (the sequences themselves are unchanged: each one draws from its own PRNG stream)
	only := -1
	if v := os.Getenv("VERIF_C10_SEQ"); v != "" {
		only, _ = strconv.Atoi(v)
	}
	if v, err := strconv.Atoi(os.Getenv("VERIF_C10_MAXSEQ")); err == nil && v > 0 && v < nseq {
		nseq = v
	}
	var cases [][]byte
	for i := 0; i < nseq; i++ {
		if only >= 0 && i != only {
			continue
		}
		b, _ := json.Marshal(seqCase{ID: i, Ops: nops})
		cases = append(cases, b)
	}
	// one child per shard of consecutive sequences; a sequence takes seconds (quick) to a few
	// minutes (thorough, loaded machine): the per-case watchdog is far above that and its firing is inconclusive
	c.RunIsolated("c10-seq", cases, fw.CasesOpts{Workers: c.N(20, 16), CaseTimout: 20 * time.Minute})
	c.Set("sequences", len(cases))
	c.Set("ops_per_sequence", nops)
}
