package c07

import (
	"bytes"
	"context"
	"encoding/json"
	"fmt"
	"math/rand/v2"
	"net"
	"os"
	"path/filepath"
	"runtime"
	"sort"
	"strings"
	"sync"
	"sync/atomic"
	"time"

	"github.com/codenotary/immudb/pkg/api/schema"
	"github.com/codenotary/immudb/pkg/client"
	"github.com/codenotary/immudb/pkg/server"
	"google.golang.org/protobuf/proto"

	"verifharness/internal/fw"
	"verifharness/internal/sth"
)

// L3: real immudb servers in one process over loopback TCP. The primary's database is replicated by the real
// TxReplicator of every replica server (pkg/replication), through the real StreamExportTx endpoint
// (pkg/server/stream_replication.go) and the pkg/database export / replicate / sync-replication wait paths.
// The workload goes through the real client; disturbances (server restarts, database unload/load, a replica
// joining late, a primary put back to an older copy) are drawn from the PRNG.

const (
	l3PrimaryDB = "pdb"
	l3ReplicaDB = "rdb"
	l3Wait      = 120 * time.Second // generous bound of every wait; its firing is inconclusive
)

type l3cfg struct {
	Name        string
	Sync        bool
	Acks        int
	SyncReps    int // replicas configured with synchronous replication
	AsyncReps   int // replicas configured with asynchronous replication (allowed besides sync ones)
	Late        bool
	NTx         int
	Committers  int
	Prefetch    uint32
	Concurrency uint32
	AllowDisc   bool
	Skip        bool
	WaitIdx     bool
	Embedded    bool
	Synced      bool
	Disturb     []string
	Diverge     bool
}

func (cf l3cfg) mode() string {
	if cf.Sync {
		return fmt.Sprintf("sync/acks=%d/reps=%d+%d", cf.Acks, cf.SyncReps, cf.AsyncReps)
	}
	return fmt.Sprintf("async/reps=%d", cf.AsyncReps)
}

func (cf l3cfg) String() string {
	return fmt.Sprintf("%s late=%v txs=%d committers=%d prefetch=%d concurrency=%d allowDiscarding=%v skipIntegrity=%v waitForIndexing=%v embedded=%v synced=%v disturbances=%v diverge=%v",
		cf.mode(), cf.Late, cf.NTx, cf.Committers, cf.Prefetch, cf.Concurrency, cf.AllowDisc, cf.Skip, cf.WaitIdx, cf.Embedded, cf.Synced, cf.Disturb, cf.Diverge)
}

func genL3(r *rand.Rand, i int, ntx int) l3cfg {
	cf := l3cfg{Name: fmt.Sprintf("l3-%d", i), NTx: ntx, Committers: 2 + r.IntN(3),
		Prefetch: []uint32{1, 4, 100}[r.IntN(3)], Concurrency: []uint32{1, 2, 10}[r.IntN(3)],
		AllowDisc: r.IntN(2) == 0, Skip: r.IntN(5) == 0, WaitIdx: r.IntN(4) == 0, Synced: r.IntN(3) == 0}
	if i%2 == 0 {
		cf.Sync = true
		cf.SyncReps = 1 + r.IntN(3)
		cf.Acks = 1 + r.IntN(cf.SyncReps)
		if cf.SyncReps < 3 && r.IntN(3) == 0 {
			cf.AsyncReps = 1
		}
	} else {
		cf.AsyncReps = 1 + r.IntN(2)
	}
	// a replica-side disturbance (the replicator has to resume from its own state) in every async scenario and in
	// two thirds of the sync ones, then up to two more of any kind
	if !cf.Sync || r.IntN(3) > 0 {
		cf.Disturb = append(cf.Disturb, []string{"replica-restart", "replica-unload-load"}[r.IntN(2)])
	}
	all := []string{"replica-restart", "replica-unload-load", "primary-restart", "primary-restart", "primary-checkpoint"}
	for k := r.IntN(3); k > 0 || len(cf.Disturb) == 0; k-- {
		cf.Disturb = append(cf.Disturb, all[r.IntN(len(all))])
	}
	restarts := false
	for _, d := range cf.Disturb {
		restarts = restarts || strings.HasPrefix(d, "replica-")
	}
	// with embedded values a replica does not find its precommitted txs again after a restart (open finding
	// restart/acknowledged-precommit-lost/embedded-values); a sync primary then refuses the replica's lower state
	// ("lags behind the previously informed one") and both wait for each other: kept out of those scenarios
	cf.Embedded = !(cf.Sync && restarts) && r.IntN(2) == 0
	cf.Late = r.IntN(3) == 0 && (cf.AsyncReps > 0 || cf.SyncReps > cf.Acks)
	cf.Diverge = i%3 == 1
	if cf.Diverge {
		has := false
		for _, d := range cf.Disturb {
			has = has || d == "primary-checkpoint"
		}
		if !has {
			cf.Disturb = append(cf.Disturb, "primary-checkpoint")
		}
	}
	return cf
}

// ---- servers and clients ----

type l3srv struct {
	name string
	dir  string
	port int
	srv  *server.ImmuServer
	db   string // the database under replication on this server
	sync bool   // replica configured with synchronous replication
	up   atomic.Bool
	mu   sync.Mutex
}

func (s *l3srv) start(synced bool) error {
	opts := server.DefaultOptions().WithMetricsServer(false).WithWebServer(false).WithPgsqlServer(false).
		WithPort(s.port).WithDir(s.dir).WithSynced(synced).WithAddress("127.0.0.1")
	srv := server.DefaultServer().WithOptions(opts).WithLogger(sth.QuietLogger()).(*server.ImmuServer)
	if err := srv.Initialize(); err != nil {
		return err
	}
	if s.port == 0 {
		s.port = srv.Listener.Addr().(*net.TCPAddr).Port
	}
	go srv.Start()
	s.srv = srv
	// ready when a session can be opened
	for i := 0; i < 1200; i++ {
		c := client.NewClient().WithOptions(client.DefaultOptions().WithAddress("127.0.0.1").WithPort(s.port).WithDir(filepath.Join(s.dir, "..", "client-state")))
		ctx, cancel := context.WithTimeout(context.Background(), 5*time.Second)
		err := c.OpenSession(ctx, []byte("immudb"), []byte("immudb"), "defaultdb")
		cancel()
		if err == nil {
			c.CloseSession(context.Background())
			s.up.Store(true)
			return nil
		}
		time.Sleep(50 * time.Millisecond)
	}
	return fmt.Errorf("server %s on port %d did not accept a session", s.name, s.port)
}

func (s *l3srv) stop() error {
	s.up.Store(false)
	if s.srv == nil {
		return nil
	}
	err := s.srv.Stop()
	s.srv = nil
	return err
}

// l3cli is a client session that is opened again after its server went away.
type l3cli struct {
	mu   sync.Mutex
	srv  *l3srv
	db   string
	dir  string
	c    client.ImmuClient
	quit *atomic.Bool
}

func (k *l3cli) close() {
	k.mu.Lock()
	defer k.mu.Unlock()
	if k.c != nil {
		ctx, cancel := context.WithTimeout(context.Background(), 2*time.Second)
		k.c.CloseSession(ctx)
		cancel()
		k.c = nil
	}
}

func transient(err error) bool {
	if err == nil {
		return false
	}
	m := err.Error()
	for _, s := range []string{"connection", "session", "Unavailable", "transport", "EOF", "not connected", "closing", "Canceled", "database is not loaded", "database does not exist", "already closed", "not found or is not loaded"} {
		if strings.Contains(m, s) {
			return true
		}
	}
	return false
}

// do runs f with an open session; one attempt only (the caller decides about retrying).
func (k *l3cli) do(f func(ctx context.Context, c client.ImmuClient) error) error {
	k.mu.Lock()
	defer k.mu.Unlock()
	if k.c == nil {
		if !k.srv.up.Load() {
			return fmt.Errorf("connection: server %s is down", k.srv.name)
		}
		c := client.NewClient().WithOptions(client.DefaultOptions().WithAddress("127.0.0.1").WithPort(k.srv.port).WithDir(k.dir))
		ctx, cancel := context.WithTimeout(context.Background(), 10*time.Second)
		err := c.OpenSession(ctx, []byte("immudb"), []byte("immudb"), k.db)
		cancel()
		if err != nil {
			return fmt.Errorf("connection: open session: %w", err)
		}
		k.c = c
	}
	ctx, cancel := context.WithTimeout(context.Background(), opTimeout)
	err := f(ctx, k.c)
	cancel()
	if transient(err) {
		c := k.c
		k.c = nil
		go func() {
			ctx, cancel := context.WithTimeout(context.Background(), 2*time.Second)
			c.CloseSession(ctx)
			cancel()
		}()
	}
	return err
}

// retry repeats f over transient errors (server restarting, database being loaded), a bounded number of times.
func (k *l3cli) retry(f func(ctx context.Context, c client.ImmuClient) error) error {
	var err error
	for i := 0; i < 1500; i++ {
		if err = k.do(f); !transient(err) {
			return err
		}
		if k.quit != nil && k.quit.Load() {
			return err
		}
		time.Sleep(100 * time.Millisecond)
	}
	return err
}

type l3run struct {
	c    *fw.Ctx
	cf   l3cfg
	root string
	pri  *l3srv
	reps []*l3srv

	epoch   atomic.Int64 // odd while a disturbance is in progress
	acks    atomic.Int64
	quit    atomic.Bool
	divert  atomic.Bool // the primary was put back to an older copy: the not-ahead sampler stops
	stats   sync.Map
	sqlMu   sync.RWMutex
	keyMu   sync.Mutex
	keys    map[string]bool
	seenMu  sync.Mutex
	seen    map[string]map[uint64][32]byte // replica -> committed id -> alh reported during the run
	backup  string
	backupN uint64 // committed id of the primary when the checkpoint copy was taken
}

func (s *l3run) viol(sig, detail string) {
	s.c.Violation(sig, fmt.Sprintf("[%s %s] %s", s.cf.Name, s.cf, detail), map[string][]byte{"config.txt": []byte(s.cf.String())})
}

func (s *l3run) count(k string) {
	v, _ := s.stats.LoadOrStore(k, new(atomic.Int64))
	v.(*atomic.Int64).Add(1)
}

func (s *l3run) cli(srv *l3srv) *l3cli {
	return &l3cli{srv: srv, db: srv.db, dir: filepath.Join(s.root, "client-state"), quit: &s.quit}
}

func u32(v uint32) *schema.NullableUint32 { return &schema.NullableUint32{Value: v} }
func nb(v bool) *schema.NullableBool      { return &schema.NullableBool{Value: v} }
func ns(v string) *schema.NullableString  { return &schema.NullableString{Value: v} }

func (s *l3run) dbSettings() *schema.DatabaseNullableSettings {
	return &schema.DatabaseNullableSettings{
		MaxConcurrency: u32(16), MaxTxEntries: u32(32), MaxKeyLen: u32(256), MaxValueLen: u32(4096),
		EmbeddedValues: nb(s.cf.Embedded), FileSize: u32(1 << 20),
		SyncFrequency: &schema.NullableMilliseconds{Value: 5},
	}
}

func (s *l3run) startPrimary() error {
	s.pri = &l3srv{name: "primary", dir: filepath.Join(s.root, "primary"), db: l3PrimaryDB}
	os.MkdirAll(s.pri.dir, 0o755)
	if err := s.pri.start(s.cf.Synced); err != nil {
		return err
	}
	k := &l3cli{srv: s.pri, db: "defaultdb", dir: filepath.Join(s.root, "client-state")}
	defer k.close()
	set := s.dbSettings()
	if s.cf.Sync {
		set.ReplicationSettings = &schema.ReplicationNullableSettings{SyncReplication: nb(true), SyncAcks: u32(uint32(s.cf.Acks))}
	}
	return k.retry(func(ctx context.Context, c client.ImmuClient) error {
		_, err := c.CreateDatabaseV2(ctx, l3PrimaryDB, set)
		return err
	})
}

func (s *l3run) addReplica(syncRep bool) error {
	i := len(s.reps)
	rp := &l3srv{name: fmt.Sprintf("replica%d", i), dir: filepath.Join(s.root, fmt.Sprintf("replica%d", i)), db: l3ReplicaDB, sync: syncRep}
	s.reps = append(s.reps, rp)
	return s.bringUp(rp, i)
}

func (s *l3run) bringUp(rp *l3srv, i int) error {
	os.MkdirAll(rp.dir, 0o755)
	if err := rp.start(s.cf.Synced && i%2 == 0); err != nil {
		return err
	}
	syncRep := rp.sync
	k := &l3cli{srv: rp, db: "defaultdb", dir: filepath.Join(s.root, "client-state")}
	defer k.close()
	set := s.dbSettings()
	set.ReplicationSettings = &schema.ReplicationNullableSettings{
		Replica: nb(true), SyncReplication: nb(syncRep), PrimaryDatabase: ns(l3PrimaryDB), PrimaryHost: ns("127.0.0.1"),
		PrimaryPort: u32(uint32(s.pri.port)), PrimaryUsername: ns("immudb"), PrimaryPassword: ns("immudb"),
		PrefetchTxBufferSize: u32(s.cf.Prefetch), ReplicationCommitConcurrency: u32(s.cf.Concurrency),
		AllowTxDiscarding: nb(s.cf.AllowDisc), SkipIntegrityCheck: nb(s.cf.Skip), WaitForIndexing: nb(s.cf.WaitIdx),
	}
	return k.retry(func(ctx context.Context, c client.ImmuClient) error {
		_, err := c.CreateDatabaseV2(ctx, l3ReplicaDB, set)
		return err
	})
}

// ---- workload ----

func (s *l3run) noteKey(k string) {
	s.keyMu.Lock()
	s.keys[k] = true
	s.keyMu.Unlock()
}

func l3val(r *rand.Rand) []byte {
	v := make([]byte, []int{0, 0, 5, 60, 700}[r.IntN(5)])
	for i := range v {
		v[i] = byte(r.IntN(256))
	}
	return v
}

// onAck is oracle (b): a commit was just acknowledged to the client of a sync-replication primary.
func (s *l3run) onAck(hdr *schema.TxHeader, epoch0 int64, mons []*l3cli) {
	s.acks.Add(1)
	if !s.cf.Sync || hdr == nil {
		return
	}
	holders := 0
	var desc []string
	for i, m := range mons {
		if !s.reps[i].sync {
			continue
		}
		var st *schema.ImmutableState
		err := m.do(func(ctx context.Context, c client.ImmuClient) (e error) { st, e = c.CurrentState(ctx); return })
		if err != nil {
			s.count("ack-unjudged")
			return // a replica cannot be asked right now: nothing can be concluded
		}
		holds := st.PrecommittedTxId >= hdr.Id
		if st.PrecommittedTxId == hdr.Id && toAlh(st.PrecommittedTxHash) != schema.TxHeaderFromProto(hdr).Alh() {
			holds = false
		}
		if holds {
			holders++
		}
		desc = append(desc, fmt.Sprintf("%s precommitted=%d committed=%d", s.reps[i].name, st.PrecommittedTxId, st.TxId))
	}
	if e := s.epoch.Load(); e != epoch0 || e%2 == 1 {
		s.count("ack-unjudged")
		return // a server was being restarted meanwhile: a restarted replica may be asked before it is back in step
	}
	s.c.Eval(1)
	s.c.Distinct(fmt.Sprintf("L3/ack/%s/holders=%d", s.cf.mode(), holders))
	if holders < s.cf.Acks {
		s.viol("l3/sync/acknowledged-before-syncacks-replicas-hold-the-tx", fmt.Sprintf("the primary acknowledged tx %d to the client while %d of the required %d sync replicas reported it precommitted: %s", hdr.Id, holders, s.cf.Acks, strings.Join(desc, "; ")))
	}
}

func (s *l3run) committer(g int, wg *sync.WaitGroup, left *atomic.Int64) {
	defer wg.Done()
	r := fw.NewRand(s.c.Seed, fmt.Sprintf("c07/%s/committer%d", s.cf.Name, g))
	k := s.cli(s.pri)
	defer k.close()
	var mons []*l3cli
	for _, rp := range s.reps {
		mons = append(mons, s.cli(rp))
	}
	defer func() {
		for _, m := range mons {
			m.close()
		}
	}()
	seq := 0
	baseSet := false
	for left.Add(-1) >= 0 && !s.quit.Load() {
		for len(mons) < len(s.reps) { // a replica joined late
			mons = append(mons, s.cli(s.reps[len(mons)]))
		}
		seq++
		key := func() []byte {
			k := fmt.Sprintf("k%d-%02d", g, r.IntN(20))
			if r.IntN(3) == 0 {
				k = fmt.Sprintf("shared-%02d", r.IntN(10))
			}
			s.noteKey(k)
			return []byte(k)
		}
		op := []string{"set", "set", "setall", "execall", "reference", "delete", "expirable", "nonindexable", "sql", "sql"}[r.IntN(10)]
		var hdr *schema.TxHeader
		epoch0 := s.epoch.Load()
		f := func(ctx context.Context, c client.ImmuClient) (err error) {
			switch op {
			case "set":
				hdr, err = c.Set(ctx, key(), l3val(r))
			case "setall":
				var kvs []*schema.KeyValue
				seenK := map[string]bool{}
				for i := 0; i < 2+r.IntN(4); i++ {
					kk := key()
					if seenK[string(kk)] {
						continue
					}
					seenK[string(kk)] = true
					kvs = append(kvs, &schema.KeyValue{Key: kk, Value: l3val(r)})
				}
				hdr, err = c.SetAll(ctx, &schema.SetRequest{KVs: kvs})
			case "execall":
				kk := key()
				hdr, err = c.ExecAll(ctx, &schema.ExecAllRequest{Operations: []*schema.Op{
					{Operation: &schema.Op_Kv{Kv: &schema.KeyValue{Key: kk, Value: l3val(r)}}},
					{Operation: &schema.Op_Ref{Ref: &schema.ReferenceRequest{Key: []byte(fmt.Sprintf("ref-%d-%d", g, r.IntN(8))), ReferencedKey: kk}}},
					{Operation: &schema.Op_ZAdd{ZAdd: &schema.ZAddRequest{Set: []byte("zset"), Score: float64(r.IntN(100)), Key: kk}}},
				}})
			case "reference":
				base := []byte(fmt.Sprintf("base-%d", g))
				if !baseSet || r.IntN(4) == 0 {
					if hdr, err = c.Set(ctx, base, l3val(r)); err != nil {
						return err
					}
					s.noteKey(string(base))
					baseSet = true
				}
				rk := fmt.Sprintf("ref-%d-%d", g, r.IntN(8))
				s.noteKey(rk)
				hdr, err = c.SetReference(ctx, []byte(rk), base)
			case "delete":
				hdr, err = c.Delete(ctx, &schema.DeleteKeysRequest{Keys: [][]byte{key()}})
				if err != nil && strings.Contains(err.Error(), "key not found") {
					err = nil
				}
			case "expirable":
				hdr, err = c.ExpirableSet(ctx, key(), l3val(r), time.Date(2100, 1, 1, 0, 0, 0, 0, time.UTC))
			case "nonindexable":
				hdr, err = c.SetAll(ctx, &schema.SetRequest{KVs: []*schema.KeyValue{{Key: []byte(fmt.Sprintf("ni-%d-%d", g, r.IntN(6))), Value: l3val(r), Metadata: &schema.KVMetadata{NonIndexable: true}}}})
			case "sql":
				_, err = c.SQLExec(ctx, "UPSERT INTO t(id, g, v) VALUES (@id, @g, @v)", map[string]interface{}{"id": int64(g*1000 + r.IntN(40)), "g": int64(g), "v": fmt.Sprintf("v%d", r.IntN(1000))})
			}
			return err
		}
		hdr = nil
		// store.preCommitWith holds indexersMux.RLock while its callback (ExecAll, Delete, SetReference read the
		// index) takes it again; a SQL tx beginning in between queues InitIndexing's write lock and the primary
		// deadlocks with the store mutex held (observed, stacks in /verif/proposed/C07-l3-precommitwith-initindexing-
		// deadlock-stacks.txt; not a replication matter). The workload therefore never overlaps the two.
		switch op {
		case "sql":
			s.sqlMu.Lock()
		case "execall", "delete", "reference":
			s.sqlMu.RLock()
		}
		err := k.do(f)
		switch op {
		case "sql":
			s.sqlMu.Unlock()
		case "execall", "delete", "reference":
			s.sqlMu.RUnlock()
		}
		if err != nil {
			if transient(err) {
				s.count("commit-interrupted")
				time.Sleep(100 * time.Millisecond)
				left.Add(1) // not counted as done
				if s.count2("commit-interrupted-total") > int64(40*s.cf.NTx) {
					s.c.Inconclusive(fmt.Sprintf("[%s] too many interrupted commits (%v)", s.cf.Name, err))
					s.quit.Store(true)
				}
				continue
			}
			if strings.Contains(err.Error(), "context deadline") || strings.Contains(err.Error(), "DeadlineExceeded") {
				if debug {
					buf := make([]byte, 1<<25)
					os.WriteFile("/var/tmp/c07-l3-hang-"+s.cf.Name+".txt", buf[:runtime.Stack(buf, true)], 0o644)
				}
				s.c.Inconclusive(fmt.Sprintf("[%s %s] a commit on the primary (%s) did not return within %s: %v", s.cf.Name, s.cf, op, opTimeout, err))
				s.quit.Store(true)
				return
			}
			s.count("commit-error/" + op)
			s.c.Note(fmt.Sprintf("[%s] %s: %v", s.cf.Name, op, err))
			continue
		}
		s.count("commit/" + op)
		s.onAck(hdr, epoch0, mons)
	}
}

func (s *l3run) count2(k string) int64 {
	v, _ := s.stats.LoadOrStore(k, new(atomic.Int64))
	return v.(*atomic.Int64).Add(1)
}

// sampler is oracle (c): a replica never reports a committed id above the primary's, read afterwards.
func (s *l3run) sampler(wg *sync.WaitGroup, stop *atomic.Bool) {
	defer wg.Done()
	pk := s.cli(s.pri)
	defer pk.close()
	var mons []*l3cli
	defer func() {
		for _, m := range mons {
			m.close()
		}
	}()
	for !stop.Load() {
		for len(mons) < len(s.reps) {
			mons = append(mons, s.cli(s.reps[len(mons)]))
		}
		for i, m := range mons {
			if s.divert.Load() {
				break
			}
			var rs, ps *schema.ImmutableState
			if err := m.do(func(ctx context.Context, c client.ImmuClient) (e error) { rs, e = c.CurrentState(ctx); return }); err != nil {
				continue
			}
			if err := pk.do(func(ctx context.Context, c client.ImmuClient) (e error) { ps, e = c.CurrentState(ctx); return }); err != nil {
				continue
			}
			if s.divert.Load() {
				break
			}
			s.c.Eval(1)
			if rs.TxId > ps.TxId {
				s.viol("l3/replica-committed-ahead-of-primary", fmt.Sprintf("%s reported committed tx %d; the primary, asked afterwards, had committed %d (precommitted %d)", s.reps[i].name, rs.TxId, ps.TxId, ps.PrecommittedTxId))
			}
			if rs.TxId > 0 {
				s.seenMu.Lock()
				m := s.seen[s.reps[i].name]
				if m == nil {
					m = map[uint64][32]byte{}
					s.seen[s.reps[i].name] = m
				}
				if old, ok := m[rs.TxId]; ok && old != toAlh(rs.TxHash) {
					s.viol("l3/replica-committed-state-changed", fmt.Sprintf("%s reported two hashes for committed tx %d", s.reps[i].name, rs.TxId))
				}
				m[rs.TxId] = toAlh(rs.TxHash)
				s.seenMu.Unlock()
			}
		}
		time.Sleep(3 * time.Millisecond)
	}
}

// ---- disturbances ----

func (s *l3run) disturb(kind string, r *rand.Rand) {
	if strings.HasPrefix(kind, "replica-") && len(s.reps) == 0 {
		s.count("disturbance-skipped/" + kind) // the only replica joins late and is not there yet
		return
	}
	s.epoch.Add(1)
	defer s.epoch.Add(1)
	outcome := "done"
	switch kind {
	case "replica-restart":
		rp := s.reps[r.IntN(len(s.reps))]
		rp.mu.Lock()
		if err := rp.stop(); err != nil {
			// the old instance may still be running inside this process: starting another one over the same
			// directory would not be a restart
			s.c.Inconclusive(fmt.Sprintf("[%s] %s did not stop cleanly: %v", s.cf.Name, rp.name, err))
			s.quit.Store(true)
			rp.mu.Unlock()
			return
		}
		time.Sleep(time.Duration(r.IntN(300)) * time.Millisecond)
		if err := rp.start(s.cf.Synced); err != nil {
			s.viol("l3/replica-server-does-not-restart", fmt.Sprintf("%s: %v", rp.name, err))
			s.quit.Store(true)
			outcome = "failed"
		}
		rp.mu.Unlock()
	case "replica-unload-load":
		rp := s.reps[r.IntN(len(s.reps))]
		k := &l3cli{srv: rp, db: "defaultdb", dir: filepath.Join(s.root, "client-state"), quit: &s.quit}
		err := k.retry(func(ctx context.Context, c client.ImmuClient) error {
			_, e := c.UnloadDatabase(ctx, &schema.UnloadDatabaseRequest{Database: l3ReplicaDB})
			return e
		})
		time.Sleep(time.Duration(r.IntN(200)) * time.Millisecond)
		if err == nil {
			err = k.retry(func(ctx context.Context, c client.ImmuClient) error {
				_, e := c.LoadDatabase(ctx, &schema.LoadDatabaseRequest{Database: l3ReplicaDB})
				return e
			})
		}
		k.close()
		if err != nil {
			outcome = "error"
			s.c.Note(fmt.Sprintf("[%s] unload/load of %s: %v", s.cf.Name, rp.name, err))
		}
	case "primary-restart", "primary-checkpoint":
		s.pri.mu.Lock()
		if err := s.pri.stop(); err != nil {
			s.c.Inconclusive(fmt.Sprintf("[%s] the primary did not stop cleanly: %v", s.cf.Name, err))
			s.quit.Store(true)
			s.pri.mu.Unlock()
			return
		}
		if kind == "primary-checkpoint" && s.backup == "" {
			// a copy of the stopped primary, used later to put the primary back in time
			s.backup = filepath.Join(s.root, "primary-checkpoint")
			if err := sth.CopyDir(s.pri.dir, s.backup); err != nil {
				s.backup = ""
			}
		}
		time.Sleep(time.Duration(r.IntN(300)) * time.Millisecond)
		if err := s.pri.start(s.cf.Synced); err != nil {
			s.viol("l3/primary-server-does-not-restart", err.Error())
			s.quit.Store(true)
			outcome = "failed"
		}
		s.pri.mu.Unlock()
		if kind == "primary-checkpoint" && s.backup != "" && s.backupN == 0 {
			k := s.cli(s.pri)
			var st *schema.ImmutableState
			if err := k.retry(func(ctx context.Context, c client.ImmuClient) (e error) { st, e = c.CurrentState(ctx); return }); err == nil {
				s.backupN = st.TxId
			}
			k.close()
		}
	}
	s.count("disturbance/" + kind)
	s.c.Distinct(fmt.Sprintf("L3/%s/disturbance/%s/%s", s.cf.mode(), kind, outcome))
}

// ---- quiescence and comparison ----

func (s *l3run) state(k *l3cli) (*schema.ImmutableState, error) {
	var st *schema.ImmutableState
	err := k.retry(func(ctx context.Context, c client.ImmuClient) (e error) { st, e = c.CurrentState(ctx); return })
	return st, err
}

// settle waits until every replica reports the primary's committed state.
func (s *l3run) settle(why string) bool {
	pk := s.cli(s.pri)
	defer pk.close()
	ps, err := s.state(pk)
	if err != nil {
		s.c.Inconclusive(fmt.Sprintf("[%s] primary state: %v", s.cf.Name, err))
		return false
	}
	for _, rp := range s.reps {
		k := s.cli(rp)
		ok := false
		var last *schema.ImmutableState
		observe := func(rounds int) (moved, asked int) {
			for i := 0; i < rounds; i++ {
				st, err := s.state(k)
				if err == nil {
					asked++
					if last != nil && (st.TxId != last.TxId || st.PrecommittedTxId != last.PrecommittedTxId) {
						moved++
					}
					last = st
					if st.TxId >= ps.TxId {
						ok = true
						return
					}
				}
				time.Sleep(50 * time.Millisecond)
			}
			return
		}
		moved, _ := observe(int(l3Wait / (50 * time.Millisecond)))
		if !ok && last != nil && moved == 0 {
			// No movement at all. The replicator backs off up to two minutes after connection failures, so silence alone
			// says nothing: the replica database is reloaded, which starts a fresh replicator that connects at once
			// (the primary answers). Judged from state: if it again neither precommits nor commits anything over
			// hundreds of observations while the primary is ahead, it has stopped following.
			adm := &l3cli{srv: rp, db: "defaultdb", dir: filepath.Join(s.root, "client-state")}
			adm.retry(func(ctx context.Context, c client.ImmuClient) error {
				_, e := c.UnloadDatabase(ctx, &schema.UnloadDatabaseRequest{Database: l3ReplicaDB})
				return e
			})
			rerr := adm.retry(func(ctx context.Context, c client.ImmuClient) error {
				_, e := c.LoadDatabase(ctx, &schema.LoadDatabaseRequest{Database: l3ReplicaDB})
				return e
			})
			adm.close()
			k.close()
			moved2, asked2 := observe(int(60 * time.Second / (50 * time.Millisecond)))
			if !ok && rerr == nil && moved2 == 0 && asked2 > 300 {
				s.viol("l3/replica-stopped-following-the-primary", fmt.Sprintf("%s: the primary has committed tx %d; %s stays at committed %d / precommitted %d: no movement before and, over %d observations, none after its database was reloaded (fresh replicator, primary answering, no divergence injected)", why, ps.TxId, rp.name, last.TxId, last.PrecommittedTxId, asked2))
				k.close()
				return false
			}
		}
		k.close()
		if !ok {
			s.c.Inconclusive(fmt.Sprintf("[%s %s] %s: %s did not reach the primary's committed tx %d within %s (last state %v)", s.cf.Name, s.cf, why, rp.name, ps.TxId, l3Wait, last))
			return false
		}
	}
	return true
}

var l3spec = &schema.EntriesSpec{
	KvEntriesSpec:  &schema.EntryTypeSpec{Action: schema.EntryTypeAction_RAW_VALUE},
	ZEntriesSpec:   &schema.EntryTypeSpec{Action: schema.EntryTypeAction_RAW_VALUE},
	SqlEntriesSpec: &schema.EntryTypeSpec{Action: schema.EntryTypeAction_RAW_VALUE},
}

func pbytes(m proto.Message) []byte {
	b, _ := proto.MarshalOptions{Deterministic: true}.Marshal(m)
	return b
}

// memState is a client state service holding one trusted state handed in by the harness.
type memState struct {
	mu sync.Mutex
	st *schema.ImmutableState
}

func (m *memState) GetState(ctx context.Context, db string) (*schema.ImmutableState, error) {
	m.mu.Lock()
	defer m.mu.Unlock()
	return proto.Clone(m.st).(*schema.ImmutableState), nil
}
func (m *memState) SetState(db string, st *schema.ImmutableState) error {
	m.mu.Lock()
	m.st = st
	m.mu.Unlock()
	return nil
}
func (m *memState) CacheLock() error         { return nil }
func (m *memState) CacheUnlock() error       { return nil }
func (m *memState) SetServerIdentity(string) {}

// verifiedWith opens a session on srv whose trusted state is the given one (obtained from another server).
func (s *l3run) verifiedGets(srv *l3srv, trusted *schema.ImmutableState, from string, keys []string) {
	c := client.NewClient().WithOptions(client.DefaultOptions().WithAddress("127.0.0.1").WithPort(srv.port).WithDir(filepath.Join(s.root, "client-state")))
	ctx, cancel := context.WithTimeout(context.Background(), opTimeout)
	defer cancel()
	if err := c.OpenSession(ctx, []byte("immudb"), []byte("immudb"), srv.db); err != nil {
		s.c.Inconclusive("verified session: " + err.Error())
		return
	}
	defer c.CloseSession(context.Background())
	n := 0
	for _, k := range keys {
		st := proto.Clone(trusted).(*schema.ImmutableState)
		st.Db = srv.db
		c.WithStateService(&memState{st: st})
		_, err := c.VerifiedGet(ctx, []byte(k))
		if err != nil && (strings.Contains(err.Error(), "key not found") || strings.Contains(err.Error(), "expired")) {
			continue
		}
		s.c.Eval(1)
		n++
		if err != nil {
			s.viol("l3/final/verifiedget-against-other-servers-state", fmt.Sprintf("VerifiedGet(%q) on %s with the state (tx %d) obtained from %s: %v", k, srv.name, trusted.TxId, from, err))
			return
		}
		if n >= 12 {
			break
		}
	}
	s.c.Distinct(fmt.Sprintf("L3/final/verifiedget/%s-against-state-of-%s", strings.TrimRight(srv.name, "0123456789"), strings.TrimRight(from, "0123456789")))
}

func (s *l3run) compare(label string) {
	pk := s.cli(s.pri)
	defer pk.close()
	ps, err := s.state(pk)
	if err != nil {
		return
	}
	n := ps.TxId
	ptx := make([][]byte, n+1)
	palh := make([][32]byte, n+1)
	for id := uint64(1); id <= n; id++ {
		var tx *schema.Tx
		if err := pk.retry(func(ctx context.Context, c client.ImmuClient) (e error) {
			tx, e = c.TxByIDWithSpec(ctx, &schema.TxRequest{Tx: id, EntriesSpec: l3spec})
			return
		}); err != nil {
			s.viol("l3/final/primary-tx-unreadable", fmt.Sprintf("primary TxByID(%d): %v", id, err))
			return
		}
		ptx[id] = pbytes(tx)
		palh[id] = schema.TxHeaderFromProto(tx.Header).Alh()
	}
	s.keyMu.Lock()
	var keys []string
	for k := range s.keys {
		keys = append(keys, k)
	}
	s.keyMu.Unlock()
	sort.Strings(keys)
	type answers struct {
		gets  map[string]string
		scan  []byte
		hist  map[string][]byte
		sql   []byte
		zscan []byte
	}
	ask := func(k *l3cli) (a answers, err error) {
		a.gets, a.hist = map[string]string{}, map[string][]byte{}
		for _, key := range keys {
			var e *schema.Entry
			gerr := k.retry(func(ctx context.Context, c client.ImmuClient) (er error) { e, er = c.Get(ctx, []byte(key)); return })
			if gerr != nil {
				a.gets[key] = "err:" + gerr.Error()
			} else {
				a.gets[key] = string(pbytes(e))
			}
		}
		var es *schema.Entries
		if err = k.retry(func(ctx context.Context, c client.ImmuClient) (er error) {
			es, er = c.Scan(ctx, &schema.ScanRequest{Prefix: []byte("k"), Limit: 500})
			return
		}); err != nil {
			return a, err
		}
		a.scan = pbytes(es)
		for i, key := range keys {
			if i%7 != 0 {
				continue
			}
			var h *schema.Entries
			herr := k.retry(func(ctx context.Context, c client.ImmuClient) (er error) {
				h, er = c.History(ctx, &schema.HistoryRequest{Key: []byte(key), Limit: 100})
				return
			})
			if herr != nil {
				a.hist[key] = []byte("err:" + herr.Error())
			} else {
				a.hist[key] = pbytes(h)
			}
		}
		var q *schema.SQLQueryResult
		if qerr := k.retry(func(ctx context.Context, c client.ImmuClient) (er error) {
			q, er = c.SQLQuery(ctx, "SELECT id, g, v FROM t ORDER BY id", nil, true)
			return
		}); qerr != nil {
			a.sql = []byte("err:" + qerr.Error())
		} else {
			a.sql = pbytes(q)
		}
		var z *schema.ZEntries
		if zerr := k.retry(func(ctx context.Context, c client.ImmuClient) (er error) {
			z, er = c.ZScan(ctx, &schema.ZScanRequest{Set: []byte("zset"), Limit: 500})
			return
		}); zerr != nil {
			a.zscan = []byte("err:" + zerr.Error())
		} else {
			a.zscan = pbytes(z)
		}
		return a, nil
	}
	// the index of every server must have caught up before answers are compared
	waitIdx := func(k *l3cli) {
		k.retry(func(ctx context.Context, c client.ImmuClient) error {
			_, e := c.Get(ctx, []byte("no-such-key"), client.SinceTx(n))
			if e != nil && strings.Contains(e.Error(), "key not found") {
				return nil
			}
			return e
		})
	}
	waitIdx(pk)
	pa, err := ask(pk)
	if err != nil {
		s.c.Inconclusive(fmt.Sprintf("[%s] primary answers: %v", s.cf.Name, err))
		return
	}
	for _, rp := range s.reps {
		k := s.cli(rp)
		rs, err := s.state(k)
		s.c.Eval(1)
		if err != nil || rs.TxId != n || toAlh(rs.TxHash) != toAlh(ps.TxHash) {
			s.viol("l3/final/state-differs", fmt.Sprintf("%s: %s state %d/%x (err %v), primary %d/%x", label, rp.name, rs.GetTxId(), rs.GetTxHash(), err, n, ps.TxHash))
			k.close()
			continue
		}
		bad := false
		for id := uint64(1); id <= n && !bad; id++ {
			var tx *schema.Tx
			err := k.retry(func(ctx context.Context, c client.ImmuClient) (e error) {
				tx, e = c.TxByIDWithSpec(ctx, &schema.TxRequest{Tx: id, EntriesSpec: l3spec})
				return
			})
			s.c.Eval(1)
			if err != nil || !bytes.Equal(pbytes(tx), ptx[id]) {
				bad = true
				s.viol("l3/final/tx-differs", fmt.Sprintf("%s: %s tx %d (err %v) differs from the primary's (header alh %x vs %x)", label, rp.name, id, err, schema.TxHeaderFromProto(tx.GetHeader()).Alh(), palh[id]))
			}
		}
		s.seenMu.Lock()
		for id, a := range s.seen[rp.name] {
			if id <= n && palh[id] != a && !s.divert.Load() {
				s.viol("l3/replica-reported-committed-tx-not-the-primarys", fmt.Sprintf("%s once reported committed tx %d with alh %x; the primary's is %x", rp.name, id, a[:6], palh[id][:6]))
			}
		}
		s.seenMu.Unlock()
		if !bad {
			waitIdx(k)
			ra, err := ask(k)
			s.c.Eval(1)
			switch {
			case err != nil:
				s.viol("l3/final/query-error", fmt.Sprintf("%s: %s: %v", label, rp.name, err))
			case !bytes.Equal(ra.scan, pa.scan):
				s.viol("l3/final/scan-differs", fmt.Sprintf("%s: Scan(prefix k) on %s differs from the primary's", label, rp.name))
			case !bytes.Equal(ra.sql, pa.sql):
				s.viol("l3/final/sql-query-differs", fmt.Sprintf("%s: SELECT on %s differs from the primary's: %q vs %q", label, rp.name, trunc(string(ra.sql), 200), trunc(string(pa.sql), 200)))
			case !bytes.Equal(ra.zscan, pa.zscan):
				s.viol("l3/final/zscan-differs", fmt.Sprintf("%s: ZScan on %s differs from the primary's", label, rp.name))
			default:
				for key, v := range pa.gets {
					if ra.gets[key] != v {
						s.viol("l3/final/get-differs", fmt.Sprintf("%s: Get(%q) on %s differs from the primary's: %q vs %q", label, key, rp.name, trunc(ra.gets[key], 120), trunc(v, 120)))
						break
					}
				}
				for key, v := range pa.hist {
					if !bytes.Equal(ra.hist[key], v) {
						s.viol("l3/final/history-differs", fmt.Sprintf("%s: History(%q) on %s differs from the primary's", label, key, rp.name))
						break
					}
				}
			}
			s.c.Eval(len(pa.gets) + len(pa.hist))
			// proofs across servers
			s.verifiedGets(rp, ps, "primary", keys)
			s.verifiedGets(s.pri, rs, rp.name, keys)
			// (d) a replica refuses direct writes
			werr := k.retry(func(ctx context.Context, c client.ImmuClient) error {
				_, e := c.Set(ctx, []byte("direct"), []byte("write"))
				return e
			})
			s.c.Eval(1)
			if werr == nil || !strings.Contains(werr.Error(), "replica") {
				s.viol("l3/replica-accepted-direct-write", fmt.Sprintf("Set on %s returned %v", rp.name, werr))
			}
			_, serr := func() (r *schema.SQLExecResult, e error) {
				e = k.retry(func(ctx context.Context, c client.ImmuClient) (er error) {
					r, er = c.SQLExec(ctx, "UPSERT INTO t(id, g, v) VALUES (1, 1, 'direct')", nil)
					return
				})
				return
			}()
			if serr == nil || !strings.Contains(serr.Error(), "replica") {
				s.viol("l3/replica-accepted-direct-write", fmt.Sprintf("SQLExec on %s returned %v", rp.name, serr))
			}
		}
		k.close()
	}
	s.c.Count("l3_txs_compared", int64(n)*int64(len(s.reps)))
	s.c.Distinct(fmt.Sprintf("L3/%s/final-equality/%s", s.cf.mode(), label))
}

func trunc(s string, n int) string {
	if len(s) > n {
		return s[:n]
	}
	return s
}

// divergence: the primary is put back to the checkpoint copy and continues with other txs. Oracle (e): no replica
// ends with a mixture: each one either keeps exactly the old history (and stops), or holds exactly the new one.
func (s *l3run) divergence(old [][32]byte) {
	if s.backup == "" || s.backupN == 0 || s.backupN+2 >= uint64(len(old)) {
		s.count("divergence/skipped-checkpoint-too-late")
		return
	}
	s.divert.Store(true)
	s.pri.mu.Lock()
	if err := s.pri.stop(); err != nil {
		s.pri.mu.Unlock()
		s.c.Inconclusive(fmt.Sprintf("[%s] divergence: the primary did not stop cleanly: %v", s.cf.Name, err))
		return
	}
	os.RemoveAll(s.pri.dir)
	err := sth.CopyDir(s.backup, s.pri.dir)
	if err == nil {
		err = s.pri.start(s.cf.Synced)
	}
	s.pri.mu.Unlock()
	if err != nil {
		s.c.Inconclusive(fmt.Sprintf("[%s] divergence: primary from checkpoint: %v", s.cf.Name, err))
		return
	}
	pk := s.cli(s.pri)
	defer pk.close()
	// new, different txs; in sync mode they are acknowledged only if replicas follow, so they are issued with a short limit
	nNew := int(uint64(len(old)-1)-s.backupN) + 5
	done, unacked := 0, 0
	for i := 0; i < nNew && unacked < 2; i++ {
		acked := false
		err := pk.retry(func(ctx context.Context, c client.ImmuClient) error {
			cctx, cancel := context.WithTimeout(ctx, 3*time.Second)
			defer cancel()
			_, e := c.Set(cctx, []byte(fmt.Sprintf("fork-%d", i)), []byte("other history"))
			if e != nil && (strings.Contains(e.Error(), "deadline") || strings.Contains(e.Error(), "Deadline")) {
				return nil // not acknowledged: the replicas do not follow (sync mode)
			}
			acked = e == nil
			return e
		})
		if err == nil && acked {
			done++
		} else {
			unacked++
		}
	}
	// give the replicators time to meet the new primary: their state must stop changing
	type snap struct{ id, pre uint64 }
	lastChange := 0
	prev := map[string]snap{}
	for i := 0; i < 600 && i-lastChange < 60; i++ {
		for _, rp := range s.reps {
			k := s.cli(rp)
			if st, err := s.state(k); err == nil {
				cur := snap{st.TxId, st.PrecommittedTxId}
				if prev[rp.name] != cur {
					prev[rp.name] = cur
					lastChange = i
				}
			}
			k.close()
		}
		time.Sleep(50 * time.Millisecond)
	}
	ps, err := s.state(pk)
	if err != nil {
		return
	}
	newAlh := make([][32]byte, ps.TxId+1)
	for id := uint64(1); id <= ps.TxId; id++ {
		var tx *schema.Tx
		if err := pk.retry(func(ctx context.Context, c client.ImmuClient) (e error) { tx, e = c.TxByID(ctx, id); return }); err != nil {
			return
		}
		newAlh[id] = schema.TxHeaderFromProto(tx.Header).Alh()
	}
	for _, rp := range s.reps {
		k := s.cli(rp)
		rs, err := s.state(k)
		if err != nil {
			k.close()
			continue
		}
		isOld, isNew := true, true
		firstBad := uint64(0)
		for id := uint64(1); id <= rs.TxId; id++ {
			var tx *schema.Tx
			if err := k.retry(func(ctx context.Context, c client.ImmuClient) (e error) { tx, e = c.TxByID(ctx, id); return }); err != nil {
				isOld, isNew = false, false
				firstBad = id
				break
			}
			a := schema.TxHeaderFromProto(tx.Header).Alh()
			o := id < uint64(len(old)) && old[id] == a
			nw := id < uint64(len(newAlh)) && newAlh[id] == a
			isOld, isNew = isOld && o, isNew && nw
			if !o && !nw && firstBad == 0 {
				firstBad = id
			}
		}
		s.c.Eval(1)
		outcome := "kept-old-history"
		switch {
		case isNew && rs.TxId > s.backupN:
			outcome = "follows-new-history"
		case isOld:
		default:
			outcome = "mixture"
			s.viol("l3/divergence/replica-holds-a-mixture", fmt.Sprintf("the primary was put back to tx %d and continued differently (%d new txs acknowledged); %s now holds %d committed txs that are neither the old nor the new history (first tx of neither: %d)", s.backupN, done, rp.name, rs.TxId, firstBad))
		}
		if rs.TxId > ps.TxId && outcome == "follows-new-history" {
			s.viol("l3/replica-committed-ahead-of-primary", fmt.Sprintf("after divergence %s committed %d, primary %d", rp.name, rs.TxId, ps.TxId))
		}
		if debug {
			fmt.Fprintf(os.Stderr, "DIVERGENCE %s %s: outcome=%s replica committed=%d precommitted=%d backupN=%d oldN=%d newPrimary=%d/%d acked-new=%d\n", s.cf.Name, rp.name, outcome, rs.TxId, rs.PrecommittedTxId, s.backupN, len(old)-1, ps.TxId, ps.PrecommittedTxId, done)
			os.WriteFile("/var/tmp/c07-l3-div-"+s.cf.Name+"-"+rp.name+".txt", []byte(fmt.Sprintf("outcome=%s replica committed=%d precommitted=%d backupN=%d oldN=%d newPrimary=%d/%d acked-new=%d\n", outcome, rs.TxId, rs.PrecommittedTxId, s.backupN, len(old)-1, ps.TxId, ps.PrecommittedTxId, done)), 0o644)
		}
		s.c.Distinct(fmt.Sprintf("L3/%s/divergence/allowDiscarding=%v/%s", s.cf.mode(), s.cf.AllowDisc, outcome))
		s.count("divergence/" + outcome)
		k.close()
	}
}

func runL3(c *fw.Ctx, cf l3cfg) {
	tStart := time.Now()
	s := &l3run{c: c, cf: cf, root: c.Dir("l3"), keys: map[string]bool{}, seen: map[string]map[uint64][32]byte{}}
	os.MkdirAll(filepath.Join(s.root, "client-state"), 0o755)
	defer func() {
		s.quit.Store(true)
		for _, rp := range s.reps {
			rp.stop()
		}
		if s.pri != nil {
			s.pri.stop()
		}
	}()
	if err := s.startPrimary(); err != nil {
		c.Inconclusive(fmt.Sprintf("[%s] primary: %v", cf.Name, err))
		return
	}
	nNow := cf.SyncReps + cf.AsyncReps
	lateSync := false
	if cf.Late {
		nNow--
		lateSync = cf.AsyncReps == 0
	}
	var up sync.WaitGroup
	errs := make([]error, cf.SyncReps+cf.AsyncReps)
	for i := 0; i < cf.SyncReps+cf.AsyncReps; i++ {
		isSync := i < cf.SyncReps
		if cf.Late && ((lateSync && i == cf.SyncReps-1) || (!lateSync && i == cf.SyncReps+cf.AsyncReps-1)) {
			continue
		}
		k := len(s.reps)
		rp := &l3srv{name: fmt.Sprintf("replica%d", k), dir: filepath.Join(s.root, fmt.Sprintf("replica%d", k)), db: l3ReplicaDB, sync: isSync}
		s.reps = append(s.reps, rp)
		up.Add(1)
		go func() { defer up.Done(); errs[k] = s.bringUp(rp, k) }()
	}
	up.Wait()
	for _, err := range errs {
		if err != nil {
			c.Inconclusive(fmt.Sprintf("[%s] replica: %v", cf.Name, err))
			return
		}
	}
	_ = nNow
	pk := s.cli(s.pri)
	if err := pk.retry(func(ctx context.Context, cl client.ImmuClient) error {
		_, e := cl.SQLExec(ctx, "CREATE TABLE IF NOT EXISTS t(id INTEGER, g INTEGER, v VARCHAR[64], PRIMARY KEY id)", nil)
		return e
	}); err != nil {
		pk.close()
		if strings.Contains(err.Error(), "eadline") {
			c.Inconclusive(fmt.Sprintf("[%s] first commit did not return: %v", cf.Name, err))
		} else {
			s.viol("l3/first-commit-failed", err.Error())
		}
		return
	}
	pk.close()

	t0 := tStart
	phase := map[string]float64{}
	mark := func(name string) { phase[name] = time.Since(t0).Seconds() }
	mark("servers-up")
	r := fw.NewRand(c.Seed, "c07/"+cf.Name+"/driver")
	var cw, sw sync.WaitGroup
	var left atomic.Int64
	left.Store(int64(cf.NTx))
	var stopSampler atomic.Bool
	sw.Add(1)
	go s.sampler(&sw, &stopSampler)
	for g := 0; g < cf.Committers; g++ {
		cw.Add(1)
		go s.committer(g, &cw, &left)
	}
	finished := make(chan struct{})
	go func() { cw.Wait(); close(finished) }()
	// disturbances at PRNG progress points
	events := append([]string{}, cf.Disturb...)
	if cf.Late {
		events = append(events, "late-replica")
	}
	r.Shuffle(len(events), func(i, j int) { events[i], events[j] = events[j], events[i] })
	if cf.Diverge {
		// the checkpoint the primary is later put back to must lie well before the end of the history
		for i, ev := range events {
			if ev == "primary-checkpoint" {
				events[0], events[i] = events[i], events[0]
				break
			}
		}
	}
	for i, ev := range events {
		th := int64(cf.NTx) * int64(i+1) / int64(len(events)+1)
		for s.acks.Load() < th {
			select {
			case <-finished:
				th = 0
			default:
				time.Sleep(5 * time.Millisecond)
			}
		}
		if s.quit.Load() {
			break
		}
		if ev == "late-replica" {
			s.epoch.Add(1)
			if err := s.addReplica(lateSync); err != nil {
				c.Inconclusive(fmt.Sprintf("[%s] late replica: %v", cf.Name, err))
				s.quit.Store(true)
			}
			s.epoch.Add(1)
			s.count("disturbance/late-replica")
			c.Distinct(fmt.Sprintf("L3/%s/disturbance/late-replica/done", cf.mode()))
			continue
		}
		s.disturb(ev, r)
	}
	<-finished
	if s.quit.Load() {
		stopSampler.Store(true)
		sw.Wait()
		return
	}
	mark("workload-done")
	ok := s.settle("after the workload")
	mark("settled")
	stopSampler.Store(true)
	sw.Wait()
	if !ok {
		return
	}
	s.compare("after-workload")
	mark("compared")
	if cf.Diverge {
		// the old history, as the primary held it
		pk := s.cli(s.pri)
		if ps, err := s.state(pk); err == nil {
			old := make([][32]byte, ps.TxId+1)
			good := true
			for id := uint64(1); id <= ps.TxId && good; id++ {
				var tx *schema.Tx
				if err := pk.retry(func(ctx context.Context, cl client.ImmuClient) (e error) { tx, e = cl.TxByID(ctx, id); return }); err != nil {
					good = false
					break
				}
				old[id] = schema.TxHeaderFromProto(tx.Header).Alh()
			}
			pk.close()
			if good {
				s.divergence(old)
			}
		} else {
			pk.close()
		}
	}
	st := map[string]int64{}
	s.stats.Range(func(k, v any) bool { st[k.(string)] = v.(*atomic.Int64).Load(); return true })
	if debug {
		mark("end")
		b, _ := json.MarshalIndent(map[string]any{"config": cf.String(), "acks": s.acks.Load(), "events": st, "phase_s": phase}, "", " ")
		os.WriteFile("/var/tmp/c07-l3-sample-"+cf.Name+".json", b, 0o644)
	}
	c.Count("l3_acknowledged_commits", s.acks.Load())
	c.Sample(map[string]any{"level": "L3", "config": cf.String(), "acknowledged_commits": s.acks.Load(), "events": st})
}

func init() {
	fw.RegisterIsolated("c07-l3", func(c *fw.Ctx, data []byte) {
		var cf l3cfg
		if err := json.Unmarshal(data, &cf); err != nil {
			c.Inconclusive("bad case: " + err.Error())
			return
		}
		if debug {
			go func() {
				time.Sleep(120 * time.Second)
				buf := make([]byte, 1<<25)
				os.WriteFile("/var/tmp/c07-l3-stacks-"+cf.Name+".txt", buf[:runtime.Stack(buf, true)], 0o644)
			}()
		}
		runL3(c, cf)
	})
}

func runL3All(c *fw.Ctx) {
	c.Assume("L3 reads a replica's 'durably precommitted' state from the state it reports through the server API (PrecommittedTxId/hash); that this report is trustworthy is checked separately by the L1 durability probe with crash images")
	r := c.Rand("c07/l3/configs")
	n := c.N(6, 60)
	var cases [][]byte
	for i := 0; i < n; i++ {
		cf := genL3(r, i, c.N(160, 400))
		if v := os.Getenv("VERIF_C07_CASE"); v != "" && v != fmt.Sprint(i) {
			continue
		}
		b, _ := json.Marshal(cf)
		cases = append(cases, b)
	}
	cases = devLimit(cases)
	c.RunIsolated("c07-l3", cases, fw.CasesOpts{Workers: 6, CaseTimout: 20 * time.Minute})
}
