package c07

import (
	"bytes"
	"context"
	"encoding/json"
	"errors"
	"fmt"
	"math/rand/v2"
	"os"
	"runtime"
	"strings"
	"sync"
	"sync/atomic"
	"time"

	"github.com/codenotary/immudb/embedded/store"
	"github.com/codenotary/immudb/pkg/api/schema"
	"github.com/codenotary/immudb/pkg/database"

	"verifharness/internal/fw"
	"verifharness/internal/sth"
)

// L2: one pkg/database primary with synchronous replication (syncAcks = K) and M replica databases in one
// process. The harness is the network: it carries ExportTxByID requests (with the replica's state, fresh or stale),
// exported txs and commit allowances, with duplication, reordering, pauses and replica restarts from the PRNG.

type l2cfg struct {
	Name   string
	K, M   int
	Synced bool
	NTx    int
	Skip   bool
}

func (cf l2cfg) String() string {
	return fmt.Sprintf("syncAcks=%d replicas=%d synced=%v skipIntegrity=%v txs=%d", cf.K, cf.M, cf.Synced, cf.Skip, cf.NTx)
}

func genL2(r *rand.Rand, i int, ntx int) l2cfg {
	m := 1 + r.IntN(3)
	k := 1 + r.IntN(m)
	return l2cfg{Name: fmt.Sprintf("l2-%d", i), K: k, M: m, Synced: r.IntN(3) == 0, NTx: ntx, Skip: i%7 == 6}
}

type l2replica struct {
	mu    sync.Mutex // held across a restart and by readers of the replica's state
	db    database.DB
	uuid  string
	root  string
	opts  *database.Options
	acked map[uint64][32]byte // id -> alh of the header returned by ReplicateTx (durable precommit)
	amu   sync.Mutex
	// committed states sampled during the run, checked against the primary's chain at the end
	seen map[uint64][32]byte
}

type l2run struct {
	c    *fw.Ctx
	cf   l2cfg
	pri  database.DB
	reps []*l2replica

	pmu   sync.Mutex
	palh  map[uint64][32]byte // alh of every tx acknowledged by primary.Set
	acks  atomic.Int64
	stop  atomic.Bool
	inc   atomic.Int64
	stats sync.Map
}

func (s *l2run) viol(sig, detail string) {
	s.c.Violation(sig, fmt.Sprintf("[%s %s] %s", s.cf.Name, s.cf, detail), map[string][]byte{"config.txt": []byte(s.cf.String())})
}

func (s *l2run) count(k string) {
	v, _ := s.stats.LoadOrStore(k, new(atomic.Int64))
	v.(*atomic.Int64).Add(1)
}

func l2StoreOpts(synced bool) *store.Options {
	o := sth.SmallOpts().WithMaxConcurrency(16).WithMaxActiveTransactions(64).
		WithSynced(synced).WithSyncFrequency(2 * time.Millisecond).
		WithMaxTxEntries(8).WithMaxKeyLen(64).WithMaxValueLen(256).WithFileSize(1 << 16)
	o.WithIndexOptions(o.IndexOpts.WithCompactionThld(2).WithFlushThld(500).WithSyncThld(2000))
	return o
}

func toAlh(b []byte) (a [32]byte) { copy(a[:], b); return }

func (s *l2run) open() bool {
	proot := s.c.Dir("l2-primary")
	popts := database.DefaultOptions().WithDBRootPath(proot).WithStoreOptions(l2StoreOpts(s.cf.Synced)).
		AsReplica(false).WithSyncReplication(true).WithSyncAcks(s.cf.K)
	p, err := database.NewDB("db", nil, popts, sth.QuietLogger())
	if err != nil {
		s.c.Inconclusive("primary NewDB: " + err.Error())
		return false
	}
	s.pri = p
	for i := 0; i < s.cf.M; i++ {
		root := s.c.Dir(fmt.Sprintf("l2-replica%d", i))
		ropts := database.DefaultOptions().WithDBRootPath(root).WithStoreOptions(l2StoreOpts(s.cf.Synced && i%2 == 0)).
			AsReplica(true).WithSyncReplication(true)
		db, err := database.NewDB("db", nil, ropts, sth.QuietLogger())
		if err != nil {
			s.c.Inconclusive("replica NewDB: " + err.Error())
			return false
		}
		s.reps = append(s.reps, &l2replica{db: db, uuid: fmt.Sprintf("replica-%d", i), root: root, opts: ropts, acked: map[uint64][32]byte{}, seen: map[uint64][32]byte{}})
	}
	return true
}

// onAck is monitor M1: primary.Set returned for tx id with accumulated hash alh.
func (s *l2run) onAck(id uint64, alh [32]byte) {
	s.pmu.Lock()
	s.palh[id] = alh
	s.pmu.Unlock()
	holders := 0
	var desc []string
	for _, r := range s.reps {
		r.mu.Lock()
		st, err := r.db.CurrentState()
		r.mu.Unlock()
		if err != nil {
			desc = append(desc, r.uuid+": state unreadable")
			holders++ // cannot refute
			continue
		}
		r.amu.Lock()
		a, known := r.acked[id]
		r.amu.Unlock()
		holds := st.PrecommittedTxId >= id && (!known || a == alh) && (st.PrecommittedTxId != id || toAlh(st.PrecommittedTxHash) == alh)
		if holds {
			holders++
		}
		desc = append(desc, fmt.Sprintf("%s: durable precommitted %d/%x holds=%v", r.uuid, st.PrecommittedTxId, st.PrecommittedTxHash[:4], holds))
	}
	s.c.Eval(1)
	if holders < s.cf.K {
		s.viol("sync/primary-acknowledged-before-k-replicas-hold-the-tx", fmt.Sprintf("primary Set returned tx %d (alh %x) while only %d of the required %d replicas durably hold it: %s", id, alh[:6], holders, s.cf.K, strings.Join(desc, "; ")))
	}
	s.c.Distinct(fmt.Sprintf("L2/ack/k=%d/m=%d/holders=%d", s.cf.K, s.cf.M, holders))
	s.acks.Add(1)
}

// notAhead is monitor M2: the replica's committed id is read first, the primary's second.
func (s *l2run) notAhead(r *l2replica) {
	rst, err := r.db.CurrentState()
	if err != nil {
		return
	}
	pst, err := s.pri.CurrentState()
	if err != nil {
		return
	}
	s.c.Eval(1)
	if rst.TxId > pst.TxId {
		s.viol("sync/replica-committed-ahead-of-primary", fmt.Sprintf("%s committed %d while the primary (read afterwards) had committed %d", r.uuid, rst.TxId, pst.TxId))
	}
	if rst.TxId > 0 {
		r.amu.Lock()
		if old, ok := r.seen[rst.TxId]; ok && old != toAlh(rst.TxHash) {
			s.viol("sync/replica-committed-state-changed", fmt.Sprintf("%s reported two hashes for committed tx %d", r.uuid, rst.TxId))
		}
		r.seen[rst.TxId] = toAlh(rst.TxHash)
		r.amu.Unlock()
	}
}

func (s *l2run) committer(g int, wg *sync.WaitGroup, left *atomic.Int64) {
	defer wg.Done()
	r := fw.NewRand(s.c.Seed, fmt.Sprintf("c07/%s/committer%d", s.cf.Name, g))
	for left.Add(-1) >= 0 && !s.stop.Load() {
		n := 1 + r.IntN(3)
		var kvs []*schema.KeyValue
		for i := 0; i < n; i++ {
			v := make([]byte, []int{0, 3, 40, 200}[r.IntN(4)])
			for j := range v {
				v[j] = byte(r.IntN(256))
			}
			kvs = append(kvs, &schema.KeyValue{Key: []byte(fmt.Sprintf("k%d-%02d-%d", g, r.IntN(12), i)), Value: v})
		}
		ctx, cancel := context.WithTimeout(context.Background(), opTimeout)
		hdr, err := s.pri.Set(ctx, &schema.SetRequest{KVs: kvs})
		cancel()
		if err != nil {
			if isCtxErr(err) || strings.Contains(err.Error(), "context") {
				s.c.Inconclusive(fmt.Sprintf("[%s] primary Set did not return within %s (no commit allowance reached it)", s.cf.Name, opTimeout))
				s.inc.Add(1)
				s.stop.Store(true)
				return
			}
			s.count("set-error")
			s.c.Note(fmt.Sprintf("[%s] primary Set: %v", s.cf.Name, err))
			continue
		}
		s.onAck(hdr.Id, schema.TxHeaderFromProto(hdr).Alh())
	}
}

type l2msg struct {
	bs      []byte
	mayID   uint64
	mayAlh  [32]byte
	hasTx   bool
	pattern string
}

// a delivery that may have to wait for its predecessor (asked ahead, kept back): it runs beside the
// protocol rounds and is released by cancellation a few rounds later
type l2call struct {
	cancel context.CancelFunc
	done   chan struct{}
	age    int
}

// network drives one replica until told to stop.
func (s *l2run) network(ri int, wg *sync.WaitGroup, done *atomic.Bool) {
	defer wg.Done()
	rp := s.reps[ri]
	r := fw.NewRand(s.c.Seed, fmt.Sprintf("c07/%s/net%d", s.cf.Name, ri))
	var staleState *schema.ReplicaState
	var held []l2msg // messages kept back to be delivered later (reordering / duplication)
	idle := 0
	var async []*l2call
	reap := func(all bool) {
		keep := async[:0]
		for _, pc := range async {
			pc.age++
			if all || pc.age > 2 {
				pc.cancel()
				<-pc.done
			} else {
				keep = append(keep, pc)
			}
		}
		async = keep
	}
	defer reap(true)
	var deliver func(ctx context.Context, m l2msg)
	launch := func(m l2msg) {
		ctx, cancel := context.WithTimeout(context.Background(), opTimeout)
		pc := &l2call{cancel: cancel, done: make(chan struct{})}
		async = append(async, pc)
		m.mayID = 0 // allowances are delivered by the protocol rounds only
		go func() { defer close(pc.done); deliver(ctx, m) }()
	}
	deliver = func(ctx context.Context, m l2msg) {
		if m.mayID > 0 {
			st, _ := rp.db.CurrentState()
			if st != nil && m.mayID > st.TxId {
				err := rp.db.AllowCommitUpto(m.mayID, m.mayAlh)
				s.c.Eval(1)
				if err != nil {
					s.count("allow-error")
					if strings.Contains(err.Error(), "diverged") {
						s.viol("sync/replica-reports-divergence-on-honest-stream", fmt.Sprintf("%s AllowCommitUpto(%d, %x): %v", rp.uuid, m.mayID, m.mayAlh[:6], err))
					}
				}
			}
		}
		if m.hasTx {
			var hdr *schema.TxHeader
			var err error
			p, sig, text := fw.Guard(func() { hdr, err = rp.db.ReplicateTx(ctx, m.bs, s.cf.Skip, false) })
			s.c.Eval(1)
			cls := "ok"
			switch {
			case p:
				s.viol(panicSig(sig, text), "replica ReplicateTx panicked on an honest export: "+firstLine(text))
				return
			case err != nil:
				cls = errClass(err)
				if strings.Contains(err.Error(), "tx already committed") {
					cls = "already-committed"
				}
			default:
				sh := schema.TxHeaderFromProto(hdr)
				rp.amu.Lock()
				rp.acked[sh.ID] = sh.Alh()
				rp.amu.Unlock()
				st, _ := rp.db.CurrentState()
				if st != nil && st.PrecommittedTxId < sh.ID {
					s.viol("replicatetx/returned-before-durable-precommit", fmt.Sprintf("%s ReplicateTx of tx %d returned while the durable precommitted id was %d", rp.uuid, sh.ID, st.PrecommittedTxId))
				}
			}
			s.c.Distinct(fmt.Sprintf("L2/%s/honest/%s", m.pattern, cls))
			s.count(m.pattern + "/" + cls)
		}
	}
	for !done.Load() || idle < 3 {
		if s.stop.Load() {
			return
		}
		rp.mu.Lock()
		act := r.IntN(100)
		switch {
		case act < 1: // restart
			reap(true)
			if err := rp.db.Close(); err != nil {
				s.viol("replica/close-error", fmt.Sprintf("%s Close: %v", rp.uuid, err))
			}
			db, err := database.OpenDB("db", nil, rp.opts, sth.QuietLogger())
			if err != nil {
				s.viol("replica/reopen-failed", fmt.Sprintf("%s does not reopen: %v", rp.uuid, err))
				rp.mu.Unlock()
				s.stop.Store(true)
				return
			}
			rp.db = db
			held = nil
			s.c.Distinct("L2/replica-restart")
			s.count("restart")
		case act < 5: // the replica is unreachable for a while
			rp.mu.Unlock()
			time.Sleep(time.Duration(1+r.IntN(15)) * time.Millisecond)
			rp.mu.Lock()
			s.count("pause")
		case act < 22 && len(held) > 0: // late / duplicated delivery of a kept message
			k := r.IntN(len(held))
			m := held[k]
			if r.IntN(2) == 0 {
				held = append(held[:k], held[k+1:]...)
			}
			m.pattern = "late-or-duplicate"
			launch(m)
		default: // one protocol round
			st, err := rp.db.CurrentState()
			if err != nil {
				break
			}
			fresh := &schema.ReplicaState{UUID: rp.uuid, CommittedTxID: st.TxId, CommittedAlh: st.TxHash, PrecommittedTxID: st.PrecommittedTxId, PrecommittedAlh: st.PrecommittedTxHash}
			use := fresh
			pattern := "in-order"
			if staleState != nil && r.IntN(10) == 0 {
				use, pattern = staleState, "stale-state" // an old request arriving late
			}
			if r.IntN(4) == 0 {
				staleState = fresh
			}
			next := st.PrecommittedTxId + 1
			if pattern == "in-order" && r.IntN(12) == 0 {
				next += uint64(1 + r.IntN(2)) // asks ahead: out-of-order fetch
				pattern = "out-of-order"
			}
			ctx, cancel := context.WithTimeout(context.Background(), opTimeout)
			bs, mayID, mayAlh, err := s.pri.ExportTxByID(ctx, &schema.ExportTxRequest{Tx: next, AllowPreCommitted: true, SkipIntegrityCheck: s.cf.Skip, ReplicaState: use})
			cancel()
			s.c.Eval(1)
			if err != nil {
				s.count("export-error")
				if strings.Contains(err.Error(), "diverged") {
					s.viol("sync/primary-reports-divergence-on-honest-stream", fmt.Sprintf("ExportTxByID(tx %d, state of %s: committed %d precommitted %d, %s): %v", next, rp.uuid, use.CommittedTxID, use.PrecommittedTxID, pattern, err))
				}
				s.c.Distinct("L2/" + pattern + "/export-error")
				break
			}
			m := l2msg{bs: append([]byte(nil), bs...), mayID: mayID, mayAlh: mayAlh, hasTx: len(bs) > 0, pattern: pattern}
			if m.hasTx {
				idle = 0
			} else if done.Load() {
				idle++
			}
			if r.IntN(8) == 0 {
				m.mayID = 0 // the allowance got lost
			}
			dctx, dcancel := context.WithTimeout(context.Background(), opTimeout)
			switch k := r.IntN(10); {
			case pattern == "out-of-order":
				launch(m) // may wait for its predecessor
			case k == 0: // kept back, delivered later
				held = append(held, m)
			case k == 1: // delivered now and once more later
				deliver(dctx, m)
				held = append(held, m)
			case k == 2: // delivered twice concurrently
				launch(l2msg{bs: m.bs, hasTx: m.hasTx, pattern: "duplicate"})
				deliver(dctx, m)
			default:
				deliver(dctx, m)
			}
			dcancel()
			if len(held) > 6 {
				held = held[1:]
			}
		}
		reap(false)
		s.notAhead(rp)
		rp.mu.Unlock()
	}
}

func (s *l2run) finalCompare() {
	pst, err := s.pri.CurrentState()
	if err != nil {
		return
	}
	n := pst.TxId
	exports := map[uint64][]byte{}
	alhs := map[uint64][32]byte{}
	for id := uint64(1); id <= n; id++ {
		b, _, _, err := s.pri.ExportTxByID(context.Background(), &schema.ExportTxRequest{Tx: id})
		if err != nil {
			s.c.Inconclusive("primary export: " + err.Error())
			return
		}
		exports[id] = append([]byte(nil), b...)
		tx, err := s.pri.TxByID(context.Background(), &schema.TxRequest{Tx: id})
		if err == nil {
			alhs[id] = schema.TxHeaderFromProto(tx.Header).Alh()
		}
	}
	s.pmu.Lock()
	for id, a := range s.palh {
		if alhs[id] != a {
			s.viol("sync/primary-acknowledged-header-changed", fmt.Sprintf("tx %d acknowledged with alh %x, now %x", id, a[:6], alhs[id]))
		}
	}
	s.pmu.Unlock()
	for _, r := range s.reps {
		rst, err := r.db.CurrentState()
		s.c.Eval(1)
		if err != nil || rst.TxId != n || toAlh(rst.TxHash) != toAlh(pst.TxHash) {
			s.viol("sync/final-state-differs", fmt.Sprintf("%s final state %d/%x, primary %d/%x", r.uuid, rst.GetTxId(), rst.GetTxHash(), n, pst.TxHash))
			continue
		}
		for id := uint64(1); id <= n; id++ {
			b, _, _, err := r.db.ExportTxByID(context.Background(), &schema.ExportTxRequest{Tx: id})
			s.c.Eval(1)
			if err != nil || !bytes.Equal(b, exports[id]) {
				s.viol("sync/final-tx-differs", fmt.Sprintf("%s tx %d: export differs from the primary's (err %v)", r.uuid, id, err))
				break
			}
		}
		for id, a := range r.seen {
			if want, ok := alhs[id]; ok && want != a {
				s.viol("sync/replica-committed-diverged-tx", fmt.Sprintf("%s once reported committed tx %d with alh %x; the primary's is %x", r.uuid, id, a[:6], want[:6]))
			}
		}
	}
	s.c.Distinct(fmt.Sprintf("L2/final-equality/m=%d", s.cf.M))
}

// divergenceScenario: a replica holding a diverged precommitted tx must not be allowed to commit it, and the
// primary must notice the divergence from the replica's state (the "next step of the protocol").
func (s *l2run) divergenceScenario() {
	rp := s.reps[0]
	pst, _ := s.pri.CurrentState()
	rst, _ := rp.db.CurrentState()
	if pst == nil || rst == nil || rst.PrecommittedTxId != pst.TxId || rst.TxId != pst.TxId {
		return
	}
	id := pst.TxId + 1
	type setRes struct {
		hdr *schema.TxHeader
		err error
	}
	ch := make(chan setRes, 1)
	sctx, scancel := context.WithTimeout(context.Background(), opTimeout)
	defer scancel()
	go func() {
		h, err := s.pri.Set(sctx, &schema.SetRequest{KVs: []*schema.KeyValue{{Key: []byte("diverge"), Value: []byte("honest")}}})
		ch <- setRes{h, err}
	}()
	ctx, cancel := context.WithTimeout(context.Background(), opTimeout)
	defer cancel()
	if err := s.pri.WaitForTx(ctx, id, true); err != nil {
		s.c.Inconclusive("divergence scenario: primary precommit not reached: " + err.Error())
		return
	}
	bs, _, _, err := s.pri.ExportTxByID(ctx, &schema.ExportTxRequest{Tx: id, AllowPreCommitted: true, SkipIntegrityCheck: s.cf.Skip})
	if err != nil || len(bs) == 0 {
		s.c.Inconclusive(fmt.Sprintf("divergence scenario: export: %v", err))
		return
	}
	honest := append([]byte(nil), bs...)
	p, ok := parseExport(honest)
	if !ok {
		return
	}
	alt := clone(honest)
	f := p.field("ts")
	putBE(alt[f.Off:f.Off+8], be(alt[f.Off:f.Off+8])+77)
	hdr, err := rp.db.ReplicateTx(ctx, alt, s.cf.Skip, false)
	if err != nil {
		s.c.Distinct("L2/diverged/altered-ts-refused")
	} else {
		dalh := schema.TxHeaderFromProto(hdr).Alh()
		// step 1: the replica must refuse to commit its diverged tx against the primary's hash
		rcur, _ := rp.db.CurrentState()
		palh := s.primaryAlhOf(honest)
		aerr := rp.db.AllowCommitUpto(id, palh)
		after, _ := rp.db.CurrentState()
		s.c.Eval(1)
		if aerr == nil || after.TxId >= id {
			s.viol("sync/replica-committed-diverged-tx", fmt.Sprintf("%s holds tx %d with alh %x (primary's %x); AllowCommitUpto(%d, primary's alh) returned %v and the replica committed up to %d", rp.uuid, id, dalh[:6], palh[:6], id, aerr, after.TxId))
		}
		// step 2: the primary must notice from the replica's state
		_, _, _, eerr := s.pri.ExportTxByID(ctx, &schema.ExportTxRequest{Tx: id + 1, AllowPreCommitted: true, ReplicaState: &schema.ReplicaState{UUID: rp.uuid, CommittedTxID: rcur.TxId, CommittedAlh: rcur.TxHash, PrecommittedTxID: rcur.PrecommittedTxId, PrecommittedAlh: rcur.PrecommittedTxHash}})
		s.c.Eval(1)
		if rcur.PrecommittedTxId == id && (eerr == nil || !strings.Contains(eerr.Error(), "diverged")) {
			s.viol("sync/primary-does-not-notice-diverged-replica", fmt.Sprintf("replica state precommitted %d/%x differs from the primary's %x, ExportTxByID answered %v", rcur.PrecommittedTxId, rcur.PrecommittedTxHash[:6], palh[:6], eerr))
		}
		s.c.Distinct("L2/diverged/detected-by-next-step")
		// what TxReplicator does next (allowTxDiscarding): discard and fetch again
		if err := rp.db.DiscardPrecommittedTxsSince(id); err != nil {
			s.viol("sync/discard-diverged-failed", fmt.Sprintf("DiscardPrecommittedTxsSince(%d): %v", id, err))
		}
	}
	// honest delivery to every replica lets the primary commit
	for _, r := range s.reps {
		st, _ := r.db.CurrentState()
		if st == nil || st.PrecommittedTxId >= id {
			continue
		}
		if h, err := r.db.ReplicateTx(ctx, honest, s.cf.Skip, false); err == nil {
			sh := schema.TxHeaderFromProto(h)
			r.amu.Lock()
			r.acked[sh.ID] = sh.Alh()
			r.amu.Unlock()
		} else {
			s.viol("replicatetx/honest-next-export-refused/after-divergence-discarded", fmt.Sprintf("%s: honest tx %d after discarding the diverged one: %v", r.uuid, id, err))
		}
		st, _ = r.db.CurrentState()
		s.pri.ExportTxByID(ctx, &schema.ExportTxRequest{Tx: id + 1, AllowPreCommitted: true, ReplicaState: &schema.ReplicaState{UUID: r.uuid, CommittedTxID: st.TxId, CommittedAlh: st.TxHash, PrecommittedTxID: st.PrecommittedTxId, PrecommittedAlh: st.PrecommittedTxHash}})
	}
	select {
	case res := <-ch:
		if res.err == nil {
			s.onAck(res.hdr.Id, schema.TxHeaderFromProto(res.hdr).Alh())
		}
	case <-time.After(opTimeout):
		s.c.Inconclusive("divergence scenario: primary Set did not return")
		return
	}
	// let replicas commit it
	pst, _ = s.pri.CurrentState()
	for _, r := range s.reps {
		r.db.AllowCommitUpto(pst.TxId, toAlh(pst.TxHash))
	}
}

// primaryAlhOf computes the Alh of the header inside an honest export.
func (s *l2run) primaryAlhOf(export []byte) [32]byte {
	hdr := &store.TxHeader{}
	n := int(be(export[0:4]))
	if err := hdr.ReadFrom(export[4 : 4+n]); err != nil {
		return [32]byte{}
	}
	return hdr.Alh()
}

func runL2(c *fw.Ctx, cf l2cfg) {
	s := &l2run{c: c, cf: cf, palh: map[uint64][32]byte{}}
	if !s.open() {
		return
	}
	defer func() {
		s.pri.Close()
		for _, r := range s.reps {
			r.db.Close()
		}
	}()
	var cw, nw sync.WaitGroup
	var left atomic.Int64
	left.Store(int64(cf.NTx))
	var done atomic.Bool
	for i := range s.reps {
		nw.Add(1)
		go s.network(i, &nw, &done)
	}
	for g := 0; g < 3; g++ {
		cw.Add(1)
		go s.committer(g, &cw, &left)
	}
	cw.Wait()
	done.Store(true)
	nw.Wait()
	if s.stop.Load() {
		return
	}
	// drain: bring every replica to the primary's committed state with plain in-order rounds
	if !s.drain() {
		return
	}
	s.finalCompare()
	s.divergenceScenario()
	if s.drain() {
		s.finalCompare()
	}
	st := map[string]int64{}
	s.stats.Range(func(k, v any) bool { st[k.(string)] = v.(*atomic.Int64).Load(); return true })
	c.Sample(map[string]any{"level": "L2", "config": cf.String(), "acknowledged_commits": s.acks.Load(), "events": st})
}

// one L2 case: the network run, then the handshake scenario on fresh databases
func runL2Case(c *fw.Ctx, cf l2cfg) {
	runL2(c, cf)
	runHandshake(c, cf)
}

func (s *l2run) drain() bool {
	pst, _ := s.pri.CurrentState()
	for _, r := range s.reps {
		for round := 0; round < 10000; round++ {
			st, err := r.db.CurrentState()
			if err != nil {
				return false
			}
			if st.TxId >= pst.TxId {
				break
			}
			ctx, cancel := context.WithTimeout(context.Background(), opTimeout)
			bs, mayID, mayAlh, err := s.pri.ExportTxByID(ctx, &schema.ExportTxRequest{Tx: st.PrecommittedTxId + 1, AllowPreCommitted: true, SkipIntegrityCheck: s.cf.Skip,
				ReplicaState: &schema.ReplicaState{UUID: r.uuid, CommittedTxID: st.TxId, CommittedAlh: st.TxHash, PrecommittedTxID: st.PrecommittedTxId, PrecommittedAlh: st.PrecommittedTxHash}})
			if err != nil {
				cancel()
				s.viol("sync/drain-export-error", fmt.Sprintf("%s at %d/%d: %v", r.uuid, st.TxId, st.PrecommittedTxId, err))
				return false
			}
			if mayID > st.TxId {
				if err := r.db.AllowCommitUpto(mayID, mayAlh); err != nil {
					s.viol("sync/drain-allow-error", fmt.Sprintf("%s AllowCommitUpto(%d): %v", r.uuid, mayID, err))
					cancel()
					return false
				}
			}
			if len(bs) > 0 {
				if _, err := r.db.ReplicateTx(ctx, bs, s.cf.Skip, false); err != nil && !strings.Contains(err.Error(), "already committed") {
					s.viol("replicatetx/honest-next-export-refused/drain", fmt.Sprintf("%s: %v", r.uuid, err))
					cancel()
					return false
				}
			}
			cancel()
			s.notAhead(r)
		}
		st, _ := r.db.CurrentState()
		if st == nil || st.TxId < pst.TxId {
			s.c.Inconclusive(fmt.Sprintf("[%s] %s did not reach the primary's committed state", s.cf.Name, r.uuid))
			return false
		}
	}
	return true
}

func init() {
	fw.RegisterIsolated("c07-l2", func(c *fw.Ctx, data []byte) {
		var cf l2cfg
		if err := json.Unmarshal(data, &cf); err != nil {
			c.Inconclusive("bad case: " + err.Error())
			return
		}
		if debug {
			// development aid: dump all goroutines of a case that is still running after 40 s
			go func() {
				time.Sleep(40 * time.Second)
				buf := make([]byte, 1<<24)
				os.WriteFile("/var/tmp/c07-stacks.txt", buf[:runtime.Stack(buf, true)], 0o644)
			}()
		}
		runL2Case(c, cf)
	})
}

func runL2All(c *fw.Ctx) {
	r := c.Rand("c07/l2/configs")
	n := c.N(40, 800)
	var cases [][]byte
	for i := 0; i < n; i++ {
		cf := genL2(r, i, 60)
		if v := os.Getenv("VERIF_C07_CASE"); v != "" && v != fmt.Sprint(i) {
			continue
		}
		b, _ := json.Marshal(cf)
		cases = append(cases, b)
	}
	cases = devLimit(cases)
	c.RunIsolated("c07-l2", cases, fw.CasesOpts{Workers: 10, CaseTimout: 10 * time.Minute})
}

var _ = errors.Is
