package c07

import (
	"bytes"
	"context"
	"crypto/sha256"
	"encoding/json"
	"errors"
	"fmt"
	"math/rand/v2"
	"os"
	"runtime"
	"sort"
	"strings"
	"sync"
	"time"

	"github.com/codenotary/immudb/embedded/store"

	"verifharness/internal/fw"
	"verifharness/internal/hook"
	"verifharness/internal/ledger"
	"verifharness/internal/sth"
)

var debug = os.Getenv("VERIF_C07_DEBUG") != ""

// opTimeout is the generous limit of one store call; its firing is inconclusive, never a verdict.
const opTimeout = 60 * time.Second

type l1cfg struct {
	Name       string
	HdrVersion int
	PEmbedded  bool // primary stores values in the tx log
	REmbedded  bool // replica stores values in the tx log (independent of the primary)
	ExtAllow   bool // replica commits only on allowance (what a sync-replication replica does)
	RSynced    bool
	Skip       bool // skipIntegrityCheck on both ExportTx and ReplicateTx (what TxReplicator does with its option)
	Truncate   bool // primary truncates a prefix of its value log before exporting
	Fork       bool // a fork of the primary provides diverging txs that are precommitted, then discarded
	// TwinFork: the fork's txs have the shape of the primary's txs with the same ids (same keys and lengths, other
	// bytes), so that a replacement delivered after the discard leaves the later discarded txs intact and aligned
	// in the tx log; the replica is restarted right after the first replacement.
	TwinFork bool
	Window     int  // replica MaxActiveTransactions
	PFileSize  int
	RFileSize  int
	IOConc     int
	NTx        int
	NAlt       int
	// ZeroDiscard: a scratch replica precommits a few txs, discards all of them and takes tx 1 again. Kept apart
	// from the scheduled replica, whose chain would be lost to the stale-BlRoot finding.
	ZeroDiscard bool
}

func (cf l1cfg) String() string {
	return fmt.Sprintf("hdr=v%d pEmbedded=%v rEmbedded=%v extAllow=%v rSynced=%v skipIntegrity=%v truncate=%v fork=%v window=%d", cf.HdrVersion, cf.PEmbedded, cf.REmbedded, cf.ExtAllow, cf.RSynced, cf.Skip, cf.Truncate, cf.Fork, cf.Window)
}

func genL1(r *rand.Rand, i int, ntx, nalt int) l1cfg {
	cf := l1cfg{
		Name:        fmt.Sprintf("l1-%d", i),
		HdrVersion:  []int{1, 1, 0}[i%3],
		PEmbedded:   r.IntN(4) == 0,
		REmbedded:   r.IntN(4) == 0,
		ExtAllow:    i%2 == 0,
		RSynced:     r.IntN(4) == 0,
		ZeroDiscard: i%3 == 1,
		Skip:        i%5 == 3 || i%5 == 4,
		Window:      []int{2, 3, 5, 8, 16}[r.IntN(5)],
		PFileSize:   []int{512, 1024, 4096, 1 << 16}[r.IntN(4)],
		RFileSize:   []int{2048, 8192, 1 << 16}[r.IntN(3)],
		IOConc:      1 + r.IntN(3),
		NTx:         ntx,
		NAlt:        nalt,
	}
	cf.Truncate = !cf.PEmbedded && r.IntN(3) == 0
	if cf.Truncate {
		cf.PFileSize = []int{512, 1024}[r.IntN(2)]
	}
	cf.Fork = cf.ExtAllow && r.IntN(2) == 0
	cf.TwinFork = cf.Fork && i%4 < 2
	if cf.TwinFork && cf.Window < 3 {
		cf.Window = 3
	}
	if cf.PEmbedded || cf.REmbedded {
		cf.IOConc = 1
	}
	return cf
}

func baseOpts(ver int, embedded bool, fileSize int) *store.Options {
	o := sth.SmallOpts().
		WithEmbeddedValues(embedded).WithWriteTxHeaderVersion(ver).
		WithFileSize(fileSize).WithMaxConcurrency(24).
		WithMaxTxEntries(12).WithMaxKeyLen(48).WithMaxValueLen(600).
		WithVLogCacheSize(8).WithTxLogCacheSize(16)
	o.WithIndexOptions(o.IndexOpts.WithCompactionThld(2).WithFlushThld(500).WithSyncThld(2000))
	return o
}

func (cf l1cfg) primaryOpts() *store.Options {
	return baseOpts(cf.HdrVersion, cf.PEmbedded, cf.PFileSize).WithMaxIOConcurrency(cf.IOConc)
}

func (cf l1cfg) replicaOpts() *store.Options {
	io := cf.IOConc
	if cf.REmbedded {
		io = 1
	}
	return baseOpts(cf.HdrVersion, cf.REmbedded, cf.RFileSize).WithMaxIOConcurrency(io).
		WithMaxActiveTransactions(cf.Window).WithSynced(cf.RSynced).WithSyncFrequency(2 * time.Millisecond).
		WithExternalCommitAllowance(cf.ExtAllow)
}

// ---- primary history ----

func kvMD(r *rand.Rand, ver int) *store.KVMetadata {
	if ver == 0 || r.IntN(3) > 0 {
		return nil
	}
	md := store.NewKVMetadata()
	switch r.IntN(4) {
	case 0:
		md.AsDeleted(true)
	case 1:
		md.ExpiresAt(time.Date(2100, 1, 1, 0, 0, 0, 0, time.UTC))
	case 2:
		md.ExpiresAt(time.Date(2001, 1, 1, 0, 0, 0, 0, time.UTC))
	case 3:
		md.AsNonIndexable(true)
	}
	return md
}

func genValue(r *rand.Rand, tag string, nonEmpty bool) []byte {
	n := []int{0, 0, 1, 9, 40, 200, 500}[r.IntN(7)]
	if nonEmpty && n < 40 {
		n = 120
	}
	b := make([]byte, n)
	copy(b, tag)
	for i := len(tag); i < n; i++ {
		b[i] = byte(r.IntN(256))
	}
	return b
}

// commitRandomTx commits one generated tx; single=true gives one entry with a non-empty value
// (such a tx cannot become partially truncated, which ExportTx refuses by design).
func commitRandomTx(st *store.ImmuStore, r *rand.Rand, ver int, tag string, single bool, uniq *int) (*store.TxHeader, error) {
	n := 1 + r.IntN(6)
	if single {
		n = 1
	}
	seen := map[string]bool{}
	var kvs []sth.KV
	for len(kvs) < n {
		k := fmt.Sprintf("k%02d", r.IntN(24))
		if r.IntN(4) == 0 {
			*uniq++
			k = fmt.Sprintf("u%s-%d", tag, *uniq)
		}
		if seen[k] {
			continue
		}
		seen[k] = true
		kvs = append(kvs, sth.KV{K: []byte(k), V: genValue(r, tag+":", single), MD: kvMD(r, ver)})
	}
	if ver == 1 && r.IntN(4) == 0 {
		md := store.NewTxMetadata()
		switch r.IntN(3) {
		case 0:
			md.WithExtra([]byte(fmt.Sprintf("extra-%s-%d", tag, r.IntN(1000))))
		case 1:
			md.WithTruncatedTxID(1 + r.Uint64N(5))
		default:
			md.WithExtra([]byte{byte(r.IntN(256))})
			md.WithTruncatedTxID(1 + r.Uint64N(1000))
		}
		return sth.CommitMD(st, md, kvs...)
	}
	return sth.Commit(st, kvs...)
}

// ---- the schedule ----

type l1run struct {
	c   *fw.Ctx
	cf  l1cfg
	r   *rand.Rand
	pri *store.ImmuStore
	rep *store.ImmuStore

	pdir, rdir string
	n          uint64            // primary history length
	exports    map[uint64][]byte // honest exports of the primary
	hdrs       map[uint64][]byte // primary header bytes
	alhs       [][32]byte        // alhs[i] = Alh(tx i+1)
	truncated  map[uint64]bool   // ids exported without values
	forkAt     uint64            // ids > forkAt differ between the primary and its fork (0: no fork)
	forkExp    map[uint64][]byte
	forkAlh    map[uint64][32]byte

	restarted   map[uint64]bool              // ids that were in flight / undelivered at the last restart
	discarded   map[uint64]bool              // ids discarded on the replica and to be delivered again
	dropped     map[uint64]map[[32]byte]bool // alhs of diverged txs discarded on the replica (a reopen may reload them: documented)
	forkLive    bool                         // the fork's txs are precommitted on the replica and not yet discarded
	lastDiscard uint64                       // first id of the latest discard: the tx log holds discarded bytes until this id is committed
	altLeft     int
	limit       uint64   // deliveries of this step stop here (the fork point until the fork scenario has run)
	trail       []string // the last steps of the schedule (diagnosis only)
	dead        bool     // schedule abandoned (watchdog / replica cannot be repaired)
	stats       map[string]int
}

func (s *l1run) viol(sig, detail string, files map[string][]byte) {
	if files == nil {
		files = map[string][]byte{}
	}
	files["config.txt"] = []byte(s.cf.String())
	s.c.Violation(sig, fmt.Sprintf("[%s %s] %s", s.cf.Name, s.cf, detail), files)
}

func (s *l1run) noteDropped(id uint64, alh [32]byte) {
	if s.dropped[id] == nil {
		s.dropped[id] = map[[32]byte]bool{}
	}
	s.dropped[id][alh] = true
}

// discardSince wraps DiscardPrecommittedTxsSince and remembers that the tx log now holds discarded bytes.
func (s *l1run) discardSince(from uint64) (int, error) {
	n, err := s.rep.DiscardPrecommittedTxsSince(from)
	if err == nil && n > 0 {
		s.lastDiscard = from
	}
	return n, err
}

func (s *l1run) alh(id uint64) [32]byte {
	if id == 0 {
		return sha256.Sum256(nil) // the Alh of the empty store
	}
	if s.forkLive {
		if a, ok := s.forkAlh[id]; ok {
			return a // the fork's continuation is what the replica legitimately holds right now
		}
	}
	return s.alhs[id-1]
}

type rstate struct {
	pre, dur, com          uint64
	preAlh, durAlh, comAlh [32]byte
}

// state reads the replica's frontier. The in-memory precommitted Alh is read back from the tx header.
func (s *l1run) state() rstate {
	var x rstate
	x.com, x.comAlh = s.rep.CommittedAlh()
	x.dur, x.durAlh = s.rep.PrecommittedAlh()
	x.pre = s.rep.LastPrecommittedTxID()
	if x.pre == x.com {
		x.preAlh = x.comAlh
	} else if x.pre == x.dur {
		x.preAlh = x.durAlh
	} else if h, err := s.rep.ReadTxHeader(x.pre, true, false); err == nil {
		x.preAlh = h.Alh()
	}
	return x
}

// sameFrontier: b shows no effect of a call made at a. The precommitted frontier must be untouched; the committed
// one may have caught up with it in the background (a synced store commits at its next sync).
func sameFrontier(a, b rstate) bool {
	if a.pre != b.pre || a.preAlh != b.preAlh {
		return false
	}
	if a.com == b.com {
		return a.comAlh == b.comAlh
	}
	return b.com > a.com && b.com <= b.pre && (b.com != b.pre || b.comAlh == b.preAlh)
}

func (x rstate) String() string {
	return fmt.Sprintf("precommitted=%d/%x committed=%d/%x", x.pre, x.preAlh[:4], x.com, x.comAlh[:4])
}

func (s *l1run) buildPrimary() bool {
	cf := s.cf
	p, err := store.Open(s.pdir, cf.primaryOpts())
	if err != nil {
		s.c.Inconclusive("open primary: " + err.Error())
		return false
	}
	s.pri = p
	uniq := 0
	ntrunc := 0
	if cf.Truncate {
		ntrunc = cf.NTx / 3
	}
	forkAt := 0
	if cf.Fork {
		forkAt = cf.NTx/2 + s.r.IntN(cf.NTx/3)
	}
	twinRand := func(k int) *rand.Rand { return fw.NewRand(s.c.Seed, fmt.Sprintf("c07/l1/%s/twin-fork/%d", cf.Name, k)) }
	twinUniq, nTwins := 0, 0
	commitWith := func(st *store.ImmuStore, r *rand.Rand, u *int, i int, tag string) bool {
		if _, err := commitRandomTx(st, r, cf.HdrVersion, tag, i < ntrunc, u); err != nil {
			s.c.Inconclusive("primary commit: " + err.Error())
			return false
		}
		return true
	}
	commit := func(st *store.ImmuStore, i int, tag string) bool {
		if cf.TwinFork && tag == "p" && i >= forkAt && i < forkAt+nTwins {
			// the primary's tx with the id of a fork tx: same PRNG stream, same counter, other tag
			u := twinUniq + 1000*(i-forkAt)
			return commitWith(st, twinRand(i-forkAt), &u, cf.NTx, tag)
		}
		if _, err := commitRandomTx(st, s.r, cf.HdrVersion, tag, i < ntrunc, &uniq); err != nil {
			s.c.Inconclusive("primary commit: " + err.Error())
			return false
		}
		return true
	}
	for i := 0; i < cf.NTx; i++ {
		if cf.Fork && i == forkAt {
			// fork: a copy of the primary at this point commits its own continuation
			if err := p.Close(); err != nil {
				s.c.Inconclusive("close primary: " + err.Error())
				return false
			}
			fdir := s.c.Dir("fork")
			defer os.RemoveAll(fdir)
			if err := sth.CopyDir(s.pdir, fdir); err != nil {
				s.c.Inconclusive("copy: " + err.Error())
				return false
			}
			f, err := store.Open(fdir, cf.primaryOpts())
			if err != nil {
				s.c.Inconclusive("open fork: " + err.Error())
				return false
			}
			nf := 1 + s.r.IntN(min(3, cf.Window-1))
			if cf.TwinFork {
				nf = max(nf, 2)
				twinUniq, nTwins = uniq+100000, nf
			}
			tx := store.NewTx(12, 48)
			for k := 0; k < nf; k++ {
				ok := false
				if cf.TwinFork {
					u := twinUniq + 1000*k
					ok = commitWith(f, twinRand(k), &u, cf.NTx, "f")
				} else {
					ok = commit(f, cf.NTx, "f")
				}
				if !ok {
					f.Close()
					return false
				}
				id := uint64(forkAt + k + 1)
				b, err := f.ExportTx(id, false, cf.Skip, tx)
				if err != nil {
					s.c.Inconclusive("fork export: " + err.Error())
					f.Close()
					return false
				}
				s.forkExp[id] = clone(b)
				h, _ := f.ReadTxHeader(id, false, false)
				s.forkAlh[id] = h.Alh()
			}
			f.Close()
			s.forkAt = uint64(forkAt)
			if p, err = store.Open(s.pdir, cf.primaryOpts()); err != nil {
				s.c.Inconclusive("reopen primary: " + err.Error())
				return false
			}
			s.pri = p
		}
		if !commit(p, i, "p") {
			return false
		}
	}
	s.n = p.LastCommittedTxID()
	if cf.Truncate {
		cut := uint64(2 + s.r.IntN(ntrunc-1))
		if err := p.TruncateUptoTx(cut); err != nil {
			s.c.Note(fmt.Sprintf("TruncateUptoTx(%d): %v", cut, err))
		}
	}
	tx := store.NewTx(12, 48)
	for id := uint64(1); id <= s.n; id++ {
		h, err := p.ReadTxHeader(id, false, false)
		if err != nil {
			s.viol("primary/readtxheader-error", fmt.Sprintf("ReadTxHeader(%d) on the primary: %v", id, err), nil)
			return false
		}
		hb, _ := h.Bytes()
		s.hdrs[id] = hb
		s.alhs = append(s.alhs, h.Alh())
		b, err := p.ExportTx(id, false, cf.Skip, tx)
		if err != nil {
			// a tx the primary cannot export ends the stream there (export liveness/partial truncation belong to C14)
			s.c.Count("l1_primary_export_errors", 1)
			s.c.Note(fmt.Sprintf("[%s] ExportTx(%d) failed on the primary, stream cut there: %v", cf.Name, id, err))
			s.n = id - 1
			s.alhs = s.alhs[:s.n]
			break
		}
		s.exports[id] = clone(b)
		if pp, ok := parseExport(b); !ok {
			s.viol("exporttx/layout", fmt.Sprintf("ExportTx(%d) does not follow the documented layout", id), map[string][]byte{"export.bin": b})
			return false
		} else if f := pp.field("truncFlag"); f != nil && b[f.Off] == 1 {
			s.truncated[id] = true
		}
	}
	// reference delivery: every honest export, alone and in order, into a scratch replica. This is the plainest
	// schedule; what it shows is reported once here and the stream is cut there, so that the scheduled run
	// attributes its own observations correctly.
	ddir := s.c.Dir("dry")
	defer os.RemoveAll(ddir)
	if dry, err := store.Open(ddir, cf.replicaOpts().WithExternalCommitAllowance(false).WithSynced(false)); err == nil {
		for id := uint64(1); id <= s.n; id++ {
			var hdr *store.TxHeader
			var rerr error
			p, sig, text := fw.Guard(func() { hdr, rerr = dry.ReplicateTx(context.Background(), s.exports[id], cf.Skip, false) })
			s.c.Eval(1)
			kind := "plain"
			if s.truncated[id] {
				kind = "truncated"
			}
			if p {
				s.viol(panicSig(sig, text), fmt.Sprintf("ReplicateTx panicked on the honest export of tx %d: %s", id, firstLine(text)), map[string][]byte{"export.bin": s.exports[id], "panic.txt": []byte(text)})
			} else if rerr != nil {
				s.viol(fmt.Sprintf("replicatetx/honest-export-refused/in-order-alone/%s/skip=%v", kind, cf.Skip), fmt.Sprintf("honest export of tx %d (%s values), delivered alone and in order to a fresh replica, was refused: %v", id, kind, rerr), map[string][]byte{"export.bin": s.exports[id]})
			} else if hdr.Alh() != s.alhs[id-1] {
				s.viol(fmt.Sprintf("replicatetx/honest-export-diverges/%s/skip=%v", kind, cf.Skip), fmt.Sprintf("honest export of tx %d (%s values, exported and replicated with skipIntegrityCheck=%v), delivered alone and in order, gives alh %x on the replica; the primary's is %x", id, kind, cf.Skip, hdr.Alh(), s.alhs[id-1]), map[string][]byte{"export.bin": s.exports[id]})
			} else {
				continue
			}
			s.n = id - 1
			s.alhs = s.alhs[:s.n]
			break
		}
		dry.Close()
	}
	if cf.ZeroDiscard && s.n >= 3 {
		s.zeroDiscardScenario()
	}
	if s.n >= 12 {
		s.durabilityProbe()
	}
	if s.forkAt >= s.n {
		s.forkAt = 0
	}
	s.c.Count("l1_truncated_exports", int64(len(s.truncated)))
	return s.n >= 4
}

// zeroDiscardScenario (scratch replica): txs 1..k precommitted, all of them discarded, tx 1 replicated again.
func (s *l1run) zeroDiscardScenario() {
	dir := s.c.Dir("zero")
	defer os.RemoveAll(dir)
	st, err := store.Open(dir, s.cf.replicaOpts().WithExternalCommitAllowance(true).WithSynced(false).WithMaxActiveTransactions(8))
	if err != nil {
		return
	}
	defer st.Close()
	ctx, cancel := context.WithTimeout(context.Background(), opTimeout)
	defer cancel()
	k := uint64(2 + s.r.IntN(2))
	for id := uint64(1); id <= k; id++ {
		if _, err := st.ReplicateTx(ctx, s.exports[id], s.cf.Skip, false); err != nil {
			return
		}
	}
	if n, err := st.DiscardPrecommittedTxsSince(1); err != nil || uint64(n) != k {
		s.viol("discard/frontier", fmt.Sprintf("DiscardPrecommittedTxsSince(1) with %d precommitted txs returned (%d, %v)", k, n, err), nil)
		return
	}
	hdr, err := st.ReplicateTx(ctx, s.exports[1], s.cf.Skip, false)
	s.c.Eval(1)
	s.c.Distinct("L1/after-discard-of-everything/honest/" + errClass(err))
	switch {
	case err != nil:
		s.viol("replicatetx/honest-next-export-refused/"+errClass(err), fmt.Sprintf("tx 1 offered after every precommitted tx was discarded: %v", err), nil)
	case hdr.Alh() != s.alhs[0] && hdr.BlTxID == 0 && hdr.BlRoot != ([32]byte{}):
		s.viol("replicatetx/first-tx-after-discard/stale-blroot", fmt.Sprintf("txs 1..%d precommitted, all discarded, then the honest export of tx 1 (BlTxID 0, BlRoot zero) was stored with BlRoot %x (left in the pooled tx holder by an earlier precommit): alh %x, the primary's is %x", k, hdr.BlRoot[:6], hdr.Alh(), s.alhs[0]), map[string][]byte{"export.bin": s.exports[1]})
	case hdr.Alh() != s.alhs[0]:
		s.viol("replicatetx/honest/header-differs", fmt.Sprintf("tx 1 replicated after discarding everything has alh %x, the primary's is %x", hdr.Alh(), s.alhs[0]), nil)
	}
}

// durabilityProbe does not trust the replica's own report of what it durably holds. A scratch replica (synced,
// external commit allowance, values in value logs, a sync frequency so long that durability comes only from
// explicit Sync calls, buffers large enough not to spill) gets groups of ReplicateTx calls in flight; at PRNG
// moments PrecommittedAlh() -- the pair a sync-replication replica reports to its primary -- is sampled and a
// crash image is taken right after (a plain copy of the files: what a process kill leaves, write buffers excluded).
// The image, opened with the same options, must hold the reported id with the reported Alh as a precommitted or
// committed tx. Everything written before the sample is in a copy made after it, so a missing tx refutes the report.
func (s *l1run) durabilityProbe() {
	opts := baseOpts(s.cf.HdrVersion, false, 1<<20).WithMaxIOConcurrency(1).WithWriteBufferSize(1 << 20).
		WithMaxActiveTransactions(64).WithSynced(true).WithSyncFrequency(10 * time.Minute).
		WithExternalCommitAllowance(true)
	dir := s.c.Dir("durable")
	defer os.RemoveAll(dir)
	st, err := store.Open(dir, opts)
	if err != nil {
		s.c.Inconclusive("durability probe: open: " + err.Error())
		return
	}
	defer st.Close()
	ctx, cancel := context.WithTimeout(context.Background(), opTimeout)
	defer cancel()
	var wg sync.WaitGroup
	defer wg.Wait()
	defer cancel()
	next := uint64(1)
	limit := min(s.n, 40)
	waitInmem := func(id uint64) bool {
		for i := 0; i < 600000 && ctx.Err() == nil; i++ {
			if st.LastPrecommittedTxID() >= id {
				return true
			}
			time.Sleep(100 * time.Microsecond)
		}
		s.c.Inconclusive(fmt.Sprintf("[%s] durability probe: tx %d not precommitted in memory within %s", s.cf.Name, id, opTimeout))
		return false
	}
	launch := func(k uint64) bool { // k more txs in flight; their calls return only after a Sync
		for i := uint64(0); i < k && next <= limit; i++ {
			id := next
			next++
			wg.Add(1)
			go func() {
				defer wg.Done()
				hdr, err := st.ReplicateTx(ctx, s.exports[id], s.cf.Skip, false)
				if err == nil {
					if d, _ := st.PrecommittedAlh(); d < hdr.ID {
						s.viol("replicatetx/returned-before-durable-precommit", fmt.Sprintf("durability probe: ReplicateTx of tx %d returned while the reported durable precommitted id was %d", hdr.ID, d), nil)
					}
				}
			}()
			if !waitInmem(id) { // in order: each one is in memory before the next is offered
				return false
			}
		}
		return true
	}
	nimg := 0
	sample := func(moment string) {
		id, alh := st.PrecommittedAlh()
		cid, _ := st.CommittedAlh()
		inmem := st.LastPrecommittedTxID()
		if id == 0 {
			return
		}
		shape := "durable=inmem"
		switch {
		case cid < id && id < inmem:
			shape = "committed<durable<inmem"
		case cid == id && id < inmem:
			shape = "committed=durable<inmem"
		case cid < id:
			shape = "committed<durable=inmem"
		}
		img := s.c.Dir("image")
		defer os.RemoveAll(img)
		if err := sth.CopyDir(dir, img); err != nil {
			s.c.Inconclusive("durability probe: copy: " + err.Error())
			return
		}
		cs, err := store.Open(img, opts)
		if err != nil {
			// whether every crash image opens is C03's subject; here it only means the sample could not be judged
			s.c.Count("l1_probe_image_open_errors", 1)
			s.c.Note(fmt.Sprintf("[%s] durability probe: crash image does not open: %v", s.cf.Name, err))
			return
		}
		defer cs.Close()
		nimg++
		s.c.Eval(1)
		s.c.Count("l1_probe_crash_images", 1)
		s.c.Distinct(fmt.Sprintf("L1/durability-probe/%s/%s", moment, shape))
		h, err := cs.ReadTxHeader(id, true, false)
		if err != nil || h.Alh() != alh {
			have := cs.LastPrecommittedTxID()
			s.viol("sync/replica-acknowledged-tx-not-durable", fmt.Sprintf("replica reported PrecommittedAlh() = (%d, %x) with committed=%d and in-memory precommitted=%d (%s, sampled %s); a crash image taken afterwards holds txs up to %d only (ReadTxHeader(%d): %v): the reported tx existed in write buffers only, a primary counting this replica would acknowledge a commit the replica loses in a crash",
				id, alh[:6], cid, inmem, shape, moment, have, id, err), nil)
		}
		if h2, err := cs.ReadTxHeader(id, true, false); err == nil && id <= s.n && h2.Alh() != s.alhs[id-1] {
			s.viol("sync/replica-durable-tx-differs", fmt.Sprintf("crash image: tx %d has alh %x, the primary's is %x", id, h2.Alh(), s.alhs[id-1]), nil)
		}
	}
	for round := 0; round < 4 && next <= limit && ctx.Err() == nil; round++ {
		if !launch(1 + s.r.Uint64N(3)) {
			return
		}
		if s.r.IntN(3) == 0 {
			sample("group-in-flight")
		}
		if err := st.Sync(); err != nil {
			s.c.Inconclusive("durability probe: Sync: " + err.Error())
			return
		}
		// some of the now durable txs stay uncommitted: committed < durable
		if d, _ := st.PrecommittedAlh(); d > 1 && s.r.IntN(3) > 0 {
			c0, _ := st.CommittedAlh()
			if up := c0 + s.r.Uint64N(d-c0); up > c0 {
				st.AllowCommitUpto(up)
				st.Sync() // a synced store commits the allowed ones at a sync
			}
		}
		if s.r.IntN(2) == 0 {
			sample("after-sync")
		}
		// the next group is in memory only, behind durable and uncommitted ones
		if !launch(1 + s.r.Uint64N(3)) {
			return
		}
		sample("next-group-in-flight")
	}
	st.Sync()
}

func (s *l1run) openReplica() bool {
	st, err := store.Open(s.rdir, s.cf.replicaOpts())
	if err != nil {
		s.viol("replica/open-failed", fmt.Sprintf("replica store does not open: %v", err), nil)
		s.dead = true
		return false
	}
	s.rep = st
	return true
}

type callRes struct {
	id      uint64
	seq     int // launch position
	hdr     *store.TxHeader
	err     error
	panicS  string
	panicT  string
	durable uint64 // durable precommitted id read right after the call returned
}

// replicate runs one ReplicateTx under Guard.
func (s *l1run) replicate(ctx context.Context, b []byte) callRes {
	var res callRes
	p, sig, text := fw.Guard(func() {
		res.hdr, res.err = s.rep.ReplicateTx(ctx, b, s.cf.Skip, false)
	})
	if p {
		res.panicS, res.panicT = panicSig(sig, text), text
		res.err = errors.New("panic")
	}
	if res.err == nil {
		res.durable, _ = s.rep.PrecommittedAlh()
	}
	return res
}

// panicSig names the first immudb frame of a panic text: "store.(*ImmuStore).ReplicateTx/index-out-of-range".
func panicSig(fwSig, text string) string {
	kind := fwSig[strings.LastIndexByte(fwSig, '/')+1:]
	for _, ln := range strings.Split(text, "\n") {
		const pfx = "github.com/codenotary/immudb/"
		if !strings.HasPrefix(ln, pfx) || strings.Contains(ln, "/verifhook") {
			continue
		}
		name := strings.TrimPrefix(ln, pfx)
		if i := strings.LastIndexByte(name, '('); i > 0 {
			name = name[:i]
		}
		if i := strings.LastIndexByte(name, '/'); i >= 0 {
			name = name[i+1:]
		}
		return name + "/" + kind
	}
	return fwSig
}

func isCtxErr(err error) bool {
	return errors.Is(err, context.Canceled) || errors.Is(err, context.DeadlineExceeded)
}

func benign(err error) bool {
	return errors.Is(err, store.ErrTxAlreadyCommitted) || errors.Is(err, store.ErrMaxActiveTransactionsLimitExceeded) ||
		errors.Is(err, context.Canceled) || errors.Is(err, context.DeadlineExceeded) || errors.Is(err, store.ErrAlreadyClosed)
}

func errClass(err error) string {
	switch {
	case err == nil:
		return "ok"
	case errors.Is(err, store.ErrTxAlreadyCommitted):
		return "already-committed"
	case errors.Is(err, store.ErrMaxActiveTransactionsLimitExceeded):
		return "refused-window"
	case errors.Is(err, context.Canceled), errors.Is(err, context.DeadlineExceeded):
		return "waited-until-cancelled"
	case errors.Is(err, store.ErrAlreadyClosed):
		return "closed"
	case strings.Contains(err.Error(), "prevAlh"):
		return "refused-prevalh"
	case strings.Contains(err.Error(), "blRoot"):
		return "refused-blroot"
	case strings.Contains(err.Error(), "Eh"):
		return "refused-eh"
	case strings.Contains(err.Error(), "wrong order"):
		return "refused-order"
	case errors.Is(err, store.ErrIllegalArguments):
		return "refused-illegal-arguments"
	case errors.Is(err, store.ErrCorruptedData):
		return "refused-corrupted"
	}
	return "refused-other"
}

// checkAccepted judges a ReplicateTx that returned a header for an honest export of tx id.
func (s *l1run) checkAccepted(res callRes, pattern string) {
	s.c.Eval(1)
	hb, _ := res.hdr.Bytes()
	if res.hdr.ID == res.id && res.hdr.BlTxID == 0 && res.hdr.BlRoot != ([32]byte{}) && res.hdr.Alh() != s.alh(res.id) {
		s.viol("replicatetx/first-tx-after-discard/stale-blroot", fmt.Sprintf("the honest export of tx %d (BlTxID 0, BlRoot zero), replicated after every precommitted tx was discarded, was stored with BlRoot %x (left in the pooled tx holder by an earlier precommit): alh %x, the primary's is %x", res.id, res.hdr.BlRoot[:6], res.hdr.Alh(), s.alh(res.id)), map[string][]byte{"export.bin": s.exports[res.id]})
		s.dead = true // the replica's chain is not the primary's from here on
		return
	}
	if res.hdr.ID != res.id || res.hdr.Alh() != s.alh(res.id) || !bytes.Equal(hb, s.hdrs[res.id]) {
		s.dead = true
		s.viol("replicatetx/honest/header-differs", fmt.Sprintf("ReplicateTx(%s) of the honest export of tx %d returned header id=%d alh=%x; the primary's alh is %x", pattern, res.id, res.hdr.ID, res.hdr.Alh(), s.alh(res.id)), map[string][]byte{"export.bin": s.exports[res.id]})
	}
	if res.durable < res.id {
		s.viol("replicatetx/returned-before-durable-precommit", fmt.Sprintf("ReplicateTx of tx %d returned while the durable precommitted id was %d", res.id, res.durable), nil)
	}
}

// makeRoom keeps the precommitted-but-uncommitted backlog below the window: the precommit buffer is sized by
// MaxActiveTransactions and a synced store refuses to precommit beyond committed+MaxActiveTransactions.
func (s *l1run) makeRoom(k uint64) uint64 {
	st := s.state()
	W := uint64(s.cf.Window)
	if s.cf.ExtAllow && st.pre-st.com+k >= W && st.pre > st.com && !s.forkLive {
		s.allow(st.pre)
		st = s.state()
	}
	if !s.cf.ExtAllow && st.com < st.pre {
		ctx, cancel := context.WithTimeout(context.Background(), opTimeout)
		s.rep.WaitForTx(ctx, st.pre, false)
		cancel()
		st = s.state()
	}
	if W-1 > st.pre-st.com {
		return W - 1 - (st.pre - st.com)
	}
	return 1
}

// deliverBatch offers a set of honest exports concurrently. ids beyond a gap are expected to wait and are cancelled.
func (s *l1run) deliverBatch(limit uint64) {
	W := uint64(s.cf.Window)
	room := s.makeRoom(1 + s.r.Uint64N(W))
	before := s.state()
	pre := before.pre
	span := 1 + s.r.Uint64N(W)
	if s.cf.ExtAllow && span > room {
		span = room
	}
	hi := min(pre+span, limit)
	if hi <= pre {
		return
	}
	var ids []uint64
	for id := pre + 1; id <= hi; id++ {
		ids = append(ids, id)
	}
	gap := uint64(0)
	if len(ids) > 2 && s.r.IntN(5) == 0 {
		k := 1 + s.r.IntN(len(ids)-2)
		gap = ids[k]
		ids = append(ids[:k:k], ids[k+1:]...)
	}
	dup := map[uint64]bool{}
	if s.r.IntN(3) == 0 {
		for k := 0; k < 1+s.r.IntN(2); k++ {
			d := ids[s.r.IntN(len(ids))]
			dup[d] = true
			ids = append(ids, d)
		}
	}
	order := s.r.IntN(3) // 0 in order, 1 reversed, 2 shuffled
	switch order {
	case 1:
		sort.Slice(ids, func(i, j int) bool { return ids[i] > ids[j] })
	case 2:
		s.r.Shuffle(len(ids), func(i, j int) { ids[i], ids[j] = ids[j], ids[i] })
	}
	expect := hi
	if gap > 0 {
		expect = gap - 1
	}
	ctx, cancel := context.WithTimeout(context.Background(), opTimeout)
	defer cancel()
	out := make(chan callRes, len(ids))
	var wg sync.WaitGroup
	for seq, id := range ids {
		wg.Add(1)
		go func(seq int, id uint64) {
			defer wg.Done()
			res := s.replicate(ctx, s.exports[id])
			res.id, res.seq = id, seq
			out <- res
		}(seq, id)
		if s.r.IntN(2) == 0 {
			runtime.Gosched()
		}
	}
	// collect until every call of the contiguous part has returned, then release the waiters behind the gap
	var results []callRes
	pendingOf := map[uint64]int{}
	for _, id := range ids {
		pendingOf[id]++
	}
	settled := map[uint64]bool{} // id precommitted (acknowledged or found already there)
	reach := expect              // ids up to reach can still complete; a refused id strands the ones behind it
	outstanding := func() bool {
		for id, n := range pendingOf {
			if id <= reach && n > 0 {
				return true
			}
		}
		return false
	}
	for outstanding() {
		res := <-out
		results = append(results, res)
		pendingOf[res.id]--
		if res.err == nil || errors.Is(res.err, store.ErrTxAlreadyCommitted) {
			settled[res.id] = true
		} else if pendingOf[res.id] == 0 && !settled[res.id] && res.id <= reach {
			reach = res.id - 1
		}
	}
	cancel()
	wg.Wait()
	close(out)
	for res := range out {
		results = append(results, res)
	}
	if ctx.Err() == context.DeadlineExceeded {
		s.c.Inconclusive(fmt.Sprintf("[%s] a batch of ReplicateTx calls did not finish within %s", s.cf.Name, opTimeout))
		s.dead = true
		return
	}
	first := map[uint64]int{}
	for seq, id := range ids {
		if _, ok := first[id]; !ok {
			first[id] = seq
		}
	}
	refused := false
	okFor := map[uint64]bool{}
	for _, res := range results {
		pattern := "in-order"
		switch {
		case dup[res.id]:
			pattern = "duplicate"
		case gap > 0 && res.id > gap:
			pattern = "behind-gap"
		case s.discarded[res.id]:
			pattern = "after-discard"
		case s.restarted[res.id]:
			pattern = "retry-after-restart"
		default:
			// launched before its predecessor?
			if p, ok := first[res.id-1]; ok && p > res.seq {
				pattern = "out-of-order"
			}
		}
		cls := errClass(res.err)
		s.c.Distinct(fmt.Sprintf("L1/%s/honest/%s", pattern, cls))
		s.stats[pattern+"/"+cls]++
		if res.panicS != "" {
			s.viol(res.panicS, fmt.Sprintf("ReplicateTx panicked on the honest export of tx %d: %s", res.id, firstLine(res.panicT)), map[string][]byte{"export.bin": s.exports[res.id], "panic.txt": []byte(res.panicT)})
			continue
		}
		if res.err == nil {
			okFor[res.id] = true
			s.checkAccepted(res, pattern)
			if res.id > expect {
				s.viol("replicatetx/out-of-order-accepted", fmt.Sprintf("tx %d was accepted although tx %d was never delivered (precommitted frontier was %d)", res.id, gap, pre), nil)
			}
			continue
		}
		s.c.Eval(1)
		if errors.Is(res.err, store.ErrMaxActiveTransactionsLimitExceeded) {
			refused = true
		}
		if res.id <= expect && !benign(res.err) {
			// inside a concurrent batch a tx may be offered while it does not extend the chain yet (e.g. the
			// precommit watcher is not receded by a discard, so a successor does not wait): a refusal without
			// effect is allowed there; the obligation is checked by deliverNext on the directly extending tx
			s.c.Count("l1_transient_refusals_in_batches", 1)
			refused = true
		}
	}
	if s.dead {
		return
	}
	after := s.state()
	switch {
	case after.pre > expect || after.pre < pre:
		s.viol("replicatetx/frontier-unexpected", fmt.Sprintf("after delivering %v (gap at %d) from frontier %d the precommitted frontier is %d", ids, gap, pre, after.pre), nil)
	case after.pre < expect && !refused:
		// every id up to expect was offered; each call returned ok, already-committed or was judged above
		missing := false
		for id := pre + 1; id <= expect; id++ {
			if !okFor[id] {
				missing = true
			}
		}
		if !missing {
			s.viol("replicatetx/acknowledged-but-not-precommitted", fmt.Sprintf("all of %d..%d were acknowledged, the precommitted frontier is %d", pre+1, expect, after.pre), nil)
		}
	}
	if after.pre < expect && !s.dead {
		s.deliverNext("after-batch")
	}
	if after.pre > 0 && after.preAlh != s.alh(after.pre) {
		s.viol("replicatetx/frontier-alh-differs", fmt.Sprintf("precommitted tx %d has alh %x, the primary's is %x", after.pre, after.preAlh, s.alh(after.pre)), nil)
	}
	s.c.Eval(1)
	for id := pre + 1; id <= after.pre; id++ {
		delete(s.discarded, id)
		delete(s.restarted, id)
	}
	if !s.cf.ExtAllow && after.com != after.pre {
		// without external allowance ReplicateTx returns only after the commit
		for id := range okFor {
			if id > after.com {
				s.viol("replicatetx/returned-before-commit", fmt.Sprintf("ReplicateTx of tx %d returned, committed frontier is %d", id, after.com), nil)
				break
			}
		}
	}
}

// deliverNext offers the honest export of the directly extending tx with nothing else in flight: it must be accepted.
func (s *l1run) deliverNext(why string) {
	st := s.state()
	id := st.pre + 1
	if id > s.n || (s.limit > 0 && id > s.limit) {
		return
	}
	s.makeRoom(1)
	ctx, cancel := context.WithTimeout(context.Background(), opTimeout)
	res := s.replicate(ctx, s.exports[id])
	cancel()
	res.id = id
	s.c.Eval(1)
	pattern := "in-order-alone"
	switch {
	case s.discarded[id]:
		pattern = "after-discard-alone"
	case s.restarted[id]:
		pattern = "retry-after-restart-alone"
	}
	s.c.Distinct(fmt.Sprintf("L1/%s/honest/%s", pattern, errClass(res.err)))
	if res.panicS != "" {
		s.viol(res.panicS, fmt.Sprintf("ReplicateTx panicked on the honest export of tx %d: %s", id, firstLine(res.panicT)), map[string][]byte{"export.bin": s.exports[id], "panic.txt": []byte(res.panicT)})
		s.dead = true
		return
	}
	if res.err != nil {
		if isCtxErr(res.err) {
			s.c.Inconclusive(fmt.Sprintf("[%s] ReplicateTx of the next honest tx %d did not return within %s", s.cf.Name, id, opTimeout))
		} else {
			s.viol("replicatetx/honest-next-export-refused/"+errClass(res.err), fmt.Sprintf("replica at %s: the honest export of tx %d, offered alone (%s), was refused: %v; last steps: %s", st, id, why, res.err, strings.Join(s.trail, " | ")), map[string][]byte{"export.bin": s.exports[id]})
		}
		s.dead = true
		return
	}
	s.checkAccepted(res, pattern)
	delete(s.discarded, id)
	delete(s.restarted, id)
}

func firstLine(s string) string {
	if i := strings.IndexByte(s, '\n'); i >= 0 {
		return s[:i]
	}
	return s
}

// redundant offers: already precommitted ids and ids beyond the window; both must be refused without effect.
func (s *l1run) deliverRedundant() {
	before := s.state()
	var id uint64
	pattern := "duplicate-old"
	if before.pre > 0 && s.r.IntN(2) == 0 {
		id = 1 + s.r.Uint64N(before.pre)
	} else {
		id = before.pre + uint64(s.cf.Window) + 1 + s.r.Uint64N(3)
		pattern = "beyond-window"
	}
	b, ok := s.exports[id]
	if !ok {
		return
	}
	ctx, cancel := context.WithTimeout(context.Background(), opTimeout)
	res := s.replicate(ctx, b)
	cancel()
	after := s.state()
	s.c.Eval(1)
	cls := errClass(res.err)
	s.c.Distinct(fmt.Sprintf("L1/%s/honest/%s", pattern, cls))
	if res.panicS != "" {
		s.viol(res.panicS, "ReplicateTx panicked on an honest export: "+firstLine(res.panicT), map[string][]byte{"export.bin": b, "panic.txt": []byte(res.panicT)})
		return
	}
	if res.err == nil {
		s.viol("replicatetx/non-extending-accepted/"+pattern, fmt.Sprintf("honest export of tx %d was accepted at frontier %d", id, before.pre), map[string][]byte{"export.bin": b})
		return
	}
	if !sameFrontier(before, after) {
		s.viol("replicatetx/refused-with-effect/"+pattern, fmt.Sprintf("export of tx %d refused (%v) but the replica moved from %s to %s", id, res.err, before, after), map[string][]byte{"export.bin": b})
	}
	if pattern == "duplicate-old" && !errors.Is(res.err, store.ErrTxAlreadyCommitted) {
		s.c.Count("l1_duplicate_other_error", 1)
	}
}

func (s *l1run) allow(upto uint64) {
	if !s.cf.ExtAllow || upto == 0 {
		return
	}
	if err := s.rep.AllowCommitUpto(upto); err != nil {
		s.viol("allowcommitupto/error", fmt.Sprintf("AllowCommitUpto(%d): %v", upto, err), nil)
		return
	}
	ctx, cancel := context.WithTimeout(context.Background(), opTimeout)
	err := s.rep.WaitForTx(ctx, upto, false)
	cancel()
	if err != nil {
		s.c.Inconclusive(fmt.Sprintf("[%s] tx %d not committed within %s after AllowCommitUpto: %v", s.cf.Name, upto, opTimeout, err))
		s.dead = true
		return
	}
	id, alh := s.rep.CommittedAlh()
	s.c.Eval(1)
	if id < upto || (id == upto && alh != s.alh(upto)) {
		s.viol("allowcommitupto/committed-state", fmt.Sprintf("after AllowCommitUpto(%d) CommittedAlh is (%d, %x), the primary's alh is %x", upto, id, alh, s.alh(upto)), nil)
	}
	s.c.Distinct("L1/allow-commit/partial")
}

func (s *l1run) discard() {
	st := s.state()
	if !s.cf.ExtAllow || st.pre == st.com {
		return
	}
	from := st.com + 1 + s.r.Uint64N(st.pre-st.com)
	if from == 1 {
		if st.pre < 2 {
			return
		}
		from = 2
	}
	n, err := s.discardSince(from)
	after := s.state()
	s.c.Eval(1)
	if err != nil || uint64(n) != st.pre-from+1 || after.pre != from-1 || after.preAlh != s.alh(from-1) || after.com != st.com || after.comAlh != st.comAlh {
		s.viol("discard/frontier", fmt.Sprintf("DiscardPrecommittedTxsSince(%d) at %s returned (%d, %v) and left %s; expected frontier %d/%x", from, st, n, err, after, from-1, s.alh(from-1)), nil)
	}
	if d, dalh := s.rep.PrecommittedAlh(); d > after.pre || (d == after.pre && dalh != after.preAlh) {
		s.viol("discard/durable-frontier-ahead", fmt.Sprintf("after discarding since %d the durable precommitted state is (%d, %x), in-memory frontier %d", from, d, dalh, after.pre), nil)
	}
	for id := from; id <= st.pre; id++ {
		s.discarded[id] = true
	}
	s.c.Distinct(fmt.Sprintf("L1/discard/n=%d", min(n, 4)))
}

// restart closes and reopens the replica, optionally while deliveries are in flight.
func (s *l1run) restart(limit uint64) {
	room := s.makeRoom(2)
	before := s.state()
	midflight := s.r.IntN(2) == 0 && before.pre < limit
	var results []callRes
	if midflight {
		hi := min(before.pre+1+s.r.Uint64N(room), limit)
		ctx, cancel := context.WithTimeout(context.Background(), opTimeout)
		out := make(chan callRes, int(hi-before.pre))
		var wg sync.WaitGroup
		for id := before.pre + 1; id <= hi; id++ {
			wg.Add(1)
			go func(id uint64) {
				defer wg.Done()
				res := s.replicate(ctx, s.exports[id])
				res.id = id
				out <- res
			}(id)
		}
		for k := s.r.IntN(4); k > 0; k-- {
			runtime.Gosched()
		}
		if err := s.rep.Close(); err != nil {
			s.c.Count("l1_close_errors", 1)
			s.c.Note(fmt.Sprintf("[%s] replica Close with deliveries in flight: %v", s.cf.Name, err))
		}
		wg.Wait()
		cancel()
		close(out)
		for res := range out {
			results = append(results, res)
		}
	} else if err := s.rep.Close(); err != nil {
		s.viol("replica/close-error", fmt.Sprintf("replica Close at quiescence: %v", err), nil)
	}
	if !s.openReplica() {
		return
	}
	after := s.state()
	s.c.Eval(1)
	// what was acknowledged before the restart must still be there
	maxOK := before.pre
	dirty := s.lastDiscard > before.com // discarded txs still sit in the tx log behind the committed ones
	for _, res := range results {
		cls := errClass(res.err)
		s.c.Distinct("L1/mid-restart/honest/" + cls)
		if res.panicS != "" {
			s.viol(res.panicS, "ReplicateTx panicked while the replica was closing: "+firstLine(res.panicT), map[string][]byte{"panic.txt": []byte(res.panicT)})
			continue
		}
		if res.err == nil {
			s.checkAccepted(callRes{id: res.id, hdr: res.hdr, durable: res.id}, "mid-restart")
			if res.id > maxOK {
				maxOK = res.id
			}
		} else if !benign(res.err) {
			s.c.Count("l1_midrestart_other_errors", 1)
			s.c.Note(fmt.Sprintf("[%s] ReplicateTx during Close: %v", s.cf.Name, res.err))
		}
	}
	if after.com < before.com || (after.com > 0 && after.com <= s.n && after.comAlh != s.alh(after.com)) {
		s.viol("restart/committed-state", fmt.Sprintf("committed state before the restart %d/%x, after %d/%x (primary alh %x)", before.com, before.comAlh[:4], after.com, after.comAlh[:4], s.alh(min(after.com, s.n))), nil)
	}
	if s.cf.ExtAllow && after.com > before.com {
		s.viol("restart/committed-without-allowance", fmt.Sprintf("committed frontier moved from %d to %d across a restart without allowance", before.com, after.com), nil)
	}
	lost := false
	if after.pre < maxOK {
		lost = true
	} else if h, err := s.rep.ReadTxHeader(maxOK, true, false); maxOK > after.com && (err != nil || h.Alh() != s.alh(maxOK)) {
		lost = true // the id is there, but it is a discarded tx that came back, not the acknowledged one
	}
	emb := ""
	if s.cf.REmbedded {
		emb = "/embedded-values" // the loader of precommitted txs at Open does not skip the embedded-values prefix
	}
	if lost && s.cf.REmbedded {
		// with embedded values nothing precommitted is ever reloaded: that cause comes first, discard or not
		s.viol("restart/acknowledged-precommit-lost/embedded-values", fmt.Sprintf("ReplicateTx acknowledged up to tx %d before a clean restart; afterwards the replica is at %s", maxOK, after), nil)
	} else if lost && dirty {
		s.c.Note(fmt.Sprintf("[%s %s] precommit lost after discard: lastDiscard=%d before=%s maxOK=%d after=%s midflight=%v", s.cf.Name, s.cf, s.lastDiscard, before, maxOK, after, midflight))
		s.viol("restart/acknowledged-precommit-lost-after-discard", fmt.Sprintf("txs since %d were discarded, then ReplicateTx acknowledged (durable precommit) the primary's txs up to %d; after a clean restart the replica is at %s: acknowledged precommits are gone (the tx log still held the discarded txs, reloading stops at them)", s.lastDiscard, maxOK, after), nil)
	} else if lost {
		s.viol("restart/acknowledged-precommit-lost"+emb, fmt.Sprintf("ReplicateTx acknowledged up to tx %d before a clean restart; afterwards the replica is at %s", maxOK, after), nil)
	}
	// the reloaded precommitted txs must come from what was delivered: the primary's, or (after a discard, documented) the fork's
	prevAlh := after.comAlh
	for id := after.com + 1; id <= after.pre; id++ {
		h, err := s.rep.ReadTxHeader(id, true, false)
		if err != nil {
			s.viol("restart/precommitted-unreadable", fmt.Sprintf("precommitted tx %d unreadable after restart: %v", id, err), nil)
			break
		}
		// whatever was reloaded (the primary's txs or, documented, discarded ones), it must be a chain
		if id > 1 && h.PrevAlh != prevAlh {
			s.viol("restart/reloaded-precommitted-tx-does-not-chain", fmt.Sprintf("after restart the replica reports precommitted tx %d (alh %x) whose PrevAlh %x is not the alh %x of tx %d it holds: a discarded tx was reloaded on top of its replacement (frontier %s)", id, h.Alh(), h.PrevAlh[:4], prevAlh[:4], id-1, after), nil)
			break
		}
		prevAlh = h.Alh()
		if id <= s.n && h.Alh() == s.alh(id) {
			continue
		}
		if s.dropped[id][h.Alh()] {
			// discarded diverged txs reloaded: "Discarding may need to be redone after re-opening the store"
			if _, err := s.discardSince(id); err != nil {
				s.viol("discard/redo-error", fmt.Sprintf("re-discarding reloaded tx %d: %v", id, err), nil)
			}
			s.c.Distinct("L1/restart/discarded-diverged-txs-reloaded")
			break
		}
		s.viol("restart/precommitted-tx-unknown", fmt.Sprintf("after restart precommitted tx %d has alh %x, which is neither the primary's nor a delivered fork tx", id, h.Alh()), nil)
		break
	}
	now := s.state()
	for id := now.pre + 1; id <= max(before.pre, maxOK)+uint64(s.cf.Window)+1; id++ {
		s.restarted[id] = true
	}
	kind := "quiescent"
	if midflight {
		kind = "mid-flight"
	}
	s.trail = append(s.trail, fmt.Sprintf("restart(%s) %s -> %s -> %s", kind, before, after, now))
	s.c.Distinct("L1/restart/" + kind)
}

// forkScenario: the replica precommits the fork's continuation, must refuse the primary's txs on top of it,
// and takes the primary's continuation after the diverged precommits were discarded.
func (s *l1run) forkScenario() {
	st := s.state()
	if st.pre != s.forkAt || st.com > s.forkAt {
		return
	}
	s.allow(s.forkAt)
	if s.dead {
		return
	}
	s.forkLive = true
	defer func() { s.forkLive = false }()
	for id, a := range s.forkAlh {
		s.noteDropped(id, a)
	}
	ids := make([]uint64, 0, len(s.forkExp))
	for id := range s.forkExp {
		ids = append(ids, id)
	}
	sort.Slice(ids, func(i, j int) bool { return ids[i] < ids[j] })
	for _, id := range ids {
		ctx, cancel := context.WithTimeout(context.Background(), opTimeout)
		res := s.replicate(ctx, s.forkExp[id])
		cancel()
		s.c.Eval(1)
		if res.err != nil || res.hdr.Alh() != s.forkAlh[id] {
			if errors.Is(res.err, store.ErrMaxActiveTransactionsLimitExceeded) {
				break
			}
			if isCtxErr(res.err) {
				s.c.Inconclusive(fmt.Sprintf("[%s] fork delivery did not return within %s", s.cf.Name, opTimeout))
				s.dead = true
				return
			}
			s.viol("replicatetx/honest-export-refused/fork", fmt.Sprintf("export of tx %d of the fork (extends the replica's chain at %d) refused or changed: %v", id, st.pre, res.err), map[string][]byte{"export.bin": s.forkExp[id]})
			return
		}
	}
	mid := s.state()
	if mid.com > s.forkAt {
		s.viol("replica/committed-without-allowance", fmt.Sprintf("replica committed %d without allowance (allowed up to %d)", mid.com, s.forkAt), nil)
	}
	// the primary's own txs do not extend the diverged chain
	for id := s.forkAt + 1; id <= min(mid.pre+1, s.n); id++ {
		ctx, cancel := context.WithTimeout(context.Background(), opTimeout)
		res := s.replicate(ctx, s.exports[id])
		cancel()
		after := s.state()
		s.c.Eval(1)
		cls := errClass(res.err)
		s.c.Distinct("L1/on-diverged-precommit/honest/" + cls)
		if res.err == nil {
			s.viol("replicatetx/non-extending-accepted/on-diverged-precommit", fmt.Sprintf("primary tx %d accepted on top of diverged precommitted txs (frontier %s)", id, mid), nil)
			return
		}
		if !sameFrontier(mid, after) {
			s.viol("replicatetx/refused-with-effect/on-diverged-precommit", fmt.Sprintf("primary tx %d refused (%v) but the replica moved from %s to %s", id, res.err, mid, after), nil)
			return
		}
	}
	if s.r.IntN(2) == 0 {
		s.restart(s.forkAt) // nothing in flight: limit == frontier
		if s.dead {
			return
		}
	}
	s.forkLive = false
	if cur := s.state(); cur.pre > s.forkAt {
		n, err := s.discardSince(s.forkAt + 1)
		after := s.state()
		s.c.Eval(1)
		if err != nil || after.pre != s.forkAt || after.preAlh != s.alh(s.forkAt) {
			s.viol("discard/frontier", fmt.Sprintf("DiscardPrecommittedTxsSince(%d) of diverged txs returned (%d, %v) and left %s", s.forkAt+1, n, err, after), nil)
		}
	}
	for id := range s.forkExp {
		s.discarded[id] = true
		s.noteDropped(id, s.forkAlh[id])
	}
	s.c.Distinct("L1/fork/diverged-precommits-discarded")
	if s.cf.TwinFork && len(s.forkExp) >= 2 && s.forkAt+1 <= s.n && s.state().pre == s.forkAt {
		// the replacement of the first discarded tx has its size: the later discarded txs stay intact right behind it
		ctx, cancel := context.WithTimeout(context.Background(), opTimeout)
		res := s.replicate(ctx, s.exports[s.forkAt+1])
		cancel()
		if res.err == nil {
			res.id = s.forkAt + 1
			s.checkAccepted(res, "twin-replacement")
			same := len(s.exports[s.forkAt+1]) == len(s.forkExp[s.forkAt+1])
			s.c.Distinct(fmt.Sprintf("L1/fork/twin-replacement-then-restart/same-size=%v/embedded=%v", same, s.cf.REmbedded))
			delete(s.discarded, s.forkAt+1)
			s.restart(s.forkAt + 1)
		}
	}
}

// ---- altered exports ----

func (s *l1run) altSource() *altSource {
	return &altSource{exports: s.exports, alhs: s.alhs, other: s.forkExp, n: s.n, forkAt: s.forkAt}
}

func (s *l1run) alterSig(a alteration) string {
	switch {
	case a.Family == "nonext":
		return "replicatetx/non-extending-accepted/" + strings.SplitN(strings.TrimPrefix(a.Class, "nonext/"), "+", 2)[0]
	case a.Family == "content" && s.cf.Skip:
		return "replicatetx/skip-integrity/altered-content-accepted"
	case a.Family == "content":
		return "replicatetx/altered-content-accepted/" + a.Field
	case a.Family == "mixed":
		return "replicatetx/altered-accepted/several-fields"
	}
	return "replicatetx/altered-header-accepted/" + a.Field
}

// rebuildReplica replaces a replica that committed a tx which is not the primary's by a fresh one holding 1..upto.
func (s *l1run) rebuildReplica(upto uint64) {
	s.rep.Close()
	os.RemoveAll(s.rdir)
	os.MkdirAll(s.rdir, 0o755)
	if !s.openReplica() {
		return
	}
	for id := uint64(1); id <= upto; id++ {
		ctx, cancel := context.WithTimeout(context.Background(), opTimeout)
		res := s.replicate(ctx, s.exports[id])
		cancel()
		if res.err != nil {
			s.c.Inconclusive(fmt.Sprintf("[%s] rebuilding the replica: tx %d: %v", s.cf.Name, id, res.err))
			s.dead = true
			return
		}
		if s.cf.ExtAllow && id%uint64(max(1, s.cf.Window-1)) == 0 {
			s.rep.AllowCommitUpto(id)
		}
	}
}

// offer calls ReplicateTx with an altered export; a call that waits (an id inside the window whose predecessor
// never comes) is released by cancellation. The pause only decides when to stop waiting, never a verdict.
func (s *l1run) offer(a alteration) (res callRes, blocked bool, ok bool) {
	ctx, cancel := context.WithCancel(context.Background())
	defer cancel()
	done := make(chan callRes, 1)
	go func() { done <- s.replicate(ctx, a.Bytes) }()
	select {
	case res = <-done:
		return res, false, true
	case <-time.After(40 * time.Millisecond):
	}
	cancel()
	select {
	case res = <-done:
		return res, true, true
	case <-time.After(opTimeout):
		s.c.Inconclusive(fmt.Sprintf("[%s] ReplicateTx of an altered export (%s) did not return within %s of its cancellation", s.cf.Name, a.Class, opTimeout))
		s.dead = true
		return res, true, false
	}
}

func (s *l1run) alterBatch(count int) {
	src := s.altSource()
	for k := 0; k < count && s.altLeft > 0 && !s.dead; k++ {
		before := s.state()
		id := before.pre + 1
		if id > s.n || (s.limit > 0 && id > s.limit) {
			return
		}
		s.makeRoom(2)
		before = s.state()
		if id == 1 {
			// an accepted alteration of tx 1 is repaired by discarding everything; tx 1 after such a discard is
			// judged by deliverNext (stale BlRoot finding), not here
			s.deliverNext("first-tx")
			continue
		}
		a, ok := genAlteration(s.r, src, id)
		if !ok || bytes.Equal(a.Bytes, s.exports[id]) {
			continue
		}
		s.altLeft--
		res, blocked, ok := s.offer(a)
		if !ok {
			return
		}
		after := s.state()
		s.c.Eval(1)
		s.c.Count("l1_altered_exports", 1)
		files := map[string][]byte{"altered.bin": a.Bytes, "honest.bin": s.exports[id]}
		if res.panicS != "" {
			// malformed-input panics are C16's subject; reported here under the function/kind signature
			s.c.Distinct(fmt.Sprintf("L1/alter/%s/skip=%v/panic", a.Class, s.cf.Skip))
			files["panic.txt"] = []byte(res.panicT)
			s.viol(res.panicS, fmt.Sprintf("ReplicateTx panicked on an altered export (%s): %s", a.Class, firstLine(res.panicT)), files)
			if !sameFrontier(before, s.state()) {
				s.viol("replicatetx/panic-with-effect", fmt.Sprintf("altered export (%s): panic and the replica moved from %s to %s", a.Class, before, after), files)
				s.dead = true
			}
			continue
		}
		outcome := errClass(res.err)
		if blocked {
			outcome = "waited-until-cancelled"
		}
		switch {
		case sameFrontier(before, after):
			if res.err == nil {
				outcome = "ok-without-effect"
				s.viol("replicatetx/acknowledged-without-effect", fmt.Sprintf("altered export (%s) acknowledged with header id %d but the replica stayed at %s", a.Class, res.hdr.ID, after), files)
			}
		case after.pre == before.pre+1 && after.preAlh == s.alh(id) && after.com >= before.com:
			// the altered bytes decode to the very same tx (e.g. tail dropped): the replica holds the primary's tx
			outcome = "accepted-identical-tx"
		default:
			// a call released by our cancellation may have precommitted already: the state decides, not the error
			outcome = "accepted-diverged"
			sig := s.alterSig(a)
			if res.err != nil && !isCtxErr(res.err) {
				outcome = "refused-with-effect"
				sig = strings.Replace(sig, "-accepted", "-refused-with-effect", 1)
			}
			detail := fmt.Sprintf("altered export of tx %d (%s, field %s, skipIntegrityCheck=%v) returned err=%v and moved the replica from %s to %s; the primary's alh for tx %d is %x",
				id, a.Class, a.Field, s.cf.Skip, res.err, before, after, id, s.alh(id))
			detail += "; " + s.afterDivergence(id, after)
			s.viol(sig, detail, files)
			s.stats["accepted-diverged/"+a.Field]++
			// repair so that the schedule can go on
			s.noteDropped(id, after.preAlh)
			s.trail = append(s.trail, fmt.Sprintf("diverged tx %d accepted (%s) and discarded", id, a.Class))
			if after.com <= before.pre {
				if _, err := s.discardSince(before.pre + 1); err != nil {
					s.c.Note(fmt.Sprintf("[%s] cannot discard the diverged tx: %v", s.cf.Name, err))
					s.rebuildReplica(before.pre)
				}
			} else {
				s.rebuildReplica(before.pre)
			}
		}
		s.c.Distinct(fmt.Sprintf("L1/alter/%s/skip=%v/%s", a.Class, s.cf.Skip, outcome))
		s.stats["alter/"+a.Family+"/"+outcome]++
		if len(s.stats) < 4000 && outcome == "accepted-identical-tx" {
			s.stats["identical/"+a.Class]++
		}
	}
}

// afterDivergence: is the divergence noticed by the next step of the protocol at store level?
func (s *l1run) afterDivergence(id uint64, st rstate) string {
	var notes []string
	if id+1 <= s.n && st.pre == id {
		ctx, cancel := context.WithTimeout(context.Background(), opTimeout)
		res := s.replicate(ctx, s.exports[id+1])
		cancel()
		if res.err == nil {
			s.viol("replicatetx/divergence-undetected-by-next-tx", fmt.Sprintf("after a diverged tx %d the honest export of tx %d was accepted", id, id+1), nil)
			notes = append(notes, "next honest tx ACCEPTED")
			s.discardSince(id + 1)
		} else {
			notes = append(notes, fmt.Sprintf("the next honest tx is refused (%v)", res.err))
			s.c.Distinct("L1/after-divergence/next-tx/" + errClass(res.err))
		}
	}
	ctx, cancel := context.WithTimeout(context.Background(), opTimeout)
	res := s.replicate(ctx, s.exports[id])
	cancel()
	if errors.Is(res.err, store.ErrTxAlreadyCommitted) {
		notes = append(notes, "the honest export of the same tx is answered 'tx already committed' (TxReplicator treats that as success)")
	}
	return strings.Join(notes, "; ")
}

// ---- quiescent comparison ----

func (s *l1run) compare() {
	p, q := s.pri, s.rep
	cid, calh := q.CommittedAlh()
	s.c.Eval(1)
	if cid != s.n || calh != s.alh(s.n) {
		s.viol("final/committed-alh-differs", fmt.Sprintf("replica CommittedAlh (%d, %x), primary (%d, %x)", cid, calh, s.n, s.alh(s.n)), nil)
		return
	}
	ptx, qtx := store.NewTx(12, 48), store.NewTx(12, 48)
	for id := uint64(1); id <= s.n; id++ {
		s.c.Eval(1)
		if err := q.ReadTx(id, false, qtx); err != nil {
			s.viol("final/readtx-error", fmt.Sprintf("replica ReadTx(%d): %v", id, err), nil)
			return
		}
		if err := p.ReadTx(id, false, ptx); err != nil {
			s.c.Inconclusive("primary ReadTx: " + err.Error())
			return
		}
		qb, _ := qtx.Header().Bytes()
		if !bytes.Equal(qb, s.hdrs[id]) || qtx.Header().Alh() != s.alh(id) {
			s.viol("final/header-differs", fmt.Sprintf("tx %d: replica header/alh differ from the primary's (alh %x vs %x)", id, qtx.Header().Alh(), s.alh(id)), nil)
			continue
		}
		pe, qe := ptx.Entries(), qtx.Entries()
		if len(pe) != len(qe) {
			s.viol("final/entry-count-differs", fmt.Sprintf("tx %d: %d entries on the replica, %d on the primary", id, len(qe), len(pe)), nil)
			continue
		}
		for i := range pe {
			if !bytes.Equal(pe[i].Key(), qe[i].Key()) || !bytes.Equal(ledger.MDBytes(pe[i].Metadata()), ledger.MDBytes(qe[i].Metadata())) || pe[i].HVal() != qe[i].HVal() {
				s.viol("final/entry-differs", fmt.Sprintf("tx %d entry %d: key/metadata/value digest differ", id, i), nil)
				continue
			}
			if s.truncated[id] {
				// exported as digests only: the replica holds the digest, no value and (documented in ReadValue) no length
				if v, err := q.ReadValue(qe[i]); err == nil && len(v) == 0 && pe[i].VLen() > 0 {
					s.c.Count("l1_truncated_value_served_empty_by_replica", 1)
				}
				continue
			}
			if pe[i].VLen() != qe[i].VLen() {
				s.viol("final/value-length-differs", fmt.Sprintf("tx %d entry %d: vLen %d on the replica, %d on the primary", id, i, qe[i].VLen(), pe[i].VLen()), nil)
				continue
			}
			pv, perr := p.ReadValue(pe[i])
			qv, qerr := q.ReadValue(qe[i])
			if (perr == nil) != (qerr == nil) || !bytes.Equal(pv, qv) {
				if perr != nil && qerr == nil && sha256eq(qv, qe[i].HVal()) {
					continue // the primary lost the value to truncation after exporting it; the replica's matches the digest
				}
				s.viol("final/value-differs", fmt.Sprintf("tx %d entry %d (%q): primary (%d bytes, %v), replica (%d bytes, %v)", id, i, pe[i].Key(), len(pv), perr, len(qv), qerr), nil)
			}
		}
		// a second export from the replica equals the primary's (same skip mode)
		if !s.cf.Skip {
			b, err := q.ExportTx(id, false, false, qtx)
			if err != nil || !bytes.Equal(b, s.exports[id]) {
				s.viol("final/re-export-differs", fmt.Sprintf("tx %d: ExportTx on the replica (err %v) differs from the primary's export", id, err), map[string][]byte{"primary.bin": s.exports[id], "replica.bin": b})
			}
		}
	}
	s.compareIndex()
	s.compareProofs()
}

func (s *l1run) compareIndex() {
	p, q := s.pri, s.rep
	ctx, cancel := context.WithTimeout(context.Background(), opTimeout)
	defer cancel()
	if err := p.WaitForIndexingUpto(ctx, s.n); err != nil {
		s.c.Inconclusive("primary indexing: " + err.Error())
		return
	}
	if err := q.WaitForIndexingUpto(ctx, s.n); err != nil {
		s.c.Inconclusive(fmt.Sprintf("[%s] replica indexing did not reach %d within %s: %v", s.cf.Name, s.n, opTimeout, err))
		return
	}
	type row struct {
		key    string
		tx, hc uint64
		hval   [32]byte
		md     string
	}
	scan := func(st *store.ImmuStore) ([]row, error) {
		snap, err := st.SnapshotMustIncludeTxID(ctx, nil, s.n)
		if err != nil {
			return nil, err
		}
		defer snap.Close()
		rd, err := snap.NewKeyReader(store.KeyReaderSpec{})
		if err != nil {
			return nil, err
		}
		defer rd.Close()
		var rows []row
		for {
			k, vr, err := rd.Read(ctx)
			if errors.Is(err, store.ErrNoMoreEntries) {
				return rows, nil
			}
			if err != nil {
				return rows, err
			}
			rows = append(rows, row{string(k), vr.Tx(), vr.HC(), vr.HVal(), string(ledger.MDBytes(vr.KVMetadata()))})
		}
	}
	pr, perr := scan(p)
	qr, qerr := scan(q)
	s.c.Eval(1)
	if perr != nil || qerr != nil {
		if (perr == nil) != (qerr == nil) {
			s.viol("final/scan-error-differs", fmt.Sprintf("full scan: primary err %v, replica err %v", perr, qerr), nil)
		}
		return
	}
	if len(pr) != len(qr) {
		s.viol("final/scan-differs", fmt.Sprintf("full scan returns %d keys on the primary and %d on the replica", len(pr), len(qr)), nil)
		return
	}
	for i := range pr {
		if pr[i] != qr[i] {
			s.viol("final/scan-differs", fmt.Sprintf("scan position %d: primary (%q tx %d hc %d), replica (%q tx %d hc %d)", i, pr[i].key, pr[i].tx, pr[i].hc, qr[i].key, qr[i].tx, qr[i].hc), nil)
			return
		}
	}
	for _, rw := range pr {
		pv, perr := p.Get(ctx, []byte(rw.key))
		qv, qerr := q.Get(ctx, []byte(rw.key))
		s.c.Eval(1)
		if (perr == nil) != (qerr == nil) || (perr != nil && perr.Error() != qerr.Error()) {
			s.viol("final/get-differs", fmt.Sprintf("Get(%q): primary err %v, replica err %v", rw.key, perr, qerr), nil)
			continue
		}
		if perr != nil {
			continue
		}
		if pv.Tx() != qv.Tx() || pv.HC() != qv.HC() || pv.HVal() != qv.HVal() {
			s.viol("final/get-differs", fmt.Sprintf("Get(%q): primary (tx %d hc %d), replica (tx %d hc %d)", rw.key, pv.Tx(), pv.HC(), qv.Tx(), qv.HC()), nil)
			continue
		}
		if s.truncated[pv.Tx()] {
			continue
		}
		a, aerr := pv.Resolve()
		b, berr := qv.Resolve()
		if (aerr == nil) != (berr == nil) || !bytes.Equal(a, b) {
			if aerr != nil && berr == nil && sha256eq(b, qv.HVal()) {
				continue
			}
			s.viol("final/get-value-differs", fmt.Sprintf("Get(%q).Resolve: primary (%d bytes, %v), replica (%d bytes, %v)", rw.key, len(a), aerr, len(b), berr), nil)
		}
	}
	s.c.Distinct(fmt.Sprintf("L1/final/index-compared/keys=%d", min(len(pr)/16, 8)))
}

func (s *l1run) compareProofs() {
	q := s.rep
	for k := 0; k < 24; k++ {
		i := 1 + s.r.Uint64N(s.n)
		j := i + s.r.Uint64N(s.n-i+1)
		hi, err1 := q.ReadTxHeader(i, false, false)
		hj, err2 := q.ReadTxHeader(j, false, false)
		if err1 != nil || err2 != nil {
			s.viol("final/readtxheader-error", fmt.Sprintf("ReadTxHeader(%d/%d): %v %v", i, j, err1, err2), nil)
			return
		}
		s.c.Eval(1)
		proof, err := q.DualProof(hi, hj)
		if err != nil {
			s.viol("final/dualproof-error", fmt.Sprintf("replica DualProof(%d,%d): %v", i, j, err), nil)
			continue
		}
		if !store.VerifyDualProof(proof, i, j, s.alh(i), s.alh(j)) {
			s.viol("final/dualproof-does-not-verify-against-primary-state", fmt.Sprintf("replica DualProof(%d,%d) does not verify against the primary's alhs", i, j), nil)
		}
		if j-i <= 20 {
			lp, err := q.LinearProof(i, j)
			if err != nil {
				s.viol("final/linearproof-error", fmt.Sprintf("replica LinearProof(%d,%d): %v", i, j, err), nil)
			} else if !store.VerifyLinearProof(lp, i, j, s.alh(i), s.alh(j)) {
				s.viol("final/linearproof-does-not-verify-against-primary-state", fmt.Sprintf("replica LinearProof(%d,%d) does not verify against the primary's alhs", i, j), nil)
			}
		}
	}
	s.c.Distinct("L1/final/proofs-verified-against-primary")
}

func runL1(c *fw.Ctx, cf l1cfg) {
	s := &l1run{c: c, cf: cf, r: fw.NewRand(c.Seed, "c07/l1/"+cf.Name), pdir: c.Dir("pri"), rdir: c.Dir("rep"),
		exports: map[uint64][]byte{}, hdrs: map[uint64][]byte{}, truncated: map[uint64]bool{},
		forkExp: map[uint64][]byte{}, forkAlh: map[uint64][32]byte{}, dropped: map[uint64]map[[32]byte]bool{}, restarted: map[uint64]bool{}, discarded: map[uint64]bool{},
		altLeft: cf.NAlt, stats: map[string]int{}}
	defer os.RemoveAll(s.pdir)
	defer os.RemoveAll(s.rdir)
	ok := s.buildPrimary()
	if s.pri != nil {
		defer func() { s.pri.Close() }()
	}
	if !ok {
		if s.n < 4 && s.n > 0 {
			c.Note(fmt.Sprintf("[%s] primary history too short (%d)", cf.Name, s.n))
		}
		return
	}
	if !s.openReplica() {
		return
	}
	defer func() { s.rep.Close() }()
	t0 := time.Now()
	forkDone := s.forkAt == 0
	altPer := max(1, cf.NAlt/12)
	for step := 0; step < 40*cf.NTx && !s.dead; step++ {
		st := s.state()
		if st.pre >= s.n {
			break
		}
		limit := s.n
		if !forkDone {
			limit = s.forkAt
			if st.pre >= s.forkAt {
				if st.pre == s.forkAt {
					s.forkScenario()
				} else {
					s.c.Count("l1_fork_scenarios_skipped", 1)
				}
				forkDone = true
				continue
			}
		}
		s.limit = limit
		a := s.r.IntN(100)
		s.trail = append(s.trail, fmt.Sprintf("#%d a=%d pre=%d com=%d lastDiscard=%d", step, a, st.pre, st.com, s.lastDiscard))
		if len(s.trail) > 14 {
			s.trail = s.trail[1:]
		}
		if debug {
			fmt.Fprintf(os.Stderr, "%s step %d action %d state %s t=%s\n", cf.Name, step, a, st, time.Since(t0))
		}
		switch {
		case a < 46:
			s.deliverBatch(limit)
		case a < 56:
			s.deliverRedundant()
		case a < 62:
			s.restart(limit)
		case a < 69:
			s.discard()
		case a < 77:
			if st.pre > st.com {
				s.allow(st.com + 1 + s.r.Uint64N(st.pre-st.com))
			}
		default:
			s.alterBatch(altPer)
		}
	}
	if s.dead {
		return
	}
	if st := s.state(); st.pre < s.n {
		c.Inconclusive(fmt.Sprintf("[%s %s] schedule ended at frontier %d of %d; last steps: %s", cf.Name, cf, st.pre, s.n, strings.Join(s.trail, " | ")))
		return
	}
	s.alterLeftovers()
	s.allow(s.n)
	if !s.cf.ExtAllow {
		ctx, cancel := context.WithTimeout(context.Background(), opTimeout)
		s.rep.WaitForTx(ctx, s.n, false)
		cancel()
	}
	if s.dead {
		return
	}
	s.compare()
	if s.r.IntN(2) == 0 {
		// and once more from a cold replica
		if err := s.rep.Close(); err == nil && s.openReplica() {
			s.compare()
			c.Distinct("L1/final/compared-after-reopen")
		}
	}
	c.Sample(map[string]any{"level": "L1", "config": cf.String(), "txs": s.n, "truncated_exports": len(s.truncated), "fork_at": s.forkAt, "outcomes": s.stats})
}

// alterLeftovers spends the remaining alteration budget on a scratch frontier: the replica is complete, so
// every alteration of an already held tx must be refused (idempotently) without effect.
func (s *l1run) alterLeftovers() {
	src := s.altSource()
	for s.altLeft > 0 && !s.dead {
		s.altLeft--
		id := 1 + s.r.Uint64N(s.n)
		a, ok := genAlteration(s.r, src, id)
		if !ok {
			continue
		}
		before := s.state()
		res, _, ok := s.offer(a)
		if !ok {
			return
		}
		after := s.state()
		s.c.Eval(1)
		s.c.Count("l1_altered_exports", 1)
		if res.panicS != "" {
			s.viol(res.panicS, fmt.Sprintf("ReplicateTx panicked on an altered export (%s): %s", a.Class, firstLine(res.panicT)), map[string][]byte{"altered.bin": a.Bytes, "panic.txt": []byte(res.panicT)})
			continue
		}
		outcome := errClass(res.err)
		if !sameFrontier(before, after) || res.err == nil {
			outcome = "accepted"
			s.viol("replicatetx/altered-old-tx-accepted", fmt.Sprintf("altered export (%s) of tx %d offered to a replica at %s: err=%v, replica now at %s", a.Class, id, before, res.err, after), map[string][]byte{"altered.bin": a.Bytes})
			s.dead = true
		}
		s.c.Distinct(fmt.Sprintf("L1/alter-held-tx/%s/%s", strings.SplitN(a.Class, "/", 2)[0], outcome))
	}
}

func sha256eq(v []byte, h [32]byte) bool { return sha256.Sum256(v) == h }

func init() {
	fw.RegisterIsolated("c07-l1", func(c *fw.Ctx, data []byte) {
		var cf l1cfg
		if err := json.Unmarshal(data, &cf); err != nil {
			c.Inconclusive("bad case: " + err.Error())
			return
		}
		h := hook.Install(&hook.Config{Seed: c.Seed + int64(len(cf.Name)), Perturb: 0.2, MaxSleep: 300 * time.Microsecond})
		defer hook.Uninstall()
		runL1(c, cf)
		hits := h.Hits()
		hm := map[string]uint64{}
		for k, v := range hits {
			if strings.HasPrefix(k, "store.") {
				hm[k] = v
			}
		}
		c.Set("hook_site_hits", hm)
		if hits["store.replicateTx.beforePrecommit"] == 0 {
			c.Inconclusive("hook site store.replicateTx.beforePrecommit never reached: was the harness built with -tags verif?")
		}
	})
}
