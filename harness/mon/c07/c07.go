// Package c07: monitor for property C07 (see DESIGN.md section 2).
package c07
