// Package c07: replication reproduces exactly the primary's history, nothing else.
//
// L1 (l1.go, wire.go): store ↔ store. A generated primary history is exported and offered to a replica store by a
// PRNG scheduler (concurrent, out-of-order, duplicated, retried, across restarts and precommit discarding), together
// with structure-aware alterations of the exported bytes and non-extending exports.
// L2 (l2.go): pkg/database synchronous replication with the harness as the network.
package c07

import (
	"encoding/json"
	"fmt"
	"os"
	"strings"
	"time"

	"verifharness/internal/fw"
)

func init() { fw.RegisterMonitor("C07", "exploration", Run) }

// devLimit: development aid (mutant runs): VERIF_C07_MAXCASES keeps the first n cases of a level.
func devLimit(cases [][]byte) [][]byte {
	var n int
	if _, err := fmt.Sscan(os.Getenv("VERIF_C07_MAXCASES"), &n); err == nil && n > 0 && n < len(cases) {
		return cases[:n]
	}
	return cases
}

func Run(c *fw.Ctx) {
	c.Rule = "L1: PRNG store configurations (header v0/v1, embedded values on either side, truncated primary, external commit allowance, synced replica, skipIntegrityCheck, window) × PRNG delivery schedules of the primary's honest exports (concurrent batches in/out of order, gaps, duplicates, beyond-window, replica restarts quiescent/mid-flight, precommit discarding, a fork's diverging precommits) × structure-aware alterations of the wire bytes; an evaluation is one ReplicateTx outcome judged against the replica's frontier, one frontier/restart/discard check or one tx/key/proof compared at quiescence. L2: pkg/database primary with syncAcks=k and m replicas, harness-as-network; an evaluation is one acknowledged primary commit checked against the replicas' durable precommitted states, one replica-not-ahead check or one final comparison. L3: real immudb servers over loopback TCP, the real TxReplicator / StreamExportTx / pkg/database paths, client workload (Set, SetAll, ExecAll, references, deletes, metadata, SQL) with several committers, async and sync replication (SyncAcks 1..n), PRNG disturbances (replica restart, database unload/load, primary restart, late replica, primary put back to an older copy); an evaluation is one acknowledged commit checked against the sync replicas' reported precommitted states, one replica-not-ahead sample, one tx / query answer / cross-server VerifiedGet compared at quiescence, one divergence outcome. distinct = level × delivery pattern × alteration class × outcome observed (L3: mode × acks × disturbance × outcome)"
	c.Assume("SHA-256 collision resistance; the primary's own headers and accumulated hashes are the reference")
	c.Assume("values of txs exported after value-log truncation travel as digests: only digests are compared for them (ReadValue documents that a replicated truncated value is indistinguishable from an empty one)")
	only := os.Getenv("VERIF_C07_ONLY")
	if only == "" || strings.Contains(only, "l1") {
		r := c.Rand("c07/l1/configs")
		n := c.N(60, 2000)
		ntx := 80
		nalt := c.N(20000, 400000) / n
		var cases [][]byte
		for i := 0; i < n; i++ {
			b, _ := json.Marshal(genL1(r, i, ntx, nalt))
			if v := os.Getenv("VERIF_C07_CASE"); v != "" && v != fmt.Sprint(i) { // development aid
				continue
			}
			cases = append(cases, b)
		}
		cases = devLimit(cases)
		c.RunIsolated("c07-l1", cases, fw.CasesOpts{Workers: 14, CaseTimout: 10 * time.Minute})
	}
	if only == "" || strings.Contains(only, "l2") {
		runL2All(c)
	}
	if only == "" || strings.Contains(only, "l3") {
		runL3All(c)
	}
	_ = fmt.Sprint
}
