package c07

import (
	"encoding/binary"
	"fmt"
	"math/rand/v2"

	"verifharness/internal/ledger"
)

// The wire format between ExportTx and ReplicateTx:
//
//	hdrLen(4) header entries* [tLen(2) truncatedFlag(1)]
//	header  = id(8) prevAlh(32) ts(8) version(2) {v0: nentries(2) | v1: txmdLen(2) txmd nentries(4)} eh(32) blTxID(8) blRoot(32)
//	entry   = kLen(2) key kvmdLen(2) kvmd vLen(4) value
type fld struct {
	Name string // field name without entry index
	Off  int
	Len  int
	Kind byte // 'n' big-endian number, 'h' hash, 'b' opaque bytes
	Ent  int  // entry index, -1 for header / tail fields
}

type parsed struct {
	flds     []fld
	nentries int
	entOff   []int // start offset of every entry, plus the offset after the last one
	tailOff  int   // offset of tLen (== len when the tail is absent)
}

func be(b []byte) uint64 {
	var v uint64
	for _, x := range b {
		v = v<<8 | uint64(x)
	}
	return v
}

func putBE(b []byte, v uint64) {
	for i := len(b) - 1; i >= 0; i-- {
		b[i] = byte(v)
		v >>= 8
	}
}

// parseExport maps an honest export to its fields; ok=false when the bytes do not follow the layout.
func parseExport(b []byte) (p parsed, ok bool) {
	i := 0
	add := func(name string, n int, kind byte, ent int) bool {
		if n < 0 || i+n > len(b) {
			return false
		}
		p.flds = append(p.flds, fld{name, i, n, kind, ent})
		i += n
		return true
	}
	if !add("hdrLen", 4, 'n', -1) || !add("id", 8, 'n', -1) || !add("prevAlh", 32, 'h', -1) || !add("ts", 8, 'n', -1) || !add("version", 2, 'n', -1) {
		return p, false
	}
	ver := be(b[i-2 : i])
	switch ver {
	case 0:
		if !add("nentries", 2, 'n', -1) {
			return p, false
		}
		p.nentries = int(be(b[i-2 : i]))
	case 1:
		if !add("txmdLen", 2, 'n', -1) {
			return p, false
		}
		if n := int(be(b[i-2 : i])); n > 0 && !add("txmd", n, 'b', -1) {
			return p, false
		}
		if !add("nentries", 4, 'n', -1) {
			return p, false
		}
		p.nentries = int(be(b[i-4 : i]))
	default:
		return p, false
	}
	if !add("eh", 32, 'h', -1) || !add("blTxID", 8, 'n', -1) || !add("blRoot", 32, 'h', -1) {
		return p, false
	}
	if int(be(b[0:4])) != i-4 {
		return p, false
	}
	for e := 0; e < p.nentries; e++ {
		p.entOff = append(p.entOff, i)
		if !add("kLen", 2, 'n', e) {
			return p, false
		}
		if n := int(be(b[i-2 : i])); n > 0 && !add("key", n, 'b', e) {
			return p, false
		}
		if !add("kvmdLen", 2, 'n', e) {
			return p, false
		}
		if n := int(be(b[i-2 : i])); n > 0 && !add("kvmd", n, 'b', e) {
			return p, false
		}
		if !add("vLen", 4, 'n', e) {
			return p, false
		}
		if n := int(be(b[i-4 : i])); n > 0 && !add("value", n, 'b', e) {
			return p, false
		}
	}
	p.entOff = append(p.entOff, i)
	p.tailOff = i
	if i < len(b) {
		if !add("tLen", 2, 'n', -1) {
			return p, false
		}
		if n := int(be(b[i-2 : i])); n > 0 && !add("truncFlag", n, 'n', -1) {
			return p, false
		}
	}
	return p, i == len(b)
}

func (p parsed) field(name string) *fld {
	for i := range p.flds {
		if p.flds[i].Name == name {
			return &p.flds[i]
		}
	}
	return nil
}

func (p parsed) fieldAt(off int) string {
	for _, f := range p.flds {
		if off >= f.Off && off < f.Off+f.Len {
			return f.Name
		}
	}
	return "none"
}

// family of a field: what binds it on the replica side.
//
//	"bound"   header fields compared with the replica's own chain (id, prevAlh, blTxID/blRoot), or with the content (eh, nentries)
//	"unbound" header fields that enter the Alh but that nothing on the replica can cross-check (ts, version, tx metadata)
//	"content" entries and the truncation tail (bound through Eh)
//	"frame"   hdrLen
func family(name string) string {
	switch name {
	case "id", "prevAlh", "blTxID", "blRoot", "eh", "nentries":
		return "bound"
	case "ts", "version", "txmdLen", "txmd":
		return "unbound"
	case "hdrLen":
		return "frame"
	}
	return "content"
}

// alteration is one altered / non-extending export offered to the replica.
type alteration struct {
	Bytes  []byte
	Class  string // alteration class (field/op, structural op, non-extending kind)
	Field  string // field the alteration landed in (for the signature)
	Family string // bound | unbound | content | frame | nonext
}

// altSource is what the generator may draw from: the honest exports of the primary and its accumulated hashes.
type altSource struct {
	exports map[uint64][]byte // honest exports by id (primary chain)
	alhs    [][32]byte        // alhs[i] = Alh of tx i+1 on the primary
	other   map[uint64][]byte // exports of a fork of the primary (same ids, other content), may be empty
	n       uint64
	forkAt  uint64
}

func clone(b []byte) []byte { return append([]byte(nil), b...) }

func mutNumeric(r *rand.Rand, b []byte) string {
	old := be(b)
	max := uint64(1)<<(8*uint(len(b))) - 1
	if len(b) == 8 {
		max = ^uint64(0)
	}
	for try := 0; try < 8; try++ {
		var v uint64
		var op string
		switch r.IntN(7) {
		case 0:
			v, op = old+1, "plus1"
		case 1:
			v, op = old-1, "minus1"
		case 2:
			v, op = 0, "zero"
		case 3:
			v, op = max, "max"
		case 4:
			v, op = old^(1<<uint(r.IntN(8*len(b)))), "bitflip"
		case 5:
			v, op = old+uint64(2+r.IntN(6)), "plus-small"
		default:
			v, op = r.Uint64(), "random"
		}
		v &= max
		if v != old {
			putBE(b, v)
			return op
		}
	}
	putBE(b, old^1)
	return "bitflip"
}

func mutBytes(r *rand.Rand, b []byte) string {
	switch r.IntN(3) {
	case 0:
		for i := range b {
			b[i] = byte(r.IntN(256))
		}
		b[0] ^= 1 // make sure something changed even for 1-byte fields drawn equal
		return "random"
	case 1:
		b[len(b)-1] ^= 1 << uint(r.IntN(8))
		return "bitflip-last"
	default:
		b[r.IntN(len(b))] ^= 1 << uint(r.IntN(8))
		return "bitflip"
	}
}

// setEntries rebuilds an export from the header of b (with the entry count rewritten) and the given entry byte ranges.
func rebuild(b []byte, p parsed, ents [][]byte) []byte {
	out := clone(b[:p.entOff[0]])
	if f := p.field("nentries"); f != nil {
		putBE(out[f.Off:f.Off+f.Len], uint64(len(ents)))
	}
	for _, e := range ents {
		out = append(out, e...)
	}
	return append(out, b[p.tailOff:]...)
}

func (p parsed) entries(b []byte) [][]byte {
	var out [][]byte
	for e := 0; e < p.nentries; e++ {
		out = append(out, b[p.entOff[e]:p.entOff[e+1]])
	}
	return out
}

// genAlteration derives one alteration of the honest export of tx id (the tx the replica expects next).
func genAlteration(r *rand.Rand, src *altSource, id uint64) (alteration, bool) {
	honest := src.exports[id]
	p, ok := parseExport(honest)
	if !ok {
		return alteration{}, false
	}
	b := clone(honest)
	switch c := r.IntN(100); {
	case c < 52: // one field, structure-aware
		names := map[string][]int{}
		var order []string
		for i, f := range p.flds {
			if _, ok := names[f.Name]; !ok {
				order = append(order, f.Name)
			}
			names[f.Name] = append(names[f.Name], i)
		}
		name := order[r.IntN(len(order))]
		f := p.flds[names[name][r.IntN(len(names[name]))]]
		var op string
		if f.Kind == 'n' {
			op = mutNumeric(r, b[f.Off:f.Off+f.Len])
		} else {
			op = mutBytes(r, b[f.Off:f.Off+f.Len])
		}
		return alteration{b, name + "/" + op, name, family(name)}, true
	case c < 64: // random bit flips
		n := 1 + r.IntN(3)
		first, fam := "", ""
		// several flips: what decides acceptance is the most weakly bound field touched (content, then unbound header fields)
		rank := map[string]int{"content": 3, "unbound": 2, "bound": 1, "frame": 1}
		for k := 0; k < n; k++ {
			off := r.IntN(len(b))
			b[off] ^= 1 << uint(r.IntN(8))
			f := p.fieldAt(off)
			if rank[family(f)] > rank[fam] {
				first, fam = f, family(f)
			}
		}
		if string(b) == string(honest) {
			return alteration{}, false
		}
		return alteration{b, fmt.Sprintf("bitflips%d/%s", n, first), first, fam}, true
	case c < 82: // structural
		ents := p.entries(b)
		switch r.IntN(9) {
		case 0:
			cut := 1 + r.IntN(min(len(b)-1, 40))
			return alteration{b[:len(b)-cut], "struct/truncated-tail", "frame", "content"}, true
		case 1:
			junk := make([]byte, 1+r.IntN(8))
			for i := range junk {
				junk[i] = byte(r.IntN(256))
			}
			return alteration{append(b, junk...), "struct/appended-junk", "frame", "content"}, true
		case 2:
			if len(ents) < 2 {
				return alteration{}, false
			}
			k := r.IntN(len(ents))
			ne := append(append([][]byte{}, ents[:k]...), ents[k+1:]...)
			return alteration{rebuild(b, p, ne), "struct/dropped-entry", "entries", "content"}, true
		case 3:
			k := r.IntN(len(ents))
			ne := append(append([][]byte{}, ents...), ents[k])
			return alteration{rebuild(b, p, ne), "struct/duplicated-entry", "entries", "content"}, true
		case 4:
			if len(ents) < 2 {
				return alteration{}, false
			}
			ne := append([][]byte{}, ents...)
			i, j := r.IntN(len(ne)), r.IntN(len(ne))
			if i == j {
				j = (i + 1) % len(ne)
			}
			ne[i], ne[j] = ne[j], ne[i]
			if string(ne[i]) == string(ne[j]) {
				return alteration{}, false
			}
			return alteration{rebuild(b, p, ne), "struct/swapped-entries", "entries", "content"}, true
		case 5: // entries of another tx under this header
			oid := 1 + r.Uint64N(src.n)
			ob := src.exports[oid]
			op, ok := parseExport(ob)
			if !ok || oid == id {
				return alteration{}, false
			}
			return alteration{rebuild(b, p, op.entries(ob)), "struct/entries-of-another-tx", "entries", "content"}, true
		case 6: // value replaced by one of the same length
			var cands []fld
			for _, f := range p.flds {
				if f.Name == "value" {
					cands = append(cands, f)
				}
			}
			if len(cands) == 0 {
				return alteration{}, false
			}
			f := cands[r.IntN(len(cands))]
			for i := f.Off; i < f.Off+f.Len; i++ {
				b[i] = byte('A' + r.IntN(26))
			}
			if string(b) == string(honest) {
				return alteration{}, false
			}
			return alteration{b, "struct/value-replaced", "value", "content"}, true
		case 7: // empty value made non-empty / non-empty made empty (length and bytes changed consistently)
			k := r.IntN(len(ents))
			e := ents[k]
			kl := int(be(e[0:2]))
			ml := int(be(e[2+kl : 4+kl]))
			vo := 4 + kl + ml
			vl := int(be(e[vo : vo+4]))
			ne := append([][]byte{}, ents...)
			x := clone(e[:vo+4])
			if vl == 0 {
				putBE(x[vo:vo+4], 3)
				x = append(x, 'n', 'e', 'w')
			} else {
				putBE(x[vo:vo+4], 0)
			}
			ne[k] = x
			return alteration{rebuild(b, p, ne), "struct/value-emptiness-changed", "value", "content"}, true
		default: // tail dropped: the pre-truncation format, same tx
			if p.tailOff == len(b) {
				return alteration{}, false
			}
			return alteration{b[:p.tailOff], "struct/tail-dropped", "tLen", "content"}, true
		}
	default: // non-extending exports
		switch r.IntN(7) {
		case 0: // honest export of a later tx
			oid := id + 1 + r.Uint64N(3)
			if ob, ok := src.exports[oid]; ok {
				return alteration{clone(ob), fmt.Sprintf("nonext/later-tx+%d", oid-id), "id", "nonext"}, true
			}
		case 1: // honest export of an earlier tx (idempotent refusal expected)
			if id > 1 {
				oid := 1 + r.Uint64N(id-1)
				return alteration{clone(src.exports[oid]), "nonext/earlier-tx", "id", "nonext"}, true
			}
		case 2: // another tx renumbered to the expected id
			oid := 1 + r.Uint64N(src.n)
			if oid != id {
				ob := clone(src.exports[oid])
				putBE(ob[4:12], id)
				return alteration{ob, "nonext/other-tx-renumbered", "prevAlh", "nonext"}, true
			}
		case 3: // prevAlh of another position of the same chain
			oid := 1 + r.Uint64N(src.n)
			if oid != id-1 {
				f := p.field("prevAlh")
				copy(b[f.Off:], src.alhs[oid-1][:])
				return alteration{b, "nonext/prevalh-of-another-tx", "prevAlh", "nonext"}, true
			}
		case 4: // same id from a fork of the primary
			// the fork's first tx extends the common prefix legitimately: only later ones are non-extending
			if ob, ok := src.other[id]; ok && string(ob) != string(honest) && id > src.forkAt+1 {
				return alteration{clone(ob), "nonext/same-id-from-a-fork", "prevAlh", "nonext"}, true
			}
		case 5: // linked consistently to another (true) root of the same chain: blTxID and blRoot changed together
			if id > 2 {
				j := r.Uint64N(id - 1) // 0 .. id-2, never the honest id-1
				fb, fr := p.field("blTxID"), p.field("blRoot")
				putBE(b[fb.Off:fb.Off+8], j)
				var root [32]byte
				if j > 0 {
					root = ledger.MTH(src.alhs[:j])
				}
				copy(b[fr.Off:], root[:])
				return alteration{b, "nonext/relinked-to-another-true-root", "blTxID+blRoot", "unbound"}, true
			}
		default: // timestamp shifted (one field, content untouched)
			f := p.field("ts")
			putBE(b[f.Off:f.Off+8], be(b[f.Off:f.Off+8])+uint64(1+r.IntN(100000)))
			return alteration{b, "ts/shifted", "ts", "unbound"}, true
		}
		return alteration{}, false
	}
}

var _ = binary.BigEndian
