package c07

import (
	"context"
	"fmt"
	"strings"

	"github.com/codenotary/immudb/pkg/api/schema"

	"verifharness/internal/fw"
)

// Handshake scenario (L2): the primary side of the sync-replication handshake, db.ExportTxByID with a populated
// ReplicaState, is offered replica states of every kind while writers are blocked waiting for syncAcks:
//
//	honest        the real state of a replica that replicated the txs
//	diverged-real the real state of a replica that precommitted a tx with the right id and other content (fail-over)
//	diverged-pre  right ids, another Alh at the precommitted id            diverged-com  another Alh at the committed id
//	ahead         a precommitted id the primary does not have               garbage       Alh of any length / random
//	replayed      an older real state of the same replica                   (forged ones also under an unknown uuid)
//
// Everything is sequential, the stores are not synced (an allowance commits at once), so the primary's committed
// frontier can only move inside a handshake. Oracle: a handshake that returns an error to the replica leaves the
// frontier where it was; every tx the primary commits is HELD, with the primary's Alh, by at least syncAcks replicas --
// judged by reading the replica databases, never by what was presented to the primary.
func runHandshake(c *fw.Ctx, cf l2cfg) {
	cf.Synced = false
	cf.Name += "-handshake"
	s := &l2run{c: c, cf: cf, palh: map[uint64][32]byte{}}
	if !s.open() {
		return
	}
	defer func() {
		s.pri.Close()
		for _, r := range s.reps {
			r.db.Close()
		}
	}()
	r := fw.NewRand(c.Seed, "c07/"+cf.Name)
	exports := map[uint64][]byte{}
	bg := context.Background()
	history := map[string][]*schema.ReplicaState{}

	pcommitted := func() uint64 { st, _ := s.pri.CurrentState(); return st.TxId }
	stateOf := func(rp *l2replica) *schema.ReplicaState {
		st, err := rp.db.CurrentState()
		if err != nil {
			return nil
		}
		return &schema.ReplicaState{UUID: rp.uuid, CommittedTxID: st.TxId, CommittedAlh: st.TxHash, PrecommittedTxID: st.PrecommittedTxId, PrecommittedAlh: st.PrecommittedTxHash}
	}
	// holds: does the replica database really contain tx id with that Alh (precommitted or committed)?
	holds := func(rp *l2replica, id uint64, alh [32]byte) bool {
		st, err := rp.db.CurrentState()
		if err != nil || st.PrecommittedTxId < id {
			return false
		}
		if st.PrecommittedTxId == id {
			return toAlh(st.PrecommittedTxHash) == alh
		}
		ctx, cancel := context.WithTimeout(bg, opTimeout)
		defer cancel()
		b, _, _, err := rp.db.ExportTxByID(ctx, &schema.ExportTxRequest{Tx: id, AllowPreCommitted: true})
		return err == nil && len(b) > 4 && s.primaryAlhOf(b) == alh
	}
	rnd32 := func() []byte {
		b := make([]byte, 32)
		for i := range b {
			b[i] = byte(r.IntN(256))
		}
		return b
	}
	dead := false
	// present offers one replica state to the primary and judges what the primary did with it.
	present := func(class string, st *schema.ReplicaState, next uint64) (may uint64, mayAlh [32]byte, err error) {
		c0 := pcommitted()
		ctx, cancel := context.WithTimeout(bg, opTimeout)
		_, may, mayAlh, err = s.pri.ExportTxByID(ctx, &schema.ExportTxRequest{Tx: next, AllowPreCommitted: true, SkipIntegrityCheck: cf.Skip, ReplicaState: st})
		cancel()
		c1 := pcommitted()
		c.Eval(1)
		outcome := "accepted"
		if err != nil {
			switch {
			case strings.Contains(err.Error(), "diverged"):
				outcome = "refused-diverged"
			case strings.Contains(err.Error(), "lags behind"):
				outcome = "refused-lagging"
			default:
				outcome = "refused-other"
			}
		}
		c.Distinct(fmt.Sprintf("L2/handshake/%s/%s/k=%d/frontier-moved=%v", class, outcome, cf.K, c1 != c0))
		s.count("handshake/" + class + "/" + outcome)
		desc := fmt.Sprintf("state presented (%s, uuid %s): committed %d/%x precommitted %d/%x; primary answered err=%v; its committed frontier went %d -> %d", class, st.UUID, st.CommittedTxID, st.CommittedAlh, st.PrecommittedTxID, st.PrecommittedAlh, err, c0, c1)
		if err != nil && c1 != c0 {
			sig := "sync/refused-handshake-changed-committed-frontier/" + class
			if strings.HasPrefix(class, "diverged") {
				sig = "sync/ack-counted-for-diverged-replica"
			}
			s.viol(sig, desc+": a handshake refused to the replica was counted as an acknowledgement")
			dead = true
		}
		for id := c0 + 1; id <= c1; id++ {
			n := 0
			var who []string
			for _, rp := range s.reps {
				h := holds(rp, id, s.palh[id])
				if h {
					n++
				}
				who = append(who, fmt.Sprintf("%s holds=%v", rp.uuid, h))
			}
			c.Eval(1)
			if n < cf.K {
				sig := "sync/primary-committed-before-k-replicas-hold-the-tx"
				if class != "honest" && class != "replayed" {
					sig = "sync/ack-counted-for-diverged-replica"
				}
				s.viol(sig, fmt.Sprintf("the primary committed tx %d (alh %x) while %d of the required %d replicas hold it (%s); %s", id, s.palh[id], n, cf.K, strings.Join(who, ", "), desc))
				dead = true
				break
			}
		}
		return
	}
	// advance: the replica replicates its next tx honestly and presents its real state
	advance := func(rp *l2replica, top uint64) {
		st := stateOf(rp)
		if st == nil {
			return
		}
		if b, ok := exports[st.PrecommittedTxID+1]; ok && st.PrecommittedTxID < top {
			ctx, cancel := context.WithTimeout(bg, opTimeout)
			_, err := rp.db.ReplicateTx(ctx, b, cf.Skip, false)
			cancel()
			if err != nil {
				s.viol("replicatetx/honest-next-export-refused/handshake", fmt.Sprintf("%s: honest tx %d: %v", rp.uuid, st.PrecommittedTxID+1, err))
				dead = true
				return
			}
			st = stateOf(rp)
		}
		history[rp.uuid] = append(history[rp.uuid], st)
		may, mayAlh, err := present("honest", st, st.PrecommittedTxID+1)
		if err != nil {
			s.viol("sync/honest-handshake-refused", fmt.Sprintf("%s presented its real state (committed %d precommitted %d): %v", rp.uuid, st.CommittedTxID, st.PrecommittedTxID, err))
			dead = true
			return
		}
		if may > st.CommittedTxID {
			if err := rp.db.AllowCommitUpto(may, mayAlh); err != nil {
				s.viol("sync/replica-refuses-honest-allowance", fmt.Sprintf("%s AllowCommitUpto(%d): %v", rp.uuid, may, err))
				dead = true
			}
		}
	}
	type wres struct {
		hdr *schema.TxHeader
		err error
	}
	base := uint64(0)
	for round := 0; round < 5 && !dead; round++ {
		nw := 1 + r.IntN(3)
		ch := make(chan wres, nw)
		for i := 0; i < nw; i++ {
			val := []byte(fmt.Sprintf("v%d", r.Uint64()))
			go func(i int) {
				ctx, cancel := context.WithTimeout(bg, 2*opTimeout)
				defer cancel()
				h, err := s.pri.Set(ctx, &schema.SetRequest{KVs: []*schema.KeyValue{{Key: []byte(fmt.Sprintf("hs-%d-%d", round, i)), Value: val}}})
				ch <- wres{h, err}
			}(i)
			ctx, cancel := context.WithTimeout(bg, opTimeout)
			err := s.pri.WaitForTx(ctx, base+uint64(i)+1, true)
			cancel()
			if err != nil {
				c.Inconclusive(fmt.Sprintf("[%s] handshake: writer's tx not precommitted on the primary: %v", cf.Name, err))
				return
			}
		}
		top := base + uint64(nw)
		for id := base + 1; id <= top; id++ {
			b, _, _, err := s.pri.ExportTxByID(bg, &schema.ExportTxRequest{Tx: id, AllowPreCommitted: true, SkipIntegrityCheck: cf.Skip})
			if err != nil || len(b) == 0 {
				c.Inconclusive(fmt.Sprintf("[%s] handshake: export of precommitted tx %d: %v", cf.Name, id, err))
				return
			}
			exports[id] = append([]byte(nil), b...)
			hb, _, _, _ := s.pri.ExportTxByID(bg, &schema.ExportTxRequest{Tx: id, AllowPreCommitted: true})
			s.palh[id] = s.primaryAlhOf(hb)
		}
		for ev := 3 + r.IntN(6); ev > 0 && !dead; ev-- {
			rp := s.reps[r.IntN(len(s.reps))]
			st := stateOf(rp)
			if st == nil {
				continue
			}
			uuid := rp.uuid
			ghost := r.IntN(3) == 0
			if ghost {
				uuid = fmt.Sprintf("unknown-%d", r.IntN(2))
			}
			forged := &schema.ReplicaState{UUID: uuid, CommittedTxID: st.CommittedTxID, CommittedAlh: st.CommittedAlh, PrecommittedTxID: st.PrecommittedTxID, PrecommittedAlh: st.PrecommittedAlh}
			switch k := r.IntN(10); {
			case k < 3:
				advance(rp, top)
			case k == 3 && st.PrecommittedTxID < top: // a replica that really precommitted another tx under the next id
				id := st.PrecommittedTxID + 1
				p, ok := parseExport(exports[id])
				if !ok {
					continue
				}
				alt := clone(exports[id])
				f := p.field("ts")
				putBE(alt[f.Off:f.Off+8], be(alt[f.Off:f.Off+8])+uint64(1+r.IntN(1000)))
				ctx, cancel := context.WithTimeout(bg, opTimeout)
				_, err := rp.db.ReplicateTx(ctx, alt, cf.Skip, false)
				cancel()
				if err != nil {
					continue // the altered export was refused: no diverged replica to present
				}
				present("diverged-real", stateOf(rp), id+1)
				if err := rp.db.DiscardPrecommittedTxsSince(id); err != nil {
					s.viol("sync/discard-diverged-failed", fmt.Sprintf("%s DiscardPrecommittedTxsSince(%d): %v", rp.uuid, id, err))
					dead = true
				}
			case k == 4 || k == 5:
				if st.PrecommittedTxID >= top {
					continue
				}
				forged.PrecommittedTxID = st.PrecommittedTxID + 1 + r.Uint64N(top-st.PrecommittedTxID)
				forged.PrecommittedAlh = rnd32()
				present("diverged-pre", forged, forged.PrecommittedTxID+1)
			case k == 6:
				if st.CommittedTxID == 0 {
					continue
				}
				forged.CommittedAlh = rnd32()
				if r.IntN(2) == 0 && st.PrecommittedTxID < top {
					forged.PrecommittedTxID = st.PrecommittedTxID + 1
					c32 := s.palh[forged.PrecommittedTxID]
					forged.PrecommittedAlh = c32[:]
				}
				present("diverged-com", forged, forged.PrecommittedTxID+1)
			case k == 7:
				forged.PrecommittedTxID = top + 1 + r.Uint64N(3)
				forged.PrecommittedAlh = rnd32()
				present("ahead", forged, forged.PrecommittedTxID+1)
			case k == 8:
				forged.PrecommittedTxID = st.PrecommittedTxID + uint64(r.IntN(2))
				if forged.PrecommittedTxID == 0 || forged.PrecommittedTxID > top {
					continue
				}
				forged.PrecommittedAlh = rnd32()[:[]int{0, 5, 31, 32}[r.IntN(4)]]
				if r.IntN(2) == 0 {
					forged.PrecommittedAlh = append(rnd32(), rnd32()[:8]...)
				}
				present("garbage", forged, forged.PrecommittedTxID+1)
			default:
				if h := history[rp.uuid]; len(h) > 1 {
					old := h[r.IntN(len(h)-1)]
					present("replayed", old, old.PrecommittedTxID+1)
				}
			}
		}
		// the round ends honestly: everybody replicates everything, the writers are acknowledged
		for i := 0; i < len(s.reps)*(nw+1) && !dead; i++ {
			advance(s.reps[i%len(s.reps)], top)
		}
		if dead {
			return
		}
		for i := 0; i < nw; i++ {
			w := <-ch
			c.Eval(1)
			if w.err != nil {
				c.Inconclusive(fmt.Sprintf("[%s] handshake: a writer was not acknowledged although every replica holds its tx: %v", cf.Name, w.err))
				return
			}
			if a := schema.TxHeaderFromProto(w.hdr).Alh(); a != s.palh[w.hdr.Id] {
				s.viol("sync/primary-acknowledged-header-changed", fmt.Sprintf("writer acknowledged tx %d with alh %x, exported while precommitted with %x", w.hdr.Id, a[:6], s.palh[w.hdr.Id]))
			}
		}
		pst, _ := s.pri.CurrentState()
		if pst.TxId != top {
			s.viol("sync/committed-frontier-after-honest-round", fmt.Sprintf("all replicas hold up to %d, the primary committed %d", top, pst.TxId))
			return
		}
		for _, rp := range s.reps {
			advance(rp, top) // picks up the final allowance
		}
		base = top
	}
}
