package c14

import (
	"fmt"
	"regexp"
	"runtime"
	"strings"
	"time"
)

// Non-termination is decided by goroutine STATE, never by elapsed time: when a
// tracked operation has not returned within a (short, generous relative to the
// expected microseconds) limit, all goroutines are dumped twice, 2 s apart. A
// deadlock is reported only when the tracked goroutine is parked in the same
// synchronisation primitive with the same stack in both dumps AND nobody can
// release it (see deadlockVerdict). Everything else is inconclusive.

type gor struct {
	id     string
	state  string   // "sync.Mutex.Lock", "chan receive", "running", …
	frames []string // function names, innermost first, arguments stripped
}

const immudbPrefix = "github.com/codenotary/immudb/"

var hdrRe = regexp.MustCompile(`^goroutine (\d+) \[([^\],]+)`)

func allStacks() string {
	for n := 1 << 20; ; n *= 2 {
		buf := make([]byte, n)
		if m := runtime.Stack(buf, true); m < n {
			return string(buf[:m])
		}
		if n >= 256<<20 {
			return string(buf)
		}
	}
}

func parseDump(text string) map[string]gor {
	out := map[string]gor{}
	for _, blk := range strings.Split(text, "\n\n") {
		lines := strings.Split(strings.TrimSpace(blk), "\n")
		if len(lines) == 0 {
			continue
		}
		m := hdrRe.FindStringSubmatch(lines[0])
		if m == nil {
			continue
		}
		g := gor{id: m[1], state: m[2]}
		for _, l := range lines[1:] {
			if l == "" || l[0] == '\t' || strings.HasPrefix(l, "created by ") {
				continue
			}
			if i := strings.LastIndexByte(l, '('); i > 0 {
				l = l[:i]
			}
			g.frames = append(g.frames, l)
		}
		out[g.id] = g
	}
	return out
}

func goid() string {
	var buf [64]byte
	n := runtime.Stack(buf[:], false)
	m := hdrRe.FindStringSubmatch(string(buf[:n]))
	if m == nil {
		return ""
	}
	return m[1]
}

func parked(state string) bool {
	switch state {
	case "sync.Mutex.Lock", "sync.RWMutex.Lock", "sync.RWMutex.RLock", "sync.Cond.Wait", "semacquire",
		"chan receive", "chan send", "select", "sync.WaitGroup.Wait":
		return true
	}
	return false
}

func firstImmudbFrame(g gor) string {
	for _, f := range g.frames {
		if strings.HasPrefix(f, immudbPrefix) && !strings.Contains(f, "/verifhook") {
			f = strings.TrimPrefix(f, immudbPrefix)
			if i := strings.LastIndexByte(f, '/'); i >= 0 {
				f = f[i+1:] // "store.(*ImmuStore).ExportTx"
			}
			return f
		}
	}
	return ""
}

func hasFrame(g gor, fn string) bool {
	for _, f := range g.frames {
		if strings.HasSuffix(f, fn) {
			return true
		}
	}
	return false
}

func sameStack(a, b gor) bool {
	if a.state != b.state || len(a.frames) != len(b.frames) {
		return false
	}
	for i := range a.frames {
		if a.frames[i] != b.frames[i] {
			return false
		}
	}
	return true
}

type hangVerdict struct {
	Deadlock bool
	Frame    string // immudb function the goroutine is blocked in
	Prim     string // primitive it is parked on
	Why      string // when not a deadlock
	Dump     string
}

// deadlockVerdict inspects the tracked goroutine in two dumps taken 2 s apart.
//
// Deadlock is concluded when the goroutine is parked on the same primitive with an
// identical stack in both dumps and
//   - (lock private to one function) it waits in sync.Mutex.Lock called directly from
//     an immudb function F, and every goroutine that is anywhere inside F is parked in
//     that very same way in both dumps: the mutex is only ever held inside F, so no
//     running holder exists and nobody will release it; or
//   - (general) no goroutine with an immudb frame changed between the dumps and none
//     of them is running / runnable / in a syscall / sleeping.
func deadlockVerdict(id string) hangVerdict {
	t1 := allStacks()
	time.Sleep(2 * time.Second)
	t2 := allStacks()
	d1, d2 := parseDump(t1), parseDump(t2)
	v := hangVerdict{Dump: t2}
	a, ok1 := d1[id]
	b, ok2 := d2[id]
	if !ok1 || !ok2 {
		v.Why = "the operation returned while the dumps were taken"
		return v
	}
	v.Prim, v.Frame = b.state, firstImmudbFrame(b)
	if !parked(a.state) || !sameStack(a, b) {
		v.Why = fmt.Sprintf("goroutine state %q / %q: not parked in the same place in both dumps", a.state, b.state)
		return v
	}
	if v.Frame == "" {
		v.Why = "blocked outside immudb code"
		return v
	}
	// rule 1: function-private mutex
	if b.state == "sync.Mutex.Lock" && len(b.frames) > 0 {
		direct := false
		for i, f := range b.frames {
			if strings.HasPrefix(f, immudbPrefix) {
				direct = i > 0 && strings.HasPrefix(b.frames[i-1], "sync.(*Mutex).Lock")
				break
			}
		}
		if direct && privateLockFrames[v.Frame] {
			full := ""
			for _, f := range b.frames {
				if strings.HasPrefix(f, immudbPrefix) {
					full = f
					break
				}
			}
			free := false
			for gid, g2 := range d2 {
				if !hasFrame(g2, full) {
					continue
				}
				g1, ok := d1[gid]
				if !ok || g2.state != "sync.Mutex.Lock" || !sameStack(g1, g2) || firstImmudbFrame(g2) != v.Frame {
					free = true // somebody inside F is not waiting for the lock: it may hold and release it
				}
			}
			if !free {
				v.Deadlock = true
				return v
			}
			v.Why = "another goroutine inside " + v.Frame + " is not parked on the lock"
			return v
		}
	}
	// rule 3: value logs handed out by fetchVLog / fetchAnyVLog
	if b.state == "sync.Cond.Wait" && (strings.HasSuffix(v.Frame, ".fetchVLog") || strings.HasSuffix(v.Frame, ".fetchAnyVLog")) {
		if ok, why := vlogWaitCycle(d1, d2); ok {
			v.Deadlock = true
			return v
		} else {
			v.Why = why
			return v
		}
	}
	// rule 2: global quiescence of immudb code
	for gid, g2 := range d2 {
		if firstImmudbFrame(g2) == "" {
			continue
		}
		g1, ok := d1[gid]
		if !ok || !sameStack(g1, g2) || !parked(g2.state) {
			v.Why = fmt.Sprintf("goroutine %s (%s in %s) is not parked or moved between the dumps", gid, g2.state, firstImmudbFrame(g2))
			return v
		}
	}
	for gid := range d1 {
		if _, ok := d2[gid]; !ok && firstImmudbFrame(d1[gid]) != "" {
			v.Why = "an immudb goroutine finished between the dumps"
			return v
		}
	}
	v.Deadlock = true
	return v
}

// vlogWaitCycle: value logs are taken and given back only inside methods of *ImmuStore
// (appendValuesIntoAnyVLog, readValueAt, sync, Close, TruncateUptoTx), i.e. a holder is always a
// goroutine inside embedded/store or embedded/appendable code. When every such goroutine is parked
// with an identical stack in both dumps, no holder can give a value log back and nobody will
// signal the condition variable again: a goroutine waiting in fetchVLog / fetchAnyVLog waits forever.
func vlogWaitCycle(d1, d2 map[string]gor) (bool, string) {
	for gid, g2 := range d2 {
		inside := false
		for _, f := range g2.frames {
			if strings.HasPrefix(f, immudbPrefix+"embedded/store.") || strings.HasPrefix(f, immudbPrefix+"embedded/appendable") {
				inside = true
				break
			}
		}
		if !inside {
			continue
		}
		g1, ok := d1[gid]
		if !ok || !parked(g2.state) || !sameStack(g1, g2) {
			return false, fmt.Sprintf("goroutine %s (%s in %s) is inside the store and not parked in the same place in both dumps", gid, g2.state, firstImmudbFrame(g2))
		}
	}
	for gid, g1 := range d1 {
		if _, ok := d2[gid]; !ok && firstImmudbFrame(g1) != "" {
			return false, "an immudb goroutine finished between the dumps"
		}
	}
	return true, ""
}

// storeStall is used when a whole phase stopped making progress: it looks for a goroutine
// parked in fetchVLog / fetchAnyVLog and applies the rules above to it.
func storeStall() hangVerdict {
	for id, g := range parseDump(allStacks()) {
		if g.state == "sync.Cond.Wait" && strings.HasSuffix(firstImmudbFrame(g), ".fetchVLog") && hasFrame(g, "store.(*ImmuStore).TruncateUptoTx") {
			return deadlockVerdict(id)
		}
	}
	for id, g := range parseDump(allStacks()) {
		if parked(g.state) && strings.HasPrefix(firstImmudbFrame(g), "store.(*ImmuStore).") {
			return deadlockVerdict(id)
		}
	}
	return hangVerdict{Why: "no goroutine is parked inside the store"}
}

// immudb functions whose sync.Mutex taken directly in the function body is released
// inside the same function on every intended path (so a holder is always inside it).
var privateLockFrames = map[string]bool{
	"store.(*ImmuStore).ExportTx": true, // _valBsMux: Lock/Unlock pairs inside the entry loop only
}

// tracked runs f in its own goroutine and waits up to limit for it to return.
// It returns (true, "") when f returned, otherwise the goroutine id for the dumps.
func tracked(limit time.Duration, f func()) (bool, string) {
	idc := make(chan string, 1)
	done := make(chan struct{})
	go func() {
		idc <- goid()
		defer close(done)
		f()
	}()
	id := <-idc
	select {
	case <-done:
		return true, id
	case <-time.After(limit):
		return false, id
	}
}
