// Package c14: value-log truncation keeps everything at or after the cut readable.
//
// One isolated case = one history. Store histories: 1–8 concurrent committers
// (schedule perturbation at store.precommit.beforeLock, i.e. after the values were
// appended and before an id is assigned, so values land in the value logs out of id
// order), MaxIOConcurrency 1–4, FileSize 256 B – 4 KiB, value cache on/off, empty
// values at any position; then every cut point n on a private copy of the store
// (single / repeated / concurrent truncation, with and without restart) and
// truncations racing with writers and readers in place, restart. The oracle is the
// ledger of acknowledged commits (store.go). Database histories (db.go): catalog
// first, database truncator beyond the catalog's txs, restart, SQL and documents.
// Non-termination is decided by goroutine state (hang.go).
package c14

import (
	"encoding/json"
	"fmt"
	"math/rand/v2"
	"os"
	"time"

	"verifharness/internal/fw"
)

func init() {
	fw.RegisterMonitor("C14", "exploration", Run)
	fw.RegisterIsolated("c14-history", func(c *fw.Ctx, data []byte) {
		var sp spec
		if err := json.Unmarshal(data, &sp); err != nil {
			c.Inconclusive("bad case: " + err.Error())
			return
		}
		if sp.Kind == "db" {
			runDBHistory(c, sp)
		} else {
			runStoreHistory(c, sp)
		}
	})
}

func genSpec(r *rand.Rand, i int, thorough bool) spec {
	sp := spec{
		Name:       fmt.Sprintf("h%d", i),
		Kind:       "store",
		IOConc:     1 + i%4,
		FileSize:   []int{256, 384, 512, 1024, 2048, 4096}[r.IntN(6)],
		VLogCache:  []int{0, 0, 8, 64}[r.IntN(4)],
		Committers: []int{1, 2, 3, 4, 6, 8}[r.IntN(6)],
		NTx:        16 + r.IntN(22),
		RaceTx:     30 + r.IntN(30),
		Truncators: 1 + r.IntN(2),
		Perturb:    []float64{0.3, 0.5, 0.8}[r.IntN(3)],
	}
	if i%2 == 1 {
		sp.MaxConc = sp.Committers + 2 // small "max concurrency range": 3–10
	}
	if thorough {
		sp.NTx = 40 + r.IntN(110)
		sp.MaxCuts = 16
		sp.RaceTx = 60 + r.IntN(120)
	}
	switch {
	case i%6 == 5:
		// database level
		sp.Kind = "db"
		// DDL committing during the truncator's catalog copy: 0-6 times in a row per truncation
		sp.RacingDDL = [3]int{[]int{3, 5, 0, 1, 4, 2, 6}[(i/6)%7], []int{0, 2, 0, 1}[(i/6)%4], []int{1, 0, 4, 3, 0}[(i/6)%5]}
		sp.FileSize = []int{512, 1024, 2048}[r.IntN(3)]
		sp.VLogCache = 0
	case i%12 == 7:
		// control: with embedded values truncation deletes nothing
		sp.Embedded = true
		sp.IOConc = 1
	}
	if i == 0 {
		// the plain sequential history: one committer, one value log, no cache
		sp.Committers, sp.IOConc, sp.VLogCache, sp.FileSize = 1, 1, 0, 256
	}
	return sp
}

func Run(c *fw.Ctx) {
	c.Rule = "PRNG histories (concurrent committers with hook perturbation after the value append, IO concurrency, file size, value cache, empty-value patterns) × every cut point on a private copy (single/repeated/concurrent truncation, restart) + truncations racing writers and readers in place + database-level truncator with SQL/documents; one evaluation = one read/proof/export/follow-up request or truncation compared with the ledger; distinct = (IO concurrency × observed value placement × cut position relative to the tx × empty-value pattern × read path × outcome) observed, plus truncation modes/outcomes and database steps"
	c.Assume("only acknowledged commits are audited; values of txs below the highest requested cut may be unreadable, never different; a truncation that returns an error is harmless")
	c.Assume("a goroutine parked in sync.Mutex.Lock taken directly in ExportTx, with every goroutine inside ExportTx parked the same way in two dumps 2 s apart, can never be released (the mutex is only held inside ExportTx)")
	r := c.Rand("c14/specs")
	n := c.N(12, 400)
	var cases [][]byte
	for i := 0; i < n; i++ {
		sp := genSpec(r, i, c.Thorough())
		if only := os.Getenv("VERIF_C14_ONLY"); only != "" && only != sp.Name && only != sp.Kind {
			continue // development aid: run one history (never set by registered commands)
		}
		b, _ := json.Marshal(sp)
		cases = append(cases, b)
	}
	c.RunIsolated("c14-history", cases, fw.CasesOpts{Workers: c.N(12, 16), CaseTimout: 10 * time.Minute})
}
