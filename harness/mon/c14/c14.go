// Package c14: monitor for property C14 (see DESIGN.md section 2).
package c14
